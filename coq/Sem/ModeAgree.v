(* Sem/ModeAgree.v — C15, whole expressions: the compilation variants of one source (with / without a
   declared environment type, Eval; struct / pointer / map environment) differ, in the model, only in
     (a) the `akind` annotations (read by `int_const` for literals and by `both_kind` at `==`),
     (b) the `fast` flag of function calls,
     (c) `c_mapenv` and the shape of the environment value.
   This file proves on the reference semantics `Sem.eval` that two such variants which both succeed
   return the same value, the same call trace and the same allocation count (modes_agree_gen and its
   instances), keeps the statement for the trees the checker REALLY produces visible
   (modes_agree_full_statement) and refutes it (modes_agree_refuted: `Half(I / 2 + Y)`).
   Definitions first (Part 1), proofs after. *)
From Coq Require Import ZArith Bool List String Floats Lia.
Require Import X.Base.Num X.Base.NumProofs X.Base.Value X.Syn.Ast X.gen.GenHelpers X.Sem.Prim X.Sem.Sem.
Require Import X.BC.ModeProofs X.Corr.Universe.
Import ListNotations.
Local Open Scope Z_scope.

(* ================================================================== Part 1: definitions *)

(* ---- same source: equal up to the kind of every annotation and the fast flag ---- *)
Definition erase_ann (a : ann) : ann := mkAnn (aloc a) RKInvalid.

Fixpoint erase (e : expr) : expr :=
  match e with
  | ENil a => ENil (erase_ann a)
  | EIdent a n ns => EIdent (erase_ann a) n ns
  | EInt a z => EInt (erase_ann a) z
  | EFloat a f => EFloat (erase_ann a) f
  | EBool a b => EBool (erase_ann a) b
  | EStr a s => EStr (erase_ann a) s
  | EConst a v => EConst (erase_ann a) v
  | EUnary a op x => EUnary (erase_ann a) op (erase x)
  | EBinary a op l r => EBinary (erase_ann a) op (erase l) (erase r)
  | EMatches a re l r => EMatches (erase_ann a) re (erase l) (erase r)
  | EProperty a x n ns => EProperty (erase_ann a) (erase x) n ns
  | EIndex a x i => EIndex (erase_ann a) (erase x) (erase i)
  | ESlice a x f t => ESlice (erase_ann a) (erase x) (option_map erase f) (option_map erase t)
  | EMethod a x n args ns => EMethod (erase_ann a) (erase x) n (map erase args) ns
  | EFunction a n args _ => EFunction (erase_ann a) n (map erase args) false
  | EBuiltin a b args => EBuiltin (erase_ann a) b (map erase args)
  | EClosure a x => EClosure (erase_ann a) (erase x)
  | EPointer a => EPointer (erase_ann a)
  | ECond a c x y => ECond (erase_ann a) (erase c) (erase x) (erase y)
  | EArray a es => EArray (erase_ann a) (map erase es)
  | EMap a ps => EMap (erase_ann a) (map erase ps)
  | EPair a k v => EPair (erase_ann a) (erase k) (erase v)
  end.

(* same constructors, names, operators, nil-safe flags, literal values, locations *)
Definition same_shape (e1 e2 : expr) : Prop := erase e1 = erase e2.

(* ---- integer literals ---- *)
(* the kind a literal evaluates to *)
Definition eff_kind (a : ann) : kind := match akind a with RKNum k => k | _ => KInt end.
(* the parser only produces literals in the int range; needed where a literal is annotated `int`
   (it is then pushed as int(z)) and the other variant leaves it unannotated *)
Definition lit_range_ok (a : ann) (z : Z) : bool :=
  match akind a with RKNum KInt => in_range KInt z | _ => true end.
Definition plain_lit (a : ann) (z : Z) : bool := kind_eqb (eff_kind a) KInt && lit_range_ok a z.

Definition arith_un (op : unop) : bool := match op with UPlus | UMinus => true | _ => false end.
Definition arith_bin (op : binop) : bool := match op with BAdd | BSub | BMul | BDiv => true | _ => false end.

(* what checker.isIntegerOrArithmeticOperation / setTypeForIntegers walk through, with literal leaves ONLY *)
Fixpoint lit_shape (e : expr) : bool :=
  match e with
  | EInt _ _ => true
  | EUnary _ op x => arith_un op && lit_shape x
  | EBinary _ op l r => arith_bin op && lit_shape l && lit_shape r
  | _ => false
  end.

(* a literal-only arithmetic tree all of whose literals evaluate to kind k *)
Fixpoint uniform (k : kind) (e : expr) : bool :=
  match e with
  | EInt a z => kind_eqb (eff_kind a) k && lit_range_ok a z
  | EUnary _ op x => arith_un op && uniform k x
  | EBinary _ op l r => arith_bin op && uniform k l && uniform k r
  | _ => false
  end.

Fixpoint first_lit (e : expr) : option kind :=
  match e with
  | EInt a _ => Some (eff_kind a)
  | EUnary _ _ x => first_lit x
  | EBinary _ _ l _ => first_lit l
  | _ => None
  end.

(* Some k: the argument is a literal-only arithmetic tree retyped to k, k other than int *)
Definition retyped_kind (x : expr) : option kind :=
  match first_lit x with
  | Some k => if negb (kind_eqb k KInt) && uniform k x then Some k else None
  | None => None
  end.

Definition is_some {A} (o : option A) : bool := match o with Some _ => true | None => false end.
Definition opt_all (p : expr -> bool) (o : option expr) : bool := match o with Some x => p x | None => true end.

(* ---- the decidable part of well-annotatedness (the CARVE-OUT of the partial theorem):
   every literal is plain (unannotated, or annotated int and in range) except inside an argument of a
   function / method call that is a literal-only arithmetic tree retyped as a whole to one kind.
   `==` annotations and fast flags are unconstrained. ---- *)
Fixpoint wf (e : expr) : bool :=
  match e with
  | EInt a z => plain_lit a z
  | ENil _ | EIdent _ _ _ | EFloat _ _ | EBool _ _ | EStr _ _ | EConst _ _ | EPointer _ => true
  | EUnary _ _ x | EProperty _ x _ _ | EClosure _ x => wf x
  | EBinary _ _ l r | EMatches _ _ l r | EIndex _ l r | EPair _ l r => wf l && wf r
  | ESlice _ x f t => wf x && opt_all wf f && opt_all wf t
  | EMethod _ x _ args _ => wf x && forallb (fun y => wf y || is_some (retyped_kind y)) args
  | EFunction _ _ args _ => forallb (fun y => wf y || is_some (retyped_kind y)) args
  | EBuiltin _ _ args | EArray _ args | EMap _ args => forallb wf args
  | ECond _ c x y => wf c && wf x && wf y
  end.

(* ---- the call sites with a retyped argument: callee name, argument position, kind ---- *)
Record site := mkSite { st_method : bool; st_name : string; st_pos : nat; st_kind : kind }.

Definition arg_class (x : expr) : option kind := if wf x then None else retyped_kind x.

Fixpoint arg_sites (m : bool) (name : string) (args : list expr) (i : nat) : list site :=
  match args with
  | [] => []
  | x :: r => match arg_class x with Some k => [mkSite m name i k] | None => [] end ++ arg_sites m name r (S i)
  end.

Definition opt_sites (f : expr -> list site) (o : option expr) : list site :=
  match o with Some x => f x | None => [] end.

Fixpoint sites (e : expr) : list site :=
  match e with
  | ENil _ | EIdent _ _ _ | EInt _ _ | EFloat _ _ | EBool _ _ | EStr _ _ | EConst _ _ | EPointer _ => []
  | EUnary _ _ x | EProperty _ x _ _ | EClosure _ x => sites x
  | EBinary _ _ l r | EMatches _ _ l r | EIndex _ l r | EPair _ l r => sites l ++ sites r
  | ESlice _ x f t => sites x ++ opt_sites sites f ++ opt_sites sites t
  | EMethod _ x name args _ => sites x ++ arg_sites true name args 0 ++ flat_map sites args
  | EFunction _ name args _ => arg_sites false name args 0 ++ flat_map sites args
  | EBuiltin _ _ args | EArray _ args | EMap _ args => flat_map sites args
  | ECond _ c x y => sites c ++ sites x ++ sites y
  end.

(* the parameter that receives argument j, as reflect.Value.Call (Prim.args_ok) pairs them *)
Fixpoint param_at (ins : list ty) (variadic : bool) (j : nat) {struct ins} : option ty :=
  match ins with
  | [] => None
  | [TSlice e] => if variadic then Some e else match j with O => Some (TSlice e) | S _ => None end
  | p :: ins' => match j with O => Some p | S j' => param_at ins' variadic j' end
  end.

(* what static typing of the callee gives (C03's domain): a literal argument is retyped to kind k only
   where whatever function the name resolves to at run time has a parameter of type k at that position.
   For a function call the receiver is the environment; for a method call it is any value. *)
Definition site_ok (fe : fenv) (env : value) (st : site) : Prop :=
  forall recv id sg,
    (st_method st = false -> recv = env) ->
    fetch_fn fe recv (st_name st) = Ok id -> fn_sig fe id = Some sg ->
    param_at (s_ins sg) (s_variadic sg) (st_pos st) = Some (TNum (st_kind st)).

Definition ok (fe : fenv) (env : value) (e : expr) : Prop :=
  wf e = true /\ Forall (site_ok fe env) (sites e).

(* the flag s_fast of a signature documents the Go type func(...interface{}) interface{} *)
Definition fast_sound (fe : fenv) : Prop :=
  forall id sg, fn_sig fe id = Some sg -> s_fast sg = true -> s_ins sg = [TSlice TIface] /\ s_variadic sg = true.

(* ---- the trees the checker really produces: setTypeForIntegers retypes the literal leaves of an
   arithmetic argument even when other leaves are not literals (mode = Some k below an arithmetic
   argument retyped to k, reset to None below any other node) ---- *)
Definition retype_kinds : list kind :=
  [KUint; KUint8; KUint16; KUint32; KUint64; KInt8; KInt16; KInt32; KInt64; KF32; KF64].

Fixpoint wf_full (mode : option kind) (e : expr) : bool :=
  match e with
  | EInt a z => kind_eqb (eff_kind a) (match mode with Some k => k | None => KInt end) && lit_range_ok a z
  | ENil _ | EIdent _ _ _ | EFloat _ _ | EBool _ _ | EStr _ _ | EConst _ _ | EPointer _ => true
  | EUnary _ op x => wf_full (if arith_un op then mode else None) x
  | EBinary _ op l r => wf_full (if arith_bin op then mode else None) l && wf_full (if arith_bin op then mode else None) r
  | EProperty _ x _ _ | EClosure _ x => wf_full None x
  | EMatches _ _ l r | EIndex _ l r | EPair _ l r => wf_full None l && wf_full None r
  | ESlice _ x f t => wf_full None x && opt_all (wf_full None) f && opt_all (wf_full None) t
  | EMethod _ x _ args _ =>
      wf_full None x && forallb (fun y => wf_full None y || existsb (fun k => wf_full (Some k) y) retype_kinds) args
  | EFunction _ _ args _ =>
      forallb (fun y => wf_full None y || existsb (fun k => wf_full (Some k) y) retype_kinds) args
  | EBuiltin _ _ args | EArray _ args | EMap _ args => forallb (wf_full None) args
  | ECond _ c x y => wf_full None c && wf_full None x && wf_full None y
  end.

Definition arg_class_full (x : expr) : option kind :=
  if wf_full None x then None else find (fun k => wf_full (Some k) x) retype_kinds.

Fixpoint arg_sites_full (m : bool) (name : string) (args : list expr) (i : nat) : list site :=
  match args with
  | [] => []
  | x :: r => match arg_class_full x with Some k => [mkSite m name i k] | None => [] end ++ arg_sites_full m name r (S i)
  end.

Fixpoint sites_full (e : expr) : list site :=
  match e with
  | ENil _ | EIdent _ _ _ | EInt _ _ | EFloat _ _ | EBool _ _ | EStr _ _ | EConst _ _ | EPointer _ => []
  | EUnary _ _ x | EProperty _ x _ _ | EClosure _ x => sites_full x
  | EBinary _ _ l r | EMatches _ _ l r | EIndex _ l r | EPair _ l r => sites_full l ++ sites_full r
  | ESlice _ x f t => sites_full x ++ opt_sites sites_full f ++ opt_sites sites_full t
  | EMethod _ x name args _ => sites_full x ++ arg_sites_full true name args 0 ++ flat_map sites_full args
  | EFunction _ name args _ => arg_sites_full false name args 0 ++ flat_map sites_full args
  | EBuiltin _ _ args | EArray _ args | EMap _ args => flat_map sites_full args
  | ECond _ c x y => sites_full c ++ sites_full x ++ sites_full y
  end.

Definition ok_full (fe : fenv) (env : value) (e : expr) : Prop :=
  wf_full None e = true /\ Forall (site_ok fe env) (sites_full e).

(* C15 for the trees the checker produces — FALSE of the model and of the library (modes_agree_refuted) *)
Definition modes_agree_full_statement : Prop :=
  forall fe cfg env ctx s e1 e2 v1 s1 v2 s2,
  fast_sound fe -> same_shape e1 e2 -> ok_full fe env e1 -> ok_full fe env e2 ->
  eval fe cfg env ctx e1 s = Done v1 s1 -> eval fe cfg env ctx e2 s = Done v2 s2 -> v1 = v2 /\ s1 = s2.

(* ================================================================== Part 2: one step of eval *)
Section Ev.
Variable fe : fenv.
Variable cfg : config.
Variable env : value.
Notation ev := (eval fe cfg env).

Definition ev_list (ctx : list (value * Z)) :=
  fix eval_list (es : list expr) (s : rstate) (k : list value -> rstate -> result) : result :=
    match es with
    | [] => k [] s
    | x :: r => rbind (ev ctx x s) (fun v s1 => eval_list r s1 (fun vs s2 => k (v :: vs) s2))
    end.

Definition ev_pairs (ctx : list (value * Z)) (here : loc) :=
  fix eval_pairs (ps : list expr) (s : rstate) (k : list (value * value) -> rstate -> result) : result :=
    match ps with
    | [] => k [] s
    | EPair _ kx vx :: r =>
        rbind (ev ctx kx s) (fun vk s1 => rbind (ev ctx vx s1) (fun vv s2 =>
        eval_pairs r s2 (fun kvs s3 => k ((vk, vv) :: kvs) s3)))
    | _ :: _ => Stop EOther here s
    end.

Definition bin_strict (here : loc) (op : binop) (l r : expr) (va vb : value) (s2 : rstate) : result :=
  match op with
  | BEq =>
      if both_kind (RKNum KInt) l r then
        lift here s2 (as_int va) (fun x => lift here s2 (as_int vb) (fun y => Done (VBool (x =? y)) s2))
      else if both_kind RKString l r then
        lift here s2 (as_str va) (fun x => lift here s2 (as_str vb) (fun y => Done (VBool (String.eqb x y)) s2))
      else lift here s2 (p_equal va vb) (fun v => Done v s2)
  | BNe => lift here s2 (p_equal va vb) (fun v => lift here s2 (as_bool v) (fun b => Done (VBool (negb b)) s2))
  | BIn => lift here s2 (p_in va vb) (fun b => Done (VBool b) s2)
  | BNotIn => lift here s2 (p_in va vb) (fun b => Done (VBool (negb b)) s2)
  | BLt => lift here s2 (p_helper HLess va vb) (fun v => Done v s2)
  | BGt => lift here s2 (p_helper HMore va vb) (fun v => Done v s2)
  | BLe => lift here s2 (p_helper HLessOrEqual va vb) (fun v => Done v s2)
  | BGe => lift here s2 (p_helper HMoreOrEqual va vb) (fun v => Done v s2)
  | BAdd => lift here s2 (p_helper HAdd va vb) (fun v => Done v s2)
  | BSub => lift here s2 (p_helper HSubtract va vb) (fun v => Done v s2)
  | BMul => lift here s2 (p_helper HMultiply va vb) (fun v => Done v s2)
  | BDiv => lift here s2 (p_helper HDivide va vb) (fun v => Done v s2)
  | BMod => lift here s2 (p_helper HModulo va vb) (fun v => Done v s2)
  | BPow => lift here s2 (to_float64 va) (fun x => lift here s2 (to_float64 vb) (fun y =>
              Done (VNum (NFlt KF64 (f_pow fe x y))) s2))
  | BContains => lift here s2 (as_str va) (fun x => lift here s2 (as_str vb) (fun y => Done (VBool (str_contains x y)) s2))
  | BStartsWith => lift here s2 (as_str va) (fun x => lift here s2 (as_str vb) (fun y => Done (VBool (str_prefix y x)) s2))
  | BEndsWith => lift here s2 (as_str va) (fun x => lift here s2 (as_str vb) (fun y => Done (VBool (str_suffix y x)) s2))
  | BRange =>
      lift here s2 (to_int va) (fun lo => lift here s2 (to_int vb) (fun hi =>
      match range_size lo hi with
      | None => Stop EBudget here s2
      | Some n => alloc cfg here n s2 (fun s3 => Done (make_range lo hi) s3)
      end))
  | _ => Stop EOther here s2
  end.

Definition is_or (op : binop) : bool := match op with BOrWord | BOrOr => true | _ => false end.
Definition is_and (op : binop) : bool := match op with BAndWord | BAndAnd => true | _ => false end.

Lemma ev_ident ctx a name ns s :
  ev ctx (EIdent a name ns) s = lift (aloc a) s (fetch_ident cfg env name ns) (fun v => Done v s).
Proof. reflexivity. Qed.

Lemma ev_int ctx a z s : ev ctx (EInt a z) s = Done (int_const a z) s.
Proof. reflexivity. Qed.

Lemma ev_unary ctx a op x s :
  ev ctx (EUnary a op x) s =
  rbind (ev ctx x s) (fun v s1 =>
    match op with
    | UNotBang | UNotWord => lift (aloc a) s1 (as_bool v) (fun b => Done (VBool (negb b)) s1)
    | UPlus => Done v s1
    | UMinus => lift (aloc a) s1 (p_negate v) (fun r => Done r s1)
    | UUnknown _ => Stop EOther (aloc a) s1
    end).
Proof. reflexivity. Qed.

Lemma ev_binary ctx a op l r s :
  ev ctx (EBinary a op l r) s =
  if is_or op then
    rbind (ev ctx l s) (fun va s1 => lift (aloc a) s1 (as_bool va) (fun b => if b then Done va s1 else ev ctx r s1))
  else if is_and op then
    rbind (ev ctx l s) (fun va s1 => lift (aloc a) s1 (as_bool va) (fun b => if b then ev ctx r s1 else Done va s1))
  else
    rbind (ev ctx l s) (fun va s1 => rbind (ev ctx r s1) (fun vb s2 => bin_strict (aloc a) op l r va vb s2)).
Proof. destruct op; reflexivity. Qed.

Lemma ev_matches ctx a re l r s :
  ev ctx (EMatches a re l r) s =
  match re with
  | Some p =>
      rbind (ev ctx l s) (fun va s1 =>
      lift (aloc a) s1 (as_str va) (fun x =>
      match re_match fe p x with Some b => Done (VBool b) s1 | None => Stop ERegexp (aloc a) s1 end))
  | None =>
      rbind (ev ctx l s) (fun va s1 =>
      rbind (ev ctx r s1) (fun vb s2 =>
      lift (aloc a) s2 (as_str vb) (fun p => lift (aloc a) s2 (as_str va) (fun x =>
      match re_match fe p x with Some b => Done (VBool b) s2 | None => Stop ERegexp (aloc a) s2 end))))
  end.
Proof. destruct re; reflexivity. Qed.

Lemma ev_property ctx a x name ns s :
  ev ctx (EProperty a x name ns) s =
  rbind (ev ctx x s) (fun v s1 => lift (aloc a) s1 (p_fetch v (VStr name) ns) (fun r => Done r s1)).
Proof. reflexivity. Qed.

Lemma ev_index ctx a x i s :
  ev ctx (EIndex a x i) s =
  rbind (ev ctx x s) (fun v s1 => rbind (ev ctx i s1) (fun vi s2 =>
  lift (aloc a) s2 (p_fetch v vi false) (fun r => Done r s2))).
Proof. reflexivity. Qed.

Lemma ev_slice ctx a x from to s :
  ev ctx (ESlice a x from to) s =
  rbind (ev ctx x s) (fun v s1 =>
  rbind (match to with
         | Some t => ev ctx t s1
         | None => lift (aloc a) s1 (p_length v) (fun n => Done (vint n) s1)
         end) (fun vto s2 =>
  rbind (match from with
         | Some f => ev ctx f s2
         | None => Done (vint 0) s2
         end) (fun vfrom s3 =>
  lift (aloc a) s3 (p_slice v vfrom vto) (fun r => Done r s3)))).
Proof. reflexivity. Qed.

Lemma ev_method ctx a x name args ns s :
  ev ctx (EMethod a x name args ns) s =
  rbind (ev ctx x s) (fun v s1 =>
  ev_list ctx args s1 (fun vs s2 =>
  match ns, v with
  | true, VNil => Done VNil s2
  | _, _ => lift (aloc a) s2 (fetch_fn fe v name) (fun id => do_call fe (aloc a) false id v vs s2)
  end)).
Proof. reflexivity. Qed.

Lemma ev_function ctx a name args fast s :
  ev ctx (EFunction a name args fast) s =
  ev_list ctx args s (fun vs s1 =>
  lift (aloc a) s1 (fetch_fn fe env name) (fun id => do_call fe (aloc a) fast id env vs s1)).
Proof. reflexivity. Qed.

Definition builtin_body (ctx : list (value * Z)) (here : loc) (b : builtin) (c : expr) (v : value) (n : Z) (s1 : rstate) : result :=
  let body := fun i s' => ev ((v, i) :: ctx) c s' in
  match b with
  | BiAll => all_loop body here (Z.to_nat n) 0 s1
  | BiNone => none_loop body here (Z.to_nat n) 0 s1
  | BiAny => any_loop body here (Z.to_nat n) 0 s1
  | BiOne => count_loop body here (Z.to_nat n) 0 0 s1
               (fun cnt s2 => lift here s2 (p_equal (vint cnt) (vint 1)) (fun r => Done r s2))
  | BiCount => count_loop body here (Z.to_nat n) 0 0 s1 (fun cnt s2 => Done (vint cnt) s2)
  | BiFilter => filter_loop body here (fun i => p_fetch v (vint i) false) (Z.to_nat n) 0 [] s1
                  (fun xs s2 => alloc cfg here (Z.of_nat (List.length xs)) s2 (fun s3 => Done (VArr TIface xs) s3))
  | BiMap => map_loop body (Z.to_nat n) 0 [] s1
               (fun xs s2 => alloc cfg here n s2 (fun s3 => Done (VArr TIface xs) s3))
  | _ => Stop EOther here s1
  end.

Definition is_loop_builtin (b : builtin) : bool :=
  match b with BiAll | BiNone | BiAny | BiOne | BiCount | BiFilter | BiMap => true | _ => false end.

Lemma ev_builtin ctx a b args s :
  ev ctx (EBuiltin a b args) s =
  match b, args with
  | BiLen, [x] => rbind (ev ctx x s) (fun v s1 => lift (aloc a) s1 (p_length v) (fun n => Done (vint n) s1))
  | _, [x; c] =>
      if is_loop_builtin b then
        rbind (ev ctx x s) (fun v s1 => lift (aloc a) s1 (p_length v) (fun n => builtin_body ctx (aloc a) b c v n s1))
      else Stop EOther (aloc a) s
  | _, _ => Stop EOther (aloc a) s
  end.
Proof.
  destruct b; try reflexivity; destruct args as [|x [|c [|d r]]]; reflexivity.
Qed.

Lemma ev_closure ctx a x s : ev ctx (EClosure a x) s = ev ctx x s.
Proof. reflexivity. Qed.

Lemma ev_cond ctx a c x y s :
  ev ctx (ECond a c x y) s =
  rbind (ev ctx c s) (fun vc s1 => lift (aloc a) s1 (as_bool vc) (fun b => if b then ev ctx x s1 else ev ctx y s1)).
Proof. reflexivity. Qed.

Lemma ev_array ctx a es s :
  ev ctx (EArray a es) s =
  ev_list ctx es s (fun vs s1 => alloc cfg (aloc a) (Z.of_nat (List.length vs)) s1 (fun s2 => Done (VArr TIface vs) s2)).
Proof. reflexivity. Qed.

Lemma ev_map ctx a ps s :
  ev ctx (EMap a ps) s =
  ev_pairs ctx (aloc a) ps s (fun kvs s1 =>
  lift (aloc a) s1 (keys_as_str kvs) (fun skvs =>
  alloc cfg (aloc a) (Z.of_nat (List.length kvs)) s1 (fun s2 =>
  Done (VMap TString TIface (build_map skvs)) s2))).
Proof. reflexivity. Qed.

Lemma ev_pair ctx a k v s : ev ctx (EPair a k v) s = Stop EOther (aloc a) s.
Proof. reflexivity. Qed.

Lemma ev_pointer ctx a s :
  ev ctx (EPointer a) s =
  match ctx with
  | (arr, i) :: _ => lift (aloc a) s (p_fetch arr (vint i) false) (fun v => Done v s)
  | [] => Stop ECannotFetch (aloc a) s
  end.
Proof. reflexivity. Qed.

Lemma ev_list_cons ctx x r s k :
  ev_list ctx (x :: r) s k = rbind (ev ctx x s) (fun v s1 => ev_list ctx r s1 (fun vs s2 => k (v :: vs) s2)).
Proof. reflexivity. Qed.

Lemma ev_pairs_cons ctx here p r s k :
  ev_pairs ctx here (p :: r) s k =
  match p with
  | EPair _ kx vx =>
      rbind (ev ctx kx s) (fun vk s1 => rbind (ev ctx vx s1) (fun vv s2 =>
      ev_pairs ctx here r s2 (fun kvs s3 => k ((vk, vv) :: kvs) s3)))
  | _ => Stop EOther here s
  end.
Proof. destruct p; reflexivity. Qed.

End Ev.

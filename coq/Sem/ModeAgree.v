(* Sem/ModeAgree.v — C15, whole expressions: the compilation variants of one source (with / without a
   declared environment type, Eval; struct / pointer / map environment) differ, in the model, only in
     (a) the `akind` annotations (read by `int_const` for literals and by `both_kind` at `==`),
     (b) the `fast` flag of function calls,
     (c) `c_mapenv` and the shape of the environment value.
   This file proves on the reference semantics `Sem.eval` that two such variants which both succeed
   return the same value, the same call trace and the same allocation count (modes_agree_gen and its
   instances), keeps the statement for the trees the checker REALLY produces visible
   (modes_agree_full_statement) and refutes it (modes_agree_refuted: `Half(I / 2 + Y)`).
   Definitions first (Part 1), proofs after. *)
From Coq Require Import ZArith Bool List String Floats Lia.
Require Import X.Base.Num X.Base.NumProofs X.Base.Value X.Syn.Ast X.gen.GenHelpers X.Sem.Prim X.Sem.Sem X.Sem.MatchesFacts.
Require Import X.BC.ModeProofs X.Corr.Universe.
Import ListNotations.
Local Open Scope Z_scope.

(* ================================================================== Part 1: definitions *)

(* ---- same source: equal up to the kind of every annotation and the fast flag ---- *)
Definition erase_ann (a : ann) : ann := mkAnn (aloc a) RKInvalid.

Fixpoint erase (e : expr) : expr :=
  match e with
  | ENil a => ENil (erase_ann a)
  | EIdent a n ns => EIdent (erase_ann a) n ns
  | EInt a z => EInt (erase_ann a) z
  | EFloat a f => EFloat (erase_ann a) f
  | EBool a b => EBool (erase_ann a) b
  | EStr a s => EStr (erase_ann a) s
  | EConst a v => EConst (erase_ann a) v
  | EUnary a op x => EUnary (erase_ann a) op (erase x)
  | EBinary a op l r => EBinary (erase_ann a) op (erase l) (erase r)
  | EMatches a re l r => EMatches (erase_ann a) re (erase l) (erase r)
  | EProperty a x n ns => EProperty (erase_ann a) (erase x) n ns
  | EIndex a x i => EIndex (erase_ann a) (erase x) (erase i)
  | ESlice a x f t => ESlice (erase_ann a) (erase x) (option_map erase f) (option_map erase t)
  | EMethod a x n args ns => EMethod (erase_ann a) (erase x) n (map erase args) ns
  | EFunction a n args _ => EFunction (erase_ann a) n (map erase args) false
  | EBuiltin a b args => EBuiltin (erase_ann a) b (map erase args)
  | EClosure a x => EClosure (erase_ann a) (erase x)
  | EPointer a => EPointer (erase_ann a)
  | ECond a c x y => ECond (erase_ann a) (erase c) (erase x) (erase y)
  | EArray a es => EArray (erase_ann a) (map erase es)
  | EMap a ps => EMap (erase_ann a) (map erase ps)
  | EPair a k v => EPair (erase_ann a) (erase k) (erase v)
  end.

(* same constructors, names, operators, nil-safe flags, literal values, locations *)
Definition same_shape (e1 e2 : expr) : Prop := erase e1 = erase e2.

(* ---- integer literals ---- *)
(* the kind a literal evaluates to *)
Definition eff_kind (a : ann) : kind := match akind a with RKNum k => k | _ => KInt end.
(* the parser only produces literals in the int range; needed where a literal is annotated `int`
   (it is then pushed as int(z)) and the other variant leaves it unannotated *)
Definition lit_range_ok (a : ann) (z : Z) : bool :=
  match akind a with RKNum KInt => in_range KInt z | _ => true end.
Definition plain_lit (a : ann) (z : Z) : bool := kind_eqb (eff_kind a) KInt && lit_range_ok a z.

Definition arith_un (op : unop) : bool := match op with UPlus | UMinus => true | _ => false end.
Definition arith_bin (op : binop) : bool := match op with BAdd | BSub | BMul | BDiv => true | _ => false end.

(* what checker.isIntegerOrArithmeticOperation / setTypeForIntegers walk through, with literal leaves ONLY *)
Fixpoint lit_shape (e : expr) : bool :=
  match e with
  | EInt _ _ => true
  | EUnary _ op x => arith_un op && lit_shape x
  | EBinary _ op l r => arith_bin op && lit_shape l && lit_shape r
  | _ => false
  end.

(* a literal-only arithmetic tree all of whose literals evaluate to kind k *)
Fixpoint uniform (k : kind) (e : expr) : bool :=
  match e with
  | EInt a z => kind_eqb (eff_kind a) k && lit_range_ok a z
  | EUnary _ op x => arith_un op && uniform k x
  | EBinary _ op l r => arith_bin op && uniform k l && uniform k r
  | _ => false
  end.

Fixpoint first_lit (e : expr) : option kind :=
  match e with
  | EInt a _ => Some (eff_kind a)
  | EUnary _ _ x => first_lit x
  | EBinary _ _ l _ => first_lit l
  | _ => None
  end.

(* Some k: the argument is a literal-only arithmetic tree retyped to k, k other than int *)
Definition retyped_kind (x : expr) : option kind :=
  match first_lit x with
  | Some k => if negb (kind_eqb k KInt) && uniform k x then Some k else None
  | None => None
  end.

Definition is_some {A} (o : option A) : bool := match o with Some _ => true | None => false end.
Definition opt_all (p : expr -> bool) (o : option expr) : bool := match o with Some x => p x | None => true end.

(* ---- the decidable part of well-annotatedness (the CARVE-OUT of the partial theorem):
   every literal is plain (unannotated, or annotated int and in range) except inside an argument of a
   function / method call that is a literal-only arithmetic tree retyped as a whole to one kind.
   `==` annotations and fast flags are unconstrained. ---- *)
Fixpoint wf (e : expr) : bool :=
  match e with
  | EInt a z => plain_lit a z
  | ENil _ | EIdent _ _ _ | EFloat _ _ | EBool _ _ | EStr _ _ | EConst _ _ | EPointer _ => true
  | EUnary _ _ x | EProperty _ x _ _ | EClosure _ x => wf x
  | EBinary _ _ l r | EMatches _ _ l r | EIndex _ l r | EPair _ l r => wf l && wf r
  | ESlice _ x f t => wf x && opt_all wf f && opt_all wf t
  | EMethod _ x _ args _ => wf x && forallb (fun y => wf y || is_some (retyped_kind y)) args
  | EFunction _ _ args _ => forallb (fun y => wf y || is_some (retyped_kind y)) args
  | EBuiltin _ _ args | EArray _ args | EMap _ args => forallb wf args
  | ECond _ c x y => wf c && wf x && wf y
  end.

(* ---- the call sites with a retyped argument: callee name, argument position, kind ---- *)
Record site := mkSite { st_method : bool; st_name : string; st_pos : nat; st_kind : kind }.

Definition arg_class (x : expr) : option kind := if wf x then None else retyped_kind x.

Fixpoint arg_sites (m : bool) (name : string) (args : list expr) (i : nat) : list site :=
  match args with
  | [] => []
  | x :: r => match arg_class x with Some k => [mkSite m name i k] | None => [] end ++ arg_sites m name r (S i)
  end.

Definition opt_sites (f : expr -> list site) (o : option expr) : list site :=
  match o with Some x => f x | None => [] end.

Fixpoint sites (e : expr) : list site :=
  match e with
  | ENil _ | EIdent _ _ _ | EInt _ _ | EFloat _ _ | EBool _ _ | EStr _ _ | EConst _ _ | EPointer _ => []
  | EUnary _ _ x | EProperty _ x _ _ | EClosure _ x => sites x
  | EBinary _ _ l r | EMatches _ _ l r | EIndex _ l r | EPair _ l r => sites l ++ sites r
  | ESlice _ x f t => sites x ++ opt_sites sites f ++ opt_sites sites t
  | EMethod _ x name args _ => sites x ++ arg_sites true name args 0 ++ flat_map sites args
  | EFunction _ name args _ => arg_sites false name args 0 ++ flat_map sites args
  | EBuiltin _ _ args | EArray _ args | EMap _ args => flat_map sites args
  | ECond _ c x y => sites c ++ sites x ++ sites y
  end.

(* the parameter that receives argument j, as reflect.Value.Call (Prim.args_ok) pairs them *)
Fixpoint param_at (ins : list ty) (variadic : bool) (j : nat) {struct ins} : option ty :=
  match ins with
  | [] => None
  | [TSlice e] => if variadic then Some e else match j with O => Some (TSlice e) | S _ => None end
  | p :: ins' => match j with O => Some p | S j' => param_at ins' variadic j' end
  end.

(* what static typing of the callee gives (C03's domain): a literal argument is retyped to kind k only
   where whatever function the name resolves to at run time has a parameter of type k at that position.
   For a function call the receiver is the environment; for a method call it is any value. *)
Definition site_ok (fe : fenv) (env : value) (st : site) : Prop :=
  forall recv id sg,
    (st_method st = false -> recv = env) ->
    fetch_fn fe recv (st_name st) = Ok id -> fn_sig fe id = Some sg ->
    param_at (s_ins sg) (s_variadic sg) (st_pos st) = Some (TNum (st_kind st)).

Definition ok (fe : fenv) (env : value) (e : expr) : Prop :=
  wf e = true /\ Forall (site_ok fe env) (sites e).

(* the flag s_fast of a signature documents the Go type func(...interface{}) interface{} *)
Definition fast_sound (fe : fenv) : Prop :=
  forall id sg, fn_sig fe id = Some sg -> s_fast sg = true -> s_ins sg = [TSlice TIface] /\ s_variadic sg = true.

(* ---- the trees the checker really produces: setTypeForIntegers retypes the literal leaves of an
   arithmetic argument even when other leaves are not literals (mode = Some k below an arithmetic
   argument retyped to k, reset to None below any other node) ---- *)
Definition retype_kinds : list kind :=
  [KUint; KUint8; KUint16; KUint32; KUint64; KInt8; KInt16; KInt32; KInt64; KF32; KF64].

Fixpoint wf_full (mode : option kind) (e : expr) : bool :=
  match e with
  | EInt a z => kind_eqb (eff_kind a) (match mode with Some k => k | None => KInt end) && lit_range_ok a z
  | ENil _ | EIdent _ _ _ | EFloat _ _ | EBool _ _ | EStr _ _ | EConst _ _ | EPointer _ => true
  | EUnary _ op x => wf_full (if arith_un op then mode else None) x
  | EBinary _ op l r => wf_full (if arith_bin op then mode else None) l && wf_full (if arith_bin op then mode else None) r
  | EProperty _ x _ _ | EClosure _ x => wf_full None x
  | EMatches _ _ l r | EIndex _ l r | EPair _ l r => wf_full None l && wf_full None r
  | ESlice _ x f t => wf_full None x && opt_all (wf_full None) f && opt_all (wf_full None) t
  | EMethod _ x _ args _ =>
      wf_full None x && forallb (fun y => wf_full None y || existsb (fun k => wf_full (Some k) y) retype_kinds) args
  | EFunction _ _ args _ =>
      forallb (fun y => wf_full None y || existsb (fun k => wf_full (Some k) y) retype_kinds) args
  | EBuiltin _ _ args | EArray _ args | EMap _ args => forallb (wf_full None) args
  | ECond _ c x y => wf_full None c && wf_full None x && wf_full None y
  end.

Definition arg_class_full (x : expr) : option kind :=
  if wf_full None x then None else find (fun k => wf_full (Some k) x) retype_kinds.

Fixpoint arg_sites_full (m : bool) (name : string) (args : list expr) (i : nat) : list site :=
  match args with
  | [] => []
  | x :: r => match arg_class_full x with Some k => [mkSite m name i k] | None => [] end ++ arg_sites_full m name r (S i)
  end.

Fixpoint sites_full (e : expr) : list site :=
  match e with
  | ENil _ | EIdent _ _ _ | EInt _ _ | EFloat _ _ | EBool _ _ | EStr _ _ | EConst _ _ | EPointer _ => []
  | EUnary _ _ x | EProperty _ x _ _ | EClosure _ x => sites_full x
  | EBinary _ _ l r | EMatches _ _ l r | EIndex _ l r | EPair _ l r => sites_full l ++ sites_full r
  | ESlice _ x f t => sites_full x ++ opt_sites sites_full f ++ opt_sites sites_full t
  | EMethod _ x name args _ => sites_full x ++ arg_sites_full true name args 0 ++ flat_map sites_full args
  | EFunction _ name args _ => arg_sites_full false name args 0 ++ flat_map sites_full args
  | EBuiltin _ _ args | EArray _ args | EMap _ args => flat_map sites_full args
  | ECond _ c x y => sites_full c ++ sites_full x ++ sites_full y
  end.

Definition ok_full (fe : fenv) (env : value) (e : expr) : Prop :=
  wf_full None e = true /\ Forall (site_ok fe env) (sites_full e).

(* C15 for the trees the checker produces — FALSE of the model and of the library (modes_agree_refuted) *)
Definition modes_agree_full_statement : Prop :=
  forall fe cfg env ctx s e1 e2 v1 s1 v2 s2,
  fast_sound fe -> same_shape e1 e2 -> ok_full fe env e1 -> ok_full fe env e2 ->
  eval fe cfg env ctx e1 s = Done v1 s1 -> eval fe cfg env ctx e2 s = Done v2 s2 -> v1 = v2 /\ s1 = s2.

(* ================================================================== Part 2: one step of eval *)
Section Ev.
Variable fe : fenv.
Variable cfg : config.
Variable env : value.
Notation ev := (eval fe cfg env).

Definition ev_list (ctx : list (value * Z)) :=
  fix eval_list (es : list expr) (s : rstate) (k : list value -> rstate -> result) : result :=
    match es with
    | [] => k [] s
    | x :: r => rbind (ev ctx x s) (fun v s1 => eval_list r s1 (fun vs s2 => k (v :: vs) s2))
    end.

Definition ev_pairs (ctx : list (value * Z)) (here : loc) :=
  fix eval_pairs (ps : list expr) (s : rstate) (k : list (value * value) -> rstate -> result) : result :=
    match ps with
    | [] => k [] s
    | EPair _ kx vx :: r =>
        rbind (ev ctx kx s) (fun vk s1 => rbind (ev ctx vx s1) (fun vv s2 =>
        eval_pairs r s2 (fun kvs s3 => k ((vk, vv) :: kvs) s3)))
    | _ :: _ => Stop EOther here s
    end.

Definition bin_strict (here : loc) (op : binop) (l r : expr) (va vb : value) (s2 : rstate) : result :=
  match op with
  | BEq =>
      if both_kind (RKNum KInt) l r then
        lift here s2 (as_int va) (fun x => lift here s2 (as_int vb) (fun y => Done (VBool (x =? y)) s2))
      else if both_kind RKString l r then
        lift here s2 (as_str va) (fun x => lift here s2 (as_str vb) (fun y => Done (VBool (String.eqb x y)) s2))
      else lift here s2 (p_equal va vb) (fun v => Done v s2)
  | BNe => lift here s2 (p_equal va vb) (fun v => lift here s2 (as_bool v) (fun b => Done (VBool (negb b)) s2))
  | BIn => lift here s2 (p_in va vb) (fun b => Done (VBool b) s2)
  | BNotIn => lift here s2 (p_in va vb) (fun b => Done (VBool (negb b)) s2)
  | BLt => lift here s2 (p_helper HLess va vb) (fun v => Done v s2)
  | BGt => lift here s2 (p_helper HMore va vb) (fun v => Done v s2)
  | BLe => lift here s2 (p_helper HLessOrEqual va vb) (fun v => Done v s2)
  | BGe => lift here s2 (p_helper HMoreOrEqual va vb) (fun v => Done v s2)
  | BAdd => lift here s2 (p_helper HAdd va vb) (fun v => Done v s2)
  | BSub => lift here s2 (p_helper HSubtract va vb) (fun v => Done v s2)
  | BMul => lift here s2 (p_helper HMultiply va vb) (fun v => Done v s2)
  | BDiv => lift here s2 (p_helper HDivide va vb) (fun v => Done v s2)
  | BMod => lift here s2 (p_helper HModulo va vb) (fun v => Done v s2)
  | BPow => lift here s2 (to_float64 va) (fun x => lift here s2 (to_float64 vb) (fun y =>
              Done (VNum (NFlt KF64 (f_pow fe x y))) s2))
  | BContains => lift here s2 (as_str va) (fun x => lift here s2 (as_str vb) (fun y => Done (VBool (str_contains x y)) s2))
  | BStartsWith => lift here s2 (as_str va) (fun x => lift here s2 (as_str vb) (fun y => Done (VBool (str_prefix y x)) s2))
  | BEndsWith => lift here s2 (as_str va) (fun x => lift here s2 (as_str vb) (fun y => Done (VBool (str_suffix y x)) s2))
  | BRange =>
      lift here s2 (to_int va) (fun lo => lift here s2 (to_int vb) (fun hi =>
      match range_size lo hi with
      | None => Stop EBudget here s2
      | Some n => alloc cfg here n s2 (fun s3 => Done (make_range lo hi) s3)
      end))
  | _ => Stop EOther here s2
  end.

Definition is_or (op : binop) : bool := match op with BOrWord | BOrOr => true | _ => false end.
Definition is_and (op : binop) : bool := match op with BAndWord | BAndAnd => true | _ => false end.

Lemma ev_ident ctx a name ns s :
  ev ctx (EIdent a name ns) s = lift (aloc a) s (fetch_ident cfg env name ns) (fun v => Done v s).
Proof. reflexivity. Qed.

Lemma ev_int ctx a z s : ev ctx (EInt a z) s = Done (int_const a z) s.
Proof. reflexivity. Qed.

Lemma ev_unary ctx a op x s :
  ev ctx (EUnary a op x) s =
  rbind (ev ctx x s) (fun v s1 =>
    match op with
    | UNotBang | UNotWord => lift (aloc a) s1 (as_bool v) (fun b => Done (VBool (negb b)) s1)
    | UPlus => Done v s1
    | UMinus => lift (aloc a) s1 (p_negate v) (fun r => Done r s1)
    | UUnknown _ => Stop EOther (aloc a) s1
    end).
Proof. reflexivity. Qed.

Lemma ev_binary ctx a op l r s :
  ev ctx (EBinary a op l r) s =
  if is_or op then
    rbind (ev ctx l s) (fun va s1 => lift (aloc a) s1 (as_bool va) (fun b => if b then Done va s1 else ev ctx r s1))
  else if is_and op then
    rbind (ev ctx l s) (fun va s1 => lift (aloc a) s1 (as_bool va) (fun b => if b then ev ctx r s1 else Done va s1))
  else
    rbind (ev ctx l s) (fun va s1 => rbind (ev ctx r s1) (fun vb s2 => bin_strict (aloc a) op l r va vb s2)).
Proof. destruct op; reflexivity. Qed.

Lemma ev_matches ctx a re l r s :
  ev ctx (EMatches a re l r) s =
  (* the pre-compiled pattern is only a shortcut for the value of the right operand (Sem/MatchesFacts.v) *)
  rbind (ev ctx l s) (fun va s1 =>
  rbind (ev ctx r s1) (fun vb s2 =>
  lift (aloc a) s2 (as_str vb) (fun p => lift (aloc a) s2 (as_str va) (fun x =>
  match re_match fe p x with Some b => Done (VBool b) s2 | None => Stop ERegexp (aloc a) s2 end)))).
Proof. exact (eval_matches_dyn _ _ _ ctx a re l r s). Qed.

Lemma ev_property ctx a x name ns s :
  ev ctx (EProperty a x name ns) s =
  rbind (ev ctx x s) (fun v s1 => lift (aloc a) s1 (p_fetch v (VStr name) ns) (fun r => Done r s1)).
Proof. reflexivity. Qed.

Lemma ev_index ctx a x i s :
  ev ctx (EIndex a x i) s =
  rbind (ev ctx x s) (fun v s1 => rbind (ev ctx i s1) (fun vi s2 =>
  lift (aloc a) s2 (p_fetch v vi false) (fun r => Done r s2))).
Proof. reflexivity. Qed.

Lemma ev_slice ctx a x from to s :
  ev ctx (ESlice a x from to) s =
  rbind (ev ctx x s) (fun v s1 =>
  rbind (match to with
         | Some t => ev ctx t s1
         | None => lift (aloc a) s1 (p_length v) (fun n => Done (vint n) s1)
         end) (fun vto s2 =>
  rbind (match from with
         | Some f => ev ctx f s2
         | None => Done (vint 0) s2
         end) (fun vfrom s3 =>
  lift (aloc a) s3 (p_slice v vfrom vto) (fun r => Done r s3)))).
Proof. reflexivity. Qed.

Lemma ev_method ctx a x name args ns s :
  ev ctx (EMethod a x name args ns) s =
  rbind (ev ctx x s) (fun v s1 =>
  ev_list ctx args s1 (fun vs s2 =>
  match ns, v with
  | true, VNil => Done VNil s2
  | _, _ => if ns && fetch_fn_zero v name then Done VNil s2
            else lift (aloc a) s2 (fetch_fn fe v name) (fun id => do_call fe (aloc a) false id v vs s2)
  end)).
Proof. reflexivity. Qed.

Lemma ev_function ctx a name args fast s :
  ev ctx (EFunction a name args fast) s =
  ev_list ctx args s (fun vs s1 =>
  lift (aloc a) s1 (fetch_fn fe env name) (fun id => do_call fe (aloc a) fast id env vs s1)).
Proof. reflexivity. Qed.

Definition builtin_body (ctx : list (value * Z)) (here : loc) (b : builtin) (c : expr) (v : value) (n : Z) (s1 : rstate) : result :=
  let body := fun i s' => ev ((v, i) :: ctx) c s' in
  match b with
  | BiAll => all_loop body here (Z.to_nat n) 0 s1
  | BiNone => none_loop body here (Z.to_nat n) 0 s1
  | BiAny => any_loop body here (Z.to_nat n) 0 s1
  | BiOne => count_loop body here (Z.to_nat n) 0 0 s1
               (fun cnt s2 => lift here s2 (p_equal (vint cnt) (vint 1)) (fun r => Done r s2))
  | BiCount => count_loop body here (Z.to_nat n) 0 0 s1 (fun cnt s2 => Done (vint cnt) s2)
  | BiFilter => filter_loop body here (fun i => p_fetch v (vint i) false) (Z.to_nat n) 0 [] s1
                  (fun xs s2 => alloc cfg here (Z.of_nat (List.length xs)) s2 (fun s3 => Done (VArr TIface xs) s3))
  | BiMap => map_loop body (Z.to_nat n) 0 [] s1
               (fun xs s2 => alloc cfg here n s2 (fun s3 => Done (VArr TIface xs) s3))
  | _ => Stop EOther here s1
  end.

Definition is_loop_builtin (b : builtin) : bool :=
  match b with BiAll | BiNone | BiAny | BiOne | BiCount | BiFilter | BiMap => true | _ => false end.

Lemma ev_builtin ctx a b args s :
  ev ctx (EBuiltin a b args) s =
  match b, args with
  | BiLen, [x] => rbind (ev ctx x s) (fun v s1 => lift (aloc a) s1 (p_length v) (fun n => Done (vint n) s1))
  | _, [x; c] =>
      if is_loop_builtin b then
        rbind (ev ctx x s) (fun v s1 => lift (aloc a) s1 (p_length v) (fun n => builtin_body ctx (aloc a) b c v n s1))
      else Stop EOther (aloc a) s
  | _, _ => Stop EOther (aloc a) s
  end.
Proof.
  destruct b; try reflexivity; destruct args as [|x [|c [|d r]]]; reflexivity.
Qed.

Lemma ev_closure ctx a x s : ev ctx (EClosure a x) s = ev ctx x s.
Proof. reflexivity. Qed.

Lemma ev_cond ctx a c x y s :
  ev ctx (ECond a c x y) s =
  rbind (ev ctx c s) (fun vc s1 => lift (aloc a) s1 (as_bool vc) (fun b => if b then ev ctx x s1 else ev ctx y s1)).
Proof. reflexivity. Qed.

Lemma ev_array ctx a es s :
  ev ctx (EArray a es) s =
  ev_list ctx es s (fun vs s1 => alloc cfg (aloc a) (Z.of_nat (List.length vs)) s1 (fun s2 => Done (VArr TIface vs) s2)).
Proof. reflexivity. Qed.

Lemma ev_map ctx a ps s :
  ev ctx (EMap a ps) s =
  ev_pairs ctx (aloc a) ps s (fun kvs s1 =>
  lift (aloc a) s1 (keys_as_str kvs) (fun skvs =>
  alloc cfg (aloc a) (Z.of_nat (List.length kvs)) s1 (fun s2 =>
  Done (VMap TString TIface (build_map skvs)) s2))).
Proof. reflexivity. Qed.

Lemma ev_pair ctx a k v s : ev ctx (EPair a k v) s = Stop EOther (aloc a) s.
Proof. reflexivity. Qed.

Lemma ev_pointer ctx a s :
  ev ctx (EPointer a) s =
  match ctx with
  | (arr, i) :: _ => lift (aloc a) s (p_fetch arr (vint i) false) (fun v => Done v s)
  | [] => Stop ECannotFetch (aloc a) s
  end.
Proof. reflexivity. Qed.

Lemma ev_list_cons ctx x r s k :
  ev_list ctx (x :: r) s k = rbind (ev ctx x s) (fun v s1 => ev_list ctx r s1 (fun vs s2 => k (v :: vs) s2)).
Proof. reflexivity. Qed.

Lemma ev_pairs_cons ctx here p r s k :
  ev_pairs ctx here (p :: r) s k =
  match p with
  | EPair _ kx vx =>
      rbind (ev ctx kx s) (fun vk s1 => rbind (ev ctx vx s1) (fun vv s2 =>
      ev_pairs ctx here r s2 (fun kvs s3 => k ((vk, vv) :: kvs) s3)))
  | _ => Stop EOther here s
  end.
Proof. destruct p; reflexivity. Qed.

End Ev.


(* ================================================================== Part 3: agreement of two results *)
(* both succeed -> same value, same state (trace and allocation count) *)
Definition ragree (r1 r2 : result) : Prop :=
  forall v1 s1 v2 s2, r1 = Done v1 s1 -> r2 = Done v2 s2 -> v1 = v2 /\ s1 = s2.

Lemma ragree_refl r : ragree r r.
Proof. intros v1 s1 v2 s2 E1 E2. rewrite E1 in E2. inversion E2. auto. Qed.

Lemma ragree_stop_l e l s r : ragree (Stop e l s) r.
Proof. intros v1 s1 v2 s2 E1 E2. discriminate. Qed.

Lemma ragree_stop_r e l s r : ragree r (Stop e l s).
Proof. intros v1 s1 v2 s2 E1 E2. discriminate. Qed.

Lemma ragree_done v s : ragree (Done v s) (Done v s).
Proof. apply ragree_refl. Qed.

Lemma ragree_rbind_rel (R : value -> value -> Prop) r1 r2 k1 k2 :
  (forall v1 s1 v2 s2, r1 = Done v1 s1 -> r2 = Done v2 s2 -> s1 = s2 /\ R v1 v2) ->
  (forall v1 v2 s, R v1 v2 -> ragree (k1 v1 s) (k2 v2 s)) ->
  ragree (rbind r1 k1) (rbind r2 k2).
Proof.
  intros H Hk v1 s1 v2 s2 E1 E2.
  destruct r1 as [va sa|]; [|discriminate]. destruct r2 as [vb sb|]; [|discriminate].
  cbn [rbind] in E1, E2. destruct (H va sa vb sb eq_refl eq_refl) as [Es HR]. subst sb.
  exact (Hk va vb sa HR v1 s1 v2 s2 E1 E2).
Qed.

Lemma ragree_rbind r1 r2 k1 k2 :
  ragree r1 r2 -> (forall v s, ragree (k1 v s) (k2 v s)) -> ragree (rbind r1 k1) (rbind r2 k2).
Proof.
  intros H Hk. apply ragree_rbind_rel with (R := eq).
  - intros v1 s1 v2 s2 E1 E2. destruct (H _ _ _ _ E1 E2). auto.
  - intros v1 v2 s ->. apply Hk.
Qed.

Lemma ragree_lift {A} l1 l2 s (o : outcome A) k1 k2 :
  (forall a, ragree (k1 a) (k2 a)) -> ragree (lift l1 s o k1) (lift l2 s o k2).
Proof. intros H. destruct o; cbn [lift]; [apply H|apply ragree_stop_l]. Qed.

Lemma ragree_lift_eq {A} l1 l2 s (o : outcome A) k1 k2 :
  (forall a, o = Ok a -> ragree (k1 a) (k2 a)) -> ragree (lift l1 s o k1) (lift l2 s o k2).
Proof. intros H. destruct o; cbn [lift]; [apply H; reflexivity|apply ragree_stop_l]. Qed.

Lemma ragree_alloc cfg1 cfg2 l1 l2 n s k1 k2 :
  c_limit cfg1 = c_limit cfg2 -> (forall s', ragree (k1 s') (k2 s')) ->
  ragree (alloc cfg1 l1 n s k1) (alloc cfg2 l2 n s k2).
Proof.
  intros Hl H. unfold alloc. rewrite Hl. destruct (c_limit cfg2 <=? r_mem s + n); [apply ragree_stop_l|apply H].
Qed.

Section LoopAgree.
Variables b1 b2 : Z -> rstate -> result.
Hypothesis Hb : forall i s, ragree (b1 i s) (b2 i s).
Variables l1 l2 : loc.

Lemma all_loop_agree n : forall i s, ragree (all_loop b1 l1 n i s) (all_loop b2 l2 n i s).
Proof.
  induction n as [|n IH]; intros i s; cbn [all_loop]; [apply ragree_refl|].
  apply ragree_rbind; [apply Hb|]. intros v s1. apply ragree_lift. intros b. destruct b; [apply IH|apply ragree_refl].
Qed.

Lemma none_loop_agree n : forall i s, ragree (none_loop b1 l1 n i s) (none_loop b2 l2 n i s).
Proof.
  induction n as [|n IH]; intros i s; cbn [none_loop]; [apply ragree_refl|].
  apply ragree_rbind; [apply Hb|]. intros v s1. apply ragree_lift. intros b. destruct b; [apply ragree_refl|apply IH].
Qed.

Lemma any_loop_agree n : forall i s, ragree (any_loop b1 l1 n i s) (any_loop b2 l2 n i s).
Proof.
  induction n as [|n IH]; intros i s; cbn [any_loop]; [apply ragree_refl|].
  apply ragree_rbind; [apply Hb|]. intros v s1. apply ragree_lift. intros b. destruct b; [apply ragree_refl|apply IH].
Qed.

Lemma count_loop_agree n : forall i c s k1 k2, (forall c' s', ragree (k1 c' s') (k2 c' s')) ->
  ragree (count_loop b1 l1 n i c s k1) (count_loop b2 l2 n i c s k2).
Proof.
  induction n as [|n IH]; intros i c s k1 k2 Hk; cbn [count_loop]; [apply Hk|].
  apply ragree_rbind; [apply Hb|]. intros v s1. apply ragree_lift. intros b. apply IH. exact Hk.
Qed.

Lemma filter_loop_agree elem n : forall i acc s k1 k2, (forall xs s', ragree (k1 xs s') (k2 xs s')) ->
  ragree (filter_loop b1 l1 elem n i acc s k1) (filter_loop b2 l2 elem n i acc s k2).
Proof.
  induction n as [|n IH]; intros i acc s k1 k2 Hk; cbn [filter_loop]; [apply Hk|].
  apply ragree_rbind; [apply Hb|]. intros v s1. apply ragree_lift. intros b. destruct b.
  - apply ragree_lift. intros x. apply IH. exact Hk.
  - apply IH. exact Hk.
Qed.

Lemma map_loop_agree n : forall i acc s k1 k2, (forall xs s', ragree (k1 xs s') (k2 xs s')) ->
  ragree (map_loop b1 n i acc s k1) (map_loop b2 n i acc s k2).
Proof.
  induction n as [|n IH]; intros i acc s k1 k2 Hk; cbn [map_loop]; [apply Hk|].
  apply ragree_rbind; [apply Hb|]. intros v s1. apply IH. exact Hk.
Qed.
End LoopAgree.


(* ================================================================== Part 4: literal-only arithmetic trees *)
(* a number "of kind k" as integer literals produce it: NFlt for the float kinds, NInt for the others *)
Definition num_shape (k : kind) (n : num) : Prop :=
  match n with
  | NInt k' _ => k' = k /\ is_float k = false
  | NFlt k' _ => k' = k /\ is_float k = true
  end.

Lemma num_shape_kind k n : num_shape k n -> num_kind n = k.
Proof. destruct n; cbn; intros [H _]; exact H. Qed.

(* the value of a literal, by its effective kind *)
Definition canon (k : kind) (z : Z) : value :=
  if kind_eqb k KInt then vint z
  else if is_float k then VNum (NFlt k (fround k (f_of_Z z))) else VNum (NInt k (wrap k z)).

Lemma int_const_canon a z : lit_range_ok a z = true -> int_const a z = canon (eff_kind a) z.
Proof.
  unfold lit_range_ok, int_const, eff_kind, canon. intros H.
  destruct (akind a) as [| |k| | | | | | | |]; try reflexivity.
  destruct k; try reflexivity. cbn [kind_eqb kind_idx Z.eqb is_float].
  rewrite wrap_in_range by (auto; reflexivity). reflexivity.
Qed.

Lemma canon_shape k z : exists n, canon k z = VNum n /\ num_shape k n.
Proof.
  unfold canon. destruct (kind_eqb k KInt) eqn:E.
  - apply kind_eqb_eq in E. subst k. eexists; split; [reflexivity|]. cbn. auto.
  - destruct (is_float k) eqn:F; eexists; (split; [reflexivity|]); cbn; auto.
Qed.

Lemma go_neg_shape k n : num_shape k n -> num_shape k (go_neg n).
Proof. destruct n; cbn; auto. Qed.

Definition arith_helper (h : helper) : bool :=
  match h with HAdd | HSubtract | HMultiply | HDivide => true | _ => false end.

(* the generated table on two operands of one and the same kind: no conversion, Go's operator *)
Lemma helper_case_same h k : arith_helper h = true -> helper_case h k k = Some (None, None, helper_op h).
Proof. intros H. destruct h; try discriminate H; destruct k; reflexivity. Qed.

Lemma arith_helper_shape h k n1 n2 v :
  arith_helper h = true -> num_shape k n1 -> num_shape k n2 ->
  p_helper h (VNum n1) (VNum n2) = Ok v -> exists n, v = VNum n /\ num_shape k n.
Proof.
  intros Hh S1 S2. unfold p_helper, helper_num.
  rewrite (num_shape_kind _ _ S1), (num_shape_kind _ _ S2), (helper_case_same _ _ Hh).
  cbn [conv_opt].
  destruct n1 as [k1 x|k1 x], n2 as [k2 y|k2 y]; cbn [num_shape] in S1, S2;
    destruct S1 as [-> F1]; destruct S2 as [E2 F2]; subst; try congruence.
  - unfold go_op. rewrite kind_eqb_refl. cbn [negb].
    destruct h; try discriminate Hh; cbn [helper_op of_nres].
    1-3: intros E; inversion E; eexists; split; [reflexivity|cbn; auto].
    destruct (y =? 0); cbn [of_nres]; [discriminate|].
    intros E; inversion E; eexists; split; [reflexivity|cbn; auto].
  - unfold go_op. rewrite kind_eqb_refl. cbn [negb].
    destruct h; try discriminate Hh; cbn [helper_op of_nres];
    intros E; inversion E; eexists; split; try reflexivity; cbn; auto.
Qed.

Definition helper_of (op : binop) : helper :=
  match op with BAdd => HAdd | BSub => HSubtract | BMul => HMultiply | _ => HDivide end.

Lemma bin_strict_arith fe cfg here op l r va vb s :
  arith_bin op = true ->
  bin_strict fe cfg here op l r va vb s = lift here s (p_helper (helper_of op) va vb) (fun v => Done v s).
Proof. destruct op; try discriminate; reflexivity. Qed.

Lemma helper_of_arith op : arith_bin op = true -> arith_helper (helper_of op) = true.
Proof. destruct op; try discriminate; reflexivity. Qed.

Lemma arith_not_lazy op : arith_bin op = true -> is_or op = false /\ is_and op = false.
Proof. destruct op; try discriminate; auto. Qed.

(* a literal-only tree of kind k evaluates, when it succeeds, to a number of kind k; no effect *)
Lemma uniform_eval fe cfg env k : forall x, uniform k x = true ->
  forall ctx s v s', eval fe cfg env ctx x s = Done v s' -> s' = s /\ exists n, v = VNum n /\ num_shape k n.
Proof.
  induction x as [| | a z | | | | |a op x IHx|a op l IHl r IHr| | | | | | | | | | | | | ]; intros U; try discriminate U;
    intros ctx s v s' E.
  - cbn [uniform] in U. apply andb_prop in U. destruct U as [Uk Ur]. apply kind_eqb_eq in Uk.
    rewrite ev_int in E. inversion E; subst. split; [reflexivity|].
    rewrite (int_const_canon _ _ Ur). apply canon_shape.
  - cbn [uniform] in U. apply andb_prop in U. destruct U as [Uo Ux].
    rewrite ev_unary in E. destruct (eval fe cfg env ctx x s) as [vx sx|] eqn:Ex; [|discriminate].
    cbn [rbind] in E. destruct (IHx Ux _ _ _ _ Ex) as [-> (n & -> & Sn)].
    destruct op; try discriminate Uo.
    + inversion E; subst. split; [reflexivity|]. eauto.
    + cbn in E. inversion E; subst. split; [reflexivity|]. eexists; split; [reflexivity|]. apply go_neg_shape; auto.
  - cbn [uniform] in U. apply andb_prop in U. destruct U as [U Ur]. apply andb_prop in U. destruct U as [Uo Ul].
    rewrite ev_binary in E. destruct (arith_not_lazy _ Uo) as [Oo Oa]. rewrite Oo, Oa in E.
    destruct (eval fe cfg env ctx l s) as [vl sl|] eqn:El; [|discriminate]. cbn [rbind] in E.
    destruct (IHl Ul _ _ _ _ El) as [-> (n1 & -> & S1)].
    destruct (eval fe cfg env ctx r s) as [vr sr|] eqn:Er; [|discriminate]. cbn [rbind] in E.
    destruct (IHr Ur _ _ _ _ Er) as [-> (n2 & -> & S2)].
    rewrite bin_strict_arith in E by auto.
    destruct (p_helper (helper_of op) (VNum n1) (VNum n2)) as [w|] eqn:Ew; [|discriminate].
    cbn [lift] in E. inversion E; subst. split; [reflexivity|].
    eapply (arith_helper_shape (helper_of op) k n1 n2); [apply helper_of_arith; exact Uo|exact S1|exact S2|exact Ew].
Qed.

(* two literal-only trees of one source with the same kind evaluate alike, whatever the mode *)
Lemma erase_ann_loc a1 a2 : erase_ann a1 = erase_ann a2 -> aloc a1 = aloc a2.
Proof. unfold erase_ann. intros H. inversion H. reflexivity. Qed.

Lemma uniform_same fe cfg1 env1 cfg2 env2 k : forall x1 x2, erase x1 = erase x2 ->
  uniform k x1 = true -> uniform k x2 = true ->
  forall ctx s, eval fe cfg1 env1 ctx x1 s = eval fe cfg2 env2 ctx x2 s.
Proof.
  induction x1 as [| | a z | | | | |a op x IHx|a op l IHl r IHr| | | | | | | | | | | | | ]; intros x2 E U1; try discriminate U1;
    intros U2 ctx s; destruct x2 as [| | a' z' | | | | |a' op' x'|a' op' l' r'| | | | | | | | | | | | | ];
    try discriminate E; try discriminate U2; cbn [erase] in E.
  - injection E as Ea Ez. subst z'.
    cbn [uniform] in U1, U2. apply andb_prop in U1. destruct U1 as [K1 R1]. apply andb_prop in U2. destruct U2 as [K2 R2].
    apply kind_eqb_eq in K1. apply kind_eqb_eq in K2.
    rewrite !ev_int, (int_const_canon _ _ R1), (int_const_canon _ _ R2), K1, K2. reflexivity.
  - injection E as Ea Eo Ex. subst op'.
    cbn [uniform] in U1, U2. apply andb_prop in U1. destruct U1 as [O1 X1]. apply andb_prop in U2. destruct U2 as [O2 X2].
    rewrite !ev_unary. rewrite (IHx _ Ex X1 X2), Ea. reflexivity.
  - injection E as Ea Eo El Er. subst op'.
    cbn [uniform] in U1, U2.
    apply andb_prop in U1. destruct U1 as [U1 Rr1]. apply andb_prop in U1. destruct U1 as [O1 L1].
    apply andb_prop in U2. destruct U2 as [U2 Rr2]. apply andb_prop in U2. destruct U2 as [O2 L2].
    rewrite !ev_binary. destruct (arith_not_lazy _ O1) as [Oo Oa]. rewrite Oo, Oa.
    rewrite (IHl _ El L1 L2), Ea.
    destruct (eval fe cfg2 env2 ctx l' s) as [va s1|]; cbn [rbind]; [|reflexivity].
    rewrite (IHr _ Er Rr1 Rr2).
    destruct (eval fe cfg2 env2 ctx r' s1) as [vb s2|]; cbn [rbind]; [|reflexivity].
    rewrite !bin_strict_arith by auto. reflexivity.
Qed.


(* ================================================================== Part 5: classification of arguments *)
Lemma lit_shape_erase : forall e, lit_shape (erase e) = lit_shape e.
Proof.
  induction e as [| |a z| | | | |a op x IHx|a op l IHl r IHr| | | | | | | | | | | | | ]; try reflexivity; cbn [erase lit_shape].
  - rewrite IHx. reflexivity.
  - rewrite IHl, IHr. reflexivity.
Qed.

Lemma uniform_lit_shape k : forall e, uniform k e = true -> lit_shape e = true.
Proof.
  induction e as [| |a z| | | | |a op x IHx|a op l IHl r IHr| | | | | | | | | | | | | ]; intros U; try discriminate U; cbn [uniform lit_shape] in *.
  - reflexivity.
  - apply andb_prop in U. destruct U as [-> U]. cbn [andb]. auto.
  - apply andb_prop in U. destruct U as [U Ur]. apply andb_prop in U. destruct U as [-> Ul].
    rewrite IHl, IHr by auto. reflexivity.
Qed.

Lemma wf_lit_uniform : forall e, lit_shape e = true -> wf e = true -> uniform KInt e = true.
Proof.
  induction e as [| |a z| | | | |a op x IHx|a op l IHl r IHr| | | | | | | | | | | | | ]; intros L W; try discriminate L; cbn [uniform lit_shape wf] in *.
  - exact W.
  - apply andb_prop in L. destruct L as [-> L]. cbn [andb]. auto.
  - apply andb_prop in L. destruct L as [L Lr]. apply andb_prop in L. destruct L as [-> Ll].
    apply andb_prop in W. destruct W as [Wl Wr]. rewrite IHl, IHr by auto. reflexivity.
Qed.

Lemma retyped_kind_inv x k : retyped_kind x = Some k -> k <> KInt /\ uniform k x = true.
Proof.
  unfold retyped_kind. destruct (first_lit x) as [k'|]; [|discriminate].
  destruct (negb (kind_eqb k' KInt) && uniform k' x) eqn:E; [|discriminate].
  intros H. inversion H; subst. apply andb_prop in E. destruct E as [E1 E2]. split; [|exact E2].
  apply negb_true_iff in E1. apply kind_eqb_neq in E1. exact E1.
Qed.

Definition arg_valid (x : expr) : bool := wf x || is_some (retyped_kind x).

(* a valid argument that is a literal-only tree has ONE kind; it is a call site unless the kind is int *)
Lemma class_uniform x : arg_valid x = true -> lit_shape x = true ->
  exists k, uniform k x = true /\ (k <> KInt -> arg_class x = Some k).
Proof.
  unfold arg_valid, arg_class. intros V L. destruct (wf x) eqn:W.
  - exists KInt. split; [apply wf_lit_uniform; auto|congruence].
  - cbn [orb] in V. destruct (retyped_kind x) as [k|] eqn:R; [|discriminate].
    destruct (retyped_kind_inv _ _ R) as [Hk U]. exists k. auto.
Qed.

Lemma not_wf_lit_shape x : arg_valid x = true -> wf x = false -> lit_shape x = true.
Proof.
  unfold arg_valid. intros V W. rewrite W in V. cbn [orb] in V.
  destruct (retyped_kind x) as [k|] eqn:R; [|discriminate].
  destruct (retyped_kind_inv _ _ R) as [_ U]. eapply uniform_lit_shape; eauto.
Qed.

(* ---- reflect.Call's pairing of arguments and parameters ---- *)
Lemma slice1_dec (p : ty) (ins : list ty) : (exists e, p :: ins = [TSlice e]) \/ (forall e, p :: ins <> [TSlice e]).
Proof.
  destruct ins as [|q r]; [|right; intros e H; discriminate H].
  destruct p; try (right; intros e' H; discriminate H). left. eexists; reflexivity.
Qed.

Lemma args_ok_cons p ins var a vs : (forall e, p :: ins <> [TSlice e]) ->
  args_ok (p :: ins) var (a :: vs) =
  (match a with VNil => assignable TIface p | _ => assignable (dyn_type a) p end) && args_ok ins var vs.
Proof.
  intros H. destruct p; try reflexivity. destruct ins; [exfalso; eapply H; reflexivity|reflexivity].
Qed.

Lemma args_ok_cons_nil p ins var : (forall e, p :: ins <> [TSlice e]) -> args_ok (p :: ins) var [] = false.
Proof.
  intros H. destruct p; try reflexivity. destruct ins; [exfalso; eapply H; reflexivity|reflexivity].
Qed.

Lemma param_at_cons p ins var j : (forall e, p :: ins <> [TSlice e]) ->
  param_at (p :: ins) var j = match j with O => Some p | S j' => param_at ins var j' end.
Proof.
  intros H. destruct p; try reflexivity. destruct ins; [exfalso; eapply H; reflexivity|reflexivity].
Qed.

Lemma args_ok_param : forall ins var vs, args_ok ins var vs = true ->
  forall j n, nth_error vs j = Some (VNum n) ->
  exists p, param_at ins var j = Some p /\ assignable (TNum (num_kind n)) p = true.
Proof.
  induction ins as [|p ins IH]; intros var vs A j n N.
  - destruct vs; [destruct j; discriminate N|discriminate A].
  - destruct (slice1_dec p ins) as [[e E]|NE].
    + inversion E; subst. cbn [args_ok] in A. cbn [param_at]. destruct var.
      * exists e. split; [reflexivity|]. apply nth_error_In in N.
        rewrite forallb_forall in A. apply (A _ N).
      * destruct vs as [|a [|b r]]; try discriminate A.
        destruct j as [|j]; [|destruct j; discriminate N]. cbn in N. inversion N; subst.
        exists (TSlice e). split; [reflexivity|exact A].
    + destruct vs as [|a vs]; [rewrite args_ok_cons_nil in A by auto; discriminate|].
      rewrite args_ok_cons in A by auto. apply andb_prop in A. destruct A as [A1 A2].
      rewrite param_at_cons by auto. destruct j as [|j].
      * cbn in N. inversion N; subst. exists p. split; [reflexivity|exact A1].
      * cbn in N. eapply IH; eauto.
Qed.

Lemma param_at_fast j : param_at [TSlice TIface] true j = Some TIface.
Proof. reflexivity. Qed.

Lemma assignable_num k1 k2 : assignable (TNum k1) (TNum k2) = true -> k1 = k2.
Proof. unfold assignable. cbn. rewrite orb_false_r. apply kind_eqb_eq. Qed.

(* ---- values of the two argument lists ---- *)
Section Vals.
Variables S1 S2 : nat -> kind -> Prop.   (* retyped sites of side 1 / side 2, by position *)

Definition nrel (i : nat) (v1 v2 : value) : Prop :=
  v1 = v2 \/
  exists n1 n2, v1 = VNum n1 /\ v2 = VNum n2 /\ num_kind n1 <> num_kind n2 /\
    (num_kind n1 <> KInt -> S1 i (num_kind n1)) /\ (num_kind n2 <> KInt -> S2 i (num_kind n2)).

Fixpoint vals_rel (i : nat) (vs1 vs2 : list value) : Prop :=
  match vs1, vs2 with
  | [], [] => True
  | v1 :: r1, v2 :: r2 => nrel i v1 v2 /\ vals_rel (S i) r1 r2
  | _, _ => False
  end.

Variable param : nat -> option ty.
Definition accepts (i : nat) (vs : list value) : Prop :=
  forall j n, nth_error vs j = Some (VNum n) -> exists p, param (i + j)%nat = Some p /\ assignable (TNum (num_kind n)) p = true.

Hypothesis P1 : forall j k, S1 j k -> param j = Some (TNum k).
Hypothesis P2 : forall j k, S2 j k -> param j = Some (TNum k).

Lemma accepts_tail i v vs : accepts i (v :: vs) -> accepts (S i) vs.
Proof.
  intros A j n N. destruct (A (S j) n N) as (p & Hp & Ha). exists p. split; [|exact Ha].
  rewrite <- Hp. f_equal. lia.
Qed.

Lemma vals_rel_eq : forall vs1 vs2 i, vals_rel i vs1 vs2 -> accepts i vs1 -> accepts i vs2 -> vs1 = vs2.
Proof.
  induction vs1 as [|v1 r1 IH]; intros [|v2 r2] i R A1 A2; cbn [vals_rel] in R; try contradiction; [reflexivity|].
  destruct R as [R0 R]. f_equal; [|eapply IH; eauto using accepts_tail].
  destruct R0 as [E|(n1 & n2 & -> & -> & Hne & H1 & H2)]; [exact E|exfalso].
  destruct (A1 O n1 eq_refl) as (p1 & Hp1 & Ha1). destruct (A2 O n2 eq_refl) as (p2 & Hp2 & Ha2).
  rewrite Nat.add_0_r in Hp1, Hp2.
  destruct (kind_eqb (num_kind n1) KInt) eqn:K1.
  - apply kind_eqb_eq in K1. assert (K2 : num_kind n2 <> KInt) by congruence.
    specialize (P2 _ _ (H2 K2)). rewrite P2 in Hp1. inversion Hp1; subst p1.
    apply assignable_num in Ha1. congruence.
  - apply kind_eqb_neq in K1. specialize (P1 _ _ (H1 K1)). rewrite P1 in Hp2. inversion Hp2; subst p2.
    apply assignable_num in Ha2. congruence.
Qed.
End Vals.

(* ---- a successful call ---- *)
Lemma do_call_done fe l fast id recv args s v s' :
  do_call fe l fast id recv args s = Done v s' ->
  exists sg, fn_sig fe id = Some sg /\
    (if fast then s_fast sg = true else args_ok (s_ins sg) (s_variadic sg) args = true) /\
    fn_run fe id recv args = Ok v /\ s' = log_call s id args.
Proof.
  unfold do_call. destruct (fn_sig fe id) as [sg|]; [|discriminate]. intros H. exists sg. split; [reflexivity|].
  destruct fast.
  - destruct (s_fast sg); [|discriminate]. destruct (fn_run fe id recv args); [|discriminate].
    inversion H; subst. auto.
  - destruct (args_ok (s_ins sg) (s_variadic sg) args); [|discriminate].
    destruct (fn_run fe id recv args); [|discriminate]. destruct (s_nout sg =? 0); [discriminate|].
    inversion H; subst. auto.
Qed.

Lemma call_agree fe (S1 S2 : nat -> kind -> Prop) l1 l2 fast1 fast2 id recv1 recv2 vs1 vs2 s :
  fast_sound fe ->
  vals_rel S1 S2 0 vs1 vs2 ->
  (forall j k sg, S1 j k -> fn_sig fe id = Some sg -> param_at (s_ins sg) (s_variadic sg) j = Some (TNum k)) ->
  (forall j k sg, S2 j k -> fn_sig fe id = Some sg -> param_at (s_ins sg) (s_variadic sg) j = Some (TNum k)) ->
  (forall args, fn_run fe id recv1 args = fn_run fe id recv2 args) ->
  ragree (do_call fe l1 fast1 id recv1 vs1 s) (do_call fe l2 fast2 id recv2 vs2 s).
Proof.
  intros HF R P1 P2 Hrun v1 s1 v2 s2 E1 E2.
  apply do_call_done in E1. destruct E1 as (sg & Hsg & C1 & R1 & ->).
  apply do_call_done in E2. destruct E2 as (sg' & Hsg' & C2 & R2 & ->).
  rewrite Hsg in Hsg'. inversion Hsg'; subst sg'.
  assert (A : forall (fast : bool) vs, (if fast then s_fast sg = true else args_ok (s_ins sg) (s_variadic sg) vs = true) ->
              accepts (param_at (s_ins sg) (s_variadic sg)) 0 vs).
  { intros fast vs C j n N. cbn [Nat.add]. destruct fast.
    - destruct (HF _ _ Hsg C) as [Hi Hv]. rewrite Hi, Hv. exists TIface. split; [reflexivity|].
      unfold assignable. apply orb_true_r.
    - eapply args_ok_param; eauto. }
  assert (E : vs1 = vs2).
  { eapply (vals_rel_eq S1 S2 (param_at (s_ins sg) (s_variadic sg))); eauto. }
  subst vs2. rewrite Hrun in R1. rewrite R1 in R2. inversion R2. auto.
Qed.


(* ================================================================== Part 6: the induction *)
Lemma lsize_in x : forall l, In x l -> (esize x <= lsize l)%nat.
Proof.
  induction l as [|y r IH]; intros H; [destruct H|]. cbn [lsize]. destruct H as [<-|H]; [lia|]. specialize (IH H). lia.
Qed.

Lemma Forall_flat_map_in {A B} (Q : B -> Prop) (f : A -> list B) l x :
  Forall Q (flat_map f l) -> In x l -> Forall Q (f x).
Proof.
  induction l as [|y r IH]; intros F H; [destruct H|]. cbn [flat_map] in F. apply Forall_app in F. destruct F as [F1 F2].
  destruct H as [<-|H]; auto.
Qed.

Lemma arg_sites_in m name : forall l i j x k, nth_error l j = Some x -> arg_class x = Some k ->
  In (mkSite m name (i + j) k) (arg_sites m name l i).
Proof.
  induction l as [|y r IH]; intros i j x k N C; [destruct j; discriminate N|].
  cbn [arg_sites]. apply in_or_app. destruct j as [|j].
  - cbn in N. inversion N; subst. left. rewrite C. rewrite Nat.add_0_r. left; reflexivity.
  - right. cbn in N. replace (i + S j)%nat with (S i + j)%nat by lia. eapply IH; eauto.
Qed.

Lemma beq_done fe cfg here l r va vb s v s' :
  bin_strict fe cfg here BEq l r va vb s = Done v s' -> p_equal va vb = Ok v /\ s' = s.
Proof.
  cbn [bin_strict]. intros H.
  assert (G : lift here s (p_equal va vb) (fun w => Done w s) = Done v s').
  { destruct (both_kind (RKNum KInt) l r); [apply eq_specialised_agrees; left; exact H|].
    destruct (both_kind RKString l r); [apply eq_specialised_agrees; right; exact H|exact H]. }
  destruct (p_equal va vb); [|discriminate G]. cbn [lift] in G. inversion G. auto.
Qed.

Lemma method_match_agree (ns : bool) (v : value) s A B :
  ragree A B ->
  ragree (match ns, v with true, VNil => Done VNil s | _, _ => A end)
         (match ns, v with true, VNil => Done VNil s | _, _ => B end).
Proof. intros H. destruct ns; [destruct v|]; auto using ragree_refl. Qed.

Lemma zero_fn_agree (b : bool) s A B :
  ragree A B -> ragree (if b then Done VNil s else A) (if b then Done VNil s else B).
Proof. intros H. destruct b; auto using ragree_refl. Qed.

Ltac ra1 :=
  first [ apply ragree_stop_l
        | apply ragree_stop_r
        | match goal with |- ragree ?a ?b => constr_eq a b; apply ragree_refl end
        | apply ragree_lift; intros ? ].
Ltac ra := repeat ra1.

Section Agree.
Variable fe : fenv.
Variables cfg1 cfg2 : config.
Variables env1 env2 : value.
Hypothesis Hlim : c_limit cfg1 = c_limit cfg2.
Hypothesis Hid : forall name ns v1 v2,
  fetch_ident cfg1 env1 name ns = Ok v1 -> fetch_ident cfg2 env2 name ns = Ok v2 -> v1 = v2.
Hypothesis Hfn : forall name id1 id2, fetch_fn fe env1 name = Ok id1 -> fetch_fn fe env2 name = Ok id2 -> id1 = id2.
Hypothesis Hrun : forall name id args,
  fetch_fn fe env1 name = Ok id -> fetch_fn fe env2 name = Ok id -> fn_run fe id env1 args = fn_run fe id env2 args.
Hypothesis Hfast : fast_sound fe.

Notation ev1 := (eval fe cfg1 env1).
Notation ev2 := (eval fe cfg2 env2).

Definition agree (e1 e2 : expr) : Prop := forall ctx s, ragree (ev1 ctx e1 s) (ev2 ctx e2 s).
Definition node_agrees (e1 : expr) : Prop := forall e2, same_shape e1 e2 -> ok fe env1 e1 -> ok fe env2 e2 -> agree e1 e2.

Lemma bin_strict_agree here1 here2 op l1 r1 l2 r2 va vb s :
  ragree (bin_strict fe cfg1 here1 op l1 r1 va vb s) (bin_strict fe cfg2 here2 op l2 r2 va vb s).
Proof.
  destruct op; try (cbn [bin_strict]; ra; fail).
  - intros v1 s1 v2 s2 E1 E2. apply beq_done in E1. apply beq_done in E2.
    destruct E1 as [E1 ->]. destruct E2 as [E2 ->]. rewrite E1 in E2. inversion E2. auto.
  - cbn [bin_strict]. apply ragree_lift. intros lo. apply ragree_lift. intros hi.
    destruct (range_size lo hi); [|ra]. apply ragree_alloc; [exact Hlim|]. intros s'. ra.
Qed.

Lemma ev_list_agree ctx : forall l1 l2, map erase l1 = map erase l2 ->
  (forall x, In x l1 -> node_agrees x) -> (forall x, In x l1 -> ok fe env1 x) -> (forall x, In x l2 -> ok fe env2 x) ->
  forall s k1 k2, (forall vs s', ragree (k1 vs s') (k2 vs s')) ->
  ragree (ev_list fe cfg1 env1 ctx l1 s k1) (ev_list fe cfg2 env2 ctx l2 s k2).
Proof.
  induction l1 as [|x1 r1 IH]; intros [|x2 r2] E HP O1 O2 s k1 k2 Hk; try discriminate E.
  - apply Hk.
  - cbn [map] in E. injection E as Ex Er. rewrite !ev_list_cons. apply ragree_rbind.
    + apply (HP x1 (or_introl eq_refl) x2 Ex); [apply O1|apply O2]; left; reflexivity.
    + intros v s1. apply IH;
        [exact Er | intros x Hx; apply HP; right; exact Hx | intros x Hx; apply O1; right; exact Hx
        | intros x Hx; apply O2; right; exact Hx | intros vs s'; apply Hk].
Qed.

Lemma ok_pair_inv env a k v : ok fe env (EPair a k v) -> ok fe env k /\ ok fe env v.
Proof.
  unfold ok. cbn [wf sites]. rewrite andb_true_iff, Forall_app. tauto.
Qed.

Lemma ev_pairs_agree ctx here1 here2 : forall l1 l2, map erase l1 = map erase l2 ->
  (forall a k v, In (EPair a k v) l1 -> node_agrees k /\ node_agrees v) ->
  (forall x, In x l1 -> ok fe env1 x) -> (forall x, In x l2 -> ok fe env2 x) ->
  forall s k1 k2, (forall kvs s', ragree (k1 kvs s') (k2 kvs s')) ->
  ragree (ev_pairs fe cfg1 env1 ctx here1 l1 s k1) (ev_pairs fe cfg2 env2 ctx here2 l2 s k2).
Proof.
  induction l1 as [|p1 r1 IH]; intros [|p2 r2] E HP O1 O2 s k1 k2 Hk; try discriminate E.
  - apply Hk.
  - cbn [map] in E. injection E as Ex Er. rewrite !ev_pairs_cons.
    destruct p1 as [| | | | | | | | | | | | | | | | | | | | |a1 kx1 vx1]; try apply ragree_stop_l.
    destruct p2 as [| | | | | | | | | | | | | | | | | | | | |a2 kx2 vx2]; try discriminate Ex.
    cbn [erase] in Ex. injection Ex as _ Ek Ev.
    destruct (HP _ _ _ (or_introl eq_refl)) as [Pk Pv].
    destruct (ok_pair_inv _ _ _ _ (O1 _ (or_introl eq_refl))) as [Ok1 Ov1].
    destruct (ok_pair_inv _ _ _ _ (O2 _ (or_introl eq_refl))) as [Ok2 Ov2].
    apply ragree_rbind; [apply (Pk _ Ek Ok1 Ok2)|]. intros vk s1.
    apply ragree_rbind; [apply (Pv _ Ev Ov1 Ov2)|]. intros vv s2.
    apply IH;
      [exact Er | intros a k v Hin; apply (HP a k v); right; exact Hin | intros x Hx; apply O1; right; exact Hx
      | intros x Hx; apply O2; right; exact Hx | intros kvs s'; apply Hk].
Qed.

(* one argument pair *)
Lemma arg_pair x1 x2 : erase x1 = erase x2 -> node_agrees x1 ->
  arg_valid x1 = true -> arg_valid x2 = true ->
  Forall (site_ok fe env1) (sites x1) -> Forall (site_ok fe env2) (sites x2) ->
  forall ctx s v1 s1 v2 s2, ev1 ctx x1 s = Done v1 s1 -> ev2 ctx x2 s = Done v2 s2 ->
  s1 = s2 /\ (v1 = v2 \/ exists n1 n2, v1 = VNum n1 /\ v2 = VNum n2 /\ num_kind n1 <> num_kind n2 /\
     (num_kind n1 <> KInt -> arg_class x1 = Some (num_kind n1)) /\
     (num_kind n2 <> KInt -> arg_class x2 = Some (num_kind n2))).
Proof.
  intros E HP V1 V2 F1 F2 ctx s v1 s1 v2 s2 D1 D2.
  destruct (wf x1 && wf x2) eqn:W.
  - apply andb_prop in W. destruct W as [W1 W2].
    destruct (HP x2 E (conj W1 F1) (conj W2 F2) ctx s _ _ _ _ D1 D2) as [Ev Es]. auto.
  - assert (L1 : lit_shape x1 = true).
    { apply andb_false_iff in W. destruct W as [W|W].
      - apply not_wf_lit_shape; auto.
      - rewrite <- lit_shape_erase, E, lit_shape_erase. apply not_wf_lit_shape; auto. }
    assert (L2 : lit_shape x2 = true) by (rewrite <- lit_shape_erase, <- E, lit_shape_erase; exact L1).
    destruct (class_uniform _ V1 L1) as (k1 & U1 & C1). destruct (class_uniform _ V2 L2) as (k2 & U2 & C2).
    destruct (uniform_eval fe cfg1 env1 k1 x1 U1 _ _ _ _ D1) as [Es1 (n1 & Ev1 & Sh1)].
    destruct (uniform_eval fe cfg2 env2 k2 x2 U2 _ _ _ _ D2) as [Es2 (n2 & Ev2 & Sh2)].
    subst s1 s2 v1 v2. split; [reflexivity|].
    apply num_shape_kind in Sh1. apply num_shape_kind in Sh2.
    destruct (kind_eqb k1 k2) eqn:K.
    + apply kind_eqb_eq in K. rewrite <- K in U2. left.
      rewrite (uniform_same fe cfg1 env1 cfg2 env2 k1 x1 x2 E U1 U2 ctx s) in D1. rewrite D1 in D2. inversion D2. reflexivity.
    + apply kind_eqb_neq in K. right. exists n1, n2. rewrite <- Sh1 in C1, K. rewrite <- Sh2 in C2, K. repeat split; auto.
Qed.

Lemma ev_args_agree (S1 S2 : nat -> kind -> Prop) ctx : forall l1 l2 i s k1 k2,
  map erase l1 = map erase l2 ->
  (forall x, In x l1 -> node_agrees x) ->
  (forall x, In x l1 -> arg_valid x = true /\ Forall (site_ok fe env1) (sites x)) ->
  (forall x, In x l2 -> arg_valid x = true /\ Forall (site_ok fe env2) (sites x)) ->
  (forall j x k, nth_error l1 j = Some x -> arg_class x = Some k -> S1 (i + j)%nat k) ->
  (forall j x k, nth_error l2 j = Some x -> arg_class x = Some k -> S2 (i + j)%nat k) ->
  (forall vs1 vs2 s', vals_rel S1 S2 i vs1 vs2 -> ragree (k1 vs1 s') (k2 vs2 s')) ->
  ragree (ev_list fe cfg1 env1 ctx l1 s k1) (ev_list fe cfg2 env2 ctx l2 s k2).
Proof.
  induction l1 as [|x1 r1 IH]; intros [|x2 r2] i s k1 k2 E HP V1 V2 H1 H2 Hk; try discriminate E.
  - apply Hk. exact I.
  - cbn [map] in E. injection E as Ex Er. rewrite !ev_list_cons.
    apply ragree_rbind_rel with (R := nrel S1 S2 i).
    + intros v1 s1 v2 s2 D1 D2.
      destruct (V1 x1 (or_introl eq_refl)) as [Va1 Fa1]. destruct (V2 x2 (or_introl eq_refl)) as [Va2 Fa2].
      destruct (arg_pair x1 x2 Ex (HP _ (or_introl eq_refl)) Va1 Va2 Fa1 Fa2 ctx s _ _ _ _ D1 D2)
        as [Es [Ev|(n1 & n2 & Ev1 & Ev2 & Hne & C1 & C2)]].
      * split; [exact Es|left; exact Ev].
      * split; [exact Es|right]. exists n1, n2. repeat split; auto.
        -- intros Hk1. specialize (H1 O x1 _ eq_refl (C1 Hk1)). rewrite Nat.add_0_r in H1. exact H1.
        -- intros Hk2. specialize (H2 O x2 _ eq_refl (C2 Hk2)). rewrite Nat.add_0_r in H2. exact H2.
    + intros v1 v2 s1 R. apply (IH r2 (S i));
        [ exact Er | intros x Hx; apply HP; right; exact Hx | intros x Hx; apply V1; right; exact Hx
        | intros x Hx; apply V2; right; exact Hx | | | ].
      * intros j x k N C. specialize (H1 (S j) x k N C). replace (S i + j)%nat with (i + S j)%nat by lia. exact H1.
      * intros j x k N C. specialize (H2 (S j) x k N C). replace (S i + j)%nat with (i + S j)%nat by lia. exact H2.
      * intros vs1 vs2 s' Rr. apply Hk. cbn [vals_rel]. split; assumption.
Qed.

Lemma ok_function_inv env a name args fast : ok fe env (EFunction a name args fast) ->
  (forall x, In x args -> arg_valid x = true /\ Forall (site_ok fe env) (sites x)) /\
  Forall (site_ok fe env) (arg_sites false name args 0).
Proof.
  unfold ok. cbn [wf sites]. intros [W F]. rewrite Forall_app in F. destruct F as [Fa Ff]. split; [|exact Fa].
  intros x Hx. split; [|eapply Forall_flat_map_in; eauto]. rewrite forallb_forall in W. apply (W x Hx).
Qed.

Lemma ok_method_inv env a x name args ns : ok fe env (EMethod a x name args ns) ->
  ok fe env x /\
  (forall y, In y args -> arg_valid y = true /\ Forall (site_ok fe env) (sites y)) /\
  Forall (site_ok fe env) (arg_sites true name args 0).
Proof.
  unfold ok. cbn [wf sites]. intros [W F]. rewrite !Forall_app in F. destruct F as [Fx [Fa Ff]].
  apply andb_prop in W. destruct W as [Wx W]. split; [auto|]. split; [|exact Fa].
  intros y Hy. split; [|eapply Forall_flat_map_in; eauto]. rewrite forallb_forall in W. apply (W y Hy).
Qed.

Lemma ok_list_inv env (l : list expr) : forallb wf l = true -> Forall (site_ok fe env) (flat_map sites l) ->
  forall x, In x l -> ok fe env x.
Proof.
  intros W F x Hx. split; [|eapply Forall_flat_map_in; eauto]. rewrite forallb_forall in W. auto.
Qed.

Ltac ok_inv H := unfold ok in H; cbn [wf sites opt_all opt_sites] in H; rewrite ?andb_true_iff, ?Forall_app in H.
Ltac ok_solve := unfold ok; tauto.

Theorem agree_all : forall n e1, (esize e1 < n)%nat -> node_agrees e1.
Proof.
  induction n as [|n IH]; intros e1 Hn; [lia|].
  intros e2 E O1 O2. unfold same_shape in E.
  destruct e1 as [a1|a1 nm1 ns1|a1 z1|a1 f1|a1 b1|a1 str1|a1 c1|a1 op1 x1|a1 op1 l1 r1|a1 re1 l1 r1|a1 x1 nm1 ns1|a1 x1 i1
                 |a1 x1 f1 t1|a1 x1 nm1 args1 ns1|a1 nm1 args1 fast1|a1 b1 args1|a1 x1|a1|a1 c1 x1 y1|a1 es1|a1 ps1|a1 k1 v1];
  destruct e2 as [a2|a2 nm2 ns2|a2 z2|a2 f2|a2 b2|a2 str2|a2 c2|a2 op2 x2|a2 op2 l2 r2|a2 re2 l2 r2|a2 x2 nm2 ns2|a2 x2 i2
                 |a2 x2 f2 t2|a2 x2 nm2 args2 ns2|a2 nm2 args2 fast2|a2 b2 args2|a2 x2|a2|a2 c2 x2 y2|a2 es2|a2 ps2|a2 k2 v2];
  cbn [erase] in E; try discriminate E; intros ctx s.
  - (* nil *) exact (ragree_done VNil s).
  - (* identifier *) injection E as _ En Ens. subst nm2 ns2. rewrite !ev_ident.
    intros v1 s1 v2 s2 D1 D2.
    destruct (fetch_ident cfg1 env1 nm1 ns1) as [w1|] eqn:F1; [|discriminate D1].
    destruct (fetch_ident cfg2 env2 nm1 ns1) as [w2|] eqn:F2; [|discriminate D2].
    cbn [lift] in D1, D2. inversion D1; inversion D2; subst. split; [eapply Hid; eauto|reflexivity].
  - (* integer *) injection E as _ Ez. subst z2. rewrite !ev_int.
    destruct O1 as [W1 _]. destruct O2 as [W2 _]. cbn [wf] in W1, W2. unfold plain_lit in W1, W2.
    apply andb_prop in W1. destruct W1 as [K1 R1]. apply andb_prop in W2. destruct W2 as [K2 R2].
    apply kind_eqb_eq in K1. apply kind_eqb_eq in K2.
    rewrite (int_const_canon _ _ R1), (int_const_canon _ _ R2), K1, K2. apply ragree_refl.
  - (* float *) injection E as _ Ef. subst f2. exact (ragree_done _ s).
  - (* bool *) injection E as _ Eb. subst b2. exact (ragree_done _ s).
  - (* string *) injection E as _ Es. subst str2. exact (ragree_done _ s).
  - (* constant *) injection E as _ Ec. subst c2. exact (ragree_done _ s).
  - (* unary *) injection E as _ Eo Ex. subst op2. ok_inv O1. ok_inv O2. rewrite !ev_unary.
    apply ragree_rbind; [apply (IH x1 ltac:(cbn [esize] in Hn; lia) x2 Ex); ok_solve|].
    intros v s1. destruct op1; ra.
  - (* binary *) injection E as _ Eo El Er. subst op2. ok_inv O1. ok_inv O2. rewrite !ev_binary.
    assert (Al : agree l1 l2) by (apply (IH l1 ltac:(cbn [esize] in Hn; lia) l2 El); ok_solve).
    assert (Ar : agree r1 r2) by (apply (IH r1 ltac:(cbn [esize] in Hn; lia) r2 Er); ok_solve).
    destruct (is_or op1); [|destruct (is_and op1)].
    + apply ragree_rbind; [apply Al|]. intros va s1. apply ragree_lift. intros b. destruct b; [apply ragree_refl|apply Ar].
    + apply ragree_rbind; [apply Al|]. intros va s1. apply ragree_lift. intros b. destruct b; [apply Ar|apply ragree_refl].
    + apply ragree_rbind; [apply Al|]. intros va s1. apply ragree_rbind; [apply Ar|]. intros vb s2.
      apply bin_strict_agree.
  - (* matches *) injection E as _ Ere El Er. subst re2. ok_inv O1. ok_inv O2. rewrite !ev_matches.
    assert (Al : agree l1 l2) by (apply (IH l1 ltac:(cbn [esize] in Hn; lia) l2 El); ok_solve).
    assert (Ar : agree r1 r2) by (apply (IH r1 ltac:(cbn [esize] in Hn; lia) r2 Er); ok_solve).
    apply ragree_rbind; [apply Al|]. intros va s1. apply ragree_rbind; [apply Ar|]. intros vb s2.
      apply ragree_lift. intros pat. apply ragree_lift. intros subj. destruct (re_match fe pat subj); ra.
  - (* property *) injection E as _ Ex En Ens. subst nm2 ns2. ok_inv O1. ok_inv O2. rewrite !ev_property.
    apply ragree_rbind; [apply (IH x1 ltac:(cbn [esize] in Hn; lia) x2 Ex); ok_solve|]. intros v s1. ra.
  - (* index *) injection E as _ Ex Ei. ok_inv O1. ok_inv O2. rewrite !ev_index.
    apply ragree_rbind; [apply (IH x1 ltac:(cbn [esize] in Hn; lia) x2 Ex); ok_solve|]. intros v s1.
    apply ragree_rbind; [apply (IH i1 ltac:(cbn [esize] in Hn; lia) i2 Ei); ok_solve|]. intros vi s2. ra.
  - (* slice *) injection E as _ Ex Ef Et. rewrite !ev_slice.
    destruct f1 as [f1|], f2 as [f2|]; try discriminate Ef; destruct t1 as [t1|], t2 as [t2|]; try discriminate Et;
      cbn [option_map] in Ef, Et; ok_inv O1; ok_inv O2;
      (apply ragree_rbind; [apply (IH x1 ltac:(cbn [esize] in Hn; lia) x2 Ex); ok_solve|]); intros v s1.
    + injection Ef as Ef. injection Et as Et.
      apply ragree_rbind; [apply (IH t1 ltac:(cbn [esize] in Hn; lia) t2 Et); ok_solve|]. intros vt s2.
      apply ragree_rbind; [apply (IH f1 ltac:(cbn [esize] in Hn; lia) f2 Ef); ok_solve|]. intros vf s3. ra.
    + injection Ef as Ef.
      apply ragree_rbind; [ra|]. intros vt s2.
      apply ragree_rbind; [apply (IH f1 ltac:(cbn [esize] in Hn; lia) f2 Ef); ok_solve|]. intros vf s3. ra.
    + injection Et as Et.
      apply ragree_rbind; [apply (IH t1 ltac:(cbn [esize] in Hn; lia) t2 Et); ok_solve|]. intros vt s2.
      apply ragree_rbind; [ra|]. intros vf s3. ra.
    + apply ragree_rbind; [ra|]. intros vt s2. apply ragree_rbind; [ra|]. intros vf s3. ra.
  - (* method *) injection E as _ Ex En Eargs Ens. subst nm2 ns2.
    change (esize (EMethod a1 x1 nm1 args1 ns1)) with (S (esize x1 + lsize args1)) in Hn.
    destruct (ok_method_inv _ _ _ _ _ _ O1) as (Ox1 & V1 & Sa1). destruct (ok_method_inv _ _ _ _ _ _ O2) as (Ox2 & V2 & Sa2).
    rewrite !ev_method.
    apply ragree_rbind; [apply (IH x1 ltac:(lia) x2 Ex); auto|]. intros v s1.
    apply (ev_args_agree (fun j k => In (mkSite true nm1 j k) (arg_sites true nm1 args1 0))
                         (fun j k => In (mkSite true nm1 j k) (arg_sites true nm1 args2 0)) ctx args1 args2 0%nat); auto.
    + intros x Hx. apply IH. pose proof (lsize_in _ _ Hx). lia.
    + intros j x k N C. apply (arg_sites_in true nm1 args1 0 j x k N C).
    + intros j x k N C. apply (arg_sites_in true nm1 args2 0 j x k N C).
    + intros vs1 vs2 s' R. apply method_match_agree. apply zero_fn_agree. apply ragree_lift_eq. intros id F.
      apply (call_agree fe _ _ _ _ _ _ _ _ _ _ _ _ Hfast R); [| |reflexivity].
      * intros j k sg Hin Hsg. rewrite Forall_forall in Sa1.
        apply (Sa1 _ Hin v id sg); [intros Hm; discriminate Hm|exact F|exact Hsg].
      * intros j k sg Hin Hsg. rewrite Forall_forall in Sa2.
        apply (Sa2 _ Hin v id sg); [intros Hm; discriminate Hm|exact F|exact Hsg].
  - (* function *) injection E as _ En Eargs. subst nm2.
    change (esize (EFunction a1 nm1 args1 fast1)) with (S (lsize args1)) in Hn.
    destruct (ok_function_inv _ _ _ _ _ O1) as (V1 & Sa1). destruct (ok_function_inv _ _ _ _ _ O2) as (V2 & Sa2).
    rewrite !ev_function.
    apply (ev_args_agree (fun j k => In (mkSite false nm1 j k) (arg_sites false nm1 args1 0))
                         (fun j k => In (mkSite false nm1 j k) (arg_sites false nm1 args2 0)) ctx args1 args2 0%nat); auto.
    + intros x Hx. apply IH. pose proof (lsize_in _ _ Hx). lia.
    + intros j x k N C. apply (arg_sites_in false nm1 args1 0 j x k N C).
    + intros j x k N C. apply (arg_sites_in false nm1 args2 0 j x k N C).
    + intros vs1 vs2 s' R w1 t1 w2 t2 D1 D2.
      destruct (fetch_fn fe env1 nm1) as [id1|] eqn:F1; [|discriminate D1].
      destruct (fetch_fn fe env2 nm1) as [id2|] eqn:F2; [|discriminate D2].
      cbn [lift] in D1, D2. assert (Eid : id1 = id2) by (eapply Hfn; eauto). subst id2.
      refine (call_agree fe _ _ _ _ _ _ _ _ _ _ _ _ Hfast R _ _ _ _ _ _ _ D1 D2).
      * intros j k sg Hin Hsg. rewrite Forall_forall in Sa1.
        apply (Sa1 _ Hin env1 id1 sg); [reflexivity|exact F1|exact Hsg].
      * intros j k sg Hin Hsg. rewrite Forall_forall in Sa2.
        apply (Sa2 _ Hin env2 id1 sg); [reflexivity|exact F2|exact Hsg].
      * intros args. eapply Hrun; eauto.
  - (* builtin *) injection E as _ Eb Eargs. subst b2.
    change (esize (EBuiltin a1 b1 args1)) with (S (lsize args1)) in Hn.
    destruct O1 as [W1 Fs1]. destruct O2 as [W2 Fs2]. cbn [wf sites] in W1, W2, Fs1, Fs2.
    pose proof (ok_list_inv env1 _ W1 Fs1) as L1. pose proof (ok_list_inv env2 _ W2 Fs2) as L2.
    rewrite !ev_builtin.
    destruct args1 as [|x1 [|c1 [|d1 rest1]]]; destruct args2 as [|x2 [|c2 [|d2 rest2]]]; try discriminate Eargs;
      cbn [map] in Eargs.
    + destruct b1; apply ragree_stop_l.
    + injection Eargs as Ex.
      assert (Ax : agree x1 x2).
      { apply (IH x1 ltac:(cbn [lsize] in Hn; lia) x2 Ex); [apply L1|apply L2]; left; reflexivity. }
      destruct b1; try apply ragree_stop_l.
      apply ragree_rbind; [apply Ax|]. intros v s1. ra.
    + injection Eargs as Ex Ec.
      assert (Ax : agree x1 x2).
      { apply (IH x1 ltac:(cbn [lsize] in Hn; lia) x2 Ex); [apply L1|apply L2]; left; reflexivity. }
      assert (Ac : agree c1 c2).
      { apply (IH c1 ltac:(cbn [lsize] in Hn; lia) c2 Ec); [apply L1|apply L2]; right; left; reflexivity. }
      destruct b1; cbv beta iota delta [is_loop_builtin]; try apply ragree_stop_l;
        (apply ragree_rbind; [apply Ax|]); intros v s1; apply ragree_lift; intros len; cbv beta iota zeta delta [builtin_body].
      * apply all_loop_agree. intros i s'. apply Ac.
      * apply none_loop_agree. intros i s'. apply Ac.
      * apply any_loop_agree. intros i s'. apply Ac.
      * apply count_loop_agree; [intros i s'; apply Ac|]. intros cnt s'. ra.
      * apply filter_loop_agree; [intros i s'; apply Ac|]. intros xs s'.
        apply ragree_alloc; [exact Hlim|]. intros s''. ra.
      * apply map_loop_agree; [intros i s'; apply Ac|]. intros xs s'.
        apply ragree_alloc; [exact Hlim|]. intros s''. ra.
      * apply count_loop_agree; [intros i s'; apply Ac|]. intros cnt s'. ra.
    + destruct b1; apply ragree_stop_l.
  - (* closure *) injection E as _ Ex. ok_inv O1. ok_inv O2. rewrite !ev_closure.
    apply (IH x1 ltac:(cbn [esize] in Hn; lia) x2 Ex); ok_solve.
  - (* pointer *) rewrite !ev_pointer. destruct ctx as [|[arr i] rest]; ra.
  - (* conditional *) injection E as _ Ec Ex Ey. ok_inv O1. ok_inv O2. rewrite !ev_cond.
    apply ragree_rbind; [apply (IH c1 ltac:(cbn [esize] in Hn; lia) c2 Ec); ok_solve|]. intros vc s1.
    apply ragree_lift. intros b. destruct b.
    + apply (IH x1 ltac:(cbn [esize] in Hn; lia) x2 Ex); ok_solve.
    + apply (IH y1 ltac:(cbn [esize] in Hn; lia) y2 Ey); ok_solve.
  - (* array *) injection E as _ Ees.
    change (esize (EArray a1 es1)) with (S (lsize es1)) in Hn.
    destruct O1 as [W1 Fs1]. destruct O2 as [W2 Fs2]. cbn [wf sites] in W1, W2, Fs1, Fs2.
    rewrite !ev_array.
    apply ev_list_agree; [exact Ees| |exact (ok_list_inv env1 _ W1 Fs1)|exact (ok_list_inv env2 _ W2 Fs2)|].
    + intros x Hx. apply IH. pose proof (lsize_in _ _ Hx). lia.
    + intros vs s'. apply ragree_alloc; [exact Hlim|]. intros s''. ra.
  - (* map *) injection E as _ Eps.
    change (esize (EMap a1 ps1)) with (S (lsize ps1)) in Hn.
    destruct O1 as [W1 Fs1]. destruct O2 as [W2 Fs2]. cbn [wf sites] in W1, W2, Fs1, Fs2.
    rewrite !ev_map.
    apply ev_pairs_agree; [exact Eps| |exact (ok_list_inv env1 _ W1 Fs1)|exact (ok_list_inv env2 _ W2 Fs2)|].
    + intros a k v Hin. pose proof (lsize_in _ _ Hin) as Hs. cbn [esize] in Hs. split; apply IH; lia.
    + intros kvs s'. apply ragree_lift. intros skvs. apply ragree_alloc; [exact Hlim|]. intros s''. ra.
  - (* pair *) rewrite !ev_pair. apply ragree_stop_l.
Qed.

Theorem modes_agree_gen e1 e2 ctx s v1 s1 v2 s2 :
  same_shape e1 e2 -> ok fe env1 e1 -> ok fe env2 e2 ->
  ev1 ctx e1 s = Done v1 s1 -> ev2 ctx e2 s = Done v2 s2 -> v1 = v2 /\ s1 = s2.
Proof.
  intros E O1 O2 D1 D2. exact (agree_all (S (esize e1)) e1 (Nat.lt_succ_diag_r _) e2 E O1 O2 ctx s _ _ _ _ D1 D2).
Qed.
End Agree.


(* ================================================================== Part 7: the variants of the property *)

(* (1) same environment value, same configuration: the trees differ in annotations and fast flags
   (compiled with a declared environment type / without one / Eval) *)
Theorem modes_agree fe cfg env ctx s e1 e2 v1 s1 v2 s2 :
  fast_sound fe -> same_shape e1 e2 -> ok fe env e1 -> ok fe env e2 ->
  eval fe cfg env ctx e1 s = Done v1 s1 -> eval fe cfg env ctx e2 s = Done v2 s2 -> v1 = v2 /\ s1 = s2.
Proof.
  intros HF. apply (modes_agree_gen fe cfg cfg env env); auto.
  - intros name ns w1 w2 E1 E2. rewrite E1 in E2. inversion E2. reflexivity.
  - intros name id1 id2 E1 E2. rewrite E1 in E2. inversion E2. reflexivity.
Qed.

(* (2) Env(map[string]interface{}): identifiers compiled to OpFetchMap (c_mapenv = true) against the
   generic OpFetch (c_mapenv = false), on top of differing annotations *)
Theorem modes_agree_mapenv fe limit m ctx s e1 e2 v1 s1 v2 s2 :
  let env := VMap TString TIface m in
  fast_sound fe -> same_shape e1 e2 -> ok fe env e1 -> ok fe env e2 ->
  eval fe (mkCfg true limit) env ctx e1 s = Done v1 s1 ->
  eval fe (mkCfg false limit) env ctx e2 s = Done v2 s2 -> v1 = v2 /\ s1 = s2.
Proof.
  intros env HF. apply (modes_agree_gen fe (mkCfg true limit) (mkCfg false limit) env env); auto.
  - intros name ns w1 w2 E1 E2. unfold env in E1. rewrite fetch_map_generic in E1. fold env in E1.
    rewrite E1 in E2. inversion E2. reflexivity.
  - intros name id1 id2 E1 E2. rewrite E1 in E2. inversion E2. reflexivity.
Qed.

(* (3) the environment as a struct value against a pointer to it.  Hypotheses on the environment type:
   the method set of *T contains that of T (same functions), no field is named like a method (both
   are Go rules), and the functions do not observe whether they were fetched through the pointer *)
Theorem modes_agree_struct_ptr fe cfg1 cfg2 n fields ctx s e1 e2 v1 s1 v2 s2 :
  let env1 := VStruct n false fields in
  let env2 := VStruct n true fields in
  c_limit cfg1 = c_limit cfg2 -> c_mapenv cfg1 = c_mapenv cfg2 ->
  (forall name id, fn_method fe n false name = Some id -> fn_method fe n true name = Some id) ->
  (forall name id, fn_method fe n true name = Some id -> assoc_str name fields = None) ->
  (forall id args, fn_run fe id env1 args = fn_run fe id env2 args) ->
  fast_sound fe -> same_shape e1 e2 -> ok fe env1 e1 -> ok fe env2 e2 ->
  eval fe cfg1 env1 ctx e1 s = Done v1 s1 -> eval fe cfg2 env2 ctx e2 s = Done v2 s2 -> v1 = v2 /\ s1 = s2.
Proof.
  intros env1 env2 Hl Hm Hsub Hdis Hrun HF. apply (modes_agree_gen fe cfg1 cfg2 env1 env2); auto.
  - intros name ns w1 w2. unfold fetch_ident. rewrite Hm. destruct (c_mapenv cfg2); [discriminate|].
    unfold env1, env2. rewrite fetch_struct_ptr. intros E1 E2. rewrite E1 in E2. inversion E2. reflexivity.
  - intros name id1 id2. unfold env1, env2, fetch_fn. cbn [type_name_of].
    destruct (fn_method fe n false name) as [m1|] eqn:M1.
    + rewrite (Hsub _ _ M1). intros E1 E2. inversion E1; inversion E2; subst. reflexivity.
    + destruct (fn_method fe n true name) as [m2|] eqn:M2.
      * rewrite (Hdis _ _ M2). discriminate.
      * intros E1 E2. rewrite E1 in E2. inversion E2. reflexivity.
Qed.

(* (4) the environment as a struct against a map[string]interface{} with the same members.
   Hypotheses: no field is named like a method of the struct type (Go rule; a method is not a member of
   the map, so such a call cannot succeed on both), and the functions held in fields do not observe
   the value they were fetched from.  Either side may use OpFetchMap or OpFetch. *)
Theorem modes_agree_struct_map fe cfg1 cfg2 n p fields ctx s e1 e2 v1 s1 v2 s2 :
  let env1 := VStruct n p fields in
  let env2 := VMap TString TIface (as_map fields) in
  c_limit cfg1 = c_limit cfg2 ->
  (forall name id, fn_method fe n p name = Some id -> assoc_str name fields = None) ->
  (forall name id tf args, assoc_str name fields = Some (VFunc id tf) -> fn_run fe id env1 args = fn_run fe id env2 args) ->
  fast_sound fe -> same_shape e1 e2 -> ok fe env1 e1 -> ok fe env2 e2 ->
  eval fe cfg1 env1 ctx e1 s = Done v1 s1 -> eval fe cfg2 env2 ctx e2 s = Done v2 s2 -> v1 = v2 /\ s1 = s2.
Proof.
  intros env1 env2 Hl Hdis Hrun HF. apply (modes_agree_gen fe cfg1 cfg2 env1 env2); [exact Hl| | | |exact HF].
  - intros name ns w1 w2. unfold fetch_ident, env1, env2.
    destruct (c_mapenv cfg1); [discriminate|].
    assert (G : forall b : bool,
      (if b then Ok (match assoc_val (VStr name) (as_map fields) with Some v => v | None => VNil end)
       else p_fetch (VMap TString TIface (as_map fields)) (VStr name) ns) =
      Ok (match assoc_str name fields with Some v => v | None => VNil end)).
    { intros b. cbn [p_fetch dyn_type assignable ty_eqb orb]. rewrite assoc_as_map.
      destruct b; destruct (assoc_str name fields); reflexivity. }
    rewrite G. cbn [p_fetch]. destruct (assoc_str name fields) as [w|].
    + intros E1 E2. inversion E1; inversion E2; subst. reflexivity.
    + destruct ns; [|discriminate]. intros E1 E2. inversion E1; inversion E2; subst. reflexivity.
  - intros name id1 id2. unfold env1, env2, fetch_fn. cbn [type_name_of]. rewrite assoc_as_map.
    destruct (fn_method fe n p name) as [m1|] eqn:M1.
    + rewrite (Hdis _ _ M1). discriminate.
    + destruct (assoc_str name fields) as [w|]; [|discriminate]. destruct w; try discriminate.
      intros E1 E2. inversion E1; inversion E2; subst. reflexivity.
  - intros name id args _. unfold env2, fetch_fn. cbn [type_name_of]. rewrite assoc_as_map.
    destruct (assoc_str name fields) as [w|] eqn:A; [|discriminate]. destruct w; try discriminate.
    intros E2. inversion E2; subst. eapply Hrun; eauto.
Qed.

(* corollary for identifiers: a member of the environment reads the same from all three shapes *)
Corollary ident_env_shapes cfg n p fields name ns v :
  c_mapenv cfg = false ->
  fetch_ident cfg (VStruct n p fields) name ns = Ok v ->
  fetch_ident cfg (VStruct n (negb p) fields) name ns = Ok v /\
  (forall b limit, fetch_ident (mkCfg b limit) (VMap TString TIface (as_map fields)) name ns = Ok v).
Proof.
  unfold fetch_ident. intros -> H. split; [exact H|]. intros b limit. cbn [c_mapenv].
  cbn [p_fetch dyn_type assignable ty_eqb orb] in *. rewrite assoc_as_map.
  destruct (assoc_str name fields) as [w|].
  - inversion H; subst. destruct b; reflexivity.
  - destruct ns; [|discriminate]. inversion H; subst. destruct b; reflexivity.
Qed.

(* ================================================================== Part 8: the harness universe; refutation *)
Lemma u_fenv_fast_sound re pw : fast_sound (u_fenv re pw).
Proof.
  intros id sg. cbn [fn_sig u_fenv]. unfold u_sig.
  repeat match goal with |- context[String.eqb id ?x] => destruct (String.eqb id x) end;
    intros H; inversion H; subst; cbn [s_fast s_ins s_variadic]; intros F; try discriminate F; auto.
Qed.

Lemma u_run_struct_ptr id n fields args :
  u_run id (VStruct n false fields) args = u_run id (VStruct n true fields) args.
Proof. reflexivity. Qed.

(* Env{I: 1, Y: 0.0, Half: func(float64) float64, Fast: func(...interface{}) interface{}} *)
Definition env_demo : value :=
  VStruct "Env" false
    [("I", vint 1); ("Y", VNum (NFlt KF64 0%float));
     ("Half", VFunc "Half" (TFunc [TNum KF64] false [TNum KF64]));
     ("Fast", VFunc "Fast" (TFunc [TSlice TIface] true [TIface]))]%string.

Definition fe_demo : fenv := u_fenv [] [].

Lemma half_site_ok i : i = O -> site_ok fe_demo env_demo (mkSite false "Half" i KF64).
Proof.
  intros -> recv id sg Hr F Sg. cbn [st_method st_name st_pos st_kind] in *. rewrite (Hr eq_refl) in F.
  vm_compute in F. inversion F; subst id. vm_compute in Sg. inversion Sg; subst sg. reflexivity.
Qed.

(* `Half(I / 2 + Y)`: the checker retypes the literal 2 to float64 although the argument has other leaves *)
Definition witness (k : rkind) : expr :=
  EFunction ann0 "Half"
    [EBinary ann0 BAdd (EBinary ann0 BDiv (EIdent ann0 "I" false) (EInt (mkAnn noloc k) 2)) (EIdent ann0 "Y" false)] false.

Theorem modes_agree_refuted : ~ modes_agree_full_statement.
Proof.
  intros H.
  assert (O : forall k, k = RKNum KF64 \/ k = RKInvalid -> ok_full fe_demo env_demo (witness k)).
  { intros k [->| ->]; (split; [reflexivity|]).
    - change (sites_full (witness (RKNum KF64))) with [mkSite false "Half" 0 KF64].
      constructor; [apply half_site_ok; reflexivity|constructor].
    - change (sites_full (witness RKInvalid)) with (@nil site). constructor. }
  destruct (H fe_demo (mkCfg false 1000) env_demo [] rs0 (witness (RKNum KF64)) (witness RKInvalid)
              (VNum (NFlt KF64 0.25%float)) (mkRS 0 [("Half"%string, [VNum (NFlt KF64 0.5%float)])])
              (VNum (NFlt KF64 0%float)) (mkRS 0 [("Half"%string, [VNum (NFlt KF64 0%float)])])
              (u_fenv_fast_sound _ _) eq_refl (O _ (or_introl eq_refl)) (O _ (or_intror eq_refl))) as [Hv _].
  - vm_compute. reflexivity.
  - vm_compute. reflexivity.
  - apply (f_equal (fun v => match v with VNum (NFlt _ f) => PrimFloat.eqb f 0%float | _ => true end)) in Hv.
    vm_compute in Hv. discriminate Hv.
Qed.


(* ================================================================== Part 9: the carve-out is a restriction of the full statement *)
(* on a literal-only tree of kind k, wf_full in mode m just compares k with the kind of the mode *)
Lemma uniform_wf_full k : forall x, uniform k x = true ->
  forall m, wf_full m x = kind_eqb k (match m with Some k' => k' | None => KInt end).
Proof.
  induction x as [| |a z| | | | |a op x IHx|a op l IHl r IHr| | | | | | | | | | | | | ]; intros U; try discriminate U; intros m; cbn [uniform wf_full] in *.
  - apply andb_prop in U. destruct U as [K R]. apply kind_eqb_eq in K. rewrite K, R. apply andb_true_r.
  - apply andb_prop in U. destruct U as [O U]. rewrite O. auto.
  - apply andb_prop in U. destruct U as [U Ur]. apply andb_prop in U. destruct U as [O Ul]. rewrite O.
    rewrite IHl, IHr by auto. apply andb_diag.
Qed.

Lemma uniform_sites_full k : forall x, uniform k x = true -> sites_full x = sites x.
Proof.
  induction x as [| |a z| | | | |a op x IHx|a op l IHl r IHr| | | | | | | | | | | | | ]; intros U; try discriminate U; cbn [uniform sites sites_full] in *.
  - reflexivity.
  - apply andb_prop in U. destruct U as [_ U]. auto.
  - apply andb_prop in U. destruct U as [U Ur]. apply andb_prop in U. destruct U as [_ Ul].
    rewrite IHl, IHr by auto. reflexivity.
Qed.

Lemma arg_class_full_eq x : arg_valid x = true -> wf_full None x = wf x -> arg_class_full x = arg_class x.
Proof.
  unfold arg_valid, arg_class_full, arg_class. intros V W. rewrite W. destruct (wf x) eqn:Wx; [reflexivity|].
  cbn [orb] in V. destruct (retyped_kind x) as [k|] eqn:R; [|discriminate].
  destruct (retyped_kind_inv _ _ R) as [Hk U].
  unfold retype_kinds. cbn [find]. rewrite !(uniform_wf_full _ _ U).
  destruct k; try reflexivity. contradiction.
Qed.

Lemma expr_size_ind (Q : expr -> Prop) :
  (forall e, (forall e', (esize e' < esize e)%nat -> Q e') -> Q e) -> forall e, Q e.
Proof.
  intros H e. remember (esize e) as n eqn:En. revert e En.
  induction n as [n IH] using lt_wf_ind. intros e ->. apply H. intros e' Hlt. eapply IH; [exact Hlt|reflexivity].
Qed.

Definition full_same (e : expr) : Prop := wf e = true -> wf_full None e = true /\ sites_full e = sites e.

Lemma full_same_list l : (forall x, In x l -> full_same x) -> forallb wf l = true ->
  forallb (wf_full None) l = true /\ flat_map sites_full l = flat_map sites l.
Proof.
  induction l as [|x r IH]; intros H W; [auto|]. cbn [forallb flat_map] in *. apply andb_prop in W. destruct W as [Wx Wr].
  destruct (H x (or_introl eq_refl) Wx) as [A B]. destruct (IH (fun y Hy => H y (or_intror Hy)) Wr) as [C D].
  rewrite A, B, C, D. auto.
Qed.

Lemma retyped_in_kinds k : k <> KInt -> In k retype_kinds.
Proof. intros H. destruct k; cbn; auto 12. contradiction. Qed.

Lemma full_same_args m name l : (forall x, In x l -> full_same x) ->
  forallb (fun y => wf y || is_some (retyped_kind y)) l = true ->
  forallb (fun y => wf_full None y || existsb (fun k => wf_full (Some k) y) retype_kinds) l = true /\
  (forall i, arg_sites_full m name l i = arg_sites m name l i) /\
  flat_map sites_full l = flat_map sites l.
Proof.
  induction l as [|x r IH]; intros H W; [auto|]. cbn [forallb flat_map arg_sites arg_sites_full] in *.
  apply andb_prop in W. destruct W as [Vx Wr].
  destruct (IH (fun y Hy => H y (or_intror Hy)) Wr) as (C & D & F).
  assert (X : (wf_full None x || existsb (fun k => wf_full (Some k) x) retype_kinds = true) /\
              wf_full None x = wf x /\ sites_full x = sites x).
  { destruct (wf x) eqn:Wx.
    - destruct (H x (or_introl eq_refl) Wx) as [A B]. rewrite A. auto.
    - cbn [orb] in Vx. destruct (retyped_kind x) as [k|] eqn:R; [|discriminate].
      destruct (retyped_kind_inv _ _ R) as [Hk U].
      assert (N : wf_full None x = false).
      { rewrite (uniform_wf_full _ _ U). apply kind_eqb_neq. exact Hk. }
      rewrite N. cbn [orb]. repeat split.
      + apply existsb_exists. exists k. split; [apply retyped_in_kinds; exact Hk|].
        rewrite (uniform_wf_full _ _ U). apply kind_eqb_refl.
      + apply (uniform_sites_full _ _ U). }
  destruct X as (X1 & X2 & X3). rewrite X1, C, X3, F. repeat split.
  intros i. rewrite D. rewrite (arg_class_full_eq x); [reflexivity| |exact X2].
  unfold arg_valid. exact Vx.
Qed.

Lemma wf_full_same : forall e, full_same e.
Proof.
  induction e as [e IH] using expr_size_ind. unfold full_same in *. intros W.
  destruct e as [a|a nm ns|a z|a f|a b|a str|a c|a op x|a op l r|a re l r|a x nm ns|a x i|a x from to
                |a x nm args ns|a nm args fast|a b args|a x|a|a c x y|a es|a ps|a k v];
    cbn [wf wf_full sites sites_full opt_all opt_sites] in *; try (split; reflexivity).
  - (* integer *) split; [exact W|reflexivity].
  - (* unary *) destruct (IH x ltac:(cbn [esize]; lia) W) as [A B]. destruct (arith_un op); auto.
  - (* binary *) apply andb_prop in W. destruct W as [W1 W2].
    destruct (IH l ltac:(cbn [esize]; lia) W1) as [A1 B1]. destruct (IH r ltac:(cbn [esize]; lia) W2) as [A2 B2].
    destruct (arith_bin op); rewrite A1, A2, B1, B2; auto.
  - (* matches *) apply andb_prop in W. destruct W as [W1 W2].
    destruct (IH l ltac:(cbn [esize]; lia) W1) as [A1 B1]. destruct (IH r ltac:(cbn [esize]; lia) W2) as [A2 B2].
    rewrite A1, A2, B1, B2; auto.
  - (* property *) apply (IH x ltac:(cbn [esize]; lia) W).
  - (* index *) apply andb_prop in W. destruct W as [W1 W2].
    destruct (IH x ltac:(cbn [esize]; lia) W1) as [A1 B1]. destruct (IH i ltac:(cbn [esize]; lia) W2) as [A2 B2].
    rewrite A1, A2, B1, B2; auto.
  - (* slice *) apply andb_prop in W. destruct W as [W Wt]. apply andb_prop in W. destruct W as [Wx Wf].
    destruct (IH x ltac:(cbn [esize]; lia) Wx) as [A B]. rewrite A, B.
    assert (F : opt_all (wf_full None) from = true /\ opt_sites sites_full from = opt_sites sites from).
    { destruct from as [f|]; cbn [opt_all opt_sites] in *; [|auto]. apply (IH f ltac:(cbn [esize]; lia) Wf). }
    assert (T : opt_all (wf_full None) to = true /\ opt_sites sites_full to = opt_sites sites to).
    { destruct to as [t|]; cbn [opt_all opt_sites] in *; [|auto]. apply (IH t ltac:(cbn [esize]; lia) Wt). }
    destruct F as [F1 F2]. destruct T as [T1 T2]. rewrite F1, F2, T1, T2. auto.
  - (* method *) apply andb_prop in W. destruct W as [Wx Wa].
    destruct (IH x ltac:(cbn [esize]; lia) Wx) as [A B].
    destruct (full_same_args true nm args) as (C & D & F); [|exact Wa|].
    + intros y Hy; unfold full_same; intros Wy; apply IH; [|exact Wy]. change (esize (EMethod a x nm args ns)) with (S (esize x + lsize args)).
      pose proof (lsize_in _ _ Hy). lia.
    + rewrite A, B, C, D, F. auto.
  - (* function *)
    destruct (full_same_args false nm args) as (C & D & F); [|exact W|].
    + intros y Hy; unfold full_same; intros Wy; apply IH; [|exact Wy]. change (esize (EFunction a nm args fast)) with (S (lsize args)).
      pose proof (lsize_in _ _ Hy). lia.
    + rewrite C, D, F. auto.
  - (* builtin *) apply full_same_list; [|exact W]. intros y Hy; unfold full_same; intros Wy; apply IH; [|exact Wy].
    change (esize (EBuiltin a b args)) with (S (lsize args)). pose proof (lsize_in _ _ Hy). lia.
  - (* closure *) apply (IH x ltac:(cbn [esize]; lia) W).
  - (* conditional *) apply andb_prop in W. destruct W as [W W3]. apply andb_prop in W. destruct W as [W1 W2].
    destruct (IH c ltac:(cbn [esize]; lia) W1) as [A1 B1]. destruct (IH x ltac:(cbn [esize]; lia) W2) as [A2 B2].
    destruct (IH y ltac:(cbn [esize]; lia) W3) as [A3 B3]. rewrite A1, A2, A3, B1, B2, B3. auto.
  - (* array *) apply full_same_list; [|exact W]. intros y Hy; unfold full_same; intros Wy; apply IH; [|exact Wy].
    change (esize (EArray a es)) with (S (lsize es)). pose proof (lsize_in _ _ Hy). lia.
  - (* map *) apply full_same_list; [|exact W]. intros y Hy; unfold full_same; intros Wy; apply IH; [|exact Wy].
    change (esize (EMap a ps)) with (S (lsize ps)). pose proof (lsize_in _ _ Hy). lia.
  - (* pair *) apply andb_prop in W. destruct W as [W1 W2].
    destruct (IH k ltac:(cbn [esize]; lia) W1) as [A1 B1]. destruct (IH v ltac:(cbn [esize]; lia) W2) as [A2 B2].
    rewrite A1, A2, B1, B2; auto.
Qed.

(* ok = ok_full + the decidable carve-out wf *)
Lemma ok_iff_ok_full_wf fe env e : ok fe env e <-> (ok_full fe env e /\ wf e = true).
Proof.
  unfold ok, ok_full. split.
  - intros [W F]. destruct (wf_full_same e W) as [A B]. rewrite A, B. auto.
  - intros [[_ F] W]. destruct (wf_full_same e W) as [A B]. rewrite B in F. auto.
Qed.

(* the full statement restricted by the decidable carve-out `wf` on both trees *)
Theorem modes_agree_partial fe cfg env ctx s e1 e2 v1 s1 v2 s2 :
  fast_sound fe -> same_shape e1 e2 -> ok_full fe env e1 -> ok_full fe env e2 ->
  wf e1 = true -> wf e2 = true ->
  eval fe cfg env ctx e1 s = Done v1 s1 -> eval fe cfg env ctx e2 s = Done v2 s2 -> v1 = v2 /\ s1 = s2.
Proof.
  intros HF E O1 O2 W1 W2. apply (modes_agree fe cfg env ctx s e1 e2); auto; apply ok_iff_ok_full_wf; auto.
Qed.


(* ================================================================== Part 10: a non-trivial instance *)
(* all([1, 2], # == 1 || Half(1 + 2) > 1.0) && Fast(I, "a") == 2
   typed = true : literals annotated int, `# == 1` specialised (OpEqualInt), Fast called with OpCallFast
   typed = false: literals unannotated, generic ==, generic call
   in both, the literals of the argument of Half are retyped to float64 (the call fails otherwise) *)
Definition ex_tree (typed : bool) : expr :=
  let ai := if typed then mkAnn noloc (RKNum KInt) else ann0 in
  let af := mkAnn noloc (RKNum KF64) in
  EBinary ann0 BAndAnd
    (EBuiltin ann0 BiAll
       [EArray ann0 [EInt ai 1; EInt ai 2];
        EClosure ann0
          (EBinary ann0 BOrOr
             (EBinary ann0 BEq (EPointer ai) (EInt ai 1))
             (EBinary ann0 BGt
                (EFunction ann0 "Half" [EBinary af BAdd (EInt af 1) (EInt af 2)] false)
                (EFloat ann0 1%float)))])
    (EBinary ann0 BEq (EFunction ann0 "Fast" [EIdent ai "I" false; EStr ann0 "a"] typed) (EInt ai 2)).

Definition cfg_demo : config := mkCfg false 1000.

Lemma ex_tree_ok typed : ok fe_demo env_demo (ex_tree typed).
Proof.
  split; [destruct typed; reflexivity|].
  assert (E : sites (ex_tree typed) = [mkSite false "Half" 0 KF64]) by (destruct typed; reflexivity).
  rewrite E. constructor; [apply half_site_ok; reflexivity|constructor].
Qed.

Lemma ex_tree_same : same_shape (ex_tree true) (ex_tree false).
Proof. reflexivity. Qed.

Lemma ex_tree_differ : ex_tree true <> ex_tree false.
Proof. intros H. discriminate H. Qed.

Definition ex_result : result :=
  Done (VBool true)
       (mkRS 2 [("Half"%string, [VNum (NFlt KF64 3%float)]); ("Fast"%string, [vint 1; VStr "a"])]).

Lemma ex_tree_runs typed : eval fe_demo cfg_demo env_demo [] (ex_tree typed) rs0 = ex_result.
Proof. destruct typed; vm_compute; reflexivity. Qed.

(* the same members as a pointer and as a map: the hypotheses of the environment-shape theorems hold *)
Definition fields_demo : list (string * value) :=
  match env_demo with VStruct _ _ fields => fields | _ => [] end.
Definition env_demo_ptr : value := VStruct "Env" true fields_demo.
Definition env_demo_map : value := VMap TString TIface (as_map fields_demo).

Lemma half_site_ok_env env : env = env_demo_ptr \/ env = env_demo_map -> site_ok fe_demo env (mkSite false "Half" 0 KF64).
Proof.
  intros He recv id sg Hr F Sg. cbn [st_method st_name st_pos st_kind] in *. rewrite (Hr eq_refl) in F.
  assert (Eid : id = "Half"%string) by (destruct He as [->| ->]; vm_compute in F; inversion F; reflexivity).
  subst id. vm_compute in Sg. inversion Sg; subst sg. reflexivity.
Qed.

Lemma ex_tree_ok_env env typed : env = env_demo_ptr \/ env = env_demo_map -> ok fe_demo env (ex_tree typed).
Proof.
  intros He. split; [destruct typed; reflexivity|].
  assert (E : sites (ex_tree typed) = [mkSite false "Half" 0 KF64]) by (destruct typed; reflexivity).
  rewrite E. constructor; [apply half_site_ok_env; exact He|constructor].
Qed.

Lemma demo_methods_sub name id : fn_method fe_demo "Env" false name = Some id -> fn_method fe_demo "Env" true name = Some id.
Proof.
  cbn [fn_method fe_demo u_fenv]. unfold u_method. cbn [String.eqb Ascii.eqb Bool.eqb andb].
  destruct (String.eqb name "Twice"); [auto|]. destruct (String.eqb name "PtrM"); discriminate.
Qed.

Lemma demo_methods_disjoint p name id : fn_method fe_demo "Env" p name = Some id -> assoc_str name fields_demo = None.
Proof.
  cbn [fn_method fe_demo u_fenv]. unfold u_method. cbn [String.eqb Ascii.eqb Bool.eqb andb].
  destruct (String.eqb name "Twice") eqn:E1.
  - apply String.eqb_eq in E1. subst name. reflexivity.
  - destruct (String.eqb name "PtrM") eqn:E2; [|discriminate].
    apply String.eqb_eq in E2. subst name. reflexivity.
Qed.

Lemma demo_run_fields name id tf args :
  assoc_str name fields_demo = Some (VFunc id tf) -> fn_run fe_demo id env_demo args = fn_run fe_demo id env_demo_map args.
Proof.
  unfold fields_demo, env_demo. cbn [assoc_str].
  repeat match goal with |- context[String.eqb ?k name] => destruct (String.eqb k name) end;
    intros H; inversion H; subst; reflexivity.
Qed.

Lemma ex_tree_runs_ptr typed : eval fe_demo cfg_demo env_demo_ptr [] (ex_tree typed) rs0 = ex_result.
Proof. destruct typed; vm_compute; reflexivity. Qed.

Lemma ex_tree_runs_map typed (mapenv : bool) :
  eval fe_demo (mkCfg mapenv 1000) env_demo_map [] (ex_tree typed) rs0 = ex_result.
Proof. destruct typed, mapenv; vm_compute; reflexivity. Qed.

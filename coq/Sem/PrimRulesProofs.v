(* Sem/PrimRulesProofs.v — facts about the interpreter of Sem/PrimRules.v that the bridge (Bridge/BrRuntime.v)
   uses: one-step unfoldings of statement lists, switches and loops, the wrap of int is the identity in range,
   the table lookup, the classes of the panic messages, the list `makeRange` builds. *)
From Coq Require Import ZArith Bool String List Lia.
Require Import X.Base.Num X.Base.Value X.gen.GenHelpers X.Sem.Prim X.Sem.PrimRules.
Import ListNotations.
Local Open Scope string_scope.
Local Open Scope list_scope.
Open Scope Z_scope.

(* ------------------------------------------------------------------ int *)
Definition max_int : Z := 9223372036854775807.
Definition min_int : Z := -9223372036854775808.
Definition in_int (z : Z) : Prop := min_int <= z <= max_int.

Lemma wrap_int_id : forall z, in_int z -> wrap KInt z = z.
Proof.
  intros z [H1 H2]. unfold min_int, max_int in *. unfold wrap. cbn [is_signed width].
  change (2 ^ (64 - 1)) with 9223372036854775808. change (2 ^ 64) with 18446744073709551616.
  rewrite Z.mod_small by lia. lia.
Qed.

Lemma wrap_in_range : forall k z, in_range k z = true -> wrap k z = z.
Proof.
  intros k z H. unfold in_range in H. apply andb_true_iff in H. destruct H as [H1 H2].
  apply Z.leb_le in H1. apply Z.leb_le in H2. unfold wrap, min_of, max_of in *.
  destruct k; cbn [is_signed width] in *;
    repeat match goal with
           | |- context [2 ^ ?e] => let v := eval vm_compute in (2 ^ e) in change (2 ^ e) with v
           | H : context [2 ^ ?e] |- _ => let v := eval vm_compute in (2 ^ e) in change (2 ^ e) with v in H
           end;
    rewrite Z.mod_small by lia; lia.
Qed.

Lemma num_wf_wrap : forall k z, num_wf (NInt k z) = true -> wrap k z = z.
Proof. intros k z H. cbn [num_wf] in H. apply andb_true_iff in H. apply wrap_in_range. apply H. Qed.

Lemma in_range_int : forall z, in_range KInt z = true -> in_int z.
Proof.
  intros z H. unfold in_range in H. apply andb_true_iff in H. destruct H as [H1 H2].
  apply Z.leb_le in H1. apply Z.leb_le in H2. unfold in_int, min_int, max_int.
  change (min_of KInt) with (-9223372036854775808) in H1. change (max_of KInt) with 9223372036854775807 in H2. lia.
Qed.

(* ------------------------------------------------------------------ carve-outs on values *)
(* the numbers inside a value respect their kind (the invariant of Base/Num.v) *)
Definition num_ok (v : value) : bool := match v with VNum n => num_wf n | _ => true end.

(* declared non-struct types are declared basic types: the model has no other (Sem/Prim.v treats a named
   string like a string and every other named value like an opaque one) *)
Definition named_ok (v : value) : bool :=
  match v with
  | VNamed _ (VStr _ | VNum _ | VBool _) => true
  | VNamed _ _ => false
  | _ => true
  end.

(* a key that is looked up as a field name is not a value of a declared string type (Prim.v: only VStr) *)
Definition str_key_ok (v : value) : bool :=
  match v with
  | VNamed _ _ => match strip v with VStr _ => false | _ => true end
  | _ => true
  end.

Definition not_named (v : value) : bool := match v with VNamed _ _ => false | _ => true end.

(* a slice or map length is a Go int *)
Definition len_ok (v : value) : Prop :=
  match v with
  | VArr _ l => Z.of_nat (List.length l) <= max_int
  | _ => True
  end.

(* ------------------------------------------------------------------ makeRange *)
Fixpoint ints_from (lo : Z) (n : nat) : list Z :=
  match n with O => [] | S n' => lo :: ints_from (lo + 1) n' end.

Lemma ints_from_range : forall n lo, map vint (ints_from lo n) = range_list lo n.
Proof. induction n as [|n IH]; intro lo; cbn [ints_from range_list map]; [reflexivity|]. rewrite IH. reflexivity. Qed.

Lemma ints_from_snoc : forall n lo, ints_from lo (S n) = ints_from lo n ++ [lo + Z.of_nat n].
Proof.
  induction n as [|n IH]; intro lo.
  - cbn [ints_from app]. rewrite Z.add_0_r. reflexivity.
  - change (ints_from lo (S (S n))) with (lo :: ints_from (lo + 1) (S n)). rewrite IH.
    cbn [ints_from app]. do 3 f_equal. lia.
Qed.

Lemma ints_from_length : forall n lo, List.length (ints_from lo n) = n.
Proof. induction n as [|n IH]; intro lo; cbn [ints_from List.length]; [reflexivity|]. rewrite IH. reflexivity. Qed.

Lemma list_set_app {A} : forall (done : list A) x y rest,
  list_set (List.length done) x (done ++ y :: rest) = done ++ x :: rest.
Proof.
  induction done as [|d done IH]; intros x y rest; cbn [List.length list_set app]; [reflexivity|].
  rewrite IH. reflexivity.
Qed.

Lemma app_cons_assoc {A} : forall (a : list A) x b, (a ++ [x]) ++ b = a ++ x :: b.
Proof. intros. rewrite <- app_assoc. reflexivity. Qed.

Lemma index_list_mid : forall (done : list value) x rest,
  index_list (done ++ x :: rest) (Z.of_nat (List.length done)) = Ok x.
Proof.
  intros done x rest. unfold index_list.
  replace (Z.of_nat (List.length done) <? 0) with false by (symmetry; apply Z.ltb_ge; lia).
  replace (Z.of_nat (List.length (done ++ x :: rest)) <=? Z.of_nat (List.length done)) with false
    by (symmetry; apply Z.leb_gt; rewrite app_length; cbn [List.length]; lia).
  cbn [orb]. rewrite Nat2Z.id. rewrite nth_error_app2 by lia. rewrite Nat.sub_diag. reflexivity.
Qed.

(* ------------------------------------------------------------------ statements, one step *)
Section Steps.
  Variable fe : fenv.
  Variable nm : value -> Z.
  Variable eqp : value -> value -> outcome value.
  Variable call : string -> list gval -> gres (list gval).
  Variable F : nat.

  Definition pafter (t : list pstmt) : pctl * genv -> gres (pctl * genv) :=
    fun '(r, en1) => match r with PNormal => pexec_block fe nm eqp call F t en1 | _ => GOk (r, en1) end.

  Lemma pexec_block_nil : forall en, pexec_block fe nm eqp call F [] en = GOk (PNormal, en).
  Proof. reflexivity. Qed.

  Lemma pexec_block_cons : forall s1 t en,
    pexec_block fe nm eqp call F (s1 :: t) en = gbind (pexec fe nm eqp call F s1 en) (pafter t).
  Proof. reflexivity. Qed.

  Lemma pexec_if : forall i c a b en,
    pexec fe nm eqp call F (PIf i c a b) en =
    gbind (pexec_block fe nm eqp call F i en) (fun '(r, en1) =>
      match r with
      | PNormal =>
        gbind (peval_bool fe nm eqp call c en1) (fun bv =>
          if bv then pexec_block fe nm eqp call F a en1 else pexec_block fe nm eqp call F b en1)
      | _ => GCrash "control in an init statement"
      end).
  Proof. reflexivity. Qed.

  Definition pcond_sem (c : option pexp) : genv -> gres bool :=
    match c with Some ce => peval_bool fe nm eqp call ce | None => fun _ => GOk true end.

  Lemma pcond_sem_some : forall ce en, pcond_sem (Some ce) en = peval_bool fe nm eqp call ce en.
  Proof. reflexivity. Qed.

  Lemma pexec_for : forall i c p b en,
    pexec fe nm eqp call F (PFor i c p b) en =
    gbind (pexec_block fe nm eqp call F i en) (fun '(r, en1) =>
      match r with
      | PNormal => pfor_loop F (pcond_sem c) (pexec_block fe nm eqp call F p) (pexec_block fe nm eqp call F b) en1
      | _ => GCrash "control in an init statement"
      end).
  Proof. reflexivity. Qed.

  Lemma pexec_range : forall k e b en,
    pexec fe nm eqp call F (PRangeIdx k e b) en =
    gbind (peval fe nm eqp call e en) (fun v =>
      match v with
      | GInts l => prange_loop fe nm eqp call (List.length l) 0 k (pexec_block fe nm eqp call F b) en
      | _ => GCrash "range"
      end).
  Proof. reflexivity. Qed.

  (* the cases of a switch, one after the other *)
  Fixpoint pswitch_cases (tv : gval) (cs : list (list pexp * list pstmt)) (dflt : list pstmt) (en : genv)
    : gres (pctl * genv) :=
    match cs with
    | [] => pexec_block fe nm eqp call F dflt en
    | c :: t =>
      gbind (pmatch_any fe nm eqp call tv (fst c) en) (fun hit =>
        if hit then pexec_block fe nm eqp call F (snd c) en else pswitch_cases tv t dflt en)
    end.

  Lemma pexec_switch : forall tag cs d en,
    pexec fe nm eqp call F (PSwitch tag cs d) en =
    gbind (peval fe nm eqp call tag en) (fun tv => pswitch_cases tv cs d en).
  Proof.
    intros tag cs d en. cbn [pexec]. destruct (peval fe nm eqp call tag en) as [tv| | |]; try reflexivity.
    cbn [gbind]. induction cs as [|c t IH]; [reflexivity|].
    cbn [pswitch_cases]. destruct (pmatch_any fe nm eqp call tv (fst c) en) as [hit| | |]; try reflexivity.
    cbn [gbind]. destruct hit; [reflexivity|]. exact IH.
  Qed.

  Fixpoint ptype_cases (bind : option nat) (num : num) (cs : list (list kind * list pstmt)) (dflt : list pstmt)
           (v : gval) (en : genv) : gres (pctl * genv) :=
    match cs with
    | [] => pexec_block fe nm eqp call F dflt (match bind with Some n => gupd n v en | None => en end)
    | c :: t =>
      if kind_in (num_kind num) (fst c)
      then pexec_block fe nm eqp call F (snd c) (match bind with Some n => gupd n (GNum num) en | None => en end)
      else ptype_cases bind num t dflt v en
    end.

  Lemma pexec_typeswitch : forall bind e cs d en,
    pexec fe nm eqp call F (PTypeSwitch bind e cs d) en =
    gbind (peval fe nm eqp call e en) (fun v =>
      match v with
      | GI x =>
        match x with
        | VNum num => ptype_cases bind num cs d v en
        | _ => pexec_block fe nm eqp call F d (match bind with Some n => gupd n v en | None => en end)
        end
      | _ => GCrash "type switch"
      end).
  Proof.
    intros bind e cs d en. cbn [pexec]. destruct (peval fe nm eqp call e en) as [v| | |]; try reflexivity.
    cbn [gbind]. destruct v; try reflexivity. destruct v; try reflexivity.
    induction cs as [|c t IH]; [reflexivity|].
    cbn [ptype_cases]. destruct (kind_in (num_kind n) (fst c)); [reflexivity|]. exact IH.
  Qed.

  Lemma pfor_loop_S : forall f cond post body en,
    pfor_loop (S f) cond post body en =
    gbind (cond en) (fun c =>
      if c then
        gbind (body en) (fun '(r, en1) =>
          match r with
          | PNormal =>
            gbind (post en1) (fun '(r2, en2) =>
              match r2 with
              | PNormal => pfor_loop f cond post body en2
              | _ => GCrash "control in a post statement"
              end)
          | PReturned _ => GOk (r, en1)
          end)
      else GOk (PNormal, en)).
  Proof. reflexivity. Qed.

  Lemma prange_loop_S : forall n i k body en,
    prange_loop fe nm eqp call (S n) i k body en =
    gbind (pstore fe nm eqp call k (gint i) en) (fun en1 =>
      gbind (body en1) (fun '(r, en2) =>
        match r with
        | PNormal => prange_loop fe nm eqp call n (i + 1) k body en2
        | PReturned _ => GOk (r, en2)
        end)).
  Proof. reflexivity. Qed.
End Steps.

(* ------------------------------------------------------------------ the table *)
Lemma psem_of_S : forall fe nm eqp F defs d name args f, pfind defs name = Some f ->
  psem_of fe nm eqp F defs (S d) name args = prun_fn fe nm eqp (psem_of fe nm eqp F defs d) F f args.
Proof. intros fe nm eqp F defs d name args f H. cbn [psem_of]. rewrite H. reflexivity. Qed.

(* Sem/Prim.v — the run-time helpers of vm/runtime.go and the generated vm/helpers.go on model
   values: fetch slice in length negate exponent makeRange toInt toInt64 toFloat64 equal less ...
   Shared by the reference semantics (Sem.v) and the machine (BC/VM.v).  No proofs here. *)
From Coq Require Import ZArith Bool List String Ascii Floats.
Require Import X.Base.Num X.Base.Value X.gen.GenHelpers.
Import ListNotations.
Open Scope Z_scope.
Open Scope out_scope.

(* ---------------- strings ---------------- *)
Fixpoint str_len (s : string) : Z := match s with EmptyString => 0 | String _ r => 1 + str_len r end.
Fixpoint str_prefix (p s : string) : bool :=
  match p, s with
  | EmptyString, _ => true
  | String a p', String b s' => Ascii.eqb a b && str_prefix p' s'
  | _, _ => false
  end.
Fixpoint str_contains (s sub : string) : bool :=
  str_prefix sub s || match s with EmptyString => false | String _ r => str_contains r sub end.
Fixpoint str_rev_acc (s acc : string) : string :=
  match s with EmptyString => acc | String a r => str_rev_acc r (String a acc) end.
Definition str_rev (s : string) : string := str_rev_acc s EmptyString.
Definition str_suffix (p s : string) : bool := str_prefix (str_rev p) (str_rev s).
Fixpoint str_drop (n : nat) (s : string) : string :=
  match n, s with O, _ => s | S n', String _ r => str_drop n' r | _, EmptyString => EmptyString end.
Fixpoint str_take (n : nat) (s : string) : string :=
  match n, s with O, _ => EmptyString | S n', String a r => String a (str_take n' r) | _, EmptyString => EmptyString end.
Fixpoint str_nth (n : nat) (s : string) : option ascii :=
  match n, s with O, String a _ => Some a | S n', String _ r => str_nth n' r | _, EmptyString => None end.
Definition str_ltb (a b : string) : bool := match String.compare a b with Lt => true | _ => false end.
Definition str_leb (a b : string) : bool := match String.compare a b with Gt => false | _ => true end.

(* ---------------- dynamic types ---------------- *)
Fixpoint dyn_type (v : value) : ty :=
  match v with
  | VNil => TNilT
  | VBool _ => TBool
  | VNum n => TNum (num_kind n)
  | VStr _ => TString
  | VArr e _ => TSlice e
  | VNilArr e => TSlice e
  | VMap k e _ => TMap k e
  | VNilMap k e => TMap k e
  | VStruct n p _ => if p then TPtr (TStruct n) else TStruct n
  | VNilPtr t => TPtr t
  | VFunc _ t => t
  | VNamed n v => TNamed n (dyn_type v)
  | VOpaque n => TOpaque n
  end.

Definition vint (z : Z) : value := VNum (NInt KInt z).

(* zero value of a type as held in an interface{} (reflect.Zero(t).Interface()) *)
Definition zero_of (t : ty) : value :=
  match t with
  | TBool => VBool false
  | TNum k => if is_float k then VNum (NFlt k 0%float) else VNum (NInt k 0)
  | TString => VStr ""
  | TSlice e => VNilArr e
  | TMap k e => VNilMap k e
  | TPtr e => VNilPtr e
  | _ => VNil
  end.

(* reflect: is a value of dynamic type t assignable to a parameter / key of type p? *)
Definition assignable (t p : ty) : bool :=
  ty_eqb t p || match p with TIface => true | _ => false end.

(* ---------------- numbers ---------------- *)
Definition to_int (v : value) : outcome Z :=
  match v with
  | VNum n => match convert KInt n with Some (NInt _ z) => Ok z | _ => Fail EUnspec end
  | _ => Fail EInvalidOp
  end.
Definition to_int64 (v : value) : outcome value :=
  match v with
  | VNum n => match convert KInt64 n with Some m => Ok (VNum m) | None => Fail EUnspec end
  | _ => Fail EInvalidOp
  end.
Definition to_float64 (v : value) : outcome float :=
  match v with
  | VNum n => match convert KF64 n with Some (NFlt _ f) => Ok f | _ => Fail EUnspec end
  | _ => Fail EInvalidOp
  end.

Definition p_negate (v : value) : outcome value :=
  match v with VNum n => Ok (VNum (go_neg n)) | _ => Fail EInvalidOp end.

Definition of_nres (r : nres) : outcome value :=
  match r with
  | NRNum n => Ok (VNum n) | NRBool b => Ok (VBool b)
  | NRDivZero => Fail EDivZero | NRUnspec => Fail EUnspec | NRInvalid => Fail EInvalidOp
  end.

(* isNil of runtime.go *)
Definition is_nil (v : value) : bool :=
  match v with VNil | VNilArr _ | VNilMap _ _ | VNilPtr _ => true | _ => false end.

(* reflect.DeepEqual on two interface values *)
Fixpoint deep_equal (a b : value) {struct a} : bool :=
  let fix list_eq (l1 l2 : list value) {struct l1} : bool :=
    match l1, l2 with
    | [], [] => true
    | x :: r1, y :: r2 => deep_equal x y && list_eq r1 r2
    | _, _ => false
    end in
  let fix map_eq (m1 m2 : list (value * value)) {struct m1} : bool :=
    match m1, m2 with
    | [], [] => true
    | (k1, x) :: r1, (k2, y) :: r2 => deep_equal k1 k2 && deep_equal x y && map_eq r1 r2
    | _, _ => false
    end in
  let fix fields_eq (f1 f2 : list (string * value)) {struct f1} : bool :=
    match f1, f2 with
    | [], [] => true
    | (n1, x) :: r1, (n2, y) :: r2 => String.eqb n1 n2 && deep_equal x y && fields_eq r1 r2
    | _, _ => false
    end in
  match a, b with
  | VNil, VNil => true
  | VBool x, VBool y => Bool.eqb x y
  | VNum x, VNum y =>
      kind_eqb (num_kind x) (num_kind y) &&
      match go_op OEq x y with NRBool r => r | _ => false end
  | VStr x, VStr y => String.eqb x y
  | VArr e l, VArr e' l' => ty_eqb e e' && list_eq l l'
  | VNilArr e, VNilArr e' => ty_eqb e e'
  | VMap k e m, VMap k' e' m' => ty_eqb k k' && ty_eqb e e' && map_eq m m'
  | VNilMap k e, VNilMap k' e' => ty_eqb k k' && ty_eqb e e'
  | VStruct n p f, VStruct n' p' f' => String.eqb n n' && Bool.eqb p p' && fields_eq f f'
  | VNilPtr t, VNilPtr t' => ty_eqb t t'
  | VNamed n x, VNamed n' y => String.eqb n n' && deep_equal x y
  | _, _ => false
  end.

(* what `equal` does after its type switch found no case: nil check, then (since the fix in /repo)
   element-wise comparison of sequences with `equal` itself, then reflect.DeepEqual.
   equal_v is the whole of `equal` on two values (needed for the recursion on elements). *)
Definition seq_items (v : value) : option (list value) :=
  match v with VArr _ l => Some l | VNilArr _ => Some [] | _ => None end.

Fixpoint equal_v (a b : value) {struct a} : outcome bool :=
  let fix seq_eq (l1 l2 : list value) {struct l1} : outcome bool :=
    match l1, l2 with
    | [], [] => Ok true
    | x :: r1, y :: r2 =>
        match equal_v x y with
        | Ok true => seq_eq r1 r2
        | other => other
        end
    | _, _ => Ok false
    end in
  match a, b with
  | VNum x, VNum y =>
      match helper_num helper_case HEqual x y with
      | Some (NRBool r) => Ok r
      | Some NRDivZero => Fail EDivZero
      | Some NRUnspec => Fail EUnspec
      | Some _ => Fail EInvalidOp
      | None => Ok false
      end
  | VStr x, VStr y =>
      match helper_string_case HEqual with
      | Some OEq => Ok (String.eqb x y)
      | _ => Ok (deep_equal a b)
      end
  | _, _ =>
      if is_nil a && is_nil b then Ok true
      else match a with
           | VArr _ l1 =>
               match seq_items b with
               | Some l2 => if Nat.eqb (List.length l1) (List.length l2) then seq_eq l1 l2 else Ok false
               | None => Ok (deep_equal a b)
               end
           | VNilArr _ =>
               match seq_items b with
               | Some l2 => Ok (Nat.eqb (List.length l2) 0)
               | None => Ok (deep_equal a b)
               end
           | _ => Ok (deep_equal a b)
           end
  end.

(* the generated helpers: numeric table first, then the string case, then the fall-through *)
Definition p_helper (h : helper) (a b : value) : outcome value :=
  let fall :=
    match helper_fallthrough h with
    | FTNilSeqDeepEqual => match equal_v a b with Ok r => Ok (VBool r) | Fail e => Fail e end
    | FTNilThenDeepEqual => Ok (VBool ((is_nil a && is_nil b) || deep_equal a b))
    | _ => Fail EInvalidOp
    end in
  match a, b with
  | VNum x, VNum y =>
      match helper_num helper_case h x y with
      | Some r => of_nres r
      | None => fall
      end
  | VStr x, VStr y =>
      match helper_string_case h with
      | Some OEq => Ok (VBool (String.eqb x y))
      | Some OLt => Ok (VBool (str_ltb x y))
      | Some OGt => Ok (VBool (str_ltb y x))
      | Some OLe => Ok (VBool (str_leb x y))
      | Some OGe => Ok (VBool (str_leb y x))
      | Some OAdd => Ok (VStr (x ++ y))
      | _ => fall
      end
  | _, _ => fall
  end.

Definition p_equal := p_helper HEqual.

(* ---------------- collections ---------------- *)
Definition p_length (v : value) : outcome Z :=
  match v with
  | VArr _ l => Ok (Z.of_nat (List.length l))
  | VNilArr _ => Ok 0
  | VMap _ _ m => Ok (Z.of_nat (List.length m))
  | VNilMap _ _ => Ok 0
  | VStr s => Ok (str_len s)
  | VNamed _ (VStr s) => Ok (str_len s)
  | _ => Fail EInvalidOp
  end.

Fixpoint assoc_str (n : string) (l : list (string * value)) : option value :=
  match l with [] => None | (k, v) :: r => if String.eqb k n then Some v else assoc_str n r end.

(* map lookup by DeepEqual-free key identity: keys are strings or numbers of the key type *)
Definition key_eqb (a b : value) : bool :=
  match a, b with
  | VStr x, VStr y => String.eqb x y
  | VNum x, VNum y => num_same x y
  | VBool x, VBool y => Bool.eqb x y
  | _, _ => false
  end.
Fixpoint assoc_val (k : value) (m : list (value * value)) : option value :=
  match m with [] => None | (k', v) :: r => if key_eqb k' k then Some v else assoc_val k r end.

Definition index_list (l : list value) (i : Z) : outcome value :=
  if (i <? 0) || (Z.of_nat (List.length l) <=? i) then Fail EIndexRange else
  match nth_error l (Z.to_nat i) with Some v => Ok v | None => Fail EIndexRange end.

(* fetch(from, i, nilsafe) *)
Definition p_fetch (from i : value) (nilsafe : bool) : outcome value :=
  let miss := if nilsafe then Ok VNil else Fail ECannotFetch in
  match from with
  | VArr _ l => do n <- to_int i; index_list l n
  | VNilArr _ => do n <- to_int i; Fail EIndexRange
  | VStr s | VNamed _ (VStr s) =>
      do n <- to_int i;
      if (n <? 0) || (str_len s <=? n) then Fail EIndexRange else
      match str_nth (Z.to_nat n) s with
      | Some a => Ok (VNum (NInt KUint8 (Z.of_nat (nat_of_ascii a))))
      | None => Fail EIndexRange
      end
  | VMap kt et m =>
      match i with
      | VNil => Fail ENilDeref
      | _ => if assignable (dyn_type i) kt then
               match assoc_val i m with Some v => Ok v | None => Ok (zero_of et) end
             else Fail EReflect
      end
  | VNilMap kt et =>
      match i with
      | VNil => Fail ENilDeref
      | _ => if assignable (dyn_type i) kt then Ok (zero_of et) else Fail EReflect
      end
  | VStruct _ _ fields =>
      match i with
      | VStr n => match assoc_str n fields with Some v => Ok v | None => miss end
      | _ => miss
      end
  | _ => miss
  end.

Definition clamp_slice (len a b : Z) : Z * Z :=
  let b := if len <? b then len else b in
  let a := if b <? a then b else a in (a, b).

Definition p_slice (arr from to : value) : outcome value :=
  match arr with
  | VArr e l =>
      do a <- to_int from; do b <- to_int to;
      let '(a, b) := clamp_slice (Z.of_nat (List.length l)) a b in
      if a <? 0 then Fail EIndexRange
      else Ok (VArr e (firstn (Z.to_nat (b - a)) (skipn (Z.to_nat a) l)))
  | VNilArr e =>
      do a <- to_int from; do b <- to_int to;
      let '(a, b) := clamp_slice 0 a b in
      if a <? 0 then Fail EIndexRange else Ok (VNilArr e)
  | VStr s =>
      do a <- to_int from; do b <- to_int to;
      let '(a, b) := clamp_slice (str_len s) a b in
      if a <? 0 then Fail EIndexRange
      else Ok (VStr (str_take (Z.to_nat (b - a)) (str_drop (Z.to_nat a) s)))
  | _ => Fail ECannotFetch
  end.

(* in(needle, array) *)
Definition p_in (needle arr : value) : outcome bool :=
  match arr with
  | VNil => Ok false
  | VArr _ l =>
      (fix go (l : list value) : outcome bool :=
         match l with
         | [] => Ok false
         | x :: r => do e <- p_equal x needle;
                     match e with VBool true => Ok true | VBool false => go r | _ => Fail EIfaceConv end
         end) l
  | VNilArr _ => Ok false
  | VMap kt _ m =>
      match needle with
      | VNil => Fail ENotIn
      | _ => if assignable (dyn_type needle) kt then
               Ok (match assoc_val needle m with Some _ => true | None => false end)
             else Fail EReflect
      end
  | VNilMap kt _ =>
      match needle with
      | VNil => Fail ENotIn
      | _ => if assignable (dyn_type needle) kt then Ok false else Fail EReflect
      end
  | VStruct _ _ fields =>
      match needle with
      | VStr n => Ok (match assoc_str n fields with Some _ => true | None => false end)
      | _ => Fail ENotIn
      end
  | VNilPtr _ => Ok false
  | _ => Fail ENotIn
  end.

Fixpoint range_list (lo : Z) (n : nat) : list value :=
  match n with O => [] | S n' => vint lo :: range_list (lo + 1) n' end.

(* number of elements of lo..hi as the FIXED vm accounts it: 0 when hi < lo, overflow = refused *)
Definition range_size (lo hi : Z) : option Z :=
  if hi <? lo then Some 0
  else let s := hi - lo + 1 in if s <=? max_of KInt then Some s else None.

Definition make_range (lo hi : Z) : value :=
  if hi <? lo then VArr (TNum KInt) [] else VArr (TNum KInt) (range_list lo (Z.to_nat (hi - lo + 1))).

(* ---------------- assertions of the dispatch loop ---------------- *)
Definition as_bool (v : value) : outcome bool := match v with VBool b => Ok b | _ => Fail EIfaceConv end.
Definition as_str (v : value) : outcome string := match v with VStr s => Ok s | _ => Fail EIfaceConv end.
Definition as_int (v : value) : outcome Z :=
  match v with VNum (NInt KInt z) => Ok z | _ => Fail EIfaceConv end.

(* insertion into a map[string]interface{} kept in ascending key order; later writes win *)
Fixpoint map_put (k : string) (v : value) (m : list (value * value)) : list (value * value) :=
  match m with
  | [] => [(VStr k, v)]
  | (VStr k', v') :: r =>
      match String.compare k k' with
      | Eq => (VStr k, v) :: r
      | Lt => (VStr k, v) :: m
      | Gt => (VStr k', v') :: map_put k v r
      end
  | p :: r => p :: map_put k v r
  end.

(* ---------------- environment functions ---------------- *)
(* What the model knows about the functions of the environment (harness universe mirrored):
   signatures (for the checks reflect.Value.Call makes), behaviour, and method tables. *)
Record fsig := mkSig { s_ins : list ty; s_variadic : bool; s_nout : Z; s_fast : bool }.

Record fenv := mkFenv {
  fn_sig : string -> option fsig;                       (* by function id *)
  fn_run : string -> value -> list value -> outcome value; (* id, receiver (the value it was fetched from), arguments;
                                                           Fail EUser = the function panics *)
  fn_method : string -> bool -> string -> option string;(* type name, via pointer?, method name -> function id *)
  re_match : string -> string -> option bool;           (* regexp oracle: pattern, subject; None = bad pattern *)
  f_pow : float -> float -> float                       (* math.Pow oracle *)
}.

Definition type_name_of (v : value) : option (string * bool) :=
  match v with
  | VStruct n p _ => Some (n, p)
  | VNamed n _ => Some (n, false)
  | _ => None
  end.

(* FetchFn(from, name): the callable, as a function id *)
Definition fetch_fn (fe : fenv) (from : value) (name : string) : outcome string :=
  match from with
  | VNil => Fail EReflect
  | VNilPtr (TStruct tn) =>
      (* a method with a value receiver called through a nil pointer: Go panics before entering it *)
      match fn_method fe tn true name with Some _ => Fail ENilDeref | None => Fail ECannotFetch end
  | _ =>
    let via_method :=
      match type_name_of from with
      | Some (tn, p) => fn_method fe tn p name
      | None => None
      end in
    match via_method with
    | Some id => Ok id
    | None =>
        match from with
        | VMap _ et m =>
            match assoc_val (VStr name) m with
            | Some (VFunc id _) => match et with TIface => Ok id | _ => Fail EReflect end
            | Some VNil => Fail EReflect     (* Elem() of a nil interface: zero Value, Call panics *)
            | Some _ => Fail EReflect        (* not callable *)
            | None => Fail ECannotFetch
            end
        | VStruct _ _ fields =>
            match assoc_str name fields with
            | Some (VFunc id _) => Ok id
            | Some _ => Fail EReflect
            | None => Fail ECannotFetch
            end
        | _ => Fail ECannotFetch
        end
    end
  end.

(* FetchFn(from, name) returns the ZERO reflect.Value instead of panicking (vm/runtime.go: value.Elem() of a
   map entry that IsValid): the entry of an interface-typed map is a nil interface, or the entry of a
   pointer-typed map is a nil pointer.  A plain call then panics in Call (fetch_fn: EReflect); the
   OpMethodNilSafe arm tests IsValid() and pushes nil.  Confirmed on the code (probe of 2026-09-23), with
     M  : map[string]interface{} = nili -> nil, nilp -> typed nil pointer to T, nilf -> nil func() int
     MP : map[string] pointer to T = nilp -> nil
     M.nili()     reflect: call of reflect.Value.Call on zero Value      M?.nili()   nil (no error)
     MP.nilp()    reflect: call of reflect.Value.Call on zero Value      MP?.nilp()  nil (no error)
     M.nilp()     reflect: call of reflect.Value.Call on ptr Value       M?.nilp()   the same error
     M.nilf()     reflect.Value.Call: call of nil function               M?.nilf()   the same error
     M.missing()  cannot get missing from map[string]interface {}        M?.missing() the same error *)
Definition fetch_fn_zero (from : value) (name : string) : bool :=
  match from with
  | VMap _ et m =>
      match assoc_val (VStr name) m with
      | Some VNil => match et with TIface => true | _ => false end
      | Some (VNilPtr _) => match et with TIface => false | _ => true end
      | _ => false
      end
  | _ => false
  end.

Fixpoint args_ok (ins : list ty) (variadic : bool) (args : list value) {struct ins} : bool :=
  match ins, args with
  | [], [] => true
  | [TSlice e], _ => if variadic then forallb (fun a => assignable (dyn_type a) e) args
                     else match args with [a] => assignable (dyn_type a) (TSlice e) | _ => false end
  | p :: ins', a :: args' =>
      (match a with VNil => assignable TIface p | _ => assignable (dyn_type a) p end) && args_ok ins' variadic args'
  | _, _ => false
  end.


(* Sem/Sem.v — REFERENCE big-step semantics of the expression language (the language definition):
   structural, no stack, no jumps.  Fixes evaluation order, short-circuiting, conditionals,
   nil-safe navigation, closures (`#` = element of the innermost collection), allocation
   accounting, the trace of environment-function calls and the source location of a failure.
   Primitive operations on values come from Prim.v.  No proofs here. *)
From Coq Require Import ZArith Bool List String Floats.
Require Import X.Base.Num X.Base.Value X.Syn.Ast X.Sem.Prim.
Import ListNotations.
Open Scope Z_scope.

(* run state threaded through evaluation *)
Record rstate := mkRS { r_mem : Z; r_trace : list (string * list value) }.
Definition rs0 : rstate := mkRS 0 [].
Definition log_call (s : rstate) (id : string) (args : list value) : rstate :=
  mkRS (r_mem s) (r_trace s ++ [(id, args)]).

Inductive result :=
| Done (v : value) (s : rstate)
| Stop (e : err) (l : loc) (s : rstate).      (* failure: class, location of the failing node, state reached *)

Definition rbind (r : result) (k : value -> rstate -> result) : result :=
  match r with Done v s => k v s | Stop e l s => Stop e l s end.

Definition lift {A} (l : loc) (s : rstate) (o : outcome A) (k : A -> result) : result :=
  match o with Ok a => k a | Fail e => Stop e l s end.

Record config := mkCfg { c_mapenv : bool; c_limit : Z }.

(* account n freshly created elements; the run is refused when the total reaches the budget *)
Definition alloc (cfg : config) (l : loc) (n : Z) (s : rstate) (k : rstate -> result) : result :=
  let m := r_mem s + n in
  if c_limit cfg <=? m then Stop EBudget l s else k (mkRS m (r_trace s)).

(* calling an environment function: reflect's checks, then the call is logged, then it runs *)
Definition do_call (fe : fenv) (l : loc) (fast : bool) (id : string) (recv : value) (args : list value) (s : rstate) : result :=
  match fn_sig fe id with
  | None => Stop (if fast then EIfaceConv else EReflect) l s
  | Some sg =>
      if fast then
        if s_fast sg then
          let s' := log_call s id args in
          match fn_run fe id recv args with Ok v => Done v s' | Fail e => Stop e l s' end
        else Stop EIfaceConv l s
      else if args_ok (s_ins sg) (s_variadic sg) args then
        let s' := log_call s id args in
        match fn_run fe id recv args with
        | Ok v => if s_nout sg =? 0 then Stop EIndexRange l s' else Done v s'
        | Fail e => Stop e l s'
        end
      else Stop EReflect l s
  end.

(* ---- loop combinators: iterate i = k, k+1, ... over n remaining elements ---- *)
Section Loops.
Variable body : Z -> rstate -> result.   (* evaluates the closure with element index i *)
Variable l : loc.                         (* location of the builtin node *)

Fixpoint all_loop (n : nat) (i : Z) (s : rstate) : result :=
  match n with
  | O => Done (VBool true) s
  | S n' => rbind (body i s) (fun v s1 =>
            lift l s1 (as_bool v) (fun b => if b then all_loop n' (i + 1) s1 else Done (VBool false) s1))
  end.

Fixpoint none_loop (n : nat) (i : Z) (s : rstate) : result :=
  match n with
  | O => Done (VBool true) s
  | S n' => rbind (body i s) (fun v s1 =>
            lift l s1 (as_bool v) (fun b => if b then Done (VBool false) s1 else none_loop n' (i + 1) s1))
  end.

Fixpoint any_loop (n : nat) (i : Z) (s : rstate) : result :=
  match n with
  | O => Done (VBool false) s
  | S n' => rbind (body i s) (fun v s1 =>
            lift l s1 (as_bool v) (fun b => if b then Done (VBool true) s1 else any_loop n' (i + 1) s1))
  end.

(* count of satisfying elements, started from c *)
Fixpoint count_loop (n : nat) (i : Z) (c : Z) (s : rstate) (k : Z -> rstate -> result) : result :=
  match n with
  | O => k c s
  | S n' => rbind (body i s) (fun v s1 =>
            lift l s1 (as_bool v) (fun b => count_loop n' (i + 1) (if b then c + 1 else c) s1 k))
  end.

(* filter: the satisfying elements (fetched from the collection), in order *)
Variable elem : Z -> outcome value.
Fixpoint filter_loop (n : nat) (i : Z) (acc : list value) (s : rstate) (k : list value -> rstate -> result) : result :=
  match n with
  | O => k (rev acc) s
  | S n' => rbind (body i s) (fun v s1 =>
            lift l s1 (as_bool v) (fun b =>
              if b then lift l s1 (elem i) (fun x => filter_loop n' (i + 1) (x :: acc) s1 k)
              else filter_loop n' (i + 1) acc s1 k))
  end.

Fixpoint map_loop (n : nat) (i : Z) (acc : list value) (s : rstate) (k : list value -> rstate -> result) : result :=
  match n with
  | O => k (rev acc) s
  | S n' => rbind (body i s) (fun v s1 => map_loop n' (i + 1) (v :: acc) s1 k)
  end.
End Loops.

(* first pair wins: OpMap pops pairs last-to-first and later writes overwrite *)
Fixpoint build_map (kvs : list (string * value)) : list (value * value) :=
  match kvs with
  | [] => []
  | (k, v) :: r => map_put k v (build_map r)
  end.

Fixpoint keys_as_str (kvs : list (value * value)) : outcome (list (string * value)) :=
  match kvs with
  | [] => Ok []
  | (k, v) :: r =>
      (* popped last-to-first: the LAST non-string key is the one that fails; the class is the same *)
      match keys_as_str r with
      | Fail e => Fail e
      | Ok r' => match as_str k with Ok s => Ok ((s, v) :: r') | Fail e => Fail e end
      end
  end.

Definition int_const (a : ann) (z : Z) : value :=
  match akind a with
  | RKNum k => if is_float k then VNum (NFlt k (fround k (f_of_Z z))) else VNum (NInt k (wrap k z))
  | _ => vint z
  end.

Definition both_kind (k : rkind) (l r : expr) : bool := rkind_eqb (kind_of l) k && rkind_eqb (kind_of r) k.

Section Eval.
Variable fe : fenv.
Variable cfg : config.
Variable env : value.

Definition fetch_ident (name : string) (nilsafe : bool) : outcome value :=
  if c_mapenv cfg then
    match env with
    | VMap TString TIface m => Ok (match assoc_val (VStr name) m with Some v => v | None => VNil end)
    | VNilMap TString TIface => Ok VNil
    | _ => Fail EIfaceConv
    end
  else p_fetch env (VStr name) nilsafe.

(* ctx: innermost-first list of (collection, index) of the enclosing builtins *)
Fixpoint eval (ctx : list (value * Z)) (e : expr) (s : rstate) {struct e} : result :=
  let here := loc_of e in
  let eval_list := fix eval_list (es : list expr) (s : rstate) (k : list value -> rstate -> result) : result :=
    match es with
    | [] => k [] s
    | x :: r => rbind (eval ctx x s) (fun v s1 => eval_list r s1 (fun vs s2 => k (v :: vs) s2))
    end in
  match e with
  | ENil _ => Done VNil s
  | EIdent _ name ns => lift here s (fetch_ident name ns) (fun v => Done v s)
  | EInt a z => Done (int_const a z) s
  | EFloat _ f => Done (VNum (NFlt KF64 f)) s
  | EBool _ b => Done (VBool b) s
  | EStr _ x => Done (VStr x) s
  | EConst _ v => Done v s
  | EUnary _ op x =>
      rbind (eval ctx x s) (fun v s1 =>
      match op with
      | UNotBang | UNotWord => lift here s1 (as_bool v) (fun b => Done (VBool (negb b)) s1)
      | UPlus => Done v s1
      | UMinus => lift here s1 (p_negate v) (fun r => Done r s1)
      | UUnknown _ => Stop EOther here s1
      end)
  | EBinary _ op l r =>
      match op with
      | BOrWord | BOrOr =>
          rbind (eval ctx l s) (fun va s1 =>
          lift here s1 (as_bool va) (fun b => if b then Done va s1 else eval ctx r s1))
      | BAndWord | BAndAnd =>
          rbind (eval ctx l s) (fun va s1 =>
          lift here s1 (as_bool va) (fun b => if b then eval ctx r s1 else Done va s1))
      | _ =>
          rbind (eval ctx l s) (fun va s1 =>
          rbind (eval ctx r s1) (fun vb s2 =>
          match op with
          | BEq =>
              if both_kind (RKNum KInt) l r then
                lift here s2 (as_int va) (fun x => lift here s2 (as_int vb) (fun y => Done (VBool (x =? y)) s2))
              else if both_kind RKString l r then
                lift here s2 (as_str va) (fun x => lift here s2 (as_str vb) (fun y => Done (VBool (String.eqb x y)) s2))
              else lift here s2 (p_equal va vb) (fun v => Done v s2)
          | BNe => lift here s2 (p_equal va vb) (fun v => lift here s2 (as_bool v) (fun b => Done (VBool (negb b)) s2))
          | BIn => lift here s2 (p_in va vb) (fun b => Done (VBool b) s2)
          | BNotIn => lift here s2 (p_in va vb) (fun b => Done (VBool (negb b)) s2)
          | BLt => lift here s2 (p_helper HLess va vb) (fun v => Done v s2)
          | BGt => lift here s2 (p_helper HMore va vb) (fun v => Done v s2)
          | BLe => lift here s2 (p_helper HLessOrEqual va vb) (fun v => Done v s2)
          | BGe => lift here s2 (p_helper HMoreOrEqual va vb) (fun v => Done v s2)
          | BAdd => lift here s2 (p_helper HAdd va vb) (fun v => Done v s2)
          | BSub => lift here s2 (p_helper HSubtract va vb) (fun v => Done v s2)
          | BMul => lift here s2 (p_helper HMultiply va vb) (fun v => Done v s2)
          | BDiv => lift here s2 (p_helper HDivide va vb) (fun v => Done v s2)
          | BMod => lift here s2 (p_helper HModulo va vb) (fun v => Done v s2)
          | BPow => lift here s2 (to_float64 va) (fun x => lift here s2 (to_float64 vb) (fun y =>
                      Done (VNum (NFlt KF64 (f_pow fe x y))) s2))
          | BContains => lift here s2 (as_str va) (fun x => lift here s2 (as_str vb) (fun y => Done (VBool (str_contains x y)) s2))
          | BStartsWith => lift here s2 (as_str va) (fun x => lift here s2 (as_str vb) (fun y => Done (VBool (str_prefix y x)) s2))
          | BEndsWith => lift here s2 (as_str va) (fun x => lift here s2 (as_str vb) (fun y => Done (VBool (str_suffix y x)) s2))
          | BRange =>
              lift here s2 (to_int va) (fun lo => lift here s2 (to_int vb) (fun hi =>
              match range_size lo hi with
              | None => Stop EBudget here s2
              | Some n => alloc cfg here n s2 (fun s3 => Done (make_range lo hi) s3)
              end))
          | _ => Stop EOther here s2
          end))
      end
  | EMatches _ re l r =>
      (* the pattern is the VALUE of the right operand; a pre-compiled literal (re_const) is only a
         shortcut for it: when the right operand is no longer that literal the field is ignored *)
      match re_const re r with
      | Some p =>
          rbind (eval ctx l s) (fun va s1 =>
          lift here s1 (as_str va) (fun x =>
          match re_match fe p x with Some b => Done (VBool b) s1 | None => Stop ERegexp here s1 end))
      | None =>
          rbind (eval ctx l s) (fun va s1 =>
          rbind (eval ctx r s1) (fun vb s2 =>
          lift here s2 (as_str vb) (fun p => lift here s2 (as_str va) (fun x =>
          match re_match fe p x with Some b => Done (VBool b) s2 | None => Stop ERegexp here s2 end))))
      end
  | EProperty _ x name ns =>
      rbind (eval ctx x s) (fun v s1 => lift here s1 (p_fetch v (VStr name) ns) (fun r => Done r s1))
  | EIndex _ x i =>
      rbind (eval ctx x s) (fun v s1 => rbind (eval ctx i s1) (fun vi s2 =>
      lift here s2 (p_fetch v vi false) (fun r => Done r s2)))
  | ESlice _ x from to =>
      rbind (eval ctx x s) (fun v s1 =>
      rbind (match to with
             | Some t => eval ctx t s1
             | None => lift here s1 (p_length v) (fun n => Done (vint n) s1)
             end) (fun vto s2 =>
      rbind (match from with
             | Some f => eval ctx f s2
             | None => Done (vint 0) s2
             end) (fun vfrom s3 =>
      lift here s3 (p_slice v vfrom vto) (fun r => Done r s3))))
  | EMethod _ x name args ns =>
      rbind (eval ctx x s) (fun v s1 =>
      eval_list args s1 (fun vs s2 =>
      match ns, v with
      | true, VNil => Done VNil s2
      | _, _ =>
          if ns && fetch_fn_zero v name then Done VNil s2     (* FetchFnNil gave the zero Value: OpMethodNilSafe pushes nil *)
          else lift here s2 (fetch_fn fe v name) (fun id => do_call fe here false id v vs s2)
      end))
  | EFunction _ name args fast =>
      eval_list args s (fun vs s1 =>
      lift here s1 (fetch_fn fe env name) (fun id => do_call fe here fast id env vs s1))
  | EBuiltin _ b args =>
      match b, args with
      | BiLen, [x] =>
          rbind (eval ctx x s) (fun v s1 => lift here s1 (p_length v) (fun n => Done (vint n) s1))
      | BiAll, [x; c] =>
          rbind (eval ctx x s) (fun v s1 => lift here s1 (p_length v) (fun n =>
          all_loop (fun i s' => eval ((v, i) :: ctx) c s') here (Z.to_nat n) 0 s1))
      | BiNone, [x; c] =>
          rbind (eval ctx x s) (fun v s1 => lift here s1 (p_length v) (fun n =>
          none_loop (fun i s' => eval ((v, i) :: ctx) c s') here (Z.to_nat n) 0 s1))
      | BiAny, [x; c] =>
          rbind (eval ctx x s) (fun v s1 => lift here s1 (p_length v) (fun n =>
          any_loop (fun i s' => eval ((v, i) :: ctx) c s') here (Z.to_nat n) 0 s1))
      | BiOne, [x; c] =>
          rbind (eval ctx x s) (fun v s1 => lift here s1 (p_length v) (fun n =>
          count_loop (fun i s' => eval ((v, i) :: ctx) c s') here (Z.to_nat n) 0 0 s1
            (fun cnt s2 => lift here s2 (p_equal (vint cnt) (vint 1)) (fun r => Done r s2))))
      | BiCount, [x; c] =>
          rbind (eval ctx x s) (fun v s1 => lift here s1 (p_length v) (fun n =>
          count_loop (fun i s' => eval ((v, i) :: ctx) c s') here (Z.to_nat n) 0 0 s1
            (fun cnt s2 => Done (vint cnt) s2)))
      | BiFilter, [x; c] =>
          rbind (eval ctx x s) (fun v s1 => lift here s1 (p_length v) (fun n =>
          filter_loop (fun i s' => eval ((v, i) :: ctx) c s') here (fun i => p_fetch v (vint i) false)
            (Z.to_nat n) 0 [] s1
            (fun xs s2 => alloc cfg here (Z.of_nat (List.length xs)) s2 (fun s3 => Done (VArr TIface xs) s3))))
      | BiMap, [x; c] =>
          rbind (eval ctx x s) (fun v s1 => lift here s1 (p_length v) (fun n =>
          map_loop (fun i s' => eval ((v, i) :: ctx) c s') (Z.to_nat n) 0 [] s1
            (fun xs s2 => alloc cfg here n s2 (fun s3 => Done (VArr TIface xs) s3))))
      | _, _ => Stop EOther here s
      end
  | EClosure _ x => eval ctx x s
  | EPointer _ =>
      match ctx with
      | (arr, i) :: _ => lift here s (p_fetch arr (vint i) false) (fun v => Done v s)
      | [] => Stop ECannotFetch here s
      end
  | ECond _ c x y =>
      rbind (eval ctx c s) (fun vc s1 =>
      lift here s1 (as_bool vc) (fun b => if b then eval ctx x s1 else eval ctx y s1))
  | EArray _ es =>
      eval_list es s (fun vs s1 =>
      alloc cfg here (Z.of_nat (List.length vs)) s1 (fun s2 => Done (VArr TIface vs) s2))
  | EMap _ pairs =>
      (fix eval_pairs (ps : list expr) (s : rstate) (k : list (value * value) -> rstate -> result) : result :=
         match ps with
         | [] => k [] s
         | EPair _ kx vx :: r =>
             rbind (eval ctx kx s) (fun vk s1 => rbind (eval ctx vx s1) (fun vv s2 =>
             eval_pairs r s2 (fun kvs s3 => k ((vk, vv) :: kvs) s3)))
         | _ :: _ => Stop EOther here s
         end) pairs s (fun kvs s1 =>
      lift here s1 (keys_as_str kvs) (fun skvs =>
      alloc cfg here (Z.of_nat (List.length kvs)) s1 (fun s2 =>
      Done (VMap TString TIface (build_map skvs)) s2)))
  | EPair _ _ _ => Stop EOther here s
  end.

End Eval.

(* result directive of Compile (AsInt64 / AsFloat64): OpCast at the end, located at the root node *)
Inductive cast := CastNone | CastInt64 | CastFloat64.

Definition run_ref (fe : fenv) (cfg : config) (env : value) (c : cast) (e : expr) : result :=
  rbind (eval fe cfg env [] e rs0) (fun v s =>
  match c with
  | CastNone => Done v s
  | CastInt64 => lift noloc s (to_int64 v) (fun r => Done r s)
  | CastFloat64 => lift noloc s (to_float64 v) (fun f => Done (VNum (NFlt KF64 f)) s)
  end).

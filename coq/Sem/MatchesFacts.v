(* Sem/MatchesFacts.v — facts about the pre-compiled pattern of a MatchesNode (Syn/Ast.re_const).

   re_const re r = Some p exactly when re = Some p and r is the string literal p.  The reference
   semantics (Sem/Sem.v) and the model compiler use the pre-compiled pattern only then; the main
   fact here is that the shortcut is invisible: for EVERY Regexp field and EVERY right operand the
   reference value of `l matches r` is the one computed from the VALUE of r (eval_matches_dyn).
   Every proof about matches can therefore work with the dynamic reading alone. *)
From Coq Require Import ZArith Bool List String.
Require Import X.Base.Num X.Base.Value X.Syn.Ast X.Sem.Prim X.Sem.Sem.
Import ListNotations.
Open Scope Z_scope.

Lemma re_const_some re r p :
  re_const re r = Some p -> re = Some p /\ exists b, r = EStr b p.
Proof.
  unfold re_const. destruct re as [q|]; [|discriminate].
  destruct r; try discriminate.
  destruct (String.eqb q s) eqn:E; [|discriminate].
  apply String.eqb_eq in E. subst s. intros H. injection H as ->. split; [reflexivity|eauto].
Qed.

Lemma re_const_lit a p : re_const (Some p) (EStr a p) = Some p.
Proof. unfold re_const. rewrite String.eqb_refl. reflexivity. Qed.

Lemma re_const_no_field r : re_const None r = None.
Proof. reflexivity. Qed.

Lemma re_const_other_lit a p q : p <> q -> re_const (Some p) (EStr a q) = None.
Proof. intros H. unfold re_const. apply String.eqb_neq in H. rewrite H. reflexivity. Qed.

(* a right operand that is not a string literal: the field is ignored *)
Definition is_str_lit (e : expr) : bool := match e with EStr _ _ => true | _ => false end.

Lemma re_const_not_lit re r : is_str_lit r = false -> re_const re r = None.
Proof. destruct re, r; try reflexivity; discriminate. Qed.

Lemma re_const_is_lit re r p : re_const re r = Some p -> is_str_lit r = true.
Proof. intros H. apply re_const_some in H. destruct H as [_ [b ->]]. reflexivity. Qed.

(* decided by the right operand and the field alone: any two nodes agreeing on them agree *)
Lemma re_const_set_ann re r a : re_const re (set_ann r a) = re_const re r.
Proof. destruct re, r; reflexivity. Qed.

Section Facts.
Variable fe : fenv.
Variable cfg : config.
Variable env : value.
Notation ev := (eval fe cfg env).

(* the dynamic reading of `l matches r`: left, right, the pattern is the value of the right operand *)
Definition matches_dyn (ctx : list (value * Z)) (a : ann) (l r : expr) (s : rstate) : result :=
  rbind (ev ctx l s) (fun va s1 =>
  rbind (ev ctx r s1) (fun vb s2 =>
  lift (aloc a) s2 (as_str vb) (fun p => lift (aloc a) s2 (as_str va) (fun x =>
  match re_match fe p x with Some b => Done (VBool b) s2 | None => Stop ERegexp (aloc a) s2 end)))).

Lemma eval_matches_dyn ctx a re l r s :
  ev ctx (EMatches a re l r) s = matches_dyn ctx a l r s.
Proof.
  unfold matches_dyn. cbn [eval loc_of ann_of].
  destruct (re_const re r) as [p|] eqn:E; [|reflexivity].
  apply re_const_some in E. destruct E as [_ [b ->]].
  destruct (ev ctx l s) as [va s1|e lo s1]; [|reflexivity].
  cbn [rbind eval]. cbn [as_str lift]. reflexivity.
Qed.

(* in particular the Regexp field never matters to the reference value *)
Lemma eval_matches_field_irrelevant ctx a re re' l r s :
  ev ctx (EMatches a re l r) s = ev ctx (EMatches a re' l r) s.
Proof. rewrite !eval_matches_dyn. reflexivity. Qed.

End Facts.

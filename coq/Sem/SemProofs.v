(* Sem/SemProofs.v — theorems about the REFERENCE semantics Sem.eval: the defining identities of
   the collection builtins (property C18).  Every statement is about `eval` of two expression
   trees built with the constructors of Syn/Ast.v (arbitrary annotations), for ALL collection
   values, ALL predicate / mapper expressions (with effects = environment calls in the trace, and
   failures), all contexts `ctx` and all states; the loops are handled by induction over the
   element count of the loop combinators, generalised over index, accumulator and state. *)
From Coq Require Import ZArith Bool List String Lia.
Require Import X.Base.Num X.Base.NumProofs X.Base.Value X.Syn.Ast X.gen.GenHelpers X.Sem.Prim X.Sem.Sem.
Import ListNotations.
Open Scope list_scope.
Open Scope Z_scope.

(* ------------------------------------------------------------------------------------------ *)
(* How two results are compared.                                                               *)
(*   Done / Done : same value and same state (allocation counter AND call trace).              *)
(*   Stop / Stop : same failure class and same state; the failing node is the same, or it is   *)
(*                 one of the identity's own operator nodes (la on the left, lb on the right:  *)
(*                 `all` reports a non-boolean predicate at the builtin, `not any(.. not p)`   *)
(*                 reports it at the inner `not`).                                             *)
Definition res_agree (la lb : list loc) (r1 r2 : result) : Prop :=
  match r1, r2 with
  | Done v s, Done v' s' => v = v' /\ s = s'
  | Stop e l s, Stop e' l' s' => e = e' /\ s = s' /\ (l = l' \/ (In l la /\ In l' lb))
  | _, _ => False
  end.

Lemma res_agree_refl la lb r : res_agree la lb r r.
Proof. destruct r; cbn; auto. Qed.

Lemma res_agree_eq la lb r1 r2 : r1 = r2 -> res_agree la lb r1 r2.
Proof. intros ->. apply res_agree_refl. Qed.

Lemma rbind_agree la lb r f g :
  (forall v s, res_agree la lb (f v s) (g v s)) -> res_agree la lb (rbind r f) (rbind r g).
Proof. intros H. destruct r; cbn; auto. Qed.

Lemma lift_agree {A} la lb l1 l2 s (o : outcome A) k1 k2 :
  l1 = l2 \/ (In l1 la /\ In l2 lb) ->
  (forall a, res_agree la lb (k1 a) (k2 a)) -> res_agree la lb (lift l1 s o k1) (lift l2 s o k2).
Proof. intros Hl H. destruct o; cbn; auto. Qed.

Lemma rbind_assoc r f g : rbind (rbind r f) g = rbind r (fun v s => rbind (f v s) g).
Proof. destruct r; reflexivity. Qed.

Lemma rbind_lift {A} l s (o : outcome A) k g : rbind (lift l s o k) g = lift l s o (fun a => rbind (k a) g).
Proof. destruct o; reflexivity. Qed.

(* `not r`: what the unary operators `not` / `!` do with the result of their operand *)
Definition neg_res (l : loc) (r : result) : result :=
  rbind r (fun v s1 => lift l s1 (as_bool v) (fun b => Done (VBool (negb b)) s1)).

Definition is_not (op : unop) : bool := match op with UNotBang | UNotWord => true | _ => false end.

(* state with n more accounted elements *)
Definition add_mem (n : Z) (s : rstate) : rstate := mkRS (r_mem s + n) (r_trace s).

(* collections the identities speak about: Go slices (a slice cannot be longer than MaxInt) *)
Definition arr_ok (v : value) : Prop :=
  match v with
  | VArr _ l => Z.of_nat (List.length l) <= max_of KInt
  | VNilArr _ => True
  | _ => False
  end.

Lemma p_equal_int a b : p_equal (vint a) (vint b) = Ok (VBool (a =? b)).
Proof. reflexivity. Qed.

Lemma max_int_val : max_of KInt = 9223372036854775807.
Proof. reflexivity. Qed.
Lemma min_int_val : min_of KInt = -9223372036854775808.
Proof. reflexivity. Qed.

Lemma in_range_int z : min_of KInt <= z <= max_of KInt -> in_range KInt z = true.
Proof. intros H. unfold in_range. apply andb_true_intro. split; apply Z.leb_le; lia. Qed.

Lemma to_int_vint z : min_of KInt <= z <= max_of KInt -> to_int (vint z) = Ok z.
Proof.
  intros H. unfold to_int, vint, convert. cbn [is_float].
  rewrite (wrap_in_range KInt z eq_refl (in_range_int z H)). reflexivity.
Qed.

(* ------------------------------------------------------------------------------------------ *)
(* Loop lemmas (no evaluator involved: any body).                                              *)
Section LoopLemmas.
Variable body : Z -> rstate -> result.

(* all(xs, p) = not any(xs, not p): the three loops visit the same elements, stop at the same
   element, and leave the same state *)
Lemma all_any_loop l1 l2 l3 l4 la lb : In l1 la -> In l3 lb ->
  forall n i s, res_agree la lb (all_loop body l1 n i s)
                  (neg_res l4 (any_loop (fun i s => neg_res l3 (body i s)) l2 n i s)).
Proof.
  intros H1 H3. induction n as [|n IH]; intros i s.
  - cbn. auto.
  - cbn [all_loop any_loop]. unfold neg_res at 2. destruct (body i s) as [v s1|e l s1]; cbn [rbind].
    + destruct (as_bool v) as [b|e]; cbn [lift rbind as_bool].
      * destruct b; cbn [negb].
        -- apply IH.
        -- cbn. auto.
      * cbn. auto.
    + cbn. auto.
Qed.

(* none(xs, p) = not any(xs, p) *)
Lemma none_any_loop l1 l2 l4 la lb : In l1 la -> In l2 lb ->
  forall n i s, res_agree la lb (none_loop body l1 n i s) (neg_res l4 (any_loop body l2 n i s)).
Proof.
  intros H1 H2. induction n as [|n IH]; intros i s.
  - cbn. auto.
  - cbn [none_loop any_loop]. unfold neg_res. destruct (body i s) as [v s1|e l s1]; cbn [rbind].
    + destruct (as_bool v) as [b|e]; cbn [lift rbind].
      * destruct b.
        -- cbn. auto.
        -- apply IH.
      * cbn. auto.
    + cbn. auto.
Qed.

(* a continuation can be moved into the counting loop *)
Lemma count_loop_rbind l n : forall i c s k g,
  rbind (count_loop body l n i c s k) g = count_loop body l n i c s (fun c s => rbind (k c s) g).
Proof.
  induction n as [|n IH]; intros; cbn [count_loop]; [reflexivity|].
  destruct (body i s) as [v s1|e l' s1]; cbn [rbind]; [|reflexivity].
  destruct (as_bool v) as [b|e]; cbn [lift rbind]; [|reflexivity]. apply IH.
Qed.

(* counting loops that differ in the location they report and in their continuation *)
Lemma count_loop_agree la lb l1 l2 n : l1 = l2 \/ (In l1 la /\ In l2 lb) -> forall i c s k1 k2,
  (forall c s, res_agree la lb (k1 c s) (k2 c s)) ->
  res_agree la lb (count_loop body l1 n i c s k1) (count_loop body l2 n i c s k2).
Proof.
  intros Hl. induction n as [|n IH]; intros i c s k1 k2 Hk; cbn [count_loop]; [apply Hk|].
  apply rbind_agree. intros v s1. apply lift_agree; [exact Hl|]. intros b. apply IH. exact Hk.
Qed.

Lemma filter_loop_rbind l elem n : forall i acc s k g,
  rbind (filter_loop body l elem n i acc s k) g = filter_loop body l elem n i acc s (fun xs s => rbind (k xs s) g).
Proof.
  induction n as [|n IH]; intros; cbn [filter_loop]; [reflexivity|].
  destruct (body i s) as [v s1|e l' s1]; cbn [rbind]; [|reflexivity].
  destruct (as_bool v) as [b|e]; cbn [lift rbind]; [|reflexivity].
  destruct b; [|apply IH]. destruct (elem i); cbn [lift rbind]; [apply IH|reflexivity].
Qed.

Lemma map_loop_rbind n : forall i acc s k g,
  rbind (map_loop body n i acc s k) g = map_loop body n i acc s (fun xs s => rbind (k xs s) g).
Proof.
  induction n as [|n IH]; intros; cbn [map_loop]; [reflexivity|].
  destruct (body i s) as [v s1|e l' s1]; cbn [rbind]; [|reflexivity]. apply IH.
Qed.

(* count vs filter: the same elements are visited, the same calls are made; the filter's
   accumulator has as many elements as the counter says.  `elem` must succeed on the visited
   indices (it does on arrays: see fetch_arr_ok). *)
Lemma count_filter_loop la lb l1 l2 elem hi : l1 = l2 \/ (In l1 la /\ In l2 lb) ->
  (forall i, 0 <= i < hi -> exists x, elem i = Ok x) ->
  forall n i c acc s kc kf, 0 <= i -> i + Z.of_nat n <= hi -> Z.of_nat (List.length acc) = c ->
  (forall c acc s, Z.of_nat (List.length acc) = c -> res_agree la lb (kc c s) (kf (rev acc) s)) ->
  res_agree la lb (count_loop body l1 n i c s kc) (filter_loop body l2 elem n i acc s kf).
Proof.
  intros Hl He. induction n as [|n IH]; intros i c acc s kc kf Hi Hn Hc Hk; cbn [count_loop filter_loop].
  - apply Hk. exact Hc.
  - apply rbind_agree. intros v s1. apply lift_agree; [exact Hl|]. intros b. destruct b.
    + destruct (He i) as [x Hx]; [lia|]. rewrite Hx. cbn [lift].
      apply IH; [lia|lia| |exact Hk]. cbn [List.length]. lia.
    + apply IH; [lia|lia|exact Hc|exact Hk].
Qed.

(* map: the continuation receives exactly `length acc + n` elements *)
Lemma map_loop_ext n : forall i acc s k1 k2,
  (forall xs s, List.length xs = (List.length acc + n)%nat -> k1 xs s = k2 xs s) ->
  map_loop body n i acc s k1 = map_loop body n i acc s k2.
Proof.
  induction n as [|n IH]; intros i acc s k1 k2 Hk; cbn [map_loop].
  - apply Hk. rewrite rev_length. lia.
  - destruct (body i s) as [v s1|e l' s1]; cbn [rbind]; [|reflexivity].
    apply IH. intros xs s' Hx. apply Hk. cbn [List.length] in Hx. lia.
Qed.

(* a map loop whose continuation ignores the list: the body is run for its effects only *)
Fixpoint effects_loop (n : nat) (i : Z) (s : rstate) (k : rstate -> result) : result :=
  match n with
  | O => k s
  | S n' => rbind (body i s) (fun _ s1 => effects_loop n' (i + 1) s1 k)
  end.

Lemma map_loop_effects n : forall i acc s k,
  map_loop body n i acc s (fun _ s => k s) = effects_loop n i s k.
Proof.
  induction n as [|n IH]; intros; cbn [map_loop effects_loop]; [reflexivity|].
  destruct (body i s) as [v s1|e l' s1]; cbn [rbind]; [|reflexivity]. apply IH.
Qed.

(* effect-free body: the loop is the continuation *)
Lemma effects_loop_pure n : forall i s k,
  (forall j s', i <= j < i + Z.of_nat n -> exists v, body j s' = Done v s') ->
  effects_loop n i s k = k s.
Proof.
  induction n as [|n IH]; intros i s k H; cbn [effects_loop]; [reflexivity|].
  destruct (H i s) as [v Hv]; [lia|]. rewrite Hv. cbn [rbind]. apply IH.
  intros j s' Hj. apply H. lia.
Qed.
End LoopLemmas.

(* ------------------------------------------------------------------------------------------ *)
(* The evaluator.                                                                              *)
Section EvalProofs.
Variable fe : fenv.
Variable cfg : config.
Variable env : value.
Notation ev := (eval fe cfg env).

(* one unfolding step of `eval` per node kind used below (all by computation) *)
Lemma eval_closure ctx a x s : ev ctx (EClosure a x) s = ev ctx x s.
Proof. reflexivity. Qed.

Lemma eval_not ctx a op x s : is_not op = true -> ev ctx (EUnary a op x) s = neg_res (aloc a) (ev ctx x s).
Proof. destruct op; intros H; try discriminate H; reflexivity. Qed.

Lemma eval_pointer v i ctx a s :
  ev ((v, i) :: ctx) (EPointer a) s = lift (aloc a) s (p_fetch v (vint i) false) (fun x => Done x s).
Proof. reflexivity. Qed.

Lemma eval_len ctx a x s :
  ev ctx (EBuiltin a BiLen [x]) s =
  rbind (ev ctx x s) (fun v s1 => lift (aloc a) s1 (p_length v) (fun n => Done (vint n) s1)).
Proof. reflexivity. Qed.

(* the closure of every builtin is evaluated with ctx EXTENDED by (its own collection, index) *)
Lemma eval_all ctx a x c s :
  ev ctx (EBuiltin a BiAll [x; c]) s =
  rbind (ev ctx x s) (fun v s1 => lift (aloc a) s1 (p_length v) (fun n =>
    all_loop (fun i s' => ev ((v, i) :: ctx) c s') (aloc a) (Z.to_nat n) 0 s1)).
Proof. reflexivity. Qed.

Lemma eval_none ctx a x c s :
  ev ctx (EBuiltin a BiNone [x; c]) s =
  rbind (ev ctx x s) (fun v s1 => lift (aloc a) s1 (p_length v) (fun n =>
    none_loop (fun i s' => ev ((v, i) :: ctx) c s') (aloc a) (Z.to_nat n) 0 s1)).
Proof. reflexivity. Qed.

Lemma eval_any ctx a x c s :
  ev ctx (EBuiltin a BiAny [x; c]) s =
  rbind (ev ctx x s) (fun v s1 => lift (aloc a) s1 (p_length v) (fun n =>
    any_loop (fun i s' => ev ((v, i) :: ctx) c s') (aloc a) (Z.to_nat n) 0 s1)).
Proof. reflexivity. Qed.

Lemma eval_one ctx a x c s :
  ev ctx (EBuiltin a BiOne [x; c]) s =
  rbind (ev ctx x s) (fun v s1 => lift (aloc a) s1 (p_length v) (fun n =>
    count_loop (fun i s' => ev ((v, i) :: ctx) c s') (aloc a) (Z.to_nat n) 0 0 s1
      (fun cnt s2 => lift (aloc a) s2 (p_equal (vint cnt) (vint 1)) (fun r => Done r s2)))).
Proof. reflexivity. Qed.

Lemma eval_count ctx a x c s :
  ev ctx (EBuiltin a BiCount [x; c]) s =
  rbind (ev ctx x s) (fun v s1 => lift (aloc a) s1 (p_length v) (fun n =>
    count_loop (fun i s' => ev ((v, i) :: ctx) c s') (aloc a) (Z.to_nat n) 0 0 s1
      (fun cnt s2 => Done (vint cnt) s2))).
Proof. reflexivity. Qed.

Lemma eval_filter ctx a x c s :
  ev ctx (EBuiltin a BiFilter [x; c]) s =
  rbind (ev ctx x s) (fun v s1 => lift (aloc a) s1 (p_length v) (fun n =>
    filter_loop (fun i s' => ev ((v, i) :: ctx) c s') (aloc a) (fun i => p_fetch v (vint i) false)
      (Z.to_nat n) 0 [] s1
      (fun xs s2 => alloc cfg (aloc a) (Z.of_nat (List.length xs)) s2 (fun s3 => Done (VArr TIface xs) s3)))).
Proof. reflexivity. Qed.

Lemma eval_map ctx a x c s :
  ev ctx (EBuiltin a BiMap [x; c]) s =
  rbind (ev ctx x s) (fun v s1 => lift (aloc a) s1 (p_length v) (fun n =>
    map_loop (fun i s' => ev ((v, i) :: ctx) c s') (Z.to_nat n) 0 [] s1
      (fun xs s2 => alloc cfg (aloc a) n s2 (fun s3 => Done (VArr TIface xs) s3)))).
Proof. reflexivity. Qed.

Lemma eval_eq ctx a l r s :
  ev ctx (EBinary a BEq l r) s =
  rbind (ev ctx l s) (fun va s1 => rbind (ev ctx r s1) (fun vb s2 =>
    if both_kind (RKNum KInt) l r then
      lift (aloc a) s2 (as_int va) (fun x => lift (aloc a) s2 (as_int vb) (fun y => Done (VBool (x =? y)) s2))
    else if both_kind RKString l r then
      lift (aloc a) s2 (as_str va) (fun x => lift (aloc a) s2 (as_str vb) (fun y => Done (VBool (String.eqb x y)) s2))
    else lift (aloc a) s2 (p_equal va vb) (fun v => Done v s2))).
Proof. reflexivity. Qed.

(* ---------------- 1. all(xs, p) = not any(xs, not p) ---------------- *)
(* No side condition.  Value, allocation counter, call trace and failure class coincide; both
   sides stop at the first falsifying element.  A predicate that yields a non-boolean makes both
   sides fail with EIfaceConv in the same state: `all` reports it at the builtin (a1), the right
   side at the inner `not` (a6); if xs has no length both fail with EInvalidOp at their builtin. *)
Theorem C18_all_not_any_not ctx a1 a2 a3 a4 a5 a6 n1 n2 x p s :
  is_not n1 = true -> is_not n2 = true ->
  res_agree [aloc a1] [aloc a4; aloc a6]
    (ev ctx (EBuiltin a1 BiAll [x; EClosure a2 p]) s)
    (ev ctx (EUnary a3 n1 (EBuiltin a4 BiAny [x; EClosure a5 (EUnary a6 n2 p)])) s).
Proof.
  intros Hn1 Hn2. rewrite (eval_not _ _ _ _ _ Hn1), eval_all, eval_any.
  unfold neg_res at 1. rewrite rbind_assoc. apply rbind_agree. intros v s1.
  rewrite rbind_lift. apply lift_agree; [right; cbn; auto|]. intros n.
  assert (E : (fun i s' => ev ((v, i) :: ctx) (EClosure a5 (EUnary a6 n2 p)) s') =
              (fun i s' => neg_res (aloc a6) ((fun i s' => ev ((v, i) :: ctx) (EClosure a2 p) s') i s'))).
  { cbv beta. change (fun i s' => ev ((v, i) :: ctx) (EClosure a5 (EUnary a6 n2 p)) s')
      with (fun i s' => ev ((v, i) :: ctx) (EUnary a6 n2 p) s').
    destruct n2; try discriminate Hn2; reflexivity. }
  rewrite E.
  apply (all_any_loop (fun i s' => ev ((v, i) :: ctx) (EClosure a2 p) s')
           (aloc a1) (aloc a4) (aloc a6) (aloc a3) [aloc a1] [aloc a4; aloc a6]); cbn; auto.
Qed.

(* ---------------- 2. none(xs, p) = not any(xs, p) ---------------- *)
Theorem C18_none_not_any ctx a1 a3 a4 n1 x c s :
  is_not n1 = true ->
  res_agree [aloc a1] [aloc a4]
    (ev ctx (EBuiltin a1 BiNone [x; c]) s)
    (ev ctx (EUnary a3 n1 (EBuiltin a4 BiAny [x; c])) s).
Proof.
  intros Hn1. rewrite (eval_not _ _ _ _ _ Hn1), eval_none, eval_any.
  unfold neg_res at 1. rewrite rbind_assoc. apply rbind_agree. intros v s1.
  rewrite rbind_lift. apply lift_agree; [right; cbn; auto|]. intros n.
  apply (none_any_loop (fun i s' => ev ((v, i) :: ctx) c s') (aloc a1) (aloc a4) (aloc a3)); cbn; auto.
Qed.

(* ---------------- 3. one(xs, p) = (count(xs, p) == 1) ---------------- *)
(* Side conditions on the annotation of the literal `1` (what the checker wrote on the node):
   it denotes the int 1 (not retyped to another numeric kind), and the comparison is not the
   string-specialised one.  Both hold for every tree the checker produces for this source. *)
Theorem C18_one_count_eq_1 ctx a1 a2 a3 a4 x c s :
  int_const a4 1 = vint 1 ->
  both_kind RKString (EBuiltin a3 BiCount [x; c]) (EInt a4 1) = false ->
  res_agree [aloc a1] [aloc a3]
    (ev ctx (EBuiltin a1 BiOne [x; c]) s)
    (ev ctx (EBinary a2 BEq (EBuiltin a3 BiCount [x; c]) (EInt a4 1)) s).
Proof.
  intros Hlit Hstr. rewrite eval_eq, eval_one, eval_count. rewrite rbind_assoc.
  apply rbind_agree. intros v s1. rewrite rbind_lift. apply lift_agree; [right; cbn; auto|]. intros n.
  rewrite count_loop_rbind. apply count_loop_agree; [right; cbn; auto|]. intros cnt s2.
  rewrite p_equal_int. cbn [lift rbind].
  change (ev ctx (EInt a4 1) s2) with (Done (int_const a4 1) s2). rewrite Hlit. cbn [rbind].
  rewrite Hstr. destruct (both_kind (RKNum KInt) (EBuiltin a3 BiCount [x; c]) (EInt a4 1)).
  - cbn. auto.
  - rewrite p_equal_int. cbn. auto.
Qed.

(* ---------------- 4. count(xs, p) = len(filter(xs, p)) ---------------- *)
Lemma index_list_ok l i : 0 <= i < Z.of_nat (List.length l) -> exists x, index_list l i = Ok x.
Proof.
  intros H. unfold index_list.
  destruct (i <? 0) eqn:E1; [apply Z.ltb_lt in E1; lia|].
  destruct (Z.of_nat (List.length l) <=? i) eqn:E2; [apply Z.leb_le in E2; lia|]. cbn [orb].
  destruct (nth_error l (Z.to_nat i)) eqn:E3; [eauto|].
  apply nth_error_None in E3. lia.
Qed.

Lemma fetch_arr_ok v n : arr_ok v -> p_length v = Ok n ->
  forall i, 0 <= i < n -> exists x, p_fetch v (vint i) false = Ok x.
Proof.
  intros Ha Hn i Hi. destruct v; try contradiction; cbn in Hn; inversion Hn; subst; [|lia].
  change (Z.of_nat (List.length l) <= max_of KInt) in Ha.
  cbn [p_fetch]. rewrite to_int_vint; [|rewrite min_int_val; lia]. cbn [bind].
  apply index_list_ok. exact Hi.
Qed.

Lemma str_len_nonneg s : 0 <= str_len s.
Proof. induction s; cbn [str_len]; lia. Qed.

Lemma length_nonneg v n : p_length v = Ok n -> 0 <= n.
Proof.
  destruct v as [| | | | | | | | | | |? w|]; cbn; intros H; try discriminate H; try (inversion H; lia).
  - inversion H. apply str_len_nonneg.
  - destruct w; try discriminate H. inversion H. apply str_len_nonneg.
Qed.

(* How the right side relates to a result of the left side: `filter` accounts its c result
   elements, so the allocation counter is higher by c, or - when that reaches the budget - the
   right side is refused (EBudget at the filter node lf) in the state the left side ends in. *)
Definition count_vs_len_filter (la lb : list loc) (lf : loc) (r1 r2 : result) : Prop :=
  match r1 with
  | Done v s1 => exists c, v = vint c /\
      r2 = if c_limit cfg <=? r_mem s1 + c then Stop EBudget lf s1 else Done (vint c) (add_mem c s1)
  | Stop e l s1 => res_agree la lb r1 r2
  end.

Theorem C18_count_len_filter ctx a1 a2 a3 x c s :
  (forall v s1, ev ctx x s = Done v s1 -> arr_ok v) ->
  count_vs_len_filter [aloc a1] [aloc a3] (aloc a3)
    (ev ctx (EBuiltin a1 BiCount [x; c]) s)
    (ev ctx (EBuiltin a2 BiLen [EBuiltin a3 BiFilter [x; c]]) s).
Proof.
  intros Harr. rewrite eval_len, eval_filter, eval_count. rewrite rbind_assoc.
  destruct (ev ctx x s) as [v s1|e l s1] eqn:Ex; cbn [rbind]; [|cbn; auto].
  specialize (Harr v s1 eq_refl). rewrite rbind_lift.
  destruct (p_length v) as [n|e] eqn:Hn; cbn [lift]; [|cbn; auto 6].
  rewrite filter_loop_rbind.
  (* generalised statement about the two loops *)
  set (body := fun i s' => ev ((v, i) :: ctx) c s').
  set (kc := fun (cnt : Z) (s2 : rstate) => Done (vint cnt) s2).
  set (kf := fun (xs : list value) (s2 : rstate) =>
         rbind (alloc cfg (aloc a3) (Z.of_nat (List.length xs)) s2 (fun s3 => Done (VArr TIface xs) s3))
               (fun v0 s0 => lift (aloc a2) s0 (p_length v0) (fun n0 => Done (vint n0) s0))).
  assert (G : forall m i cnt acc s0, 0 <= i -> i + Z.of_nat m <= n -> Z.of_nat (List.length acc) = cnt ->
            count_vs_len_filter [aloc a1] [aloc a3] (aloc a3)
              (count_loop body (aloc a1) m i cnt s0 kc)
              (filter_loop body (aloc a3) (fun i => p_fetch v (vint i) false) m i acc s0 kf)).
  { induction m as [|m IH]; intros i cnt acc s0 Hi Hm Hc; cbn [count_loop filter_loop].
    - unfold kc, kf, count_vs_len_filter, alloc, add_mem. exists cnt. split; [reflexivity|].
      rewrite rev_length, Hc. destruct (c_limit cfg <=? r_mem s0 + cnt); cbn; [reflexivity|].
      rewrite rev_length, Hc. reflexivity.
    - destruct (body i s0) as [b s2|e l s2]; cbn [rbind]; [|cbn; auto].
      destruct (as_bool b) as [[|]|e]; cbn [lift].
      + destruct (fetch_arr_ok v n Harr Hn i) as [y Hy]; [lia|]. rewrite Hy. cbn [lift].
        apply IH; [lia|lia|]. cbn [List.length]. lia.
      + apply IH; [lia|lia|exact Hc].
      + cbn. auto 6. }
  apply G; [lia| |reflexivity]. pose proof (length_nonneg v n Hn). lia.
Qed.

(* ---------------- 5. len(map(xs, f)) = len(xs) ---------------- *)
(* Exact form: len(map(xs, f)) evaluates xs, runs f on every element for its effects only
   (calls are logged, a failure of f is the failure of the whole), accounts n elements, and yields
   len(xs).  No side condition. *)
Theorem C18_len_map_eq ctx a1 a2 x c s :
  ev ctx (EBuiltin a1 BiLen [EBuiltin a2 BiMap [x; c]]) s =
  rbind (ev ctx x s) (fun v s1 => lift (aloc a2) s1 (p_length v) (fun n =>
    effects_loop (fun i s' => ev ((v, i) :: ctx) c s') (Z.to_nat n) 0 s1
      (fun s2 => alloc cfg (aloc a2) n s2 (fun s3 => Done (vint n) s3)))).
Proof.
  rewrite eval_len, eval_map, rbind_assoc. destruct (ev ctx x s) as [v s1|e l s1]; cbn [rbind]; [|reflexivity].
  rewrite rbind_lift. destruct (p_length v) as [n|e] eqn:Hn; cbn [lift]; [|reflexivity].
  rewrite map_loop_rbind. rewrite <- map_loop_effects with (acc := []).
  apply map_loop_ext. intros xs s2 Hx. unfold alloc.
  destruct (c_limit cfg <=? r_mem s2 + n); cbn [rbind]; [reflexivity|]. cbn [lift p_length].
  pose proof (length_nonneg v n Hn). cbn [List.length] in Hx. rewrite Hx.
  replace (Z.of_nat (0 + Z.to_nat n)) with n by lia. reflexivity.
Qed.

(* "len(map(xs, f)) = len(xs) when map succeeds" *)
Theorem C18_len_map ctx a1 a2 a3 x c s v s2 :
  ev ctx (EBuiltin a1 BiLen [EBuiltin a2 BiMap [x; c]]) s = Done v s2 ->
  exists s1, ev ctx (EBuiltin a3 BiLen [x]) s = Done v s1.
Proof.
  rewrite C18_len_map_eq, eval_len. destruct (ev ctx x s) as [xv s1|e l s1]; cbn [rbind]; [|discriminate].
  destruct (p_length xv) as [n|e]; cbn [lift]; [|discriminate]. intros H. exists s1.
  assert (G : forall m i s0, effects_loop (fun i s' => ev ((xv, i) :: ctx) c s') m i s0
                (fun s2 => alloc cfg (aloc a2) n s2 (fun s3 => Done (vint n) s3)) = Done v s2 -> v = vint n).
  { induction m as [|m IH]; intros i s0; cbn [effects_loop].
    - unfold alloc. destruct (c_limit cfg <=? r_mem s0 + n); [discriminate|]. intros E. inversion E. reflexivity.
    - destruct (ev ((xv, i) :: ctx) c s0); cbn [rbind]; [apply IH|discriminate]. }
  rewrite (G _ _ _ H). reflexivity.
Qed.

(* with an effect-free, total mapper and the budget not hit the two sides differ by the n
   accounted elements only *)
Theorem C18_len_map_pure ctx a1 a2 a3 x c s xv s1 n :
  ev ctx x s = Done xv s1 -> p_length xv = Ok n ->
  (forall i s', 0 <= i < n -> exists y, ev ((xv, i) :: ctx) c s' = Done y s') ->
  (c_limit cfg <=? r_mem s1 + n) = false ->
  ev ctx (EBuiltin a1 BiLen [EBuiltin a2 BiMap [x; c]]) s = Done (vint n) (add_mem n s1) /\
  ev ctx (EBuiltin a3 BiLen [x]) s = Done (vint n) s1.
Proof.
  intros Ex Hn Hp Hb. rewrite C18_len_map_eq, eval_len, Ex. cbn [rbind]. rewrite Hn. cbn [lift].
  pose proof (length_nonneg xv n Hn). split; [|reflexivity].
  rewrite effects_loop_pure.
  - unfold alloc. rewrite Hb. reflexivity.
  - intros j s' Hj. apply Hp. lia.
Qed.

(* ---------------- 6. filter keeps exactly the satisfying elements, in order ---------------- *)
Lemma fetch_nth t l i y : Z.of_nat (List.length l) <= max_of KInt -> nth_error l i = Some y ->
  p_fetch (VArr t l) (vint (Z.of_nat i)) false = Ok y.
Proof.
  intros Hl Hy. assert (Hi : (i < List.length l)%nat) by (apply nth_error_Some; congruence).
  cbn [p_fetch]. rewrite to_int_vint; [|rewrite min_int_val; lia]. cbn [bind]. unfold index_list.
  destruct (Z.of_nat i <? 0) eqn:E1; [apply Z.ltb_lt in E1; lia|].
  destruct (Z.of_nat (List.length l) <=? Z.of_nat i) eqn:E2; [apply Z.leb_le in E2; lia|]. cbn [orb].
  rewrite Nat2Z.id, Hy. reflexivity.
Qed.

(* For a predicate that is effect-free and total on the elements (pe = its truth value per
   element) the result is List.filter pe over the element list, as a fresh []interface{} whose
   elements are accounted. *)
Theorem C18_filter_spec ctx a x c s t l s1 (pe : value -> bool) :
  ev ctx x s = Done (VArr t l) s1 ->
  Z.of_nat (List.length l) <= max_of KInt ->
  (forall i y s', nth_error l i = Some y ->
       ev ((VArr t l, Z.of_nat i) :: ctx) c s' = Done (VBool (pe y)) s') ->
  ev ctx (EBuiltin a BiFilter [x; c]) s =
  alloc cfg (aloc a) (Z.of_nat (List.length (List.filter pe l))) s1
        (fun s3 => Done (VArr TIface (List.filter pe l)) s3).
Proof.
  intros Ex Hl Hp. rewrite eval_filter, Ex. cbn [rbind p_length lift]. rewrite Nat2Z.id.
  set (k := fun (xs : list value) (s2 : rstate) =>
              alloc cfg (aloc a) (Z.of_nat (List.length xs)) s2 (fun s3 => Done (VArr TIface xs) s3)).
  assert (G : forall l2 l1 acc s0, l = l1 ++ l2 ->
     filter_loop (fun i s' => ev ((VArr t l, i) :: ctx) c s') (aloc a)
       (fun i => p_fetch (VArr t l) (vint i) false) (List.length l2) (Z.of_nat (List.length l1)) acc s0 k
     = k (rev acc ++ List.filter pe l2) s0).
  { induction l2 as [|y l2 IH]; intros l1 acc s0 El; cbn [List.length filter_loop List.filter].
    - rewrite app_nil_r. reflexivity.
    - assert (Hy : nth_error l (List.length l1) = Some y).
      { rewrite El, nth_error_app2, Nat.sub_diag; [reflexivity|lia]. }
      rewrite (Hp _ _ s0 Hy). cbn [rbind as_bool lift].
      replace (Z.of_nat (List.length l1) + 1) with (Z.of_nat (List.length (l1 ++ [y])))
        by (rewrite app_length; cbn [List.length]; lia).
      destruct (pe y).
      + rewrite (fetch_nth t l _ y Hl Hy). cbn [lift]. rewrite IH.
        * cbn [rev]. rewrite <- app_assoc. reflexivity.
        * rewrite <- app_assoc. exact El.
      + rewrite IH; [reflexivity|]. rewrite <- app_assoc. exact El. }
  apply (G l [] [] s1). reflexivity.
Qed.

(* ---------------- 7. a closure sees the element of its own innermost collection ------------- *)
(* (a) `#` reads the HEAD frame of ctx and nothing else *)
Theorem C18_pointer_innermost v i outer1 outer2 a s :
  ev ((v, i) :: outer1) (EPointer a) s = ev ((v, i) :: outer2) (EPointer a) s /\
  ev ((v, i) :: outer1) (EPointer a) s = lift (aloc a) s (p_fetch v (vint i) false) (fun x => Done x s).
Proof. split; reflexivity. Qed.

(* (b) every looping builtin evaluates its closure ONLY through
       fun i s' => eval ((own collection, i) :: ctx) closure s'   (F does not see ctx or c) *)
Definition is_loop_builtin (b : builtin) : bool :=
  match b with BiAll | BiNone | BiAny | BiOne | BiFilter | BiMap | BiCount => true | _ => false end.

Theorem C18_closure_frame a b : is_loop_builtin b = true ->
  exists F : value -> rstate -> (Z -> rstate -> result) -> result,
  forall ctx x c s,
    ev ctx (EBuiltin a b [x; c]) s =
    rbind (ev ctx x s) (fun v s1 => F v s1 (fun i s' => ev ((v, i) :: ctx) c s')).
Proof.
  destruct b; intros H; try discriminate H.
  - exists (fun v s1 body => lift (aloc a) s1 (p_length v) (fun n => all_loop body (aloc a) (Z.to_nat n) 0 s1)).
    reflexivity.
  - exists (fun v s1 body => lift (aloc a) s1 (p_length v) (fun n => none_loop body (aloc a) (Z.to_nat n) 0 s1)).
    reflexivity.
  - exists (fun v s1 body => lift (aloc a) s1 (p_length v) (fun n => any_loop body (aloc a) (Z.to_nat n) 0 s1)).
    reflexivity.
  - exists (fun v s1 body => lift (aloc a) s1 (p_length v) (fun n =>
      count_loop body (aloc a) (Z.to_nat n) 0 0 s1
        (fun cnt s2 => lift (aloc a) s2 (p_equal (vint cnt) (vint 1)) (fun r => Done r s2)))).
    reflexivity.
  - exists (fun v s1 body => lift (aloc a) s1 (p_length v) (fun n =>
      filter_loop body (aloc a) (fun i => p_fetch v (vint i) false) (Z.to_nat n) 0 [] s1
        (fun xs s2 => alloc cfg (aloc a) (Z.of_nat (List.length xs)) s2 (fun s3 => Done (VArr TIface xs) s3)))).
    reflexivity.
  - exists (fun v s1 body => lift (aloc a) s1 (p_length v) (fun n =>
      map_loop body (Z.to_nat n) 0 [] s1
        (fun xs s2 => alloc cfg (aloc a) n s2 (fun s3 => Done (VArr TIface xs) s3)))).
    reflexivity.
  - exists (fun v s1 body => lift (aloc a) s1 (p_length v) (fun n =>
      count_loop body (aloc a) (Z.to_nat n) 0 0 s1 (fun cnt s2 => Done (vint cnt) s2))).
    reflexivity.
Qed.

(* (c) ANY expression, with closures nested to ANY depth inside it: its evaluation depends on the
   head frame of ctx only.  So the body of a closure is blind to every outer collection / index,
   however deep the nesting: a counter or element of an enclosing loop cannot leak into it. *)
Lemma rbind_ext r1 r2 f g : r1 = r2 -> (forall v s, f v s = g v s) -> rbind r1 f = rbind r2 g.
Proof. intros -> H. destruct r2; cbn; auto. Qed.

Lemma lift_ext {A} l s (o : outcome A) k1 k2 : (forall a, k1 a = k2 a) -> lift l s o k1 = lift l s o k2.
Proof. intros H. destruct o; cbn; auto. Qed.

Section LoopExt.
Variables b1 b2 : Z -> rstate -> result.
Hypothesis Hb : forall i s, b1 i s = b2 i s.

Lemma all_loop_ext l n : forall i s, all_loop b1 l n i s = all_loop b2 l n i s.
Proof.
  induction n as [|n IH]; intros; cbn [all_loop]; [reflexivity|].
  apply rbind_ext; [apply Hb|]. intros v s1. apply lift_ext. intros [|]; [apply IH|reflexivity].
Qed.
Lemma none_loop_ext l n : forall i s, none_loop b1 l n i s = none_loop b2 l n i s.
Proof.
  induction n as [|n IH]; intros; cbn [none_loop]; [reflexivity|].
  apply rbind_ext; [apply Hb|]. intros v s1. apply lift_ext. intros [|]; [reflexivity|apply IH].
Qed.
Lemma any_loop_ext l n : forall i s, any_loop b1 l n i s = any_loop b2 l n i s.
Proof.
  induction n as [|n IH]; intros; cbn [any_loop]; [reflexivity|].
  apply rbind_ext; [apply Hb|]. intros v s1. apply lift_ext. intros [|]; [reflexivity|apply IH].
Qed.
Lemma count_loop_ext l n : forall i c s k, count_loop b1 l n i c s k = count_loop b2 l n i c s k.
Proof.
  induction n as [|n IH]; intros; cbn [count_loop]; [reflexivity|].
  apply rbind_ext; [apply Hb|]. intros v s1. apply lift_ext. intros b. apply IH.
Qed.
Lemma filter_loop_ext l elem n : forall i acc s k,
  filter_loop b1 l elem n i acc s k = filter_loop b2 l elem n i acc s k.
Proof.
  induction n as [|n IH]; intros; cbn [filter_loop]; [reflexivity|].
  apply rbind_ext; [apply Hb|]. intros v s1. apply lift_ext. intros [|]; [|apply IH].
  apply lift_ext. intros y. apply IH.
Qed.
Lemma map_loop_ext_body n : forall i acc s k, map_loop b1 n i acc s k = map_loop b2 n i acc s k.
Proof.
  induction n as [|n IH]; intros; cbn [map_loop]; [reflexivity|].
  apply rbind_ext; [apply Hb|]. intros v s1. apply IH.
Qed.
End LoopExt.

(* the two local recursions of `eval`, named *)
Definition eval_list' (ctx : list (value * Z)) :=
  fix eval_list (es : list expr) (s : rstate) (k : list value -> rstate -> result) : result :=
    match es with
    | [] => k [] s
    | x :: r => rbind (ev ctx x s) (fun v s1 => eval_list r s1 (fun vs s2 => k (v :: vs) s2))
    end.

Definition eval_pairs' (ctx : list (value * Z)) (here : loc) :=
  fix eval_pairs (ps : list expr) (s : rstate) (k : list (value * value) -> rstate -> result) : result :=
    match ps with
    | [] => k [] s
    | EPair _ kx vx :: r =>
        rbind (ev ctx kx s) (fun vk s1 => rbind (ev ctx vx s1) (fun vv s2 =>
        eval_pairs r s2 (fun kvs s3 => k ((vk, vv) :: kvs) s3)))
    | _ :: _ => Stop EOther here s
    end.

Lemma eval_list_ext ctx1 ctx2 es :
  (forall x, In x es -> forall s, ev ctx1 x s = ev ctx2 x s) ->
  forall s k, eval_list' ctx1 es s k = eval_list' ctx2 es s k.
Proof.
  induction es as [|x r IH]; intros H s k; cbn [eval_list']; [reflexivity|].
  apply rbind_ext; [apply H; left; reflexivity|]. intros v s1. apply IH.
  intros y Hy. apply H. right. exact Hy.
Qed.

Lemma eval_pairs_ext ctx1 ctx2 here ps :
  (forall a kx vx, In (EPair a kx vx) ps ->
      (forall s, ev ctx1 kx s = ev ctx2 kx s) /\ (forall s, ev ctx1 vx s = ev ctx2 vx s)) ->
  forall s k, eval_pairs' ctx1 here ps s k = eval_pairs' ctx2 here ps s k.
Proof.
  induction ps as [|p r IH]; intros H s k; cbn [eval_pairs']; [reflexivity|].
  destruct p; try reflexivity.
  destruct (H a p1 p2 (or_introl eq_refl)) as [Hk Hv].
  apply rbind_ext; [apply Hk|]. intros vk s1. apply rbind_ext; [apply Hv|]. intros vv s2.
  apply IH. intros a' kx vx Hin. apply (H a' kx vx). right. exact Hin.
Qed.

Lemma lsize_in x es : In x es -> (esize x <= lsize es)%nat.
Proof.
  induction es as [|y r IH]; intros H; [contradiction|]. cbn [lsize]. destruct H as [->|H]; [lia|].
  specialize (IH H). lia.
Qed.

Lemma esize_method a x nm args ns : esize (EMethod a x nm args ns) = S (esize x + lsize args).
Proof. reflexivity. Qed.
Lemma esize_function a nm args f : esize (EFunction a nm args f) = S (lsize args).
Proof. reflexivity. Qed.
Lemma esize_builtin a b args : esize (EBuiltin a b args) = S (lsize args).
Proof. reflexivity. Qed.
Lemma esize_array a es : esize (EArray a es) = S (lsize es).
Proof. reflexivity. Qed.
Lemma esize_map a es : esize (EMap a es) = S (lsize es).
Proof. reflexivity. Qed.
Lemma esize_pair a k v : esize (EPair a k v) = S (esize k + esize v).
Proof. reflexivity. Qed.

Ltac ext_step IH Hh :=
  first
  [ reflexivity
  | apply IH; [lia | first [exact Hh | reflexivity]]
  | apply rbind_ext; [ | intros ? ? ]
  | apply lift_ext; intros ?
  | match goal with |- (if ?b then _ else _) = (if ?b then _ else _) => destruct b end
  | match goal with |- match ?x with _ => _ end = match ?x with _ => _ end => destruct x end ].

Lemma eval_head_only : forall n e, (esize e <= n)%nat ->
  forall ctx1 ctx2 s, hd_error ctx1 = hd_error ctx2 -> ev ctx1 e s = ev ctx2 e s.
Proof.
  induction n as [|n IH]; intros e Hs ctx1 ctx2 s Hh.
  { destruct e; cbn [esize] in Hs; lia. }
  destruct e.
  - reflexivity.
  - reflexivity.
  - reflexivity.
  - reflexivity.
  - reflexivity.
  - reflexivity.
  - reflexivity.
  - (* EUnary *) cbn [esize] in Hs. cbn [eval]. repeat ext_step IH Hh.
  - (* EBinary *) cbn [esize] in Hs. cbn [eval]. destruct op; repeat ext_step IH Hh.
  - (* EMatches *) cbn [esize] in Hs. cbn [eval]. destruct re; repeat ext_step IH Hh.
  - (* EProperty *) cbn [esize] in Hs. cbn [eval]. repeat ext_step IH Hh.
  - (* EIndex *) cbn [esize] in Hs. cbn [eval]. repeat ext_step IH Hh.
  - (* ESlice *) cbn [esize] in Hs. cbn [eval]. destruct from, to; repeat ext_step IH Hh.
  - (* EMethod *) rewrite esize_method in Hs. cbn [eval].
    apply rbind_ext; [apply IH; [lia|exact Hh]|]. intros v s1.
    apply (eval_list_ext ctx1 ctx2 args). intros y Hy s'. pose proof (lsize_in y args Hy).
    apply IH; [lia|exact Hh].
  - (* EFunction *) rewrite esize_function in Hs. cbn [eval].
    apply (eval_list_ext ctx1 ctx2 args). intros y Hy s'. pose proof (lsize_in y args Hy).
    apply IH; [lia|exact Hh].
  - (* EBuiltin *) rewrite esize_builtin in Hs. cbn [eval].
    destruct b; destruct args as [|x [|c [|d r]]]; try reflexivity; cbn [lsize] in Hs;
      (apply rbind_ext; [apply IH; [lia|exact Hh]|]); intros v s1; apply lift_ext; intros m;
      try reflexivity.
    + apply all_loop_ext. intros i s'. apply IH; [lia|reflexivity].
    + apply none_loop_ext. intros i s'. apply IH; [lia|reflexivity].
    + apply any_loop_ext. intros i s'. apply IH; [lia|reflexivity].
    + apply count_loop_ext. intros i s'. apply IH; [lia|reflexivity].
    + apply filter_loop_ext. intros i s'. apply IH; [lia|reflexivity].
    + apply map_loop_ext_body. intros i s'. apply IH; [lia|reflexivity].
    + apply count_loop_ext. intros i s'. apply IH; [lia|reflexivity].
  - (* EClosure *) cbn [esize] in Hs. cbn [eval]. apply IH; [lia|exact Hh].
  - (* EPointer *) cbn [eval]. destruct ctx1 as [|[v1 i1] r1], ctx2 as [|[v2 i2] r2]; cbn in Hh;
      try discriminate Hh; [reflexivity|]. inversion Hh. reflexivity.
  - (* ECond *) cbn [esize] in Hs. cbn [eval]. repeat ext_step IH Hh.
  - (* EArray *) rewrite esize_array in Hs. cbn [eval].
    apply (eval_list_ext ctx1 ctx2 es). intros y Hy s'. pose proof (lsize_in y es Hy).
    apply IH; [lia|exact Hh].
  - (* EMap *) rewrite esize_map in Hs. cbn [eval].
    apply (eval_pairs_ext ctx1 ctx2 (loc_of (EMap a pairs)) pairs). intros a' kx vx Hin.
    pose proof (lsize_in _ pairs Hin) as Hsz. rewrite esize_pair in Hsz.
    split; intros s'; apply IH; try lia; exact Hh.
  - reflexivity.
Qed.

Theorem C18_innermost e v i outer1 outer2 s :
  ev ((v, i) :: outer1) e s = ev ((v, i) :: outer2) e s.
Proof. apply (eval_head_only (esize e) e (le_n _)). reflexivity. Qed.

(* ---------------- 8. x in a..b  =  a <= x and x <= b   (integer-kinded x) ---------------- *)
(* The generated comparison helpers carry out `e == x`, `x >= a`, `x <= b` for x of integer kind k
   and Go ints e, a, b in the kind cmp_kind k, on the operand value xnorm k x.  (Table entries of
   coq/gen/GenHelpers.v, regenerated from vm/helpers.go; evaluated here by computation.) *)
Definition cmp_kind (k : kind) : kind :=
  match k with KInt8 => KInt8 | KInt16 => KInt16 | KInt32 => KInt32 | KInt64 => KInt64 | _ => KInt end.

Definition xnorm (k : kind) (x : Z) : Z :=
  match k with
  | KUint | KUint8 | KUint16 | KUint32 | KUint64 => wrap KInt x
  | _ => x
  end.

Lemma cmp_kind_int k : is_intkind (cmp_kind k) = true.
Proof. destruct k; reflexivity. Qed.

Local Opaque wrap.

Lemma helper_facts k x e : is_intkind k = true -> in_range (cmp_kind k) e = true ->
  p_equal (vint e) (VNum (NInt k x)) = Ok (VBool (e =? xnorm k x)) /\
  p_helper HMoreOrEqual (VNum (NInt k x)) (vint e) = Ok (VBool (e <=? xnorm k x)) /\
  p_helper HLessOrEqual (VNum (NInt k x)) (vint e) = Ok (VBool (xnorm k x <=? e)).
Proof.
  intros Hk He. pose proof (wrap_in_range (cmp_kind k) e (cmp_kind_int k) He) as Hw.
  destruct k; try discriminate Hk; cbn [cmp_kind] in Hw;
    unfold p_equal, p_helper, vint, helper_num; cbn; rewrite ?Hw; repeat split; reflexivity.
Qed.

Local Transparent wrap.

Lemma p_in_cons needle t y r :
  p_in needle (VArr t (y :: r)) =
  bind (p_equal y needle) (fun e =>
    match e with VBool true => Ok true | VBool false => p_in needle (VArr t r) | _ => Fail EIfaceConv end).
Proof. reflexivity. Qed.

Lemma p_in_range_list needle x' t : forall n lo,
  (forall e, lo <= e < lo + Z.of_nat n -> p_equal (vint e) needle = Ok (VBool (e =? x'))) ->
  p_in needle (VArr t (range_list lo n)) = Ok ((lo <=? x') && (x' <? lo + Z.of_nat n)).
Proof.
  induction n as [|n IH]; intros lo H.
  - cbn [range_list p_in]. destruct (Z.leb_spec lo x'), (Z.ltb_spec x' (lo + Z.of_nat 0)); cbn; try reflexivity; lia.
  - cbn [range_list]. rewrite p_in_cons, H by lia. cbn [bind].
    destruct (Z.eqb_spec lo x') as [E|E].
    + destruct (Z.leb_spec lo x'), (Z.ltb_spec x' (lo + Z.of_nat (S n))); cbn; try reflexivity; lia.
    + rewrite IH by (intros e He; apply H; lia).
      destruct (Z.leb_spec lo x'), (Z.leb_spec (lo + 1) x'), (Z.ltb_spec x' (lo + 1 + Z.of_nat n)),
        (Z.ltb_spec x' (lo + Z.of_nat (S n))); cbn; try reflexivity; lia.
Qed.

Lemma in_range_mono k lo hi e : in_range k lo = true -> in_range k hi = true -> lo <= e <= hi -> in_range k e = true.
Proof.
  unfold in_range. intros H1 H2 He. apply andb_prop in H1. apply andb_prop in H2.
  destruct H1 as [H1 _], H2 as [_ H2]. apply Z.leb_le in H1. apply Z.leb_le in H2.
  apply andb_true_intro. split; apply Z.leb_le; lia.
Qed.

(* value level: membership in the range a..b is the two-sided comparison, by the same helpers
   the operators >= and <= use.  Side condition: the bounds are representable in the kind in which
   the helpers compare (always true for x of kind int, int64 and the unsigned kinds, where it says
   no more than "a and b are Go ints"). *)
Theorem C18_in_range k x a b :
  is_intkind k = true ->
  in_range (cmp_kind k) a = true -> in_range (cmp_kind k) b = true ->
  exists r1 r2,
    p_helper HMoreOrEqual (VNum (NInt k x)) (vint a) = Ok (VBool r1) /\
    p_helper HLessOrEqual (VNum (NInt k x)) (vint b) = Ok (VBool r2) /\
    p_in (VNum (NInt k x)) (make_range a b) = Ok (r1 && r2).
Proof.
  intros Hk Ha Hb. exists (a <=? xnorm k x), (xnorm k x <=? b).
  destruct (helper_facts k x a Hk Ha) as (_ & Hge & _).
  destruct (helper_facts k x b Hk Hb) as (_ & _ & Hle).
  split; [exact Hge|]. split; [exact Hle|]. unfold make_range.
  destruct (Z.ltb_spec b a) as [Hlt|Hle'].
  - cbn [p_in]. destruct (Z.leb_spec a (xnorm k x)), (Z.leb_spec (xnorm k x) b); cbn; try reflexivity; lia.
  - rewrite (p_in_range_list _ (xnorm k x)).
    + rewrite Z2Nat.id by lia.
      destruct (Z.leb_spec a (xnorm k x)), (Z.leb_spec (xnorm k x) b), (Z.ltb_spec (xnorm k x) (a + (b - a + 1)));
        cbn; try reflexivity; lia.
    + intros e He. rewrite Z2Nat.id in He by lia.
      apply (helper_facts k x e Hk). apply (in_range_mono _ a b); [exact Ha|exact Hb|lia].
Qed.

(* The side condition cannot be dropped for the narrow signed kinds: vm/helpers.go converts the
   int operand to int8 (known finding C14-rank), so 156 == int8(-100) holds and
   int8(-100) in 100..200 is true although int8(-100) >= 100 is false. *)
Definition C18_in_range_full_statement : Prop :=
  forall k x a b, is_intkind k = true -> in_range k x = true -> in_range KInt a = true -> in_range KInt b = true ->
  exists r1 r2,
    p_helper HMoreOrEqual (VNum (NInt k x)) (vint a) = Ok (VBool r1) /\
    p_helper HLessOrEqual (VNum (NInt k x)) (vint b) = Ok (VBool r2) /\
    p_in (VNum (NInt k x)) (make_range a b) = Ok (r1 && r2).

Theorem C18_in_range_full_statement_refuted : ~ C18_in_range_full_statement.
Proof.
  intros H. destruct (H KInt8 (-100) 100 200 eq_refl eq_refl eq_refl eq_refl) as (r1 & r2 & H1 & H2 & H3).
  vm_compute in H1. vm_compute in H2. vm_compute in H3.
  inversion H1. inversion H2. subst. discriminate H3.
Qed.

(* expression level, for effect-free operands: both sides yield the same boolean; the left side
   additionally accounts the elements of the range *)
Lemma eval_in ctx a l r s :
  ev ctx (EBinary a BIn l r) s =
  rbind (ev ctx l s) (fun va s1 => rbind (ev ctx r s1) (fun vb s2 =>
    lift (aloc a) s2 (p_in va vb) (fun b => Done (VBool b) s2))).
Proof. reflexivity. Qed.

Lemma eval_range ctx a l r s :
  ev ctx (EBinary a BRange l r) s =
  rbind (ev ctx l s) (fun va s1 => rbind (ev ctx r s1) (fun vb s2 =>
    lift (aloc a) s2 (to_int va) (fun lo => lift (aloc a) s2 (to_int vb) (fun hi =>
      match range_size lo hi with
      | None => Stop EBudget (aloc a) s2
      | Some n => alloc cfg (aloc a) n s2 (fun s3 => Done (make_range lo hi) s3)
      end)))).
Proof. reflexivity. Qed.

Lemma eval_and ctx a l r s :
  ev ctx (EBinary a BAndWord l r) s =
  rbind (ev ctx l s) (fun va s1 => lift (aloc a) s1 (as_bool va) (fun b => if b then ev ctx r s1 else Done va s1)).
Proof. reflexivity. Qed.

Lemma eval_ge ctx a l r s :
  ev ctx (EBinary a BGe l r) s =
  rbind (ev ctx l s) (fun va s1 => rbind (ev ctx r s1) (fun vb s2 =>
    lift (aloc a) s2 (p_helper HMoreOrEqual va vb) (fun v => Done v s2))).
Proof. reflexivity. Qed.

Lemma eval_le ctx a l r s :
  ev ctx (EBinary a BLe l r) s =
  rbind (ev ctx l s) (fun va s1 => rbind (ev ctx r s1) (fun vb s2 =>
    lift (aloc a) s2 (p_helper HLessOrEqual va vb) (fun v => Done v s2))).
Proof. reflexivity. Qed.

Definition range_count (a b : Z) : Z := if b <? a then 0 else b - a + 1.

Theorem C18_in_range_eval ctx a1 a2 a3 a4 a5 X A B k x a b s :
  (forall s', ev ctx X s' = Done (VNum (NInt k x)) s') ->
  (forall s', ev ctx A s' = Done (vint a) s') ->
  (forall s', ev ctx B s' = Done (vint b) s') ->
  is_intkind k = true ->
  in_range KInt a = true -> in_range KInt b = true ->
  in_range (cmp_kind k) a = true -> in_range (cmp_kind k) b = true ->
  range_count a b <= max_of KInt ->
  (c_limit cfg <=? r_mem s + range_count a b) = false ->
  exists r : bool,
    ev ctx (EBinary a1 BIn X (EBinary a2 BRange A B)) s = Done (VBool r) (add_mem (range_count a b) s) /\
    ev ctx (EBinary a3 BAndWord (EBinary a4 BGe X A) (EBinary a5 BLe X B)) s = Done (VBool r) s.
Proof.
  intros HX HA HB Hk Hai Hbi Ha Hb Hcnt Hlim.
  destruct (C18_in_range k x a b Hk Ha Hb) as (r1 & r2 & Hge & Hle & Hin).
  exists (r1 && r2). split.
  - rewrite eval_in, HX. cbn [rbind]. rewrite eval_range, HA. cbn [rbind]. rewrite HB. cbn [rbind].
    unfold in_range in Hai, Hbi. apply andb_prop in Hai. apply andb_prop in Hbi.
    destruct Hai as [Ha1 Ha2], Hbi as [Hb1 Hb2].
    apply Z.leb_le in Ha1. apply Z.leb_le in Ha2. apply Z.leb_le in Hb1. apply Z.leb_le in Hb2.
    rewrite (to_int_vint a), (to_int_vint b) by lia. cbn [lift].
    unfold range_size, range_count in *. rewrite max_int_val, min_int_val in *.
    destruct (b <? a).
    + unfold alloc. rewrite Hlim. cbn [rbind]. rewrite Hin. reflexivity.
    + destruct (Z.leb_spec (b - a + 1) 9223372036854775807) as [Hs|Hs].
      * unfold alloc. rewrite Hlim. cbn [rbind]. rewrite Hin. reflexivity.
      * exfalso. lia.
  - rewrite eval_and, eval_ge, HX. cbn [rbind]. rewrite HA. cbn [rbind]. rewrite Hge. cbn [lift rbind as_bool].
    destruct r1; cbn [andb]; [|reflexivity].
    rewrite eval_le, HX. cbn [rbind]. rewrite HB. cbn [rbind]. rewrite Hle. reflexivity.
Qed.

(* ---------------- 9. slicing at i partitions a sequence ---------------- *)
Lemma p_slice_arr e l a b : min_of KInt <= a <= max_of KInt -> min_of KInt <= b <= max_of KInt ->
  p_slice (VArr e l) (vint a) (vint b) =
  let '(a', b') := clamp_slice (Z.of_nat (List.length l)) a b in
  if a' <? 0 then Fail EIndexRange
  else Ok (VArr e (firstn (Z.to_nat (b' - a')) (skipn (Z.to_nat a') l))).
Proof. intros Ha Hb. cbn [p_slice]. rewrite (to_int_vint a Ha), (to_int_vint b Hb). reflexivity. Qed.

(* For every array and every 0 <= i (also i > len): xs[0:i] ++ xs[i:len] = xs, the first part
   has min(i, len) elements. *)
Theorem C18_slice_partition e l i :
  0 <= i <= max_of KInt -> Z.of_nat (List.length l) <= max_of KInt ->
  p_slice (VArr e l) (vint 0) (vint i) = Ok (VArr e (firstn (Z.to_nat i) l)) /\
  p_slice (VArr e l) (vint i) (vint (Z.of_nat (List.length l))) = Ok (VArr e (skipn (Z.to_nat i) l)) /\
  firstn (Z.to_nat i) l ++ skipn (Z.to_nat i) l = l.
Proof.
  intros Hi Hl. pose proof min_int_val as Hmin. split; [|split].
  - rewrite p_slice_arr by lia. unfold clamp_slice.
    destruct (Z.ltb_spec (Z.of_nat (List.length l)) i) as [H|H].
    + destruct (Z.ltb_spec (Z.of_nat (List.length l)) 0); [lia|]. cbn [Z.ltb Z.compare].
      rewrite Z.sub_0_r, Nat2Z.id. cbn [Z.to_nat skipn].
      rewrite firstn_all, firstn_all2 by lia. reflexivity.
    + destruct (Z.ltb_spec i 0); [lia|]. cbn [Z.ltb Z.compare]. rewrite Z.sub_0_r. reflexivity.
  - rewrite p_slice_arr by lia. unfold clamp_slice. rewrite Z.ltb_irrefl.
    destruct (Z.ltb_spec (Z.of_nat (List.length l)) i) as [H|H].
    + destruct (Z.ltb_spec (Z.of_nat (List.length l)) 0); [lia|].
      rewrite Z.sub_diag, Nat2Z.id. cbn [Z.to_nat firstn].
      rewrite skipn_all2 by lia. reflexivity.
    + destruct (Z.ltb_spec i 0); [lia|].
      rewrite firstn_all2; [reflexivity|]. rewrite skipn_length. lia.
  - apply firstn_skipn.
Qed.

(* a negative split point makes both halves fail, with the same class *)
Theorem C18_slice_negative e l i :
  min_of KInt <= i < 0 -> Z.of_nat (List.length l) <= max_of KInt ->
  p_slice (VArr e l) (vint 0) (vint i) = Fail EIndexRange /\
  p_slice (VArr e l) (vint i) (vint (Z.of_nat (List.length l))) = Fail EIndexRange.
Proof.
  intros Hi Hl. pose proof min_int_val as Hmin. pose proof max_int_val as Hmax. split.
  - rewrite p_slice_arr by lia. unfold clamp_slice.
    destruct (Z.ltb_spec (Z.of_nat (List.length l)) i); [lia|].
    destruct (Z.ltb_spec i 0); [|lia]. destruct (Z.ltb_spec i 0); [reflexivity|lia].
  - rewrite p_slice_arr by lia. unfold clamp_slice. rewrite Z.ltb_irrefl.
    destruct (Z.ltb_spec (Z.of_nat (List.length l)) i); [lia|].
    destruct (Z.ltb_spec i 0); [reflexivity|lia].
Qed.

Lemma eval_slice_to ctx a x I s :
  ev ctx (ESlice a x None (Some I)) s =
  rbind (ev ctx x s) (fun v s1 => rbind (ev ctx I s1) (fun vto s2 =>
    lift (aloc a) s2 (p_slice v (vint 0) vto) (fun r => Done r s2))).
Proof. reflexivity. Qed.

Lemma eval_slice_from ctx a x I s :
  ev ctx (ESlice a x (Some I) None) s =
  rbind (ev ctx x s) (fun v s1 =>
    rbind (lift (aloc a) s1 (p_length v) (fun n => Done (vint n) s1)) (fun vto s2 =>
    rbind (ev ctx I s2) (fun vfrom s3 => lift (aloc a) s3 (p_slice v vfrom vto) (fun r => Done r s3)))).
Proof. reflexivity. Qed.

(* expression level: xs[:I] and xs[I:] for effect-free xs, I *)
Theorem C18_slice_partition_eval ctx a1 a2 x I e l i s :
  (forall s', ev ctx x s' = Done (VArr e l) s') ->
  (forall s', ev ctx I s' = Done (vint i) s') ->
  0 <= i <= max_of KInt -> Z.of_nat (List.length l) <= max_of KInt ->
  exists l1 l2,
    ev ctx (ESlice a1 x None (Some I)) s = Done (VArr e l1) s /\
    ev ctx (ESlice a2 x (Some I) None) s = Done (VArr e l2) s /\
    l1 ++ l2 = l /\ Z.of_nat (List.length l1) = Z.min i (Z.of_nat (List.length l)).
Proof.
  intros Hx HI Hi Hl. destruct (C18_slice_partition e l i Hi Hl) as (H1 & H2 & H3).
  exists (firstn (Z.to_nat i) l), (skipn (Z.to_nat i) l). split; [|split; [|split]].
  - rewrite eval_slice_to, Hx. cbn [rbind]. rewrite HI. cbn [rbind]. rewrite H1. reflexivity.
  - rewrite eval_slice_from, Hx. cbn [rbind p_length lift]. rewrite HI. cbn [rbind]. rewrite H2. reflexivity.
  - exact H3.
  - rewrite firstn_length. lia.
Qed.

End EvalProofs.

(* ------------------------------------------------------------------------------------------ *)
(* Non-vacuity: a concrete environment with a logging function, evaluated by vm_compute.        *)
Module C18Examples.
Open Scope string_scope.
Open Scope Z_scope.

Definition ex_fe : fenv :=
  mkFenv (fun id => if String.eqb id "IsPos" then Some (mkSig [TNum KInt] false 1 false) else None)
         (fun id _ args => match args with [VNum (NInt KInt a)] => Ok (VBool (0 <? a)) | _ => Fail EOther end)
         (fun _ _ _ => None) (fun _ _ => None) (fun _ _ => PrimFloat.nan).
Definition ex_cfg : config := mkCfg false 1000000.
Definition ints (l : list Z) : value := VArr (TNum KInt) (List.map vint l).
Definition ex_env : value :=
  VStruct "Env" true
    [("AI", ints [1; -2; 3; 4]);
     ("NN", VArr TIface [ints [1; -1]; ints [2; 3; 0]; ints []]);
     ("I8", VNum (NInt KInt8 (-100)));
     ("IsPos", VFunc "IsPos" (TFunc [TNum KInt] false [TBool]))].
Definition A (c : Z) (k : rkind) : ann := mkAnn (1, c) k.
Definition ai := EIdent (A 4 RKSlice) "AI" false.
Definition is_pos_ptr := EFunction (A 9 RKBool) "IsPos" [EPointer (A 15 RKInvalid)] false.   (* IsPos(#) *)
Definition gt1 := EBinary (A 11 RKBool) BGt (EPointer (A 9 RKInvalid)) (EInt (A 13 (RKNum KInt)) 1). (* # > 1 *)
Definition run (e : expr) : result := eval ex_fe ex_cfg ex_env [] e rs0.

(* all(AI, {IsPos(#)}) and not any(AI, {not IsPos(#)}): false, both after the calls IsPos(1), IsPos(-2) *)
Example ex_all_any :
  run (EBuiltin (A 0 RKBool) BiAll [ai; EClosure (A 8 RKBool) is_pos_ptr]) =
    Done (VBool false) (mkRS 0 [("IsPos", [vint 1]); ("IsPos", [vint (-2)])]) /\
  run (EUnary (A 0 RKBool) UNotWord (EBuiltin (A 4 RKBool) BiAny
        [ai; EClosure (A 12 RKBool) (EUnary (A 13 RKBool) UNotWord is_pos_ptr)])) =
    Done (VBool false) (mkRS 0 [("IsPos", [vint 1]); ("IsPos", [vint (-2)])]).
Proof. vm_compute. split; reflexivity. Qed.

(* a non-boolean predicate: both sides fail with the same class in the same state, at their own nodes *)
Example ex_all_any_nonbool :
  run (EBuiltin (A 0 RKBool) BiAll [ai; EClosure (A 8 RKBool) (EPointer (A 9 RKInvalid))]) =
    Stop EIfaceConv (1, 0) rs0 /\
  run (EUnary (A 0 RKBool) UNotWord (EBuiltin (A 4 RKBool) BiAny
        [ai; EClosure (A 12 RKBool) (EUnary (A 13 RKBool) UNotWord (EPointer (A 17 RKInvalid)))])) =
    Stop EIfaceConv (1, 13) rs0.
Proof. vm_compute. split; reflexivity. Qed.

(* one / count == 1: the hypotheses of C18_one_count_eq_1 hold for the checker's annotations *)
Example ex_one_hyps :
  int_const (A 20 (RKNum KInt)) 1 = vint 1 /\
  both_kind RKString (EBuiltin (A 0 (RKNum KInt)) BiCount [ai; EClosure (A 8 RKBool) gt1]) (EInt (A 20 (RKNum KInt)) 1) = false /\
  run (EBuiltin (A 0 RKBool) BiOne [ai; EClosure (A 8 RKBool) gt1]) = Done (VBool false) rs0 /\
  run (EBuiltin (A 0 (RKNum KInt)) BiCount [ai; EClosure (A 8 RKBool) gt1]) = Done (vint 2) rs0.
Proof. vm_compute. repeat split; reflexivity. Qed.

(* count / len(filter): the collection is an array; count = 2, len(filter) = 2 with 2 elements accounted *)
Example ex_count_filter_hyp : forall v s1, eval ex_fe ex_cfg ex_env [] ai rs0 = Done v s1 -> arr_ok v.
Proof. intros v s1 H. vm_compute in H. inversion H; subst. vm_compute. discriminate. Qed.

Example ex_count_filter :
  run (EBuiltin (A 0 (RKNum KInt)) BiLen [EBuiltin (A 4 RKSlice) BiFilter [ai; EClosure (A 8 RKBool) gt1]]) =
    Done (vint 2) (mkRS 2 []) /\
  run (EBuiltin (A 0 RKSlice) BiFilter [ai; EClosure (A 8 RKBool) gt1]) = Done (VArr TIface [vint 3; vint 4]) (mkRS 2 []).
Proof. vm_compute. split; reflexivity. Qed.

(* filter_spec: `# > 1` is effect-free and total on AI *)
Definition pe_gt1 (y : value) : bool := match y with VNum (NInt KInt z) => 1 <? z | _ => false end.
Example ex_filter_spec_hyp : forall i y s',
  nth_error (List.map vint [1; -2; 3; 4]) i = Some y ->
  eval ex_fe ex_cfg ex_env [(ints [1; -2; 3; 4], Z.of_nat i)] (EClosure (A 8 RKBool) gt1) s' = Done (VBool (pe_gt1 y)) s'.
Proof.
  intros i y s' H. destruct i as [|[|[|[|i]]]]; cbn in H; try (inversion H; subst; reflexivity).
  destruct i; discriminate H.
Qed.

(* innermost: map(NN, {count(#, {# > 0})}) - the inner # is an element of the inner collection *)
Example ex_nested :
  run (EBuiltin (A 0 RKSlice) BiMap [EIdent (A 4 RKSlice) "NN" false;
        EClosure (A 8 RKInvalid) (EBuiltin (A 9 (RKNum KInt)) BiCount [EPointer (A 15 RKInvalid);
          EClosure (A 18 RKBool) (EBinary (A 21 RKBool) BGt (EPointer (A 19 RKInvalid)) (EInt (A 23 (RKNum KInt)) 0))])]) =
    Done (VArr TIface [vint 1; vint 2; vint 0]) (mkRS 3 []).
Proof. vm_compute. reflexivity. Qed.

(* in range: hypotheses of C18_in_range for an int8 operand and bounds representable in int8 *)
Example ex_in_range_hyps :
  is_intkind KInt8 = true /\ in_range (cmp_kind KInt8) (-120) = true /\ in_range (cmp_kind KInt8) 100 = true /\
  p_in (VNum (NInt KInt8 (-100))) (make_range (-120) 100) = Ok true.
Proof. vm_compute. repeat split; reflexivity. Qed.

Example ex_slice : 
  p_slice (ints [1; 2; 3]) (vint 0) (vint 7) = Ok (ints [1; 2; 3]) /\
  p_slice (ints [1; 2; 3]) (vint 7) (vint 3) = Ok (ints []) /\
  p_slice (ints [1; 2; 3]) (vint 0) (vint 1) = Ok (ints [1]) /\
  p_slice (ints [1; 2; 3]) (vint 1) (vint 3) = Ok (ints [2; 3]).
Proof. vm_compute. repeat split; reflexivity. Qed.
End C18Examples.

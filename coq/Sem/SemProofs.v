(* Sem/SemProofs.v — theorems about the REFERENCE semantics Sem.eval: the defining identities of
   the collection builtins (property C18).  Every statement is about `eval` of two expression
   trees built with the constructors of Syn/Ast.v (arbitrary annotations), for ALL collection
   values, ALL predicate / mapper expressions (with effects = environment calls in the trace, and
   failures), all contexts `ctx` and all states; the loops are handled by induction over the
   element count of the loop combinators, generalised over index, accumulator and state. *)
From Coq Require Import ZArith Bool List String Lia.
Require Import X.Base.Num X.Base.NumProofs X.Base.Value X.Syn.Ast X.gen.GenHelpers X.Sem.Prim X.Sem.Sem.
Import ListNotations.
Open Scope Z_scope.

(* ------------------------------------------------------------------------------------------ *)
(* How two results are compared.                                                               *)
(*   Done / Done : same value and same state (allocation counter AND call trace).              *)
(*   Stop / Stop : same failure class and same state; the failing node is the same, or it is   *)
(*                 one of the identity's own operator nodes (la on the left, lb on the right:  *)
(*                 `all` reports a non-boolean predicate at the builtin, `not any(.. not p)`   *)
(*                 reports it at the inner `not`).                                             *)
Definition res_agree (la lb : list loc) (r1 r2 : result) : Prop :=
  match r1, r2 with
  | Done v s, Done v' s' => v = v' /\ s = s'
  | Stop e l s, Stop e' l' s' => e = e' /\ s = s' /\ (l = l' \/ (In l la /\ In l' lb))
  | _, _ => False
  end.

Lemma res_agree_refl la lb r : res_agree la lb r r.
Proof. destruct r; cbn; auto. Qed.

Lemma res_agree_eq la lb r1 r2 : r1 = r2 -> res_agree la lb r1 r2.
Proof. intros ->. apply res_agree_refl. Qed.

Lemma rbind_agree la lb r f g :
  (forall v s, res_agree la lb (f v s) (g v s)) -> res_agree la lb (rbind r f) (rbind r g).
Proof. intros H. destruct r; cbn; auto. Qed.

Lemma lift_agree {A} la lb l1 l2 s (o : outcome A) k1 k2 :
  l1 = l2 \/ (In l1 la /\ In l2 lb) ->
  (forall a, res_agree la lb (k1 a) (k2 a)) -> res_agree la lb (lift l1 s o k1) (lift l2 s o k2).
Proof. intros Hl H. destruct o; cbn; auto. Qed.

Lemma rbind_assoc r f g : rbind (rbind r f) g = rbind r (fun v s => rbind (f v s) g).
Proof. destruct r; reflexivity. Qed.

Lemma rbind_lift {A} l s (o : outcome A) k g : rbind (lift l s o k) g = lift l s o (fun a => rbind (k a) g).
Proof. destruct o; reflexivity. Qed.

(* `not r`: what the unary operators `not` / `!` do with the result of their operand *)
Definition neg_res (l : loc) (r : result) : result :=
  rbind r (fun v s1 => lift l s1 (as_bool v) (fun b => Done (VBool (negb b)) s1)).

Definition is_not (op : unop) : bool := match op with UNotBang | UNotWord => true | _ => false end.

(* state with n more accounted elements *)
Definition add_mem (n : Z) (s : rstate) : rstate := mkRS (r_mem s + n) (r_trace s).

(* collections the identities speak about: Go slices (a slice cannot be longer than MaxInt) *)
Definition arr_ok (v : value) : Prop :=
  match v with
  | VArr _ l => Z.of_nat (List.length l) <= max_of KInt
  | VNilArr _ => True
  | _ => False
  end.

Lemma p_equal_int a b : p_equal (vint a) (vint b) = Ok (VBool (a =? b)).
Proof. reflexivity. Qed.

Lemma max_int_val : max_of KInt = 9223372036854775807.
Proof. reflexivity. Qed.
Lemma min_int_val : min_of KInt = -9223372036854775808.
Proof. reflexivity. Qed.

Lemma in_range_int z : min_of KInt <= z <= max_of KInt -> in_range KInt z = true.
Proof. intros H. unfold in_range. apply andb_true_intro. split; apply Z.leb_le; lia. Qed.

Lemma to_int_vint z : min_of KInt <= z <= max_of KInt -> to_int (vint z) = Ok z.
Proof.
  intros H. unfold to_int, vint, convert. cbn [is_float].
  rewrite (wrap_in_range KInt z eq_refl (in_range_int z H)). reflexivity.
Qed.

(* ------------------------------------------------------------------------------------------ *)
(* Loop lemmas (no evaluator involved: any body).                                              *)
Section LoopLemmas.
Variable body : Z -> rstate -> result.

(* all(xs, p) = not any(xs, not p): the three loops visit the same elements, stop at the same
   element, and leave the same state *)
Lemma all_any_loop l1 l2 l3 l4 la lb : In l1 la -> In l3 lb ->
  forall n i s, res_agree la lb (all_loop body l1 n i s)
                  (neg_res l4 (any_loop (fun i s => neg_res l3 (body i s)) l2 n i s)).
Proof.
  intros H1 H3. induction n as [|n IH]; intros i s.
  - cbn. auto.
  - cbn [all_loop any_loop]. unfold neg_res at 2. destruct (body i s) as [v s1|e l s1]; cbn [rbind].
    + destruct (as_bool v) as [b|e]; cbn [lift rbind as_bool].
      * destruct b; cbn [negb].
        -- apply IH.
        -- cbn. auto.
      * cbn. auto.
    + cbn. auto.
Qed.

(* none(xs, p) = not any(xs, p) *)
Lemma none_any_loop l1 l2 l4 la lb : In l1 la -> In l2 lb ->
  forall n i s, res_agree la lb (none_loop body l1 n i s) (neg_res l4 (any_loop body l2 n i s)).
Proof.
  intros H1 H2. induction n as [|n IH]; intros i s.
  - cbn. auto.
  - cbn [none_loop any_loop]. unfold neg_res. destruct (body i s) as [v s1|e l s1]; cbn [rbind].
    + destruct (as_bool v) as [b|e]; cbn [lift rbind].
      * destruct b.
        -- cbn. auto.
        -- apply IH.
      * cbn. auto.
    + cbn. auto.
Qed.

(* a continuation can be moved into the counting loop *)
Lemma count_loop_rbind l n : forall i c s k g,
  rbind (count_loop body l n i c s k) g = count_loop body l n i c s (fun c s => rbind (k c s) g).
Proof.
  induction n as [|n IH]; intros; cbn [count_loop]; [reflexivity|].
  destruct (body i s) as [v s1|e l' s1]; cbn [rbind]; [|reflexivity].
  destruct (as_bool v) as [b|e]; cbn [lift rbind]; [|reflexivity]. apply IH.
Qed.

(* counting loops that differ in the location they report and in their continuation *)
Lemma count_loop_agree la lb l1 l2 n : l1 = l2 \/ (In l1 la /\ In l2 lb) -> forall i c s k1 k2,
  (forall c s, res_agree la lb (k1 c s) (k2 c s)) ->
  res_agree la lb (count_loop body l1 n i c s k1) (count_loop body l2 n i c s k2).
Proof.
  intros Hl. induction n as [|n IH]; intros i c s k1 k2 Hk; cbn [count_loop]; [apply Hk|].
  apply rbind_agree. intros v s1. apply lift_agree; [exact Hl|]. intros b. apply IH. exact Hk.
Qed.

Lemma filter_loop_rbind l elem n : forall i acc s k g,
  rbind (filter_loop body l elem n i acc s k) g = filter_loop body l elem n i acc s (fun xs s => rbind (k xs s) g).
Proof.
  induction n as [|n IH]; intros; cbn [filter_loop]; [reflexivity|].
  destruct (body i s) as [v s1|e l' s1]; cbn [rbind]; [|reflexivity].
  destruct (as_bool v) as [b|e]; cbn [lift rbind]; [|reflexivity].
  destruct b; [|apply IH]. destruct (elem i); cbn [lift rbind]; [apply IH|reflexivity].
Qed.

Lemma map_loop_rbind n : forall i acc s k g,
  rbind (map_loop body n i acc s k) g = map_loop body n i acc s (fun xs s => rbind (k xs s) g).
Proof.
  induction n as [|n IH]; intros; cbn [map_loop]; [reflexivity|].
  destruct (body i s) as [v s1|e l' s1]; cbn [rbind]; [|reflexivity]. apply IH.
Qed.

(* count vs filter: the same elements are visited, the same calls are made; the filter's
   accumulator has as many elements as the counter says.  `elem` must succeed on the visited
   indices (it does on arrays: see fetch_arr_ok). *)
Lemma count_filter_loop la lb l1 l2 elem hi : l1 = l2 \/ (In l1 la /\ In l2 lb) ->
  (forall i, 0 <= i < hi -> exists x, elem i = Ok x) ->
  forall n i c acc s kc kf, 0 <= i -> i + Z.of_nat n <= hi -> Z.of_nat (List.length acc) = c ->
  (forall c acc s, Z.of_nat (List.length acc) = c -> res_agree la lb (kc c s) (kf (rev acc) s)) ->
  res_agree la lb (count_loop body l1 n i c s kc) (filter_loop body l2 elem n i acc s kf).
Proof.
  intros Hl He. induction n as [|n IH]; intros i c acc s kc kf Hi Hn Hc Hk; cbn [count_loop filter_loop].
  - apply Hk. exact Hc.
  - apply rbind_agree. intros v s1. apply lift_agree; [exact Hl|]. intros b. destruct b.
    + destruct (He i) as [x Hx]; [lia|]. rewrite Hx. cbn [lift].
      apply IH; [lia|lia| |exact Hk]. cbn [List.length]. lia.
    + apply IH; [lia|lia|exact Hc|exact Hk].
Qed.

(* map: the continuation receives exactly `length acc + n` elements *)
Lemma map_loop_ext n : forall i acc s k1 k2,
  (forall xs s, List.length xs = (List.length acc + n)%nat -> k1 xs s = k2 xs s) ->
  map_loop body n i acc s k1 = map_loop body n i acc s k2.
Proof.
  induction n as [|n IH]; intros i acc s k1 k2 Hk; cbn [map_loop].
  - apply Hk. rewrite rev_length. lia.
  - destruct (body i s) as [v s1|e l' s1]; cbn [rbind]; [|reflexivity].
    apply IH. intros xs s' Hx. apply Hk. cbn [List.length] in Hx. lia.
Qed.

(* a map loop whose continuation ignores the list: the body is run for its effects only *)
Fixpoint effects_loop (n : nat) (i : Z) (s : rstate) (k : rstate -> result) : result :=
  match n with
  | O => k s
  | S n' => rbind (body i s) (fun _ s1 => effects_loop n' (i + 1) s1 k)
  end.

Lemma map_loop_effects n : forall i acc s k,
  map_loop body n i acc s (fun _ s => k s) = effects_loop n i s k.
Proof.
  induction n as [|n IH]; intros; cbn [map_loop effects_loop]; [reflexivity|].
  destruct (body i s) as [v s1|e l' s1]; cbn [rbind]; [|reflexivity]. apply IH.
Qed.

(* effect-free body: the loop is the continuation *)
Lemma effects_loop_pure n : forall i s k,
  (forall j s', i <= j < i + Z.of_nat n -> exists v, body j s' = Done v s') ->
  effects_loop n i s k = k s.
Proof.
  induction n as [|n IH]; intros i s k H; cbn [effects_loop]; [reflexivity|].
  destruct (H i s) as [v Hv]; [lia|]. rewrite Hv. cbn [rbind]. apply IH.
  intros j s' Hj. apply H. lia.
Qed.
End LoopLemmas.

(* ------------------------------------------------------------------------------------------ *)
(* The evaluator.                                                                              *)
Section EvalProofs.
Variable fe : fenv.
Variable cfg : config.
Variable env : value.
Notation ev := (eval fe cfg env).

(* one unfolding step of `eval` per node kind used below (all by computation) *)
Lemma eval_closure ctx a x s : ev ctx (EClosure a x) s = ev ctx x s.
Proof. reflexivity. Qed.

Lemma eval_not ctx a op x s : is_not op = true -> ev ctx (EUnary a op x) s = neg_res (aloc a) (ev ctx x s).
Proof. destruct op; intros H; try discriminate H; reflexivity. Qed.

Lemma eval_pointer v i ctx a s :
  ev ((v, i) :: ctx) (EPointer a) s = lift (aloc a) s (p_fetch v (vint i) false) (fun x => Done x s).
Proof. reflexivity. Qed.

Lemma eval_len ctx a x s :
  ev ctx (EBuiltin a BiLen [x]) s =
  rbind (ev ctx x s) (fun v s1 => lift (aloc a) s1 (p_length v) (fun n => Done (vint n) s1)).
Proof. reflexivity. Qed.

(* the closure of every builtin is evaluated with ctx EXTENDED by (its own collection, index) *)
Lemma eval_all ctx a x c s :
  ev ctx (EBuiltin a BiAll [x; c]) s =
  rbind (ev ctx x s) (fun v s1 => lift (aloc a) s1 (p_length v) (fun n =>
    all_loop (fun i s' => ev ((v, i) :: ctx) c s') (aloc a) (Z.to_nat n) 0 s1)).
Proof. reflexivity. Qed.

Lemma eval_none ctx a x c s :
  ev ctx (EBuiltin a BiNone [x; c]) s =
  rbind (ev ctx x s) (fun v s1 => lift (aloc a) s1 (p_length v) (fun n =>
    none_loop (fun i s' => ev ((v, i) :: ctx) c s') (aloc a) (Z.to_nat n) 0 s1)).
Proof. reflexivity. Qed.

Lemma eval_any ctx a x c s :
  ev ctx (EBuiltin a BiAny [x; c]) s =
  rbind (ev ctx x s) (fun v s1 => lift (aloc a) s1 (p_length v) (fun n =>
    any_loop (fun i s' => ev ((v, i) :: ctx) c s') (aloc a) (Z.to_nat n) 0 s1)).
Proof. reflexivity. Qed.

Lemma eval_one ctx a x c s :
  ev ctx (EBuiltin a BiOne [x; c]) s =
  rbind (ev ctx x s) (fun v s1 => lift (aloc a) s1 (p_length v) (fun n =>
    count_loop (fun i s' => ev ((v, i) :: ctx) c s') (aloc a) (Z.to_nat n) 0 0 s1
      (fun cnt s2 => lift (aloc a) s2 (p_equal (vint cnt) (vint 1)) (fun r => Done r s2)))).
Proof. reflexivity. Qed.

Lemma eval_count ctx a x c s :
  ev ctx (EBuiltin a BiCount [x; c]) s =
  rbind (ev ctx x s) (fun v s1 => lift (aloc a) s1 (p_length v) (fun n =>
    count_loop (fun i s' => ev ((v, i) :: ctx) c s') (aloc a) (Z.to_nat n) 0 0 s1
      (fun cnt s2 => Done (vint cnt) s2))).
Proof. reflexivity. Qed.

Lemma eval_filter ctx a x c s :
  ev ctx (EBuiltin a BiFilter [x; c]) s =
  rbind (ev ctx x s) (fun v s1 => lift (aloc a) s1 (p_length v) (fun n =>
    filter_loop (fun i s' => ev ((v, i) :: ctx) c s') (aloc a) (fun i => p_fetch v (vint i) false)
      (Z.to_nat n) 0 [] s1
      (fun xs s2 => alloc cfg (aloc a) (Z.of_nat (List.length xs)) s2 (fun s3 => Done (VArr TIface xs) s3)))).
Proof. reflexivity. Qed.

Lemma eval_map ctx a x c s :
  ev ctx (EBuiltin a BiMap [x; c]) s =
  rbind (ev ctx x s) (fun v s1 => lift (aloc a) s1 (p_length v) (fun n =>
    map_loop (fun i s' => ev ((v, i) :: ctx) c s') (Z.to_nat n) 0 [] s1
      (fun xs s2 => alloc cfg (aloc a) n s2 (fun s3 => Done (VArr TIface xs) s3)))).
Proof. reflexivity. Qed.

Lemma eval_eq ctx a l r s :
  ev ctx (EBinary a BEq l r) s =
  rbind (ev ctx l s) (fun va s1 => rbind (ev ctx r s1) (fun vb s2 =>
    if both_kind (RKNum KInt) l r then
      lift (aloc a) s2 (as_int va) (fun x => lift (aloc a) s2 (as_int vb) (fun y => Done (VBool (x =? y)) s2))
    else if both_kind RKString l r then
      lift (aloc a) s2 (as_str va) (fun x => lift (aloc a) s2 (as_str vb) (fun y => Done (VBool (String.eqb x y)) s2))
    else lift (aloc a) s2 (p_equal va vb) (fun v => Done v s2))).
Proof. reflexivity. Qed.

(* ---------------- 1. all(xs, p) = not any(xs, not p) ---------------- *)
(* No side condition.  Value, allocation counter, call trace and failure class coincide; both
   sides stop at the first falsifying element.  A predicate that yields a non-boolean makes both
   sides fail with EIfaceConv in the same state: `all` reports it at the builtin (a1), the right
   side at the inner `not` (a6); if xs has no length both fail with EInvalidOp at their builtin. *)
Theorem C18_all_not_any_not ctx a1 a2 a3 a4 a5 a6 n1 n2 x p s :
  is_not n1 = true -> is_not n2 = true ->
  res_agree [aloc a1] [aloc a4; aloc a6]
    (ev ctx (EBuiltin a1 BiAll [x; EClosure a2 p]) s)
    (ev ctx (EUnary a3 n1 (EBuiltin a4 BiAny [x; EClosure a5 (EUnary a6 n2 p)])) s).
Proof.
  intros Hn1 Hn2. rewrite (eval_not _ _ _ _ _ Hn1), eval_all, eval_any.
  unfold neg_res at 1. rewrite rbind_assoc. apply rbind_agree. intros v s1.
  rewrite rbind_lift. apply lift_agree; [right; cbn; auto|]. intros n.
  assert (E : (fun i s' => ev ((v, i) :: ctx) (EClosure a5 (EUnary a6 n2 p)) s') =
              (fun i s' => neg_res (aloc a6) ((fun i s' => ev ((v, i) :: ctx) (EClosure a2 p) s') i s'))).
  { cbv beta. change (fun i s' => ev ((v, i) :: ctx) (EClosure a5 (EUnary a6 n2 p)) s')
      with (fun i s' => ev ((v, i) :: ctx) (EUnary a6 n2 p) s').
    destruct n2; try discriminate Hn2; reflexivity. }
  rewrite E.
  apply (all_any_loop (fun i s' => ev ((v, i) :: ctx) (EClosure a2 p) s')
           (aloc a1) (aloc a4) (aloc a6) (aloc a3) [aloc a1] [aloc a4; aloc a6]); cbn; auto.
Qed.

(* ---------------- 2. none(xs, p) = not any(xs, p) ---------------- *)
Theorem C18_none_not_any ctx a1 a3 a4 n1 x c s :
  is_not n1 = true ->
  res_agree [aloc a1] [aloc a4]
    (ev ctx (EBuiltin a1 BiNone [x; c]) s)
    (ev ctx (EUnary a3 n1 (EBuiltin a4 BiAny [x; c])) s).
Proof.
  intros Hn1. rewrite (eval_not _ _ _ _ _ Hn1), eval_none, eval_any.
  unfold neg_res at 1. rewrite rbind_assoc. apply rbind_agree. intros v s1.
  rewrite rbind_lift. apply lift_agree; [right; cbn; auto|]. intros n.
  apply (none_any_loop (fun i s' => ev ((v, i) :: ctx) c s') (aloc a1) (aloc a4) (aloc a3)); cbn; auto.
Qed.

(* ---------------- 3. one(xs, p) = (count(xs, p) == 1) ---------------- *)
(* Side conditions on the annotation of the literal `1` (what the checker wrote on the node):
   it denotes the int 1 (not retyped to another numeric kind), and the comparison is not the
   string-specialised one.  Both hold for every tree the checker produces for this source. *)
Theorem C18_one_count_eq_1 ctx a1 a2 a3 a4 x c s :
  int_const a4 1 = vint 1 ->
  both_kind RKString (EBuiltin a3 BiCount [x; c]) (EInt a4 1) = false ->
  res_agree [aloc a1] [aloc a3]
    (ev ctx (EBuiltin a1 BiOne [x; c]) s)
    (ev ctx (EBinary a2 BEq (EBuiltin a3 BiCount [x; c]) (EInt a4 1)) s).
Proof.
  intros Hlit Hstr. rewrite eval_eq, eval_one, eval_count. rewrite rbind_assoc.
  apply rbind_agree. intros v s1. rewrite rbind_lift. apply lift_agree; [right; cbn; auto|]. intros n.
  rewrite count_loop_rbind. apply count_loop_agree; [right; cbn; auto|]. intros cnt s2.
  rewrite p_equal_int. cbn [lift rbind].
  change (ev ctx (EInt a4 1) s2) with (Done (int_const a4 1) s2). rewrite Hlit. cbn [rbind].
  rewrite Hstr. destruct (both_kind (RKNum KInt) (EBuiltin a3 BiCount [x; c]) (EInt a4 1)).
  - cbn. auto.
  - rewrite p_equal_int. cbn. auto.
Qed.

(* ---------------- 4. count(xs, p) = len(filter(xs, p)) ---------------- *)
Lemma index_list_ok l i : 0 <= i < Z.of_nat (List.length l) -> exists x, index_list l i = Ok x.
Proof.
  intros H. unfold index_list.
  destruct (i <? 0) eqn:E1; [apply Z.ltb_lt in E1; lia|].
  destruct (Z.of_nat (List.length l) <=? i) eqn:E2; [apply Z.leb_le in E2; lia|]. cbn [orb].
  destruct (nth_error l (Z.to_nat i)) eqn:E3; [eauto|].
  apply nth_error_None in E3. lia.
Qed.

Lemma fetch_arr_ok v n : arr_ok v -> p_length v = Ok n ->
  forall i, 0 <= i < n -> exists x, p_fetch v (vint i) false = Ok x.
Proof.
  intros Ha Hn i Hi. destruct v; try contradiction; cbn in Hn; inversion Hn; subst; [|lia].
  cbn in Ha. cbn [p_fetch]. rewrite to_int_vint; [|rewrite min_int_val; lia]. cbn [bind].
  apply index_list_ok. exact Hi.
Qed.

Lemma length_nonneg v n : p_length v = Ok n -> 0 <= n.
Proof.
  destruct v; cbn; intros H; try discriminate H; inversion H; try lia.
  - clear. induction s; cbn [str_len]; lia.
  - destruct v; try discriminate. inversion H. clear. induction s0; cbn [str_len]; lia.
Qed.

(* How the right side relates to a result of the left side: `filter` accounts its c result
   elements, so the allocation counter is higher by c, or - when that reaches the budget - the
   right side is refused (EBudget at the filter node lf) in the state the left side ends in. *)
Definition count_vs_len_filter (la lb : list loc) (lf : loc) (r1 r2 : result) : Prop :=
  match r1 with
  | Done v s1 => exists c, v = vint c /\
      r2 = if c_limit cfg <=? r_mem s1 + c then Stop EBudget lf s1 else Done (vint c) (add_mem c s1)
  | Stop e l s1 => res_agree la lb r1 r2
  end.

Theorem C18_count_len_filter ctx a1 a2 a3 x c s :
  (forall v s1, ev ctx x s = Done v s1 -> arr_ok v) ->
  count_vs_len_filter [aloc a1] [aloc a3] (aloc a3)
    (ev ctx (EBuiltin a1 BiCount [x; c]) s)
    (ev ctx (EBuiltin a2 BiLen [EBuiltin a3 BiFilter [x; c]]) s).
Proof.
  intros Harr. rewrite eval_len, eval_filter, eval_count. rewrite rbind_assoc.
  destruct (ev ctx x s) as [v s1|e l s1] eqn:Ex; cbn [rbind]; [|cbn; auto].
  specialize (Harr v s1 eq_refl). rewrite rbind_lift.
  destruct (p_length v) as [n|e] eqn:Hn; cbn [lift]; [|cbn; auto 6].
  rewrite filter_loop_rbind.
  (* generalised statement about the two loops *)
  set (body := fun i s' => ev ((v, i) :: ctx) c s').
  set (kc := fun (cnt : Z) (s2 : rstate) => Done (vint cnt) s2).
  set (kf := fun (xs : list value) (s2 : rstate) =>
         rbind (alloc cfg (aloc a3) (Z.of_nat (List.length xs)) s2 (fun s3 => Done (VArr TIface xs) s3))
               (fun v0 s0 => lift (aloc a2) s0 (p_length v0) (fun n0 => Done (vint n0) s0))).
  assert (G : forall m i cnt acc s0, 0 <= i -> i + Z.of_nat m <= n -> Z.of_nat (List.length acc) = cnt ->
            count_vs_len_filter [aloc a1] [aloc a3] (aloc a3)
              (count_loop body (aloc a1) m i cnt s0 kc)
              (filter_loop body (aloc a3) (fun i => p_fetch v (vint i) false) m i acc s0 kf)).
  { induction m as [|m IH]; intros i cnt acc s0 Hi Hm Hc; cbn [count_loop filter_loop].
    - unfold kc, kf, count_vs_len_filter, alloc, add_mem. exists cnt. split; [reflexivity|].
      rewrite rev_length, Hc. destruct (c_limit cfg <=? r_mem s0 + cnt); cbn; [reflexivity|].
      rewrite rev_length, Hc. reflexivity.
    - destruct (body i s0) as [b s2|e l s2]; cbn [rbind]; [|cbn; auto].
      destruct (as_bool b) as [[|]|e]; cbn [lift].
      + destruct (fetch_arr_ok v n Harr Hn i) as [y Hy]; [lia|]. rewrite Hy. cbn [lift].
        apply IH; [lia|lia|]. cbn [List.length]. lia.
      + apply IH; [lia|lia|exact Hc].
      + cbn. auto 6. }
  apply G; [lia| |reflexivity]. pose proof (length_nonneg v n Hn). lia.
Qed.

(* ---------------- 5. len(map(xs, f)) = len(xs) ---------------- *)
(* Exact form: len(map(xs, f)) evaluates xs, runs f on every element for its effects only
   (calls are logged, a failure of f is the failure of the whole), accounts n elements, and yields
   len(xs).  No side condition. *)
Theorem C18_len_map_eq ctx a1 a2 x c s :
  ev ctx (EBuiltin a1 BiLen [EBuiltin a2 BiMap [x; c]]) s =
  rbind (ev ctx x s) (fun v s1 => lift (aloc a2) s1 (p_length v) (fun n =>
    effects_loop (fun i s' => ev ((v, i) :: ctx) c s') (Z.to_nat n) 0 s1
      (fun s2 => alloc cfg (aloc a2) n s2 (fun s3 => Done (vint n) s3)))).
Proof.
  rewrite eval_len, eval_map, rbind_assoc. destruct (ev ctx x s) as [v s1|e l s1]; cbn [rbind]; [|reflexivity].
  rewrite rbind_lift. destruct (p_length v) as [n|e] eqn:Hn; cbn [lift]; [|reflexivity].
  rewrite map_loop_rbind. rewrite <- map_loop_effects with (acc := []).
  apply map_loop_ext. intros xs s2 Hx. unfold alloc.
  destruct (c_limit cfg <=? r_mem s2 + n); cbn [rbind]; [reflexivity|]. cbn [lift p_length].
  pose proof (length_nonneg v n Hn). cbn [List.length] in Hx. rewrite Hx.
  replace (Z.of_nat (0 + Z.to_nat n)) with n by lia. reflexivity.
Qed.

(* "len(map(xs, f)) = len(xs) when map succeeds" *)
Theorem C18_len_map ctx a1 a2 a3 x c s v s2 :
  ev ctx (EBuiltin a1 BiLen [EBuiltin a2 BiMap [x; c]]) s = Done v s2 ->
  exists s1, ev ctx (EBuiltin a3 BiLen [x]) s = Done v s1.
Proof.
  rewrite C18_len_map_eq, eval_len. destruct (ev ctx x s) as [xv s1|e l s1]; cbn [rbind]; [|discriminate].
  destruct (p_length xv) as [n|e]; cbn [lift]; [|discriminate]. intros H. exists s1.
  assert (G : forall m i s0, effects_loop (fun i s' => ev ((xv, i) :: ctx) c s') m i s0
                (fun s2 => alloc cfg (aloc a2) n s2 (fun s3 => Done (vint n) s3)) = Done v s2 -> v = vint n).
  { induction m as [|m IH]; intros i s0; cbn [effects_loop].
    - unfold alloc. destruct (c_limit cfg <=? r_mem s0 + n); [discriminate|]. intros E. inversion E. reflexivity.
    - destruct (ev ((xv, i) :: ctx) c s0); cbn [rbind]; [apply IH|discriminate]. }
  rewrite (G _ _ _ H). reflexivity.
Qed.

(* with an effect-free, total mapper and the budget not hit the two sides differ by the n
   accounted elements only *)
Theorem C18_len_map_pure ctx a1 a2 a3 x c s xv s1 n :
  ev ctx x s = Done xv s1 -> p_length xv = Ok n ->
  (forall i s', 0 <= i < n -> exists y, ev ((xv, i) :: ctx) c s' = Done y s') ->
  (c_limit cfg <=? r_mem s1 + n) = false ->
  ev ctx (EBuiltin a1 BiLen [EBuiltin a2 BiMap [x; c]]) s = Done (vint n) (add_mem n s1) /\
  ev ctx (EBuiltin a3 BiLen [x]) s = Done (vint n) s1.
Proof.
  intros Ex Hn Hp Hb. rewrite C18_len_map_eq, eval_len, Ex. cbn [rbind]. rewrite Hn. cbn [lift].
  pose proof (length_nonneg xv n Hn). split; [|reflexivity].
  rewrite effects_loop_pure.
  - unfold alloc. rewrite Hb. reflexivity.
  - intros j s' Hj. apply Hp. lia.
Qed.

(* Sem/NoMachine.v — the reference semantics never fails with the class EMachine.
   EMachine is reserved for malformed-bytecode failures of the VM (stack underflow, no scope,
   unknown opcode, bad constant).  No primitive of Prim.v produces it, and the reference
   evaluator `eval` (Sem.v) only produces the failure classes of its primitives, of the
   environment functions (`fn_run`) and a few fixed ones (EOther, EBudget, ERegexp, ECannotFetch,
   EIfaceConv, EReflect, EIndexRange).  Hence: if no environment function fails with EMachine,
   no evaluation does.  Proofs only; depends on Sem.v and Prim.v alone. *)
From Coq Require Import ZArith Bool String List Arith Lia.
Require Import X.Base.Num X.Base.Value X.Syn.Ast X.gen.GenHelpers X.Sem.Prim X.Sem.Sem.
Import ListNotations.
Open Scope Z_scope.

Definition fn_no_machine (fe : fenv) : Prop :=
  forall id recv args, fn_run fe id recv args <> Fail EMachine.

Definition not_machine (r : result) : Prop :=
  match r with Stop EMachine _ _ => False | _ => True end.

(* ------------------------------------------------------------------ outcomes *)
Lemma bind_nm {A B} (o : outcome A) (f : A -> outcome B) :
  o <> Fail EMachine -> (forall a, f a <> Fail EMachine) -> bind o f <> Fail EMachine.
Proof.
  intros Ho Hf. destruct o as [a|e]; cbn [bind]; [apply Hf|].
  intros E. apply Ho. inversion E. reflexivity.
Qed.

Lemma fail_cast {A B} e : @Fail A e <> Fail EMachine -> @Fail B e <> Fail EMachine.
Proof. intros H E. apply H. inversion E. reflexivity. Qed.

(* case analysis on everything a primitive scrutinises; leaves the goals about sub-primitives *)
Ltac ok_auto :=
  repeat match goal with
  | |- Ok _ <> _ => discriminate
  | |- Fail _ <> Fail _ => discriminate
  | |- bind _ _ <> Fail EMachine => apply bind_nm; [ | intros ? ]
  | |- (if ?x then _ else _) <> _ => destruct x; cbv beta iota zeta
  | |- (match ?x with _ => _ end) <> _ => destruct x; cbv beta iota zeta
  end.

Create HintDb nm.

Lemma to_int_nm v : to_int v <> Fail EMachine.
Proof. unfold to_int. ok_auto. Qed.
Lemma to_int64_nm v : to_int64 v <> Fail EMachine.
Proof. unfold to_int64. ok_auto. Qed.
Lemma to_float64_nm v : to_float64 v <> Fail EMachine.
Proof. unfold to_float64. ok_auto. Qed.
Lemma p_negate_nm v : p_negate v <> Fail EMachine.
Proof. unfold p_negate. ok_auto. Qed.
Lemma as_bool_nm v : as_bool v <> Fail EMachine.
Proof. unfold as_bool. ok_auto. Qed.
Lemma as_str_nm v : as_str v <> Fail EMachine.
Proof. unfold as_str. ok_auto. Qed.
Lemma as_int_nm v : as_int v <> Fail EMachine.
Proof. unfold as_int. ok_auto. Qed.
Lemma p_length_nm v : p_length v <> Fail EMachine.
Proof. unfold p_length. ok_auto. Qed.
Lemma of_nres_nm r : of_nres r <> Fail EMachine.
Proof. unfold of_nres. ok_auto. Qed.
Lemma index_list_nm l i : index_list l i <> Fail EMachine.
Proof. unfold index_list. ok_auto. Qed.
#[export] Hint Resolve to_int_nm to_int64_nm to_float64_nm p_negate_nm as_bool_nm as_str_nm as_int_nm
  p_length_nm of_nres_nm index_list_nm : nm.

Lemma p_fetch_nm from i ns : p_fetch from i ns <> Fail EMachine.
Proof. unfold p_fetch. cbv zeta. ok_auto; auto with nm. Qed.

Lemma p_slice_nm arr from to : p_slice arr from to <> Fail EMachine.
Proof. unfold p_slice. ok_auto; auto with nm. Qed.
#[export] Hint Resolve p_fetch_nm p_slice_nm : nm.

(* ---- equal: recursion through the elements of sequences; induction on a size of the left value *)
Fixpoint vsize (v : value) : nat :=
  match v with
  | VArr _ l => S ((fix ls (l : list value) : nat :=
                      match l with [] => O | x :: r => (vsize x + ls r)%nat end) l)
  | _ => 1%nat
  end.
Fixpoint vlsize (l : list value) : nat :=
  match l with [] => O | x :: r => (vsize x + vlsize r)%nat end.
Lemma vsize_arr t l : vsize (VArr t l) = S (vlsize l).
Proof. reflexivity. Qed.

Fixpoint seq_eq (l1 l2 : list value) {struct l1} : outcome bool :=
  match l1, l2 with
  | [], [] => Ok true
  | x :: r1, y :: r2 =>
      match equal_v x y with
      | Ok true => seq_eq r1 r2
      | other => other
      end
  | _, _ => Ok false
  end.

Lemma equal_v_arr t l1 b :
  equal_v (VArr t l1) b =
  match seq_items b with
  | Some l2 => if Nat.eqb (List.length l1) (List.length l2) then seq_eq l1 l2 else Ok false
  | None => Ok (deep_equal (VArr t l1) b)
  end.
Proof. reflexivity. Qed.

Lemma equal_v_nm_sized : forall n a, (vsize a < n)%nat -> forall b, equal_v a b <> Fail EMachine.
Proof.
  induction n as [|n IH]; intros a Hs b; [lia|].
  destruct a; try rewrite equal_v_arr.
  5: { (* VArr *)
    rewrite vsize_arr in Hs.
    destruct (seq_items b) as [l2|]; [|discriminate].
    destruct (Nat.eqb (List.length l) (List.length l2)); [|discriminate].
    assert (Hl : (vlsize l < n)%nat) by lia. clear Hs. revert l2.
    induction l as [|x r IHl]; intros l2; destruct l2 as [|y r2]; cbn [seq_eq]; try discriminate.
    cbn [vlsize] in Hl.
    assert (Hx : equal_v x y <> Fail EMachine) by (apply IH; lia).
    destruct (equal_v x y) as [[|]|e]; [apply IHl; lia|discriminate|exact Hx]. }
  all: destruct b; cbv beta iota zeta delta [equal_v]; ok_auto.
Qed.

Lemma equal_v_nm a b : equal_v a b <> Fail EMachine.
Proof. apply (equal_v_nm_sized (S (vsize a))). lia. Qed.

Lemma p_helper_nm h a b : p_helper h a b <> Fail EMachine.
Proof.
  unfold p_helper.
  set (fall := match helper_fallthrough h with
               | FTNilSeqDeepEqual => _ | FTNilThenDeepEqual => _ | _ => _ end).
  assert (Hf : fall <> Fail EMachine).
  { subst fall. pose proof (equal_v_nm a b) as He.
    destruct (helper_fallthrough h); try discriminate.
    destruct (equal_v a b); [discriminate|exact (fail_cast _ He)]. }
  clearbody fall. cbv zeta.
  destruct a; try exact Hf; destruct b; try exact Hf.
  - destruct (helper_num helper_case h n n0) as [r|]; [apply of_nres_nm|exact Hf].
  - destruct (helper_string_case h) as [[]|]; try exact Hf; discriminate.
Qed.

Lemma p_equal_nm a b : p_equal a b <> Fail EMachine.
Proof. apply p_helper_nm. Qed.
#[export] Hint Resolve equal_v_nm p_helper_nm p_equal_nm : nm.

Lemma p_in_nm needle arr : p_in needle arr <> Fail EMachine.
Proof.
  unfold p_in. destruct arr; try discriminate.
  - (* VArr *) induction l as [|x r IH]; [discriminate|].
    apply bind_nm; [apply p_equal_nm|]. intros e.
    destruct e; try discriminate. destruct b; [discriminate|exact IH].
  - ok_auto.
  - ok_auto.
  - ok_auto.
Qed.

Lemma keys_as_str_nm kvs : keys_as_str kvs <> Fail EMachine.
Proof.
  induction kvs as [|[k v] r IH]; cbn [keys_as_str]; [discriminate|].
  destruct (keys_as_str r) as [r'|e]; [|exact IH].
  pose proof (as_str_nm k) as Hk. destruct (as_str k); [discriminate|exact (fail_cast _ Hk)].
Qed.

Lemma fetch_fn_nm fe from name : fetch_fn fe from name <> Fail EMachine.
Proof. unfold fetch_fn. ok_auto. Qed.

Lemma fetch_ident_nm cfg env name ns : fetch_ident cfg env name ns <> Fail EMachine.
Proof. unfold fetch_ident. destruct (c_mapenv cfg); [ok_auto|apply p_fetch_nm]. Qed.
#[export] Hint Resolve p_in_nm keys_as_str_nm fetch_fn_nm fetch_ident_nm : nm.

(* ------------------------------------------------------------------ results *)
Lemma rbind_nm r k :
  not_machine r -> (forall v s, not_machine (k v s)) -> not_machine (rbind r k).
Proof. intros Hr Hk. destruct r as [v s|e l s]; cbn [rbind]; auto. Qed.

Lemma lift_nm {A} l s (o : outcome A) k :
  o <> Fail EMachine -> (forall a, not_machine (k a)) -> not_machine (lift l s o k).
Proof.
  intros Ho Hk. destruct o as [a|e]; cbn [lift]; auto.
  destruct e; try exact I. congruence.
Qed.

Lemma alloc_nm cfg l n s k : (forall s', not_machine (k s')) -> not_machine (alloc cfg l n s k).
Proof. intros Hk. unfold alloc. cbv zeta. destruct (c_limit cfg <=? r_mem s + n); [exact I|apply Hk]. Qed.

Lemma do_call_nm fe l fast id recv args s :
  fn_no_machine fe -> not_machine (do_call fe l fast id recv args s).
Proof.
  intros H. unfold do_call.
  destruct (fn_sig fe id) as [sg|]; [|destruct fast; exact I].
  pose proof (H id recv args) as Hr. cbv zeta.
  destruct fast; [destruct (s_fast sg)|destruct (args_ok (s_ins sg) (s_variadic sg) args)];
    try exact I;
    (destruct (fn_run fe id recv args) as [v|e];
     [try destruct (s_nout sg =? 0); exact I|destruct e; try exact I; congruence]).
Qed.

(* ------------------------------------------------------------------ loop combinators *)
Section LoopsNM.
Variable body : Z -> rstate -> result.
Variable l : loc.
Variable Hbody : forall i s, not_machine (body i s).

Lemma all_loop_nm : forall n i s, not_machine (all_loop body l n i s).
Proof.
  induction n as [|n IH]; intros i s; cbn [all_loop]; [exact I|].
  apply rbind_nm; [apply Hbody|]. intros v s1. apply lift_nm; [apply as_bool_nm|].
  intros [|]; [apply IH|exact I].
Qed.

Lemma none_loop_nm : forall n i s, not_machine (none_loop body l n i s).
Proof.
  induction n as [|n IH]; intros i s; cbn [none_loop]; [exact I|].
  apply rbind_nm; [apply Hbody|]. intros v s1. apply lift_nm; [apply as_bool_nm|].
  intros [|]; [exact I|apply IH].
Qed.

Lemma any_loop_nm : forall n i s, not_machine (any_loop body l n i s).
Proof.
  induction n as [|n IH]; intros i s; cbn [any_loop]; [exact I|].
  apply rbind_nm; [apply Hbody|]. intros v s1. apply lift_nm; [apply as_bool_nm|].
  intros [|]; [exact I|apply IH].
Qed.

Lemma count_loop_nm k : (forall c s, not_machine (k c s)) ->
  forall n i c s, not_machine (count_loop body l n i c s k).
Proof.
  intros Hk. induction n as [|n IH]; intros i c s; cbn [count_loop]; [apply Hk|].
  apply rbind_nm; [apply Hbody|]. intros v s1. apply lift_nm; [apply as_bool_nm|].
  intros b. apply IH.
Qed.

Lemma filter_loop_nm elem k :
  (forall i, elem i <> Fail EMachine) -> (forall xs s, not_machine (k xs s)) ->
  forall n i acc s, not_machine (filter_loop body l elem n i acc s k).
Proof.
  intros He Hk. induction n as [|n IH]; intros i acc s; cbn [filter_loop]; [apply Hk|].
  apply rbind_nm; [apply Hbody|]. intros v s1. apply lift_nm; [apply as_bool_nm|].
  intros [|]; [|apply IH]. apply lift_nm; [apply He|]. intros x. apply IH.
Qed.

Lemma map_loop_nm k : (forall xs s, not_machine (k xs s)) ->
  forall n i acc s, not_machine (map_loop body n i acc s k).
Proof.
  intros Hk. induction n as [|n IH]; intros i acc s; cbn [map_loop]; [apply Hk|].
  apply rbind_nm; [apply Hbody|]. intros v s1. apply IH.
Qed.
End LoopsNM.

(* ------------------------------------------------------------------ the evaluator *)
Section EvalNM.
Variable fe : fenv.
Variable cfg : config.
Variable env : value.
Variable Hfe : fn_no_machine fe.

Notation ev := (eval fe cfg env).

(* the two local recursions of `eval`, named *)
Section EList.
Variable ctx : list (value * Z).
Fixpoint elist (es : list expr) (s : rstate) (k : list value -> rstate -> result) : result :=
  match es with
  | [] => k [] s
  | x :: r => rbind (ev ctx x s) (fun v s1 => elist r s1 (fun vs s2 => k (v :: vs) s2))
  end.

Variable here : loc.
Fixpoint epairs (ps : list expr) (s : rstate)
    (k : list (value * value) -> rstate -> result) : result :=
  match ps with
  | [] => k [] s
  | EPair _ kx vx :: r =>
      rbind (ev ctx kx s) (fun vk s1 => rbind (ev ctx vx s1) (fun vv s2 =>
      epairs r s2 (fun kvs s3 => k ((vk, vv) :: kvs) s3)))
  | _ :: _ => Stop EOther here s
  end.
End EList.

Lemma ev_function_eq ctx a name args fast s :
  ev ctx (EFunction a name args fast) s =
  elist ctx args s (fun vs s1 =>
    lift (aloc a) s1 (fetch_fn fe env name) (fun id => do_call fe (aloc a) fast id env vs s1)).
Proof. reflexivity. Qed.

Lemma ev_method_eq ctx a x name args ns s :
  ev ctx (EMethod a x name args ns) s =
  rbind (ev ctx x s) (fun v s1 =>
  elist ctx args s1 (fun vs s2 =>
    match ns, v with
    | true, VNil => Done VNil s2
    | _, _ => if ns && fetch_fn_zero v name then Done VNil s2
              else lift (aloc a) s2 (fetch_fn fe v name) (fun id => do_call fe (aloc a) false id v vs s2)
    end)).
Proof. reflexivity. Qed.

Lemma ev_array_eq ctx a es s :
  ev ctx (EArray a es) s =
  elist ctx es s (fun vs s1 =>
    alloc cfg (aloc a) (Z.of_nat (List.length vs)) s1 (fun s2 => Done (VArr TIface vs) s2)).
Proof. reflexivity. Qed.

Lemma ev_map_eq ctx a pairs s :
  ev ctx (EMap a pairs) s =
  epairs ctx (aloc a) pairs s (fun kvs s1 =>
    lift (aloc a) s1 (keys_as_str kvs) (fun skvs =>
    alloc cfg (aloc a) (Z.of_nat (List.length kvs)) s1 (fun s2 =>
    Done (VMap TString TIface (build_map skvs)) s2))).
Proof. reflexivity. Qed.

Lemma elist_nm ctx es :
  (forall x, In x es -> forall s, not_machine (ev ctx x s)) ->
  forall k, (forall vs s, not_machine (k vs s)) -> forall s, not_machine (elist ctx es s k).
Proof.
  induction es as [|x r IH]; intros Hes k Hk s; cbn [elist]; [apply Hk|].
  apply rbind_nm; [apply Hes; left; reflexivity|]. intros v s1.
  apply IH; [intros y Hy; apply Hes; right; exact Hy|]. intros vs s2. apply Hk.
Qed.

Lemma epairs_nm ctx here ps :
  (forall a kx vx, In (EPair a kx vx) ps ->
     (forall s, not_machine (ev ctx kx s)) /\ (forall s, not_machine (ev ctx vx s))) ->
  forall k, (forall kvs s, not_machine (k kvs s)) -> forall s, not_machine (epairs ctx here ps s k).
Proof.
  induction ps as [|p r IH]; intros Hps k Hk s; cbn [epairs]; [apply Hk|].
  destruct p; try exact I.
  destruct (Hps a p1 p2 (or_introl eq_refl)) as [Hkx Hvx].
  apply rbind_nm; [apply Hkx|]. intros vk s1. apply rbind_nm; [apply Hvx|]. intros vv s2.
  apply IH; [intros a' kx vx Hin; apply (Hps a' kx vx); right; exact Hin|].
  intros kvs s3. apply Hk.
Qed.

Lemma lsize_in x es : In x es -> (esize x <= lsize es)%nat.
Proof.
  induction es as [|y r IH]; intros H; [contradiction|]. cbn [lsize]. destruct H as [->|H]; [lia|].
  specialize (IH H). lia.
Qed.

Lemma esize_method a x nm args ns : esize (EMethod a x nm args ns) = S (esize x + lsize args).
Proof. reflexivity. Qed.
Lemma esize_function a nm args f : esize (EFunction a nm args f) = S (lsize args).
Proof. reflexivity. Qed.
Lemma esize_builtin a b args : esize (EBuiltin a b args) = S (lsize args).
Proof. reflexivity. Qed.
Lemma esize_array a es : esize (EArray a es) = S (lsize es).
Proof. reflexivity. Qed.
Lemma esize_map a es : esize (EMap a es) = S (lsize es).
Proof. reflexivity. Qed.
Lemma esize_pair a k v : esize (EPair a k v) = S (esize k + esize v).
Proof. reflexivity. Qed.

Ltac nm_step IH :=
  first
  [ exact I
  | apply IH; lia
  | apply rbind_nm; [ | intros ? ? ]
  | apply lift_nm; [ solve [auto with nm] | intros ? ]
  | apply alloc_nm; intros ?
  | apply do_call_nm; exact Hfe
  | apply all_loop_nm; intros ? ?
  | apply none_loop_nm; intros ? ?
  | apply any_loop_nm; intros ? ?
  | apply count_loop_nm; [ intros ? ? | intros ? ? ]
  | apply filter_loop_nm; [ intros ? ? | intros ?; apply p_fetch_nm | intros ? ? ]
  | apply map_loop_nm; [ intros ? ? | intros ? ? ]
  | match goal with |- not_machine (if ?b then _ else _) => destruct b end
  | match goal with |- not_machine (match ?x with _ => _ end) => destruct x end ].

Lemma eval_nm_sized : forall n e, (esize e < n)%nat -> forall ctx s, not_machine (ev ctx e s).
Proof.
  induction n as [|n IH]; intros e Hs ctx s; [lia|].
  destruct e.
  - exact I.
  - (* EIdent *) cbn [eval]. repeat nm_step IH.
  - exact I.
  - exact I.
  - exact I.
  - exact I.
  - exact I.
  - (* EUnary *) cbn [esize] in Hs. destruct op; cbn [eval]; repeat nm_step IH.
  - (* EBinary *) cbn [esize] in Hs. destruct op; cbn [eval]; repeat nm_step IH.
  - (* EMatches *) cbn [esize] in Hs. destruct re; cbn [eval]; repeat nm_step IH.
  - (* EProperty *) cbn [esize] in Hs. cbn [eval]. repeat nm_step IH.
  - (* EIndex *) cbn [esize] in Hs. cbn [eval]. repeat nm_step IH.
  - (* ESlice *) cbn [esize] in Hs. destruct from, to; cbn [eval]; repeat nm_step IH.
  - (* EMethod *) rewrite esize_method in Hs. rewrite ev_method_eq.
    apply rbind_nm; [apply IH; lia|]. intros v s1.
    apply elist_nm.
    + intros y Hy s'. pose proof (lsize_in y args Hy). apply IH; lia.
    + intros vs s2. repeat nm_step IH.
  - (* EFunction *) rewrite esize_function in Hs. rewrite ev_function_eq.
    apply elist_nm.
    + intros y Hy s'. pose proof (lsize_in y args Hy). apply IH; lia.
    + intros vs s2. repeat nm_step IH.
  - (* EBuiltin *) rewrite esize_builtin in Hs.
    destruct b; destruct args as [|x [|c [|d r]]]; cbn [eval]; try exact I; cbn [lsize] in Hs;
      repeat nm_step IH.
  - (* EClosure *) cbn [esize] in Hs. cbn [eval]. apply IH; lia.
  - (* EPointer *) cbn [eval]. repeat nm_step IH.
  - (* ECond *) cbn [esize] in Hs. cbn [eval]. repeat nm_step IH.
  - (* EArray *) rewrite esize_array in Hs. rewrite ev_array_eq.
    apply elist_nm.
    + intros y Hy s'. pose proof (lsize_in y es Hy). apply IH; lia.
    + intros vs s2. repeat nm_step IH.
  - (* EMap *) rewrite esize_map in Hs. rewrite ev_map_eq.
    apply epairs_nm.
    + intros a' kx vx Hin. pose proof (lsize_in _ pairs Hin) as Hsz. rewrite esize_pair in Hsz.
      split; intros s'; apply IH; lia.
    + intros kvs s1. repeat nm_step IH.
  - exact I.
Qed.
End EvalNM.

Theorem eval_no_machine : forall fe cfg env, fn_no_machine fe ->
  forall e ctx s, not_machine (eval fe cfg env ctx e s).
Proof. intros fe cfg env H e ctx s. apply (eval_nm_sized fe cfg env H (S (esize e))). lia. Qed.

Theorem run_ref_no_machine : forall fe cfg env c e, fn_no_machine fe ->
  not_machine (run_ref fe cfg env c e).
Proof.
  intros fe cfg env c e H. unfold run_ref.
  apply rbind_nm; [apply eval_no_machine; exact H|]. intros v s.
  destruct c; [exact I| |]; (apply lift_nm; [auto with nm|intros ?; exact I]).
Qed.

(* non-vacuity: an environment whose functions never fail with EMachine, and a run that fails
   with another class *)
Definition fe_demo : fenv :=
  mkFenv (fun _ => None) (fun _ _ _ => Fail EUser) (fun _ _ _ => None) (fun _ _ => None) (fun x _ => x).
Example fe_demo_ok : fn_no_machine fe_demo.
Proof. intros id recv args. cbn. discriminate. Qed.
Example run_demo :
  run_ref fe_demo (mkCfg false 100) VNil CastNone (EUnary ann0 UMinus (EBool ann0 true))
  = Stop EInvalidOp noloc rs0.
Proof. reflexivity. Qed.

Print Assumptions eval_no_machine.
Print Assumptions run_ref_no_machine.

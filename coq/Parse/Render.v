(* Parse/Render.v — from the printer's TOKENS to source TEXT (list of runes), for the text-level
   round trip of C11 (lexer composed with parser).

   render L toks     spells every token (identifier, number, operator incl. the word operators and
                     `not` / `not in`, bracket, quoted string with the canonical escapes of
                     Lex/LexProofs.v `canon_item`) and puts the white-space run `gap L i` chosen by the
                     layout L in front of token i (the run in front of the final EOF token is the
                     trailing white space).  For the two-word operator `not in` the layout also
                     chooses the run between the two words (`inner L i`), for a string literal the
                     quote character (`dquote L i`).
   lexable toks      every token has a spelling (decidable; it does not depend on the layout).
   layout_good L t   the decidable side condition under which the rendered text lexes back to the
                     tokens: all runs consist of space/tab/LF/CR/VT/FF, and a run is non-empty where
                     juxtaposition would change the token list (`xfollow_ok`: what the first rune
                     after a token must not be); around `not in` it demands U+0020 only (known
                     finding C11-notin-spacing).
   gaps_ok, notin_spaced, not_in_free
                     simple decidable conditions that imply `layout_good` (TextProofs.v roomy_good): white
                     space between all tokens, U+0020 inside and directly after `not in` (THE carve-out
                     for the known finding), and no operator token `not` directly followed by `in`.
   tree_textable t   decidable: every token the printer emits for t (whatever the parentheses) has a
                     spelling.
   parse_text        parser.Parse on a source text: lexer.Lex, then the token-level parser.
   map_loc phi, erase_loc
                     relabels / forgets every node location (the round-trip theorems are stated modulo
                     locations); index_from, nth_loc, loc_at, distinct_locs: index labels, for the theorem
                     that says where the nodes of the parsed tree are located.

   The token classes, their spellings and side conditions are those of Lex/LexProofs.v (`ptok`,
   `tok_runes`, `tok_ok`, `follow_ok`); `xtok` adds the two spellings that start with the word `not`
   (the lexer handles them in a state of their own).   No proofs in this file. *)
From Coq Require Import ZArith Bool List String Ascii Floats.
Require Import X.Base.Num X.Base.Value X.Syn.Ast X.Syn.Tok X.Lex.Lexer X.Lex.LexProofs X.Parse.Parser X.Parse.Printer.
Import ListNotations.
Open Scope Z_scope.

(* ------------------------------------------------------------------ bytes of a Go string back to runes *)
Fixpoint string_bytes (s : string) : list Z :=
  match s with EmptyString => [] | String a r => code a :: string_bytes r end.

(* UTF-8 decoding without validation: every use re-encodes the result and compares it with the input *)
Fixpoint utf8_decode_bytes (bs : list Z) : option (list Z) :=
  match bs with
  | [] => Some []
  | b0 :: r0 =>
    if b0 <? 128 then option_map (cons b0) (utf8_decode_bytes r0)
    else if b0 <? 224 then
      match r0 with
      | b1 :: r1 => option_map (cons ((b0 - 192) * 64 + (b1 - 128))) (utf8_decode_bytes r1)
      | _ => None
      end
    else if b0 <? 240 then
      match r0 with
      | b1 :: b2 :: r2 =>
          option_map (cons ((b0 - 224) * 4096 + (b1 - 128) * 64 + (b2 - 128))) (utf8_decode_bytes r2)
      | _ => None
      end
    else
      match r0 with
      | b1 :: b2 :: b3 :: r3 =>
          option_map (cons ((b0 - 240) * 262144 + (b1 - 128) * 4096 + (b2 - 128) * 64 + (b3 - 128)))
                     (utf8_decode_bytes r3)
      | _ => None
      end
  end.

Definition utf8_decode (s : string) : option (list Z) := utf8_decode_bytes (string_bytes s).

(* ------------------------------------------------------------------ spellings that start with the word `not` *)
Inductive xtok :=
| XP (t : ptok)                 (* the classes of Lex/LexProofs.v *)
| XNot                          (* the unary operator `not` *)
| XNotIn (sp : list Z).         (* `not` sp `in`: the binary operator "not in" *)

Definition not_runes : list Z := [110; 111; 116].
Definition in_runes : list Z := [105; 110].

Definition xtok_runes (x : xtok) : list Z :=
  match x with
  | XP t => tok_runes t
  | XNot => not_runes
  | XNotIn sp => not_runes ++ sp ++ in_runes
  end.

Definition xtok_kind (x : xtok) : tkind :=
  match x with XP t => tok_kind t | XNot | XNotIn _ => TkOperator end.

Definition xtok_value (x : xtok) : string :=
  match x with XP t => tok_value t | XNot => "not" | XNotIn _ => "not in" end.

Fixpoint drop_spaces (l : list Z) : list Z :=
  match l with
  | c :: t => if c =? 32 then drop_spaces t else l
  | [] => []
  end.

(* acceptWord("in") on the text that follows the word `not`: spaces, `in`, then a space or the end
   (the model's end-of-input marker -1 is no rune of a real text) *)
Definition notin_accepts (tail : list Z) : bool :=
  match drop_spaces tail with
  | c1 :: c2 :: t2 =>
      (c1 =? 105) && (c2 =? 110) && match t2 with [] => true | c :: _ => (c =? 32) || (c =? eof) end
  | _ => false
  end.

Definition is_nil {A : Type} (l : list A) : bool := match l with [] => true | _ :: _ => false end.

(* number spellings: splitting a rune list into the parts of Lex/LexProofs.v `numsp` *)
Definition span (p : Z -> bool) : list Z -> list Z * list Z :=
  fix go (l : list Z) : list Z * list Z :=
    match l with
    | c :: t => if p c then let (a, b) := go t in (c :: a, b) else ([], l)
    | [] => ([], [])
    end.

Definition exp_of (r : list Z) : option exponent :=
  match r with
  | [] => None
  | e :: r' =>
      match r' with
      | s :: es => if mem s [43; 45] then Some (e, Some s, es) else Some (e, None, r')
      | [] => Some (e, None, [])
      end
  end.

Definition numsp_of_runes (rs : list Z) : option numsp :=
  match rs with
  | [] => None
  | c0 :: r0 =>
      if c0 =? 46 then
        match r0 with
        | d :: r1 => let (ds, r2) := span is_dec_us r1 in Some (NDot d ds (exp_of r2))
        | [] => None
        end
      else
        match r0 with
        | x :: r1 =>
            if (c0 =? 48) && mem x [120; 88] then Some (NHex x r1)
            else
              let (ds, r2) := span is_dec_us r0 in
              match r2 with
              | c :: r3 =>
                  if c =? 46 then let (fs, r4) := span is_dec_us r3 in Some (NDec c0 ds (Some fs) (exp_of r4))
                  else Some (NDec c0 ds None (exp_of r2))
              | [] => Some (NDec c0 ds None None)
              end
        | [] => Some (NDec c0 [] None None)
        end
  end.

(* operator spellings other than `not` and `not in` *)
Definition op_of_runes (rs : list Z) : option xtok :=
  match rs with
  | [] => None
  | [r] =>
      if r =? 46 then Some (XP (PDot DDot))
      else if mem r op1_runes then Some (XP (POp1 r))
      else if mem r op2_first then Some (XP (POp2 r None))
      else Some (XP (PIdent r []))
  | [r; r2] =>
      if (r =? 46) && (r2 =? 46) then Some (XP (PDot DDotDot))
      else if (r =? 63) && (r2 =? 46) then Some (XP (PDot DNilsafe))
      else if mem r op2_first then Some (XP (POp2 r (Some r2)))
      else Some (XP (PIdent r [r2]))
  | r :: w => Some (XP (PIdent r w))
  end.

(* what is known of a token's spelling before the layout is chosen *)
Inductive pre :=
| PreX (x : xtok)
| PreStr (rs : list Z)          (* a string literal with these runes; the layout chooses the quote *)
| PreNotIn.                     (* `not in`; the layout chooses the run between the words *)

Definition candidate (t : token) (rs : list Z) : option pre :=
  match tkind_of t with
  | TkIdentifier => match rs with r :: w => Some (PreX (XP (PIdent r w))) | [] => None end
  | TkNumber => option_map (fun n => PreX (XP (PNum n))) (numsp_of_runes rs)
  | TkString => Some (PreStr rs)
  | TkOperator =>
      if String.eqb (tval t) "not" then Some (PreX XNot)
      else if String.eqb (tval t) "not in" then Some PreNotIn
      else option_map PreX (op_of_runes rs)
  | TkBracket => match rs with [r] => Some (PreX (XP (PBracket r))) | _ => None end
  | TkEOF => None
  end.

Record layout := mkLayout {
  gap : nat -> list Z;          (* the run in front of token i; for the EOF token: the trailing run *)
  inner : nat -> list Z;        (* the run between `not` and `in` when token i is the operator "not in" *)
  dquote : nat -> bool          (* token i, when it is a string: double quotes (true) or single quotes *)
}.

Definition finish (L : layout) (i : nat) (p : pre) : xtok :=
  match p with
  | PreX x => x
  | PreStr rs => let q := if dquote L i then 34 else 39 in XP (PStr q (map (canon_item q) rs))
  | PreNotIn => XNotIn (inner L i)
  end.

Fixpoint items_of (L : layout) (i : nat) (ps : list pre) : list (list Z * xtok) :=
  match ps with
  | [] => []
  | p :: r => (gap L i, finish L i p) :: items_of L (S i) r
  end.

Fixpoint layoutx (items : list (list Z * xtok)) (trail : list Z) : list Z :=
  match items with
  | [] => trail
  | (ws, x) :: r => ws ++ xtok_runes x ++ layoutx r trail
  end.

(* kind, value and position (of the first rune) of the tokens of a layout *)
Fixpoint expectedx (pos : loc) (items : list (list Z * xtok)) : list token :=
  match items with
  | [] => []
  | (ws, x) :: r =>
      let p := advance pos ws in
      mkTok p (xtok_kind x) (xtok_value x) :: expectedx (advance p (xtok_runes x)) r
  end.

Section Classes.
  (* unicode.IsLetter / IsDigit / IsSpace on code points >= 128: oracle arguments, as in Lex/Lexer.v *)
  Variables uni_letter uni_digit uni_space : Z -> bool.

  Definition xtok_ok (x : xtok) : bool :=
    match x with
    | XP t => tok_ok uni_letter uni_digit uni_space t
    | XNot => true
    | XNotIn sp => forallb (fun c => c =? 32) sp && negb (is_nil sp)
    end.

  (* what must follow the token in the text for it to end where it is spelled to end (and, for the word
     `not`, not to be taken for the first half of `not in`) *)
  Definition xfollow_ok (x : xtok) (tail : list Z) : bool :=
    match x with
    | XP t => follow_ok uni_letter uni_digit t tail
    | XNot => hd_okb (fun c => negb (is_alnum uni_letter uni_digit c)) tail && negb (notin_accepts tail)
    | XNotIn _ => hd_okb (fun c => c =? 32) tail
    end.

  Fixpoint layoutx_ok (items : list (list Z * xtok)) (trail : list Z) : bool :=
    match items with
    | [] => forallb ascii_ws trail
    | (ws, x) :: r =>
        forallb ascii_ws ws && xtok_ok x && xfollow_ok x (layoutx r trail) && layoutx_ok r trail
    end.

  (* the spelling found for a token is accepted only if it denotes exactly that token *)
  Definition check (t : token) (p : pre) : bool :=
    match p with
    | PreX x => xtok_ok x && tkind_eqb (xtok_kind x) (tkind_of t) && String.eqb (xtok_value x) (tval t)
    | PreStr rs => forallb valid_scalar rs && String.eqb (utf8_encode rs) (tval t) && tkind_eqb TkString (tkind_of t)
    | PreNotIn => tkind_eqb TkOperator (tkind_of t) && String.eqb "not in" (tval t)
    end.

  Definition pre_spell (t : token) : option pre :=
    match utf8_decode (tval t) with
    | Some rs =>
        match candidate t rs with
        | Some p => if check t p then Some p else None
        | None => None
        end
    | None => None
    end.

  (* the token list of the printer: spellable tokens, then the EOF token *)
  Fixpoint pre_spell_all (toks : list token) : option (list pre) :=
    match toks with
    | [] => None
    | t :: r =>
        match r with
        | [] => if tkind_eqb (tkind_of t) TkEOF && String.eqb (tval t) "" then Some [] else None
        | _ :: _ =>
            match pre_spell t, pre_spell_all r with
            | Some p, Some ps => Some (p :: ps)
            | _, _ => None
            end
        end
    end.

  Definition lexable (toks : list token) : bool :=
    match pre_spell_all toks with Some _ => true | None => false end.

  Definition render_pre (L : layout) (ps : list pre) : list Z :=
    layoutx (items_of L 0 ps) (gap L (List.length ps)).

  Definition render (L : layout) (toks : list token) : list Z :=
    match pre_spell_all toks with Some ps => render_pre L ps | None => [] end.

  Definition layout_good (L : layout) (toks : list token) : bool :=
    match pre_spell_all toks with
    | Some ps => layoutx_ok (items_of L 0 ps) (gap L (List.length ps))
    | None => false
    end.

  (* the positions lexer.Lex gives to the tokens of a text (the EOF token included) *)
  Definition text_positions (txt : list Z) : list loc :=
    match lex uni_letter uni_digit uni_space txt with LexOk ts => map tloc ts | _ => [] end.

  (* parser.Parse(text): lexer.Lex, then the parser on the tokens *)
  Definition parse_text (g : grammar) (o : oracles) (txt : list Z) : parse_result :=
    match lex uni_letter uni_digit uni_space txt with
    | LexOk ts => parse g o ts
    | LexErr l => RErr l
    | LexOutOfFuel => RFuel
    end.
End Classes.

(* ------------------------------------------------------------------ simple sufficient conditions for `layout_good`
   (decidable predicates on the layout and the token list) *)
Definition is_op_tok (v : string) (t : token) : bool := tkind_eqb (tkind_of t) TkOperator && String.eqb (tval t) v.

(* every run is white space; the runs BETWEEN two tokens are non-empty (the run in front of the first token
   and the run at the end of the text may be empty).  `i` is the index of the first token of `toks`,
   whose last element is the EOF token *)
Fixpoint gaps_ok (L : layout) (i : nat) (toks : list token) : bool :=
  match toks with
  | [] => true
  | _ :: r =>
      forallb ascii_ws (gap L i) && (Nat.eqb i 0 || is_nil r || negb (is_nil (gap L i))) && gaps_ok L (S i) r
  end.

(* the run inside every `not in` is a non-empty white-space run *)
Fixpoint notin_white (L : layout) (i : nat) (toks : list token) : bool :=
  match toks with
  | [] => true
  | t :: r =>
      (if is_op_tok "not in" t then forallb ascii_ws (inner L i) && negb (is_nil (inner L i)) else true) &&
      notin_white L (S i) r
  end.

(* THE CARVE-OUT (known finding C11-notin-spacing): inside `not in` only U+0020, and U+0020 (or the end of
   the text) directly after it *)
Fixpoint notin_spaced (L : layout) (i : nat) (toks : list token) : bool :=
  match toks with
  | [] => true
  | t :: r =>
      (if is_op_tok "not in" t
       then forallb (fun c => c =? 32) (inner L i) && negb (is_nil (inner L i)) && hd_okb (fun c => c =? 32) (gap L (S i))
       else true) &&
      notin_spaced L (S i) r
  end.

(* the operator token `not` is never directly followed by the operator token `in` (the text `not in` IS the
   operator "not in"; the printer never emits that pair: an operand follows a unary operator) *)
Fixpoint not_in_free (toks : list token) : bool :=
  match toks with
  | [] => true
  | t :: r =>
      (if is_op_tok "not" t then match r with t2 :: _ => negb (is_op_tok "in" t2) | [] => true end else true) &&
      not_in_free r
  end.

(* ------------------------------------------------------------------ trees whose printed tokens all have a spelling
   (decidable, independent of the parentheses and of the layout): identifiers, names of properties, methods,
   functions and builtins are identifiers of the lexer; the spellings the formatters give to the numbers are
   number literals; strings are valid UTF-8; operators are operators of the lexer, and no unary operator is
   spelled `in` *)
Section TreeText.
  Variables uni_letter uni_digit uni_space : Z -> bool.
  Variable fmt_int : Z -> string.
  Variable fmt_float : float -> string.

  Definition spellable (k : tkind) (v : string) : bool :=
    match pre_spell uni_letter uni_digit uni_space (mkTok noloc k v) with Some _ => true | None => false end.

  Fixpoint tree_textable (t : expr) : bool :=
    let fix all (l : list expr) : bool := match l with [] => true | x :: r => tree_textable x && all r end in
    let opt := fun (x : option expr) => match x with Some y => tree_textable y | None => true end in
    match t with
    | ENil _ | EBool _ _ | EPointer _ => true
    | EIdent _ n _ => spellable TkIdentifier n
    | EInt _ z => spellable TkNumber (fmt_int z)
    | EFloat _ x => spellable TkNumber (fmt_float x)
    | EStr _ s => spellable TkString s
    | EConst _ _ => false
    | EUnary _ u e =>
        spellable TkOperator (string_of_unop u) && negb (String.eqb (string_of_unop u) "in") && tree_textable e
    | EBinary _ b l r => spellable TkOperator (string_of_binop b) && tree_textable l && tree_textable r
    | EMatches _ _ l r => tree_textable l && tree_textable r
    | EProperty _ e n _ => spellable TkIdentifier n && tree_textable e
    | EIndex _ e i => tree_textable e && tree_textable i
    | ESlice _ e from to => tree_textable e && opt from && opt to
    | EMethod _ e n args _ => spellable TkIdentifier n && tree_textable e && all args
    | EFunction _ n args _ => spellable TkIdentifier n && all args
    | EBuiltin _ b args => spellable TkIdentifier (string_of_builtin b) && all args
    | EClosure _ e => tree_textable e
    | ECond _ c x y => tree_textable c && tree_textable x && tree_textable y
    | EArray _ es => all es
    | EMap _ ps => all ps
    | EPair _ k v => tree_textable k && tree_textable v
    end.
End TreeText.

(* ------------------------------------------------------------------ relabelling and forgetting locations *)
Definition map_ann_loc (phi : loc -> loc) (a : ann) : ann := mkAnn (phi (aloc a)) (akind a).

Fixpoint map_loc (phi : loc -> loc) (e : expr) : expr :=
  match e with
  | ENil a => ENil (map_ann_loc phi a)
  | EIdent a n ns => EIdent (map_ann_loc phi a) n ns
  | EInt a z => EInt (map_ann_loc phi a) z
  | EFloat a f => EFloat (map_ann_loc phi a) f
  | EBool a b => EBool (map_ann_loc phi a) b
  | EStr a s => EStr (map_ann_loc phi a) s
  | EConst a v => EConst (map_ann_loc phi a) v
  | EUnary a op x => EUnary (map_ann_loc phi a) op (map_loc phi x)
  | EBinary a op l r => EBinary (map_ann_loc phi a) op (map_loc phi l) (map_loc phi r)
  | EMatches a re l r => EMatches (map_ann_loc phi a) re (map_loc phi l) (map_loc phi r)
  | EProperty a x n ns => EProperty (map_ann_loc phi a) (map_loc phi x) n ns
  | EIndex a x i => EIndex (map_ann_loc phi a) (map_loc phi x) (map_loc phi i)
  | ESlice a x f t => ESlice (map_ann_loc phi a) (map_loc phi x) (option_map (map_loc phi) f) (option_map (map_loc phi) t)
  | EMethod a x n args ns => EMethod (map_ann_loc phi a) (map_loc phi x) n (map (map_loc phi) args) ns
  | EFunction a n args fast => EFunction (map_ann_loc phi a) n (map (map_loc phi) args) fast
  | EBuiltin a b args => EBuiltin (map_ann_loc phi a) b (map (map_loc phi) args)
  | EClosure a x => EClosure (map_ann_loc phi a) (map_loc phi x)
  | EPointer a => EPointer (map_ann_loc phi a)
  | ECond a c x y => ECond (map_ann_loc phi a) (map_loc phi c) (map_loc phi x) (map_loc phi y)
  | EArray a es => EArray (map_ann_loc phi a) (map (map_loc phi) es)
  | EMap a ps => EMap (map_ann_loc phi a) (map (map_loc phi) ps)
  | EPair a k v => EPair (map_ann_loc phi a) (map_loc phi k) (map_loc phi v)
  end.

Definition map_result (phi : loc -> loc) (r : parse_result) : parse_result :=
  match r with ROk e => ROk (map_loc phi e) | RErr l => RErr (phi l) | RFuel => RFuel end.

(* a token at another position *)
Definition reloc (phi : loc -> loc) (t : token) : token := mkTok (phi (tloc t)) (tkind_of t) (tval t).

(* forgetting: every location becomes `noloc` *)
Definition erase_loc (e : expr) : expr := map_loc (fun _ => noloc) e.
Definition erase_result (r : parse_result) : parse_result := map_result (fun _ => noloc) r.

(* a token without its position *)
Definition strip_tok (t : token) : token := mkTok noloc (tkind_of t) (tval t).
Definition strip (ts : list token) : list token := map strip_tok ts.

(* index labels: token i of a list carries the label (i + 1, 0); `nth_loc ts` reads a label back as the
   location of the token it names *)
Fixpoint index_from (i : nat) (ts : list token) : list token :=
  match ts with
  | [] => []
  | t :: r => mkTok (Z.of_nat (S i), 0) (tkind_of t) (tval t) :: index_from (S i) r
  end.
Definition nth_loc (ts : list token) (l : loc) : loc :=
  if (snd l =? 0) && (1 <=? fst l) then
    match nth_error ts (Z.to_nat (fst l - 1)) with Some t => tloc t | None => noloc end
  else noloc.

(* the location, in the list `ps`, that stands at the index of the first token of `ts` located at `l` *)
Fixpoint loc_at (ts : list token) (ps : list loc) (l : loc) : loc :=
  match ts, ps with
  | t :: r, p :: q => if loc_eqb (tloc t) l then p else loc_at r q l
  | _, _ => noloc
  end.
(* as a relabelling of trees: unlabelled nodes (`noloc`: the conditional nodes) stay unlabelled *)
Definition label_pos (ts : list token) (ps : list loc) (l : loc) : loc :=
  if loc_eqb l noloc then noloc else loc_at ts ps l.
(* the located tokens carry pairwise distinct locations *)
Fixpoint distinct_locs (ts : list token) : bool :=
  match ts with
  | [] => true
  | t :: r => (loc_eqb (tloc t) noloc || negb (existsb (fun u => loc_eqb (tloc u) (tloc t)) r)) && distinct_locs r
  end.

(* ------------------------------------------------------------------ layouts for statements and examples *)
(* every token preceded by the same run (the first token and the end of the text by none) *)
Definition uniform_layout (ws : list Z) (dq : bool) : layout :=
  mkLayout (fun i => match i with O => [] | S _ => ws end) (fun _ => [32]) (fun _ => dq).

(* the runs cycle through a list of runs *)
Definition cyclic_layout (runs : list (list Z)) (inn : list Z) (dq : nat -> bool) : layout :=
  mkLayout (fun i => nth (Nat.modulo i (List.length runs)) runs [32]) (fun _ => inn) dq.

(* Parse/Sound.v — definitions for the SOUNDNESS half of property C11 ("every accepted token
   sequence is a printing of its tree").  No proofs here.

   The reference grammar's language is the image of the printer (Parse/Printer.v): `print_any c t`
   for a printable tree t and a parenthesis oracle c.  The parser accepts more SPELLINGS of the same
   trees than the printer produces, and it ignores the locations of the tokens a node is not anchored
   at.  `norm` is the explicit map from a token sequence to the printer's spelling; it is a function
   of the token sequence alone (a left-to-right scan with one token of look-ahead and a stack of the
   open brackets), it never looks at the parser.  What `norm` forgets / rewrites, and nothing else:

     L  locations of tokens no node is anchored at:  ( ) ] } , : ? . ?. EOF and bare map keys
        get `noloc`; every other token keeps its location (node locations ARE the locations of the
        anchor tokens: the theorem's equality of token lists includes them);
     N  the spelling of a number literal: replaced by the formatter's spelling of its value
        (`canon_num`: 0x1F, 1_000, 1e3 ...);
     M  the kind of a member name after `.` / `?.`: Operator-kind words (`a.not`, `a.in`: values that are
        valid identifiers) become Identifier tokens;
     K  the kind of a bare map key: `{a: 1}`, `{1: 1}`, `{"a": 1}` all become a String token;
     P  the implicit pointer: `.x` where an operand is expected becomes `# . x` (the inserted `#`
        carries the location of the `.`, which is where the parser locates the PointerNode; `?.` in that
        position is left alone: the parser rejects it);
     S  the sticky nil-safe flag: after `?.` every further `.` of the same chain is spelled `?.`
        (the parser sets NilSafe on all later steps of the chain; the printer spells NilSafe as `?.`);
     C  a trailing comma after an element and before the `]` of an array or the `}` of a map is dropped;
     E  everything after the first EOF token is dropped (the parser stops there).

   The rewriting rules are restricted to the situations in which the parser treats the two spellings alike, so
   that (as far as known: bounded sweep `check_all` in Parse/SoundCorProofs.v, theorem only for `plain`
   sequences) a rejected sequence is never normalised to a printing.  `[` after an operand opens an index
   (frame KIndex: no trailing comma), elsewhere an array (KBrack).

   Where the parser accepts a sequence that is NOT a spelling of any printing, `norm` emits the
   token `poison` (kind EOF, value "poison": no printing contains it), so that the carve-out of the
   theorem is the decidable predicate `clean (norm ts)`:

     p1  a literal (number, string, true/false/nil) directly followed by `.` `?.` `[`
         — accepted only behind a unary operator, where parsePrimary applies the postfix steps to the
         UnaryNode: `- "a" . b` is `(- "a").b`  (finding C11-unary-literal-postfix);
     p2  the conditional with an omitted middle `a ?: b` — the tree is Conditional(a, a, b), whose
         printing repeats the condition;
     p3  a map key that starts with `(` but is not one parenthesised expression: `{(a).b: 1}`,
         `{(a)+1: 1}` — parseMapExpression calls parseExpression on it, the reference grammar has
         only `( expr ) :` (finding C11-open-paren-key);
     p4  an identifier directly followed by a non-operator token whose VALUE is "?." (a string
         literal "?."): parseIdentifierExpression compares only the value of the next token and sets
         NilSafe; such sequences are rejected later anyway.

   `good BR` is the remaining, per-token, part of the carve-out (BR = locations of the `{` tokens; that BR
   contains them is part of the predicate and holds by construction for `brace_locs ts`):
     g1  token kinds and values agree the way lexer.Lex guarantees: a Bracket token is one of
         ( ) [ ] { }, and `[` is not an Operator token;
     g2  no String token stands at the location of a `{` token (the printer decides "bare key" by
         comparing the key's location with the location of `{`);
     g3  the formatter's spelling of a number token's value denotes that value again (`num_okb`;
         decided without comparing floats: for a float the spelling must be the formatter's own up
         to underscores). *)
From Coq Require Import ZArith Bool List String Ascii Floats.
Require Import X.Base.Num X.Base.Value X.Syn.Ast X.Syn.Tok X.Parse.Parser X.Parse.Printer.
Import ListNotations.
Open Scope Z_scope.

(* ------------------------------------------------------------------ scanner state *)
Inductive nst :=
| NOpen                 (* an operand is expected *)
| NOpenK                (* an operand is expected, and it is a map key *)
| NOpenC                (* the closure of a two-argument builtin is expected *)
| NEnd (fl : bool)      (* an operand has ended; fl = sticky nil-safe flag of its chain *)
| NDot (fl : bool).     (* a member name is expected; fl = flag the step gets *)

Inductive bkind := KParen | KCall2 | KBrack | KIndex | KMap | KClos | KKey.
Definition is_end (st : nst) : bool := match st with NEnd _ => true | _ => false end.
Definition frame := (bool * bkind)%type.       (* flag of the enclosing chain, kind of the bracket *)

Definition flag_of (st : nst) : bool := match st with NEnd fl | NDot fl => fl | _ => false end.
Definition top_flag (stk : list frame) : bool := match stk with (f, _) :: _ => f | [] => false end.
Definition top_kind (stk : list frame) : bkind := match stk with (_, k) :: _ => k | [] => KParen end.
Definition is_key_kind (k : bkind) : bool := match k with KKey => true | _ => false end.

Definition poison : token := mkTok noloc TkEOF "poison".
Definition is_poison (tk : token) : bool := is_kind tk TkEOF && val_is tk "poison".
Definition clean (l : list token) : bool := forallb (fun tk => negb (is_poison tk)) l.

Definition is_colon (tk : token) : bool := tok_is tk TkOperator [":"%string].
Definition is_dot (tk : token) : bool := val_is tk "." || val_is tk "?.".
(* first token of a postfix step *)
Definition pfx_start (tk : token) : bool :=
  (is_kind tk TkOperator || is_kind tk TkBracket) && (val_is tk "." || val_is tk "?." || val_is tk "[").
Definition is_keyword (v : string) : bool := String.eqb v "true" || String.eqb v "false" || String.eqb v "nil".

Definition same_kv (a b : token) : bool := tkind_eqb (tkind_of a) (tkind_of b) && String.eqb (tval a) (tval b).
Fixpoint all2 {A : Type} (f : A -> A -> bool) (l1 l2 : list A) : bool :=
  match l1, l2 with
  | [], [] => true
  | a :: r1, b :: r2 => f a b && all2 f r1 r2
  | _, _ => false
  end.

Section Norm.
  Variable g : grammar.
  Variable o : oracles.
  Variable fmt_int : Z -> string.
  Variable fmt_float : float -> string.

  Definition canon_num (v : string) : string :=
    match number_value (o_float o) v with
    | NLInt z => fmt_int z
    | NLFloat x => fmt_float x
    | NLBad => v
    end.

  Definition num_okb (v : string) : bool :=
    match number_value (o_float o) v with
    | NLInt z => match number_value (o_float o) (fmt_int z) with NLInt z' => z =? z' | _ => false end
    | NLFloat x => String.eqb (strip_underscores (fmt_float x)) (strip_underscores v)
    | NLBad => true
    end.

  (* the bracket a call of this name opens *)
  Definition callkind (name : string) : bkind :=
    match lookup name (g_builtins g) with
    | Some arity => if arity =? 2 then KCall2 else KParen
    | None => KParen
    end.

  Definition in_key_pos (st : nst) : bool := match st with NOpenK => true | _ => false end.

  (* p1 / p4 marks after a token that ends an operand *)
  Definition mark (bad : bool) (l : list token) : list token := if bad then poison :: l else l.

  Fixpoint norm (st : nst) (stk : list frame) (ts : list token) {struct ts} : list token :=
    match ts with
    | [] => []
    | tk :: r =>
      let nx := cur r in
      match tkind_of tk with
      | TkEOF => [eof_at noloc]
      | TkBracket =>
          if val_is tk "(" then
            lparen :: norm NOpen ((flag_of st, if in_key_pos st then KKey else KParen) :: stk) r
          else if val_is tk "[" then
            mkTok (tloc tk) TkBracket "[" :: norm NOpen ((flag_of st, if is_end st then KIndex else KBrack) :: stk) r
          else if val_is tk "{" then
            match st with
            | NOpenC => mkTok (tloc tk) TkBracket "{" :: norm NOpen ((false, KClos) :: stk) r
            | _ => mkTok (tloc tk) TkBracket "{" :: norm NOpenK ((false, KMap) :: stk) r
            end
          else if val_is tk ")" || val_is tk "]" || val_is tk "}" then
            mkTok noloc TkBracket (tval tk) ::
            mark (is_key_kind (top_kind stk) && negb (is_colon nx))            (* p3 *)
                 (norm (NEnd (top_flag stk)) (List.tl stk) r)
          else tk :: norm NOpen stk r
      | TkOperator =>
          match st with
          | NDot fl => (if valid_identifier (tval tk) then mkTok (tloc tk) TkIdentifier (tval tk) else tk) ::   (* M *)
                       norm (NEnd fl) stk r
          | _ =>
            if is_dot tk then
              match st with
              | NEnd fl => let fl' := fl || val_is tk "?." in dot_tok fl' :: norm (NDot fl') stk r   (* S *)
              | _ => if val_is tk "." then
                       mkTok (tloc tk) TkOperator "#" :: dot_tok false :: norm (NDot false) stk r     (* P *)
                     else tk :: norm NOpen stk r
              end
            else if val_is tk "," then
              match top_kind stk with
              | KCall2 => comma :: norm NOpenC stk r
              | KMap => if is_end st && tok_is nx TkBracket ["}"%string] then norm (NEnd false) stk r     (* C *)
                        else comma :: norm NOpenK stk r
              | KBrack => if is_end st && tok_is nx TkBracket ["]"%string] then norm (NEnd false) stk r   (* C *)
                          else comma :: norm NOpen stk r
              | _ => comma :: norm NOpen stk r
              end
            else if val_is tk ":" then colon :: norm NOpen stk r
            else if val_is tk "?" then
              mkTok noloc TkOperator "?" :: mark (is_colon nx) (norm NOpen stk r)               (* p2 *)
            else if val_is tk "#" then tk :: norm (NEnd false) stk r
            else tk :: norm NOpen stk r
          end
      | TkIdentifier =>
          match st with
          | NDot fl => mkTok (tloc tk) TkIdentifier (tval tk) :: norm (NEnd fl) stk r
          | _ =>
            if in_key_pos st && is_colon nx then mkTok noloc TkString (tval tk) :: norm (NEnd false) stk r   (* K *)
            else if is_keyword (tval tk) then
              tk :: mark (pfx_start nx) (norm (NEnd false) stk r)                               (* p1 *)
            else
              match r with
              | lp :: r' =>
                  if tok_is lp TkBracket ["("%string]
                  then tk :: lparen :: norm NOpen ((false, callkind (tval tk)) :: stk) r'
                  else tk :: mark (val_is nx "?." && negb (is_kind nx TkOperator))              (* p4 *)
                             (norm (NEnd false) stk r)
              | [] => tk :: norm (NEnd false) stk r
              end
          end
      | TkNumber =>
          match st with
          | NDot fl => tk :: norm (NEnd fl) stk r
          | _ =>
            if in_key_pos st && is_colon nx then mkTok noloc TkString (tval tk) :: norm (NEnd false) stk r   (* K *)
            else mkTok (tloc tk) TkNumber (canon_num (tval tk)) ::                              (* N *)
                 mark (pfx_start nx) (norm (NEnd false) stk r)                                  (* p1 *)
          end
      | TkString =>
          match st with
          | NDot fl => tk :: norm (NEnd fl) stk r
          | _ =>
            if in_key_pos st && is_colon nx then mkTok noloc TkString (tval tk) :: norm (NEnd false) stk r   (* K *)
            else tk :: mark (pfx_start nx) (norm (NEnd false) stk r)                            (* p1 *)
          end
      end
    end.

  (* the explicit erasure / desugaring of a whole token sequence *)
  Definition normalize (ts : list token) : list token := norm NOpen [] ts.

  (* ---------------------------------------------------------------- per-token carve-out *)
  Definition mem_loc (l : loc) (ls : list loc) : bool := existsb (loc_eqb l) ls.

  Definition six_brackets : list string := ["("; ")"; "["; "]"; "{"; "}"]%string.

  Definition tok_ok (BR : list loc) (tk : token) : bool :=
    match tkind_of tk with
    | TkBracket => existsb (String.eqb (tval tk)) six_brackets &&                               (* g1 *)
                   (negb (val_is tk "{") || mem_loc (tloc tk) BR)          (* BR covers the `{` tokens *)
    | TkOperator => negb (val_is tk "[")                                                        (* g1 *)
    | TkString => negb (mem_loc (tloc tk) BR)                                                   (* g2 *)
    | TkNumber => num_okb (tval tk)                                                             (* g3 *)
    | _ => true
    end.

  Definition good (BR : list loc) (ts : list token) : bool := forallb (tok_ok BR) ts.

  Definition brace_locs (ts : list token) : list loc :=
    map tloc (filter (fun tk => tok_is tk TkBracket ["{"%string]) ts).

  (* the decidable carve-out of the soundness theorem *)
  Definition sound_scope (ts : list token) : bool :=
    good (brace_locs ts) ts && clean (normalize ts).

  (* ---------------------------------------------------------------- the reference grammar's language *)
  Definition ref_parses (ts : list token) (t : expr) : Prop :=
    exists c, printable g fmt_int fmt_float o c t /\ normalize ts = print_any g fmt_int fmt_float c t.

  (* `plain ts`: the normalisation changes nothing but locations (same length, same kinds and values):
     no implicit pointer, no trailing comma, no Operator-kind member name, no Identifier/Number bare key,
     no `.` after `?.` in a chain, canonical number spellings, nothing after EOF *)
  Definition plain (ts : list token) : bool := all2 same_kv (normalize ts) ts.

  (* ---------------------------------------------------------------- the oracle, computed.
     A pair of parentheses is identified by the interval of NON-parenthesis tokens it encloses; the node at
     path q is identified by the interval of the pair that the probe oracle (one additional pair at q) adds to
     the minimal printing; `oracle_for target t q` = how many more pairs with that interval the target has
     than the minimal printing.  (The soundness proof constructs the oracle bottom-up; this function computes
     the same thing from the result and is used in the Examples of Props/C11.v.) *)
  Fixpoint pairs_go (ts : list token) (k : nat) (stack : list nat) (acc : list (nat * nat)) : list (nat * nat) :=
    match ts with
    | [] => acc
    | tk :: r =>
        if tok_is tk TkBracket ["("%string] then pairs_go r k (k :: stack) acc
        else if tok_is tk TkBracket [")"%string] then
          match stack with lo :: s' => pairs_go r k s' ((lo, k) :: acc) | [] => pairs_go r k [] acc end
        else pairs_go r (S k) stack acc
    end.
  Definition paren_pairs (ts : list token) : list (nat * nat) := pairs_go ts 0 [] [].
  Definition pair_eqb (a b : nat * nat) : bool := Nat.eqb (fst a) (fst b) && Nat.eqb (snd a) (snd b).
  Definition count_pair (p : nat * nat) (l : list (nat * nat)) : nat := List.length (filter (pair_eqb p) l).
  Fixpoint path_eqb (a b : list nat) : bool :=
    match a, b with
    | [], [] => true
    | x :: r, y :: r' => Nat.eqb x y && path_eqb r r'
    | _, _ => false
    end.
  Definition probe (q : list nat) : poracle := fun path => if path_eqb path q then 1%nat else 0%nat.
  Definition extra_pair (big small : list (nat * nat)) : option (nat * nat) :=
    find (fun p => Nat.ltb (count_pair p small) (count_pair p big)) big.

  Definition oracle_for (target : list token) (t : expr) : poracle := fun q =>
    let base := paren_pairs (print_any g fmt_int fmt_float no_extra t) in
    match extra_pair (paren_pairs (print_any g fmt_int fmt_float (probe q) t)) base with
    | Some iv => (count_pair iv (paren_pairs target) - count_pair iv base)%nat
    | None => 0%nat
    end.

  Definition oracle_of_tokens (ts : list token) : poracle :=
    match parse g o ts with
    | ROk t => oracle_for (normalize ts) t
    | _ => no_extra
    end.

  (* the full statement (false of the pinned tree: p1, p2, p3 are accepted) *)
  Definition parse_sound_full_statement : Prop :=
    forall ts t, good (brace_locs ts) ts = true -> parse g o ts = ROk t -> ref_parses ts t.
End Norm.


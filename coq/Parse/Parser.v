(* Parse/Parser.v — executable model of parser/parser.go over a token list.

   The model mirrors the Go functions one to one (parseExpression / parsePrimary /
   parseConditionalExpression / parsePrimaryExpression / parseIdentifierExpression / parseClosure /
   parseArrayExpression / parseMapExpression / parsePostfixExpression / parseArguments) and is
   parametric in the three tables (`grammar`) and in two library oracles (`oracles`:
   strconv.ParseFloat and validity of a regexp pattern).

   Errors.  The Go parser records the FIRST error (`p.error` keeps `p.err` once set) together with
   the location of `p.current` at that moment, keeps running, and `Parse` returns that error.
   Nothing that runs after the first error is observable (all loops test `p.err == nil`, no node
   is dereferenced), so the model stops at the first error: `PErr loc`.

   Tokens.  `p.current` is the head of the remaining list; `p.next()` drops it, and fails with
   "unexpected end of expression" at the current token when it is the last one.  `lexer.Lex`
   always ends the list with an EOF token; the model is total on every list anyway.

   Fuel.  `parse_expr (S n)` runs the body of parseExpression with `parse_expr n` for the nested
   calls and `n` iterations for every loop; `PFuel` is the out-of-fuel outcome that the theorems
   exclude.  `parse` uses `S (length ts)`.   No proofs in this file. *)
From Coq Require Import ZArith Bool List String Ascii Floats.
Require Import X.Base.Num X.Base.Value X.Syn.Ast X.Syn.Tok.
Import ListNotations.
Open Scope Z_scope.

(* ------------------------------------------------------------------ tables and oracles *)
Record grammar := mkGrammar {
  g_unary : list (string * Z);               (* unaryOperators: operator -> precedence *)
  g_binary : list (string * (Z * bool));     (* binaryOperators: operator -> (precedence, right-associative) *)
  g_builtins : list (string * Z)             (* builtins: name -> arity *)
}.

Record oracles := mkOracles {
  o_float : string -> option float;          (* strconv.ParseFloat(s, 64): Some value | None = error *)
  o_regex : string -> bool                   (* regexp.Compile(s) succeeds *)
}.

Fixpoint lookup {A : Type} (s : string) (l : list (string * A)) : option A :=
  match l with
  | [] => None
  | (k, v) :: r => if String.eqb s k then Some v else lookup s r
  end.

(* ------------------------------------------------------------------ operator spellings *)
Definition unop_of_string (s : string) : unop :=
  if String.eqb s "!" then UNotBang else if String.eqb s "not" then UNotWord
  else if String.eqb s "+" then UPlus else if String.eqb s "-" then UMinus else UUnknown s.

Definition string_of_unop (u : unop) : string :=
  match u with UNotBang => "!" | UNotWord => "not" | UPlus => "+" | UMinus => "-" | UUnknown s => s end.

Definition binop_table : list (string * binop) :=
  [ ("or", BOrWord); ("||", BOrOr); ("and", BAndWord); ("&&", BAndAnd);
    ("==", BEq); ("!=", BNe); ("<", BLt); (">", BGt); (">=", BGe); ("<=", BLe);
    ("not in", BNotIn); ("in", BIn); ("contains", BContains); ("startsWith", BStartsWith);
    ("endsWith", BEndsWith); ("..", BRange); ("+", BAdd); ("-", BSub); ("*", BMul); ("/", BDiv);
    ("%", BMod); ("**", BPow) ]%string.

Definition binop_of_string (s : string) : binop :=
  match lookup s binop_table with Some b => b | None => BUnknown s end.

Definition string_of_binop (b : binop) : string :=
  match b with
  | BOrWord => "or" | BOrOr => "||" | BAndWord => "and" | BAndAnd => "&&"
  | BEq => "==" | BNe => "!=" | BLt => "<" | BGt => ">" | BGe => ">=" | BLe => "<="
  | BNotIn => "not in" | BIn => "in" | BContains => "contains" | BStartsWith => "startsWith"
  | BEndsWith => "endsWith" | BRange => ".." | BAdd => "+" | BSub => "-" | BMul => "*" | BDiv => "/"
  | BMod => "%" | BPow => "**" | BUnknown s => s
  end.

Definition builtin_table : list (string * builtin) :=
  [ ("len", BiLen); ("all", BiAll); ("none", BiNone); ("any", BiAny); ("one", BiOne);
    ("filter", BiFilter); ("map", BiMap); ("count", BiCount) ]%string.

Definition builtin_of_string (s : string) : builtin :=
  match lookup s builtin_table with Some b => b | None => BiUnknown s end.

Definition string_of_builtin (b : builtin) : string :=
  match b with
  | BiLen => "len" | BiAll => "all" | BiNone => "none" | BiAny => "any" | BiOne => "one"
  | BiFilter => "filter" | BiMap => "map" | BiCount => "count" | BiUnknown s => s
  end.

(* ------------------------------------------------------------------ number literals *)
(* strings.Replace(v, "_", "", -1) *)
Fixpoint strip_underscores (s : string) : string :=
  match s with
  | EmptyString => EmptyString
  | String c r => if Ascii.eqb c "_"%char then strip_underscores r else String c (strip_underscores r)
  end.

(* strings.ContainsAny *)
Fixpoint contains_any (s : string) (cs : list ascii) : bool :=
  match s with
  | EmptyString => false
  | String c r => existsb (Ascii.eqb c) cs || contains_any r cs
  end.

Definition digit_val (c : ascii) : Z :=
  let n := Z.of_N (N_of_ascii c) in
  if (48 <=? n) && (n <=? 57) then n - 48
  else if (97 <=? n) && (n <=? 102) then n - 87
  else if (65 <=? n) && (n <=? 70) then n - 55
  else 99.

(* digits of the given base, most significant first; None on an empty string or a bad digit *)
Fixpoint digits_value (base : Z) (acc : Z) (s : string) : option Z :=
  match s with
  | EmptyString => Some acc
  | String c r => let d := digit_val c in if d <? base then digits_value base (acc * base + d) r else None
  end.

Definition magnitude (base : Z) (s : string) : option Z :=
  match s with EmptyString => None | _ => digits_value base 0 s end.

(* sign handling and the int64 range test of strconv.ParseInt(_, _, 64) *)
Definition signed_in_range (neg : bool) (m : option Z) : option Z :=
  match m with
  | None => None
  | Some u => if neg then (if u <=? 9223372036854775808 then Some (- u) else None)
              else (if u <? 9223372036854775808 then Some u else None)
  end.

Definition split_sign (s : string) : bool * string :=
  match s with
  | String c r => if Ascii.eqb c "-"%char then (true, r) else if Ascii.eqb c "+"%char then (false, r) else (false, s)
  | EmptyString => (false, s)
  end.

(* strconv.ParseInt(s, 10, 64) *)
Definition parse_int10 (s : string) : option Z :=
  let '(neg, r) := split_sign s in signed_in_range neg (magnitude 10 r).

(* strconv.ParseInt(s, 0, 64) for a string that contains x or X (underscores already removed):
   the only accepted shape is [sign] 0 (x|X) hexdigits+, since x is a digit of no base *)
Definition parse_int0_hex (s : string) : option Z :=
  let '(neg, r) := split_sign s in
  match r with
  | String c0 (String c1 ds) =>
      if Ascii.eqb c0 "0"%char && (Ascii.eqb c1 "x"%char || Ascii.eqb c1 "X"%char)
      then signed_in_range neg (magnitude 16 ds) else None
  | _ => None
  end.

Inductive numlit := NLInt (z : Z) | NLFloat (f : float) | NLBad.

(* the classification of parsePrimaryExpression: hex if the literal contains x/X, else float if it
   contains . e E, else decimal *)
Definition number_value (pf : string -> option float) (raw : string) : numlit :=
  let v := strip_underscores raw in
  if contains_any v ["x"; "X"]%char then
    match parse_int0_hex v with Some z => NLInt z | None => NLBad end
  else if contains_any v ["."; "e"; "E"]%char then
    match pf v with Some f => NLFloat f | None => NLBad end
  else
    match parse_int10 v with Some z => NLInt z | None => NLBad end.

(* isValidIdentifier, on the bytes of the string.  It is only applied to Operator tokens, whose
   values are ASCII; a byte >= 128 is answered `false` (unicode.IsLetter is not modelled). *)
Definition is_alpha_byte (c : ascii) : bool :=
  let n := Z.of_N (N_of_ascii c) in
  ((97 <=? n) && (n <=? 122)) || ((65 <=? n) && (n <=? 90)) || (n =? 95) || (n =? 36).
Definition is_alnum_byte (c : ascii) : bool :=
  let n := Z.of_N (N_of_ascii c) in is_alpha_byte c || ((48 <=? n) && (n <=? 57)).
Fixpoint all_alnum (s : string) : bool :=
  match s with EmptyString => true | String c r => is_alnum_byte c && all_alnum r end.
Definition valid_identifier (s : string) : bool :=
  match s with EmptyString => false | String c r => is_alpha_byte c && all_alnum r end.

(* ------------------------------------------------------------------ parser state *)
Inductive pres (A : Type) := POk (a : A) (rest : list token) | PErr (l : loc) | PFuel.
Arguments POk {A}. Arguments PErr {A}. Arguments PFuel {A}.

Definition pbind {A B : Type} (r : pres A) (k : A -> list token -> pres B) : pres B :=
  match r with POk a ts => k a ts | PErr l => PErr l | PFuel => PFuel end.

Definition eof_tok : token := mkTok noloc TkEOF "".
(* p.current *)
Definition cur (ts : list token) : token := match ts with t :: _ => t | [] => eof_tok end.

(* p.next(): fails at the current token when it is the last one *)
Definition next {A : Type} (ts : list token) (k : list token -> pres A) : pres A :=
  match ts with
  | _ :: ((_ :: _) as r) => k r
  | t :: [] => PErr (tloc t)
  | [] => PErr noloc
  end.

(* p.expect(kind, value) *)
Definition expect {A : Type} (kd : tkind) (v : string) (ts : list token) (k : list token -> pres A) : pres A :=
  if tok_is (cur ts) kd [v] then next ts k else PErr (tloc (cur ts)).

Definition is_kind (t : token) (k : tkind) : bool := tok_is t k [].
Definition val_is (t : token) (v : string) : bool := String.eqb (tval t) v.

Section Body.
  Variable g : grammar.
  Variable o : oracles.
  (* the nested parseExpression(precedence) at closure depth d, and the loop budget *)
  Variable pe : Z -> nat -> list token -> pres expr.
  Variable LF : nat.

  (* ---- parseArguments *)
  Fixpoint args_loop (lf : nat) (d : nat) (acc : list expr) (ts : list token) : pres (list expr) :=
    if tok_is (cur ts) TkBracket [")"%string] then POk acc ts
    else match lf with
         | O => PFuel
         | S lf' =>
             let k := fun ts1 => pbind (pe 0 d ts1) (fun node ts2 => args_loop lf' d (acc ++ [node]) ts2) in
             match acc with [] => k ts | _ :: _ => expect TkOperator "," ts k end
         end.

  Definition parse_arguments (d : nat) (ts : list token) : pres (list expr) :=
    expect TkBracket "(" ts (fun ts1 =>
    pbind (args_loop LF d [] ts1) (fun args ts2 =>
    expect TkBracket ")" ts2 (fun ts3 => POk args ts3))).

  (* ---- parsePostfixExpression; ns is the sticky `nilsafe` variable of the Go function *)
  Fixpoint postfix_loop (lf : nat) (d : nat) (ns : bool) (node : expr) (ts : list token) : pres expr :=
    let tk := cur ts in
    if is_kind tk TkOperator || is_kind tk TkBracket then
      if val_is tk "." || val_is tk "?." then
        match lf with
        | O => PFuel
        | S lf' =>
            let ns' := ns || val_is tk "?." in
            next ts (fun ts1 =>
            let name := cur ts1 in
            next ts1 (fun ts2 =>
            if negb (is_kind name TkIdentifier) && (negb (is_kind name TkOperator) || negb (valid_identifier (tval name)))
            then PErr (tloc (cur ts2))                                        (* "expected name" *)
            else if tok_is (cur ts2) TkBracket ["("%string] then
              pbind (parse_arguments d ts2) (fun args ts3 =>
              postfix_loop lf' d ns' (EMethod (at_loc (tloc name)) node (tval name) args ns') ts3)
            else postfix_loop lf' d ns' (EProperty (at_loc (tloc name)) node (tval name) ns') ts2))
        end
      else if val_is tk "[" then
        match lf with
        | O => PFuel
        | S lf' =>
            let a := at_loc (tloc tk) in
            next ts (fun ts1 =>
            if tok_is (cur ts1) TkOperator [":"%string] then                   (* [:to] and [:] *)
              next ts1 (fun ts2 =>
              if negb (tok_is (cur ts2) TkBracket ["]"%string]) then
                pbind (pe 0 d ts2) (fun to ts3 =>
                expect TkBracket "]" ts3 (fun ts4 => postfix_loop lf' d ns (ESlice a node None (Some to)) ts4))
              else expect TkBracket "]" ts2 (fun ts3 => postfix_loop lf' d ns (ESlice a node None None) ts3))
            else
              pbind (pe 0 d ts1) (fun from ts2 =>
              if tok_is (cur ts2) TkOperator [":"%string] then                 (* [from:to] and [from:] *)
                next ts2 (fun ts3 =>
                if negb (tok_is (cur ts3) TkBracket ["]"%string]) then
                  pbind (pe 0 d ts3) (fun to ts4 =>
                  expect TkBracket "]" ts4 (fun ts5 => postfix_loop lf' d ns (ESlice a node (Some from) (Some to)) ts5))
                else expect TkBracket "]" ts3 (fun ts4 => postfix_loop lf' d ns (ESlice a node (Some from) None) ts4))
              else expect TkBracket "]" ts2 (fun ts3 => postfix_loop lf' d ns (EIndex a node from) ts3)))
        end
      else POk node ts
    else POk node ts.

  (* ---- parseClosure *)
  Definition parse_closure (d : nat) (ts : list token) : pres expr :=
    let tk := cur ts in
    expect TkBracket "{" ts (fun ts1 =>
    pbind (pe 0 (S d) ts1) (fun node ts2 =>
    expect TkBracket "}" ts2 (fun ts3 => POk (EClosure (at_loc (tloc tk)) node) ts3))).

  (* ---- parseArrayExpression: the loop returns the elements, positioned at the closing bracket *)
  Fixpoint array_loop (lf : nat) (d : nat) (acc : list expr) (ts : list token) : pres (list expr) :=
    if tok_is (cur ts) TkBracket ["]"%string] then POk acc ts
    else match lf with
         | O => PFuel
         | S lf' =>
             let k := fun ts1 => pbind (pe 0 d ts1) (fun node ts2 => array_loop lf' d (acc ++ [node]) ts2) in
             match acc with
             | [] => k ts
             | _ :: _ => expect TkOperator "," ts (fun ts1 =>
                         if tok_is (cur ts1) TkBracket ["]"%string] then POk acc ts1 else k ts1)
             end
         end.

  Definition parse_array (tk : token) (d : nat) (ts : list token) : pres expr :=
    expect TkBracket "[" ts (fun ts1 =>
    pbind (array_loop LF d [] ts1) (fun nodes ts2 =>
    expect TkBracket "]" ts2 (fun ts3 => POk (EArray (at_loc (tloc tk)) nodes) ts3))).

  (* ---- parseMapExpression *)
  Fixpoint map_loop (lf : nat) (mloc : loc) (d : nat) (acc : list expr) (ts : list token) : pres (list expr) :=
    if tok_is (cur ts) TkBracket ["}"%string] then POk acc ts
    else match lf with
         | O => PFuel
         | S lf' =>
             let pair := fun ts1 =>
               let ktk := cur ts1 in
               let after_key := fun key ts2 =>
                 expect TkOperator ":" ts2 (fun ts3 =>
                 pbind (pe 0 d ts3) (fun node ts4 => map_loop lf' mloc d (acc ++ [EPair (at_loc mloc) key node]) ts4)) in
               if is_kind ktk TkNumber || is_kind ktk TkString || is_kind ktk TkIdentifier then
                 next ts1 (fun ts2 => after_key (EStr (at_loc mloc) (tval ktk)) ts2)
               else if tok_is ktk TkBracket ["("%string] then
                 pbind (pe 0 d ts1) after_key
               else PErr (tloc ktk) in
             match acc with
             | [] => pair ts
             | _ :: _ => expect TkOperator "," ts (fun ts1 =>
                         if tok_is (cur ts1) TkBracket ["}"%string] then POk acc ts1
                         else if tok_is (cur ts1) TkOperator [","%string] then PErr (tloc (cur ts1))
                         else pair ts1)
             end
         end.

  Definition parse_map (tk : token) (d : nat) (ts : list token) : pres expr :=
    expect TkBracket "{" ts (fun ts1 =>
    pbind (map_loop LF (tloc tk) d [] ts1) (fun pairs ts2 =>
    expect TkBracket "}" ts2 (fun ts3 => POk (EMap (at_loc (tloc tk)) pairs) ts3))).

  (* ---- parseIdentifierExpression(token, next); ts is positioned after the identifier *)
  Definition parse_identifier_expression (tk : token) (d : nat) (ts : list token) : pres expr :=
    if tok_is (cur ts) TkBracket ["("%string] then
      match lookup (tval tk) (g_builtins g) with
      | Some arity =>
          expect TkBracket "(" ts (fun ts1 =>
          let finish := fun args ts2 =>
            expect TkBracket ")" ts2 (fun ts3 =>
            POk (EBuiltin (at_loc (tloc tk)) (builtin_of_string (tval tk)) args) ts3) in
          if arity =? 1 then pbind (pe 0 d ts1) (fun a ts2 => finish [a] ts2)
          else if arity =? 2 then
            pbind (pe 0 d ts1) (fun a ts2 =>
            expect TkOperator "," ts2 (fun ts3 =>
            pbind (parse_closure d ts3) (fun c ts4 => finish [a; c] ts4)))
          else finish [] ts1)
      | None =>
          pbind (parse_arguments d ts) (fun args ts1 => POk (EFunction (at_loc (tloc tk)) (tval tk) args false) ts1)
      end
    else POk (EIdent (at_loc (tloc tk)) (tval tk) (String.eqb (tval (cur ts)) "?.")) ts.

  (* ---- parsePrimaryExpression and parsePrimary.  `parse_base` returns the node and whether the Go
     code passes it through parsePostfixExpression (literals return without it). *)
  Definition parse_primary_expression (d : nat) (ts : list token) : pres (expr * bool) :=
    let tk := cur ts in
    let a := at_loc (tloc tk) in
    match tkind_of tk with
    | TkIdentifier =>
        next ts (fun ts1 =>
        if val_is tk "true" then POk (EBool a true, false) ts1
        else if val_is tk "false" then POk (EBool a false, false) ts1
        else if val_is tk "nil" then POk (ENil a, false) ts1
        else pbind (parse_identifier_expression tk d ts1) (fun node ts2 => POk (node, true) ts2))
    | TkNumber =>
        next ts (fun ts1 =>
        match number_value (o_float o) (tval tk) with
        | NLInt z => POk (EInt a z, false) ts1
        | NLFloat f => POk (EFloat a f, false) ts1
        | NLBad => PErr (tloc (cur ts1))             (* reported at the token AFTER the literal *)
        end)
    | TkString => next ts (fun ts1 => POk (EStr a (tval tk), false) ts1)
    | _ =>
        if tok_is tk TkBracket ["["%string] then pbind (parse_array tk d ts) (fun node ts1 => POk (node, true) ts1)
        else if tok_is tk TkBracket ["{"%string] then pbind (parse_map tk d ts) (fun node ts1 => POk (node, true) ts1)
        else PErr (tloc tk)
    end.

  Definition parse_base (d : nat) (ts : list token) : pres (expr * bool) :=
    let tk := cur ts in
    match (if is_kind tk TkOperator then lookup (tval tk) (g_unary g) else None) with
    | Some uprec =>
        next ts (fun ts1 =>
        pbind (pe uprec d ts1) (fun e ts2 =>
        POk (EUnary (at_loc (tloc tk)) (unop_of_string (tval tk)) e, true) ts2))
    | None =>
        if tok_is tk TkBracket ["("%string] then
          next ts (fun ts1 =>
          pbind (pe 0 d ts1) (fun e ts2 =>
          expect TkBracket ")" ts2 (fun ts3 => POk (e, true) ts3)))
        else
          let pointer := tok_is tk TkOperator ["#"%string] || tok_is tk TkOperator ["."%string] in
          match d with
          | S _ =>
              if pointer then
                if tok_is tk TkOperator ["#"%string]
                then next ts (fun ts1 => POk (EPointer (at_loc (tloc tk)), true) ts1)
                else POk (EPointer (at_loc (tloc tk)), true) ts
              else parse_primary_expression d ts
          | O =>
              if pointer then PErr (tloc tk)           (* "cannot use pointer accessor outside closure" *)
              else parse_primary_expression d ts
          end
    end.

  Definition parse_primary (d : nat) (ts : list token) : pres expr :=
    pbind (parse_base d ts) (fun xb ts1 =>
    if snd xb then postfix_loop LF d false (fst xb) ts1 else POk (fst xb) ts1).

  (* ---- the operator loop of parseExpression *)
  Fixpoint binary_loop (lf : nat) (prec : Z) (d : nat) (left : expr) (ts : list token) : pres expr :=
    let tk := cur ts in
    if is_kind tk TkOperator then
      match lookup (tval tk) (g_binary g) with
      | Some (oprec, right_assoc) =>
          if oprec >=? prec then
            match lf with
            | O => PFuel
            | S lf' =>
                next ts (fun ts1 =>
                pbind (pe (if right_assoc then oprec else oprec + 1) d ts1) (fun right ts2 =>
                if val_is tk "matches" then
                  match right with
                  | EStr _ s =>
                      if o_regex o s
                      then binary_loop lf' prec d (EMatches (at_loc (tloc tk)) (Some s) left right) ts2
                      else PErr (tloc (cur ts2))       (* regexp.Compile error, reported after the operand *)
                  | _ => binary_loop lf' prec d (EMatches (at_loc (tloc tk)) None left right) ts2
                  end
                else binary_loop lf' prec d (EBinary (at_loc (tloc tk)) (binop_of_string (tval tk)) left right) ts2))
            end
          else POk left ts
      | None => POk left ts
      end
    else POk left ts.

  (* ---- parseConditionalExpression; ConditionalNode gets no location *)
  Fixpoint cond_loop (lf : nat) (d : nat) (node : expr) (ts : list token) : pres expr :=
    if tok_is (cur ts) TkOperator ["?"%string] then
      match lf with
      | O => PFuel
      | S lf' =>
          next ts (fun ts1 =>
          if negb (tok_is (cur ts1) TkOperator [":"%string]) then
            pbind (pe 0 d ts1) (fun e1 ts2 =>
            expect TkOperator ":" ts2 (fun ts3 =>
            pbind (pe 0 d ts3) (fun e2 ts4 => cond_loop lf' d (ECond ann0 node e1 e2) ts4)))
          else
            next ts1 (fun ts2 =>
            pbind (pe 0 d ts2) (fun e2 ts3 => cond_loop lf' d (ECond ann0 node node e2) ts3)))
      end
    else POk node ts.

  (* ---- parseExpression(precedence) *)
  Definition expression_body (prec : Z) (d : nat) (ts : list token) : pres expr :=
    pbind (parse_primary d ts) (fun left ts1 =>
    pbind (binary_loop LF prec d left ts1) (fun node ts2 =>
    if prec =? 0 then cond_loop LF d node ts2 else POk node ts2)).
End Body.

Fixpoint parse_expr (g : grammar) (o : oracles) (n : nat) (prec : Z) (d : nat) (ts : list token) : pres expr :=
  match n with
  | O => PFuel
  | S n' => expression_body g o (parse_expr g o n') n' prec d ts
  end.

(* ------------------------------------------------------------------ parser.Parse on the token list *)
Inductive parse_result := ROk (e : expr) | RErr (l : loc) | RFuel.

Definition parse_with_fuel (g : grammar) (o : oracles) (n : nat) (ts : list token) : parse_result :=
  match ts with
  | [] => RErr noloc                   (* tokens[0] would panic; lexer.Lex never returns an empty list *)
  | _ :: _ =>
      match parse_expr g o n 0 0 ts with
      | POk e rest => if is_kind (cur rest) TkEOF then ROk e else RErr (tloc (cur rest))
      | PErr l => RErr l
      | PFuel => RFuel
      end
  end.

Definition parse (g : grammar) (o : oracles) (ts : list token) : parse_result :=
  parse_with_fuel g o (S (List.length ts)) ts.

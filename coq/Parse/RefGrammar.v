(* Parse/RefGrammar.v — the REFERENCE binding-power tables of property C11.

   Written from the property text and docs/Language-Definition.md, never derived from coq/gen/.
   What the documents fix (loosest binding first):

     conditional  c ? a : b          lowest, right-nested
     or  ||
     and  &&
     == != < > <= >=  in  not in  matches  contains  startsWith  endsWith
     ..
     + -                             (binary)
     not  !                          (unary; "the unary operator not has precedence over the binary
                                      operator matches": it binds tighter than the comparison class)
     * / %
     **                              right-associative; every other binary operator is left-associative
     - +                             (unary) bind tightest

   The documentation gives no numbers and is silent on where unary not/! sits relative to the
   arithmetic classes; there the reference follows the pinned tree (between `+ -` and `* / %`,
   i.e. `not a + b` is `(not a) + b` and `not a * b` is `not (a * b)`) and says so here.  Only the
   ORDER of the levels matters to the parser; the numbers are the ones the code uses so that the
   bridge can state plain equality of finite maps.

   Builtins (docs, "Builtin functions"): len takes one argument; all none any one filter map count
   take a collection and a closure. *)
From Coq Require Import ZArith List String Bool.
Import ListNotations.
Open Scope Z_scope.
Open Scope string_scope.

Definition lvl_or : Z := 10.
Definition lvl_and : Z := 15.
Definition lvl_cmp : Z := 20.
Definition lvl_range : Z := 25.
Definition lvl_add : Z := 30.
Definition lvl_not : Z := 50.
Definition lvl_mul : Z := 60.
Definition lvl_pow : Z := 70.
Definition lvl_sign : Z := 500.

Definition ref_unary : list (string * Z) :=
  [ ("not", lvl_not); ("!", lvl_not); ("-", lvl_sign); ("+", lvl_sign) ].

(* operator -> (level, right-associative) *)
Definition ref_binary : list (string * (Z * bool)) :=
  [ ("or", (lvl_or, false)); ("||", (lvl_or, false));
    ("and", (lvl_and, false)); ("&&", (lvl_and, false));
    ("==", (lvl_cmp, false)); ("!=", (lvl_cmp, false)); ("<", (lvl_cmp, false)); (">", (lvl_cmp, false));
    ("<=", (lvl_cmp, false)); (">=", (lvl_cmp, false)); ("in", (lvl_cmp, false)); ("not in", (lvl_cmp, false));
    ("matches", (lvl_cmp, false)); ("contains", (lvl_cmp, false)); ("startsWith", (lvl_cmp, false));
    ("endsWith", (lvl_cmp, false));
    ("..", (lvl_range, false));
    ("+", (lvl_add, false)); ("-", (lvl_add, false));
    ("*", (lvl_mul, false)); ("/", (lvl_mul, false)); ("%", (lvl_mul, false));
    ("**", (lvl_pow, true)) ].

Definition ref_builtins : list (string * Z) :=
  [ ("len", 1); ("all", 2); ("none", 2); ("any", 2); ("one", 2); ("filter", 2); ("map", 2); ("count", 2) ].

(* Parse/FuelProofs.v — the fuel S (length ts) of the parser model is sufficient for EVERY token list:
   `parse g o ts <> RFuel`.  Every nested parseExpression and every loop iteration runs on a strictly
   shorter token list (weakest-precondition style lemmas per parse function; `lt_ts rest ts`: rest is
   non-empty and shorter than ts).  The same argument is part of Pipe/PipeProofs.v (module ParseTotal,
   property C04); it is repeated here so that the C11 development does not depend on the pipeline model. *)
From Coq Require Import ZArith Bool List String Lia Arith.
Require Import X.Base.Value X.Syn.Ast X.Syn.Tok X.Parse.Parser.
Import ListNotations.

Local Open Scope list_scope.

Definition lt_ts (rest ts : list token) : Prop := rest <> [] /\ (List.length rest < List.length ts)%nat.
Definition le_ts (rest ts : list token) : Prop := rest <> [] /\ (List.length rest <= List.length ts)%nat.

Definition wp {A : Type} (r : pres A) (Q : A -> list token -> Prop) : Prop :=
  match r with POk a rest => Q a rest | PErr _ => True | PFuel => False end.

Lemma wp_mono {A : Type} (r : pres A) (Q Q' : A -> list token -> Prop) :
  wp r Q -> (forall a x, Q a x -> Q' a x) -> wp r Q'.
Proof. destruct r; cbn; auto. Qed.

Lemma wp_pbind {A B : Type} (r : pres A) (k : A -> list token -> pres B) Q :
  wp r (fun a ts' => wp (k a ts') Q) -> wp (pbind r k) Q.
Proof. destruct r; cbn; auto. Qed.

Lemma wp_next {A : Type} ts (k : list token -> pres A) Q :
  (forall ts1, lt_ts ts1 ts -> wp (k ts1) Q) -> wp (next ts k) Q.
Proof.
  intros H. destruct ts as [|t [|t2 r]]; cbn; auto.
  apply H. split; [discriminate|cbn; lia].
Qed.

Lemma wp_expect {A : Type} kd v ts (k : list token -> pres A) Q :
  (forall ts1, lt_ts ts1 ts -> wp (k ts1) Q) -> wp (expect kd v ts k) Q.
Proof. intros H. unfold expect. destruct (tok_is (cur ts) kd [v]); [apply wp_next; exact H|exact I]. Qed.

Lemma lt_le a b : lt_ts a b -> le_ts a b.
Proof. unfold lt_ts, le_ts. intros [? ?]; split; [auto|lia]. Qed.
Lemma le_refl ts : ts <> [] -> le_ts ts ts.
Proof. split; auto. Qed.
Lemma lt_le_trans a b c : lt_ts a b -> le_ts b c -> lt_ts a c.
Proof. unfold lt_ts, le_ts. intros [? ?] [? ?]; split; [auto|lia]. Qed.
Lemma le_lt_trans a b c : le_ts a b -> lt_ts b c -> lt_ts a c.
Proof. unfold lt_ts, le_ts. intros [? ?] [? ?]; split; [auto|lia]. Qed.
Lemma le_le_trans a b c : le_ts a b -> le_ts b c -> le_ts a c.
Proof. unfold le_ts. intros [? ?] [? ?]; split; [auto|lia]. Qed.
Lemma lt_lt_trans a b c : lt_ts a b -> lt_ts b c -> lt_ts a c.
Proof. unfold lt_ts. intros [? ?] [? ?]; split; [auto|lia]. Qed.

Section Body.
  Variable g : grammar.
  Variable o : oracles.
  Variable pe : Z -> nat -> list token -> pres expr.
  Variable B : nat.
  Hypothesis Hpe : forall prec d ts, ts <> [] -> (List.length ts < B)%nat ->
    wp (pe prec d ts) (fun _ rest => lt_ts rest ts).

  Ltac len := unfold lt_ts, le_ts in *; repeat match goal with H : _ /\ _ |- _ => destruct H end; try split; auto; try lia.

  Lemma pe_ok prec d ts ts0 (Q : expr -> list token -> Prop) :
    lt_ts ts ts0 -> (List.length ts0 <= B)%nat ->
    (forall e rest, lt_ts rest ts -> Q e rest) -> wp (pe prec d ts) Q.
  Proof.
    intros H1 H2 HQ. eapply wp_mono; [apply Hpe; len|]. cbn. intros e x Hx. apply HQ. exact Hx.
  Qed.

  Lemma args_loop_ok : forall lf d acc ts, ts <> [] -> (List.length ts < B)%nat -> (List.length ts <= lf)%nat ->
    wp (args_loop pe lf d acc ts) (fun _ rest => le_ts rest ts).
  Proof.
    induction lf as [|lf IH]; intros d acc ts Hne HB Hlf; cbn [args_loop].
    - destruct ts; [contradiction|cbn in Hlf; lia].
    - destruct (tok_is (cur ts) TkBracket [")"%string]); [cbn; len|].
      assert (K : forall ts1, le_ts ts1 ts ->
              wp (pbind (pe 0 d ts1) (fun node ts2 => args_loop pe lf d (acc ++ [node]) ts2)) (fun _ rest => le_ts rest ts)).
      { intros ts1 H1. apply wp_pbind. eapply wp_mono; [apply Hpe; len|]. cbn. intros e ts2 H2.
        eapply wp_mono; [apply IH; len|]. cbn. intros _ rest H3. len. }
      destruct acc.
      + apply K. len.
      + apply wp_expect. intros ts1 H1. apply K. len.
  Qed.

  Variable LF : nat.

  Lemma parse_arguments_ok d ts : ts <> [] -> (List.length ts <= B)%nat -> (List.length ts <= LF)%nat ->
    wp (parse_arguments pe LF d ts) (fun _ rest => lt_ts rest ts).
  Proof.
    intros Hne HB HL. unfold parse_arguments. apply wp_expect. intros ts1 H1.
    apply wp_pbind. eapply wp_mono; [apply args_loop_ok; len|]. cbn. intros args ts2 H2.
    apply wp_expect. intros ts3 H3. cbn. len.
  Qed.

  Lemma postfix_loop_ok : forall lf d ns node ts, ts <> [] -> (List.length ts <= B)%nat -> (List.length ts <= LF)%nat ->
    (List.length ts <= lf)%nat ->
    wp (postfix_loop pe LF lf d ns node ts) (fun _ rest => le_ts rest ts /\
        ((is_kind (cur ts) TkOperator || is_kind (cur ts) TkBracket) && (val_is (cur ts) "." || val_is (cur ts) "?.") = true -> lt_ts rest ts)).
  Proof.
    induction lf as [|lf IH]; intros d ns node ts Hne HB HL Hlf.
    - destruct ts; [contradiction|cbn in Hlf; lia].
    - cbn [postfix_loop].
      destruct (is_kind (cur ts) TkOperator || is_kind (cur ts) TkBracket) eqn:Ek; [|cbn; split; [len|intros; discriminate]].
      destruct (val_is (cur ts) "." || val_is (cur ts) "?.") eqn:Ed.
      + apply wp_next. intros ts1 H1. apply wp_next. intros ts2 H2.
        destruct (negb (is_kind (cur ts1) TkIdentifier) && (negb (is_kind (cur ts1) TkOperator) || negb (valid_identifier (tval (cur ts1))))); [exact I|].
        destruct (tok_is (cur ts2) TkBracket ["("%string]).
        * apply wp_pbind. eapply wp_mono; [apply parse_arguments_ok; len|]. cbn. intros args ts3 H3.
          eapply wp_mono; [apply IH; len|]. cbn. intros _ rest [H4 _]. split; [len|intros _; len].
        * eapply wp_mono; [apply IH; len|]. cbn. intros _ rest [H4 _]. split; [len|intros _; len].
      + destruct (val_is (cur ts) "[") eqn:Eb; [|cbn; split; [len|intros; discriminate]].
        assert (Fin : forall x ts', lt_ts ts' ts ->
                  wp (postfix_loop pe LF lf d ns x ts') (fun _ rest => le_ts rest ts /\ (true && false = true -> lt_ts rest ts))).
        { intros x ts' H'. eapply wp_mono; [apply IH; len|]. cbn. intros _ rest [H4 _]. split; [len|intros; discriminate]. }
        apply wp_next. intros ts1 H1.
        destruct (tok_is (cur ts1) TkOperator [":"%string]).
        * apply wp_next. intros ts2 H2.
          destruct (negb (tok_is (cur ts2) TkBracket ["]"%string])).
          -- apply wp_pbind. eapply pe_ok with (ts0 := ts); [len|len|]. intros e ts3 H3.
             apply wp_expect. intros ts4 H4. apply Fin. len.
          -- apply wp_expect. intros ts3 H3. apply Fin. len.
        * apply wp_pbind. eapply pe_ok with (ts0 := ts); [len|len|]. intros e ts2 H2.
          destruct (tok_is (cur ts2) TkOperator [":"%string]).
          -- apply wp_next. intros ts3 H3.
             destruct (negb (tok_is (cur ts3) TkBracket ["]"%string])).
             ++ apply wp_pbind. eapply pe_ok with (ts0 := ts); [len|len|]. intros e2 ts4 H4.
                apply wp_expect. intros ts5 H5. apply Fin. len.
             ++ apply wp_expect. intros ts4 H4. apply Fin. len.
          -- apply wp_expect. intros ts3 H3. apply Fin. len.
  Qed.

  Lemma parse_closure_ok d ts : ts <> [] -> (List.length ts <= B)%nat ->
    wp (parse_closure pe d ts) (fun _ rest => lt_ts rest ts).
  Proof.
    intros Hne HB. unfold parse_closure. apply wp_expect. intros ts1 H1.
    apply wp_pbind. eapply pe_ok with (ts0 := ts); [len|len|]. intros e ts2 H2.
    apply wp_expect. intros ts3 H3. cbn. len.
  Qed.

  Lemma array_loop_ok : forall lf d acc ts, ts <> [] -> (List.length ts < B)%nat -> (List.length ts <= lf)%nat ->
    wp (array_loop pe lf d acc ts) (fun _ rest => le_ts rest ts).
  Proof.
    induction lf as [|lf IH]; intros d acc ts Hne HB Hlf; cbn [array_loop].
    - destruct ts; [contradiction|cbn in Hlf; lia].
    - destruct (tok_is (cur ts) TkBracket ["]"%string]); [cbn; len|].
      assert (K : forall ts1, le_ts ts1 ts ->
              wp (pbind (pe 0 d ts1) (fun node ts2 => array_loop pe lf d (acc ++ [node]) ts2)) (fun _ rest => le_ts rest ts)).
      { intros ts1 H1. apply wp_pbind. eapply wp_mono; [apply Hpe; len|]. cbn. intros e ts2 H2.
        eapply wp_mono; [apply IH; len|]. cbn. intros _ rest H3. len. }
      destruct acc.
      + apply K. len.
      + apply wp_expect. intros ts1 H1.
        destruct (tok_is (cur ts1) TkBracket ["]"%string]); [cbn; len|]. apply K. len.
  Qed.

  Lemma parse_array_ok tk d ts : ts <> [] -> (List.length ts <= B)%nat -> (List.length ts <= LF)%nat ->
    wp (parse_array pe LF tk d ts) (fun _ rest => lt_ts rest ts).
  Proof.
    intros Hne HB HL. unfold parse_array. apply wp_expect. intros ts1 H1.
    apply wp_pbind. eapply wp_mono; [apply array_loop_ok; len|]. cbn. intros nodes ts2 H2.
    apply wp_expect. intros ts3 H3. cbn. len.
  Qed.

  Lemma map_loop_ok : forall lf mloc d acc ts, ts <> [] -> (List.length ts < B)%nat -> (List.length ts <= lf)%nat ->
    wp (map_loop pe lf mloc d acc ts) (fun _ rest => le_ts rest ts).
  Proof.
    induction lf as [|lf IH]; intros mloc d acc ts Hne HB Hlf; cbn [map_loop].
    - destruct ts; [contradiction|cbn in Hlf; lia].
    - destruct (tok_is (cur ts) TkBracket ["}"%string]); [cbn; len|].
      assert (AK : forall key ts2, le_ts ts2 ts ->
               wp (expect TkOperator ":" ts2 (fun ts3 =>
                   pbind (pe 0 d ts3) (fun node ts4 => map_loop pe lf mloc d (acc ++ [EPair (at_loc mloc) key node]) ts4)))
                  (fun _ rest => le_ts rest ts)).
      { intros key ts2 H2. apply wp_expect. intros ts3 H3. apply wp_pbind.
        eapply wp_mono; [apply Hpe; len|]. cbn. intros e ts4 H4.
        eapply wp_mono; [apply IH; len|]. cbn. intros _ rest H5. len. }
      assert (PAIR : forall ts1, le_ts ts1 ts ->
               wp ((fun ts1 =>
                 let ktk := cur ts1 in
                 let after_key := fun key ts2 =>
                   expect TkOperator ":" ts2 (fun ts3 =>
                   pbind (pe 0 d ts3) (fun node ts4 => map_loop pe lf mloc d (acc ++ [EPair (at_loc mloc) key node]) ts4)) in
                 if is_kind ktk TkNumber || is_kind ktk TkString || is_kind ktk TkIdentifier then
                   next ts1 (fun ts2 => after_key (EStr (at_loc mloc) (tval ktk)) ts2)
                 else if tok_is ktk TkBracket ["("%string] then
                   pbind (pe 0 d ts1) after_key
                 else PErr (tloc ktk)) ts1) (fun _ rest => le_ts rest ts)).
      { intros ts1 H1. cbn beta zeta.
        destruct (is_kind (cur ts1) TkNumber || is_kind (cur ts1) TkString || is_kind (cur ts1) TkIdentifier).
        - apply wp_next. intros ts2 H2. apply AK. len.
        - destruct (tok_is (cur ts1) TkBracket ["("%string]); [|exact I].
          apply wp_pbind. eapply wp_mono; [apply Hpe; len|]. cbn. intros key ts2 H2. apply AK. len. }
      destruct acc.
      + apply PAIR. len.
      + apply wp_expect. intros ts1 H1.
        destruct (tok_is (cur ts1) TkBracket ["}"%string]); [cbn; len|].
        destruct (tok_is (cur ts1) TkOperator [","%string]); [exact I|].
        apply PAIR. len.
  Qed.

  Lemma parse_map_ok tk d ts : ts <> [] -> (List.length ts <= B)%nat -> (List.length ts <= LF)%nat ->
    wp (parse_map pe LF tk d ts) (fun _ rest => lt_ts rest ts).
  Proof.
    intros Hne HB HL. unfold parse_map. apply wp_expect. intros ts1 H1.
    apply wp_pbind. eapply wp_mono; [apply map_loop_ok; len|]. cbn. intros nodes ts2 H2.
    apply wp_expect. intros ts3 H3. cbn. len.
  Qed.

  Lemma parse_identifier_expression_ok tk d ts : ts <> [] -> (List.length ts <= B)%nat -> (List.length ts <= LF)%nat ->
    wp (parse_identifier_expression g pe LF tk d ts) (fun _ rest => le_ts rest ts).
  Proof.
    intros Hne HB HL. unfold parse_identifier_expression.
    destruct (tok_is (cur ts) TkBracket ["("%string]); [|cbn; len].
    destruct (lookup (tval tk) (g_builtins g)) as [arity|].
    - apply wp_expect. intros ts1 H1.
      assert (FIN : forall args ts2, le_ts ts2 ts1 ->
                wp (expect TkBracket ")" ts2 (fun ts3 => POk (EBuiltin (at_loc (tloc tk)) (builtin_of_string (tval tk)) args) ts3))
                   (fun _ rest => le_ts rest ts)).
      { intros args ts2 H2. apply wp_expect. intros ts3 H3. cbn. len. }
      destruct (arity =? 1)%Z.
      + apply wp_pbind. eapply pe_ok with (ts0 := ts); [len|len|]. intros e ts2 H2. apply FIN. len.
      + destruct (arity =? 2)%Z; [|apply FIN; len].
        apply wp_pbind. eapply pe_ok with (ts0 := ts); [len|len|]. intros e ts2 H2.
        apply wp_expect. intros ts3 H3. apply wp_pbind.
        eapply wp_mono; [apply parse_closure_ok; len|]. cbn. intros c ts4 H4. apply FIN. len.
    - apply wp_pbind. eapply wp_mono; [apply parse_arguments_ok; len|]. cbn. intros args ts1 H1. len.
  Qed.

  Lemma parse_primary_expression_ok d ts : ts <> [] -> (List.length ts <= B)%nat -> (List.length ts <= LF)%nat ->
    wp (parse_primary_expression g o pe LF d ts) (fun _ rest => lt_ts rest ts).
  Proof.
    intros Hne HB HL. unfold parse_primary_expression.
    destruct (tkind_of (cur ts)).
    - apply wp_next. intros ts1 H1.
      destruct (val_is (cur ts) "true"); [cbn; len|].
      destruct (val_is (cur ts) "false"); [cbn; len|].
      destruct (val_is (cur ts) "nil"); [cbn; len|].
      apply wp_pbind. eapply wp_mono; [apply parse_identifier_expression_ok; len|]. cbn. intros e ts2 H2. len.
    - apply wp_next. intros ts1 H1. destruct (number_value (o_float o) (tval (cur ts))); cbn; len.
    - apply wp_next. intros ts1 H1. cbn. len.
    - destruct (tok_is (cur ts) TkBracket ["["%string]).
      + apply wp_pbind. eapply wp_mono; [apply parse_array_ok; len|]. cbn. intros e ts1 H1. len.
      + destruct (tok_is (cur ts) TkBracket ["{"%string]); [|exact I].
        apply wp_pbind. eapply wp_mono; [apply parse_map_ok; len|]. cbn. intros e ts1 H1. len.
    - destruct (tok_is (cur ts) TkBracket ["["%string]).
      + apply wp_pbind. eapply wp_mono; [apply parse_array_ok; len|]. cbn. intros e ts1 H1. len.
      + destruct (tok_is (cur ts) TkBracket ["{"%string]); [|exact I].
        apply wp_pbind. eapply wp_mono; [apply parse_map_ok; len|]. cbn. intros e ts1 H1. len.
    - destruct (tok_is (cur ts) TkBracket ["["%string]).
      + apply wp_pbind. eapply wp_mono; [apply parse_array_ok; len|]. cbn. intros e ts1 H1. len.
      + destruct (tok_is (cur ts) TkBracket ["{"%string]); [|exact I].
        apply wp_pbind. eapply wp_mono; [apply parse_map_ok; len|]. cbn. intros e ts1 H1. len.
  Qed.

  (* parse_base consumes at least one token, except for the `.` pointer inside a closure, which is
     left for parsePostfixExpression (and then flagged for it) *)
  Definition dot_first (ts : list token) : bool :=
    (is_kind (cur ts) TkOperator || is_kind (cur ts) TkBracket) && (val_is (cur ts) "." || val_is (cur ts) "?.").

  Lemma tok_is_dot tk : tok_is tk TkOperator ["."%string] = true -> is_kind tk TkOperator = true /\ val_is tk "." = true.
  Proof.
    unfold tok_is, is_kind, val_is. cbn. rewrite orb_false_r. intros H. apply andb_true_iff in H. destruct H as [H1 H2].
    split; [exact H2|exact H1].
  Qed.

  Lemma parse_base_ok d ts : ts <> [] -> (List.length ts <= B)%nat -> (List.length ts <= LF)%nat ->
    wp (parse_base g o pe LF d ts) (fun xb rest => lt_ts rest ts \/ (rest = ts /\ snd xb = true /\ dot_first ts = true)).
  Proof.
    intros Hne HB HL. unfold parse_base.
    destruct (if is_kind (cur ts) TkOperator then lookup (tval (cur ts)) (g_unary g) else None) as [uprec|].
    - apply wp_next. intros ts1 H1. apply wp_pbind. eapply pe_ok with (ts0 := ts); [len|len|]. intros e ts2 H2. cbn. left. len.
    - destruct (tok_is (cur ts) TkBracket ["("%string]).
      + apply wp_next. intros ts1 H1. apply wp_pbind. eapply pe_ok with (ts0 := ts); [len|len|]. intros e ts2 H2.
        apply wp_expect. intros ts3 H3. cbn. left. len.
      + destruct d.
        * destruct (tok_is (cur ts) TkOperator ["#"%string] || tok_is (cur ts) TkOperator ["."%string]); [exact I|].
          eapply wp_mono; [apply parse_primary_expression_ok; len|]. cbn. intros xb rest H. left. exact H.
        * destruct (tok_is (cur ts) TkOperator ["#"%string]) eqn:Eh; cbn [orb].
          -- apply wp_next. intros ts1 H1. cbn. left. len.
          -- destruct (tok_is (cur ts) TkOperator ["."%string]) eqn:Ed.
             ++ cbn. right. split; [reflexivity|]. split; [reflexivity|].
                destruct (tok_is_dot _ Ed) as [K1 K2]. unfold dot_first. rewrite K1, K2. reflexivity.
             ++ eapply wp_mono; [apply parse_primary_expression_ok; len|]. cbn. intros xb rest H. left. exact H.
  Qed.

  Lemma parse_primary_ok d ts : ts <> [] -> (List.length ts <= B)%nat -> (List.length ts <= LF)%nat ->
    wp (parse_primary g o pe LF d ts) (fun _ rest => lt_ts rest ts).
  Proof.
    intros Hne HB HL. unfold parse_primary. apply wp_pbind.
    eapply wp_mono; [apply parse_base_ok; len|]. cbn. intros xb ts1 [H1|(E1 & E2 & E3)].
    - destruct (snd xb); [|cbn; exact H1].
      eapply wp_mono; [apply postfix_loop_ok; len|]. cbn. intros _ rest [H2 _]. len.
    - subst ts1. rewrite E2. eapply wp_mono; [apply postfix_loop_ok; len|]. cbn. intros _ rest [_ H2]. apply H2. exact E3.
  Qed.

  Lemma binary_loop_ok : forall lf prec d left ts, ts <> [] -> (List.length ts <= B)%nat -> (List.length ts <= lf)%nat ->
    wp (binary_loop g o pe lf prec d left ts) (fun _ rest => le_ts rest ts).
  Proof.
    induction lf as [|lf IH]; intros prec d left ts Hne HB Hlf.
    - destruct ts; [contradiction|cbn in Hlf; lia].
    - cbn [binary_loop]. destruct (is_kind (cur ts) TkOperator); [|cbn; len].
      destruct (lookup (tval (cur ts)) (g_binary g)) as [[oprec ra]|]; [|cbn; len].
      destruct (oprec >=? prec)%Z; [|cbn; len].
      apply wp_next. intros ts1 H1. apply wp_pbind. eapply pe_ok with (ts0 := ts); [len|len|]. intros right ts2 H2.
      assert (R : forall x, wp (binary_loop g o pe lf prec d x ts2) (fun _ rest => le_ts rest ts)).
      { intros x. eapply wp_mono; [apply IH; len|]. cbn. intros _ rest H3. len. }
      destruct (val_is (cur ts) "matches"); [|apply R].
      destruct right; try apply R. destruct (o_regex o s); [apply R|exact I].
  Qed.

  Lemma cond_loop_ok : forall lf d node ts, ts <> [] -> (List.length ts <= B)%nat -> (List.length ts <= lf)%nat ->
    wp (cond_loop pe lf d node ts) (fun _ rest => le_ts rest ts).
  Proof.
    induction lf as [|lf IH]; intros d node ts Hne HB Hlf.
    - destruct ts; [contradiction|cbn in Hlf; lia].
    - cbn [cond_loop]. destruct (tok_is (cur ts) TkOperator ["?"%string]); [|cbn; len].
      apply wp_next. intros ts1 H1.
      destruct (negb (tok_is (cur ts1) TkOperator [":"%string])).
      + apply wp_pbind. eapply pe_ok with (ts0 := ts); [len|len|]. intros e1 ts2 H2.
        apply wp_expect. intros ts3 H3. apply wp_pbind. eapply pe_ok with (ts0 := ts); [len|len|]. intros e2 ts4 H4.
        eapply wp_mono; [apply IH; len|]. cbn. intros _ rest H5. len.
      + apply wp_next. intros ts2 H2. apply wp_pbind. eapply pe_ok with (ts0 := ts); [len|len|]. intros e2 ts3 H3.
        eapply wp_mono; [apply IH; len|]. cbn. intros _ rest H5. len.
  Qed.

  Lemma expression_body_ok prec d ts : ts <> [] -> (List.length ts <= B)%nat -> (List.length ts <= LF)%nat ->
    wp (expression_body g o pe LF prec d ts) (fun _ rest => lt_ts rest ts).
  Proof.
    intros Hne HB HL. unfold expression_body. apply wp_pbind.
    eapply wp_mono; [apply parse_primary_ok; len|]. cbn. intros left ts1 H1.
    apply wp_pbind. eapply wp_mono; [apply binary_loop_ok; len|]. cbn. intros node ts2 H2.
    destruct (prec =? 0)%Z; [|cbn; len].
    eapply wp_mono; [apply cond_loop_ok; len|]. cbn. intros _ rest H3. len.
  Qed.
End Body.

Theorem parse_expr_ok g o : forall n prec d ts, ts <> [] -> (List.length ts < n)%nat ->
  wp (parse_expr g o n prec d ts) (fun _ rest => lt_ts rest ts).
Proof.
  induction n as [|n IH]; intros prec d ts Hne Hn; [lia|].
  cbn [parse_expr]. apply (expression_body_ok g o (parse_expr g o n) n IH n); [exact Hne|lia|lia].
Qed.

(* the fuel S (length ts) that parser.Parse's model uses is sufficient for EVERY token list *)
Theorem parse_total g o ts : parse g o ts <> RFuel.
Proof.
  unfold parse, parse_with_fuel. destruct ts as [|t r]; [discriminate|].
  pose proof (parse_expr_ok g o (S (List.length (t :: r))) 0%Z 0%nat (t :: r) ltac:(discriminate) ltac:(lia)) as H.
  destruct (parse_expr g o (S (List.length (t :: r))) 0 0 (t :: r)); cbn in H; [|discriminate|contradiction].
  destruct (is_kind (cur rest) TkEOF); discriminate.
Qed.

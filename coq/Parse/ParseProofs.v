(* Parse/ParseProofs.v — the round-trip theorem of C11, for ALL trees (no depth bound).

   Main result (end of file):

     C11_roundtrip : wf_grammar g = true -> printable c t -> parse g o (print_any c t) = ROk t

   for every grammar table `g` meeting the decidable side conditions `wf_grammar` (precedences
   positive, punctuation tokens are not operators), every oracle pair `o`, every parenthesis
   oracle `c` and every printable tree `t` (Printer.v).  Equality is on the whole tree, locations
   included.  `print_min` is the instance `c = no_extra`.

   Method (DESIGN.md Appendix C): strong induction on the size of the tree with three statements
   proved together —
     CH  primary level:  parse_base + postfix loop on the printed node = the postfix loop continuing
                         from the node (chains `a.b[c].d(e)` are absorbed one step per iteration);
     K   operator level: primary + binary loop at level p on the printed node = the binary loop
                         continuing from the node, provided the follower token binds at most `f`;
     T   top level:      parseExpression(0) on the printed node returns the node when a closing
                         token follows.
   Loop budgets are explicit: the lemmas say that `k + lf` iterations on the printed text equal `lf`
   iterations on the rest, where k is the number of iterations the node itself consumes. *)
From Coq Require Import ZArith Bool List String Ascii Floats Lia.
Require Import X.Base.Num X.Base.Value X.Syn.Ast X.Syn.Tok X.Parse.Parser X.Parse.Printer.
Import ListNotations.
Open Scope Z_scope.

(* ------------------------------------------------------------------ side conditions on the tables *)
Definition no_key {A : Type} (s : string) (l : list (string * A)) : bool :=
  match lookup s l with None => true | Some _ => false end.

Definition wf_grammar (g : grammar) : bool :=
  forallb (fun e => 1 <=? snd e) (g_unary g) &&
  forallb (fun e => 1 <=? fst (snd e)) (g_binary g) &&
  forallb (fun s => no_key s (g_unary g)) ["#"; "."; "?."; "?"; ":"; ","; "["]%string &&
  forallb (fun s => no_key s (g_binary g)) ["#"; "."; "?."; "?"; ":"; ","; "["]%string.

Lemma lookup_in {A : Type} (s : string) (l : list (string * A)) (v : A) :
  lookup s l = Some v -> In (s, v) l.
Proof.
  induction l as [|[k w] r IH]; cbn; [discriminate|].
  destruct (String.eqb s k) eqn:E.
  - intros H; inversion H; subst. apply String.eqb_eq in E. subst. now left.
  - intros H. right. now apply IH.
Qed.

Lemma aok_eq (a : ann) : aok a -> at_loc (aloc a) = a.
Proof. destruct a as [l k]. unfold aok, at_loc. cbn. intros ->. reflexivity. Qed.

Lemma pbind_assoc {A B C : Type} (r : pres A) (k1 : A -> list token -> pres B) (k2 : B -> list token -> pres C) :
  pbind (pbind r k1) k2 = pbind r (fun a ts => pbind (k1 a ts) k2).
Proof. destruct r; reflexivity. Qed.

Lemma geb_false (q p : Z) : q < p -> (q >=? p) = false.
Proof. intros H. rewrite Z.geb_leb. apply Z.leb_gt. lia. Qed.
Lemma geb_true (q p : Z) : p <= q -> (q >=? p) = true.
Proof. intros H. rewrite Z.geb_leb. apply Z.leb_le. lia. Qed.

Lemma next_cons {A : Type} (t : token) (rest : list token) (k : list token -> pres A) :
  rest <> [] -> next (t :: rest) k = k rest.
Proof. destruct rest; [congruence|reflexivity]. Qed.

Lemma app_nonempty {A : Type} (l r : list A) : r <> [] -> l ++ r <> [].
Proof. destruct l; cbn; [auto|discriminate]. Qed.

Lemma cur_app (l r : list token) : l <> [] -> cur (l ++ r) = cur l.
Proof. destruct l; [congruence|reflexivity]. Qed.

Ltac nonempty :=
  solve [ assumption | discriminate
        | apply app_nonempty; nonempty
        | match goal with |- (_ :: _) ++ _ <> [] => cbn; discriminate end ].

(* ------------------------------------------------------------------ follower predicates *)
Definition pf_start (tk : token) : bool :=
  (is_kind tk TkOperator || is_kind tk TkBracket) &&
  (val_is tk "." || val_is tk "?." || val_is tk "[").

(* a token after which an identifier stays an identifier and a finished primary stays finished *)
Definition calm (tk : token) : bool :=
  negb (pf_start tk) && negb (tok_is tk TkBracket ["("%string]) && negb (val_is tk "?.").

Section Proofs.
  Variable g : grammar.
  Variable o : oracles.
  Variable fmt_int : Z -> string.
  Variable fmt_float : float -> string.
  Hypothesis G : wf_grammar g = true.

  Notation pr := (pr g fmt_int fmt_float).
  Notation body := (body g fmt_int fmt_float).
  Notation wfp := (wfp g fmt_int fmt_float o).
  Notation parens := (parens g).
  Notation needs_paren := (needs_paren g).
  Notation uprec := (uprec g).
  Notation bprec := (bprec g).

  (* ---- facts from wf_grammar *)
  Lemma G_unary_pos s p : lookup s (g_unary g) = Some p -> 1 <= p.
  Proof.
    intros H. apply lookup_in in H. pose proof G as G'. unfold wf_grammar in G'.
    repeat (apply andb_prop in G'; destruct G' as [G' ?]).
    rewrite forallb_forall in G'. specialize (G' _ H). cbn in G'. lia.
  Qed.
  Lemma G_binary_pos s p ra : lookup s (g_binary g) = Some (p, ra) -> 1 <= p.
  Proof.
    intros H. apply lookup_in in H. pose proof G as G'. unfold wf_grammar in G'.
    repeat (apply andb_prop in G'; destruct G' as [G' ?]).
    match goal with H1 : forallb _ (g_binary g) = true |- _ => rewrite forallb_forall in H1; specialize (H1 _ H); cbn in H1; lia end.
  Qed.
  Lemma G_punct s : In s ["#"; "."; "?."; "?"; ":"; ","; "["]%string ->
    lookup s (g_unary g) = None /\ lookup s (g_binary g) = None.
  Proof.
    intros H. pose proof G as G'. unfold wf_grammar in G'.
    repeat (apply andb_prop in G'; destruct G' as [G' ?]).
    repeat match goal with H1 : forallb _ _ = true |- _ => rewrite forallb_forall in H1 end.
    split.
    - match goal with H1 : forall x, In x _ -> no_key x (g_unary g) = true |- _ => specialize (H1 _ H); unfold no_key in H1 end.
      destruct (lookup s (g_unary g)); [discriminate|reflexivity].
    - match goal with H1 : forall x, In x _ -> no_key x (g_binary g) = true |- _ => specialize (H1 _ H); unfold no_key in H1 end.
      destruct (lookup s (g_binary g)); [discriminate|reflexivity].
  Qed.

  Definition bin_prec_of (tk : token) : Z :=
    if is_kind tk TkOperator then
      match lookup (tval tk) (g_binary g) with Some x => fst x | None => 0 end
    else 0.

  (* the token after a sub-expression binds at most f *)
  Definition folb (f : Z) (rest : list token) : bool :=
    match rest with [] => false | tk :: _ => calm tk && (bin_prec_of tk <=? f) end.
  (* a closing token follows *)
  Definition closerb (rest : list token) : bool :=
    folb 0 rest && negb (tok_is (cur rest) TkOperator ["?"%string]).

  Lemma folb_nonempty f rest : folb f rest = true -> rest <> [].
  Proof. destruct rest; [discriminate|discriminate]. Qed.
  Lemma folb_calm f rest : folb f rest = true -> calm (cur rest) = true.
  Proof. destruct rest; [discriminate|]. cbn. intros H. apply andb_prop in H. tauto. Qed.
  Lemma closerb_folb rest : closerb rest = true -> folb 0 rest = true.
  Proof. unfold closerb. intros H. apply andb_prop in H. tauto. Qed.
  Lemma closerb_noq rest : closerb rest = true -> tok_is (cur rest) TkOperator ["?"%string] = false.
  Proof. unfold closerb. intros H. apply andb_prop in H. destruct H as [_ H]. now apply negb_true_iff in H. Qed.
  Lemma folb_mono f f' rest : folb f rest = true -> f <= f' -> folb f' rest = true.
  Proof.
    destruct rest; [discriminate|]. cbn. intros H L. apply andb_prop in H. destruct H as [H1 H2].
    rewrite H1. cbn. apply Z.leb_le in H2. apply Z.leb_le. lia.
  Qed.
  Lemma calm_nopf tk : calm tk = true -> pf_start tk = false.
  Proof. unfold calm. intros H. repeat (apply andb_prop in H; destruct H as [H ?]). now apply negb_true_iff in H. Qed.
  Lemma calm_nocall tk : calm tk = true -> tok_is tk TkBracket ["("%string] = false.
  Proof. unfold calm. intros H. repeat (apply andb_prop in H; destruct H as [H ?]). now apply negb_true_iff. Qed.
  Lemma calm_nons tk : calm tk = true -> val_is tk "?." = false.
  Proof. unfold calm. intros H. repeat (apply andb_prop in H; destruct H as [H ?]). now apply negb_true_iff. Qed.

  Definition PE (n : nat) := parse_expr g o n.
  Definition ploop (n lf : nat) := postfix_loop (PE n) n lf.
  Definition bloop (n lf : nat) := binary_loop g o (PE n) lf.
  Definition cloop (n lf : nat) := cond_loop (PE n) lf.
  Definition prim_lf (n lf : nat) (d : nat) (ts : list token) : pres expr :=
    pbind (parse_base g o (PE n) n d ts) (fun xb ts1 =>
    if snd xb then ploop n lf d false (fst xb) ts1 else POk (fst xb) ts1).

  Lemma PE_S n p d ts :
    PE (S n) p d ts =
    pbind (pbind (prim_lf n n d ts) (fun x ts1 => bloop n n p d x ts1))
          (fun node ts2 => if p =? 0 then cloop n n d node ts2 else POk node ts2).
  Proof.
    unfold PE at 1. cbn [parse_expr]. unfold expression_body, parse_primary, prim_lf, ploop, bloop, cloop, PE.
    rewrite !pbind_assoc. reflexivity.
  Qed.

  (* ---- leaving the loops *)
  Lemma ploop_stop n lf d ns x rest : pf_start (cur rest) = false -> ploop n lf d ns x rest = POk x rest.
  Proof.
    unfold ploop, pf_start. intros H. destruct lf; cbn [postfix_loop].
    - destruct (is_kind (cur rest) TkOperator || is_kind (cur rest) TkBracket); [|reflexivity].
      cbn in H. apply orb_false_iff in H. destruct H as [H H3]. apply orb_false_iff in H. destruct H as [H1 H2].
      rewrite H1, H2, H3. reflexivity.
    - destruct (is_kind (cur rest) TkOperator || is_kind (cur rest) TkBracket); [|reflexivity].
      cbn in H. apply orb_false_iff in H. destruct H as [H H3]. apply orb_false_iff in H. destruct H as [H1 H2].
      rewrite H1, H2, H3. reflexivity.
  Qed.

  Lemma bloop_stop n lf p d x f rest : folb f rest = true -> f < p -> bloop n lf p d x rest = POk x rest.
  Proof.
    unfold bloop. intros H L. destruct rest as [|tk r]; [discriminate|]. cbn in H.
    apply andb_prop in H. destruct H as [_ H]. apply Z.leb_le in H. unfold bin_prec_of in H.
    destruct lf; cbn [binary_loop cur].
    - destruct (is_kind tk TkOperator); [|reflexivity].
      destruct (lookup (tval tk) (g_binary g)) as [[q ra]|]; [|reflexivity]. cbn in H.
      rewrite (geb_false q p) by lia. reflexivity.
    - destruct (is_kind tk TkOperator); [|reflexivity].
      destruct (lookup (tval tk) (g_binary g)) as [[q ra]|]; [|reflexivity]. cbn in H.
      rewrite (geb_false q p) by lia. reflexivity.
  Qed.

  Lemma cloop_stop n lf d x rest : tok_is (cur rest) TkOperator ["?"%string] = false -> cloop n lf d x rest = POk x rest.
  Proof. unfold cloop. intros H. destruct lf; cbn [cond_loop]; rewrite H; reflexivity. Qed.

  Lemma bloop_stop0 n lf p d x rest : folb 0 rest = true -> bloop n lf p d x rest = POk x rest.
  Proof.
    unfold bloop. intros H. destruct rest as [|tk r]; [discriminate|]. cbn in H.
    apply andb_prop in H. destruct H as [_ H]. apply Z.leb_le in H. unfold bin_prec_of in H.
    destruct lf; cbn [binary_loop cur].
    - destruct (is_kind tk TkOperator); [|reflexivity].
      destruct (lookup (tval tk) (g_binary g)) as [[q ra]|] eqn:E; [|reflexivity]. cbn in H.
      apply G_binary_pos in E. lia.
    - destruct (is_kind tk TkOperator); [|reflexivity].
      destruct (lookup (tval tk) (g_binary g)) as [[q ra]|] eqn:E; [|reflexivity]. cbn in H.
      apply G_binary_pos in E. lia.
  Qed.

  (* ---- how many iterations of the postfix / binary loop a printed node consumes *)
  Fixpoint chain (c : poracle) (cx : ctx) (t : expr) {struct t} : nat :=
    match parens c cx t with
    | S _ => O
    | O => match t with
           | EProperty _ e _ ns | EMethod _ e _ _ ns => S (chain (sub c 0%nat) (CBase (Some ns)) e)
           | EIndex _ e _ | ESlice _ e _ _ => S (chain (sub c 0%nat) (CBase None) e)
           | _ => O
           end
    end.

  Fixpoint spine (c : poracle) (cx : ctx) (t : expr) {struct t} : nat :=
    match parens c cx t with
    | S _ => O
    | O => match t, cx with
           | EBinary _ b l _, COp _ p _ => S (spine (sub c 0%nat) (COp false p (fst (bprec (string_of_binop b)))) l)
           | EMatches _ _ l _, COp _ p _ => S (spine (sub c 0%nat) (COp false p (fst (bprec "matches"))) l)
           | _, _ => O
           end
    end.

  (* the sticky nil-safe flag after the printed node *)
  Definition stk (c : poracle) (cx : ctx) (t : expr) : bool :=
    match parens c cx t with O => sticky c t | S _ => false end.

  Lemma pr_unfold c cx t :
    pr c cx t = wrap (parens c cx t) (body pr c (inner_ctx (parens c cx t) cx) t).
  Proof. destruct t; reflexivity. Qed.

  Lemma wrap_length k B : List.length (wrap k B) = (List.length B + 2 * k)%nat.
  Proof. induction k; cbn [wrap List.length]; [lia|]. rewrite app_length, IHk. cbn. lia. Qed.

  Lemma spine_le t : forall c cx, (spine c cx t <= List.length (pr c cx t))%nat.
  Proof.
    induction t; intros c cx; rewrite pr_unfold; cbn [spine]; destruct (parens c cx _) eqn:EP; try lia;
      destruct cx; try lia; cbn [wrap inner_ctx body ctx_pf]; rewrite app_length; cbn [List.length].
    - specialize (IHt1 (sub c 0%nat) (COp false p (fst (bprec (string_of_binop op))))). lia.
    - specialize (IHt1 (sub c 0%nat) (COp false p (fst (bprec "matches")))). lia.
  Qed.

  Lemma chain_le t : forall c cx, (chain c cx t <= List.length (pr c cx t))%nat.
  Proof.
    induction t; intros c cx; rewrite pr_unfold; cbn [chain]; destruct (parens c cx _) eqn:EP; try lia;
      cbn [wrap inner_ctx]; unfold Printer.body; destruct (ctx_pf cx); rewrite app_length; cbn [List.length].
    - specialize (IHt (sub c 0%nat) (CBase (Some nilsafe))). lia.
    - specialize (IHt1 (sub c 0%nat) (CBase None)). lia.
    - specialize (IHt (sub c 0%nat) (CBase None)). lia.
    - specialize (IHt (sub c 0%nat) (CBase (Some nilsafe))). lia.
  Qed.

  (* what may follow a printed node, per context *)
  Definition basefol (cx : ctx) (rest : list token) : Prop :=
    rest <> [] /\
    match cx with
    | COp _ _ _ => calm (cur rest) = true
    | CBase pns =>
        tok_is (cur rest) TkBracket ["("%string] = false /\
        val_is (cur rest) "?." = match pns with Some true => true | _ => false end
    end.

  (* ---- the three statements *)
  Definition CHs (t : expr) : Prop := forall c d n cx lf rest,
    (parens c cx t <> O \/ is_operator_node t = false) ->
    basefol cx rest -> wfp c d cx t -> (List.length (pr c cx t) <= n)%nat ->
    prim_lf n (chain c cx t + lf) d (pr c cx t ++ rest) = ploop n lf d (stk c cx t) t rest.

  Definition Ks (t : expr) : Prop := forall c d n top p f lf rest,
    (is_cond t = true -> parens c (COp top p f) t <> O) ->
    folb f rest = true -> wfp c d (COp top p f) t -> (List.length (pr c (COp top p f) t) <= n)%nat ->
    pbind (prim_lf n n d (pr c (COp top p f) t ++ rest))
          (fun x ts => bloop n (spine c (COp top p f) t + lf) p d x ts) = bloop n lf p d t rest.

  Definition Ts (t : expr) : Prop := forall c d n rest,
    closerb rest = true -> wfp c d CTOP t -> (List.length (pr c CTOP t) < n)%nat ->
    PE n 0 d (pr c CTOP t ++ rest) = POk t rest.

  Definition Stmt (t : expr) : Prop := CHs t /\ Ks t /\ Ts t.

  (* K with an arbitrary sufficient budget *)
  Lemma K_budget t : Ks t -> forall c d n top p f m rest,
    (is_cond t = true -> parens c (COp top p f) t <> O) ->
    folb f rest = true -> wfp c d (COp top p f) t -> (List.length (pr c (COp top p f) t) <= n)%nat ->
    (spine c (COp top p f) t <= m)%nat ->
    pbind (prim_lf n n d (pr c (COp top p f) t ++ rest)) (fun x ts => bloop n m p d x ts)
    = bloop n (m - spine c (COp top p f) t) p d t rest.
  Proof.
    intros HK c d n top p f m rest H1 H2 H3 H4 H5.
    assert (exists lf, m = (spine c (COp top p f) t + lf)%nat) as [lf ->] by (exists (m - spine c (COp top p f) t)%nat; lia).
    replace (spine c (COp top p f) t + lf - spine c (COp top p f) t)%nat with lf by lia.
    now apply HK.
  Qed.

  (* operand position: parseExpression(q) with q >= 1 returns the node when the follower binds less *)
  Lemma E_of_K t : Ks t -> forall c d n q f rest,
    1 <= q -> (f < q \/ f <= 0) -> folb f rest = true -> wfp c d (COp false q f) t ->
    (List.length (pr c (COp false q f) t) < n)%nat ->
    PE n q d (pr c (COp false q f) t ++ rest) = POk t rest.
  Proof.
    intros HK c d n q f rest Q F H W L. destruct n as [|n]; [lia|]. rewrite PE_S.
    rewrite (K_budget t HK); try assumption; try lia.
    - assert (FQ : f < q) by lia. rewrite (bloop_stop n _ q d t f rest H FQ). cbn [pbind].
      replace (q =? 0) with false by (symmetry; apply Z.eqb_neq; lia). reflexivity.
    - intros HC. destruct t; try discriminate HC. unfold parens. cbn. lia.
    - pose proof (spine_le t c (COp false q f)). lia.
  Qed.

  Ltac tok :=
    cbn [cur tloc tkind_of tval is_kind val_is tok_is tkind_eqb existsb fst snd pbind negb andb orb
         String.eqb Ascii.eqb Bool.eqb lparen rparen comma colon dot_tok eof_at app].

  Lemma closerb_rparen rest : closerb (rparen :: rest) = true.
  Proof. reflexivity. Qed.
  Lemma closerb_rbracket rest : closerb (mkTok noloc TkBracket "]" :: rest) = true.
  Proof. reflexivity. Qed.
  Lemma closerb_rbrace rest : closerb (mkTok noloc TkBracket "}" :: rest) = true.
  Proof. reflexivity. Qed.
  Lemma closerb_eof l rest : closerb (eof_at l :: rest) = true.
  Proof. reflexivity. Qed.
  Lemma closerb_comma rest : closerb (comma :: rest) = true.
  Proof.
    unfold closerb, folb, bin_prec_of. tok. cbn [calm pf_start]. tok.
    destruct (G_punct ","%string) as [_ E]; [cbn; tauto|]. rewrite E. reflexivity.
  Qed.
  Lemma closerb_colon rest : closerb (colon :: rest) = true.
  Proof.
    unfold closerb, folb, bin_prec_of. tok. cbn [calm pf_start]. tok.
    destruct (G_punct ":"%string) as [_ E]; [cbn; tauto|]. rewrite E. reflexivity.
  Qed.

  (* ---- parentheses *)
  Lemma prim_paren n lf d j B t rest :
    rest <> [] ->
    (forall rest', closerb rest' = true -> PE n 0 d (wrap j B ++ rest') = POk t rest') ->
    prim_lf n lf d (wrap (S j) B ++ rest) = ploop n lf d false t rest.
  Proof.
    intros NE H. cbn [wrap]. rewrite <- app_comm_cons, <- app_assoc. cbn [app].
    unfold prim_lf, parse_base. tok.
    rewrite next_cons by nonempty. rewrite H by apply closerb_rparen. tok.
    unfold expect. tok. rewrite next_cons by nonempty. tok. reflexivity.
  Qed.

  Lemma wrap_top d B t :
    (forall n rest, closerb rest = true -> (List.length B < n)%nat -> PE n 0 d (B ++ rest) = POk t rest) ->
    forall j n rest, closerb rest = true -> (List.length B + j < n)%nat -> PE n 0 d (wrap j B ++ rest) = POk t rest.
  Proof.
    intros H0. induction j as [|j IH]; intros n rest C L.
    - cbn [wrap]. apply H0; [assumption|lia].
    - destruct n as [|n]; [lia|]. rewrite PE_S.
      rewrite (prim_paren n n d j B t rest).
      + rewrite ploop_stop by (apply calm_nopf, (folb_calm 0), closerb_folb, C). cbn [pbind].
        rewrite bloop_stop0 by (apply closerb_folb, C). cbn [pbind]. cbn [Z.eqb].
        apply cloop_stop, closerb_noq, C.
      + apply (folb_nonempty 0), closerb_folb, C.
      + intros rest' C'. apply IH; [assumption|lia].
  Qed.

  Lemma budget {A : Type} (F1 F2 : nat -> A) (k : nat) :
    (forall lf, F1 (k + lf)%nat = F2 lf) -> forall m, (k <= m)%nat -> F1 m = F2 (m - k)%nat.
  Proof. intros H m L. replace m with (k + (m - k))%nat at 1 by lia. apply H. Qed.

  (* ---- the first token of a printed expression *)
  Definition starter (tk : token) : bool :=
    negb (is_kind tk TkBracket && (val_is tk ")" || val_is tk "]" || val_is tk "}")) &&
    negb (is_kind tk TkOperator && (val_is tk ":" || val_is tk ",")).

  Lemma wfp_unfold c d cx t : wfp c d cx t = wfb g fmt_int fmt_float o wfp c d (inner_ctx (parens c cx t) cx) t.
  Proof. destruct t; reflexivity. Qed.

  Lemma unop_ok_prec u : unop_ok g u -> lookup (string_of_unop u) (g_unary g) = Some (uprec u) /\ 1 <= uprec u.
  Proof.
    intros [_ H]. unfold Printer.uprec. destruct (lookup (string_of_unop u) (g_unary g)) eqn:E; [|congruence].
    split; [reflexivity|]. eapply G_unary_pos; eauto.
  Qed.
  Lemma bprec_ok s : lookup s (g_binary g) <> None ->
    lookup s (g_binary g) = Some (bprec s) /\ 1 <= fst (bprec s) /\ 1 <= qprec (bprec s).
  Proof.
    intros H. unfold Printer.bprec. destruct (lookup s (g_binary g)) as [[q ra]|] eqn:E; [|congruence].
    pose proof (G_binary_pos _ _ _ E). split; [reflexivity|]. unfold qprec. cbn. destruct ra; lia.
  Qed.

  Lemma pr_starts t : forall c d cx, wfp c d cx t -> exists tk r, pr c cx t = tk :: r /\ starter tk = true.
  Proof.
    induction t; intros c d cx W; rewrite pr_unfold; rewrite wfp_unfold in W;
      destruct (parens c cx _) as [|k]; try (cbn [wrap]; eexists; eexists; split; [reflexivity|reflexivity]);
      cbn [wrap inner_ctx] in *; unfold Printer.body; unfold wfb in W; destruct (ctx_pf cx) as [p0 f0];
      try (eexists; eexists; split; [reflexivity|reflexivity]).
    - (* EUnary *) destruct W as (_ & U & _). eexists; eexists; split; [reflexivity|].
      unfold starter. tok. destruct U as [_ U].
      destruct (String.eqb (string_of_unop op) ":") eqn:E1.
      { apply String.eqb_eq in E1. rewrite E1 in U. destruct (G_punct ":"%string) as [E _]; [cbn; tauto|]. congruence. }
      destruct (String.eqb (string_of_unop op) ",") eqn:E2.
      { apply String.eqb_eq in E2. rewrite E2 in U. destruct (G_punct ","%string) as [E _]; [cbn; tauto|]. congruence. }
      reflexivity.
    - (* EBinary *) destruct W as (_ & _ & W1 & _). destruct (IHt1 _ _ _ W1) as (tk & r & E & S). rewrite E.
      eexists; eexists; split; [reflexivity|exact S].
    - (* EMatches *) destruct W as (_ & _ & _ & _ & W1 & _). destruct (IHt1 _ _ _ W1) as (tk & r & E & S). rewrite E.
      eexists; eexists; split; [reflexivity|exact S].
    - (* EProperty *) destruct W as (_ & W1). destruct (IHt _ _ _ W1) as (tk & r & E & S). rewrite E.
      eexists; eexists; split; [reflexivity|exact S].
    - (* EIndex *) destruct W as (_ & W1 & _). destruct (IHt1 _ _ _ W1) as (tk & r & E & S). rewrite E.
      eexists; eexists; split; [reflexivity|exact S].
    - (* ESlice *) destruct W as (_ & W1 & _). destruct (IHt _ _ _ W1) as (tk & r & E & S). rewrite E.
      eexists; eexists; split; [reflexivity|exact S].
    - (* EMethod *) destruct W as (_ & W1 & _). destruct (IHt _ _ _ W1) as (tk & r & E & S). rewrite E.
      eexists; eexists; split; [reflexivity|exact S].
    - (* ECond *) destruct W as (_ & W1 & _). destruct (IHt1 _ _ _ W1) as (tk & r & E & S). rewrite E.
      eexists; eexists; split; [reflexivity|exact S].
    - (* EPair *) destruct W.
  Qed.

  (* ---- reduction of the three statements to their unparenthesised ("body") forms *)
  Definition zero_root (c : poracle) : poracle := fun q => match q with [] => O | _ :: _ => c q end.

  Definition CHB (t : expr) : Prop := forall c d n cx lf rest,
    parens c cx t = O -> is_operator_node t = false ->
    basefol cx rest -> wfp c d cx t -> (List.length (pr c cx t) <= n)%nat ->
    prim_lf n (chain c cx t + lf) d (pr c cx t ++ rest) = ploop n lf d (sticky c t) t rest.

  Definition KB (t : expr) : Prop := forall c d n top p f lf rest,
    parens c (COp top p f) t = O -> is_cond t = false ->
    folb f rest = true -> wfp c d (COp top p f) t -> (List.length (pr c (COp top p f) t) <= n)%nat ->
    pbind (prim_lf n n d (pr c (COp top p f) t ++ rest))
          (fun x ts => bloop n (spine c (COp top p f) t + lf) p d x ts) = bloop n lf p d t rest.

  Definition TB (t : expr) : Prop := forall c d n rest,
    parens c CTOP t = O -> closerb rest = true -> wfp c d CTOP t -> (List.length (pr c CTOP t) < n)%nat ->
    PE n 0 d (pr c CTOP t ++ rest) = POk t rest.

  Lemma needs_paren_top c d t : wfb g fmt_int fmt_float o wfp c d CTOP t -> needs_paren c CTOP t = false.
  Proof.
    intros W. destruct t; try reflexivity; cbn in W |- *.
    - destruct W as (_ & U & _). apply unop_ok_prec in U. rewrite geb_false; [reflexivity|lia].
    - destruct W as (_ & (_ & B & _) & _). apply bprec_ok in B. destruct B as (_ & B1 & B2).
      rewrite geb_false by lia. replace (fst (bprec (string_of_binop op)) <? 0) with false by (symmetry; apply Z.ltb_ge; lia).
      reflexivity.
    - destruct W as (_ & B & _). apply bprec_ok in B. destruct B as (_ & B1 & B2).
      rewrite geb_false by lia. replace (fst (bprec "matches") <? 0) with false by (symmetry; apply Z.ltb_ge; lia).
      reflexivity.
  Qed.

  Lemma zero_root_facts t c d cx j : wfp c d cx t -> parens c cx t = S j ->
    parens (zero_root c) CTOP t = O /\ wfp (zero_root c) d CTOP t /\ pr (zero_root c) CTOP t = body pr c CTOP t.
  Proof.
    intros W E. rewrite wfp_unfold, E in W. cbn [inner_ctx] in W.
    assert (P0 : parens (zero_root c) CTOP t = O).
    { unfold Printer.parens. cbn [zero_root]. rewrite (needs_paren_top (zero_root c) d t); [reflexivity|].
      destruct t; exact W. }
    split; [exact P0|]. split.
    - rewrite wfp_unfold, P0. cbn [inner_ctx]. destruct t; exact W.
    - rewrite pr_unfold, P0. cbn [wrap inner_ctx]. destruct t; reflexivity.
  Qed.

  Lemma chain_paren c cx t j : parens c cx t = S j -> chain c cx t = O.
  Proof. intros E. destruct t; cbn [chain]; rewrite E; reflexivity. Qed.
  Lemma spine_paren c cx t j : parens c cx t = S j -> spine c cx t = O.
  Proof. intros E. destruct t; cbn [spine]; rewrite E; reflexivity. Qed.

  Lemma stmt_of_body t : CHB t -> KB t -> TB t -> Stmt t.
  Proof.
    intros HC HK HT.
    assert (INNER : forall c d cx j, wfp c d cx t -> parens c cx t = S j ->
              forall n rest, closerb rest = true -> (List.length (body pr c CTOP t) < n)%nat ->
              PE n 0 d (body pr c CTOP t ++ rest) = POk t rest).
    { intros c d cx j W E n rest C L. destruct (zero_root_facts t c d cx j W E) as (P0 & W0 & E0).
      rewrite <- E0. apply HT; try assumption. rewrite E0. exact L. }
    assert (PAR : forall c d cx j n lf rest, wfp c d cx t -> parens c cx t = S j -> rest <> [] ->
              (List.length (pr c cx t) <= n)%nat ->
              prim_lf n lf d (pr c cx t ++ rest) = ploop n lf d false t rest).
    { intros c d cx j n lf rest W E NE L. rewrite pr_unfold, E in L |- *. cbn [inner_ctx] in L |- *.
      rewrite wrap_length in L.
      apply prim_paren; [assumption|]. intros rest' C'. apply wrap_top; [|assumption|lia].
      intros n0 rest0 C0 L0. eapply INNER; eauto. }
    split; [|split].
    - (* CH *) intros c d n cx lf rest SH BF W L. destruct (parens c cx t) as [|j] eqn:E.
      + unfold stk. rewrite E. apply HC; try assumption. destruct SH; [congruence|assumption].
      + rewrite (chain_paren _ _ _ _ E). unfold stk. rewrite E. cbn [Nat.add].
        eapply PAR; eauto. apply BF.
    - (* K *) intros c d n top p f lf rest SH F W L. destruct (parens c (COp top p f) t) as [|j] eqn:E.
      + apply HK; try assumption. destruct (is_cond t); [exfalso; now apply SH|reflexivity].
      + rewrite (spine_paren _ _ _ _ E). cbn [Nat.add].
        rewrite (PAR c d (COp top p f) j n n rest W E (folb_nonempty _ _ F) L).
        rewrite ploop_stop by (apply calm_nopf, (folb_calm f), F). reflexivity.
    - (* T *) intros c d n rest C W L. destruct (parens c CTOP t) as [|j] eqn:E.
      + apply HT; assumption.
      + rewrite pr_unfold, E in L |- *. cbn [inner_ctx] in L |- *. rewrite wrap_length in L.
        apply wrap_top; [|assumption|lia]. intros n0 rest0 C0 L0. eapply INNER; eauto.
  Qed.

  Ltac tokr := repeat (progress (tok; rewrite ?andb_false_r, ?orb_false_r, ?andb_true_r)).

  (* ---- parse_base on the possible first tokens *)
  Lemma base_unary n d l s pu rest : lookup s (g_unary g) = Some pu -> rest <> [] ->
    parse_base g o (PE n) n d (mkTok l TkOperator s :: rest) =
    pbind (PE n pu d rest) (fun e ts2 => POk (EUnary (at_loc l) (unop_of_string s) e, true) ts2).
  Proof. intros H NE. unfold parse_base. tok. rewrite H. rewrite next_cons by assumption. reflexivity. Qed.

  Lemma base_to_primary n d l k v rest : k = TkIdentifier \/ k = TkNumber \/ k = TkString ->
    parse_base g o (PE n) n d (mkTok l k v :: rest) = parse_primary_expression g o (PE n) n d (mkTok l k v :: rest).
  Proof.
    intros K. unfold parse_base. destruct K as [-> | [-> | ->]]; tokr; destruct d; reflexivity.
  Qed.

  Lemma base_nil n d l rest : rest <> [] ->
    parse_base g o (PE n) n d (mkTok l TkIdentifier "nil" :: rest) = POk (ENil (at_loc l), false) rest.
  Proof.
    intros NE. rewrite base_to_primary by tauto. unfold parse_primary_expression. tok.
    rewrite next_cons by assumption. reflexivity.
  Qed.
  Lemma base_bool n d l (b : bool) rest : rest <> [] ->
    parse_base g o (PE n) n d (mkTok l TkIdentifier (if b then "true" else "false")%string :: rest) = POk (EBool (at_loc l) b, false) rest.
  Proof.
    intros NE. rewrite base_to_primary by tauto. unfold parse_primary_expression. tok.
    rewrite next_cons by assumption. destruct b; reflexivity.
  Qed.
  Lemma base_string n d l v rest : rest <> [] ->
    parse_base g o (PE n) n d (mkTok l TkString v :: rest) = POk (EStr (at_loc l) v, false) rest.
  Proof.
    intros NE. rewrite base_to_primary by tauto. unfold parse_primary_expression. tok.
    rewrite next_cons by assumption. reflexivity.
  Qed.
  Lemma base_number n d l v rest : rest <> [] ->
    parse_base g o (PE n) n d (mkTok l TkNumber v :: rest) =
    match number_value (o_float o) v with
    | NLInt z => POk (EInt (at_loc l) z, false) rest
    | NLFloat x => POk (EFloat (at_loc l) x, false) rest
    | NLBad => PErr (tloc (cur rest))
    end.
  Proof.
    intros NE. rewrite base_to_primary by tauto. unfold parse_primary_expression. tok.
    rewrite next_cons by assumption. reflexivity.
  Qed.
  Lemma base_name n d l v rest : rest <> [] -> not_keyword v ->
    parse_base g o (PE n) n d (mkTok l TkIdentifier v :: rest) =
    pbind (parse_identifier_expression g (PE n) n (mkTok l TkIdentifier v) d rest) (fun node ts2 => POk (node, true) ts2).
  Proof.
    intros NE (K1 & K2 & K3). rewrite base_to_primary by tauto. unfold parse_primary_expression. tok.
    rewrite next_cons by assumption. rewrite K1, K2, K3. reflexivity.
  Qed.
  Lemma base_ident n d l v rest : rest <> [] -> not_keyword v -> tok_is (cur rest) TkBracket ["("%string] = false ->
    parse_base g o (PE n) n d (mkTok l TkIdentifier v :: rest) =
    POk (EIdent (at_loc l) v (val_is (cur rest) "?."), true) rest.
  Proof.
    intros NE K C. rewrite base_name by assumption. unfold parse_identifier_expression. rewrite C. reflexivity.
  Qed.
  Lemma base_pointer n d l rest : rest <> [] ->
    parse_base g o (PE n) n (S d) (mkTok l TkOperator "#" :: rest) = POk (EPointer (at_loc l), true) rest.
  Proof.
    intros NE. unfold parse_base. tok. destruct (G_punct "#"%string) as [E _]; [cbn; tauto|]. rewrite E.
    rewrite next_cons by assumption. reflexivity.
  Qed.

  (* ---- one iteration of the loops *)
  Lemma bloop_step n lf p d left l s po ra rest :
    lookup s (g_binary g) = Some (po, ra) -> p <= po -> rest <> [] ->
    bloop n (S lf) p d left (mkTok l TkOperator s :: rest) =
    pbind (PE n (if ra then po else po + 1) d rest) (fun right ts2 =>
      if String.eqb s "matches" then
        match right with
        | EStr _ s' => if o_regex o s' then bloop n lf p d (EMatches (at_loc l) (Some s') left right) ts2
                       else PErr (tloc (cur ts2))
        | _ => bloop n lf p d (EMatches (at_loc l) None left right) ts2
        end
      else bloop n lf p d (EBinary (at_loc l) (binop_of_string s) left right) ts2).
  Proof.
    intros H L NE. unfold bloop. cbn [binary_loop]. tok. rewrite H. rewrite geb_true by assumption.
    rewrite next_cons by assumption. reflexivity.
  Qed.

  Lemma cloop_step n lf d node rest :
    rest <> [] -> tok_is (cur rest) TkOperator [":"%string] = false ->
    cloop n (S lf) d node (mkTok noloc TkOperator "?" :: rest) =
    pbind (PE n 0 d rest) (fun e1 ts2 =>
    expect TkOperator ":" ts2 (fun ts3 =>
    pbind (PE n 0 d ts3) (fun e2 ts4 => cloop n lf d (ECond ann0 node e1 e2) ts4))).
  Proof.
    intros NE H. unfold cloop. cbn [cond_loop cur].
    replace (tok_is (mkTok noloc TkOperator "?") TkOperator ["?"%string]) with true by reflexivity.
    rewrite next_cons by assumption. rewrite H. reflexivity.
  Qed.

  Lemma kshape_false c p f t : is_cond t = true -> parens c (COp false p f) t <> O.
  Proof. destruct t; try discriminate. intros _. unfold Printer.parens. cbn. lia. Qed.

  Lemma parens_zero c cx t : parens c cx t = O -> c [] = O /\ needs_paren c cx t = false.
  Proof. unfold Printer.parens. destruct (needs_paren c cx t); intros H; split; try reflexivity; lia. Qed.

  Lemma binary_key_not_punct s s' : lookup s (g_binary g) <> None ->
    In s' ["#"; "."; "?."; "?"; ":"; ","; "["]%string -> String.eqb s s' = false.
  Proof.
    intros H I. destruct (String.eqb s s') eqn:E; [|reflexivity]. apply String.eqb_eq in E. subst s'.
    destruct (G_punct s I) as [_ E]. congruence.
  Qed.

  Lemma op_tok_calm l s : lookup s (g_binary g) <> None -> calm (mkTok l TkOperator s) = true.
  Proof.
    intros H. unfold calm, pf_start. tok.
    rewrite !(binary_key_not_punct s) by (assumption || (cbn; tauto)). tokr. reflexivity.
  Qed.

  Lemma op_tok_folb l s rest : lookup s (g_binary g) <> None -> folb (fst (bprec s)) (mkTok l TkOperator s :: rest) = true.
  Proof.
    intros H. unfold folb. rewrite (op_tok_calm l s H). unfold bin_prec_of. tok.
    destruct (bprec_ok s H) as (E & _). rewrite E. cbn [andb]. apply Z.leb_refl.
  Qed.

  (* ---- operator level, unparenthesised: unary, binary, matches *)
  Lemma KB_unary a u e : Ks e -> KB (EUnary a u e).
  Proof.
    intros IHe c d n top p f lf rest P0 _ F W L.
    destruct (parens_zero _ _ _ P0) as [_ NP]. cbn in NP.
    rewrite wfp_unfold, P0 in W. cbn in W. destruct W as (A & U & We).
    destruct (unop_ok_prec u U) as (EU & PU).
    rewrite pr_unfold, P0 in L |- *. cbn [wrap inner_ctx Printer.body ctx_pf] in L |- *.
    cbn [spine]. rewrite P0. cbn [Nat.add List.length app] in L |- *.
    unfold prim_lf. rewrite (base_unary n d _ _ _ _ EU) by (apply app_nonempty, (folb_nonempty _ _ F)).
    rewrite (E_of_K e IHe); try assumption; try lia.
    - cbn [pbind fst snd]. destruct U as [U _]. rewrite U, (aok_eq a A).
      rewrite ploop_stop by (apply calm_nopf, (folb_calm f), F). reflexivity.
  Qed.

  Lemma KB_binary a b l r : Ks l -> Ks r -> KB (EBinary a b l r).
  Proof.
    intros IHl IHr c d n top p f lf rest P0 _ F W L.
    destruct (parens_zero _ _ _ P0) as [_ NP]. cbn in NP. apply orb_false_iff in NP. destruct NP as [NP1 NP2].
    rewrite wfp_unfold, P0 in W. cbn in W. destruct W as (A & (B1 & B2 & B3) & Wl & Wr).
    destruct (bprec_ok _ B2) as (EB & PB & QB).
    rewrite pr_unfold, P0 in L |- *. cbn [wrap inner_ctx Printer.body ctx_pf] in L |- *.
    cbn [spine]. rewrite P0. rewrite app_length in L. cbn [List.length] in L.
    rewrite <- app_assoc. cbn [app].
    set (x := bprec (string_of_binop b)) in *.
    replace (S (spine (sub c 0%nat) (COp false p (fst x)) l) + lf)%nat
      with (spine (sub c 0%nat) (COp false p (fst x)) l + S lf)%nat by lia.
    rewrite (IHl (sub c 0%nat) d n false p (fst x) (S lf)); try assumption; try lia.
    2: apply kshape_false.
    2: apply op_tok_folb, B2.
    assert (NE : rest <> []) by apply (folb_nonempty _ _ F).
    destruct x as [po ra] eqn:EX. cbn [fst snd] in *.
    rewrite (bloop_step n lf p d l _ _ po ra) by (try assumption; try nonempty; apply Z.ltb_ge in NP1; lia).
    rewrite B3.
    replace (if ra then po else po + 1) with (qprec (po, ra)) by reflexivity.
    rewrite (E_of_K r IHr); try assumption; try lia.
    - cbn [pbind]. rewrite B1, (aok_eq a A). reflexivity.
  Qed.

  Lemma KB_matches a re l r : Ks l -> Ks r -> KB (EMatches a re l r).
  Proof.
    intros IHl IHr c d n top p f lf rest P0 _ F W L.
    destruct (parens_zero _ _ _ P0) as [_ NP]. cbn in NP. apply orb_false_iff in NP. destruct NP as [NP1 NP2].
    rewrite wfp_unfold, P0 in W. cbn in W. destruct W as (A & B2 & RE & RX & Wl & Wr).
    destruct (bprec_ok _ B2) as (EB & PB & QB).
    rewrite pr_unfold, P0 in L |- *. cbn [wrap inner_ctx Printer.body ctx_pf] in L |- *.
    cbn [spine]. rewrite P0. rewrite app_length in L. cbn [List.length] in L.
    rewrite <- app_assoc. cbn [app].
    set (x := bprec "matches") in *.
    replace (S (spine (sub c 0%nat) (COp false p (fst x)) l) + lf)%nat
      with (spine (sub c 0%nat) (COp false p (fst x)) l + S lf)%nat by lia.
    rewrite (IHl (sub c 0%nat) d n false p (fst x) (S lf)); try assumption; try lia.
    2: apply kshape_false.
    2: apply op_tok_folb, B2.
    assert (NE : rest <> []) by apply (folb_nonempty _ _ F).
    destruct x as [po ra] eqn:EX. cbn [fst snd] in *.
    rewrite (bloop_step n lf p d l _ _ po ra) by (try assumption; try nonempty; apply Z.ltb_ge in NP1; lia).
    replace (String.eqb "matches" "matches") with true by reflexivity.
    replace (if ra then po else po + 1) with (qprec (po, ra)) by reflexivity.
    rewrite (E_of_K r IHr); try assumption; try lia.
    cbn [pbind]. rewrite (aok_eq a A).
    destruct r; subst re; try reflexivity.
    rewrite (RX s eq_refl). reflexivity.
  Qed.

  Lemma spine_nonop c cx t : is_operator_node t = false -> spine c cx t = O.
  Proof. intros H. destruct t; try discriminate; cbn [spine]; destruct (parens c cx _); reflexivity. Qed.

  Lemma KB_of_CHB t : is_operator_node t = false -> CHB t -> KB t.
  Proof.
    intros NO HC c d n top p f lf rest P0 _ F W L.
    rewrite (spine_nonop _ _ _ NO). cbn [Nat.add].
    pose proof (chain_le t c (COp top p f)) as CL.
    rewrite (budget (fun m => prim_lf n m d (pr c (COp top p f) t ++ rest))
                    (fun lf0 => ploop n lf0 d (sticky c t) t rest) (chain c (COp top p f) t)).
    - rewrite ploop_stop by (apply calm_nopf, (folb_calm f), F). reflexivity.
    - intros lf0. apply HC; try assumption. split; [apply (folb_nonempty _ _ F)|apply (folb_calm f), F].
    - lia.
  Qed.

  (* ---- top level, unparenthesised *)
  Lemma TB_of_KB t : is_cond t = false -> KB t -> TB t.
  Proof.
    intros NC HK c d n rest P0 C W L. destruct n as [|n]; [lia|]. rewrite PE_S.
    pose proof (spine_le t c CTOP) as SL.
    rewrite (budget (fun m => pbind (prim_lf n n d (pr c CTOP t ++ rest)) (fun x ts => bloop n m 0 d x ts))
                    (fun lf0 => bloop n lf0 0 d t rest) (spine c CTOP t)).
    - rewrite bloop_stop0 by (apply closerb_folb, C). cbn [pbind Z.eqb].
      apply cloop_stop, closerb_noq, C.
    - intros lf0. apply HK; try assumption; [apply closerb_folb, C|unfold CTOP in *; lia].
    - unfold CTOP in *; lia.
  Qed.

  Lemma pr_cur_starter t c d cx rest : wfp c d cx t -> starter (cur (pr c cx t ++ rest)) = true.
  Proof. intros W. destruct (pr_starts t c d cx W) as (tk & r & E & S). rewrite E. exact S. Qed.

  Lemma starter_not_colon tk : starter tk = true -> tok_is tk TkOperator [":"%string] = false.
  Proof.
    unfold starter. intros H. apply andb_prop in H. destruct H as [_ H]. apply negb_true_iff in H.
    tok. destruct (is_kind tk TkOperator) eqn:E1; cbn in *.
    - apply orb_false_iff in H. destruct H as [H _]. unfold val_is in H. rewrite H. reflexivity.
    - unfold is_kind, tok_is in E1. rewrite E1. apply andb_false_r.
  Qed.

  Lemma TB_cond a cnd x y : Ks cnd -> Ts x -> Ts y -> TB (ECond a cnd x y).
  Proof.
    intros IHc IHx IHy c d n rest P0 C W L.
    rewrite wfp_unfold, P0 in W. cbn in W. destruct W as (A & Wc & Wx & Wy).
    rewrite pr_unfold, P0 in L |- *. unfold CTOP in L |- *. cbn [wrap inner_ctx Printer.body ctx_pf] in L |- *.
    fold CTOP in L |- *.
    repeat (rewrite app_length in L; cbn [List.length] in L).
    destruct n as [|n]; [lia|]. rewrite PE_S.
    rewrite <- app_assoc. cbn [app].
    pose proof (spine_le cnd (sub c 0%nat) (COp false 0 0)) as SL.
    set (R1 := pr (sub c 1%nat) CTOP x ++ colon :: pr (sub c 2%nat) CTOP y) in *.
    assert (FQ : folb 0 (mkTok noloc TkOperator "?" :: R1 ++ rest) = true).
    { unfold folb, bin_prec_of. tok. destruct (G_punct "?"%string) as [_ E]; [cbn; tauto|]. rewrite E. reflexivity. }
    rewrite (K_budget cnd IHc); try assumption; try lia.
    2: apply kshape_false.
    rewrite bloop_stop0 by exact FQ. cbn [pbind Z.eqb].
    destruct n as [|n]; [lia|].
    subst R1. rewrite <- app_assoc. cbn [app].
    rewrite cloop_step.
    2: apply app_nonempty; discriminate.
    2: apply starter_not_colon, (pr_cur_starter x _ d), Wx.
    rewrite (IHx (sub c 1%nat) d (S n)); try assumption; try lia.
    2: apply closerb_colon.
    cbn [pbind]. unfold expect. tok. rewrite next_cons by (apply app_nonempty, (folb_nonempty 0), closerb_folb, C).
    rewrite (IHy (sub c 2%nat) d (S n)); try assumption; try lia.
    cbn [pbind]. subst a. apply cloop_stop, closerb_noq, C.
  Qed.

  (* ---- primary level, unparenthesised: atoms *)
  Ltac chb_start :=
    let c := fresh "c" in let d := fresh "d" in let n := fresh "n" in let cx := fresh "cx" in
    let lf := fresh "lf" in let rest := fresh "rest" in
    intros c d n cx lf rest P0 _ BF W L;
    rewrite wfp_unfold, P0 in W; cbn [inner_ctx] in W;
    rewrite pr_unfold, P0 in L |- *; cbn [wrap inner_ctx] in L |- *;
    cbn [chain]; rewrite P0.

  Ltac literal_ctx P0 cx :=
    destruct cx as [top p f|pns];
    [| exfalso; destruct (parens_zero _ _ _ P0) as [_ NP]; discriminate NP ].

  Lemma CHB_nil a : CHB (ENil a).
  Proof.
    chb_start. literal_ctx P0 cx. destruct BF as [NE CA]. cbn in W.
    cbn [Printer.body ctx_pf app Nat.add]. unfold prim_lf. rewrite base_nil by assumption.
    cbn [pbind fst snd]. rewrite (aok_eq a W). rewrite ploop_stop by (apply calm_nopf, CA). reflexivity.
  Qed.
  Lemma CHB_bool a b : CHB (EBool a b).
  Proof.
    chb_start. literal_ctx P0 cx. destruct BF as [NE CA]. cbn in W.
    cbn [Printer.body ctx_pf app Nat.add]. unfold prim_lf. rewrite base_bool by assumption.
    cbn [pbind fst snd]. rewrite (aok_eq a W). rewrite ploop_stop by (apply calm_nopf, CA). reflexivity.
  Qed.
  Lemma CHB_str a v : CHB (EStr a v).
  Proof.
    chb_start. literal_ctx P0 cx. destruct BF as [NE CA]. cbn in W.
    cbn [Printer.body ctx_pf app Nat.add]. unfold prim_lf. rewrite base_string by assumption.
    cbn [pbind fst snd]. rewrite (aok_eq a W). rewrite ploop_stop by (apply calm_nopf, CA). reflexivity.
  Qed.
  Lemma CHB_int a z : CHB (EInt a z).
  Proof.
    chb_start. literal_ctx P0 cx. destruct BF as [NE CA]. cbn in W. destruct W as [A NV].
    cbn [Printer.body ctx_pf app Nat.add]. unfold prim_lf. rewrite base_number by assumption. rewrite NV.
    cbn [pbind fst snd]. rewrite (aok_eq a A). rewrite ploop_stop by (apply calm_nopf, CA). reflexivity.
  Qed.
  Lemma CHB_float a x : CHB (EFloat a x).
  Proof.
    chb_start. literal_ctx P0 cx. destruct BF as [NE CA]. cbn in W. destruct W as [A NV].
    cbn [Printer.body ctx_pf app Nat.add]. unfold prim_lf. rewrite base_number by assumption. rewrite NV.
    cbn [pbind fst snd]. rewrite (aok_eq a A). rewrite ploop_stop by (apply calm_nopf, CA). reflexivity.
  Qed.

  Lemma CHB_ident a v ns : CHB (EIdent a v ns).
  Proof.
    chb_start. destruct BF as [NE BF]. unfold Printer.body. destruct (ctx_pf cx) as [p0 f0].
    unfold wfb in W. destruct (ctx_pf cx) as [p1 f1]. destruct W as (A & KW & NS).
    cbn [app Nat.add]. unfold prim_lf.
    assert (NC : tok_is (cur rest) TkBracket ["("%string] = false).
    { destruct cx; [apply calm_nocall, BF|apply BF]. }
    rewrite base_ident by assumption. cbn [pbind fst snd]. rewrite (aok_eq a A).
    cbn [sticky].
    replace (val_is (cur rest) "?.") with ns; [reflexivity|].
    destruct (parens_zero _ _ _ P0) as [_ NP].
    destruct cx as [top p f|[[|]|]]; cbn in NP, BF.
    - rewrite (calm_nons _ BF). destruct ns; [discriminate (NS eq_refl)|reflexivity].
    - destruct BF as [_ BF]. rewrite BF. destruct ns; [reflexivity|discriminate NP].
    - destruct BF as [_ BF]. rewrite BF. destruct ns; [discriminate (NS eq_refl)|reflexivity].
    - destruct BF as [_ BF]. rewrite BF. destruct ns; [discriminate (NS eq_refl)|reflexivity].
  Qed.

  Lemma CHB_pointer a : CHB (EPointer a).
  Proof.
    chb_start. destruct BF as [NE BF]. unfold Printer.body. destruct (ctx_pf cx) as [p0 f0].
    unfold wfb in W. destruct (ctx_pf cx) as [p1 f1]. destruct W as (A & D).
    destruct d as [|d]; [congruence|].
    cbn [app Nat.add]. unfold prim_lf. rewrite base_pointer by assumption.
    cbn [pbind fst snd]. rewrite (aok_eq a A). reflexivity.
  Qed.

  (* ---- primary level: postfix chains *)
  Lemma stk_base_false c e : stk c (CBase (Some false)) e = false.
  Proof.
    unfold stk. destruct (parens c (CBase (Some false)) e) eqn:E; [|reflexivity].
    destruct (parens_zero _ _ _ E) as [_ NP]. unfold Printer.needs_paren in NP.
    destruct (is_literal e || is_operator_node e); [discriminate|]. destruct e; exact NP.
  Qed.

  Lemma sticky_index_base c e : 
    (match c [0%nat] with
     | O => if is_literal e || is_operator_node e then false else sticky (sub c 0%nat) e
     | S _ => false
     end) = stk (sub c 0%nat) (CBase None) e.
  Proof.
    unfold stk, Printer.parens, Printer.needs_paren. change (sub c 0%nat []) with (c [0%nat]).
    destruct (c [0%nat]); [|reflexivity]. cbn [Nat.add].
    destruct (is_literal e || is_operator_node e); [reflexivity|]. destruct e; reflexivity.
  Qed.

  Lemma base_shape c pns e : parens c (CBase pns) e <> O \/ is_operator_node e = false.
  Proof.
    destruct (is_operator_node e) eqn:E; [left|right; reflexivity].
    unfold Printer.parens, Printer.needs_paren. rewrite E, orb_true_r. lia.
  Qed.

  Lemma tok_is_mk l k v k' s : tok_is (mkTok l k v) k' [s] = String.eqb v s && tkind_eqb k' k.
  Proof. cbn. rewrite orb_false_r. reflexivity. Qed.
  Lemma is_kind_mk l k v k' : is_kind (mkTok l k v) k' = tkind_eqb k' k.
  Proof. reflexivity. Qed.
  Lemma val_is_mk l k v s : val_is (mkTok l k v) s = String.eqb v s.
  Proof. reflexivity. Qed.
  (* like tok, but tests on abstract tokens stay folded *)
  Ltac tok' :=
    repeat (progress (unfold lparen, rparen, comma, colon, eof_at;
                      cbn [cur tloc tkind_of tval tkind_eqb fst snd pbind negb andb orb
                           String.eqb Ascii.eqb Bool.eqb dot_tok app];
                      rewrite ?tok_is_mk, ?is_kind_mk, ?val_is_mk, ?andb_false_r, ?orb_false_r, ?andb_true_r));
    fold lparen; fold rparen; fold comma; fold colon.

  Lemma ploop_prop_step n lf d ns x (b : bool) l nm rest :
    rest <> [] -> tok_is (cur rest) TkBracket ["("%string] = false ->
    ploop n (S lf) d ns x (dot_tok b :: mkTok l TkIdentifier nm :: rest) =
    ploop n lf d (ns || b) (EProperty (at_loc l) x nm (ns || b)) rest.
  Proof.
    intros NE H. unfold ploop. cbn [postfix_loop].
    destruct b; tok'; rewrite next_cons by discriminate; tok'; rewrite next_cons by assumption; tok';
      rewrite H; reflexivity.
  Qed.

  Lemma ploop_method_step n lf d ns x (b : bool) l nm rest :
    ploop n (S lf) d ns x (dot_tok b :: mkTok l TkIdentifier nm :: lparen :: rest) =
    pbind (parse_arguments (PE n) n d (lparen :: rest)) (fun args ts3 =>
      ploop n lf d (ns || b) (EMethod (at_loc l) x nm args (ns || b)) ts3).
  Proof.
    unfold ploop. cbn [postfix_loop].
    destruct b; tok'; rewrite next_cons by discriminate; tok'; rewrite next_cons by discriminate; tok'; reflexivity.
  Qed.

  Lemma starter_not tk : starter tk = true ->
    tok_is tk TkBracket [")"%string] = false /\ tok_is tk TkBracket ["]"%string] = false /\
    tok_is tk TkBracket ["}"%string] = false /\ tok_is tk TkOperator [","%string] = false /\
    tok_is tk TkOperator [":"%string] = false.
  Proof.
    unfold starter. intros H. apply andb_prop in H. destruct H as [H1 H2].
    apply negb_true_iff in H1. apply negb_true_iff in H2. unfold is_kind, val_is in *. tok.
    destruct tk as [l k v]. cbn [tkind_of tval] in *. destruct k; cbn in *; rewrite ?andb_false_r; try tauto.
    - apply orb_false_iff in H2. destruct H2 as [H2 H3]. rewrite H2, H3. tauto.
    - apply orb_false_iff in H1. destruct H1 as [H1 H3]. apply orb_false_iff in H1. destruct H1 as [H1 H4].
      rewrite H1, H3, H4. tauto.
  Qed.

  Lemma CHB_property a e nm ns : CHs e -> CHB (EProperty a e nm ns).
  Proof.
    intros IHe. chb_start. destruct BF as [NE BF]. unfold Printer.body in L |- *. destruct (ctx_pf cx) as [p0 f0].
    unfold wfb in W. destruct (ctx_pf cx) as [p1 f1]. destruct W as (A & We).
    rewrite app_length in L. cbn [List.length] in L.
    rewrite <- app_assoc. cbn [app].
    replace (S (chain (sub c 0%nat) (CBase (Some ns)) e) + lf)%nat
      with (chain (sub c 0%nat) (CBase (Some ns)) e + S lf)%nat by lia.
    rewrite IHe; try assumption; try lia.
    2: apply base_shape.
    2: { split; [discriminate|]. split; destruct ns; reflexivity. }
    assert (NC : tok_is (cur rest) TkBracket ["("%string] = false).
    { destruct cx; [apply calm_nocall, BF|apply BF]. }
    rewrite ploop_prop_step by assumption. rewrite (aok_eq a A). cbn [sticky].
    replace (stk (sub c 0%nat) (CBase (Some ns)) e || ns) with ns; [reflexivity|].
    destruct ns; [apply eq_sym, orb_true_r|]. rewrite stk_base_false. reflexivity.
  Qed.

  Lemma CHB_index a e i : CHs e -> Ts i -> CHB (EIndex a e i).
  Proof.
    intros IHe IHi. chb_start. destruct BF as [NE BF]. unfold Printer.body in L |- *. destruct (ctx_pf cx) as [p0 f0].
    unfold wfb in W. destruct (ctx_pf cx) as [p1 f1]. destruct W as (A & We & Wi).
    repeat (rewrite app_length in L; cbn [List.length] in L).
    rewrite <- app_assoc. cbn [app].
    replace (S (chain (sub c 0%nat) (CBase None) e) + lf)%nat
      with (chain (sub c 0%nat) (CBase None) e + S lf)%nat by lia.
    rewrite IHe; try assumption; try lia.
    2: apply base_shape.
    2: { split; [discriminate|]. split; reflexivity. }
    unfold ploop. cbn [postfix_loop]. tok'. rewrite next_cons by nonempty.
    rewrite <- app_assoc. cbn [app].
    destruct (starter_not _ (pr_cur_starter i (sub c 1%nat) d CTOP (mkTok noloc TkBracket "]" :: rest) Wi)) as (_ & _ & _ & _ & SC).
    rewrite SC.
    rewrite (IHi (sub c 1%nat) d n); try assumption; try (unfold CTOP in *; lia).
    2: apply closerb_rbracket.
    cbn [pbind]. tok. unfold expect. tok. rewrite next_cons by assumption.
    rewrite (aok_eq a A). cbn [sticky]. rewrite sticky_index_base. reflexivity.
  Qed.

  Definition opt_Ts (x : option expr) : Prop := match x with Some y => Ts y | None => True end.

  Lemma CHB_slice a e from to : CHs e -> opt_Ts from -> opt_Ts to -> CHB (ESlice a e from to).
  Proof.
    intros IHe IHf IHt. chb_start. destruct BF as [NE BF]. unfold Printer.body in L |- *. destruct (ctx_pf cx) as [p0 f0].
    unfold wfb in W. destruct (ctx_pf cx) as [p1 f1]. destruct W as (A & We & Wf & Wt).
    repeat (rewrite app_length in L; cbn [List.length] in L).
    rewrite <- app_assoc. cbn [app].
    replace (S (chain (sub c 0%nat) (CBase None) e) + lf)%nat
      with (chain (sub c 0%nat) (CBase None) e + S lf)%nat by lia.
    rewrite IHe; try assumption; try lia.
    2: apply base_shape.
    2: { split; [discriminate|]. split; reflexivity. }
    unfold ploop. cbn [postfix_loop]. tok'. rewrite next_cons by nonempty.
    rewrite (aok_eq a A). cbn [sticky]. rewrite sticky_index_base.
    set (RB := mkTok noloc TkBracket "]") in *.
    assert (TO : forall fr,
      (if negb (tok_is (cur ((match to with Some x => pr (sub c 2%nat) CTOP x | None => [] end ++ [RB]) ++ rest)) TkBracket ["]"%string])
       then pbind (PE n 0 d ((match to with Some x => pr (sub c 2%nat) CTOP x | None => [] end ++ [RB]) ++ rest))
              (fun t0 ts3 => expect TkBracket "]" ts3 (fun ts4 =>
                 postfix_loop (PE n) n lf d (stk (sub c 0%nat) (CBase None) e) (ESlice a e fr (Some t0)) ts4))
       else expect TkBracket "]" ((match to with Some x => pr (sub c 2%nat) CTOP x | None => [] end ++ [RB]) ++ rest)
              (fun ts3 => postfix_loop (PE n) n lf d (stk (sub c 0%nat) (CBase None) e) (ESlice a e fr None) ts3))
      = postfix_loop (PE n) n lf d (stk (sub c 0%nat) (CBase None) e) (ESlice a e fr to) rest).
    { intros fr. destruct to as [y|].
      - rewrite <- app_assoc. cbn [app].
        destruct (starter_not _ (pr_cur_starter y (sub c 2%nat) d CTOP (RB :: rest) Wt)) as (_ & SB & _).
        rewrite SB. cbn [negb].
        rewrite (IHt (sub c 2%nat) d n); try assumption; try (unfold CTOP in *; lia).
        2: apply closerb_rbracket.
        cbn [pbind]. unfold expect. subst RB. tok'. rewrite next_cons by assumption. reflexivity.
      - cbn [app]. unfold expect. subst RB. tok'. rewrite next_cons by assumption. reflexivity. }
    destruct from as [x|].
    - repeat (rewrite <- app_assoc; cbn [app]).
      destruct (starter_not _ (pr_cur_starter x (sub c 1%nat) d CTOP
                 (colon :: match to with Some x0 => pr (sub c 2%nat) CTOP x0 | None => [] end ++ RB :: rest) Wf)) as (_ & _ & _ & _ & SC).
      rewrite SC.
      rewrite (IHf (sub c 1%nat) d n); try assumption.
      2: apply closerb_colon.
      2: { destruct to; cbn [List.length] in L; unfold CTOP in *; lia. }
      cbn [pbind]. tok'. rewrite next_cons by nonempty.
      replace (match to with Some x0 => pr (sub c 2%nat) CTOP x0 | None => [] end ++ RB :: rest)
        with ((match to with Some x0 => pr (sub c 2%nat) CTOP x0 | None => [] end ++ [RB]) ++ rest)
        by (rewrite <- app_assoc; reflexivity).
      apply TO.
    - cbn [app]. tok'. rewrite next_cons by nonempty. apply TO.
  Qed.

  (* ---- comma-separated sequences *)
  Fixpoint pr_tail (f : nat -> expr -> list token) (i : nat) (l : list expr) : list token :=
    match l with [] => [] | x :: r => comma :: f i x ++ pr_tail f (S i) r end.

  Lemma pr_seq_cons f i x r : pr_seq f i (x :: r) = f i x ++ pr_tail f (S i) r.
  Proof.
    revert i x. induction r as [|y r IH]; intros i x.
    - cbn. rewrite app_nil_r. reflexivity.
    - change (pr_seq f i (x :: y :: r)) with (f i x ++ comma :: pr_seq f (S i) (y :: r)).
      rewrite IH. reflexivity.
  Qed.

  Lemma pr_tail_len f i l : (List.length l <= List.length (pr_tail f i l))%nat.
  Proof. revert i. induction l as [|x r IH]; intros i; cbn [pr_tail List.length]; [lia|]. rewrite app_length. specialize (IH (S i)). lia. Qed.
  Lemma pr_seq_len f i l : (List.length l <= S (List.length (pr_seq f i l)))%nat.
  Proof.
    destruct l as [|x r]; [cbn; lia|]. rewrite pr_seq_cons, app_length.
    pose proof (pr_tail_len f (S i) r). cbn [List.length]. lia.
  Qed.

  Lemma closerb_tail f i l close rest : closerb (close :: rest) = true -> closerb (pr_tail f i l ++ close :: rest) = true.
  Proof. intros H. destruct l; cbn [pr_tail app]; [exact H|apply closerb_comma]. Qed.

  Definition seq_ok (c : poracle) (d : nat) (n : nat) (i : nat) (l : list expr) : Prop :=
    all_seq (fun j x => wfp (sub c j) d CTOP x) i l.

  Lemma all_seq_cons (P : nat -> expr -> Prop) i x r : all_seq P i (x :: r) = (P i x /\ all_seq P (S i) r).
  Proof. reflexivity. Qed.

  Lemma args_tail n d c : forall l i acc lf rest,
    acc <> [] -> rest <> [] ->
    all_seq (fun j x => wfp (sub c j) d CTOP x) i l ->
    (forall x, In x l -> Ts x) ->
    (List.length (pr_tail (fun j x => pr (sub c j) CTOP x) i l) < n)%nat ->
    args_loop (PE n) (List.length l + lf) d acc (pr_tail (fun j x => pr (sub c j) CTOP x) i l ++ rparen :: rest)
    = POk (acc ++ l) (rparen :: rest).
  Proof.
    induction l as [|x r IH]; intros i acc lf rest NA NE W HT L.
    - cbn [pr_tail app List.length Nat.add]. rewrite app_nil_r. destruct lf; reflexivity.
    - cbn [pr_tail app List.length Nat.add] in L |- *. rewrite app_length in L.
      rewrite all_seq_cons in W. destruct W as [Wx Wr].
      cbn [args_loop]. tok'. destruct acc as [|a0 acc]; [congruence|].
      unfold expect. tok'. rewrite next_cons by nonempty.
      rewrite <- app_assoc.
      rewrite (HT x (or_introl eq_refl) (sub c i) d n); try assumption; try lia.
      2: apply closerb_tail, closerb_rparen.
      cbn [pbind]. rewrite IH; try assumption; try lia.
      + cbn [app]. rewrite <- app_assoc. reflexivity.
      + destruct acc; discriminate.
      + intros y Hy. apply HT. now right.
  Qed.

  Lemma args_all n d c : forall l i lf rest,
    rest <> [] ->
    all_seq (fun j x => wfp (sub c j) d CTOP x) i l ->
    (forall x, In x l -> Ts x) ->
    (List.length (pr_seq (fun j x => pr (sub c j) CTOP x) i l) < n)%nat ->
    args_loop (PE n) (List.length l + lf) d [] (pr_seq (fun j x => pr (sub c j) CTOP x) i l ++ rparen :: rest)
    = POk l (rparen :: rest).
  Proof.
    intros l i lf rest NE W HT L. destruct l as [|x r].
    - cbn. destruct lf; reflexivity.
    - rewrite pr_seq_cons in L |- *. rewrite app_length in L. rewrite all_seq_cons in W. destruct W as [Wx Wr].
      cbn [List.length Nat.add args_loop]. rewrite <- app_assoc.
      destruct (starter_not _ (pr_cur_starter x (sub c i) d CTOP
                 (pr_tail (fun j x0 => pr (sub c j) CTOP x0) (S i) r ++ rparen :: rest) Wx)) as (SR & _).
      rewrite SR.
      rewrite (HT x (or_introl eq_refl) (sub c i) d n); try assumption; try lia.
      2: apply closerb_tail, closerb_rparen.
      cbn [pbind app]. apply (args_tail n d c r (S i) [x] lf rest); try assumption; try lia; try discriminate.
      intros y Hy. apply HT. now right.
  Qed.

  Lemma parse_arguments_ok n d c l i rest :
    rest <> [] ->
    all_seq (fun j x => wfp (sub c j) d CTOP x) i l ->
    (forall x, In x l -> Ts x) ->
    (List.length (pr_seq (fun j x => pr (sub c j) CTOP x) i l) < n)%nat ->
    parse_arguments (PE n) n d (lparen :: pr_seq (fun j x => pr (sub c j) CTOP x) i l ++ rparen :: rest)
    = POk l rest.
  Proof.
    intros NE W HT L. unfold parse_arguments, expect. tok'. rewrite next_cons by nonempty.
    pose proof (pr_seq_len (fun j x => pr (sub c j) CTOP x) i l) as LL.
    replace n with (List.length l + (n - List.length l))%nat at 2 by lia.
    rewrite args_all by assumption. cbn [pbind]. tok'. rewrite next_cons by assumption. reflexivity.
  Qed.

  Definition all_Ts (l : list expr) : Prop := forall x, In x l -> Ts x.

  Lemma CHB_function a nm args fast : all_Ts args -> CHB (EFunction a nm args fast).
  Proof.
    intros IHa. chb_start. destruct BF as [NE BF]. unfold Printer.body in L |- *. destruct (ctx_pf cx) as [p0 f0].
    unfold wfb in W. destruct (ctx_pf cx) as [p1 f1]. destruct W as (A & FA & KW & NB & Wa).
    cbn [List.length] in L. rewrite app_length in L. cbn [List.length] in L.
    cbn [app Nat.add]. rewrite <- app_assoc. cbn [app].
    unfold prim_lf. rewrite base_name by (assumption || discriminate).
    unfold parse_identifier_expression. tok'. cbn [tval]. rewrite NB.
    rewrite parse_arguments_ok; try assumption; try lia.
    cbn [pbind fst snd]. rewrite (aok_eq a A). subst fast. reflexivity.
  Qed.

  Lemma CHB_method a e nm args ns : CHs e -> all_Ts args -> CHB (EMethod a e nm args ns).
  Proof.
    intros IHe IHa. chb_start. destruct BF as [NE BF]. unfold Printer.body in L |- *. destruct (ctx_pf cx) as [p0 f0].
    unfold wfb in W. destruct (ctx_pf cx) as [p1 f1]. destruct W as (A & We & Wa).
    repeat (rewrite app_length in L; cbn [List.length] in L).
    rewrite <- app_assoc. cbn [app]. rewrite <- app_assoc. cbn [app].
    replace (S (chain (sub c 0%nat) (CBase (Some ns)) e) + lf)%nat
      with (chain (sub c 0%nat) (CBase (Some ns)) e + S lf)%nat by lia.
    rewrite IHe; try assumption; try lia.
    2: apply base_shape.
    2: { split; [discriminate|]. split; destruct ns; reflexivity. }
    rewrite ploop_method_step. rewrite parse_arguments_ok; try assumption; try lia.
    cbn [pbind]. rewrite (aok_eq a A). cbn [sticky].
    replace (stk (sub c 0%nat) (CBase (Some ns)) e || ns) with ns; [reflexivity|].
    destruct ns; [apply eq_sym, orb_true_r|]. rewrite stk_base_false. reflexivity.
  Qed.

  (* ---- arrays *)
  Notation RBK := (mkTok noloc TkBracket "]").

  Lemma array_tail n d c : forall l i acc lf rest,
    acc <> [] -> rest <> [] ->
    all_seq (fun j x => wfp (sub c j) d CTOP x) i l ->
    all_Ts l ->
    (List.length (pr_tail (fun j x => pr (sub c j) CTOP x) i l) < n)%nat ->
    array_loop (PE n) (List.length l + lf) d acc (pr_tail (fun j x => pr (sub c j) CTOP x) i l ++ RBK :: rest)
    = POk (acc ++ l) (RBK :: rest).
  Proof.
    induction l as [|x r IH]; intros i acc lf rest NA NE W HT L.
    - cbn [pr_tail app List.length Nat.add]. rewrite app_nil_r. destruct lf; reflexivity.
    - cbn [pr_tail app List.length Nat.add] in L |- *. rewrite app_length in L.
      rewrite all_seq_cons in W. destruct W as [Wx Wr].
      cbn [array_loop]. tok'. destruct acc as [|a0 acc]; [congruence|].
      unfold expect. tok'. rewrite next_cons by nonempty.
      rewrite <- app_assoc.
      destruct (starter_not _ (pr_cur_starter x (sub c i) d CTOP
                 (pr_tail (fun j x0 => pr (sub c j) CTOP x0) (S i) r ++ RBK :: rest) Wx)) as (_ & SB & _).
      rewrite SB.
      rewrite (HT x (or_introl eq_refl) (sub c i) d n); try assumption; try lia.
      2: apply closerb_tail, closerb_rbracket.
      cbn [pbind]. rewrite IH; try assumption; try lia.
      + cbn [app]. rewrite <- app_assoc. reflexivity.
      + destruct acc; discriminate.
      + intros y Hy. apply HT. now right.
  Qed.

  Lemma array_all n d c : forall l i lf rest,
    rest <> [] ->
    all_seq (fun j x => wfp (sub c j) d CTOP x) i l ->
    all_Ts l ->
    (List.length (pr_seq (fun j x => pr (sub c j) CTOP x) i l) < n)%nat ->
    array_loop (PE n) (List.length l + lf) d [] (pr_seq (fun j x => pr (sub c j) CTOP x) i l ++ RBK :: rest)
    = POk l (RBK :: rest).
  Proof.
    intros l i lf rest NE W HT L. destruct l as [|x r].
    - cbn. destruct lf; reflexivity.
    - rewrite pr_seq_cons in L |- *. rewrite app_length in L. rewrite all_seq_cons in W. destruct W as [Wx Wr].
      cbn [List.length Nat.add array_loop]. rewrite <- app_assoc.
      destruct (starter_not _ (pr_cur_starter x (sub c i) d CTOP
                 (pr_tail (fun j x0 => pr (sub c j) CTOP x0) (S i) r ++ RBK :: rest) Wx)) as (_ & SB & _).
      rewrite SB.
      rewrite (HT x (or_introl eq_refl) (sub c i) d n); try assumption; try lia.
      2: apply closerb_tail, closerb_rbracket.
      cbn [pbind app]. apply (array_tail n d c r (S i) [x] lf rest); try assumption; try lia; try discriminate.
      intros y Hy. apply HT. now right.
  Qed.

  Lemma base_array n d l rest :
    parse_base g o (PE n) n d (mkTok l TkBracket "[" :: rest) =
    pbind (parse_array (PE n) n (mkTok l TkBracket "[") d (mkTok l TkBracket "[" :: rest))
          (fun node ts1 => POk (node, true) ts1).
  Proof. unfold parse_base. tok'. destruct d; unfold parse_primary_expression; tok'; reflexivity. Qed.

  Lemma CHB_array a es : all_Ts es -> CHB (EArray a es).
  Proof.
    intros IHa. chb_start. destruct BF as [NE BF]. unfold Printer.body in L |- *. destruct (ctx_pf cx) as [p0 f0].
    unfold wfb in W. destruct (ctx_pf cx) as [p1 f1]. destruct W as (A & Wa).
    cbn [List.length] in L. rewrite app_length in L. cbn [List.length] in L.
    cbn [app Nat.add]. rewrite <- app_assoc. cbn [app].
    unfold prim_lf. rewrite base_array. unfold parse_array, expect. tok'. rewrite next_cons by nonempty.
    pose proof (pr_seq_len (fun j x => pr (sub c j) CTOP x) 0%nat es) as LL.
    replace n with (List.length es + (n - List.length es))%nat at 2 by lia.
    rewrite array_all; try assumption; try lia.
    cbn [pbind]. tok'. rewrite next_cons by assumption. cbn [pbind fst snd]. rewrite (aok_eq a A). reflexivity.
  Qed.

  (* ---- builtins and closures *)
  Lemma CHB_builtin a b args :
    all_Ts args -> (forall ac e, In (EClosure ac e) args -> Ts e) -> CHB (EBuiltin a b args).
  Proof.
    intros IHa IHc. chb_start. destruct BF as [NE BF]. unfold Printer.body in L |- *. destruct (ctx_pf cx) as [p0 f0].
    unfold wfb in W. destruct (ctx_pf cx) as [p1 f1]. destruct W as (A & BR & KW & Wa).
    cbn [List.length] in L. rewrite app_length in L. cbn [List.length] in L.
    cbn [app Nat.add]. rewrite <- app_assoc. cbn [app].
    unfold prim_lf. rewrite base_name by (assumption || discriminate).
    unfold parse_identifier_expression. tok'. cbn [tval].
    destruct (lookup (string_of_builtin b) (g_builtins g)) as [arity|]; [|contradiction].
    unfold expect. tok'. rewrite next_cons by nonempty.
    destruct (arity =? 1).
    { destruct args as [|x [|y r]]; try contradiction.
      cbn [pr_seq] in L |- *.
      rewrite (IHa x (or_introl eq_refl) (sub c 0%nat) d n); try assumption; try (unfold CTOP in *; lia).
      2: apply closerb_rparen.
      cbn [pbind]. tok'. rewrite next_cons by assumption. cbn [pbind fst snd].
      rewrite BR, (aok_eq a A). reflexivity. }
    destruct (arity =? 2).
    { destruct args as [|x [|y r]]; try contradiction.
      destruct y; try contradiction; destruct r as [|z r]; try contradiction. destruct Wa as (Wx & AC & C1 & We).
      change (pr_seq (fun i x0 => pr (sub c i) CTOP x0) 0%nat [x; EClosure a0 y])
        with (pr (sub c 0%nat) CTOP x ++ comma :: pr (sub c 1%nat) CTOP (EClosure a0 y)) in L |- *.
      rewrite (pr_unfold (sub c 1%nat) CTOP (EClosure a0 y)) in L |- *.
      assert (PC : parens (sub c 1%nat) CTOP (EClosure a0 y) = O).
      { unfold Printer.parens. change (sub c 1%nat []) with (c [1%nat]). rewrite C1. reflexivity. }
      rewrite PC in L |- *. unfold CTOP in L |- *. cbn [wrap inner_ctx Printer.body ctx_pf] in L |- *. fold CTOP in L |- *.
      repeat (rewrite app_length in L; cbn [List.length] in L).
      repeat (rewrite <- app_assoc; cbn [app]).
      rewrite (IHa x (or_introl eq_refl) (sub c 0%nat) d n); try assumption; try (unfold CTOP in *; lia).
      2: apply closerb_comma.
      cbn [pbind]. tok'. rewrite next_cons by discriminate.
      unfold parse_closure, expect. tok'. rewrite next_cons by nonempty.
      rewrite (IHc a0 y (or_intror (or_introl eq_refl)) (sub (sub c 1%nat) 0%nat) (S d) n); try assumption; try (unfold CTOP in *; lia).
      2: apply closerb_rbrace.
      cbn [pbind]. tok'. rewrite next_cons by discriminate. cbn [pbind]. tok'.
      rewrite next_cons by assumption. cbn [pbind fst snd].
      rewrite BR, (aok_eq a A), (aok_eq a0 AC). reflexivity. }
    subst args. cbn [pr_seq app]. tok'. rewrite next_cons by assumption. cbn [pbind fst snd].
    rewrite BR, (aok_eq a A). reflexivity.
  Qed.

  (* ---- maps *)
  Notation RBR := (mkTok noloc TkBracket "}").

  Definition pair_ok (c : poracle) (d : nat) (a : ann) (i : nat) (pair : expr) : Prop :=
    match pair with
    | EPair ap k v =>
        ap = at_loc (aloc a) /\ c [i] = O /\
        wfp (sub (sub c i) 0%nat) d CTOP k /\
        wfp (sub (sub c i) 1%nat) d CTOP v
    | _ => False
    end.

  Definition pairs_Ts (ps : list expr) : Prop := forall ap k v, In (EPair ap k v) ps -> Ts k /\ Ts v.

  Lemma pair_tokens c d a i ap k v : pair_ok c d a i (EPair ap k v) ->
    pr (sub c i) CTOP (EPair ap k v) =
    (if key_bare ap k
     then match k with EStr _ s => [mkTok noloc TkString s] | _ => [] end
     else lparen :: pr (sub (sub c i) 0%nat) CTOP k ++ [rparen]) ++ colon :: pr (sub (sub c i) 1%nat) CTOP v.
  Proof.
    intros (_ & C0 & _). rewrite pr_unfold.
    assert (PC : parens (sub c i) CTOP (EPair ap k v) = O).
    { unfold Printer.parens. change (sub c i []) with (c [i]). rewrite C0. reflexivity. }
    rewrite PC. reflexivity.
  Qed.

  Lemma loc_eqb_eq (x y : loc) : loc_eqb x y = true -> x = y.
  Proof.
    destruct x as [a b], y as [a' b']. unfold loc_eqb. cbn. intros H. apply andb_prop in H. destruct H as [H1 H2].
    apply Z.eqb_eq in H1. apply Z.eqb_eq in H2. congruence.
  Qed.

  Lemma paren_key_parse n d cc k X : Ts k -> wfp cc d CTOP k -> closerb X = true ->
    (List.length (pr cc CTOP k) + 1 < n)%nat ->
    PE n 0 d (lparen :: pr cc CTOP k ++ rparen :: X) = POk k X.
  Proof.
    intros Tk W C L.
    replace (lparen :: pr cc CTOP k ++ rparen :: X) with (wrap 1 (pr cc CTOP k) ++ X)
      by (cbn [wrap app]; rewrite <- app_assoc; reflexivity).
    apply wrap_top; [|assumption|lia]. intros n0 rest0 C0 L0. apply Tk; assumption.
  Qed.

  (* the body of one iteration of the map loop, from the key on *)
  Definition pair_body (n d : nat) (mloc : loc) (lf' : nat) (acc : list expr) (ts1 : list token) : pres (list expr) :=
    let ktk := cur ts1 in
    let after_key := fun key ts2 =>
      expect TkOperator ":" ts2 (fun ts3 =>
      pbind (PE n 0 d ts3) (fun node ts4 => map_loop (PE n) lf' mloc d (acc ++ [EPair (at_loc mloc) key node]) ts4)) in
    if is_kind ktk TkNumber || is_kind ktk TkString || is_kind ktk TkIdentifier then
      next ts1 (fun ts2 => after_key (EStr (at_loc mloc) (tval ktk)) ts2)
    else if tok_is ktk TkBracket ["("%string] then pbind (PE n 0 d ts1) after_key
    else PErr (tloc ktk).

  Lemma map_loop_S n d mloc lf' acc ts :
    map_loop (PE n) (S lf') mloc d acc ts =
    if tok_is (cur ts) TkBracket ["}"%string] then POk acc ts
    else match acc with
         | [] => pair_body n d mloc lf' acc ts
         | _ :: _ => expect TkOperator "," ts (fun ts1 =>
                     if tok_is (cur ts1) TkBracket ["}"%string] then POk acc ts1
                     else if tok_is (cur ts1) TkOperator [","%string] then PErr (tloc (cur ts1))
                     else pair_body n d mloc lf' acc ts1)
         end.
  Proof. reflexivity. Qed.

  Lemma map_pair n d c a i ap k v lf' acc R :
    pair_ok c d a i (EPair ap k v) -> Ts k -> Ts v -> closerb R = true ->
    (List.length (pr (sub c i) CTOP (EPair ap k v)) < n)%nat ->
    pair_body n d (aloc a) lf' acc (pr (sub c i) CTOP (EPair ap k v) ++ R)
    = map_loop (PE n) lf' (aloc a) d (acc ++ [EPair ap k v]) R.
  Proof.
    intros WP Tk Tv CR L. pose proof WP as (AP & C0 & Wk & Wv).
    rewrite (pair_tokens c d a i ap k v WP) in L |- *.
    assert (NR : R <> []) by (apply (folb_nonempty 0), closerb_folb, CR).
    assert (VAL : forall key,
              expect TkOperator ":" (colon :: pr (sub (sub c i) 1%nat) CTOP v ++ R) (fun ts3 =>
                pbind (PE n 0 d ts3) (fun node ts4 =>
                  map_loop (PE n) lf' (aloc a) d (acc ++ [EPair (at_loc (aloc a)) key node]) ts4))
              = map_loop (PE n) lf' (aloc a) d (acc ++ [EPair (at_loc (aloc a)) key v]) R).
    { intros key. unfold expect. tok'. rewrite next_cons by nonempty.
      rewrite (Tv (sub (sub c i) 1%nat) d n); try assumption; [reflexivity|].
      rewrite app_length in L. cbn [List.length] in L. lia. }
    destruct (key_bare ap k) eqn:KB.
    - (* bare string key *)
      destruct k; try discriminate KB. cbn [key_bare] in KB. apply loc_eqb_eq in KB.
      rewrite wfp_unfold in Wk. unfold wfb in Wk. destruct (ctx_pf _) in Wk.
      cbn [app]. unfold pair_body. tok'. rewrite next_cons by nonempty. rewrite VAL, AP.
      rewrite AP in KB. cbn [aloc at_loc] in KB. rewrite <- KB, (aok_eq a0 Wk). reflexivity.
    - (* key in parentheses *)
      cbn [app List.length] in L. repeat (rewrite app_length in L; cbn [List.length] in L).
      repeat (rewrite <- app_assoc; cbn [app]). unfold pair_body. tok'.
      rewrite (paren_key_parse n d _ k); try assumption; try lia.
      2: apply closerb_colon.
      cbn [pbind]. rewrite VAL, AP. reflexivity.
  Qed.

  Lemma map_loop_ok n d c a : forall ps i acc lf rest,
    rest <> [] ->
    all_seq (pair_ok c d a) i ps ->
    pairs_Ts ps ->
    (List.length (match acc with [] => pr_seq (fun j x => pr (sub c j) CTOP x) i ps
                           | _ :: _ => pr_tail (fun j x => pr (sub c j) CTOP x) i ps end) < n)%nat ->
    map_loop (PE n) (List.length ps + lf) (aloc a) d acc
      (match acc with [] => pr_seq (fun j x => pr (sub c j) CTOP x) i ps
                 | _ :: _ => pr_tail (fun j x => pr (sub c j) CTOP x) i ps end ++ RBR :: rest)
    = POk (acc ++ ps) (RBR :: rest).
  Proof.
    induction ps as [|P r IH]; intros i acc lf rest NE W HT L.
    - rewrite app_nil_r. destruct acc; cbn [pr_seq pr_tail app List.length Nat.add]; destruct lf; reflexivity.
    - rewrite all_seq_cons in W. destruct W as [WP Wr].
      destruct P as [ | | | | | | | | | | | | | | | | | | | | |ap k v]; try contradiction.
      destruct (HT ap k v (or_introl eq_refl)) as [Tk Tv].
      set (TAIL := pr_tail (fun j x => pr (sub c j) CTOP x) (S i) r ++ RBR :: rest).
      assert (CT : closerb TAIL = true) by (apply closerb_tail, closerb_rbrace).
      assert (HT' : pairs_Ts r) by (intros ap' k' v' H'; apply (HT ap' k' v'); now right).
      cbn [List.length Nat.add]. rewrite map_loop_S. destruct acc as [|a0 acc].
      + rewrite pr_seq_cons in L |- *. rewrite app_length in L. rewrite <- app_assoc. fold TAIL.
        assert (SB : tok_is (cur (pr (sub c i) CTOP (EPair ap k v) ++ TAIL)) TkBracket ["}"%string] = false).
        { rewrite (pair_tokens c d a i ap k v WP). destruct (key_bare ap k); [destruct k|]; cbn [app cur]; tok'; reflexivity. }
        rewrite SB. rewrite (map_pair n d c a i ap k v); try assumption; try lia.
        cbn [app]. apply (IH (S i) [EPair ap k v] lf rest); try assumption. lia.
      + cbn [pr_tail app] in L |- *. cbn [List.length] in L. rewrite app_length in L.
        unfold expect. tok'. rewrite next_cons by nonempty.
        rewrite <- app_assoc. fold TAIL.
        assert (SB : tok_is (cur (pr (sub c i) CTOP (EPair ap k v) ++ TAIL)) TkBracket ["}"%string] = false /\
                     tok_is (cur (pr (sub c i) CTOP (EPair ap k v) ++ TAIL)) TkOperator [","%string] = false).
        { rewrite (pair_tokens c d a i ap k v WP). destruct (key_bare ap k); [destruct k|]; split; cbn [app cur]; tok'; reflexivity. }
        destruct SB as [SB1 SB2]. rewrite SB1, SB2.
        rewrite (map_pair n d c a i ap k v); try assumption; try lia.
        replace (a0 :: acc ++ EPair ap k v :: r) with (((a0 :: acc) ++ [EPair ap k v]) ++ r)
          by (rewrite <- app_assoc; reflexivity).
        apply (IH (S i) ((a0 :: acc) ++ [EPair ap k v]) lf rest); try assumption.
        cbn [app]. lia.
  Qed.

  Lemma base_map n d l rest :
    parse_base g o (PE n) n d (mkTok l TkBracket "{" :: rest) =
    pbind (parse_map (PE n) n (mkTok l TkBracket "{") d (mkTok l TkBracket "{" :: rest))
          (fun node ts1 => POk (node, true) ts1).
  Proof. unfold parse_base. tok'. destruct d; unfold parse_primary_expression; tok'; reflexivity. Qed.

  Lemma CHB_map a ps : pairs_Ts ps -> CHB (EMap a ps).
  Proof.
    intros IHp. chb_start. destruct BF as [NE BF]. unfold Printer.body in L |- *. destruct (ctx_pf cx) as [p0 f0].
    unfold wfb in W. destruct (ctx_pf cx) as [p1 f1]. destruct W as (A & Wp).
    cbn [List.length] in L. rewrite app_length in L. cbn [List.length] in L.
    cbn [app Nat.add]. rewrite <- app_assoc. cbn [app].
    unfold prim_lf. rewrite base_map. unfold parse_map, expect. tok'. rewrite next_cons by nonempty.
    pose proof (pr_seq_len (fun j x => pr (sub c j) CTOP x) 0%nat ps) as LL.
    replace n with (List.length ps + (n - List.length ps))%nat at 2 by lia.
    rewrite (map_loop_ok n d c a ps 0%nat [] (n - List.length ps)%nat rest); try assumption; try lia.
    cbn [pbind]. tok'. rewrite next_cons by assumption. cbn [pbind fst snd]. rewrite (aok_eq a A). reflexivity.
  Qed.

  (* ---- the induction *)
  Lemma in_lsize x l : In x l -> (esize x <= lsize l)%nat.
  Proof. induction l as [|y r IH]; cbn [In lsize]; [tauto|]. intros [->|H]; [lia|]. specialize (IH H). lia. Qed.

  Lemma esize_pos t : (1 <= esize t)%nat.
  Proof. destruct t; cbn; lia. Qed.

  Lemma Stmt_step t : (forall t', (esize t' < esize t)%nat -> Stmt t') -> Stmt t.
  Proof.
    intros IH.
    assert (IHT : forall t', (esize t' < esize t)%nat -> Ts t') by (intros t' H; apply IH, H).
    assert (IHK : forall t', (esize t' < esize t)%nat -> Ks t') by (intros t' H; apply IH, H).
    assert (IHC : forall t', (esize t' < esize t)%nat -> CHs t') by (intros t' H; apply IH, H).
    assert (WF0 : forall (P : Prop) c d cx, (wfb g fmt_int fmt_float o wfp c d cx t -> False) ->
              parens c cx t = O -> wfp c d cx t -> P).
    { intros P c d cx HF P0 W. rewrite wfp_unfold, P0 in W. cbn [inner_ctx] in W. exfalso. exact (HF W). }
    destruct t.
    - (* ENil *) pose proof (CHB_nil a) as C. apply stmt_of_body; [exact C| apply KB_of_CHB; [reflexivity|exact C] | apply TB_of_KB; [reflexivity|apply KB_of_CHB; [reflexivity|exact C]]].
    - pose proof (CHB_ident a name nilsafe) as C. apply stmt_of_body; [exact C| apply KB_of_CHB; [reflexivity|exact C] | apply TB_of_KB; [reflexivity|apply KB_of_CHB; [reflexivity|exact C]]].
    - pose proof (CHB_int a z) as C. apply stmt_of_body; [exact C| apply KB_of_CHB; [reflexivity|exact C] | apply TB_of_KB; [reflexivity|apply KB_of_CHB; [reflexivity|exact C]]].
    - pose proof (CHB_float a f) as C. apply stmt_of_body; [exact C| apply KB_of_CHB; [reflexivity|exact C] | apply TB_of_KB; [reflexivity|apply KB_of_CHB; [reflexivity|exact C]]].
    - pose proof (CHB_bool a b) as C. apply stmt_of_body; [exact C| apply KB_of_CHB; [reflexivity|exact C] | apply TB_of_KB; [reflexivity|apply KB_of_CHB; [reflexivity|exact C]]].
    - pose proof (CHB_str a s) as C. apply stmt_of_body; [exact C| apply KB_of_CHB; [reflexivity|exact C] | apply TB_of_KB; [reflexivity|apply KB_of_CHB; [reflexivity|exact C]]].
    - (* EConst: not printable *)
      assert (C : CHB (EConst a v)).
      { intros c d n cx lf rest P0 _ _ W. eapply WF0; eauto. unfold wfb. destruct (ctx_pf cx). tauto. }
      apply stmt_of_body; [exact C| apply KB_of_CHB; [reflexivity|exact C] | apply TB_of_KB; [reflexivity|apply KB_of_CHB; [reflexivity|exact C]]].
    - (* EUnary *)
      assert (K : KB (EUnary a op t)) by (apply KB_unary, IHK; cbn; lia).
      apply stmt_of_body; [intros c d n cx lf rest _ H; discriminate H | exact K | apply TB_of_KB; [reflexivity|exact K]].
    - (* EBinary *)
      assert (K : KB (EBinary a op t1 t2)) by (apply KB_binary; apply IHK; cbn; lia).
      apply stmt_of_body; [intros c d n cx lf rest _ H; discriminate H | exact K | apply TB_of_KB; [reflexivity|exact K]].
    - (* EMatches *)
      assert (K : KB (EMatches a re t1 t2)) by (apply KB_matches; apply IHK; cbn; lia).
      apply stmt_of_body; [intros c d n cx lf rest _ H; discriminate H | exact K | apply TB_of_KB; [reflexivity|exact K]].
    - (* EProperty *)
      assert (C : CHB (EProperty a t name nilsafe)) by (apply CHB_property, IHC; cbn; lia).
      apply stmt_of_body; [exact C| apply KB_of_CHB; [reflexivity|exact C] | apply TB_of_KB; [reflexivity|apply KB_of_CHB; [reflexivity|exact C]]].
    - (* EIndex *)
      assert (C : CHB (EIndex a t1 t2)) by (apply CHB_index; [apply IHC|apply IHT]; cbn; lia).
      apply stmt_of_body; [exact C| apply KB_of_CHB; [reflexivity|exact C] | apply TB_of_KB; [reflexivity|apply KB_of_CHB; [reflexivity|exact C]]].
    - (* ESlice *)
      assert (C : CHB (ESlice a t from to)).
      { apply CHB_slice; [apply IHC; cbn; lia| |].
        - destruct from; [|exact I]. apply IHT. cbn. lia.
        - destruct to; [|exact I]. apply IHT. cbn. destruct from; lia. }
      apply stmt_of_body; [exact C| apply KB_of_CHB; [reflexivity|exact C] | apply TB_of_KB; [reflexivity|apply KB_of_CHB; [reflexivity|exact C]]].
    - (* EMethod *)
      assert (C : CHB (EMethod a t name args nilsafe)).
      { apply CHB_method; [apply IHC; cbn; lia|]. intros x Hx. apply IHT. pose proof (in_lsize x args Hx). cbn.
        change ((fix lsize (l : list expr) : nat := match l with [] => O | x :: r => (esize x + lsize r)%nat end) args) with (lsize args). lia. }
      apply stmt_of_body; [exact C| apply KB_of_CHB; [reflexivity|exact C] | apply TB_of_KB; [reflexivity|apply KB_of_CHB; [reflexivity|exact C]]].
    - (* EFunction *)
      assert (C : CHB (EFunction a name args fast)).
      { apply CHB_function. intros x Hx. apply IHT. pose proof (in_lsize x args Hx). cbn.
        change ((fix lsize (l : list expr) : nat := match l with [] => O | x :: r => (esize x + lsize r)%nat end) args) with (lsize args). lia. }
      apply stmt_of_body; [exact C| apply KB_of_CHB; [reflexivity|exact C] | apply TB_of_KB; [reflexivity|apply KB_of_CHB; [reflexivity|exact C]]].
    - (* EBuiltin *)
      assert (C : CHB (EBuiltin a b args)).
      { apply CHB_builtin.
        - intros x Hx. apply IHT. pose proof (in_lsize x args Hx). cbn.
          change ((fix lsize (l : list expr) : nat := match l with [] => O | x :: r => (esize x + lsize r)%nat end) args) with (lsize args). lia.
        - intros ac e He. apply IHT. pose proof (in_lsize _ args He). cbn in H |- *.
          change ((fix lsize (l : list expr) : nat := match l with [] => O | x :: r => (esize x + lsize r)%nat end) args) with (lsize args). lia. }
      apply stmt_of_body; [exact C| apply KB_of_CHB; [reflexivity|exact C] | apply TB_of_KB; [reflexivity|apply KB_of_CHB; [reflexivity|exact C]]].
    - (* EClosure: only inside a builtin *)
      assert (C : CHB (EClosure a t)).
      { intros c d n cx lf rest P0 _ _ W. eapply WF0; eauto. unfold wfb. destruct (ctx_pf cx). tauto. }
      apply stmt_of_body; [exact C| apply KB_of_CHB; [reflexivity|exact C] | apply TB_of_KB; [reflexivity|apply KB_of_CHB; [reflexivity|exact C]]].
    - (* EPointer *)
      pose proof (CHB_pointer a) as C. apply stmt_of_body; [exact C| apply KB_of_CHB; [reflexivity|exact C] | apply TB_of_KB; [reflexivity|apply KB_of_CHB; [reflexivity|exact C]]].
    - (* ECond *)
      assert (T : TB (ECond a t1 t2 t3)) by (apply TB_cond; [apply IHK|apply IHT|apply IHT]; cbn; lia).
      apply stmt_of_body; [intros c d n cx lf rest _ H; discriminate H | | exact T].
      intros c d n top p f lf rest _ H; discriminate H.
    - (* EArray *)
      assert (C : CHB (EArray a es)).
      { apply CHB_array. intros x Hx. apply IHT. pose proof (in_lsize x es Hx). cbn.
        change ((fix lsize (l : list expr) : nat := match l with [] => O | x :: r => (esize x + lsize r)%nat end) es) with (lsize es). lia. }
      apply stmt_of_body; [exact C| apply KB_of_CHB; [reflexivity|exact C] | apply TB_of_KB; [reflexivity|apply KB_of_CHB; [reflexivity|exact C]]].
    - (* EMap *)
      assert (C : CHB (EMap a pairs)).
      { apply CHB_map. intros ap k v Hp. pose proof (in_lsize _ pairs Hp). cbn in H.
        split; apply IHT; cbn;
          change ((fix lsize (l : list expr) : nat := match l with [] => O | x :: r => (esize x + lsize r)%nat end) pairs) with (lsize pairs); lia. }
      apply stmt_of_body; [exact C| apply KB_of_CHB; [reflexivity|exact C] | apply TB_of_KB; [reflexivity|apply KB_of_CHB; [reflexivity|exact C]]].
    - (* EPair: only inside a map *)
      assert (C : CHB (EPair a t1 t2)).
      { intros c d n cx lf rest P0 _ _ W. eapply WF0; eauto. unfold wfb. destruct (ctx_pf cx). tauto. }
      apply stmt_of_body; [exact C| apply KB_of_CHB; [reflexivity|exact C] | apply TB_of_KB; [reflexivity|apply KB_of_CHB; [reflexivity|exact C]]].
  Qed.

  Theorem Stmt_all : forall t, Stmt t.
  Proof.
    assert (H : forall m t, (esize t <= m)%nat -> Stmt t).
    { induction m as [|m IH]; intros t L.
      - pose proof (esize_pos t). lia.
      - apply Stmt_step. intros t' L'. apply IH. lia. }
    intros t. apply (H (esize t)). lia.
  Qed.

  (* ---- additional parentheses are harmless wherever `harmless` allows them *)
  Definition same_kind (cx cx' : ctx) : Prop :=
    match cx, cx' with COp _ _ _, COp _ _ _ => True | CBase a, CBase b => a = b | _, _ => False end.

  Lemma harmless_sub c t i x : harmless c t -> pchild t i = Some x -> harmless (sub c i) x.
  Proof. intros H E path y N S. apply (H (i :: path) y); [cbn [node_at]; rewrite E; exact N|exact S]. Qed.

  Lemma all_seq_impl (P Q : nat -> expr -> Prop) : forall l i,
    (forall j x, nth_error l j = Some x -> P (i + j)%nat x -> Q (i + j)%nat x) -> all_seq P i l -> all_seq Q i l.
  Proof.
    induction l as [|y r IH]; intros i H A; [exact I|].
    rewrite all_seq_cons in *. destruct A as [A1 A2]. split.
    - specialize (H O y eq_refl). rewrite Nat.add_0_r in H. auto.
    - apply IH; [|exact A2]. intros j x E. specialize (H (S j) x E). rewrite Nat.add_succ_r in H. exact H.
  Qed.

  Lemma nth_lsize l j x : nth_error l j = Some x -> (esize x <= lsize l)%nat.
  Proof. intros H. apply in_lsize. eapply nth_error_In; eauto. Qed.

  Definition Transfer (t : expr) : Prop := forall c c' d cx cx',
    same_kind cx cx' -> wfp c d cx t -> harmless c' t -> wfp c' d cx' t.

  Ltac fold_lsize :=
    repeat match goal with
    | |- context [(fix lsize (l : list expr) {struct l} : nat := match l with [] => O | x :: r => (esize x + lsize r)%nat end) ?a] =>
        change ((fix lsize (l : list expr) {struct l} : nat := match l with [] => O | x :: r => (esize x + lsize r)%nat end) a) with (lsize a)
    end.

  Lemma pchild_size t i x : pchild t i = Some x -> (esize x < esize t)%nat.
  Proof.
    destruct t; cbn [pchild]; try discriminate.
    - destruct i; [|discriminate]. intros E; inversion E; subst. cbn. lia.
    - destruct i as [|[|i]]; try discriminate; intros E; inversion E; subst; cbn; lia.
    - destruct i as [|[|i]]; try discriminate; intros E; inversion E; subst; cbn; lia.
    - destruct i; [|discriminate]. intros E; inversion E; subst. cbn. lia.
    - destruct i as [|[|i]]; try discriminate; intros E; inversion E; subst; cbn; lia.
    - destruct i as [|[|[|i]]]; try discriminate; intros E.
      + inversion E; subst. cbn. lia.
      + subst from. cbn. lia.
      + subst to. cbn. destruct from; lia.
    - destruct i as [|j]; intros E.
      + inversion E; subst. cbn. lia.
      + pose proof (nth_lsize _ _ _ E). cbn. fold_lsize. lia.
    - intros E. pose proof (nth_lsize _ _ _ E). cbn. fold_lsize. lia.
    - intros E. pose proof (nth_lsize _ _ _ E). cbn. fold_lsize. lia.
    - destruct i; [|discriminate]. intros E; inversion E; subst. cbn. lia.
    - destruct i as [|[|[|i]]]; try discriminate; intros E; inversion E; subst; cbn; lia.
    - intros E. pose proof (nth_lsize _ _ _ E). cbn. fold_lsize. lia.
    - intros E. pose proof (nth_lsize _ _ _ E). cbn. fold_lsize. lia.
    - destruct i as [|[|i]]; try discriminate; intros E; inversion E; subst; cbn; lia.
  Qed.

  Lemma transfer_step t : (forall t', (esize t' < esize t)%nat -> Transfer t') -> Transfer t.
  Proof.
    intros IH c c' d cx cx' SK W H. unfold Transfer in IH.
    assert (REC : forall i x cc cc' dd k k', pchild t i = Some x -> same_kind k k' ->
              (forall path y, node_at x path = Some y -> no_parens_allowed y = true -> cc' path = O) ->
              wfp cc dd k x -> wfp cc' dd k' x).
    { intros i x cc cc' dd k k' E SK' HH WW. eapply (IH x); eauto. exact (pchild_size t i x E). }
    assert (HS : forall i x, pchild t i = Some x ->
              forall path y, node_at x path = Some y -> no_parens_allowed y = true -> sub c' i path = O).
    { intros i x E. exact (harmless_sub c' t i x H E). }
    rewrite wfp_unfold in W |- *.
    destruct t.
    - unfold wfb in *. destruct (ctx_pf _); destruct (ctx_pf _); exact W.
    - (* EIdent *)
      unfold wfb in *. destruct (ctx_pf _); destruct (ctx_pf _). destruct W as (A & K & NS).
      split; [exact A|]. split; [exact K|]. intros E. specialize (NS E). subst nilsafe.
      destruct (Printer.parens g c cx (EIdent a name true)) eqn:P0; cbn [inner_ctx] in NS; [|discriminate NS].
      subst cx. destruct cx' as [|pns]; cbn in SK; [contradiction|]. subst pns.
      assert (C0 : c' [] = O) by (apply (H [] (EIdent a name true)); reflexivity).
      unfold Printer.parens. rewrite C0. reflexivity.
    - unfold wfb in *. destruct (ctx_pf _); destruct (ctx_pf _); exact W.
    - unfold wfb in *. destruct (ctx_pf _); destruct (ctx_pf _); exact W.
    - unfold wfb in *. destruct (ctx_pf _); destruct (ctx_pf _); exact W.
    - unfold wfb in *. destruct (ctx_pf _); destruct (ctx_pf _); exact W.
    - unfold wfb in *. destruct (ctx_pf _); destruct (ctx_pf _); exact W.
    - (* EUnary *)
      unfold wfb in *. destruct (ctx_pf _); destruct (ctx_pf _). destruct W as (A & U & We).
      refine (conj A (conj U _)).
      (eapply (REC 0%nat); [reflexivity| |apply (HS 0%nat); reflexivity|eassumption]; (exact I || reflexivity)).
    - (* EBinary *)
      unfold wfb in *. destruct (ctx_pf _); destruct (ctx_pf _). destruct W as (A & U & Wl & Wr).
      refine (conj A (conj U (conj _ _))).
      + (eapply (REC 0%nat); [reflexivity| |apply (HS 0%nat); reflexivity|eassumption]; (exact I || reflexivity)).
      + (eapply (REC 1%nat); [reflexivity| |apply (HS 1%nat); reflexivity|eassumption]; (exact I || reflexivity)).
    - (* EMatches *)
      unfold wfb in *. destruct (ctx_pf _); destruct (ctx_pf _). destruct W as (A & U & R1 & R2 & Wl & Wr).
      refine (conj A (conj U (conj R1 (conj R2 (conj _ _))))).
      + (eapply (REC 0%nat); [reflexivity| |apply (HS 0%nat); reflexivity|eassumption]; (exact I || reflexivity)).
      + (eapply (REC 1%nat); [reflexivity| |apply (HS 1%nat); reflexivity|eassumption]; (exact I || reflexivity)).
    - (* EProperty *)
      unfold wfb in *. destruct (ctx_pf _); destruct (ctx_pf _). destruct W as (A & We).
      split; [exact A|]. (eapply (REC 0%nat); [reflexivity| |apply (HS 0%nat); reflexivity|eassumption]; (exact I || reflexivity)).
    - (* EIndex *)
      unfold wfb in *. destruct (ctx_pf _); destruct (ctx_pf _). destruct W as (A & We & Wi).
      refine (conj A (conj _ _)).
      + (eapply (REC 0%nat); [reflexivity| |apply (HS 0%nat); reflexivity|eassumption]; (exact I || reflexivity)).
      + (eapply (REC 1%nat); [reflexivity| |apply (HS 1%nat); reflexivity|eassumption]; (exact I || reflexivity)).
    - (* ESlice *)
      unfold wfb in *. destruct (ctx_pf _); destruct (ctx_pf _). destruct W as (A & We & Wf & Wt).
      refine (conj A (conj _ (conj _ _))).
      + (eapply (REC 0%nat); [reflexivity| |apply (HS 0%nat); reflexivity|eassumption]; (exact I || reflexivity)).
      + destruct from; [|exact I]. (eapply (REC 1%nat); [reflexivity| |apply (HS 1%nat); reflexivity|eassumption]; (exact I || reflexivity)).
      + destruct to; [|exact I]. (eapply (REC 2%nat); [reflexivity| |apply (HS 2%nat); reflexivity|eassumption]; (exact I || reflexivity)).
    - (* EMethod *)
      unfold wfb in *. destruct (ctx_pf _); destruct (ctx_pf _). destruct W as (A & We & Wa).
      refine (conj A (conj _ _)).
      + (eapply (REC 0%nat); [reflexivity| |apply (HS 0%nat); reflexivity|eassumption]; (exact I || reflexivity)).
      + eapply all_seq_impl; [|exact Wa]. intros j x E Wx. cbn [Nat.add] in *.
        (eapply (REC (S j)); [exact E| |apply (HS (S j)); exact E|exact Wx]; exact I).
    - (* EFunction *)
      unfold wfb in *. destruct (ctx_pf _); destruct (ctx_pf _). destruct W as (A & F & K & B & Wa).
      refine (conj A (conj F (conj K (conj B _)))).
      eapply all_seq_impl; [|exact Wa]. intros j x E Wx. cbn [Nat.add] in *.
      (eapply (REC j); [exact E| |apply (HS j); exact E|exact Wx]; exact I).
    - (* EBuiltin *)
      unfold wfb in *. destruct (ctx_pf _); destruct (ctx_pf _). destruct W as (A & B & K & Wa).
      refine (conj A (conj B (conj K _))).
      destruct (lookup (string_of_builtin b) (g_builtins g)) as [arity|]; [|exact Wa].
      destruct (arity =? 1).
      { destruct args as [|x [|y r]]; try exact Wa.
        (eapply (REC 0%nat); [reflexivity| |apply (HS 0%nat); reflexivity|eassumption]; (exact I || reflexivity)). }
      destruct (arity =? 2); [|exact Wa].
      destruct args as [|x [|y r]]; try exact Wa.
      destruct y; try exact Wa. destruct r; try exact Wa.
      destruct Wa as (Wx & AC & C1 & We). refine (conj _ (conj AC (conj _ _))).
      + (eapply (REC 0%nat); [reflexivity| |apply (HS 0%nat); reflexivity|eassumption]; (exact I || reflexivity)).
      + apply (H [1%nat] (EClosure a0 y)); reflexivity.
      + eapply (IH y); [cbn; lia| |exact We|intros path zz N S; apply (H (1%nat :: 0%nat :: path) zz); [exact N|exact S]]; exact I.
    - (* EClosure *) unfold wfb in *. destruct (ctx_pf _); destruct (ctx_pf _); exact W.
    - (* EPointer *) unfold wfb in *. destruct (ctx_pf _); destruct (ctx_pf _); exact W.
    - (* ECond *)
      unfold wfb in *. destruct (ctx_pf _); destruct (ctx_pf _). destruct W as (A & Wc & Wx & Wy).
      refine (conj A (conj _ (conj _ _))).
      + (eapply (REC 0%nat); [reflexivity| |apply (HS 0%nat); reflexivity|eassumption]; (exact I || reflexivity)).
      + (eapply (REC 1%nat); [reflexivity| |apply (HS 1%nat); reflexivity|eassumption]; (exact I || reflexivity)).
      + (eapply (REC 2%nat); [reflexivity| |apply (HS 2%nat); reflexivity|eassumption]; (exact I || reflexivity)).
    - (* EArray *)
      unfold wfb in *. destruct (ctx_pf _); destruct (ctx_pf _). destruct W as (A & Wa).
      split; [exact A|].
      eapply all_seq_impl; [|exact Wa]. intros j x E Wx. cbn [Nat.add] in *.
      (eapply (REC j); [exact E| |apply (HS j); exact E|exact Wx]; exact I).
    - (* EMap *)
      unfold wfb in *. destruct (ctx_pf _); destruct (ctx_pf _). destruct W as (A & Wp).
      split; [exact A|].
      eapply all_seq_impl; [|exact Wp]. intros j x E Wx. cbn [Nat.add] in *.
      destruct x; try exact Wx. destruct Wx as (AP & C0 & Wk & Wv).
      pose proof (nth_lsize _ _ _ E) as SZ. cbn in SZ.
      refine (conj AP (conj _ (conj _ _))).
      + apply (H [j] (EPair a0 x1 x2)); [cbn [node_at pchild]; rewrite E; reflexivity|reflexivity].
      + eapply (IH x1); [cbn; fold_lsize; lia| |exact Wk|
          intros path zz N S; apply (H (j :: 0%nat :: path) zz); [cbn [node_at pchild]; rewrite E; exact N|exact S]]; exact I.
      + eapply (IH x2); [cbn; fold_lsize; lia| |exact Wv|
          intros path zz N S; apply (H (j :: 1%nat :: path) zz); [cbn [node_at pchild]; rewrite E; exact N|exact S]]; exact I.
    - (* EPair *) unfold wfb in *. destruct (ctx_pf _); destruct (ctx_pf _); exact W.
  Qed.

  Lemma transfer_all : forall t, Transfer t.
  Proof.
    assert (H : forall m t, (esize t <= m)%nat -> Transfer t).
    { induction m as [|m IH]; intros t L.
      - pose proof (esize_pos t). lia.
      - apply transfer_step. intros t' L'. apply IH. lia. }
    intros t. apply (H (esize t)). lia.
  Qed.

  (* the carve-out, made explicit: a tree that is printable with the required parentheses only is
     printable with ANY additional parentheses except around closures, map pairs and nil-safe
     identifiers *)
  Theorem printable_any_parens (c : poracle) (t : expr) :
    printable g fmt_int fmt_float o no_extra t -> harmless c t -> printable g fmt_int fmt_float o c t.
  Proof. intros W H. exact (transfer_all t no_extra c O CTOP CTOP I W H). Qed.

  (* ---- the round trip *)
  Theorem roundtrip_with_fuel (c : poracle) (t : expr) (n : nat) :
    printable g fmt_int fmt_float o c t ->
    (List.length (pr c CTOP t) < n)%nat ->
    parse_with_fuel g o n (print_any g fmt_int fmt_float c t) = ROk t.
  Proof.
    intros W L. unfold printable in W. unfold print_any, parse_with_fuel.
    destruct (Stmt_all t) as (_ & _ & HT).
    specialize (HT c O n [eof_at noloc] (closerb_eof noloc []) W L). unfold PE in HT.
    destruct (pr_starts t c O CTOP W) as (tk & r & E & _). rewrite E in HT |- *. cbn [app] in HT |- *.
    rewrite HT. reflexivity.
  Qed.

  Theorem roundtrip (c : poracle) (t : expr) :
    printable g fmt_int fmt_float o c t -> parse g o (print_any g fmt_int fmt_float c t) = ROk t.
  Proof.
    intros W. unfold parse. apply roundtrip_with_fuel; [assumption|].
    unfold print_any. rewrite app_length. cbn [List.length]. lia.
  Qed.

  Corollary roundtrip_min (t : expr) :
    printable g fmt_int fmt_float o no_extra t -> parse g o (print_min g fmt_int fmt_float t) = ROk t.
  Proof. apply roundtrip. Qed.

  (* redundant parentheses never change the tree *)
  Corollary redundant_parens (c1 c2 : poracle) (t : expr) :
    printable g fmt_int fmt_float o c1 t -> printable g fmt_int fmt_float o c2 t ->
    parse g o (print_any g fmt_int fmt_float c1 t) = parse g o (print_any g fmt_int fmt_float c2 t).
  Proof. intros W1 W2. rewrite (roundtrip c1 t W1), (roundtrip c2 t W2). reflexivity. Qed.

  Theorem roundtrip_any_parens (c : poracle) (t : expr) :
    printable g fmt_int fmt_float o no_extra t -> harmless c t ->
    parse g o (print_any g fmt_int fmt_float c t) = ROk t.
  Proof. intros W H. apply roundtrip, printable_any_parens; assumption. Qed.

  (* operand position, as used by the precedence-climbing argument: at level q the printed operand
     is returned as soon as the follower binds at most f < q *)
  Theorem operand_parse (c : poracle) (d : nat) (t : expr) (q f : Z) (n : nat) (rest : list token) :
    1 <= q -> f < q -> folb f rest = true ->
    wfp c d (COp false q f) t -> (List.length (pr c (COp false q f) t) < n)%nat ->
    parse_expr g o n q d (pr c (COp false q f) t ++ rest) = POk t rest.
  Proof.
    intros Q F H W L. destruct (Stmt_all t) as (_ & HK & _).
    apply (E_of_K t HK); try assumption. left. exact F.
  Qed.
End Proofs.

(* Parse/SoundCorProofs.v — consequences of the soundness theorem of Parse/SoundProofs.v:
     parse_sound       accepted  ->  the normalised sequence is a printing of the returned tree;
     unique_tree       the returned tree is the only tree the reference grammar assigns to the sequence;
     rejects_iff       rejected  <->  the reference grammar assigns no tree (for `plain` sequences, whose
                       normalisation only forgets locations; the direction <- holds for all sequences in scope);
     full_statement_refuted + witnesses for the clauses p1 p2 p3 of the carve-out. *)
From Coq Require Import ZArith Bool List String Ascii Floats Lia.
Require Import X.Base.Num X.Base.Value X.Syn.Ast X.Syn.Tok X.Parse.Parser X.Parse.Printer X.Parse.ParseProofs
               X.Parse.Sound X.Parse.SoundPrProofs X.Parse.SoundProofs X.Parse.FuelProofs
               X.gen.GenGrammar X.Corr.CorrC11 X.Bridge.BrC11 X.Parse.Render X.Parse.TextProofs.
Import ListNotations.
Open Scope Z_scope.

Section Cor.
  Variable g : grammar.
  Variable o : oracles.
  Variable fmt_int : Z -> string.
  Variable fmt_float : float -> string.
  Hypothesis G : wf_grammar g = true.

  Notation normalize := (normalize g o fmt_int fmt_float).
  Notation ref_parses := (ref_parses g o fmt_int fmt_float).
  Notation sound_scope := (sound_scope g o fmt_int fmt_float).
  Notation plain := (plain g o fmt_int fmt_float).

  Theorem parse_sound ts t : sound_scope ts = true -> parse g o ts = ROk t -> ref_parses ts t.
  Proof.
    unfold Sound.sound_scope. intros S H. apply andb_prop in S. destruct S as [GD CL].
    exact (parse_sound_gen g o fmt_int fmt_float G (brace_locs ts) ts t H GD CL).
  Qed.

  (* what the reference grammar assigns is what the parser returns on the normalised sequence *)
  Lemma ref_roundtrip ts t : ref_parses ts t -> parse g o (normalize ts) = ROk t.
  Proof. intros (c & PR & EQ). rewrite EQ. exact (roundtrip g o fmt_int fmt_float G c t PR). Qed.

  Theorem unique_tree ts t1 t2 : sound_scope ts = true -> parse g o ts = ROk t1 -> ref_parses ts t2 -> t1 = t2.
  Proof.
    intros S H R. pose proof (ref_roundtrip _ _ (parse_sound ts t1 S H)) as E1. pose proof (ref_roundtrip _ _ R) as E2.
    congruence.
  Qed.

  Corollary ref_unambiguous ts t1 t2 : ref_parses ts t1 -> ref_parses ts t2 -> t1 = t2.
  Proof. intros R1 R2. pose proof (ref_roundtrip _ _ R1). pose proof (ref_roundtrip _ _ R2). congruence. Qed.

  Lemma all2_strip : forall l1 l2, all2 same_kv l1 l2 = true -> strip l1 = strip l2.
  Proof.
    induction l1 as [|a r1 IH]; intros [|b r2] H; try discriminate H; [reflexivity|].
    cbn [all2] in H. apply andb_prop in H. destruct H as [H1 H2]. unfold same_kv in H1. apply andb_prop in H1. destruct H1 as [K V].
    apply String.eqb_eq in V. cbn [strip map]. unfold strip_tok at 1 3. rewrite V.
    replace (tkind_of a) with (tkind_of b) by (destruct (tkind_of a), (tkind_of b); try discriminate K; reflexivity).
    f_equal. apply IH. exact H2.
  Qed.

  (* a sequence the reference grammar generates is accepted (plain sequences) *)
  Theorem ref_accepted ts t : plain ts = true -> ref_parses ts t ->
    exists t', parse g o ts = ROk t' /\ erase_loc t' = erase_loc t.
  Proof.
    intros PL R. pose proof (ref_roundtrip _ _ R) as E.
    pose proof (parse_strip g o ts) as S1. pose proof (parse_strip g o (normalize ts)) as S2.
    rewrite (all2_strip _ _ PL) in S2. rewrite S1, E in S2. cbn in S2.
    destruct (parse g o ts) as [t'| |]; try discriminate S2. exists t'. split; [reflexivity|]. injection S2 as S2. exact S2.
  Qed.

  (* what the reference grammar does not generate is rejected with an error (every sequence in scope) *)
  Theorem not_ref_rejected ts : sound_scope ts = true ->
    ~ (exists t, ref_parses ts t) -> exists e, parse g o ts = RErr e.
  Proof.
    intros S NR. pose proof (parse_total g o ts) as NF. destruct (parse g o ts) as [t|e|] eqn:E; [|eauto|congruence].
    exfalso. apply NR. exists t. apply parse_sound; assumption.
  Qed.

  Theorem rejects_iff ts : sound_scope ts = true -> plain ts = true ->
    ((exists e, parse g o ts = RErr e) <-> ~ (exists t, ref_parses ts t)).
  Proof.
    intros S PL. split.
    - intros [e E] [t R]. destruct (ref_accepted ts t PL R) as (t' & E' & _). congruence.
    - apply not_ref_rejected; assumption.
  Qed.

  Lemma not_ref ts t : parse g o (normalize ts) <> ROk t -> ~ ref_parses ts t.
  Proof. intros H R. apply H. apply ref_roundtrip. exact R. Qed.
End Cor.

(* ------------------------------------------------------------------ the full statement is false of the pinned tree *)
Definition o_any : oracles := mkOracles (fun _ => None) (fun _ => true).
Definition ff0 (x : float) : string := EmptyString.

(* p1: `- "a" . b` is accepted as (-"a").b *)
Definition w_unary_postfix : list token := [tO 1 0 "-"; tS 1 2 "a"; tO 1 6 "."; tI 1 8 "b"; tE 1 9].
Definition t_unary_postfix : expr :=
  EProperty (at_loc (1, 8)) (EUnary (at_loc (1, 0)) UMinus (EStr (at_loc (1, 2)) "a")) "b" false.
(* p2: `a ?: b` is accepted as Conditional(a, a, b) *)
Definition w_elvis : list token := [tI 1 0 "a"; tO 1 2 "?"; tO 1 3 ":"; tI 1 5 "b"; tE 1 6].
Definition t_elvis : expr :=
  ECond ann0 (EIdent (at_loc (1, 0)) "a" false) (EIdent (at_loc (1, 0)) "a" false) (EIdent (at_loc (1, 5)) "b" false).
(* p3: `{ ( a ) . b : 1 }` is accepted with the key (a).b *)
Definition w_open_key : list token :=
  [tB 1 0 "{"; tB 1 1 "("; tI 1 2 "a"; tB 1 3 ")"; tO 1 4 "."; tI 1 5 "b"; tO 1 6 ":"; tN 1 8 "1"; tB 1 9 "}"; tE 1 10].
Definition t_open_key : expr :=
  EMap (at_loc (1, 0)) [EPair (at_loc (1, 0)) (EProperty (at_loc (1, 5)) (EIdent (at_loc (1, 2)) "a" false) "b" false)
                                             (EInt (at_loc (1, 8)) 1)].

Lemma witness_facts :
  (parse gen_grammar o_any w_unary_postfix = ROk t_unary_postfix /\
   good o_any dec ff0 (brace_locs w_unary_postfix) w_unary_postfix = true /\
   clean (normalize gen_grammar o_any dec ff0 w_unary_postfix) = false) /\
  (parse gen_grammar o_any w_elvis = ROk t_elvis /\
   good o_any dec ff0 (brace_locs w_elvis) w_elvis = true /\
   clean (normalize gen_grammar o_any dec ff0 w_elvis) = false) /\
  (parse gen_grammar o_any w_open_key = ROk t_open_key /\
   good o_any dec ff0 (brace_locs w_open_key) w_open_key = true /\
   clean (normalize gen_grammar o_any dec ff0 w_open_key) = false).
Proof. vm_compute. repeat split. Qed.

Theorem witness_not_ref :
  ~ ref_parses gen_grammar o_any dec ff0 w_unary_postfix t_unary_postfix /\
  ~ ref_parses gen_grammar o_any dec ff0 w_elvis t_elvis /\
  ~ ref_parses gen_grammar o_any dec ff0 w_open_key t_open_key.
Proof.
  repeat split; apply (not_ref gen_grammar o_any dec ff0 gen_grammar_wf); vm_compute; discriminate.
Qed.

Theorem full_statement_refuted : ~ parse_sound_full_statement gen_grammar o_any dec ff0.
Proof.
  intros H. destruct witness_facts as ((P1 & G1 & _) & _). destruct witness_not_ref as (N1 & _).
  apply N1. exact (H w_unary_postfix t_unary_postfix G1 P1).
Qed.

(* ------------------------------------------------------------------ instances for the generated tables *)
Theorem parse_sound_gen_grammar (o : oracles) (fmt_int : Z -> string) (fmt_float : float -> string) ts t :
  sound_scope gen_grammar o fmt_int fmt_float ts = true -> parse gen_grammar o ts = ROk t ->
  ref_parses gen_grammar o fmt_int fmt_float ts t.
Proof. exact (parse_sound gen_grammar o fmt_int fmt_float gen_grammar_wf ts t). Qed.

Theorem unique_tree_gen (o : oracles) (fmt_int : Z -> string) (fmt_float : float -> string) ts t1 t2 :
  sound_scope gen_grammar o fmt_int fmt_float ts = true -> parse gen_grammar o ts = ROk t1 ->
  ref_parses gen_grammar o fmt_int fmt_float ts t2 -> t1 = t2.
Proof. exact (unique_tree gen_grammar o fmt_int fmt_float gen_grammar_wf ts t1 t2). Qed.

Theorem rejects_iff_gen (o : oracles) (fmt_int : Z -> string) (fmt_float : float -> string) ts :
  sound_scope gen_grammar o fmt_int fmt_float ts = true -> plain gen_grammar o fmt_int fmt_float ts = true ->
  ((exists e, parse gen_grammar o ts = RErr e) <-> ~ (exists t, ref_parses gen_grammar o fmt_int fmt_float ts t)).
Proof. exact (rejects_iff gen_grammar o fmt_int fmt_float gen_grammar_wf ts). Qed.

Theorem not_ref_rejected_gen (o : oracles) (fmt_int : Z -> string) (fmt_float : float -> string) ts :
  sound_scope gen_grammar o fmt_int fmt_float ts = true ->
  ~ (exists t, ref_parses gen_grammar o fmt_int fmt_float ts t) -> exists e, parse gen_grammar o ts = RErr e.
Proof. exact (not_ref_rejected gen_grammar o fmt_int fmt_float gen_grammar_wf ts). Qed.

Theorem ref_accepted_gen (o : oracles) (fmt_int : Z -> string) (fmt_float : float -> string) ts t :
  plain gen_grammar o fmt_int fmt_float ts = true -> ref_parses gen_grammar o fmt_int fmt_float ts t ->
  exists t', parse gen_grammar o ts = ROk t' /\ erase_loc t' = erase_loc t.
Proof. exact (ref_accepted gen_grammar o fmt_int fmt_float gen_grammar_wf ts t). Qed.

(* ------------------------------------------------------------------ bounded exhaustive sweep (computed in Coq).
   For every sequence of at most n tokens over a 20-symbol alphabet (plus EOF; distinct locations), if the sequence
   is in `sound_scope`:  accepted -> the normalised sequence IS the printing of the returned tree with the computed
   oracle `oracle_for`;  rejected -> the normalised sequence is rejected too, hence (ref_roundtrip) the reference
   grammar assigns no tree — the direction of `rejects_iff` that is a theorem only for `plain` sequences. *)
Definition sweep_alphabet : list (tkind * string) :=
  [(TkIdentifier, "a"); (TkNumber, "1"); (TkString, "s"); (TkOperator, "+"); (TkOperator, "-"); (TkOperator, "not");
   (TkOperator, "."); (TkOperator, "?."); (TkBracket, "["); (TkBracket, "]"); (TkBracket, "("); (TkBracket, ")");
   (TkBracket, "{"); (TkBracket, "}"); (TkOperator, ","); (TkOperator, ":"); (TkOperator, "?"); (TkOperator, "#");
   (TkIdentifier, "all"); (TkIdentifier, "nil")]%string.

Fixpoint locate (i : Z) (l : list (tkind * string)) : list token :=
  match l with [] => [mkTok (1, i) TkEOF ""] | (k, v) :: r => mkTok (1, i) k v :: locate (i + 1) r end.

Definition accepted (r : parse_result) : bool := match r with ROk _ => true | _ => false end.
Definition tok_eqb (a b : token) : bool :=
  loc_eqb (tloc a) (tloc b) && tkind_eqb (tkind_of a) (tkind_of b) && String.eqb (tval a) (tval b).

Definition check_seq (s : list (tkind * string)) : bool :=
  let ts := locate 1 s in
  let nt := normalize gen_grammar o_any dec ff0 ts in
  if sound_scope gen_grammar o_any dec ff0 ts then
    match parse gen_grammar o_any ts with
    | ROk t => all2 tok_eqb nt (print_any gen_grammar dec ff0 (oracle_for gen_grammar dec ff0 nt t) t)
    | _ => negb (accepted (parse gen_grammar o_any nt))
    end
  else true.

Fixpoint check_all (n : nat) (pre : list (tkind * string)) : bool :=
  check_seq (rev pre) &&
  match n with O => true | S n' => forallb (fun x => check_all n' (x :: pre)) sweep_alphabet end.

Fixpoint count_all (n : nat) : Z :=
  match n with O => 1 | S n' => 1 + Z.of_nat (List.length sweep_alphabet) * count_all n' end.

Lemma bounded_sweep_4 : check_all 4 [] = true /\ count_all 4 = 168421.
Proof. vm_compute. split; reflexivity. Qed.

(* what a passed check means for a rejected sequence *)
Lemma check_seq_rejected s e :
  check_seq s = true -> sound_scope gen_grammar o_any dec ff0 (locate 1 s) = true ->
  parse gen_grammar o_any (locate 1 s) = RErr e ->
  ~ (exists t, ref_parses gen_grammar o_any dec ff0 (locate 1 s) t).
Proof.
  unfold check_seq. intros C S E [t R]. rewrite S, E in C.
  rewrite (ref_roundtrip gen_grammar o_any dec ff0 gen_grammar_wf _ _ R) in C. discriminate C.
Qed.

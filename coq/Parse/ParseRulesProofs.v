(* Parse/ParseRulesProofs.v — lemmas and tactics for running the interpreter of Parse/ParseRules.v
   symbolically against the model parser (used by Bridge/BrParser.v).

   `sym_step` normalises both sides of `interp ... = lift (model ...)` with the tests of the model kept
   folded (tok_is, cur, advance, lookup, ...), finds the test the left-hand side is stuck on (the
   innermost scrutinee), and case-splits on it; a call through `rec` is rewritten with the hypothesis
   about that function; a `next` of the model is turned into the interpreter's `advance`. *)
From Coq Require Import ZArith Bool List String Ascii Floats Lia.
Require Import X.Base.Num X.Base.Value X.Syn.Ast X.Syn.Tok X.Parse.Parser X.Parse.ParseRules.
Import ListNotations.
Local Open Scope string_scope.
Open Scope Z_scope.

Lemma next_advance {A} ts (k : list token -> pres A) :
  next ts k = match advance ts with inl r => k r | inr l => PErr l end.
Proof. destruct ts as [|t [|t2 r]]; reflexivity. Qed.

Lemma all_some_map {A} (l : list A) : all_some (map Some l) = Some l.
Proof. induction l as [|x l IH]; cbn; [reflexivity|rewrite IH; reflexivity]. Qed.

Lemma map_app_single {A} (l : list A) a : (map Some l ++ [Some a] = map Some (l ++ [a]))%list.
Proof. rewrite map_app. reflexivity. Qed.

(* `b || true` and `b || false` once unfolded *)
Lemma if_tt (b : bool) : (if b then true else true) = true.
Proof. destruct b; reflexivity. Qed.
Lemma if_tf (b : bool) : (if b then true else false) = b.
Proof. destruct b; reflexivity. Qed.

(* Token.Is with the kind known *)
Lemma tok_is_kind t k vs :
  tok_is t k vs = (match vs with [] => true | _ => existsb (String.eqb (tval t)) vs end) && tkind_eqb k (tkind_of t).
Proof. destruct vs; reflexivity. Qed.

(* one step of the interpreter with the nested statement lists kept folded *)
Lemma exec_unfold g o rec LF x s :
  exec g o rec LF x s = exec_body g o rec LF (exec_list g o rec LF) x s.
Proof. destruct x; reflexivity. Qed.

Lemma exec_list_unfold g o rec LF y rest fs :
  exec_list g o rec LF (y :: rest) fs =
  match fst fs with
  | FNorm => ibind (exec g o rec LF y (snd fs)) (exec_list g o rec LF rest)
  | FGoto lab =>
      match y with
      | SLabel lab' =>
          if Nat.eqb lab lab' then exec_list g o rec LF rest (FNorm, snd fs) else exec_list g o rec LF rest fs
      | _ => exec_list g o rec LF rest fs
      end
  | _ => IDone fs
  end.
Proof. reflexivity. Qed.

Lemma exec_list_nil g o rec LF fs : exec_list g o rec LF [] fs = IDone fs.
Proof. reflexivity. Qed.

(* a loop left by `goto 0` (the label follows the loop) and a loop left normally continue alike *)
Definition merge_goto (r : iout (flow * st)) : iout (flow * st) :=
  match r with
  | IDone (FGoto O, s) => IDone (FNorm, s)
  | IDone (f, s) => IDone (f, s)
  | IErr l => IErr l
  | IFuel => IFuel
  | IStuck => IStuck
  end.

(* what the code after a loop looks at when it only reads the first variable *)
Definition view0 (r : iout (flow * st)) : iout (flow * dval * list token * nat * bool) :=
  match r with
  | IDone (f, s) => IDone (f, hd DNilLit (s_env s), s_ts s, s_depth s, s_dry s)
  | IErr l => IErr l
  | IFuel => IFuel
  | IStuck => IStuck
  end.

Ltac head t :=
  lazymatch t with
  | match ?x with _ => _ end => head x
  | merge_goto ?x => head x
  | view0 ?x => head x
  | _ => t
  end.

Ltac is_val a :=
  lazymatch a with
  | IDone _ => idtac | IErr _ => idtac | IFuel => idtac | IStuck => idtac
  | POk _ _ => idtac | PErr _ => idtac | PFuel => idtac
  end.

(* everything of the interpreter unfolds; the tests of the model stay folded *)
Ltac norm :=
  lazy beta iota zeta delta -[tok_is cur advance next lookup valid_identifier contains_any strip_underscores
     parse_int10 parse_int0_hex unop_of_string binop_of_string builtin_of_string all_some
     String.eqb Z.geb Z.gtb Z.eqb Z.ltb Z.leb Z.add Z.of_nat map app List.length while_loop
     args_loop array_loop map_loop postfix_loop binary_loop cond_loop tkind_of tval tloc
     o_float o_regex g_unary g_binary g_builtins PrimFloat.zero merge_goto view0 exec exec_list
     parse_arguments parse_closure parse_array parse_map parse_identifier_expression parse_primary_expression
     parse_base parse_primary expression_body number_value expect is_kind val_is parse_expr].

Ltac on_atom a :=
  lazymatch a with
  | while_loop _ _ O _ => fail "loop"
  | while_loop _ _ (S _) _ => fail "loop"
  | while_loop _ _ _ _ =>
      rewrite ?map_app_single, ?if_tt, ?if_tf;
      match goal with
      | H : forall _, _ |- _ => lazymatch type of H with context [while_loop] => idtac end; rewrite H
      end
  | next _ _ => rewrite next_advance
  | all_some (map Some _) => rewrite all_some_map
  | all_some _ => let v := eval cbv [all_some] in a in change a with v
  | exec_list _ _ _ _ (_ :: _) _ => rewrite exec_list_unfold
  | exec_list _ _ _ _ [] _ => rewrite exec_list_nil
  | exec _ _ _ _ _ _ => rewrite exec_unfold
  | _ =>
    first [ match goal with H : a = _ |- _ => rewrite H end
          | match a with context [Datatypes.length (map Some ?l)] => is_var l; destruct l end
          | match a with
            | tok_is ?t ?k ?vs =>
                match goal with H : tkind_of t = _ |- _ => rewrite (tok_is_kind t k vs), H end
            end
          | lazymatch a with
            | ?f _ _ _ _ =>
                is_var f;
                match goal with
                | H : forall _, _ |- _ =>
                    lazymatch type of H with context [while_loop] => fail | _ => idtac end; rewrite H
                end
            end
          | lazymatch a with
            | Z.eqb _ _ => idtac | Z.ltb _ _ => idtac | Z.gtb _ _ => idtac | Z.geb _ _ => idtac | Z.leb _ _ => idtac
            end;
            let v := eval vm_compute in a in
            lazymatch v with true => change a with true | false => change a with false end
          | destruct a eqn:? ]
  end.

Ltac sym_step :=
  norm;
  match goal with
  | |- ?L = ?R =>
    first [ reflexivity
          | let a := head L in
            tryif is_val a then (let b := head R in tryif is_val b then fail else on_atom b) else on_atom a ]
  end.

Ltac sym_run := repeat sym_step.

(* bring the right-hand side as far as the facts already known allow (no new case split) *)
Ltac sync_right :=
  repeat (norm;
          match goal with
          | |- _ = ?R =>
              let b := head R in
              lazymatch b with
              | next _ _ => rewrite next_advance
              | _ => match goal with H : b = _ |- _ => rewrite H end
              end
          end);
  norm.

(* EW : merge_goto W = match M with ... end, W the loop the goal is stuck on *)
Ltac use_loop EW :=
  lazymatch type of EW with
  | merge_goto ?W = match ?M with _ => _ end =>
      revert EW; destruct W as [[[| | |[|?]|?] ?]|?| |]; cbn [merge_goto]; destruct M; intros EW;
      try discriminate EW; inversion EW; subst; clear EW
  end.

Ltac use_loop_view EW :=
  lazymatch type of EW with
  | view0 ?W = match ?M with _ => _ end =>
      revert EW; destruct W as [[? [[|? ?] ? ? ?]]|?| |]; cbn [view0 hd s_env s_ts s_depth s_dry]; destruct M; intros EW;
      try discriminate EW; inversion EW; subst; clear EW
  end.

(* Parse/TextProofs.v — the text-level half of C11: lexer composed with parser.

   Part A  the lexer on the two spellings that start with the word `not` (state SNot of Lex/Lexer.v),
           and the layout theorem of Lex/LexProofs.v (`positions_hold`) extended to them:
             lex_text : layoutx_ok items trail = true -> lex (layoutx items trail) = LexOk (expectedx .. ++ [EOF])
   Part B  the parser never looks at token positions:
             parse_strip : parse g o (strip ts) = erase_result (parse g o ts)
   Part C  the glue: for EVERY token list with a spelling and EVERY good layout, parsing the rendered
           text gives what parsing the tokens gives, up to locations (text_tokens); with the token-level
           round trip of Parse/ParseProofs.v: text_roundtrip, whitespace_irrelevant,
           redundant_parentheses_text; the unrestricted white-space statement is refuted
           (`1 not<TAB>in [1]`, known finding C11-notin-spacing). *)
From Coq Require Import ZArith Bool List String Ascii Floats Lia.
Require Import X.Base.Num X.Base.Value X.Syn.Ast X.Syn.Tok X.Lex.Lexer X.Lex.LexProofs.
Require Import X.Parse.Parser X.Parse.Printer X.Parse.ParseProofs X.Parse.Render.
Import ListNotations.
Open Scope Z_scope.

(* ================================================================== Part A: the lexer *)

(* the fields no scanning primitive touches *)
Definition meta (l : lexer) : loc * list token * option loc := (l_startLoc l, l_tokens l, l_err l).

Lemma meta_adv : forall l, meta (adv l) = meta l.
Proof. intros l. unfold adv, Lexer.next, meta. destruct (l_rest l); reflexivity. Qed.

Lemma meta_pk : forall l, meta (pk l) = meta l.
Proof. intros l. unfold meta. destruct (pk_fields l) as (_ & _ & A & B & C). rewrite A, B, C. reflexivity. Qed.

Lemma meta_consume : forall w l, meta (consume w l) = meta l.
Proof. induction w as [|r w IH]; intros l; cbn [consume]; [reflexivity|]. rewrite IH. apply meta_adv. Qed.

Lemma snd_next : forall l, snd (Lexer.next l) = adv l.
Proof. reflexivity. Qed.

Lemma meta_skip_spaces : forall fuel l, meta (skip_spaces fuel l) = meta l.
Proof.
  induction fuel as [|f IH]; intros l; cbn [skip_spaces]; [reflexivity|].
  rewrite peek_eq. destruct (fst (Lexer.next l) =? 32).
  - rewrite snd_next, IH, meta_adv. apply meta_pk.
  - apply meta_pk.
Qed.

Lemma meta_expect_word : forall w l, meta (snd (expect_word w l)) = meta l.
Proof.
  induction w as [|c w IH]; intros l; cbn [expect_word]; [reflexivity|].
  destruct (Lexer.next l) as [r l1] eqn:N. assert (E : l1 = adv l) by (unfold adv; rewrite N; reflexivity).
  destruct (r =? c).
  - rewrite IH, E. apply meta_adv.
  - cbn [snd]. rewrite E. apply meta_adv.
Qed.

(* when acceptWord answers no, the position is restored and nothing else has changed *)
Lemma acceptWord_false : forall w l, fst (acceptWord w l) = false ->
  exists lX, snd (acceptWord w l) = restore l lX /\ meta lX = meta l.
Proof.
  intros w l H. unfold acceptWord in *.
  set (l1 := skip_spaces (S (List.length (l_rest l))) l) in *.
  assert (M1 : meta l1 = meta l) by apply meta_skip_spaces.
  pose proof (meta_expect_word w l1) as M2.
  destruct (expect_word w l1) as [ok l2]. cbn [snd] in M2. destruct ok.
  - rewrite peek_eq in *. destruct (negb (fst (Lexer.next l2) =? 32) && negb (fst (Lexer.next l2) =? eof)).
    + exists (pk l2). split; [reflexivity|]. rewrite meta_pk, M2. exact M1.
    + discriminate H.
  - exists l2. split; [reflexivity|]. rewrite M2. exact M1.
Qed.

Lemma Mid_restore : forall l lX tail w pos toks, Mid l tail w pos toks -> meta lX = meta l ->
  Mid (restore l lX) tail w pos toks.
Proof.
  intros l lX tail w pos toks [R W S E T L P] M. unfold meta in M. injection M as M1 M2 M3.
  unfold restore. constructor; cbn; try assumption; congruence.
Qed.

Lemma drop_spaces_split : forall l, exists sp,
  l = sp ++ drop_spaces l /\ forallb (fun c => c =? 32) sp = true /\
  hd_ok (fun c => negb (c =? 32)) (drop_spaces l).
Proof.
  induction l as [|c l IH].
  - exists []. repeat split.
  - cbn [drop_spaces]. destruct (c =? 32) eqn:E.
    + destruct IH as (sp & A & B & C). exists (c :: sp). split; [cbn [app]; rewrite <- A; reflexivity|].
      split; [cbn [forallb]; rewrite E, B; reflexivity|exact C].
    + exists []. split; [reflexivity|]. split; [reflexivity|]. cbn [hd_ok]. rewrite E. reflexivity.
Qed.

Lemma drop_spaces_app : forall sp t, forallb (fun c => c =? 32) sp = true ->
  hd_ok (fun c => negb (c =? 32)) t -> drop_spaces (sp ++ t) = t.
Proof.
  induction sp as [|c sp IH]; intros t H Ht.
  - cbn [app]. destruct t as [|c t]; [reflexivity|]. cbn [hd_ok] in Ht. apply negb_true_iff in Ht.
    cbn [drop_spaces]. rewrite Ht. reflexivity.
  - cbn [forallb] in H. apply andb_true_iff in H. destruct H as [Hc H]. cbn [app drop_spaces]. rewrite Hc. apply IH; assumption.
Qed.

Lemma skip_spaces_spec : forall sp fuel l t, l_rest l = sp ++ t -> forallb (fun c => c =? 32) sp = true ->
  hd_ok (fun c => negb (c =? 32)) t -> (List.length sp < fuel)%nat ->
  skip_spaces fuel l = pk (consume sp l).
Proof.
  induction sp as [|c sp IH]; intros fuel l t R Hsp Ht Hf.
  - destruct fuel as [|f]; [cbn in Hf; lia|]. cbn [skip_spaces consume]. cbn [app] in R.
    destruct t as [|c t].
    + rewrite (peek_nil _ R). reflexivity.
    + rewrite (peek_cons _ _ _ R). cbn [hd_ok] in Ht. apply negb_true_iff in Ht. rewrite Ht. reflexivity.
  - destruct fuel as [|f]; [cbn in Hf; lia|]. cbn [skip_spaces consume]. cbn [app] in R.
    cbn [forallb] in Hsp. apply andb_true_iff in Hsp. destruct Hsp as [Hc Hsp].
    rewrite (peek_cons _ _ _ R), Hc. rewrite snd_next. rewrite adv_pk by congruence.
    apply (IH f (adv l) t); auto.
    + rewrite (adv_cons _ _ _ R). reflexivity.
    + cbn in Hf. lia.
Qed.

Lemma consume_pk : forall w l, w <> [] -> l_rest l <> [] -> consume w (pk l) = consume w l.
Proof. intros [|r w] l Hw Hl; [congruence|]. cbn [consume]. rewrite adv_pk by exact Hl. reflexivity. Qed.

(* the answer of acceptWord("in") only depends on the text ahead *)
Lemma acceptWord_in_fst : forall l, fst (acceptWord in_runes l) = notin_accepts (l_rest l).
Proof.
  intros l. destruct (drop_spaces_split (l_rest l)) as (sp & A & B & C).
  unfold acceptWord, notin_accepts.
  rewrite (skip_spaces_spec sp _ l (drop_spaces (l_rest l)) A B C) by (rewrite A at 2; rewrite app_length; lia).
  set (Y := consume sp l).
  assert (RY : l_rest Y = drop_spaces (l_rest l)) by (apply consume_rest; exact A).
  destruct (drop_spaces (l_rest l)) as [|c1 t1] eqn:D.
  - unfold in_runes. cbn [expect_word].
    rewrite (next_nil (pk Y)) by (rewrite pk_rest; exact RY). reflexivity.
  - unfold in_runes. cbn [expect_word]. rewrite next_pk by congruence. rewrite (next_cons _ _ _ RY).
    destruct (c1 =? 105); [|destruct t1; reflexivity].
    assert (RA : l_rest (adv Y) = t1) by (rewrite (adv_cons _ _ _ RY); reflexivity).
    destruct t1 as [|c2 t2].
    + rewrite (next_nil _ RA). reflexivity.
    + rewrite (next_cons _ _ _ RA). destruct (c2 =? 110); [|reflexivity].
      assert (RB : l_rest (adv (adv Y)) = t2) by (rewrite (adv_cons _ _ _ RA); reflexivity).
      cbn [andb]. destruct t2 as [|c t2].
      * rewrite (peek_nil _ RB). reflexivity.
      * rewrite (peek_cons _ _ _ RB). destruct (c =? 32); reflexivity.
Qed.

Lemma acceptWord_in_ok : forall l sp t2, l_rest l = sp ++ in_runes ++ t2 ->
  forallb (fun c => c =? 32) sp = true -> hd_ok (fun c => c =? 32) t2 ->
  acceptWord in_runes l = (true, pk (consume (sp ++ in_runes) l)).
Proof.
  intros l sp t2 R Hsp Ht. unfold acceptWord.
  rewrite (skip_spaces_spec sp _ l (in_runes ++ t2) R Hsp) by (try reflexivity; rewrite R, app_length; lia).
  set (Y := consume sp l).
  assert (RY : l_rest Y = 105 :: 110 :: t2) by (apply consume_rest; exact R).
  unfold in_runes at 1. cbn [expect_word]. rewrite next_pk by congruence. rewrite (next_cons _ _ _ RY).
  change (105 =? 105) with true. cbv iota.
  assert (RA : l_rest (adv Y) = 110 :: t2) by (rewrite (adv_cons _ _ _ RY); reflexivity).
  rewrite (next_cons _ _ _ RA). change (110 =? 110) with true. cbv iota.
  assert (RB : l_rest (adv (adv Y)) = t2) by (rewrite (adv_cons _ _ _ RA); reflexivity).
  rewrite consume_app. fold Y. unfold in_runes. cbn [consume].
  destruct t2 as [|c t2].
  - rewrite (peek_nil _ RB). reflexivity.
  - rewrite (peek_cons _ _ _ RB). cbn [hd_ok] in Ht. rewrite Ht. reflexivity.
Qed.

Section TextLex.
  Variables uni_letter uni_digit uni_space : Z -> bool.
  Notation is_alnum := (is_alnum uni_letter uni_digit).
  Notation step := (step uni_letter uni_digit uni_space).
  Notation lex_fuel := (lex_fuel uni_letter uni_digit uni_space).
  Notation lex := (lex uni_letter uni_digit uni_space).
  Notation token_done := (token_done uni_letter uni_digit uni_space).
  Notation xtok_ok := (xtok_ok uni_letter uni_digit uni_space).
  Notation xfollow_ok := (xfollow_ok uni_letter uni_digit).
  Notation layoutx_ok := (layoutx_ok uni_letter uni_digit uni_space).

  Lemma not_alnum : Forall (fun c => is_alnum c = true) not_runes.
  Proof. repeat constructor. Qed.

  (* root -> identifier -> not, on the word `not` followed by a rune that is not alphanumeric *)
  Lemma steps_to_not : forall l tail pos lastp toks,
    Between l (not_runes ++ tail) pos lastp toks -> hd_ok (fun c => negb (is_alnum c)) tail ->
    step SRoot l = (Some SIdentifier, pk l) /\
    step SIdentifier (pk l) = (Some SNot, pk (consume not_runes l)) /\
    Mid (pk (consume not_runes l)) tail not_runes pos toks.
  Proof.
    intros l tail pos lastp toks B Ht. pose proof (b_rest _ _ _ _ _ B) as R.
    pose proof (Mid_consume _ _ _ _ _ _ B ltac:(discriminate)) as M. apply Mid_pk in M.
    split; [|split; [|exact M]].
    - apply (root_ident uni_letter uni_digit uni_space l 110 _ R); reflexivity.
    - unfold Lexer.step. rewrite pk_rest.
      rewrite run_while_pk by (try reflexivity; lia).
      rewrite (run_while_spec is_alnum not_runes _ l tail); auto.
      + replace (word (pk (consume not_runes l))) with not_runes; [reflexivity|].
        unfold word. rewrite (m_word _ _ _ _ _ M), rev_involutive. reflexivity.
      + apply not_alnum.
      + rewrite R, app_length. lia.
  Qed.

  Lemma tok_not : forall l tail pos lastp toks,
    Between l (not_runes ++ tail) pos lastp toks -> xfollow_ok XNot tail = true ->
    token_done l not_runes tail pos toks TkOperator "not".
  Proof.
    intros l tail pos lastp toks B Hf. cbn [Render.xfollow_ok] in Hf.
    apply andb_true_iff in Hf. destruct Hf as [Hf Hn]. apply hd_okb_ok in Hf. apply negb_true_iff in Hn.
    destruct (steps_to_not l tail pos lastp toks B Hf) as (S1 & S2 & M).
    set (l1 := pk (consume not_runes l)) in *.
    assert (A : fst (acceptWord in_runes l1) = false).
    { rewrite acceptWord_in_fst, (m_rest _ _ _ _ _ M). exact Hn. }
    destruct (acceptWord_false _ _ A) as (lX & E & MX).
    eapply (three_step_done uni_letter uni_digit uni_space l SIdentifier (pk l) SNot l1); [cbn; lia|exact S1|exact S2| |].
    - unfold Lexer.step. change (rs "in") with in_runes.
      destruct (acceptWord in_runes l1) as [ok l2]. cbn [fst snd] in A, E. subst ok l2. reflexivity.
    - apply Between_emitValue. apply Mid_restore; assumption.
  Qed.

  Lemma tok_notin : forall l sp tail pos lastp toks,
    Between l ((not_runes ++ sp ++ in_runes) ++ tail) pos lastp toks ->
    xtok_ok (XNotIn sp) = true -> xfollow_ok (XNotIn sp) tail = true ->
    token_done l (not_runes ++ sp ++ in_runes) tail pos toks TkOperator "not in".
  Proof.
    intros l sp tail pos lastp toks B Hok Hf. cbn [Render.xtok_ok Render.xfollow_ok] in Hok, Hf.
    apply andb_true_iff in Hok. destruct Hok as [Hsp Hne]. apply hd_okb_ok in Hf.
    assert (Hsp0 : sp <> []) by (destruct sp; [discriminate|discriminate]).
    pose proof (b_rest _ _ _ _ _ B) as R.
    assert (B' : Between l (not_runes ++ (sp ++ in_runes ++ tail)) pos lastp toks).
    { rewrite <- !app_assoc in B. exact B. }
    destruct (steps_to_not l _ pos lastp toks B') as (S1 & S2 & M1).
    { destruct sp as [|c sp]; [congruence|]. cbn [app hd_ok]. cbn [forallb] in Hsp. apply andb_true_iff in Hsp.
      destruct Hsp as [Hc _]. apply Z.eqb_eq in Hc. subst c. reflexivity. }
    set (X := consume not_runes l) in *.
    assert (RX : l_rest X = sp ++ in_runes ++ tail) by (apply (m_rest _ _ _ _ _ M1)).
    assert (A : acceptWord in_runes (pk X) = (true, pk (consume (not_runes ++ sp ++ in_runes) l))).
    { rewrite (acceptWord_in_ok (pk X) sp tail); [|rewrite pk_rest; exact RX|exact Hsp|exact Hf].
      rewrite consume_pk; [|destruct sp; [congruence|discriminate]|rewrite RX; destruct sp; [congruence|discriminate]].
      unfold X. rewrite <- consume_app. reflexivity. }
    eapply (three_step_done uni_letter uni_digit uni_space l SIdentifier (pk l) SNot (pk X));
      [rewrite !app_length; cbn; lia|exact S1|exact S2| |].
    - unfold Lexer.step. change (rs "in") with in_runes. rewrite A. reflexivity.
    - apply Between_emitValue. apply Mid_pk. eapply Mid_consume; [exact B|].
      unfold not_runes. cbn [app]. discriminate.
  Qed.

  Lemma xtok_any : forall l x tail pos lastp toks,
    Between l (xtok_runes x ++ tail) pos lastp toks -> xtok_ok x = true -> xfollow_ok x tail = true ->
    token_done l (xtok_runes x) tail pos toks (xtok_kind x) (xtok_value x).
  Proof.
    intros l [t| |sp] tail pos lastp toks B Hok Hf; cbn [xtok_runes xtok_kind xtok_value] in *.
    - apply (tok_any uni_letter uni_digit uni_space l t tail pos lastp toks B Hok Hf).
    - eapply tok_not; eauto.
    - eapply tok_notin; eauto.
  Qed.

  Lemma xtok_runes_nonempty : forall x, xtok_runes x <> [].
  Proof. intros [t| |sp]; cbn [xtok_runes]; [apply tok_runes_nonempty|discriminate|discriminate]. Qed.

  Lemma lex_layoutx : forall items trail l pos lastp toks fuel,
    layoutx_ok items trail = true -> Between l (layoutx items trail) pos lastp toks ->
    (2 * List.length (layoutx items trail) + 1 <= fuel)%nat ->
    exists l', lex_fuel fuel SRoot l = Some l' /\ l_err l' = None /\
      l_tokens l' = mkTok (lastpos pos lastp (layoutx items trail)) TkEOF EmptyString :: rev (expectedx pos items) ++ toks.
  Proof.
    induction items as [|[ws x] items IH]; intros trail l pos lastp toks fuel Hok B Hf.
    - cbn [layoutx Render.layoutx_ok expectedx] in *.
      rewrite <- (app_nil_r trail) in B.
      destruct (skip_ws uni_letter uni_digit uni_space trail l [] pos lastp toks Hok B) as (l1 & F & B1).
      destruct (step_eof uni_letter uni_digit uni_space l1 _ _ _ B1) as (l' & St & E & T).
      exists l'. split; [|split; [exact E|]].
      + replace fuel with (List.length trail + S (fuel - List.length trail - 1))%nat by lia.
        rewrite F. cbn [Lexer.lex_fuel]. rewrite St. reflexivity.
      + rewrite T. reflexivity.
    - cbn [layoutx Render.layoutx_ok expectedx] in *.
      apply andb_true_iff in Hok. destruct Hok as [Hok Hrest].
      apply andb_true_iff in Hok. destruct Hok as [Hok Hfol].
      apply andb_true_iff in Hok. destruct Hok as [Hws Hx].
      destruct (skip_ws uni_letter uni_digit uni_space ws l _ pos lastp toks Hws B) as (l1 & F1 & B1).
      destruct (xtok_any l1 x _ _ _ toks B1 Hx Hfol) as (n & l2 & Hn & Hn2 & F2 & B2).
      rewrite !app_length in Hf.
      destruct (IH trail l2 _ _ _ (fuel - List.length ws - n)%nat Hrest B2) as (l' & L & E & T); [lia|].
      exists l'. split; [|split; [exact E|]].
      + replace fuel with (List.length ws + (n + (fuel - List.length ws - n)))%nat by lia.
        rewrite F1, F2. exact L.
      + rewrite T. cbn [rev]. rewrite <- app_assoc. cbn [app].
        rewrite !lastpos_app. f_equal. f_equal.
        pose proof (xtok_runes_nonempty x). unfold lastpos at 2. destruct (xtok_runes x); [congruence|reflexivity].
  Qed.

  (* every layout of spellable tokens, `not` and `not in` included, lexes to those tokens, with positions *)
  Theorem lex_text : forall items trail, layoutx_ok items trail = true ->
    lex (layoutx items trail) =
    LexOk (expectedx (1, 0) items ++ [mkTok (lastpos (1, 0) (1, 0) (layoutx items trail)) TkEOF EmptyString]).
  Proof.
    intros items trail Hok. unfold Lexer.lex.
    destruct (lex_layoutx items trail (init (layoutx items trail)) (1, 0) (1, 0) [] (2 * List.length (layoutx items trail) + 2) Hok)
      as (l' & L & E & T).
    - constructor; cbn; auto.
    - lia.
    - rewrite L, E, T. cbn [rev]. rewrite app_nil_r, rev_involutive. reflexivity.
  Qed.
End TextLex.

(* Parse/TextProofs.v — the text-level half of C11: lexer composed with parser.

   Part A  the lexer on the two spellings that start with the word `not` (state SNot of Lex/Lexer.v),
           and the layout theorem of Lex/LexProofs.v (`positions_hold`) extended to them:
             lex_text : layoutx_ok items trail = true -> lex (layoutx items trail) = LexOk (expectedx .. ++ [EOF])
   Part B  the parser never looks at token positions: relabelling the positions by any phi (phi noloc = noloc)
           relabels the result by phi and changes nothing else
             parse_reloc : parse g o (map (reloc phi) ts) = map_result phi (parse g o ts)
             parse_strip : parse g o (strip ts) = erase_result (parse g o ts)
           and, with index labels, where the locations of a parse come from:
             parse_provenance, parse_locations
   Part C  the glue: for EVERY token list with a spelling and EVERY good layout, parsing the rendered
           text gives what parsing the tokens gives, up to locations (text_tokens; text_items for arbitrary
           spellings); with the token-level round trip of Parse/ParseProofs.v: text_roundtrip,
           whitespace_irrelevant, redundant_parentheses_text; roomy_good: white space between all tokens
           (U+0020 inside and after `not in`) is a good layout.
   Part D  every token the printer emits for a `tree_textable` tree has a spelling, and `not` is never
           directly followed by `in` (textable_tokens), whatever the parentheses.
   Part E  the theorems in their final form (hypotheses: printable, tree_textable, white) and, for the
           pinned tables, the refutation of the unrestricted white-space statement (`1 not<TAB>in [ 1 ]`,
           known finding C11-notin-spacing) with the partial theorem under the decidable carve-out
           `notin_spaced`.
   The round-trip statements are up to node locations (`erase_loc`); text_locations says where the nodes of
   the parsed tree are located, for trees labelled with pairwise distinct locations. *)
From Coq Require Import ZArith Bool List String Ascii Floats Lia.
Require Import X.Base.Num X.Base.Value X.Syn.Ast X.Syn.Tok X.Lex.Lexer X.Lex.LexProofs.
Require Import X.Parse.Parser X.Parse.Printer X.Parse.ParseProofs X.gen.GenGrammar X.Corr.CorrC11 X.Bridge.BrC11 X.Parse.Render.
Import ListNotations.
Open Scope list_scope.
Open Scope Z_scope.

(* ================================================================== Part A: the lexer *)

(* the fields no scanning primitive touches *)
Definition meta (l : lexer) : loc * list token * option loc := (l_startLoc l, l_tokens l, l_err l).

Lemma meta_adv : forall l, meta (adv l) = meta l.
Proof. intros l. unfold adv, Lexer.next, meta. destruct (l_rest l); reflexivity. Qed.

Lemma meta_pk : forall l, meta (pk l) = meta l.
Proof. intros l. unfold meta. destruct (pk_fields l) as (_ & _ & A & B & C). rewrite A, B, C. reflexivity. Qed.

Lemma meta_consume : forall w l, meta (consume w l) = meta l.
Proof. induction w as [|r w IH]; intros l; cbn [consume]; [reflexivity|]. rewrite IH. apply meta_adv. Qed.

Lemma snd_next : forall l, snd (Lexer.next l) = adv l.
Proof. reflexivity. Qed.

Lemma meta_skip_spaces : forall fuel l, meta (skip_spaces fuel l) = meta l.
Proof.
  induction fuel as [|f IH]; intros l; cbn [skip_spaces]; [reflexivity|].
  rewrite peek_eq. destruct (fst (Lexer.next l) =? 32).
  - rewrite snd_next, IH, meta_adv. apply meta_pk.
  - apply meta_pk.
Qed.

Lemma meta_expect_word : forall w l, meta (snd (expect_word w l)) = meta l.
Proof.
  induction w as [|c w IH]; intros l; cbn [expect_word]; [reflexivity|].
  destruct (Lexer.next l) as [r l1] eqn:N. assert (E : l1 = adv l) by (unfold adv; rewrite N; reflexivity).
  destruct (r =? c).
  - rewrite IH, E. apply meta_adv.
  - cbn [snd]. rewrite E. apply meta_adv.
Qed.

(* when acceptWord answers no, the position is restored and nothing else has changed *)
Lemma acceptWord_false : forall w l, fst (acceptWord w l) = false ->
  exists lX, snd (acceptWord w l) = restore l lX /\ meta lX = meta l.
Proof.
  intros w l H. unfold acceptWord in *.
  set (l1 := skip_spaces (S (List.length (l_rest l))) l) in *.
  assert (M1 : meta l1 = meta l) by apply meta_skip_spaces.
  pose proof (meta_expect_word w l1) as M2.
  destruct (expect_word w l1) as [ok l2]. cbn [snd] in M2. destruct ok.
  - rewrite peek_eq in *. destruct (negb (fst (Lexer.next l2) =? 32) && negb (fst (Lexer.next l2) =? eof)).
    + exists (pk l2). split; [reflexivity|]. rewrite meta_pk, M2. exact M1.
    + discriminate H.
  - exists l2. split; [reflexivity|]. rewrite M2. exact M1.
Qed.

Lemma Mid_restore : forall l lX tail w pos toks, Mid l tail w pos toks -> meta lX = meta l ->
  Mid (restore l lX) tail w pos toks.
Proof.
  intros l lX tail w pos toks [R W S E T L P] M. unfold meta in M. injection M as M1 M2 M3.
  unfold restore. constructor; cbn; try assumption; congruence.
Qed.

Lemma drop_spaces_split : forall l, exists sp,
  l = sp ++ drop_spaces l /\ forallb (fun c => c =? 32) sp = true /\
  hd_ok (fun c => negb (c =? 32)) (drop_spaces l).
Proof.
  induction l as [|c l IH].
  - exists []. repeat split.
  - cbn [drop_spaces]. destruct (c =? 32) eqn:E.
    + destruct IH as (sp & A & B & C). exists (c :: sp). split; [cbn [app]; rewrite <- A; reflexivity|].
      split; [cbn [forallb]; rewrite E, B; reflexivity|exact C].
    + exists []. split; [reflexivity|]. split; [reflexivity|]. cbn [hd_ok]. rewrite E. reflexivity.
Qed.

Lemma drop_spaces_app : forall sp t, forallb (fun c => c =? 32) sp = true ->
  hd_ok (fun c => negb (c =? 32)) t -> drop_spaces (sp ++ t) = t.
Proof.
  induction sp as [|c sp IH]; intros t H Ht.
  - cbn [app]. destruct t as [|c t]; [reflexivity|]. cbn [hd_ok] in Ht. apply negb_true_iff in Ht.
    cbn [drop_spaces]. rewrite Ht. reflexivity.
  - cbn [forallb] in H. apply andb_true_iff in H. destruct H as [Hc H]. cbn [app drop_spaces]. rewrite Hc. apply IH; assumption.
Qed.

Lemma skip_spaces_spec : forall sp fuel l t, l_rest l = sp ++ t -> forallb (fun c => c =? 32) sp = true ->
  hd_ok (fun c => negb (c =? 32)) t -> (List.length sp < fuel)%nat ->
  skip_spaces fuel l = pk (consume sp l).
Proof.
  induction sp as [|c sp IH]; intros fuel l t R Hsp Ht Hf.
  - destruct fuel as [|f]; [cbn in Hf; lia|]. cbn [skip_spaces consume]. cbn [app] in R.
    destruct t as [|c t].
    + rewrite (peek_nil _ R). reflexivity.
    + rewrite (peek_cons _ _ _ R). cbn [hd_ok] in Ht. apply negb_true_iff in Ht. rewrite Ht. reflexivity.
  - destruct fuel as [|f]; [cbn in Hf; lia|]. cbn [skip_spaces consume]. cbn [app] in R.
    cbn [forallb] in Hsp. apply andb_true_iff in Hsp. destruct Hsp as [Hc Hsp].
    rewrite (peek_cons _ _ _ R), Hc. rewrite snd_next. rewrite adv_pk by congruence.
    apply (IH f (adv l) t); auto.
    + rewrite (adv_cons _ _ _ R). reflexivity.
    + cbn in Hf. lia.
Qed.

Lemma consume_pk : forall w l, w <> [] -> l_rest l <> [] -> consume w (pk l) = consume w l.
Proof. intros [|r w] l Hw Hl; [congruence|]. cbn [consume]. rewrite adv_pk by exact Hl. reflexivity. Qed.

(* the answer of acceptWord("in") only depends on the text ahead *)
Lemma acceptWord_in_fst : forall l, fst (acceptWord in_runes l) = notin_accepts (l_rest l).
Proof.
  intros l. destruct (drop_spaces_split (l_rest l)) as (sp & A & B & C).
  unfold acceptWord, notin_accepts.
  rewrite (skip_spaces_spec sp _ l (drop_spaces (l_rest l)) A B C) by (pose proof (f_equal (@List.length Z) A) as LA; rewrite app_length in LA; lia).
  set (Y := consume sp l).
  assert (RY : l_rest Y = drop_spaces (l_rest l)) by (apply consume_rest; exact A).
  destruct (drop_spaces (l_rest l)) as [|c1 t1] eqn:D.
  - unfold in_runes. cbn [expect_word].
    rewrite (next_nil (pk Y)) by (rewrite pk_rest; exact RY). reflexivity.
  - unfold in_runes. cbn [expect_word]. rewrite next_pk by congruence. rewrite (LexProofs.next_cons _ _ _ RY).
    destruct (c1 =? 105); [|destruct t1; reflexivity].
    assert (RA : l_rest (adv Y) = t1) by (rewrite (adv_cons _ _ _ RY); reflexivity).
    destruct t1 as [|c2 t2].
    + rewrite (next_nil _ RA). reflexivity.
    + rewrite (LexProofs.next_cons _ _ _ RA). destruct (c2 =? 110); [|reflexivity].
      assert (RB : l_rest (adv (adv Y)) = t2) by (rewrite (adv_cons _ _ _ RA); reflexivity).
      cbn [andb]. destruct t2 as [|c t2].
      * rewrite (peek_nil _ RB). reflexivity.
      * rewrite (peek_cons _ _ _ RB). destruct (c =? 32), (c =? eof); reflexivity.
Qed.

Lemma acceptWord_in_ok : forall l sp t2, l_rest l = sp ++ in_runes ++ t2 ->
  forallb (fun c => c =? 32) sp = true -> hd_ok (fun c => c =? 32) t2 ->
  acceptWord in_runes l = (true, pk (consume (sp ++ in_runes) l)).
Proof.
  intros l sp t2 R Hsp Ht. unfold acceptWord.
  rewrite (skip_spaces_spec sp _ l (in_runes ++ t2) R Hsp) by (try reflexivity; rewrite R, app_length; lia).
  set (Y := consume sp l).
  assert (RY : l_rest Y = 105 :: 110 :: t2) by (apply consume_rest; exact R).
  unfold in_runes at 1. cbn [expect_word]. rewrite next_pk by congruence. rewrite (LexProofs.next_cons _ _ _ RY).
  change (105 =? 105) with true. cbv iota.
  assert (RA : l_rest (adv Y) = 110 :: t2) by (rewrite (adv_cons _ _ _ RY); reflexivity).
  rewrite (LexProofs.next_cons _ _ _ RA). change (110 =? 110) with true. cbv iota.
  assert (RB : l_rest (adv (adv Y)) = t2) by (rewrite (adv_cons _ _ _ RA); reflexivity).
  rewrite consume_app. fold Y. unfold in_runes. cbn [consume].
  destruct t2 as [|c t2].
  - rewrite (peek_nil _ RB). reflexivity.
  - rewrite (peek_cons _ _ _ RB). cbn [hd_ok] in Ht. rewrite Ht. reflexivity.
Qed.

Section TextLex.
  Variables uni_letter uni_digit uni_space : Z -> bool.
  Notation is_alnum := (is_alnum uni_letter uni_digit).
  Notation step := (step uni_letter uni_digit uni_space).
  Notation lex_fuel := (lex_fuel uni_letter uni_digit uni_space).
  Notation lex := (lex uni_letter uni_digit uni_space).
  Notation token_done := (token_done uni_letter uni_digit uni_space).
  Notation xtok_ok := (xtok_ok uni_letter uni_digit uni_space).
  Notation xfollow_ok := (xfollow_ok uni_letter uni_digit).
  Notation layoutx_ok := (layoutx_ok uni_letter uni_digit uni_space).

  Lemma not_alnum : Forall (fun c => is_alnum c = true) not_runes.
  Proof. repeat constructor. Qed.

  (* root -> identifier -> not, on the word `not` followed by a rune that is not alphanumeric *)
  Lemma steps_to_not : forall l tail pos lastp toks,
    Between l (not_runes ++ tail) pos lastp toks -> hd_ok (fun c => negb (is_alnum c)) tail ->
    step SRoot l = (Some SIdentifier, pk l) /\
    step SIdentifier (pk l) = (Some SNot, pk (consume not_runes l)) /\
    Mid (pk (consume not_runes l)) tail not_runes pos toks.
  Proof.
    intros l tail pos lastp toks B Ht. pose proof (b_rest _ _ _ _ _ B) as R.
    pose proof (Mid_consume _ _ _ _ _ _ B ltac:(discriminate)) as M. apply Mid_pk in M.
    split; [|split; [|exact M]].
    - apply (root_ident uni_letter uni_digit uni_space l 110 _ R); reflexivity.
    - unfold Lexer.step. rewrite pk_rest.
      rewrite run_while_pk by (try reflexivity; lia).
      rewrite (run_while_spec is_alnum not_runes _ l tail); auto.
      + replace (word (pk (consume not_runes l))) with not_runes; [reflexivity|].
        unfold word. rewrite (m_word _ _ _ _ _ M), rev_involutive. reflexivity.
      + apply not_alnum.
      + rewrite R, app_length. lia.
  Qed.

  Lemma tok_not : forall l tail pos lastp toks,
    Between l (not_runes ++ tail) pos lastp toks -> xfollow_ok XNot tail = true ->
    token_done l not_runes tail pos toks TkOperator "not".
  Proof.
    intros l tail pos lastp toks B Hf. cbn [Render.xfollow_ok] in Hf.
    apply andb_true_iff in Hf. destruct Hf as [Hf Hn]. apply hd_okb_ok in Hf. apply negb_true_iff in Hn.
    destruct (steps_to_not l tail pos lastp toks B Hf) as (S1 & S2 & M).
    set (l1 := pk (consume not_runes l)) in *.
    assert (A : fst (acceptWord in_runes l1) = false).
    { rewrite acceptWord_in_fst, (m_rest _ _ _ _ _ M). exact Hn. }
    destruct (acceptWord_false _ _ A) as (lX & E & MX).
    eapply (three_step_done uni_letter uni_digit uni_space l SIdentifier (pk l) SNot l1); [cbn; lia|exact S1|exact S2| |].
    - unfold Lexer.step. change (rs "in") with in_runes.
      destruct (acceptWord in_runes l1) as [ok l2]. cbn [fst snd] in A, E. subst ok l2. reflexivity.
    - apply Between_emitValue. apply Mid_restore; assumption.
  Qed.

  Lemma tok_notin : forall l sp tail pos lastp toks,
    Between l ((not_runes ++ sp ++ in_runes) ++ tail) pos lastp toks ->
    xtok_ok (XNotIn sp) = true -> xfollow_ok (XNotIn sp) tail = true ->
    token_done l (not_runes ++ sp ++ in_runes) tail pos toks TkOperator "not in".
  Proof.
    intros l sp tail pos lastp toks B Hok Hf. cbn [Render.xtok_ok Render.xfollow_ok] in Hok, Hf.
    apply andb_true_iff in Hok. destruct Hok as [Hsp Hne]. apply hd_okb_ok in Hf.
    assert (Hsp0 : sp <> []) by (destruct sp; [discriminate|discriminate]).
    pose proof (b_rest _ _ _ _ _ B) as R.
    assert (B' : Between l (not_runes ++ (sp ++ in_runes ++ tail)) pos lastp toks).
    { rewrite <- !app_assoc in B. exact B. }
    destruct (steps_to_not l _ pos lastp toks B') as (S1 & S2 & M1).
    { destruct sp as [|c sp]; [congruence|]. cbn [app hd_ok]. cbn [forallb] in Hsp. apply andb_true_iff in Hsp.
      destruct Hsp as [Hc _]. apply Z.eqb_eq in Hc. subst c. reflexivity. }
    set (X := consume not_runes l) in *.
    assert (RX : l_rest X = sp ++ in_runes ++ tail) by (rewrite <- (pk_rest X); apply (m_rest _ _ _ _ _ M1)).
    assert (A : acceptWord in_runes (pk X) = (true, pk (consume (not_runes ++ sp ++ in_runes) l))).
    { rewrite (acceptWord_in_ok (pk X) sp tail); [|rewrite pk_rest; exact RX|exact Hsp|exact Hf].
      rewrite consume_pk; [|destruct sp; [congruence|discriminate]|rewrite RX; destruct sp; [congruence|discriminate]].
      unfold X. rewrite <- consume_app. reflexivity. }
    eapply (three_step_done uni_letter uni_digit uni_space l SIdentifier (pk l) SNot (pk X));
      [rewrite !app_length; cbn; lia|exact S1|exact S2| |].
    - unfold Lexer.step. change (rs "in") with in_runes. rewrite A. reflexivity.
    - apply Between_emitValue. apply Mid_pk. eapply Mid_consume; [exact B|].
      unfold not_runes. cbn [app]. discriminate.
  Qed.

  Lemma xtok_any : forall l x tail pos lastp toks,
    Between l (xtok_runes x ++ tail) pos lastp toks -> xtok_ok x = true -> xfollow_ok x tail = true ->
    token_done l (xtok_runes x) tail pos toks (xtok_kind x) (xtok_value x).
  Proof.
    intros l [t| |sp] tail pos lastp toks B Hok Hf; cbn [xtok_runes xtok_kind xtok_value] in *.
    - apply (tok_any uni_letter uni_digit uni_space l t tail pos lastp toks B Hok Hf).
    - eapply tok_not; eauto.
    - eapply tok_notin; eauto.
  Qed.

  Lemma xtok_runes_nonempty : forall x, xtok_runes x <> [].
  Proof. intros [t| |sp]; cbn [xtok_runes]; [apply tok_runes_nonempty|discriminate|discriminate]. Qed.

  Lemma lex_layoutx : forall items trail l pos lastp toks fuel,
    layoutx_ok items trail = true -> Between l (layoutx items trail) pos lastp toks ->
    (2 * List.length (layoutx items trail) + 1 <= fuel)%nat ->
    exists l', lex_fuel fuel SRoot l = Some l' /\ l_err l' = None /\
      l_tokens l' = mkTok (lastpos pos lastp (layoutx items trail)) TkEOF EmptyString :: rev (expectedx pos items) ++ toks.
  Proof.
    induction items as [|[ws x] items IH]; intros trail l pos lastp toks fuel Hok B Hf.
    - cbn [layoutx Render.layoutx_ok expectedx] in *.
      rewrite <- (app_nil_r trail) in B.
      destruct (skip_ws uni_letter uni_digit uni_space trail l [] pos lastp toks Hok B) as (l1 & F & B1).
      destruct (step_eof uni_letter uni_digit uni_space l1 _ _ _ B1) as (l' & St & E & T).
      exists l'. split; [|split; [exact E|]].
      + replace fuel with (List.length trail + S (fuel - List.length trail - 1))%nat by lia.
        rewrite F. cbn [Lexer.lex_fuel]. rewrite St. reflexivity.
      + rewrite T. reflexivity.
    - cbn [layoutx Render.layoutx_ok expectedx] in *.
      apply andb_true_iff in Hok. destruct Hok as [Hok Hrest].
      apply andb_true_iff in Hok. destruct Hok as [Hok Hfol].
      apply andb_true_iff in Hok. destruct Hok as [Hws Hx].
      destruct (skip_ws uni_letter uni_digit uni_space ws l _ pos lastp toks Hws B) as (l1 & F1 & B1).
      destruct (xtok_any l1 x _ _ _ toks B1 Hx Hfol) as (n & l2 & Hn & Hn2 & F2 & B2).
      rewrite !app_length in Hf.
      destruct (IH trail l2 _ _ _ (fuel - List.length ws - n)%nat Hrest B2) as (l' & L & E & T); [lia|].
      exists l'. split; [|split; [exact E|]].
      + replace fuel with (List.length ws + (n + (fuel - List.length ws - n)))%nat by lia.
        rewrite F1, F2. exact L.
      + rewrite T. cbn [rev]. rewrite <- app_assoc. cbn [app].
        rewrite !lastpos_app. f_equal. f_equal.
        pose proof (xtok_runes_nonempty x). unfold lastpos at 2. destruct (xtok_runes x); [congruence|reflexivity].
  Qed.

  (* every layout of spellable tokens, `not` and `not in` included, lexes to those tokens, with positions *)
  Theorem lex_text : forall items trail, layoutx_ok items trail = true ->
    lex (layoutx items trail) =
    LexOk (expectedx (1, 0) items ++ [mkTok (lastpos (1, 0) (1, 0) (layoutx items trail)) TkEOF EmptyString]).
  Proof.
    intros items trail Hok. unfold Lexer.lex.
    destruct (lex_layoutx items trail (init (layoutx items trail)) (1, 0) (1, 0) [] (2 * List.length (layoutx items trail) + 2) Hok)
      as (l' & L & E & T).
    - constructor; cbn; auto.
    - lia.
    - rewrite L, E, T. cbn [rev]. rewrite app_nil_r, rev_involutive. reflexivity.
  Qed.
End TextLex.

(* ================================================================== Part B: the parser ignores token positions
   Relabelling the positions of the tokens by any function phi (with phi noloc = noloc) relabels the node
   locations of the result, and the error location, by phi — and changes nothing else. *)
Section Reloc.
  Variable phi : loc -> loc.
  Hypothesis Hphi : phi noloc = noloc.
  Notation rl := (map (reloc phi)).

  Definition mp {A B : Type} (f : A -> B) (r : pres A) : pres B :=
    match r with POk a ts => POk (f a) (rl ts) | PErr l => PErr (phi l) | PFuel => PFuel end.

  Definition map_flag (xb : expr * bool) : expr * bool := (map_loc phi (fst xb), snd xb).

  Lemma cur_reloc : forall ts, cur (rl ts) = reloc phi (cur ts).
  Proof. destruct ts; [|reflexivity]. cbn. unfold eof_tok, reloc. cbn. rewrite Hphi. reflexivity. Qed.
  Lemma tok_is_reloc : forall t k vs, tok_is (reloc phi t) k vs = tok_is t k vs.
  Proof. intros t k [|v vs]; reflexivity. Qed.
  Lemma is_kind_reloc : forall t k, is_kind (reloc phi t) k = is_kind t k.
  Proof. reflexivity. Qed.
  Lemma val_is_reloc : forall t v, val_is (reloc phi t) v = val_is t v.
  Proof. reflexivity. Qed.
  Lemma tval_reloc : forall t, tval (reloc phi t) = tval t.
  Proof. reflexivity. Qed.
  Lemma tkind_reloc : forall t, tkind_of (reloc phi t) = tkind_of t.
  Proof. reflexivity. Qed.
  Lemma tloc_reloc : forall t, tloc (reloc phi t) = phi (tloc t).
  Proof. reflexivity. Qed.

  Lemma map_loc_cond : forall c x y,
    ECond ann0 (map_loc phi c) (map_loc phi x) (map_loc phi y) = map_loc phi (ECond ann0 c x y).
  Proof. intros. cbn [map_loc]. unfold map_ann_loc, ann0. cbn [aloc akind]. rewrite Hphi. reflexivity. Qed.

  Lemma next_reloc {A B : Type} (f : A -> B) (ts : list token) (k : list token -> pres A) (k' : list token -> pres B) :
    (forall r, k' (rl r) = mp f (k r)) -> Parser.next (rl ts) k' = mp f (Parser.next ts k).
  Proof.
    intros H. destruct ts as [|t [|t2 r]]; cbn [map Parser.next mp].
    - rewrite Hphi. reflexivity.
    - reflexivity.
    - apply (H (t2 :: r)).
  Qed.

  Lemma expect_reloc {A B : Type} (f : A -> B) kd v (ts : list token) (k : list token -> pres A) (k' : list token -> pres B) :
    (forall r, k' (rl r) = mp f (k r)) -> expect kd v (rl ts) k' = mp f (expect kd v ts k).
  Proof.
    intros H. unfold expect. rewrite cur_reloc, tok_is_reloc. destruct (tok_is (cur ts) kd [v]).
    - apply next_reloc. exact H.
    - reflexivity.
  Qed.

  Lemma pbind_reloc {A A' B B' : Type} (f : A -> A') (h : B -> B') (r : pres A) (r' : pres A')
      (k : A -> list token -> pres B) (k' : A' -> list token -> pres B') :
    r' = mp f r -> (forall a ts, k' (f a) (rl ts) = mp h (k a ts)) -> pbind r' k' = mp h (pbind r k).
  Proof. intros -> H. destruct r; cbn; [apply H|reflexivity|reflexivity]. Qed.

  Section Param.
    Variable g : grammar.
    Variable o : oracles.
    Variables pe pe' : Z -> nat -> list token -> pres expr.
    Variable LF : nat.
    Hypothesis HPE : forall p d ts, pe' p d (rl ts) = mp (map_loc phi) (pe p d ts).

    Ltac norm :=
      cbv beta zeta;
      rewrite ?cur_reloc, ?tok_is_reloc, ?is_kind_reloc, ?val_is_reloc, ?tval_reloc, ?tkind_reloc, ?tloc_reloc;
      cbn [map_loc map_flag fst snd].

    (* one structural step; the leaves (recursive calls) are closed by the tactic given as argument *)
    Ltac par leaf :=
      norm;
      lazymatch goal with
      | |- _ = mp _ (POk _ _) => reflexivity
      | |- _ = mp _ (PErr _) => reflexivity
      | |- _ = mp _ PFuel => reflexivity
      | |- _ = mp _ (Parser.next _ _) => apply next_reloc; intros ?
      | |- _ = mp _ (expect _ _ _ _) => apply expect_reloc; intros ?
      | |- _ = mp _ (pbind (pe _ _ _) _) => eapply pbind_reloc; [apply HPE|]; intros ? ?
      | |- _ = mp _ (if ?c then _ else _) => destruct c
      | |- _ = mp _ (match ?c with _ => _ end) => destruct c
      | |- _ => leaf
      end.

    Lemma args_loop_reloc : forall lf d acc ts,
      args_loop pe' lf d (map (map_loc phi) acc) (rl ts) = mp (map (map_loc phi)) (args_loop pe lf d acc ts).
    Proof.
      induction lf as [|lf IH]; intros d acc ts; cbn [args_loop]; norm;
        destruct (tok_is (cur ts) TkBracket [")"%string]); try reflexivity.
      assert (K : forall ts1,
        pbind (pe' 0 d (rl ts1)) (fun node ts2 => args_loop pe' lf d (map (map_loc phi) acc ++ [node]) ts2) =
        mp (map (map_loc phi)) (pbind (pe 0 d ts1) (fun node ts2 => args_loop pe lf d (acc ++ [node]) ts2))).
      { intros ts1. eapply pbind_reloc; [apply HPE|]. intros a ts2. cbv beta.
        change [map_loc phi a] with (map (map_loc phi) [a]). rewrite <- map_app. apply IH. }
      destruct acc as [|x acc']; [apply K|]. cbn [map]. apply expect_reloc. intros ts1. apply K.
    Qed.

    Lemma parse_arguments_reloc : forall d ts,
      parse_arguments pe' LF d (rl ts) = mp (map (map_loc phi)) (parse_arguments pe LF d ts).
    Proof.
      intros d ts. unfold parse_arguments. apply expect_reloc. intros ts1.
      eapply pbind_reloc; [apply (args_loop_reloc LF d [] ts1)|]. intros args ts2. cbv beta.
      apply expect_reloc. intros ts3. reflexivity.
    Qed.

    Lemma postfix_loop_reloc : forall lf d ns node ts,
      postfix_loop pe' LF lf d ns (map_loc phi node) (rl ts) = mp (map_loc phi) (postfix_loop pe LF lf d ns node ts).
    Proof.
      induction lf as [|lf IH]; intros d ns node ts; cbn [postfix_loop].
      - repeat par idtac.
      - repeat par ltac:(first
          [ eapply pbind_reloc; [apply parse_arguments_reloc|]; intros ? ?
          | lazymatch goal with |- _ = mp _ (postfix_loop pe LF lf ?d ?ns ?x ?t) => exact (IH d ns x t) end ]).
    Qed.

    Lemma parse_closure_reloc : forall d ts,
      parse_closure pe' d (rl ts) = mp (map_loc phi) (parse_closure pe d ts).
    Proof. intros d ts. unfold parse_closure. repeat par idtac. Qed.

    Lemma array_loop_reloc : forall lf d acc ts,
      array_loop pe' lf d (map (map_loc phi) acc) (rl ts) = mp (map (map_loc phi)) (array_loop pe lf d acc ts).
    Proof.
      induction lf as [|lf IH]; intros d acc ts; cbn [array_loop]; norm;
        destruct (tok_is (cur ts) TkBracket ["]"%string]); try reflexivity.
      assert (K : forall ts1,
        pbind (pe' 0 d (rl ts1)) (fun node ts2 => array_loop pe' lf d (map (map_loc phi) acc ++ [node]) ts2) =
        mp (map (map_loc phi)) (pbind (pe 0 d ts1) (fun node ts2 => array_loop pe lf d (acc ++ [node]) ts2))).
      { intros ts1. eapply pbind_reloc; [apply HPE|]. intros a ts2. cbv beta.
        change [map_loc phi a] with (map (map_loc phi) [a]). rewrite <- map_app. apply IH. }
      destruct acc as [|x acc']; [apply K|]. cbn [map]. apply expect_reloc. intros ts1. norm.
      destruct (tok_is (cur ts1) TkBracket ["]"%string]); [reflexivity|apply K].
    Qed.

    Lemma parse_array_reloc : forall tk d ts,
      parse_array pe' LF (reloc phi tk) d (rl ts) = mp (map_loc phi) (parse_array pe LF tk d ts).
    Proof.
      intros tk d ts. unfold parse_array. apply expect_reloc. intros ts1.
      eapply pbind_reloc; [apply (array_loop_reloc LF d [] ts1)|]. intros nodes ts2. cbv beta.
      apply expect_reloc. intros ts3. reflexivity.
    Qed.

    Lemma map_loop_reloc : forall lf mloc d acc ts,
      map_loop pe' lf (phi mloc) d (map (map_loc phi) acc) (rl ts) = mp (map (map_loc phi)) (map_loop pe lf mloc d acc ts).
    Proof.
      induction lf as [|lf IH]; intros mloc d acc ts; cbn [map_loop]; norm;
        destruct (tok_is (cur ts) TkBracket ["}"%string]); try reflexivity.
      destruct acc as [|x acc']; cbn [map];
        repeat par ltac:(idtac; lazymatch goal with
          |- _ = mp _ (map_loop pe lf ?m ?d ?a ?t) =>
            etransitivity; [|exact (IH m d a t)]; rewrite ?map_app; reflexivity end).
    Qed.

    Lemma parse_map_reloc : forall tk d ts,
      parse_map pe' LF (reloc phi tk) d (rl ts) = mp (map_loc phi) (parse_map pe LF tk d ts).
    Proof.
      intros tk d ts. unfold parse_map. apply expect_reloc. intros ts1.
      eapply pbind_reloc; [apply (map_loop_reloc LF (tloc tk) d [] ts1)|]. intros pairs ts2. cbv beta.
      apply expect_reloc. intros ts3. reflexivity.
    Qed.

    Lemma parse_identifier_expression_reloc : forall tk d ts,
      parse_identifier_expression g pe' LF (reloc phi tk) d (rl ts) =
      mp (map_loc phi) (parse_identifier_expression g pe LF tk d ts).
    Proof.
      intros tk d ts. unfold parse_identifier_expression.
      repeat par ltac:(first
        [ eapply pbind_reloc; [apply parse_arguments_reloc|]; intros ? ?
        | eapply pbind_reloc; [apply parse_closure_reloc|]; intros ? ? ]).
    Qed.

    Lemma parse_primary_expression_reloc : forall d ts,
      parse_primary_expression g o pe' LF d (rl ts) = mp map_flag (parse_primary_expression g o pe LF d ts).
    Proof.
      intros d ts. unfold parse_primary_expression.
      repeat par ltac:(first
        [ eapply pbind_reloc; [apply parse_identifier_expression_reloc|]; intros ? ?
        | eapply pbind_reloc; [apply parse_array_reloc|]; intros ? ?
        | eapply pbind_reloc; [apply parse_map_reloc|]; intros ? ? ]).
    Qed.

    Lemma parse_base_reloc : forall d ts,
      parse_base g o pe' LF d (rl ts) = mp map_flag (parse_base g o pe LF d ts).
    Proof.
      intros d ts. unfold parse_base.
      repeat par ltac:(apply parse_primary_expression_reloc).
    Qed.

    Lemma parse_primary_reloc : forall d ts,
      parse_primary g o pe' LF d (rl ts) = mp (map_loc phi) (parse_primary g o pe LF d ts).
    Proof.
      intros d ts. unfold parse_primary.
      eapply pbind_reloc; [apply parse_base_reloc|]. intros [x b] ts1. cbn [map_flag fst snd].
      destruct b; [apply postfix_loop_reloc|reflexivity].
    Qed.

    Lemma binary_loop_reloc : forall lf prec d left ts,
      binary_loop g o pe' lf prec d (map_loc phi left) (rl ts) = mp (map_loc phi) (binary_loop g o pe lf prec d left ts).
    Proof.
      induction lf as [|lf IH]; intros prec d left ts; cbn [binary_loop].
      - repeat par idtac.
      - repeat par ltac:(idtac; lazymatch goal with
          |- _ = mp _ (binary_loop g o pe lf ?p ?d ?x ?t) => exact (IH p d x t) end).
    Qed.

    Lemma cond_loop_reloc : forall lf d node ts,
      cond_loop pe' lf d (map_loc phi node) (rl ts) = mp (map_loc phi) (cond_loop pe lf d node ts).
    Proof.
      induction lf as [|lf IH]; intros d node ts; cbn [cond_loop].
      - repeat par idtac.
      - repeat par ltac:(idtac; lazymatch goal with
          |- _ = mp _ (cond_loop pe lf ?d ?x ?t) => rewrite map_loc_cond; exact (IH d x t) end).
    Qed.

    Lemma expression_body_reloc : forall prec d ts,
      expression_body g o pe' LF prec d (rl ts) = mp (map_loc phi) (expression_body g o pe LF prec d ts).
    Proof.
      intros prec d ts. unfold expression_body.
      eapply pbind_reloc; [apply parse_primary_reloc|]. intros left ts1. cbv beta.
      eapply pbind_reloc; [apply binary_loop_reloc|]. intros node ts2. cbv beta.
      destruct (prec =? 0); [apply cond_loop_reloc|reflexivity].
    Qed.
  End Param.

  Lemma parse_expr_reloc (g : grammar) (o : oracles) : forall n p d ts,
    parse_expr g o n p d (rl ts) = mp (map_loc phi) (parse_expr g o n p d ts).
  Proof.
    induction n as [|n IH]; intros p d ts; cbn [parse_expr]; [reflexivity|].
    apply expression_body_reloc. exact IH.
  Qed.

  Theorem parse_reloc (g : grammar) (o : oracles) : forall ts,
    parse g o (rl ts) = map_result phi (parse g o ts).
  Proof.
    intros ts. unfold parse. rewrite map_length. unfold parse_with_fuel.
    destruct ts as [|t r]; [cbn [map map_result]; rewrite Hphi; reflexivity|].
    change (rl (t :: r)) with (reloc phi t :: rl r) at 1. cbv iota.
    change (reloc phi t :: rl r) with (rl (t :: r)).
    rewrite parse_expr_reloc. destruct (parse_expr g o (S (List.length (t :: r))) 0 0 (t :: r)) as [e rest| |]; cbn [mp]; try reflexivity.
    rewrite cur_reloc, is_kind_reloc. destruct (is_kind (cur rest) TkEOF); reflexivity.
  Qed.
End Reloc.

(* parsing a token list without its positions = parsing it and forgetting the locations afterwards
   (in particular: the same outcome class, and the same tree up to locations) *)
Theorem parse_strip (g : grammar) (o : oracles) : forall ts,
  parse g o (strip ts) = erase_result (parse g o ts).
Proof. intros ts. exact (parse_reloc (fun _ => noloc) eq_refl g o ts). Qed.

(* ---- index labels: two token lists with the same kinds and values are relabellings of ONE list, so their
   parses are relabellings of ONE tree: every node location comes from the token at the same index *)
Lemma index_same : forall ts1 ts2 i, strip ts1 = strip ts2 -> index_from i ts1 = index_from i ts2.
Proof.
  induction ts1 as [|t1 r1 IH]; intros [|t2 r2] i H; try discriminate H; [reflexivity|].
  cbn [strip map] in H. injection H as K V H. cbn [index_from]. rewrite K, V. f_equal. apply IH. exact H.
Qed.

Lemma nth_error_mid : forall (A : Type) (pre : list A) (t : A) (r : list A),
  nth_error (pre ++ t :: r) (List.length pre) = Some t.
Proof. induction pre as [|x pre IH]; intros t r; [reflexivity|]. cbn [app List.length nth_error]. apply IH. Qed.

Lemma reloc_index : forall r pre, map (reloc (nth_loc (pre ++ r))) (index_from (List.length pre) r) = r.
Proof.
  induction r as [|t r IH]; intros pre; [reflexivity|]. cbn [index_from map]. f_equal.
  - unfold reloc, nth_loc. cbn [tloc tkind_of tval fst snd]. change (0 =? 0) with true.
    replace (1 <=? Z.of_nat (S (List.length pre))) with true by (symmetry; apply Z.leb_le; lia).
    cbn [andb]. replace (Z.to_nat (Z.of_nat (S (List.length pre)) - 1)) with (List.length pre) by lia.
    rewrite nth_error_mid. destruct t; reflexivity.
  - specialize (IH (pre ++ [t])). rewrite <- app_assoc in IH. cbn [app] in IH.
    rewrite app_length in IH. cbn [List.length] in IH. rewrite Nat.add_1_r in IH. exact IH.
Qed.

Theorem parse_index (g : grammar) (o : oracles) : forall ts,
  parse g o ts = map_result (nth_loc ts) (parse g o (index_from 0 ts)).
Proof.
  intros ts. rewrite <- (parse_reloc (nth_loc ts) eq_refl g o). f_equal. symmetry. apply (reloc_index ts []).
Qed.

(* provenance of locations *)
Theorem parse_provenance (g : grammar) (o : oracles) : forall ts1 ts2, strip ts1 = strip ts2 ->
  exists R, parse g o ts1 = map_result (nth_loc ts1) R /\ parse g o ts2 = map_result (nth_loc ts2) R.
Proof.
  intros ts1 ts2 H. exists (parse g o (index_from 0 ts1)). split; [apply parse_index|].
  rewrite (index_same ts1 ts2 0 H). apply parse_index.
Qed.

Lemma nth_error_map' : forall (A B : Type) (f : A -> B) (l : list A) (n : nat),
  nth_error (map f l) n = option_map f (nth_error l n).
Proof. induction l as [|x l IH]; intros [|n]; cbn; auto. Qed.

Lemma pchild_map_loc : forall phi e i, pchild (map_loc phi e) i = option_map (map_loc phi) (pchild e i).
Proof.
  intros phi e i. destruct e; cbn [map_loc pchild]; try reflexivity;
    try (destruct i as [|[|[|i]]]; reflexivity);
    try (destruct i as [|i]; [reflexivity|]); try apply nth_error_map'.
Qed.

Lemma node_at_map_loc : forall phi p e, node_at (map_loc phi e) p = option_map (map_loc phi) (node_at e p).
Proof.
  intros phi. induction p as [|i p IH]; intros e; [reflexivity|]. cbn [node_at]. rewrite pchild_map_loc.
  destruct (pchild e i) as [x|]; [apply IH|reflexivity].
Qed.

Lemma loc_of_map_loc : forall phi e, loc_of (map_loc phi e) = phi (loc_of e).
Proof. intros phi e. destruct e; reflexivity. Qed.

Lemma loc_eqb_refl : forall x, loc_eqb x x = true.
Proof. intros [a b]. unfold loc_eqb. cbn. rewrite !Z.eqb_refl. reflexivity. Qed.

(* with pairwise distinct labels, `loc_at` finds the position standing at the index of THE token labelled l *)
Lemma loc_at_nth : forall ts ps i tk p, distinct_locs ts = true ->
  nth_error ts i = Some tk -> tloc tk <> noloc -> nth_error ps i = Some p -> loc_at ts ps (tloc tk) = p.
Proof.
  induction ts as [|t0 r IH]; intros ps i tk p D N L P; [destruct i; discriminate N|].
  cbn [distinct_locs] in D. apply andb_true_iff in D. destruct D as [D0 D].
  destruct ps as [|p0 q]; [destruct i; discriminate P|]. cbn [loc_at].
  destruct i as [|i].
  - cbn in N, P. injection N as <-. injection P as <-. rewrite loc_eqb_refl. reflexivity.
  - cbn [nth_error] in N, P. destruct (loc_eqb (tloc t0) (tloc tk)) eqn:E; [|apply (IH q i tk p D N L P)].
    exfalso. apply loc_eqb_eq in E. apply orb_true_iff in D0. destruct D0 as [D0|D0].
    + apply loc_eqb_eq in D0. congruence.
    + apply negb_true_iff in D0. assert (X : existsb (fun u => loc_eqb (tloc u) (tloc t0)) r = true); [|congruence].
      apply existsb_exists. exists tk. split; [eapply nth_error_In; exact N|]. rewrite E. apply loc_eqb_refl.
Qed.

Lemma nth_loc_inv : forall ts l, nth_loc ts l <> noloc ->
  exists i tk, nth_error ts i = Some tk /\ nth_loc ts l = tloc tk /\ l = (Z.of_nat (S i), 0).
Proof.
  intros ts [a b] H. unfold nth_loc in *. cbn [fst snd] in *.
  destruct ((b =? 0) && (1 <=? a)) eqn:C; [|congruence].
  apply andb_true_iff in C. destruct C as [C1 C2]. apply Z.eqb_eq in C1. apply Z.leb_le in C2.
  destruct (nth_error ts (Z.to_nat (a - 1))) as [tk|] eqn:N; [|congruence].
  exists (Z.to_nat (a - 1)), tk. repeat split; try assumption. f_equal; lia.
Qed.

Lemma nth_loc_index : forall ts i tk, nth_error ts i = Some tk -> nth_loc ts (Z.of_nat (S i), 0) = tloc tk.
Proof.
  intros ts i tk N. unfold nth_loc. cbn [fst snd]. change (0 =? 0) with true.
  replace (1 <=? Z.of_nat (S i)) with true by (symmetry; apply Z.leb_le; lia). cbn [andb].
  replace (Z.to_nat (Z.of_nat (S i) - 1)) with i by lia. rewrite N. reflexivity.
Qed.

Lemma strip_nth : forall ts1 ts2 i tk, strip ts1 = strip ts2 -> nth_error ts1 i = Some tk ->
  exists tk', nth_error ts2 i = Some tk'.
Proof.
  induction ts1 as [|t1 r1 IH]; intros [|t2 r2] i tk H N; try discriminate H; [destruct i; discriminate N|].
  destruct i as [|i]; [exists t2; reflexivity|]. cbn [strip map] in H. injection H as _ _ H.
  apply (IH r2 i tk H N).
Qed.

(* Two token lists with the same kinds and values, the first with pairwise distinct labels: every labelled node
   of the first parse stands, in the second parse, at the location of the token at the index of its label *)
Theorem parse_locations (g : grammar) (o : oracles) : forall ts1 ts2 t1 t2,
  strip ts1 = strip ts2 -> distinct_locs ts1 = true ->
  parse g o ts1 = ROk t1 -> parse g o ts2 = ROk t2 ->
  forall path x, node_at t1 path = Some x -> loc_of x <> noloc ->
  exists x', node_at t2 path = Some x' /\ loc_of x' = loc_at ts1 (map tloc ts2) (loc_of x).
Proof.
  intros ts1 ts2 t1 t2 HS HD P1 P2 path x N L.
  destruct (parse_provenance g o ts1 ts2 HS) as (R & E1 & E2). rewrite P1 in E1. rewrite P2 in E2.
  destruct R as [T| |]; try discriminate E1. cbn [map_result] in E1, E2. injection E1 as E1. injection E2 as E2. subst t1 t2.
  rewrite node_at_map_loc in N. destruct (node_at T path) as [X|] eqn:NT; [|discriminate N]. cbn [option_map] in N.
  injection N as <-. rewrite loc_of_map_loc in L |- *.
  destruct (nth_loc_inv ts1 (loc_of X) L) as (i & tk & N1 & E & EL).
  destruct (strip_nth ts1 ts2 i tk HS N1) as (tk' & N2).
  exists (map_loc (nth_loc ts2) X). rewrite node_at_map_loc, NT. split; [reflexivity|].
  rewrite loc_of_map_loc, E. rewrite E in L. rewrite EL, (nth_loc_index ts2 i tk' N2).
  symmetry. apply (loc_at_nth ts1 (map tloc ts2) i tk (tloc tk') HD N1 L).
  rewrite nth_error_map', N2. reflexivity.
Qed.

(* ================================================================== Part C: text -> tokens -> tree *)
Definition xtoken (x : xtok) : token := mkTok noloc (xtok_kind x) (xtok_value x).

Lemma strip_expectedx : forall items pos, strip (expectedx pos items) = map (fun it => xtoken (snd it)) items.
Proof.
  induction items as [|[ws x] items IH]; intros pos; [reflexivity|].
  cbn [expectedx strip map snd]. f_equal. apply IH.
Qed.

Lemma tkind_eqb_eq : forall a b, tkind_eqb a b = true -> a = b.
Proof. intros [] []; cbn; intros H; try reflexivity; discriminate H. Qed.

Section Text.
  Variables uni_letter uni_digit uni_space : Z -> bool.
  Notation xtok_ok := (xtok_ok uni_letter uni_digit uni_space).
  Notation check := (check uni_letter uni_digit uni_space).
  Notation pre_spell := (pre_spell uni_letter uni_digit uni_space).
  Notation pre_spell_all := (pre_spell_all uni_letter uni_digit uni_space).
  Notation lexable := (lexable uni_letter uni_digit uni_space).
  Notation render := (render uni_letter uni_digit uni_space).
  Notation layout_good := (layout_good uni_letter uni_digit uni_space).
  Notation parse_text := (parse_text uni_letter uni_digit uni_space).

  Lemma pre_spell_check : forall t p, pre_spell t = Some p -> check t p = true.
  Proof.
    intros t p H. unfold Render.pre_spell in H.
    destruct (utf8_decode (tval t)) as [rs|]; [|discriminate].
    destruct (candidate t rs) as [p'|]; [|discriminate].
    destruct (check t p') eqn:C; [|discriminate]. injection H as <-. exact C.
  Qed.

  (* the spelling chosen for a token denotes that token, whatever the layout chooses *)
  Lemma pre_spell_sound : forall t p L i, pre_spell t = Some p -> xtoken (finish L i p) = strip_tok t.
  Proof.
    intros t p L i H. apply pre_spell_check in H. destruct p as [x|rs|]; cbn [Render.check finish] in *.
    - apply andb_true_iff in H. destruct H as [H V]. apply andb_true_iff in H. destruct H as [_ K].
      apply tkind_eqb_eq in K. apply String.eqb_eq in V. unfold xtoken, strip_tok. rewrite K, V. reflexivity.
    - apply andb_true_iff in H. destruct H as [H K]. apply andb_true_iff in H. destruct H as [S V].
      apply tkind_eqb_eq in K. apply String.eqb_eq in V.
      set (q := if dquote L i then 34 else 39).
      assert (Hq : q = 34 \/ q = 39) by (unfold q; destruct (dquote L i); auto).
      destruct (canon_items_ok q rs Hq S) as [_ B].
      unfold xtoken, strip_tok. cbn [xtok_kind xtok_value tok_kind tok_value]. rewrite B, V, K. reflexivity.
    - apply andb_true_iff in H. destruct H as [K V]. apply tkind_eqb_eq in K. apply String.eqb_eq in V.
      unfold xtoken, strip_tok. cbn [xtok_kind xtok_value]. rewrite <- K, <- V. reflexivity.
  Qed.

  Lemma spell_all_strip : forall toks ps L i, pre_spell_all toks = Some ps ->
    map (fun it => xtoken (snd it)) (items_of L i ps) ++ [mkTok noloc TkEOF ""%string] = strip toks.
  Proof.
    induction toks as [|t r IH]; intros ps L i H; [discriminate|].
    destruct r as [|t2 r'].
    - cbn [Render.pre_spell_all] in H.
      destruct (tkind_eqb (tkind_of t) TkEOF && String.eqb (tval t) "") eqn:C; [|discriminate].
      injection H as <-. apply andb_true_iff in C. destruct C as [K V].
      apply tkind_eqb_eq in K. apply String.eqb_eq in V.
      cbn [items_of map app strip]. unfold strip_tok. rewrite K, V. reflexivity.
    - change (pre_spell_all (t :: t2 :: r')) with
        (match pre_spell t, pre_spell_all (t2 :: r') with Some p, Some ps0 => Some (p :: ps0) | _, _ => None end) in H.
      destruct (pre_spell t) as [p|] eqn:E1; [|discriminate].
      destruct (pre_spell_all (t2 :: r')) as [ps0|] eqn:E2; [|discriminate].
      injection H as <-. cbn [items_of map app snd]. rewrite (pre_spell_sound t p L i E1).
      change (strip (t :: t2 :: r')) with (strip_tok t :: strip (t2 :: r')). f_equal.
      apply IH. reflexivity.
  Qed.

  (* For EVERY token list that has a spelling and EVERY good layout: parser.Parse on the rendered text
     and the parser on the tokens agree — same outcome class, same tree up to locations. *)
  Theorem text_tokens : forall g o L toks, layout_good L toks = true ->
    erase_result (parse_text g o (render L toks)) = erase_result (parse g o toks).
  Proof.
    intros g o L toks H. unfold Render.layout_good, Render.render, Render.parse_text in *.
    destruct (pre_spell_all toks) as [ps|] eqn:E; [|discriminate].
    unfold render_pre. rewrite (lex_text uni_letter uni_digit uni_space _ _ H).
    rewrite <- !parse_strip. f_equal.
    unfold strip at 1. rewrite map_app. fold (strip (expectedx (1, 0) (items_of L 0 ps))).
    rewrite strip_expectedx. cbn [map]. unfold strip_tok at 1. cbn [tkind_of tval].
    apply spell_all_strip. exact E.
  Qed.

  Lemma render_lexes : forall L toks, layout_good L toks = true ->
    exists lexed, lex uni_letter uni_digit uni_space (render L toks) = LexOk lexed /\ strip lexed = strip toks.
  Proof.
    intros L toks H. unfold Render.layout_good, Render.render in *.
    destruct (pre_spell_all toks) as [ps|] eqn:E; [|discriminate].
    unfold render_pre. rewrite (lex_text uni_letter uni_digit uni_space _ _ H). eexists. split; [reflexivity|].
    unfold strip at 1. rewrite map_app. fold (strip (expectedx (1, 0) (items_of L 0 ps))).
    rewrite strip_expectedx. cbn [map]. unfold strip_tok at 1. cbn [tkind_of tval].
    apply spell_all_strip. exact E.
  Qed.

  (* the same for ANY spelling of the tokens (every number spelling, every string spelling with either quote and
     any of the supported escapes, of Lex/LexProofs.v) and any white space satisfying `layoutx_ok`: the text
     parses like the token sequence it spells *)
  Theorem text_items : forall g o items trail, Render.layoutx_ok uni_letter uni_digit uni_space items trail = true ->
    erase_result (parse_text g o (layoutx items trail)) =
    parse g o (map (fun it => xtoken (snd it)) items ++ [mkTok noloc TkEOF ""%string]).
  Proof.
    intros g o items trail H. unfold Render.parse_text. rewrite (lex_text uni_letter uni_digit uni_space _ _ H).
    rewrite <- parse_strip. f_equal.
    unfold strip at 1. rewrite map_app. fold (strip (expectedx (1, 0) items)). rewrite strip_expectedx. reflexivity.
  Qed.

  Lemma layout_good_lexable : forall L toks, layout_good L toks = true -> lexable toks = true.
  Proof.
    intros L toks H. unfold Render.layout_good, Render.lexable in *. destruct (pre_spell_all toks); [reflexivity|discriminate].
  Qed.

  (* white space never changes the outcome: any two good layouts of the same tokens *)
  Theorem whitespace_irrelevant_tokens : forall g o L1 L2 toks,
    layout_good L1 toks = true -> layout_good L2 toks = true ->
    erase_result (parse_text g o (render L1 toks)) = erase_result (parse_text g o (render L2 toks)).
  Proof. intros g o L1 L2 toks H1 H2. rewrite (text_tokens g o L1 toks H1), (text_tokens g o L2 toks H2). reflexivity. Qed.

  (* ---- a simple sufficient condition for `layout_good`: white space between all tokens *)
  Notation is_alnum := (is_alnum uni_letter uni_digit).
  Notation is_space := (is_space uni_space).
  Notation follow_ok := (follow_ok uni_letter uni_digit).
  Notation xfollow_ok := (xfollow_ok uni_letter uni_digit).
  Notation layoutx_ok := (layoutx_ok uni_letter uni_digit uni_space).

  Lemma ws_not_alnum : forall c, ascii_ws c = true -> is_alnum c = false /\ c <> 105 /\ c <> 46.
  Proof.
    intros c H. destruct (ascii_ws_cases c H) as [->|[->|[->|[->|[->| ->]]]]]; repeat split; lia.
  Qed.

  Lemma follow_ws : forall t c rest, ascii_ws c = true -> follow_ok t (c :: rest) = true.
  Proof.
    intros t c rest H.
    destruct t as [r w|n|r|r [r2|]|r|q items|[| |]]; cbn [LexProofs.follow_ok hd_okb]; try reflexivity;
      try (destruct (r =? 63));
      destruct (ascii_ws_cases c H) as [->|[->|[->|[->|[->| ->]]]]]; reflexivity.
  Qed.

  Lemma follow_nil : forall t, follow_ok t [] = true.
  Proof. intros t. destruct t as [r w|n|r|r [r2|]|r|q items|[| |]]; cbn [LexProofs.follow_ok hd_okb]; try reflexivity. destruct (r =? 63); reflexivity. Qed.

  Lemma notin_ws : forall ws rest, forallb ascii_ws ws = true -> notin_accepts rest = false ->
    notin_accepts (ws ++ rest) = false.
  Proof.
    induction ws as [|c ws IH]; intros rest H N; [exact N|].
    cbn [forallb] in H. apply andb_true_iff in H. destruct H as [Hc H].
    unfold notin_accepts. cbn [app drop_spaces]. destruct (c =? 32) eqn:E.
    - apply (IH rest H N).
    - destruct (ws_not_alnum c Hc) as (_ & N105 & _).
      destruct (ws ++ rest) as [|c2 t2]; [reflexivity|].
      replace (c =? 105) with false by (symmetry; apply Z.eqb_neq; exact N105). reflexivity.
  Qed.

  Lemma first_rune : forall x, xtok_ok x = true ->
    exists r rest, xtok_runes x = r :: rest /\ r <> 32 /\ (r = 105 -> exists w, x = XP (PIdent 105 w)).
  Proof.
    intros [t| |sp] H; cbn [Render.xtok_ok xtok_runes] in *.
    2:{ exists 110, [111; 116]. repeat split; [lia|intros; lia]. }
    2:{ eexists 110, _. split; [reflexivity|]. split; [lia|intros; lia]. }
    destruct t as [r w|n|r|r [r2|]|r|q items|d]; cbn [tok_ok tok_runes] in *.
    - exists r, w. split; [reflexivity|]. split.
      + intros ->. apply andb_true_iff in H. destruct H as [H _]. apply andb_true_iff in H. destruct H as [H _].
        apply andb_true_iff in H. destruct H as [_ H]. discriminate H.
      + intros ->. exists w. reflexivity.
    - destruct n as [d ds fr ex|d ds ex|x ds]; cbn [num_runes num_ok] in *.
      + eexists d, _. split; [reflexivity|].
        apply andb_true_iff in H. destruct H as [H _]. apply andb_true_iff in H. destruct H as [H _].
        apply andb_true_iff in H. destruct H as [H _]. unfold is_dec in H. apply andb_true_iff in H. destruct H as [A B].
        apply Z.leb_le in A. apply Z.leb_le in B. split; [lia|intros; lia].
      + eexists 46, _. split; [reflexivity|]. split; [lia|intros; lia].
      + eexists 48, _. split; [reflexivity|]. split; [lia|intros; lia].
    - exists r, []. split; [reflexivity|]. apply mem_In in H. cbn [In op1_runes] in H.
      destruct H as [<-|[<-|[<-|[<-|[<-|[<-|[<-|[<-|[]]]]]]]]]; (split; [lia|intros; lia]).
    - exists r, [r2]. split; [reflexivity|]. apply andb_true_iff in H. destruct H as [H _].
      apply mem_In in H. cbn [In op2_first] in H.
      destruct H as [<-|[<-|[<-|[<-|[<-|[<-|[<-|[]]]]]]]]; (split; [lia|intros; lia]).
    - exists r, []. split; [reflexivity|]. apply mem_In in H. cbn [In op2_first] in H.
      destruct H as [<-|[<-|[<-|[<-|[<-|[<-|[<-|[]]]]]]]]; (split; [lia|intros; lia]).
    - exists r, []. split; [reflexivity|]. apply mem_In in H. cbn [In bracket_runes] in H.
      destruct H as [<-|[<-|[<-|[<-|[<-|[<-|[]]]]]]]; (split; [lia|intros; lia]).
    - eexists q, _. split; [reflexivity|]. apply andb_true_iff in H. destruct H as [H _].
      apply quote_cases in H. destruct H as [-> | ->]; (split; [lia|intros; lia]).
    - destruct d; cbn [dot_runes]; [exists 46, []|exists 46, [46]|exists 63, [46]]; (split; [reflexivity|split; [lia|intros; lia]]).
  Qed.

  Definition in_word : xtok := XP (PIdent 105 [110]).

  (* a token other than the word `in` is never mistaken for the second half of `not in` *)
  Lemma notin_tok : forall x T, xtok_ok x = true -> xfollow_ok x T = true -> x <> in_word ->
    notin_accepts (xtok_runes x ++ T) = false.
  Proof.
    intros x T Hok Hf Hne. destruct (first_rune x Hok) as (r & rest & E & N32 & H105).
    destruct (Z.eq_dec r 105) as [->|N105].
    - destruct (H105 eq_refl) as (w & ->). clear H105 E.
      cbn [xtok_runes tok_runes Render.xtok_ok tok_ok Render.xfollow_ok LexProofs.follow_ok] in *.
      unfold notin_accepts. cbn [app drop_spaces]. change (105 =? 32) with false. cbv iota.
      apply andb_true_iff in Hok. destruct Hok as [Hok _]. apply andb_true_iff in Hok. destruct Hok as [_ Hw].
      destruct w as [|c2 w'].
      + cbn [app]. destruct T as [|c T']; [reflexivity|]. cbn [hd_okb] in Hf. apply negb_true_iff in Hf.
        destruct (Z.eqb_spec c 110) as [->|_]; [discriminate Hf|]. rewrite andb_false_r. reflexivity.
      + cbn [app]. destruct (Z.eqb_spec c2 110) as [->|_]; [|rewrite andb_false_r; reflexivity].
        destruct w' as [|c3 w''].
        * exfalso. apply Hne. reflexivity.
        * cbn [app]. cbn [forallb] in Hw. apply andb_true_iff in Hw. destruct Hw as [_ Hw].
          apply andb_true_iff in Hw. destruct Hw as [H3 _].
          destruct (Z.eqb_spec c3 32) as [->|_]; [discriminate H3|].
          destruct (Z.eqb_spec c3 eof) as [->|_]; [discriminate H3|]. reflexivity.
    - rewrite E. unfold notin_accepts. cbn [app drop_spaces].
      replace (r =? 32) with false by (symmetry; apply Z.eqb_neq; exact N32).
      destruct (rest ++ T) as [|c2 t2]; [reflexivity|].
      replace (r =? 105) with false by (symmetry; apply Z.eqb_neq; exact N105). reflexivity.
  Qed.

  Lemma notin_only_ws : forall ws, forallb ascii_ws ws = true -> notin_accepts ws = false.
  Proof. intros ws H. rewrite <- (app_nil_r ws). apply notin_ws; [exact H|reflexivity]. Qed.

  Lemma xfollow_ws : forall x c ws rest, forallb ascii_ws (c :: ws) = true ->
    (forall sp, x = XNotIn sp -> c = 32) -> (x = XNot -> notin_accepts rest = false) ->
    xfollow_ok x ((c :: ws) ++ rest) = true.
  Proof.
    intros x c ws rest H HN HX. pose proof H as H'. cbn [forallb] in H'. apply andb_true_iff in H'. destruct H' as [Hc _].
    destruct x as [t| |sp]; cbn [Render.xfollow_ok app].
    - apply follow_ws. exact Hc.
    - cbn [hd_okb]. destruct (ws_not_alnum c Hc) as (A & _). rewrite A. cbn [negb andb].
      apply negb_true_iff. apply (notin_ws (c :: ws) rest H). apply HX. reflexivity.
    - cbn [hd_okb]. rewrite (HN sp eq_refl). reflexivity.
  Qed.

  Lemma xfollow_end : forall x trail, forallb ascii_ws trail = true ->
    (forall sp, x = XNotIn sp -> hd_okb (fun c => c =? 32) trail = true) -> xfollow_ok x trail = true.
  Proof.
    intros x trail H HN. destruct trail as [|c ws].
    - destruct x as [t| |sp]; cbn [Render.xfollow_ok]; [apply follow_nil|reflexivity|reflexivity].
    - rewrite <- (app_nil_r (c :: ws)). apply xfollow_ws; [exact H| |reflexivity].
      intros sp E. specialize (HN sp E). cbn [hd_okb] in HN. apply Z.eqb_eq in HN. exact HN.
  Qed.

  Lemma finish_ok : forall t p L i, pre_spell t = Some p ->
    (is_op_tok "not in" t = true -> forallb (fun c => c =? 32) (inner L i) && negb (is_nil (inner L i)) = true) ->
    xtok_ok (finish L i p) = true.
  Proof.
    intros t p L i H HN. apply pre_spell_check in H. destruct p as [x|rs|]; cbn [Render.check finish] in *.
    - apply andb_true_iff in H. destruct H as [H _]. apply andb_true_iff in H. destruct H as [H _]. exact H.
    - apply andb_true_iff in H. destruct H as [H _]. apply andb_true_iff in H. destruct H as [S _].
      set (q := if dquote L i then 34 else 39).
      assert (Hq : q = 34 \/ q = 39) by (unfold q; destruct (dquote L i); auto).
      destruct (canon_items_ok q rs Hq S) as [A _]. cbn [Render.xtok_ok tok_ok]. rewrite A.
      destruct Hq as [-> | ->]; reflexivity.
    - cbn [Render.xtok_ok]. apply HN. unfold is_op_tok.
      apply andb_true_iff in H. destruct H as [K V]. apply tkind_eqb_eq in K. apply String.eqb_eq in V.
      rewrite <- K, <- V. reflexivity.
  Qed.

  Lemma finish_notin : forall t p L i sp, pre_spell t = Some p -> finish L i p = XNotIn sp -> is_op_tok "not in" t = true.
  Proof.
    intros t p L i sp H E. pose proof (pre_spell_sound t p L i H) as S. rewrite E in S.
    unfold xtoken, strip_tok in S. cbn [xtok_kind xtok_value] in S. injection S as K V.
    unfold is_op_tok. rewrite <- K, <- V. reflexivity.
  Qed.

  Lemma finish_not : forall t p L i, pre_spell t = Some p -> finish L i p = XNot -> is_op_tok "not" t = true.
  Proof.
    intros t p L i H E. pose proof (pre_spell_sound t p L i H) as S. rewrite E in S.
    unfold xtoken, strip_tok in S. cbn [xtok_kind xtok_value] in S. injection S as K V.
    unfold is_op_tok. rewrite <- K, <- V. reflexivity.
  Qed.

  Lemma finish_in : forall t p L i, pre_spell t = Some p -> finish L i p = in_word -> is_op_tok "in" t = true.
  Proof.
    intros t p L i H E. pose proof (pre_spell_sound t p L i H) as S. rewrite E in S.
    unfold xtoken, strip_tok, in_word in S. injection S as K V.
    unfold is_op_tok. rewrite <- K, <- V. reflexivity.
  Qed.

  Lemma spell_all_nil : forall t r, pre_spell_all (t :: r) = Some [] -> r = [].
  Proof.
    intros t [|t2 r'] H; [reflexivity|].
    change (pre_spell_all (t :: t2 :: r')) with
      (match pre_spell t, pre_spell_all (t2 :: r') with Some p, Some ps0 => Some (p :: ps0) | _, _ => None end) in H.
    destruct (pre_spell t); [|discriminate]. destruct (pre_spell_all (t2 :: r')); discriminate.
  Qed.

  Lemma roomy_gen : forall toks ps L i, pre_spell_all toks = Some ps -> not_in_free toks = true ->
    gaps_ok L i toks = true -> notin_spaced L i toks = true ->
    layoutx_ok (items_of L i ps) (gap L (i + List.length ps)) = true.
  Proof.
    induction toks as [|t r IH]; intros ps L i HS HF HG HN; [discriminate|].
    destruct r as [|t2 r'].
    - cbn [Render.pre_spell_all] in HS.
      destruct (tkind_eqb (tkind_of t) TkEOF && String.eqb (tval t) ""); [|discriminate]. injection HS as <-.
      cbn [items_of Render.layoutx_ok List.length]. rewrite Nat.add_0_r.
      cbn [gaps_ok] in HG. apply andb_true_iff in HG. destruct HG as [HG _]. apply andb_true_iff in HG. apply HG.
    - change (pre_spell_all (t :: t2 :: r')) with
        (match pre_spell t, pre_spell_all (t2 :: r') with Some p, Some ps0 => Some (p :: ps0) | _, _ => None end) in HS.
      destruct (pre_spell t) as [p|] eqn:E1; [|discriminate].
      destruct (pre_spell_all (t2 :: r')) as [ps0|] eqn:E2; [|discriminate].
      injection HS as <-.
      change (not_in_free (t :: t2 :: r')) with
        ((if is_op_tok "not" t then negb (is_op_tok "in" t2) else true) && not_in_free (t2 :: r')) in HF.
      apply andb_true_iff in HF. destruct HF as [HF1 HF].
      change (gaps_ok L i (t :: t2 :: r')) with
        (forallb ascii_ws (gap L i) && (Nat.eqb i 0 || false || negb (is_nil (gap L i))) && gaps_ok L (S i) (t2 :: r')) in HG.
      apply andb_true_iff in HG. destruct HG as [HG1 HG]. apply andb_true_iff in HG1. destruct HG1 as [HG1 _].
      change (notin_spaced L i (t :: t2 :: r')) with
        ((if is_op_tok "not in" t
          then forallb (fun c => c =? 32) (inner L i) && negb (is_nil (inner L i)) && hd_okb (fun c => c =? 32) (gap L (S i))
          else true) && notin_spaced L (S i) (t2 :: r')) in HN.
      apply andb_true_iff in HN. destruct HN as [HN1 HN].
      specialize (IH ps0 L (S i) eq_refl HF HG HN).
      cbn [items_of Render.layoutx_ok List.length]. rewrite Nat.add_succ_r. change (S (i + List.length ps0)) with (S i + List.length ps0)%nat.
      rewrite HG1, IH. rewrite andb_true_r. cbn [andb].
      assert (OK : xtok_ok (finish L i p) = true).
      { apply (finish_ok t p L i E1). intros K. rewrite K in HN1. apply andb_true_iff in HN1. apply HN1. }
      rewrite OK. cbn [andb].
      assert (NI : forall sp, finish L i p = XNotIn sp -> hd_okb (fun c => c =? 32) (gap L (S i)) = true).
      { intros sp E. rewrite (finish_notin t p L i sp E1 E) in HN1. apply andb_true_iff in HN1. apply HN1. }
      pose proof HG as HG'. 
      change (gaps_ok L (S i) (t2 :: r')) with
        (forallb ascii_ws (gap L (S i)) && (false || is_nil r' || negb (is_nil (gap L (S i)))) && gaps_ok L (S (S i)) r') in HG'.
      apply andb_true_iff in HG'. destruct HG' as [HG' _]. apply andb_true_iff in HG'. destruct HG' as [W2 NE2]. cbn [orb] in NE2.
      destruct ps0 as [|p2 ps1].
      + cbn [items_of layoutx List.length]. rewrite Nat.add_0_r. apply xfollow_end; [exact W2|exact NI].
      + assert (Hr : r' <> []) by (intros ->; cbn [Render.pre_spell_all] in E2; destruct (tkind_eqb (tkind_of t2) TkEOF && String.eqb (tval t2) ""); discriminate).
        destruct r' as [|t3 r'']; [congruence|]. cbn [is_nil orb] in NE2.
        cbn [items_of layoutx]. cbn [items_of Render.layoutx_ok] in IH.
        apply andb_true_iff in IH. destruct IH as [IH _]. apply andb_true_iff in IH. destruct IH as [IH F2].
        apply andb_true_iff in IH. destruct IH as [_ OK2].
        destruct (gap L (S i)) as [|c ws] eqn:EG; [discriminate NE2|].
        apply xfollow_ws; [exact W2| |].
        * intros sp E. specialize (NI sp E). cbn [hd_okb] in NI. apply Z.eqb_eq in NI. exact NI.
        * intros E. apply notin_tok; [exact OK2|exact F2|].
          intros EI. rewrite (finish_not t p L i E1 E) in HF1.
          change (pre_spell_all (t2 :: t3 :: r'')) with
            (match pre_spell t2, pre_spell_all (t3 :: r'') with Some p, Some ps0 => Some (p :: ps0) | _, _ => None end) in E2.
          destruct (pre_spell t2) as [p2'|] eqn:E3; [|discriminate].
          destruct (pre_spell_all (t3 :: r'')) as [ps1'|]; [|discriminate].
          injection E2 as -> ->. rewrite (finish_in t2 p2 L (S i) E3 EI) in HF1. discriminate HF1.
  Qed.

  (* white space between all tokens, spaces inside and after `not in`: a good layout *)
  Theorem roomy_good : forall L toks, lexable toks = true -> not_in_free toks = true ->
    gaps_ok L 0 toks = true -> notin_spaced L 0 toks = true -> layout_good L toks = true.
  Proof.
    intros L toks HL HF HG HN. unfold Render.lexable, Render.layout_good in *.
    destruct (pre_spell_all toks) as [ps|] eqn:E; [|discriminate].
    apply (roomy_gen toks ps L 0%nat E HF HG HN).
  Qed.

  Section RoundTrip.
    Variable g : grammar.
    Variable o : oracles.
    Variable fmt_int : Z -> string.
    Variable fmt_float : float -> string.
    Hypothesis G : wf_grammar g = true.
    Notation printable := (printable g fmt_int fmt_float o).
    Notation print_any := (print_any g fmt_int fmt_float).

    Lemma erase_result_ok : forall r t, erase_result r = ROk (erase_loc t) ->
      exists t', r = ROk t' /\ erase_loc t' = erase_loc t.
    Proof.
      intros [e|l|] t H; cbn [erase_result] in H; try discriminate. injection H as H. exists e. split; [reflexivity|exact H].
    Qed.

    (* print, lay out, lex, parse: the same tree (up to locations) *)
    Theorem text_roundtrip : forall c t L,
      printable c t -> layout_good L (print_any c t) = true ->
      exists t', parse_text g o (render L (print_any c t)) = ROk t' /\ erase_loc t' = erase_loc t.
    Proof.
      intros c t L W H. apply erase_result_ok.
      rewrite (text_tokens g o L _ H). rewrite (roundtrip g o fmt_int fmt_float G c t W). reflexivity.
    Qed.

    (* ... and where the tree carries pairwise distinct labels as locations (of the tokens of its printing:
       `distinct_locs`), every labelled node of the parsed tree stands at the position the lexer gives to the
       token that carries the label (`text_positions`: the positions of the tokens of the text, made explicit
       by lex_text; `loc_at ts ps l`: the element of ps at the index of the token of ts labelled l) *)
    Theorem text_locations : forall c t L,
      printable c t -> layout_good L (print_any c t) = true -> distinct_locs (print_any c t) = true ->
      exists t', parse_text g o (render L (print_any c t)) = ROk t' /\ erase_loc t' = erase_loc t /\
        forall path x, node_at t path = Some x -> loc_of x <> noloc ->
          exists x', node_at t' path = Some x' /\
            loc_of x' = loc_at (print_any c t)
                               (text_positions uni_letter uni_digit uni_space (render L (print_any c t))) (loc_of x).
    Proof.
      intros c t L W H D. destruct (text_roundtrip c t L W H) as (t' & P & E).
      exists t'. split; [exact P|]. split; [exact E|].
      destruct (render_lexes L _ H) as (lexed & LX & ST).
      unfold Render.parse_text in P. rewrite LX in P. unfold Render.text_positions. rewrite LX.
      intros path x N Lx.
      apply (parse_locations g o (print_any c t) lexed t t'); auto.
      apply (roundtrip g o fmt_int fmt_float G c t W).
    Qed.

    Theorem whitespace_irrelevant : forall c t L1 L2,
      printable c t -> layout_good L1 (print_any c t) = true -> layout_good L2 (print_any c t) = true ->
      exists t1 t2,
        parse_text g o (render L1 (print_any c t)) = ROk t1 /\
        parse_text g o (render L2 (print_any c t)) = ROk t2 /\
        erase_loc t1 = erase_loc t2 /\ erase_loc t1 = erase_loc t.
    Proof.
      intros c t L1 L2 W H1 H2.
      destruct (text_roundtrip c t L1 W H1) as (t1 & P1 & E1).
      destruct (text_roundtrip c t L2 W H2) as (t2 & P2 & E2).
      exists t1, t2. repeat split; try assumption. congruence.
    Qed.

    Theorem redundant_parentheses_text : forall c1 c2 t L1 L2,
      printable c1 t -> printable c2 t ->
      layout_good L1 (print_any c1 t) = true -> layout_good L2 (print_any c2 t) = true ->
      exists t1 t2,
        parse_text g o (render L1 (print_any c1 t)) = ROk t1 /\
        parse_text g o (render L2 (print_any c2 t)) = ROk t2 /\
        erase_loc t1 = erase_loc t2 /\ erase_loc t1 = erase_loc t.
    Proof.
      intros c1 c2 t L1 L2 W1 W2 H1 H2.
      destruct (text_roundtrip c1 t L1 W1 H1) as (t1 & P1 & E1).
      destruct (text_roundtrip c2 t L2 W2 H2) as (t2 & P2 & E2).
      exists t1, t2. repeat split; try assumption. congruence.
    Qed.

    (* the same with the simple conditions on the layout: white space between all tokens, U+0020 inside and
       after `not in` *)
    Definition spaced (L : layout) (toks : list token) : bool :=
      lexable toks && not_in_free toks && gaps_ok L 0 toks && notin_spaced L 0 toks.

    Lemma spaced_good : forall L toks, spaced L toks = true -> layout_good L toks = true.
    Proof.
      intros L toks H. unfold spaced in H.
      apply andb_true_iff in H. destruct H as [H H4]. apply andb_true_iff in H. destruct H as [H H3].
      apply andb_true_iff in H. destruct H as [H1 H2]. apply roomy_good; assumption.
    Qed.

    Theorem text_roundtrip_spaced : forall c t L,
      printable c t -> spaced L (print_any c t) = true ->
      exists t', parse_text g o (render L (print_any c t)) = ROk t' /\ erase_loc t' = erase_loc t.
    Proof. intros c t L W H. apply text_roundtrip; [exact W|apply spaced_good; exact H]. Qed.
  End RoundTrip.

  Lemma notin_spaced_white : forall toks L i, notin_spaced L i toks = true -> notin_white L i toks = true.
  Proof.
    induction toks as [|t r IH]; intros L i H; [reflexivity|]. cbn [notin_spaced notin_white] in *.
    apply andb_true_iff in H. destruct H as [H1 H2]. rewrite (IH L (S i) H2), andb_true_r.
    destruct (is_op_tok "not in" t); [|reflexivity].
    apply andb_true_iff in H1. destruct H1 as [H1 _]. apply andb_true_iff in H1. destruct H1 as [A B]. rewrite B, andb_true_r.
    rewrite forallb_forall in *. intros c Hc. specialize (A c Hc). apply Z.eqb_eq in A. subst c. reflexivity.
  Qed.

  (* the carve-out only concerns token lists that contain the operator `not in` *)
  Lemma notin_spaced_absent : forall toks L i,
    forallb (fun t => negb (is_op_tok "not in" t)) toks = true -> notin_spaced L i toks = true.
  Proof.
    induction toks as [|t r IH]; intros L i H; [reflexivity|]. cbn [forallb notin_spaced] in *.
    apply andb_true_iff in H. destruct H as [H1 H2]. apply negb_true_iff in H1. rewrite H1, (IH L (S i) H2). reflexivity.
  Qed.
End Text.

(* ================================================================== Part D: every token the printer emits has a spelling *)
Section ExprInd.
  Variable P : expr -> Prop.
  Hypothesis H : forall e, Forall P (children e) -> P e.
  Lemma expr_ind_children : forall e, P e.
  Proof.
    fix IH 1. intro e. apply H.
    destruct e; cbn [children]; try (repeat constructor; apply IH).
    - constructor; [apply IH|]. destruct from as [f|], to as [t|]; cbn; repeat constructor; apply IH.
    - constructor; [apply IH|]. induction args as [|x r IHr]; constructor; [apply IH | exact IHr].
    - induction args as [|x r IHr]; constructor; [apply IH | exact IHr].
    - induction args as [|x r IHr]; constructor; [apply IH | exact IHr].
    - induction es as [|x r IHr]; constructor; [apply IH | exact IHr].
    - induction pairs as [|x r IHr]; constructor; [apply IH | exact IHr].
  Qed.
End ExprInd.

Section TreeTokens.
  Variables uni_letter uni_digit uni_space : Z -> bool.
  Variable g : grammar.
  Variable fmt_int : Z -> string.
  Variable fmt_float : float -> string.
  Notation pre_spell := (pre_spell uni_letter uni_digit uni_space).
  Notation pre_spell_all := (pre_spell_all uni_letter uni_digit uni_space).
  Notation lexable := (lexable uni_letter uni_digit uni_space).
  Notation spellable := (spellable uni_letter uni_digit uni_space).
  Notation tt := (tree_textable uni_letter uni_digit uni_space fmt_int fmt_float).
  Notation pr := (pr g fmt_int fmt_float).
  Notation print_any := (print_any g fmt_int fmt_float).

  Definition spb (tk : token) : bool := match pre_spell tk with Some _ => true | None => false end.

  Lemma spb_mk : forall l k v, spb (mkTok l k v) = spellable k v.
  Proof. reflexivity. Qed.

  (* every operator token `not` is followed, inside the list, by a token other than the operator `in` *)
  Fixpoint nif (l : list token) : bool :=
    match l with
    | [] => true
    | t :: r =>
        (if is_op_tok "not" t then match r with t2 :: _ => negb (is_op_tok "in" t2) | [] => false end else true) && nif r
    end.
  Definition first_ok (l : list token) : bool := match l with t :: _ => negb (is_op_tok "in" t) | [] => false end.
  Definition Wk (l : list token) : bool := forallb spb l && nif l.
  Definition Gd (l : list token) : bool := Wk l && first_ok l.

  Lemma nif_app : forall A B, nif A = true -> nif B = true -> nif (A ++ B) = true.
  Proof.
    induction A as [|t r IH]; intros B HA HB; [exact HB|]. cbn [app nif] in *.
    apply andb_true_iff in HA. destruct HA as [H1 H2]. rewrite (IH B H2 HB), andb_true_r.
    destruct (is_op_tok "not" t); [|reflexivity]. destruct r; [discriminate H1|exact H1].
  Qed.

  Lemma Wk_app : forall A B, Wk A = true -> Wk B = true -> Wk (A ++ B) = true.
  Proof.
    intros A B HA HB. unfold Wk in *. apply andb_true_iff in HA. destruct HA as [A1 A2].
    apply andb_true_iff in HB. destruct HB as [B1 B2]. rewrite forallb_app, A1, B1, (nif_app A B A2 B2). reflexivity.
  Qed.

  Lemma Gd_Wk : forall A, Gd A = true -> Wk A = true.
  Proof. intros A H. unfold Gd in H. apply andb_true_iff in H. apply H. Qed.

  Lemma Gd_app : forall A B, Gd A = true -> Wk B = true -> Gd (A ++ B) = true.
  Proof.
    intros A B HA HB. unfold Gd in *. apply andb_true_iff in HA. destruct HA as [A1 A2].
    rewrite (Wk_app A B A1 HB). destruct A; [discriminate A2|exact A2].
  Qed.

  Lemma Wk_cons : forall t X, spb t = true -> is_op_tok "not" t = false -> Wk X = true -> Wk (t :: X) = true.
  Proof.
    intros t X S N H. unfold Wk in *. cbn [forallb nif]. rewrite S, N. exact H.
  Qed.

  Lemma Gd_cons : forall t X, spb t = true -> is_op_tok "not" t = false -> is_op_tok "in" t = false ->
    Wk X = true -> Gd (t :: X) = true.
  Proof. intros t X S N I H. unfold Gd. rewrite (Wk_cons t X S N H). cbn [first_ok]. rewrite I. reflexivity. Qed.

  Lemma Wk_op_cons : forall t X, spb t = true -> Gd X = true -> Wk (t :: X) = true.
  Proof.
    intros t X S H. unfold Gd, Wk in *. apply andb_true_iff in H. destruct H as [H F].
    apply andb_true_iff in H. destruct H as [A B]. cbn [forallb nif]. rewrite S, A, B. cbn [andb].
    destruct (is_op_tok "not" t); [|reflexivity]. destruct X; [discriminate F|]. cbn [first_ok] in F. rewrite F. reflexivity.
  Qed.

  Lemma Gd_op_cons : forall t X, spb t = true -> is_op_tok "in" t = false -> Gd X = true -> Gd (t :: X) = true.
  Proof. intros t X S I H. unfold Gd at 1. rewrite (Wk_op_cons t X S H). cbn [first_ok]. rewrite I. reflexivity. Qed.

  Lemma Gd_wrap : forall k B, Gd B = true -> Gd (wrap k B) = true.
  Proof.
    induction k as [|k IH]; intros B H; [exact H|]. cbn [wrap].
    apply Gd_cons; try reflexivity. apply Wk_app; [apply Gd_Wk, IH, H|reflexivity].
  Qed.

  Lemma Wk_pr_tail : forall f l, (forall i x, In x l -> Gd (f i x) = true) -> forall i, Wk (pr_tail f i l) = true.
  Proof.
    intros f. induction l as [|x r IH]; intros H i; [reflexivity|]. cbn [pr_tail].
    apply Wk_cons; try reflexivity. apply Wk_app; [apply Gd_Wk, H; left; reflexivity|].
    apply IH. intros j y Hy. apply H. right. exact Hy.
  Qed.

  Lemma Wk_pr_seq : forall f l, (forall i x, In x l -> Gd (f i x) = true) -> forall i, Wk (pr_seq f i l) = true.
  Proof.
    intros f [|x r] H i; [reflexivity|]. rewrite pr_seq_cons.
    apply Wk_app; [apply Gd_Wk, H; left; reflexivity|]. apply Wk_pr_tail. intros j y Hy. apply H. right. exact Hy.
  Qed.

  Lemma tt_all : forall l,
    (fix all (l : list expr) : bool := match l with [] => true | x :: r => tt x && all r end) l = forallb tt l.
  Proof. induction l as [|x r IH]; [reflexivity|]. cbn [forallb]. rewrite <- IH. reflexivity. Qed.

  Definition GoodP (t : expr) : Prop := tt t = true -> forall c cx, Gd (pr c cx t) = true.

  Lemma good_list : forall l, Forall GoodP l -> forallb tt l = true ->
    forall (c : poracle) i x, In x l -> Gd (pr (sub c i) CTOP x) = true.
  Proof.
    intros l HF HT c i x Hx. rewrite Forall_forall in HF. rewrite forallb_forall in HT.
    apply (HF x Hx (HT x Hx)).
  Qed.

  Ltac inv_forall := repeat match goal with H : Forall _ (_ :: _) |- _ => inversion H; clear H; subst end.
  Ltac split_tt H := repeat (let K := fresh "K" in apply andb_true_iff in H; destruct H as [H K]).

  Lemma pr_tokens_good : forall t, GoodP t.
  Proof.
    induction t as [t IH] using expr_ind_children. intros HT c cx.
    rewrite pr_unfold. apply Gd_wrap. generalize (inner_ctx (parens g c cx t) cx). intros cx'.
    destruct t; cbn [children] in IH; cbn [tree_textable] in HT; rewrite ?tt_all in HT;
      unfold Printer.body; destruct (ctx_pf cx') as [p0 f0].
    - (* nil *) apply Gd_cons; reflexivity.
    - (* ident *) apply Gd_cons; try reflexivity. rewrite spb_mk. exact HT.
    - (* int *) apply Gd_cons; try reflexivity. rewrite spb_mk. exact HT.
    - (* float *) apply Gd_cons; try reflexivity. rewrite spb_mk. exact HT.
    - (* bool *) destruct b; apply Gd_cons; reflexivity.
    - (* string *) apply Gd_cons; try reflexivity. rewrite spb_mk. exact HT.
    - (* const *) discriminate HT.
    - (* unary *) inv_forall. split_tt HT. apply negb_true_iff in K0.
      apply Gd_op_cons; [rewrite spb_mk; exact HT|unfold is_op_tok; cbn [tkind_of tval tkind_eqb andb]; exact K0|auto].
    - (* binary *) inv_forall. split_tt HT.
      apply Gd_app; [auto|]. apply Wk_op_cons; [rewrite spb_mk; exact HT|auto].
    - (* matches *) inv_forall. split_tt HT.
      apply Gd_app; [auto|]. apply Wk_op_cons; [reflexivity|auto].
    - (* property *) inv_forall. split_tt HT.
      apply Gd_app; [auto|]. apply Wk_cons; [destruct nilsafe; reflexivity|destruct nilsafe; reflexivity|].
      apply Wk_cons; [rewrite spb_mk; exact HT|reflexivity|reflexivity].
    - (* index *) inv_forall. split_tt HT.
      apply Gd_app; [auto|]. apply Wk_cons; try reflexivity. apply Wk_app; [apply Gd_Wk; auto|reflexivity].
    - (* slice *) destruct from as [x1|], to as [x2|]; cbn [children opt_list app] in IH; inv_forall; split_tt HT; cbn [app];
        (apply Gd_app; [solve [auto]|]); (apply Wk_cons; try reflexivity);
        repeat first [ apply Wk_app; [apply Gd_Wk; solve [auto]|] | apply Wk_cons; try reflexivity ]; reflexivity.
    - (* method *) inv_forall. split_tt HT.
      apply Gd_app; [auto|]. apply Wk_cons; [destruct nilsafe; reflexivity|destruct nilsafe; reflexivity|].
      apply Wk_cons; [rewrite spb_mk; exact HT|reflexivity|]. apply Wk_cons; try reflexivity.
      apply Wk_app; [|reflexivity]. apply Wk_pr_seq. intros i x Hx. eapply good_list; eauto.
    - (* function *) split_tt HT. apply Gd_cons; [rewrite spb_mk; exact HT|reflexivity|reflexivity|].
      apply Wk_cons; try reflexivity. apply Wk_app; [|reflexivity]. apply Wk_pr_seq. intros i x Hx. eapply good_list; eauto.
    - (* builtin *) split_tt HT. apply Gd_cons; [rewrite spb_mk; exact HT|reflexivity|reflexivity|].
      apply Wk_cons; try reflexivity. apply Wk_app; [|reflexivity]. apply Wk_pr_seq. intros i x Hx. eapply good_list; eauto.
    - (* closure *) inv_forall. apply Gd_cons; try reflexivity. apply Wk_app; [apply Gd_Wk; auto|reflexivity].
    - (* pointer *) apply Gd_cons; reflexivity.
    - (* cond *) inv_forall. split_tt HT.
      apply Gd_app; [auto|]. apply Wk_cons; try reflexivity. apply Wk_app; [apply Gd_Wk; auto|].
      apply Wk_cons; try reflexivity. apply Gd_Wk; auto.
    - (* array *) apply Gd_cons; try reflexivity. apply Wk_app; [|reflexivity]. apply Wk_pr_seq. intros i x Hx. eapply good_list; eauto.
    - (* map *) apply Gd_cons; try reflexivity. apply Wk_app; [|reflexivity]. apply Wk_pr_seq. intros i x Hx. eapply good_list; eauto.
    - (* pair *) inv_forall. split_tt HT.
      assert (V : Wk (colon :: pr (sub c 1%nat) CTOP t2) = true) by (apply Wk_cons; try reflexivity; apply Gd_Wk; auto).
      destruct (key_bare a t1) eqn:KB.
      + destruct t1; try discriminate KB. cbn [tree_textable] in HT.
        apply Gd_app; [|exact V]. apply Gd_cons; try reflexivity. rewrite spb_mk. exact HT.
      + apply Gd_app; [|exact V]. apply Gd_cons; try reflexivity. apply Wk_app; [apply Gd_Wk; auto|reflexivity].
  Qed.

  Lemma spell_all_app : forall l, forallb spb l = true -> exists ps, pre_spell_all (l ++ [eof_at noloc]) = Some ps.
  Proof.
    induction l as [|t r IH]; intros H.
    - exists []. reflexivity.
    - cbn [forallb] in H. apply andb_true_iff in H. destruct H as [Ht Hr]. destruct (IH Hr) as (ps & E).
      unfold spb in Ht. destruct (pre_spell t) as [p|] eqn:Ep; [|discriminate Ht].
      exists (p :: ps). cbn [app]. destruct (r ++ [eof_at noloc]) as [|t2 r'] eqn:E2; [destruct r; discriminate E2|].
      change (pre_spell_all (t :: t2 :: r')) with
        (match pre_spell t, pre_spell_all (t2 :: r') with Some p, Some ps0 => Some (p :: ps0) | _, _ => None end).
      rewrite Ep, E. reflexivity.
  Qed.

  Lemma nif_free : forall l, nif l = true -> not_in_free (l ++ [eof_at noloc]) = true.
  Proof.
    induction l as [|t r IH]; intros H; [reflexivity|]. cbn [nif] in H. apply andb_true_iff in H. destruct H as [H1 H2].
    cbn [app not_in_free]. rewrite (IH H2), andb_true_r.
    destruct (is_op_tok "not" t); [|reflexivity]. destruct r; [discriminate H1|exact H1].
  Qed.

  (* the lemma the text-level theorems need of the printer: for a textable tree, whatever the parentheses *)
  Theorem textable_tokens : forall t c, tt t = true ->
    lexable (print_any c t) = true /\ not_in_free (print_any c t) = true.
  Proof.
    intros t c HT. pose proof (pr_tokens_good t HT c CTOP) as H. unfold Gd, Wk in H.
    apply andb_true_iff in H. destruct H as [H _]. apply andb_true_iff in H. destruct H as [A B].
    unfold Printer.print_any. split.
    - unfold Render.lexable. destruct (spell_all_app _ A) as (ps & E). rewrite E. reflexivity.
    - apply nif_free. exact B.
  Qed.
End TreeTokens.

(* ================================================================== Part E: the theorems in their final form; what is NOT true *)
Section Final.
  Variables uni_letter uni_digit uni_space : Z -> bool.
  Variable g : grammar.
  Variable o : oracles.
  Variable fmt_int : Z -> string.
  Variable fmt_float : float -> string.
  Hypothesis G : wf_grammar g = true.
  Notation printable := (printable g fmt_int fmt_float o).
  Notation print_any := (print_any g fmt_int fmt_float).
  Notation textable := (tree_textable uni_letter uni_digit uni_space fmt_int fmt_float).
  Notation render := (render uni_letter uni_digit uni_space).
  Notation parse_text := (parse_text uni_letter uni_digit uni_space).
  Notation layout_good := (layout_good uni_letter uni_digit uni_space).

  (* white space between all tokens, U+0020 inside and after `not in` *)
  Definition white (L : layout) (toks : list token) : bool := gaps_ok L 0 toks && notin_spaced L 0 toks.

  Lemma white_good : forall c t L, textable t = true -> white L (print_any c t) = true ->
    layout_good L (print_any c t) = true.
  Proof.
    intros c t L HT HW. unfold white in HW. apply andb_true_iff in HW. destruct HW as [H1 H2].
    destruct (textable_tokens uni_letter uni_digit uni_space g fmt_int fmt_float t c HT) as [A B].
    apply roomy_good; assumption.
  Qed.

  Theorem text_roundtrip_tree : forall c t L,
    printable c t -> textable t = true -> white L (print_any c t) = true ->
    exists t', parse_text g o (render L (print_any c t)) = ROk t' /\ erase_loc t' = erase_loc t.
  Proof.
    intros c t L W HT HW. apply (text_roundtrip uni_letter uni_digit uni_space g o fmt_int fmt_float G c t L W).
    apply white_good; assumption.
  Qed.

  Theorem text_locations_tree : forall c t L,
    printable c t -> textable t = true -> white L (print_any c t) = true -> distinct_locs (print_any c t) = true ->
    exists t', parse_text g o (render L (print_any c t)) = ROk t' /\ erase_loc t' = erase_loc t /\
      forall path x, node_at t path = Some x -> loc_of x <> noloc ->
        exists x', node_at t' path = Some x' /\
          loc_of x' = loc_at (print_any c t)
                             (text_positions uni_letter uni_digit uni_space (render L (print_any c t))) (loc_of x).
  Proof.
    intros c t L W HT HW D. apply (text_locations uni_letter uni_digit uni_space g o fmt_int fmt_float G c t L W); [|exact D].
    apply white_good; assumption.
  Qed.

  Theorem whitespace_irrelevant_tree : forall c t L1 L2,
    printable c t -> textable t = true -> white L1 (print_any c t) = true -> white L2 (print_any c t) = true ->
    exists t1 t2,
      parse_text g o (render L1 (print_any c t)) = ROk t1 /\
      parse_text g o (render L2 (print_any c t)) = ROk t2 /\
      erase_loc t1 = erase_loc t2 /\ erase_loc t1 = erase_loc t.
  Proof.
    intros c t L1 L2 W HT H1 H2.
    apply (whitespace_irrelevant uni_letter uni_digit uni_space g o fmt_int fmt_float G c t L1 L2 W); apply white_good; assumption.
  Qed.

  Theorem redundant_parentheses_tree : forall c1 c2 t L1 L2,
    printable c1 t -> printable c2 t -> textable t = true ->
    white L1 (print_any c1 t) = true -> white L2 (print_any c2 t) = true ->
    exists t1 t2,
      parse_text g o (render L1 (print_any c1 t)) = ROk t1 /\
      parse_text g o (render L2 (print_any c2 t)) = ROk t2 /\
      erase_loc t1 = erase_loc t2 /\ erase_loc t1 = erase_loc t.
  Proof.
    intros c1 c2 t L1 L2 W1 W2 HT H1 H2.
    apply (redundant_parentheses_text uni_letter uni_digit uni_space g o fmt_int fmt_float G c1 c2 t L1 L2 W1 W2); apply white_good; assumption.
  Qed.
End Final.

(* ---- layouts that are white for EVERY token list: the same non-empty white-space run that starts with
   U+0020 between all tokens (nothing in front of the first token), one space inside `not in` *)
Lemma gaps_ok_uniform : forall ws dq toks i, forallb ascii_ws ws = true -> ws <> [] ->
  gaps_ok (uniform_layout ws dq) i toks = true.
Proof.
  intros ws dq. induction toks as [|t r IH]; intros i Hws Hne; [reflexivity|].
  cbn [gaps_ok]. rewrite (IH (S i) Hws Hne), andb_true_r. destruct i as [|i]; cbn [uniform_layout gap]; [reflexivity|].
  rewrite Hws. destruct ws; [congruence|]. cbn [Nat.eqb is_nil negb orb]. rewrite orb_true_r. reflexivity.
Qed.

Lemma notin_spaced_uniform : forall ws dq toks i, hd_okb (fun c => c =? 32) ws = true ->
  notin_spaced (uniform_layout ws dq) i toks = true.
Proof.
  intros ws dq. induction toks as [|t r IH]; intros i H; [reflexivity|].
  cbn [notin_spaced]. rewrite (IH (S i) H), andb_true_r. destruct (is_op_tok "not in" t); [|reflexivity].
  cbn [uniform_layout inner gap]. rewrite H. reflexivity.
Qed.

Theorem white_uniform : forall ws dq toks, forallb ascii_ws ws = true -> ws <> [] ->
  hd_okb (fun c => c =? 32) ws = true -> white (uniform_layout ws dq) toks = true.
Proof.
  intros ws dq toks H1 H2 H3. unfold white. rewrite gaps_ok_uniform, notin_spaced_uniform by assumption. reflexivity.
Qed.

Theorem text_roundtrip_uniform : forall (uni_letter uni_digit uni_space : Z -> bool) (o : oracles) (fmt_int : Z -> string)
    (fmt_float : float -> string) (c : poracle) (t : expr) (ws : list Z) (dq : bool),
  printable gen_grammar fmt_int fmt_float o c t ->
  tree_textable uni_letter uni_digit uni_space fmt_int fmt_float t = true ->
  forallb ascii_ws ws = true -> ws <> [] -> hd_okb (fun c => c =? 32) ws = true ->
  exists t', parse_text uni_letter uni_digit uni_space gen_grammar o
               (render uni_letter uni_digit uni_space (uniform_layout ws dq) (print_any gen_grammar fmt_int fmt_float c t)) = ROk t' /\
             erase_loc t' = erase_loc t.
Proof.
  intros ul ud us o fi ff c t ws dq W HT H1 H2 H3.
  apply (text_roundtrip_tree ul ud us gen_grammar o fi ff gen_grammar_wf c t _ W HT).
  apply white_uniform; assumption.
Qed.

(* ---- what is NOT true of the pinned lexer (known finding C11-notin-spacing).
   The unrestricted statement: ANY non-empty white-space run between the two words of `not in` and after it
   (`gaps_ok`: all runs are white space, non-empty between tokens; `notin_white`: the run inside `not in` is a
   non-empty white-space run). *)
Definition text_full_statement : Prop :=
  forall (uni_letter uni_digit uni_space : Z -> bool) (o : oracles) (fmt_int : Z -> string) (fmt_float : float -> string)
         (c : poracle) (t : expr) (L : layout),
    let toks := print_any gen_grammar fmt_int fmt_float c t in
    printable gen_grammar fmt_int fmt_float o c t ->
    tree_textable uni_letter uni_digit uni_space fmt_int fmt_float t = true ->
    gaps_ok L 0 toks = true -> notin_white L 0 toks = true ->
    exists t', parse_text uni_letter uni_digit uni_space gen_grammar o (render uni_letter uni_digit uni_space L toks) = ROk t' /\
               erase_loc t' = erase_loc t.

(* witness: `1 not<TAB>in [ 1 ]` *)
Definition notin_witness : expr := EBinary ann0 BNotIn (EInt ann0 1) (EArray ann0 [EInt ann0 1]).
Definition notin_oracles : oracles := mkOracles (fun _ => None) (fun _ => true).
Definition tab_layout : layout :=
  mkLayout (fun i => match i with O => [] | S _ => [32] end) (fun _ => [9]) (fun _ => true).
Definition space_layout : layout :=
  mkLayout (fun i => match i with O => [] | S _ => [32] end) (fun _ => [32]) (fun _ => true).

Theorem text_full_statement_refuted : ~ text_full_statement.
Proof.
  intros H.
  specialize (H (fun _ => false) (fun _ => false) (fun _ => false) notin_oracles dec (fun _ => EmptyString) no_extra notin_witness tab_layout).
  cbv zeta in H.
  assert (P : printable gen_grammar dec (fun _ => EmptyString) notin_oracles no_extra notin_witness).
  { vm_compute. repeat split; try reflexivity; intros; discriminate. }
  destruct (H P) as (t' & E & _); try (vm_compute; reflexivity).
  vm_compute in E. discriminate E.
Qed.

(* the partial statement: the same with U+0020 only inside and after `not in` (`notin_spaced`, decidable) *)
Theorem text_partial : forall (uni_letter uni_digit uni_space : Z -> bool) (o : oracles) (fmt_int : Z -> string) (fmt_float : float -> string)
    (c : poracle) (t : expr) (L : layout),
  let toks := print_any gen_grammar fmt_int fmt_float c t in
  printable gen_grammar fmt_int fmt_float o c t ->
  tree_textable uni_letter uni_digit uni_space fmt_int fmt_float t = true ->
  gaps_ok L 0 toks = true -> notin_spaced L 0 toks = true ->
  exists t', parse_text uni_letter uni_digit uni_space gen_grammar o (render uni_letter uni_digit uni_space L toks) = ROk t' /\
             erase_loc t' = erase_loc t.
Proof.
  intros ul ud us o fi ff c t L toks W HT H3 H4.
  apply (text_roundtrip_tree ul ud us gen_grammar o fi ff gen_grammar_wf c t L W HT).
  unfold white. fold toks. rewrite H3, H4. reflexivity.
Qed.

(* Parse/Printer.v — printing a syntax tree back to tokens, with only the parentheses the binding
   powers require (`print_min`) or with any number of additional parentheses chosen by an oracle
   (`print_any c`), and the predicate `printable` that characterises the trees the parser can
   produce (what the round-trip theorem of ParseProofs.v assumes).

   Printing context (DESIGN.md Appendix C).  Whether a node needs parentheses depends on the level
   `p` of the operator loop that will read it AND on the precedence `f` of the binary operator that
   follows it (0 = none: a closing token follows):
     * unary  u e      : parenthesised iff f >= prec u;           operand at (prec u, f)
     * binary l o r    : parenthesised iff prec o < p or f >= q o; children at (p, prec o) and (q o, f)
                         where q o = prec o + 1 (left-associative) or prec o (right-associative)
     * conditional     : parenthesised unless it stands where parseExpression(0) started (`top`)
     * base of a property / method / index / slice: literals, unary, binary, matches and conditional
       nodes are parenthesised; so is a chain whose sticky nil-safe flag would leak into a
       NilSafe=false step, and an identifier with NilSafe=false in front of `?.`
     * inside parentheses, brackets, braces, argument lists, conditional branches: (top, 0, 0).
   Tokens carry the location of the node they anchor (operator token for unary/binary/matches, name
   token for identifier/property/method/function/builtin, `[` for index/slice/array, `{` for
   closure/map, `#` for pointer); every other token has no location.  Hence the round trip is an
   equality of trees, locations included (ConditionalNode has none; map pairs and bare string keys
   carry the location of `{`).

   A property/method node with NilSafe=true is always spelled `?.`.   No proofs in this file. *)
From Coq Require Import ZArith Bool List String Ascii Floats.
Require Import X.Base.Num X.Base.Value X.Syn.Ast X.Syn.Tok X.Parse.Parser.
Import ListNotations.
Open Scope Z_scope.

(* the oracle: number of ADDITIONAL pairs of parentheses around the node at a path (child indices
   from the root) *)
Definition poracle := list nat -> nat.
Definition sub (c : poracle) (i : nat) : poracle := fun q => c (i :: q).
Definition no_extra : poracle := fun _ => O.

Inductive ctx :=
| COp (top : bool) (p f : Z)          (* operand position: level p, follower precedence f *)
| CBase (pns : option bool).          (* base of a postfix step: Some ns = property/method with that flag, None = index/slice *)
Definition CTOP : ctx := COp true 0 0.

Definition lparen : token := mkTok noloc TkBracket "(".
Definition rparen : token := mkTok noloc TkBracket ")".
Definition comma : token := mkTok noloc TkOperator ",".
Definition colon : token := mkTok noloc TkOperator ":".
Definition eof_at (l : loc) : token := mkTok l TkEOF "".

Fixpoint wrap (k : nat) (body : list token) : list token :=
  match k with O => body | S k' => lparen :: wrap k' body ++ [rparen] end.

(* comma-separated sequence; element i is printed by `f (start + i)` *)
Definition pr_seq (f : nat -> expr -> list token) : nat -> list expr -> list token :=
  fix go (i : nat) (l : list expr) {struct l} : list token :=
    match l with
    | [] => []
    | x :: r => match r with [] => f i x | _ :: _ => f i x ++ comma :: go (S i) r end
    end.

Definition is_literal (t : expr) : bool :=
  match t with ENil _ | EBool _ _ | EInt _ _ | EFloat _ _ | EStr _ _ => true | _ => false end.
Definition is_operator_node (t : expr) : bool :=
  match t with EUnary _ _ _ | EBinary _ _ _ _ | EMatches _ _ _ _ | ECond _ _ _ _ => true | _ => false end.
Definition is_cond (t : expr) : bool := match t with ECond _ _ _ _ => true | _ => false end.

(* a map key that is written as a bare string: a string node located where the pair is (the parser
   gives such keys, and the pairs, the location of `{`); every other key is an expression in
   parentheses (a string key in parentheses keeps its own location) *)
Definition key_bare (ap : ann) (k : expr) : bool :=
  match k with EStr ak _ => loc_eqb (aloc ak) (aloc ap) | _ => false end.

(* the parser's sticky `nilsafe` variable after an unparenthesised chain *)
Fixpoint sticky (c : poracle) (t : expr) : bool :=
  match t with
  | EProperty _ _ _ ns | EMethod _ _ _ _ ns => ns
  | EIndex _ e _ | ESlice _ e _ _ =>
      match c [O] with
      | O => if is_literal e || is_operator_node e then false else sticky (sub c O) e
      | S _ => false
      end
  | _ => false
  end.

Section Printer.
  Variable g : grammar.
  Variable fmt_int : Z -> string.          (* spelling of an integer literal *)
  Variable fmt_float : float -> string.    (* spelling of a float literal *)

  Definition uprec (u : unop) : Z :=
    match lookup (string_of_unop u) (g_unary g) with Some p => p | None => 0 end.
  Definition bprec (s : string) : Z * bool :=
    match lookup s (g_binary g) with Some x => x | None => (0, false) end.
  Definition qprec (x : Z * bool) : Z := if snd x then fst x else fst x + 1.

  (* parentheses REQUIRED by the context *)
  Definition needs_paren (c : poracle) (cx : ctx) (t : expr) : bool :=
    match cx with
    | COp top p f =>
        match t with
        | EUnary _ u _ => f >=? uprec u
        | EBinary _ o _ _ => let x := bprec (string_of_binop o) in (fst x <? p) || (f >=? qprec x)
        | EMatches _ _ _ _ => let x := bprec "matches" in (fst x <? p) || (f >=? qprec x)
        | ECond _ _ _ _ => negb top
        | _ => false
        end
    | CBase pns =>
        if is_literal t || is_operator_node t then true
        else match pns, t with
             | Some true, EIdent _ _ ns => negb ns
             | Some false, _ => sticky c t
             | _, _ => false
             end
    end.

  Definition parens (c : poracle) (cx : ctx) (t : expr) : nat :=
    (c [] + (if needs_paren c cx t then 1 else 0))%nat.

  (* context in which the node's own tokens are printed *)
  Definition inner_ctx (k : nat) (cx : ctx) : ctx := match k with O => cx | S _ => CTOP end.
  Definition ctx_pf (cx : ctx) : Z * Z := match cx with COp _ p f => (p, f) | CBase _ => (0, 0) end.

  Definition dot_tok (ns : bool) : token := mkTok noloc TkOperator (if ns then "?." else ".").

  (* the node's own tokens; `rec` prints the children *)
  Definition body (rec : poracle -> ctx -> expr -> list token) (c : poracle) (cx : ctx) (t : expr) : list token :=
    let '(p, f) := ctx_pf cx in
    let top := fun (i : nat) (x : expr) => rec (sub c i) CTOP x in
    match t with
    | ENil a => [mkTok (aloc a) TkIdentifier "nil"]
    | EBool a b => [mkTok (aloc a) TkIdentifier (if b then "true" else "false")]
    | EIdent a n _ => [mkTok (aloc a) TkIdentifier n]
    | EInt a z => [mkTok (aloc a) TkNumber (fmt_int z)]
    | EFloat a x => [mkTok (aloc a) TkNumber (fmt_float x)]
    | EStr a s => [mkTok (aloc a) TkString s]
    | EConst _ _ => [eof_at noloc]                                  (* not printable *)
    | EUnary a u e => mkTok (aloc a) TkOperator (string_of_unop u) :: rec (sub c 0%nat) (COp false (uprec u) f) e
    | EBinary a o l r =>
        let x := bprec (string_of_binop o) in
        rec (sub c 0%nat) (COp false p (fst x)) l ++
        mkTok (aloc a) TkOperator (string_of_binop o) :: rec (sub c 1%nat) (COp false (qprec x) f) r
    | EMatches a _ l r =>
        let x := bprec "matches" in
        rec (sub c 0%nat) (COp false p (fst x)) l ++
        mkTok (aloc a) TkOperator "matches" :: rec (sub c 1%nat) (COp false (qprec x) f) r
    | ECond _ cnd x y =>
        rec (sub c 0%nat) (COp false 0 0) cnd ++ mkTok noloc TkOperator "?" :: top 1%nat x ++ colon :: top 2%nat y
    | EProperty a e n ns =>
        rec (sub c 0%nat) (CBase (Some ns)) e ++ [dot_tok ns; mkTok (aloc a) TkIdentifier n]
    | EMethod a e n args ns =>
        rec (sub c 0%nat) (CBase (Some ns)) e ++ dot_tok ns :: mkTok (aloc a) TkIdentifier n :: lparen ::
        pr_seq top 1%nat args ++ [rparen]
    | EIndex a e i =>
        rec (sub c 0%nat) (CBase None) e ++ mkTok (aloc a) TkBracket "[" :: top 1%nat i ++ [mkTok noloc TkBracket "]"]
    | ESlice a e from to =>
        rec (sub c 0%nat) (CBase None) e ++ mkTok (aloc a) TkBracket "[" ::
        match from with Some x => top 1%nat x | None => [] end ++ colon ::
        match to with Some x => top 2%nat x | None => [] end ++ [mkTok noloc TkBracket "]"]
    | EFunction a n args _ => mkTok (aloc a) TkIdentifier n :: lparen :: pr_seq top 0%nat args ++ [rparen]
    | EBuiltin a b args =>
        mkTok (aloc a) TkIdentifier (string_of_builtin b) :: lparen :: pr_seq top 0%nat args ++ [rparen]
    | EClosure a e => mkTok (aloc a) TkBracket "{" :: top 0%nat e ++ [mkTok noloc TkBracket "}"]
    | EPointer a => [mkTok (aloc a) TkOperator "#"]
    | EArray a es => mkTok (aloc a) TkBracket "[" :: pr_seq top 0%nat es ++ [mkTok noloc TkBracket "]"]
    | EMap a ps => mkTok (aloc a) TkBracket "{" :: pr_seq top 0%nat ps ++ [mkTok noloc TkBracket "}"]
    | EPair ap k v =>
        (if key_bare ap k
         then match k with EStr _ s => [mkTok noloc TkString s] | _ => [] end
         else lparen :: top 0%nat k ++ [rparen]) ++ colon :: top 1%nat v
    end.

  Fixpoint pr (c : poracle) (cx : ctx) (t : expr) {struct t} : list token :=
    let k := parens c cx t in wrap k (body pr c (inner_ctx k cx) t).

  Definition print_any (c : poracle) (t : expr) : list token := pr c CTOP t ++ [eof_at noloc].
  Definition print_min (t : expr) : list token := print_any no_extra t.

  (* ------------------------------------------------------------------ printable trees *)
  Variable o : oracles.

  Definition aok (a : ann) : Prop := akind a = RKInvalid.
  Definition not_keyword (s : string) : Prop :=
    String.eqb s "true" = false /\ String.eqb s "false" = false /\ String.eqb s "nil" = false.
  Definition unop_ok (u : unop) : Prop :=
    unop_of_string (string_of_unop u) = u /\ lookup (string_of_unop u) (g_unary g) <> None.
  Definition binop_ok (b : binop) : Prop :=
    binop_of_string (string_of_binop b) = b /\ lookup (string_of_binop b) (g_binary g) <> None /\
    String.eqb (string_of_binop b) "matches" = false.

  Definition all_seq (P : nat -> expr -> Prop) : nat -> list expr -> Prop :=
    fix go (i : nat) (l : list expr) {struct l} : Prop :=
      match l with [] => True | x :: r => P i x /\ go (S i) r end.

  (* `wfp c d cx t`: t, standing in context cx at closure depth d and parenthesised as c says, is a
     tree the parser can produce.  `wfb` is the condition on the node itself, given the context in
     which its own tokens are printed; `rec` checks the children. *)
  Definition wfb (rec : poracle -> nat -> ctx -> expr -> Prop) (c : poracle) (d : nat) (cx : ctx) (t : expr) : Prop :=
    let '(p, f) := ctx_pf cx in
    let top := fun (dd : nat) (i : nat) (x : expr) => rec (sub c i) dd CTOP x in
    match t with
    | ENil a | EBool a _ | EStr a _ => aok a
    | EIdent a n ns =>
        aok a /\ not_keyword n /\ (ns = true -> cx = CBase (Some true))
    | EInt a z => aok a /\ number_value (o_float o) (fmt_int z) = NLInt z
    | EFloat a x => aok a /\ number_value (o_float o) (fmt_float x) = NLFloat x
    | EConst _ _ => False
    | EUnary a u e => aok a /\ unop_ok u /\ rec (sub c 0%nat) d (COp false (uprec u) f) e
    | EBinary a b l r =>
        let x := bprec (string_of_binop b) in
        aok a /\ binop_ok b /\ rec (sub c 0%nat) d (COp false p (fst x)) l /\ rec (sub c 1%nat) d (COp false (qprec x) f) r
    | EMatches a re l r =>
        let x := bprec "matches" in
        aok a /\ lookup "matches" (g_binary g) <> None /\
        re = match r with EStr _ s => Some s | _ => None end /\
        (forall s, re = Some s -> o_regex o s = true) /\
        rec (sub c 0%nat) d (COp false p (fst x)) l /\ rec (sub c 1%nat) d (COp false (qprec x) f) r
    | ECond a cnd x y =>
        a = ann0 /\ rec (sub c 0%nat) d (COp false 0 0) cnd /\ top d 1%nat x /\ top d 2%nat y
    | EProperty a e n ns => aok a /\ rec (sub c 0%nat) d (CBase (Some ns)) e
    | EMethod a e n args ns => aok a /\ rec (sub c 0%nat) d (CBase (Some ns)) e /\ all_seq (top d) 1%nat args
    | EIndex a e i => aok a /\ rec (sub c 0%nat) d (CBase None) e /\ top d 1%nat i
    | ESlice a e from to =>
        aok a /\ rec (sub c 0%nat) d (CBase None) e /\
        match from with Some x => top d 1%nat x | None => True end /\
        match to with Some x => top d 2%nat x | None => True end
    | EFunction a n args fast =>
        aok a /\ fast = false /\ not_keyword n /\ lookup n (g_builtins g) = None /\ all_seq (top d) 0%nat args
    | EBuiltin a b args =>
        aok a /\ builtin_of_string (string_of_builtin b) = b /\ not_keyword (string_of_builtin b) /\
        match lookup (string_of_builtin b) (g_builtins g) with
        | Some arity =>
            if arity =? 1 then match args with [x] => top d 0%nat x | _ => False end
            else if arity =? 2 then
              match args with
              | [x; EClosure ac e] =>
                  top d 0%nat x /\ aok ac /\ c [1%nat] = O /\ rec (sub (sub c 1%nat) 0%nat) (S d) CTOP e
              | _ => False
              end
            else args = []
        | None => False
        end
    | EClosure _ _ => False                     (* only as the second argument of a builtin *)
    | EPointer a => aok a /\ d <> O
    | EArray a es => aok a /\ all_seq (top d) 0%nat es
    | EMap a ps =>
        aok a /\
        all_seq (fun i pair =>
                   match pair with
                   | EPair ap k v =>
                       ap = at_loc (aloc a) /\ c [i] = O /\
                       rec (sub (sub c i) 0%nat) d CTOP k /\
                       rec (sub (sub c i) 1%nat) d CTOP v
                   | _ => False
                   end) 0%nat ps
    | EPair _ _ _ => False                      (* only inside a map *)
    end.

  Fixpoint wfp (c : poracle) (d : nat) (cx : ctx) (t : expr) {struct t} : Prop :=
    wfb wfp c d (inner_ctx (parens c cx t) cx) t.

  Definition printable (c : poracle) (t : expr) : Prop := wfp c O CTOP t.
End Printer.

(* ------------------------------------------------------------------ where additional parentheses are harmless
   Children are numbered as the printer numbers them (`sub c i`); `node_at t path` is the node a path
   leads to.  Additional parentheses are NOT redundant around a closure or a map pair (these are not
   expressions) and around an identifier whose NilSafe flag is set (known finding
   C11-paren-nilsafe-ident: the flag is computed from the token that follows the identifier). *)
Definition pchild (t : expr) (i : nat) : option expr :=
  match t with
  | EUnary _ _ e | EProperty _ e _ _ | EClosure _ e => match i with O => Some e | S _ => None end
  | EBinary _ _ l r | EMatches _ _ l r | EIndex _ l r | EPair _ l r =>
      match i with O => Some l | S O => Some r | _ => None end
  | ESlice _ e f t' => match i with O => Some e | S O => f | S (S O) => t' | _ => None end
  | EMethod _ e _ args _ => match i with O => Some e | S j => nth_error args j end
  | EFunction _ _ args _ | EBuiltin _ _ args | EArray _ args | EMap _ args => nth_error args i
  | ECond _ c x y => match i with O => Some c | S O => Some x | S (S O) => Some y | _ => None end
  | _ => None
  end.

Fixpoint node_at (t : expr) (path : list nat) : option expr :=
  match path with
  | [] => Some t
  | i :: r => match pchild t i with Some x => node_at x r | None => None end
  end.

Definition no_parens_allowed (x : expr) : bool :=
  match x with EClosure _ _ | EPair _ _ _ => true | EIdent _ _ ns => ns | _ => false end.

Definition harmless (c : poracle) (t : expr) : Prop :=
  forall path x, node_at t path = Some x -> no_parens_allowed x = true -> c path = O.

(* decimal spelling of a non-negative integer below 10^20 (every int64 literal) *)
Definition digit_char (d : Z) : ascii := ascii_of_N (Z.to_N (48 + d)).
Fixpoint dec_aux (fuel : nat) (z : Z) (acc : string) : string :=
  match fuel with
  | O => acc
  | S fuel' =>
      let acc' := String (digit_char (z mod 10)) acc in
      if z <? 10 then acc' else dec_aux fuel' (z / 10) acc'
  end.
Definition dec (z : Z) : string := dec_aux 20 z EmptyString.

(* Parse/SoundPrProofs.v — oracle assembly for the SOUNDNESS half of property C11: every token sequence the parser accepts is,
   after the explicit normalisation `normalize` of Parse/Sound.v, a printing `print_any c t` of the tree
   it returns, for a parenthesis oracle c read off the `(` `)` actually present, and the tree is
   `printable c`.  Consequences: the tree of an accepted sequence is the unique tree the reference
   grammar (the image of the printer) assigns to it, and what the reference grammar does not
   generate is rejected.

   Method.  Induction on the fuel of the parser model; one lemma per parser function.  Each lemma has the
   "continuation" form
        norm st stk ts = P ++ norm st' stk rest
   (P = the printer's tokens of the node just parsed, rest = what the parser left), so that the look-ahead
   and the bracket stack of `norm` never have to be split.  The oracle is assembled bottom-up (`mk`,
   `setroot`); `Pr d cx P t s` says that P is a printing of t in context cx with a well-formed oracle. *)
From Coq Require Import ZArith Bool List String Ascii Floats Lia.
Require Import X.Base.Num X.Base.Value X.Syn.Ast X.Syn.Tok X.Parse.Parser X.Parse.Printer X.Parse.ParseProofs X.Parse.Sound.
Import ListNotations.
Open Scope Z_scope.

(* ------------------------------------------------------------------ assembling oracles *)
Definition mk (k : nat) (cf : nat -> poracle) : poracle :=
  fun path => match path with [] => k | i :: q => cf i q end.
Definition setroot (k : nat) (c : poracle) : poracle :=
  fun path => match path with [] => k | _ :: _ => c path end.
Definition one (c0 : poracle) : nat -> poracle := fun i => match i with O => c0 | S _ => no_extra end.
Definition two (c0 c1 : poracle) : nat -> poracle :=
  fun i => match i with O => c0 | S O => c1 | S (S _) => no_extra end.
Definition three (c0 c1 c2 : poracle) : nat -> poracle :=
  fun i => match i with O => c0 | S O => c1 | S (S O) => c2 | S (S (S _)) => no_extra end.

Definition suffix (rest ts : list token) : Prop := exists pre, ts = pre ++ rest.

Lemma suffix_refl ts : suffix ts ts.
Proof. exists []. reflexivity. Qed.
Lemma suffix_trans a b c : suffix a b -> suffix b c -> suffix a c.
Proof. intros [p1 ->] [p2 ->]. exists (p2 ++ p1). now rewrite app_assoc. Qed.
Lemma suffix_cons tk r : suffix r (tk :: r).
Proof. exists [tk]. reflexivity. Qed.

Lemma clean_app a b : clean (a ++ b) = true -> clean a = true /\ clean b = true.
Proof. unfold clean. rewrite forallb_app. intros H. apply andb_prop in H. exact H. Qed.
Lemma clean_cons tk l : clean (tk :: l) = true -> clean l = true.
Proof. unfold clean. cbn [forallb]. intros H. apply andb_prop in H. tauto. Qed.
Lemma clean_poison l : clean (poison :: l) = true -> False.
Proof. unfold clean. cbn. discriminate. Qed.
Lemma clean_mark b l : clean (mark b l) = true -> b = false /\ clean l = true.
Proof. destruct b; cbn [mark]; intros H; [exfalso; eapply clean_poison; eauto|auto]. Qed.

(* ------------------------------------------------------------------ spellings *)
Lemma unop_rt s : string_of_unop (unop_of_string s) = s.
Proof.
  unfold unop_of_string.
  repeat match goal with |- context [if String.eqb s ?k then _ else _] =>
    let E := fresh "E" in destruct (String.eqb s k) eqn:E; [apply String.eqb_eq in E; subst s; reflexivity|] end.
  reflexivity.
Qed.
Lemma binop_rt s : string_of_binop (binop_of_string s) = s.
Proof.
  unfold binop_of_string, binop_table. cbn [lookup].
  repeat match goal with |- context [if String.eqb s ?k then _ else _] =>
    let E := fresh "E" in destruct (String.eqb s k) eqn:E; [apply String.eqb_eq in E; subst s; reflexivity|] end.
  reflexivity.
Qed.
Lemma builtin_rt s : string_of_builtin (builtin_of_string s) = s.
Proof.
  unfold builtin_of_string, builtin_table. cbn [lookup].
  repeat match goal with |- context [if String.eqb s ?k then _ else _] =>
    let E := fresh "E" in destruct (String.eqb s k) eqn:E; [apply String.eqb_eq in E; subst s; reflexivity|] end.
  reflexivity.
Qed.

Section SP.
  Variable g : grammar.
  Variable o : oracles.
  Variable fmt_int : Z -> string.
  Variable fmt_float : float -> string.
  Hypothesis G : wf_grammar g = true.

  Notation pr := (pr g fmt_int fmt_float).
  Notation body := (body g fmt_int fmt_float).
  Notation wfp := (wfp g fmt_int fmt_float o).
  Notation wfb := (wfb g fmt_int fmt_float o).
  Notation parens := (parens g).
  Notation needs_paren := (needs_paren g).
  Notation uprec := (uprec g).
  Notation bprec := (bprec g).
  Notation stk := (stk g).
  Notation fol := (bin_prec_of g).
  Notation pr_unfold := (pr_unfold g fmt_int fmt_float).
  Notation wfp_unfold := (wfp_unfold g o fmt_int fmt_float).

  (* P is a printing of t in context cx at closure depth d; s = sticky flag after it *)
  Definition Pr (d : nat) (cx : ctx) (P : list token) (t : expr) (s : bool) : Prop :=
    exists c, P = pr c cx t /\ wfp c d cx t /\ stk c cx t = s.

  Lemma sticky_setroot k c t : sticky (setroot k c) t = sticky c t.
  Proof. destruct t; reflexivity. Qed.

  Lemma needs_setroot k c cx t : needs_paren (setroot k c) cx t = needs_paren c cx t.
  Proof.
    unfold Printer.needs_paren. destruct cx as [top p f|pns]; [destruct t; reflexivity|].
    destruct (is_literal t || is_operator_node t); [reflexivity|].
    destruct pns as [[|]|]; destruct t; reflexivity.
  Qed.

  Lemma inner_ctx_top k : inner_ctx k CTOP = CTOP.
  Proof. destruct k; reflexivity. Qed.

  (* ---- one more pair of parentheses, in any context *)
  Lemma Pr_paren d B t s : Pr d CTOP B t s -> forall cx, Pr d cx (lparen :: B ++ [rparen]) t false.
  Proof.
    intros (c & -> & W & _) cx.
    set (k0 := parens c CTOP t).
    set (n := if needs_paren c cx t then 1%nat else 0%nat).
    exists (setroot (S k0 - n) c).
    assert (EP : parens (setroot (S k0 - n) c) cx t = S k0).
    { unfold Printer.parens at 1. rewrite needs_setroot. fold n. cbn [setroot].
      subst n. destruct (needs_paren c cx t); [rewrite Nat.sub_add by apply le_n_S, Nat.le_0_l|rewrite Nat.sub_0_r, Nat.add_0_r]; reflexivity. }
    split; [|split].
    - rewrite (pr_unfold (setroot _ c) cx t), EP. cbn [inner_ctx wrap].
      rewrite (pr_unfold c CTOP t). fold k0. rewrite inner_ctx_top.
      destruct t; reflexivity.
    - rewrite wfp_unfold, EP. cbn [inner_ctx]. rewrite wfp_unfold in W. fold k0 in W. rewrite inner_ctx_top in W.
      destruct t; exact W.
    - unfold ParseProofs.stk. rewrite EP. reflexivity.
  Qed.

  (* ---- literals, in operand position *)
  Lemma Pr_nil d l top p f : Pr d (COp top p f) [mkTok l TkIdentifier "nil"] (ENil (at_loc l)) false.
  Proof. exists no_extra. repeat split. Qed.
  Lemma Pr_bool d l (b : bool) top p f :
    Pr d (COp top p f) [mkTok l TkIdentifier (if b then "true" else "false")%string] (EBool (at_loc l) b) false.
  Proof. exists no_extra. repeat split. Qed.
  Lemma Pr_str d l v top p f : Pr d (COp top p f) [mkTok l TkString v] (EStr (at_loc l) v) false.
  Proof. exists no_extra. repeat split. Qed.
  Lemma Pr_int d l z top p f : number_value (o_float o) (fmt_int z) = NLInt z ->
    Pr d (COp top p f) [mkTok l TkNumber (fmt_int z)] (EInt (at_loc l) z) false.
  Proof. intros H. exists no_extra. repeat split. exact H. Qed.
  Lemma Pr_float d l x top p f : number_value (o_float o) (fmt_float x) = NLFloat x ->
    Pr d (COp top p f) [mkTok l TkNumber (fmt_float x)] (EFloat (at_loc l) x) false.
  Proof. intros H. exists no_extra. repeat split. exact H. Qed.

  (* ---- the invariant of the postfix loop: the node parsed so far, in the context the next token decides *)
  Definition ctx_ok (cx : ctx) (nxt : token) (ns : bool) : Prop :=
    match cx with
    | COp _ _ f => pfx_start nxt = false /\ f = fol nxt
    | CBase (Some b) => is_kind nxt TkOperator = true /\ is_dot nxt = true /\ b = ns || val_is nxt "?."
    | CBase None => tok_is nxt TkBracket ["["%string] = true
    end.

  Definition Inv (d : nat) (P : list token) (e : expr) (ns : bool) (nxt : token) : Prop :=
    forall cx, ctx_ok cx nxt ns ->
    exists c, P = pr c cx e /\ wfp c d cx e /\ match cx with CBase _ => stk c cx e = ns | COp _ _ _ => True end.

  Lemma Inv_all d P e nxt : (forall cx, Pr d cx P e false) -> Inv d P e false nxt.
  Proof. intros H cx _. destruct (H cx) as (c & E & W & S). exists c. repeat split; try assumption. destruct cx; auto. Qed.

  Lemma Inv_paren d B t s nxt : Pr d CTOP B t s -> Inv d (lparen :: B ++ [rparen]) t false nxt.
  Proof. intros H. apply Inv_all. intros cx. eapply Pr_paren; eauto. Qed.

  Lemma Inv_final d P e ns nxt : Inv d P e ns nxt -> pfx_start nxt = false ->
    forall top p, exists s, Pr d (COp top p (fol nxt)) P e s.
  Proof.
    intros H NP top p. destruct (H (COp top p (fol nxt))) as (c & E & W & _); [split; [exact NP|reflexivity]|].
    exists (stk c (COp top p (fol nxt)) e), c. repeat split; assumption.
  Qed.

  (* ---- identifiers *)
  Lemma Inv_ident d l v nxt :
    not_keyword v -> (val_is nxt "?." = true -> is_kind nxt TkOperator = true) ->
    Inv d [mkTok l TkIdentifier v] (EIdent (at_loc l) v (val_is nxt "?.")) false nxt.
  Proof.
    intros KW OP cx OK. exists no_extra. pose proof KW as (K1 & K2 & K3).
    destruct cx as [top p f|[[|]|]]; cbn in OK.
    - destruct OK as [NP _]. assert (E : val_is nxt "?." = false).
      { destruct (val_is nxt "?.") eqn:E; [|reflexivity]. unfold pfx_start in NP. rewrite (OP eq_refl), E in NP. cbn in NP.
        rewrite orb_true_r in NP. discriminate NP. }
      rewrite E. repeat split; try assumption; discriminate.
    - destruct OK as (_ & _ & E). cbn [orb] in E. rewrite <- E. repeat split; try assumption.
    - destruct OK as (_ & _ & E). cbn [orb] in E. rewrite <- E. repeat split; try assumption; discriminate.
    - assert (E : val_is nxt "?." = false).
      { unfold tok_is in OK. cbn in OK. apply andb_prop in OK. destruct OK as [OK _]. rewrite orb_false_r in OK.
        apply String.eqb_eq in OK. unfold val_is. rewrite OK. reflexivity. }
      rewrite E. repeat split; try assumption; discriminate.
  Qed.

  Lemma ctx_ok_base_pfx pns nxt ns : ctx_ok (CBase pns) nxt ns -> pfx_start nxt = true.
  Proof.
    unfold pfx_start. destruct pns as [b|]; cbn [ctx_ok].
    - intros (K & D & _). rewrite K. unfold is_dot in D. cbn [orb andb]. rewrite D. reflexivity.
    - intros H. unfold tok_is in H. cbn in H. apply andb_prop in H. destruct H as [H1 H2]. rewrite orb_false_r in H1.
      unfold is_kind, tok_is. cbn. rewrite H2, orb_true_r. unfold val_is. rewrite H1, !orb_true_r. reflexivity.
  Qed.

  (* ---- unary operators: only ever in operand position *)
  Lemma Inv_unary d l v pu Pe e s nxt :
    lookup v (g_unary g) = Some pu -> Pr d (COp false pu (fol nxt)) Pe e s -> fol nxt < pu -> pfx_start nxt = false ->
    Inv d (mkTok l TkOperator v :: Pe) (EUnary (at_loc l) (unop_of_string v) e) false nxt.
  Proof.
    intros LU (ce & -> & We & _) LT NP cx OK.
    destruct cx as [top p f|pns]; [|apply ctx_ok_base_pfx in OK; congruence].
    destruct OK as [_ ->].
    assert (UP : uprec (unop_of_string v) = pu) by (unfold Printer.uprec; rewrite unop_rt, LU; reflexivity).
    exists (mk 0 (one ce)).
    assert (EP : parens (mk 0 (one ce)) (COp top p (fol nxt)) (EUnary (at_loc l) (unop_of_string v) e) = O).
    { unfold Printer.parens, Printer.needs_paren. rewrite UP, geb_false by exact LT. reflexivity. }
    split; [|split; [|exact I]].
    - rewrite (pr_unfold (mk _ _)), EP. cbn [wrap inner_ctx Printer.body ctx_pf]. rewrite UP, unop_rt. reflexivity.
    - rewrite (wfp_unfold (mk _ _)), EP. cbn [inner_ctx Printer.wfb ctx_pf]. rewrite UP.
      split; [reflexivity|]. split; [|exact We].
      split; [rewrite unop_rt; reflexivity|rewrite unop_rt, LU; discriminate].
  Qed.

  (* ---- postfix steps *)
  Lemma needs_postfix c cx t ns :
    is_literal t = false -> is_operator_node t = false -> (forall a n b, t <> EIdent a n b) ->
    sticky c t = ns -> (cx = CBase (Some false) -> ns = false) -> needs_paren c cx t = false.
  Proof.
    intros L O NI S F. unfold Printer.needs_paren. destruct cx as [top p f|pns].
    - destruct t; try reflexivity; discriminate.
    - rewrite L, O. cbn [orb]. destruct pns as [[|]|].
      + destruct t; try reflexivity. exfalso. eapply NI; reflexivity.
      + rewrite S. apply F. reflexivity.
      + destruct t; reflexivity.
  Qed.

  Lemma ctx_ok_false_ns b nxt ns : ctx_ok (CBase (Some b)) nxt ns -> b = false -> ns = false.
  Proof. cbn. intros (_ & _ & E) ->. symmetry in E. apply orb_false_iff in E. tauto. Qed.

  Lemma Inv_property d P e ns tk l nm nxt :
    Inv d P e ns tk -> is_kind tk TkOperator = true -> is_dot tk = true ->
    Inv d (P ++ [dot_tok (ns || val_is tk "?."); mkTok l TkIdentifier nm])
          (EProperty (at_loc l) e nm (ns || val_is tk "?.")) (ns || val_is tk "?.") nxt.
  Proof.
    intros H K D cx OK. set (ns' := ns || val_is tk "?.") in *.
    destruct (H (CBase (Some ns'))) as (c0 & E0 & W0 & S0); [cbn; auto|].
    exists (mk 0 (one c0)).
    assert (EP : parens (mk 0 (one c0)) cx (EProperty (at_loc l) e nm ns') = O).
    { unfold Printer.parens. rewrite (needs_postfix _ cx _ ns'); try reflexivity; try discriminate.
      intros ->. eapply ctx_ok_false_ns; eauto. }
    split; [|split].
    - rewrite (pr_unfold (mk _ _)), EP. cbn [wrap inner_ctx]. unfold Printer.body. destruct (ctx_pf cx). rewrite E0. reflexivity.
    - rewrite (wfp_unfold (mk _ _)), EP. cbn [inner_ctx]. unfold Printer.wfb. destruct (ctx_pf cx). split; [reflexivity|exact W0].
    - destruct cx; [exact I|]. unfold ParseProofs.stk. rewrite EP. reflexivity.
  Qed.

  Lemma Inv_index d P e ns tk l Pi i si nxt :
    Inv d P e ns tk -> tok_is tk TkBracket ["["%string] = true -> Pr d CTOP Pi i si ->
    Inv d (P ++ mkTok l TkBracket "[" :: Pi ++ [mkTok noloc TkBracket "]"]) (EIndex (at_loc l) e i) ns nxt.
  Proof.
    intros H K (ci & -> & Wi & _) cx OK.
    destruct (H (CBase None)) as (c0 & E0 & W0 & S0); [exact K|].
    exists (mk 0 (two c0 ci)).
    assert (ST : sticky (mk 0 (two c0 ci)) (EIndex (at_loc l) e i) = ns).
    { cbn [sticky]. rewrite (sticky_index_base g (mk 0 (two c0 ci)) e). exact S0. }
    assert (EP : parens (mk 0 (two c0 ci)) cx (EIndex (at_loc l) e i) = O).
    { unfold Printer.parens. rewrite (needs_postfix _ cx _ ns); try reflexivity; try discriminate; try exact ST.
      intros ->. eapply ctx_ok_false_ns; eauto. }
    split; [|split].
    - rewrite (pr_unfold (mk _ _)), EP. cbn [wrap inner_ctx]. unfold Printer.body. destruct (ctx_pf cx). rewrite E0. reflexivity.
    - rewrite (wfp_unfold (mk _ _)), EP. cbn [inner_ctx]. unfold Printer.wfb. destruct (ctx_pf cx). split; [reflexivity|]. split; [exact W0|exact Wi].
    - destruct cx; [exact I|]. unfold ParseProofs.stk. rewrite EP. exact ST.
  Qed.

  (* ---- slices *)
  Definition OPr (d : nat) (x : option expr) (P : list token) : Prop :=
    match x with Some y => exists s, Pr d CTOP P y s | None => P = [] end.

  Lemma OPr_orc d x P : OPr d x P ->
    exists c', P = match x with Some y => pr c' CTOP y | None => [] end /\
               match x with Some y => wfp c' d CTOP y | None => True end.
  Proof.
    destruct x as [y|]; cbn.
    - intros (s & c' & E & W & _). exists c'. auto.
    - intros ->. exists no_extra. auto.
  Qed.

  Lemma Inv_slice d P e ns tk l from to Pf Pt nxt :
    Inv d P e ns tk -> tok_is tk TkBracket ["["%string] = true -> OPr d from Pf -> OPr d to Pt ->
    Inv d (P ++ mkTok l TkBracket "[" :: Pf ++ colon :: Pt ++ [mkTok noloc TkBracket "]"]) (ESlice (at_loc l) e from to) ns nxt.
  Proof.
    intros H K HF HT cx OK.
    destruct (OPr_orc _ _ _ HF) as (cf & -> & Wf). destruct (OPr_orc _ _ _ HT) as (ct & -> & Wt).
    destruct (H (CBase None)) as (c0 & E0 & W0 & S0); [exact K|].
    exists (mk 0 (three c0 cf ct)).
    assert (ST : sticky (mk 0 (three c0 cf ct)) (ESlice (at_loc l) e from to) = ns).
    { cbn [sticky]. rewrite (sticky_index_base g (mk 0 (three c0 cf ct)) e). exact S0. }
    assert (EP : parens (mk 0 (three c0 cf ct)) cx (ESlice (at_loc l) e from to) = O).
    { unfold Printer.parens. rewrite (needs_postfix _ cx _ ns); try reflexivity; try discriminate; try exact ST.
      intros ->. eapply ctx_ok_false_ns; eauto. }
    split; [|split].
    - rewrite (pr_unfold (mk _ _)), EP. cbn [wrap inner_ctx]. unfold Printer.body. destruct (ctx_pf cx). rewrite E0.
      destruct from, to; reflexivity.
    - rewrite (wfp_unfold (mk _ _)), EP. cbn [inner_ctx]. unfold Printer.wfb. destruct (ctx_pf cx). split; [reflexivity|]. split; [exact W0|].
      split; [destruct from; exact Wf|destruct to; exact Wt].
    - destruct cx; [exact I|]. unfold ParseProofs.stk. rewrite EP. exact ST.
  Qed.

  (* ---- comma-separated sequences *)
  Definition SeqW (W : poracle -> expr -> Prop) (P : list token) (i : nat) (l : list expr) : Prop :=
    exists cf : nat -> poracle,
      P = pr_seq (fun j x => pr (cf j) CTOP x) i l /\ all_seq (fun j x => W (cf j) x) i l.
  Definition SeqPr (d : nat) := SeqW (fun c x => wfp c d CTOP x).

  Lemma pr_tail_ext (f f' : nat -> expr -> list token) : forall l i,
    (forall j x, (i <= j)%nat -> f j x = f' j x) -> pr_tail f i l = pr_tail f' i l.
  Proof.
    induction l as [|x r IH]; intros i H; [reflexivity|].
    cbn [pr_tail]. rewrite (H i x) by lia. do 2 f_equal. apply IH. intros j y Hj. apply H. lia.
  Qed.

  Lemma pr_seq_ext (f f' : nat -> expr -> list token) : forall l i,
    (forall j x, (i <= j)%nat -> f j x = f' j x) -> pr_seq f i l = pr_seq f' i l.
  Proof.
    intros [|x r] i H; [reflexivity|].
    rewrite !pr_seq_cons. rewrite (H i x) by lia. f_equal. apply pr_tail_ext. intros j y Hj. apply H. lia.
  Qed.

  Lemma all_seq_ext (Q Q' : nat -> expr -> Prop) : forall l i,
    (forall j x, (i <= j)%nat -> Q j x -> Q' j x) -> all_seq Q i l -> all_seq Q' i l.
  Proof.
    induction l as [|x r IH]; intros i H A; [exact I|].
    rewrite all_seq_cons in A |- *. destruct A as [A1 A2]. split; [apply H; [lia|exact A1]|].
    apply IH; [|exact A2]. intros j y Hj. apply H. lia.
  Qed.

  Lemma pr_seq_snoc f : forall l i x, l <> [] ->
    pr_seq f i (l ++ [x]) = pr_seq f i l ++ comma :: f (i + List.length l)%nat x.
  Proof.
    induction l as [|y r IH]; intros i x NE; [congruence|].
    destruct r as [|z r].
    - cbn. rewrite Nat.add_1_r. reflexivity.
    - change ((y :: z :: r) ++ [x]) with (y :: ((z :: r) ++ [x])).
      change (pr_seq f i (y :: (z :: r) ++ [x])) with (f i y ++ comma :: pr_seq f (S i) ((z :: r) ++ [x])).
      rewrite IH by discriminate.
      change (pr_seq f i (y :: z :: r)) with (f i y ++ comma :: pr_seq f (S i) (z :: r)).
      rewrite <- app_assoc. cbn [app List.length].
      replace (S i + S (List.length r))%nat with (i + S (S (List.length r)))%nat by lia. reflexivity.
  Qed.

  Lemma all_seq_snoc (Q : nat -> expr -> Prop) : forall l i x,
    all_seq Q i l -> Q (i + List.length l)%nat x -> all_seq Q i (l ++ [x]).
  Proof.
    induction l as [|y r IH]; intros i x A H.
    - cbn in *. rewrite Nat.add_0_r in H. tauto.
    - cbn [app]. rewrite all_seq_cons in A |- *. destruct A as [A1 A2]. split; [exact A1|].
      apply IH; [exact A2|]. cbn [List.length] in H. replace (S i + List.length r)%nat with (i + S (List.length r))%nat by lia. exact H.
  Qed.

  Lemma SeqW_nil W i : SeqW W [] i [].
  Proof. exists (fun _ => no_extra). split; [reflexivity|exact I]. Qed.

  Lemma SeqW_one W Px x i : (exists c, Px = pr c CTOP x /\ W c x) -> SeqW W Px i [x].
  Proof. intros (c & -> & H). exists (fun _ => c). split; [reflexivity|]. split; [exact H|exact I]. Qed.

  Lemma SeqW_snoc W P i l Px x : SeqW W P i l -> l <> [] -> (exists c, Px = pr c CTOP x /\ W c x) ->
    SeqW W (P ++ comma :: Px) i (l ++ [x]).
  Proof.
    intros (cf & -> & A) NE (c & -> & H).
    exists (fun j => if Nat.ltb j (i + List.length l) then cf j else c).
    assert (LT : forall j, (j < i + List.length l)%nat -> Nat.ltb j (i + List.length l) = true) by (intros j Hj; apply Nat.ltb_lt; exact Hj).
    split.
    - rewrite pr_seq_snoc by exact NE. rewrite Nat.ltb_irrefl. f_equal.
      clear NE A H. revert i LT. induction l as [|y r IH]; intros i LT; [reflexivity|].
      rewrite !pr_seq_cons. rewrite LT by (cbn [List.length]; lia). f_equal.
      assert (T : forall r0 i0, (forall j, (j < i0 + List.length r0)%nat -> Nat.ltb j (i + List.length (y :: r)) = true) ->
                pr_tail (fun j x0 => pr (cf j) CTOP x0) i0 r0 =
                pr_tail (fun j x0 => pr (if Nat.ltb j (i + List.length (y :: r)) then cf j else c) CTOP x0) i0 r0).
      { induction r0 as [|z r0 IH0]; intros i0 H0; [reflexivity|]. cbn [pr_tail].
        rewrite (H0 i0) by (cbn [List.length]; lia). do 2 f_equal. apply IH0. intros j Hj. apply H0. cbn [List.length]. lia. }
      apply T. intros j Hj. apply LT. cbn [List.length]. lia.
    - apply all_seq_snoc.
      + clear NE H. revert i A LT. induction l as [|y r IH]; intros i A LT; [exact I|].
        rewrite all_seq_cons in A |- *. destruct A as [A1 A2]. rewrite LT by (cbn [List.length]; lia). split; [exact A1|].
        assert (T : forall r0 i0, (forall j, (i0 <= j < i0 + List.length r0)%nat -> Nat.ltb j (i + List.length (y :: r)) = true) ->
                  all_seq (fun j x0 => W (cf j) x0) i0 r0 ->
                  all_seq (fun j x0 => W (if Nat.ltb j (i + List.length (y :: r)) then cf j else c) x0) i0 r0).
        { induction r0 as [|z r0 IH0]; intros i0 H0 B; [exact I|]. rewrite all_seq_cons in B |- *. destruct B as [B1 B2].
          rewrite (H0 i0) by (cbn [List.length]; lia). split; [exact B1|]. apply IH0; [|exact B2]. intros j Hj. apply H0. cbn [List.length]. lia. }
        apply T; [|exact A2]. intros j Hj. apply LT. cbn [List.length]. lia.
      + rewrite Nat.ltb_irrefl. exact H.
  Qed.

  Lemma Pr_elem d Px x s : Pr d CTOP Px x s -> exists c, Px = pr c CTOP x /\ wfp c d CTOP x.
  Proof. intros (c & E & W & _). exists c. auto. Qed.

  (* ---- method calls *)
  Lemma Inv_method d P e ns tk l nm Pa args nxt :
    Inv d P e ns tk -> is_kind tk TkOperator = true -> is_dot tk = true -> SeqPr d Pa 1 args ->
    Inv d (P ++ dot_tok (ns || val_is tk "?.") :: mkTok l TkIdentifier nm :: lparen :: Pa ++ [rparen])
          (EMethod (at_loc l) e nm args (ns || val_is tk "?.")) (ns || val_is tk "?.") nxt.
  Proof.
    intros H K D (cf & -> & A) cx OK. set (ns' := ns || val_is tk "?.") in *.
    destruct (H (CBase (Some ns'))) as (c0 & E0 & W0 & S0); [cbn; auto|].
    set (cc := mk 0 (fun j => match j with O => c0 | S _ => cf j end)).
    exists cc.
    assert (EP : parens cc cx (EMethod (at_loc l) e nm args ns') = O).
    { unfold Printer.parens. rewrite (needs_postfix _ cx _ ns'); try reflexivity; try discriminate.
      intros ->. eapply ctx_ok_false_ns; eauto. }
    split; [|split].
    - rewrite (pr_unfold cc), EP. cbn [wrap inner_ctx]. unfold Printer.body. destruct (ctx_pf cx). rewrite E0.
      do 5 f_equal. apply pr_seq_ext. intros j x Hj. destruct j; [lia|reflexivity].
    - rewrite (wfp_unfold cc), EP. cbn [inner_ctx]. unfold Printer.wfb. destruct (ctx_pf cx). split; [reflexivity|]. split; [exact W0|].
      revert A. apply all_seq_ext. intros j x Hj. destruct j; [lia|]. intros Q; exact Q.
    - destruct cx; [exact I|]. unfold ParseProofs.stk. rewrite EP. reflexivity.
  Qed.

  (* ---- nodes whose shape does not depend on the context *)
  Definition PrAny (d : nat) (P : list token) (t : expr) : Prop := forall cx, Pr d cx P t false.

  Lemma Pr_pointer d l : PrAny (S d) [mkTok l TkOperator "#"] (EPointer (at_loc l)).
  Proof.
    intros cx. exists no_extra.
    assert (EP : parens no_extra cx (EPointer (at_loc l)) = O).
    { unfold Printer.parens. rewrite (needs_postfix _ cx _ false); try reflexivity; discriminate. }
    split; [|split].
    - rewrite pr_unfold, EP. cbn [wrap inner_ctx]. unfold Printer.body. destruct (ctx_pf cx). reflexivity.
    - rewrite wfp_unfold, EP. cbn [inner_ctx]. unfold Printer.wfb. destruct (ctx_pf cx). split; [reflexivity|discriminate].
    - unfold ParseProofs.stk. rewrite EP. reflexivity.
  Qed.

  Lemma Pr_function d l nm Pa args :
    not_keyword nm -> lookup nm (g_builtins g) = None -> SeqPr d Pa 0 args ->
    PrAny d (mkTok l TkIdentifier nm :: lparen :: Pa ++ [rparen]) (EFunction (at_loc l) nm args false).
  Proof.
    intros KW NB (cf & -> & A) cx. exists (mk 0 cf).
    assert (EP : parens (mk 0 cf) cx (EFunction (at_loc l) nm args false) = O).
    { unfold Printer.parens. rewrite (needs_postfix _ cx _ false); try reflexivity; discriminate. }
    split; [|split].
    - rewrite (pr_unfold (mk _ _)), EP. cbn [wrap inner_ctx]. unfold Printer.body. destruct (ctx_pf cx). reflexivity.
    - rewrite (wfp_unfold (mk _ _)), EP. cbn [inner_ctx]. unfold Printer.wfb. destruct (ctx_pf cx).
      split; [reflexivity|]. split; [reflexivity|]. split; [exact KW|]. split; [exact NB|exact A].
    - unfold ParseProofs.stk. rewrite EP. reflexivity.
  Qed.

  Lemma Pr_array d l Pa es :
    SeqPr d Pa 0 es -> PrAny d (mkTok l TkBracket "[" :: Pa ++ [mkTok noloc TkBracket "]"]) (EArray (at_loc l) es).
  Proof.
    intros (cf & -> & A) cx. exists (mk 0 cf).
    assert (EP : parens (mk 0 cf) cx (EArray (at_loc l) es) = O).
    { unfold Printer.parens. rewrite (needs_postfix _ cx _ false); try reflexivity; discriminate. }
    split; [|split].
    - rewrite (pr_unfold (mk _ _)), EP. cbn [wrap inner_ctx]. unfold Printer.body. destruct (ctx_pf cx). reflexivity.
    - rewrite (wfp_unfold (mk _ _)), EP. cbn [inner_ctx]. unfold Printer.wfb. destruct (ctx_pf cx).
      split; [reflexivity|exact A].
    - unfold ParseProofs.stk. rewrite EP. reflexivity.
  Qed.

  (* ---- builtins *)
  Lemma Pr_builtin1 d l nm ar Px x sx :
    lookup nm (g_builtins g) = Some ar -> (ar =? 1) = true -> not_keyword nm -> Pr d CTOP Px x sx ->
    PrAny d (mkTok l TkIdentifier nm :: lparen :: Px ++ [rparen]) (EBuiltin (at_loc l) (builtin_of_string nm) [x]).
  Proof.
    intros LB A1 KW (cx' & -> & Wx & _) cx. exists (mk 0 (one cx')).
    assert (EP : parens (mk 0 (one cx')) cx (EBuiltin (at_loc l) (builtin_of_string nm) [x]) = O).
    { unfold Printer.parens. rewrite (needs_postfix _ cx _ false); try reflexivity; discriminate. }
    split; [|split].
    - rewrite (pr_unfold (mk _ _)), EP. cbn [wrap inner_ctx]. unfold Printer.body. destruct (ctx_pf cx). rewrite builtin_rt. reflexivity.
    - rewrite (wfp_unfold (mk _ _)), EP. cbn [inner_ctx]. unfold Printer.wfb. destruct (ctx_pf cx). rewrite builtin_rt, LB, A1.
      split; [reflexivity|]. split; [reflexivity|]. split; [exact KW|exact Wx].
    - unfold ParseProofs.stk. rewrite EP. reflexivity.
  Qed.

  Lemma Pr_builtin2 d l nm ar Px x sx lc Pe e se :
    lookup nm (g_builtins g) = Some ar -> (ar =? 1) = false -> (ar =? 2) = true -> not_keyword nm ->
    Pr d CTOP Px x sx -> Pr (S d) CTOP Pe e se ->
    PrAny d (mkTok l TkIdentifier nm :: lparen :: (Px ++ comma :: mkTok lc TkBracket "{" :: Pe ++ [mkTok noloc TkBracket "}"]) ++ [rparen])
          (EBuiltin (at_loc l) (builtin_of_string nm) [x; EClosure (at_loc lc) e]).
  Proof.
    intros LB A1 A2 KW (cx' & -> & Wx & _) (ce & -> & We & _) cx.
    set (cc := mk 0 (two cx' (mk 0 (one ce)))). exists cc.
    assert (EP : parens cc cx (EBuiltin (at_loc l) (builtin_of_string nm) [x; EClosure (at_loc lc) e]) = O).
    { unfold Printer.parens. rewrite (needs_postfix _ cx _ false); try reflexivity; discriminate. }
    split; [|split].
    - rewrite (pr_unfold cc), EP. cbn [wrap inner_ctx]. unfold Printer.body. destruct (ctx_pf cx). rewrite builtin_rt. reflexivity.
    - rewrite (wfp_unfold cc), EP. cbn [inner_ctx]. unfold Printer.wfb. destruct (ctx_pf cx). rewrite builtin_rt, LB, A1, A2.
      split; [reflexivity|]. split; [reflexivity|]. split; [exact KW|].
      split; [exact Wx|]. split; [reflexivity|]. split; [reflexivity|exact We].
    - unfold ParseProofs.stk. rewrite EP. reflexivity.
  Qed.

  Lemma Pr_builtin0 d l nm ar :
    lookup nm (g_builtins g) = Some ar -> (ar =? 1) = false -> (ar =? 2) = false -> not_keyword nm ->
    PrAny d (mkTok l TkIdentifier nm :: lparen :: [] ++ [rparen]) (EBuiltin (at_loc l) (builtin_of_string nm) []).
  Proof.
    intros LB A1 A2 KW cx. exists no_extra.
    assert (EP : parens no_extra cx (EBuiltin (at_loc l) (builtin_of_string nm) []) = O).
    { unfold Printer.parens. rewrite (needs_postfix _ cx _ false); try reflexivity; discriminate. }
    split; [|split].
    - rewrite pr_unfold, EP. cbn [wrap inner_ctx]. unfold Printer.body. destruct (ctx_pf cx). rewrite builtin_rt. reflexivity.
    - rewrite wfp_unfold, EP. cbn [inner_ctx]. unfold Printer.wfb. destruct (ctx_pf cx). rewrite builtin_rt, LB, A1, A2.
      split; [reflexivity|]. split; [reflexivity|]. split; [exact KW|reflexivity].
    - unfold ParseProofs.stk. rewrite EP. reflexivity.
  Qed.

  (* ---- maps *)
  Definition PairW (d : nat) (mloc : loc) (c : poracle) (pair : expr) : Prop :=
    match pair with
    | EPair ap k v =>
        ap = at_loc mloc /\ c [] = O /\ wfp (sub c 0%nat) d CTOP k /\ wfp (sub c 1%nat) d CTOP v
    | _ => False
    end.

  Lemma loc_eqb_refl' (x : loc) : loc_eqb x x = true.
  Proof. destruct x as [a b]. unfold loc_eqb. cbn. rewrite !Z.eqb_refl. reflexivity. Qed.

  Lemma Pair_bare d mloc s Pv v sv : Pr d CTOP Pv v sv ->
    exists c, mkTok noloc TkString s :: colon :: Pv = pr c CTOP (EPair (at_loc mloc) (EStr (at_loc mloc) s) v) /\
              PairW d mloc c (EPair (at_loc mloc) (EStr (at_loc mloc) s) v).
  Proof.
    intros (cv & -> & Wv & _). exists (mk 0 (two no_extra cv)). split.
    - rewrite (pr_unfold (mk _ _)). unfold Printer.parens. cbn [mk Printer.needs_paren CTOP Nat.add wrap inner_ctx Printer.body ctx_pf key_bare at_loc aloc].
      rewrite loc_eqb_refl'. reflexivity.
    - cbn. repeat split. exact Wv.
  Qed.

  Lemma Pair_paren d mloc Pk k sk Pv v sv : Pr d CTOP Pk k sk -> key_bare (at_loc mloc) k = false -> Pr d CTOP Pv v sv ->
    exists c, lparen :: Pk ++ rparen :: colon :: Pv = pr c CTOP (EPair (at_loc mloc) k v) /\
              PairW d mloc c (EPair (at_loc mloc) k v).
  Proof.
    intros (ck & -> & Wk & _) KB (cv & -> & Wv & _). exists (mk 0 (two ck cv)). split.
    - rewrite (pr_unfold (mk _ _)). unfold Printer.parens. cbn [mk Printer.needs_paren CTOP Nat.add wrap inner_ctx Printer.body ctx_pf].
      rewrite KB. cbn [app]. rewrite <- app_assoc. reflexivity.
    - cbn. repeat split; assumption.
  Qed.

  Lemma Pr_map d l Pp ps :
    SeqW (PairW d l) Pp 0 ps -> PrAny d (mkTok l TkBracket "{" :: Pp ++ [mkTok noloc TkBracket "}"]) (EMap (at_loc l) ps).
  Proof.
    intros (cf & -> & A) cx. exists (mk 0 cf).
    assert (EP : parens (mk 0 cf) cx (EMap (at_loc l) ps) = O).
    { unfold Printer.parens. rewrite (needs_postfix _ cx _ false); try reflexivity; discriminate. }
    split; [|split].
    - rewrite (pr_unfold (mk _ _)), EP. cbn [wrap inner_ctx]. unfold Printer.body. destruct (ctx_pf cx). reflexivity.
    - rewrite (wfp_unfold (mk _ _)), EP. cbn [inner_ctx]. unfold Printer.wfb. destruct (ctx_pf cx).
      split; [reflexivity|]. revert A. apply all_seq_ext. intros j x _ Q. unfold PairW in Q. destruct x; exact Q.
    - unfold ParseProofs.stk. rewrite EP. reflexivity.
  Qed.

  (* ---- binary operators, matches, conditional *)
  (* an operand at level p with follower precedence f, in both `top` variants *)
  Definition Opd (d : nat) (p f : Z) (P : list token) (t : expr) : Prop :=
    forall top, exists s, Pr d (COp top p f) P t s.

  Lemma Pr_binary d l v po ra Pl L Pr_ R p f :
    lookup v (g_binary g) = Some (po, ra) -> String.eqb v "matches" = false -> p <= po -> f < qprec (po, ra) ->
    Opd d p po Pl L -> Opd d (qprec (po, ra)) f Pr_ R ->
    Opd d p f (Pl ++ mkTok l TkOperator v :: Pr_) (EBinary (at_loc l) (binop_of_string v) L R).
  Proof.
    intros LB NM LE LT HL HR top.
    destruct (HL false) as (sl & cl & -> & Wl & _). destruct (HR false) as (sr & cr & -> & Wr & _).
    set (cc := mk 0 (two cl cr)).
    assert (BP : bprec (string_of_binop (binop_of_string v)) = (po, ra)) by (unfold Printer.bprec; rewrite binop_rt, LB; reflexivity).
    assert (EP : parens cc (COp top p f) (EBinary (at_loc l) (binop_of_string v) L R) = O).
    { unfold Printer.parens, Printer.needs_paren. rewrite BP. cbn [fst].
      replace (po <? p) with false by (symmetry; apply Z.ltb_ge; lia). rewrite geb_false by exact LT. reflexivity. }
    exists (stk cc (COp top p f) (EBinary (at_loc l) (binop_of_string v) L R)), cc. split; [|split; [|reflexivity]].
    - rewrite (pr_unfold cc), EP. cbn [wrap inner_ctx Printer.body ctx_pf]. rewrite BP, binop_rt. reflexivity.
    - rewrite (wfp_unfold cc), EP. cbn [inner_ctx Printer.wfb ctx_pf]. rewrite BP.
      split; [reflexivity|]. split; [|split; [exact Wl|exact Wr]].
      split; [rewrite binop_rt; reflexivity|]. rewrite binop_rt, LB. split; [discriminate|exact NM].
  Qed.

  Lemma Pr_matches d l po ra Pl L Pr_ R p f :
    lookup "matches"%string (g_binary g) = Some (po, ra) -> p <= po -> f < qprec (po, ra) ->
    (forall a s, R = EStr a s -> o_regex o s = true) ->
    Opd d p po Pl L -> Opd d (qprec (po, ra)) f Pr_ R ->
    Opd d p f (Pl ++ mkTok l TkOperator "matches" :: Pr_)
        (EMatches (at_loc l) (match R with EStr _ s => Some s | _ => None end) L R).
  Proof.
    intros LB LE LT RX HL HR top.
    destruct (HL false) as (sl & cl & -> & Wl & _). destruct (HR false) as (sr & cr & -> & Wr & _).
    set (cc := mk 0 (two cl cr)).
    set (re := match R with EStr _ s => Some s | _ => None end).
    assert (BP : bprec "matches" = (po, ra)) by (unfold Printer.bprec; rewrite LB; reflexivity).
    assert (EP : parens cc (COp top p f) (EMatches (at_loc l) re L R) = O).
    { unfold Printer.parens, Printer.needs_paren. rewrite BP. cbn [fst].
      replace (po <? p) with false by (symmetry; apply Z.ltb_ge; lia). rewrite geb_false by exact LT. reflexivity. }
    exists (stk cc (COp top p f) (EMatches (at_loc l) re L R)), cc. split; [|split; [|reflexivity]].
    - rewrite (pr_unfold cc), EP. cbn [wrap inner_ctx Printer.body ctx_pf]. rewrite BP. reflexivity.
    - rewrite (wfp_unfold cc), EP. cbn [inner_ctx Printer.wfb ctx_pf]. rewrite BP.
      split; [reflexivity|]. split; [rewrite LB; discriminate|]. split; [reflexivity|].
      split; [|split; [exact Wl|exact Wr]].
      intros s0 E. subst re. destruct R; try discriminate E. injection E as ->. eapply RX. reflexivity.
  Qed.

  Lemma Pr_cond d Pc C P1 X s1 P2 Y s2 :
    Opd d 0 0 Pc C -> Pr d CTOP P1 X s1 -> Pr d CTOP P2 Y s2 ->
    Pr d CTOP (Pc ++ mkTok noloc TkOperator "?" :: P1 ++ colon :: P2) (ECond ann0 C X Y) false.
  Proof.
    intros HC (c1 & -> & W1 & _) (c2 & -> & W2 & _).
    destruct (HC false) as (sc & cc0 & -> & Wc & _).
    set (cc := mk 0 (three cc0 c1 c2)). exists cc.
    assert (EP : parens cc CTOP (ECond ann0 C X Y) = O) by reflexivity.
    split; [|split].
    - rewrite (pr_unfold cc), EP. reflexivity.
    - rewrite (wfp_unfold cc), EP. cbn [inner_ctx]. unfold CTOP. cbn [Printer.wfb ctx_pf].
      split; [reflexivity|]. split; [exact Wc|split; [exact W1|exact W2]].
    - unfold ParseProofs.stk. rewrite EP. reflexivity.
  Qed.

  Lemma Opd_of_Pr_lit d P t : (forall top p f, Pr d (COp top p f) P t false) -> forall p f, Opd d p f P t.
  Proof. intros H p f top. exists false. apply H. Qed.
End SP.

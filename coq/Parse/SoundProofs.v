(* Parse/SoundProofs.v — the SOUNDNESS half of property C11: every token sequence the parser accepts is,
   after the explicit normalisation `normalize` of Parse/Sound.v, a printing `print_any c t` of the tree
   it returns, for a parenthesis oracle c read off the `(` `)` actually present, and the tree is
   `printable c`.  Consequences (end of file): the tree of an accepted sequence is the unique tree the
   reference grammar (the image of the printer) assigns to it; what the reference grammar does not
   generate is rejected.

   Method.  Induction on the fuel of the parser model; one lemma per parser function.  Each lemma has the
   "continuation" form
        norm st stk ts = P ++ norm st' stk rest
   (P = the printer's tokens of the node just parsed, rest = what the parser left), so that the look-ahead
   and the bracket stack of `norm` never have to be split.  The oracle is assembled bottom-up
   (Parse/SoundPrProofs.v). *)
From Coq Require Import ZArith Bool List String Ascii Floats Lia.
Require Import X.Base.Num X.Base.Value X.Syn.Ast X.Syn.Tok X.Parse.Parser X.Parse.Printer X.Parse.ParseProofs
               X.Parse.Sound X.Parse.SoundPrProofs.
Import ListNotations.
Open Scope Z_scope.

(* ------------------------------------------------------------------ inversion of the parser's combinators *)
Lemma pbind_inv {A B : Type} (r : pres A) (k : A -> list token -> pres B) b rest :
  pbind r k = POk b rest -> exists a ts1, r = POk a ts1 /\ k a ts1 = POk b rest.
Proof. destruct r as [a ts1| |]; cbn; intros H; try discriminate. eauto. Qed.

Lemma next_inv {A : Type} (ts : list token) (k : list token -> pres A) a rest :
  next ts k = POk a rest -> exists tk r, ts = tk :: r /\ r <> [] /\ k r = POk a rest.
Proof.
  destruct ts as [|tk [|t2 r]]; cbn; intros H; try discriminate.
  exists tk, (t2 :: r). repeat split; [discriminate|exact H].
Qed.

Lemma expect_inv {A : Type} kd v (ts : list token) (k : list token -> pres A) a rest :
  expect kd v ts k = POk a rest ->
  exists tk r, ts = tk :: r /\ r <> [] /\ tok_is tk kd [v] = true /\ k r = POk a rest.
Proof.
  unfold expect. destruct (tok_is (cur ts) kd [v]) eqn:E; [|discriminate].
  intros H. apply next_inv in H. destruct H as (tk & r & -> & NE & H). exists tk, r. repeat split; assumption.
Qed.

Lemma tok_is_inv tk kd v : tok_is tk kd [v] = true -> tkind_of tk = kd /\ tval tk = v.
Proof.
  unfold tok_is. cbn. rewrite orb_false_r. intros H. apply andb_prop in H. destruct H as [H1 H2].
  apply String.eqb_eq in H1. split; [|exact H1]. destruct kd, (tkind_of tk); try discriminate H2; reflexivity.
Qed.

Lemma tok_eta tk : tk = mkTok (tloc tk) (tkind_of tk) (tval tk).
Proof. destruct tk; reflexivity. Qed.

Lemma is_kind_inv tk kd : is_kind tk kd = true -> tkind_of tk = kd.
Proof. unfold is_kind, tok_is. destruct kd, (tkind_of tk); try discriminate; reflexivity. Qed.

Lemma tok_is_kind tk kd v : tok_is tk kd [v] = true -> is_kind tk kd = true.
Proof. unfold is_kind, tok_is. cbn. intros H. apply andb_prop in H. tauto. Qed.

Lemma tok_is_val tk kd v : tok_is tk kd [v] = true -> val_is tk v = true.
Proof. unfold val_is, tok_is. cbn. rewrite orb_false_r. intros H. apply andb_prop in H. tauto. Qed.

Lemma tok_is_build tk kd v : tkind_of tk = kd -> tval tk = v -> tok_is tk kd [v] = true.
Proof. intros <- <-. unfold tok_is. cbn. rewrite String.eqb_refl. destruct (tkind_of tk); reflexivity. Qed.

Lemma tok_is_diff tk kd v kd' v' : tok_is tk kd [v] = true -> v <> v' \/ kd <> kd' -> tok_is tk kd' [v'] = false.
Proof.
  intros H D. apply tok_is_inv in H. destruct H as [K V]. destruct (tok_is tk kd' [v']) eqn:E; [|reflexivity].
  apply tok_is_inv in E. destruct E as [K' V']. destruct D; congruence.
Qed.

Ltac la := repeat first [rewrite <- app_assoc | progress cbn [app]]; reflexivity.

(* ------------------------------------------------------------------ steps of the normaliser *)
Section Steps.
  Variable g : grammar.
  Variable o : oracles.
  Variable fmt_int : Z -> string.
  Variable fmt_float : float -> string.
  Notation N := (norm g o fmt_int fmt_float).

  Definition not_dot_state (st : nst) : Prop := match st with NDot _ => False | _ => True end.

  Lemma n_lparen st stk tk r : tok_is tk TkBracket ["("%string] = true ->
    N st stk (tk :: r) = lparen :: N NOpen ((flag_of st, if in_key_pos st then KKey else KParen) :: stk) r.
  Proof. intros H. apply tok_is_inv in H. destruct H as [K V]. destruct tk as [l k v]. cbn in K, V. subst. reflexivity. Qed.

  Lemma n_lbrack st stk tk r : tok_is tk TkBracket ["["%string] = true ->
    N st stk (tk :: r) = mkTok (tloc tk) TkBracket "[" :: N NOpen ((flag_of st, if is_end st then KIndex else KBrack) :: stk) r.
  Proof. intros H. apply tok_is_inv in H. destruct H as [K V]. destruct tk as [l k v]. cbn in K, V. subst. reflexivity. Qed.

  Lemma n_lbrace st stk tk r : tok_is tk TkBracket ["{"%string] = true ->
    N st stk (tk :: r) = mkTok (tloc tk) TkBracket "{" ::
      match st with NOpenC => N NOpen ((false, KClos) :: stk) r | _ => N NOpenK ((false, KMap) :: stk) r end.
  Proof.
    intros H. apply tok_is_inv in H. destruct H as [K V]. destruct tk as [l k v]. cbn in K, V. subst.
    destruct st; reflexivity.
  Qed.

  Lemma n_close st stk tk r v : tok_is tk TkBracket [v] = true -> v = ")"%string \/ v = "]"%string \/ v = "}"%string ->
    N st stk (tk :: r) = mkTok noloc TkBracket v ::
      mark (is_key_kind (top_kind stk) && negb (is_colon (cur r))) (N (NEnd (top_flag stk)) (List.tl stk) r).
  Proof.
    intros H D. apply tok_is_inv in H. destruct H as [K V]. destruct tk as [l k v0]. cbn in K, V. subst.
    destruct D as [-> | [-> | ->]]; reflexivity.
  Qed.

  Definition punct_val (v : string) : bool :=
    String.eqb v "." || String.eqb v "?." || String.eqb v "," || String.eqb v ":" || String.eqb v "?" || String.eqb v "#".

  Lemma n_op_plain st stk tk r : is_kind tk TkOperator = true -> not_dot_state st -> punct_val (tval tk) = false ->
    N st stk (tk :: r) = tk :: N NOpen stk r.
  Proof.
    intros K ND PV. apply is_kind_inv in K. destruct tk as [l k v]. cbn in K, PV. subst k.
    unfold punct_val in PV. repeat (apply orb_false_iff in PV; destruct PV as [PV ?]).
    cbn [norm tkind_of]. unfold is_dot, val_is. cbn [tval].
    repeat match goal with H : String.eqb v _ = false |- _ => rewrite H; clear H end.
    destruct st; try reflexivity. contradiction.
  Qed.

  Lemma n_name st stk tk r fl : st = NDot fl ->
    tkind_of tk = TkIdentifier \/ (tkind_of tk = TkOperator /\ valid_identifier (tval tk) = true) ->
    N st stk (tk :: r) = mkTok (tloc tk) TkIdentifier (tval tk) :: N (NEnd fl) stk r.
  Proof.
    intros -> K. destruct tk as [l k v]. cbn in K. destruct K as [->|[-> V]]; [reflexivity|].
    cbn [norm tkind_of tval tloc]. rewrite V. reflexivity.
  Qed.

  Lemma n_dot_end stk tk r fl : is_kind tk TkOperator = true -> is_dot tk = true ->
    N (NEnd fl) stk (tk :: r) = dot_tok (fl || val_is tk "?.") :: N (NDot (fl || val_is tk "?.")) stk r.
  Proof.
    intros K D. apply is_kind_inv in K. destruct tk as [l k v]. cbn in K. subst k.
    cbn [norm tkind_of]. rewrite D. reflexivity.
  Qed.

  Lemma n_dot_open st stk tk r : tok_is tk TkOperator ["."%string] = true ->
    match st with NOpen | NOpenK | NOpenC => True | _ => False end ->
    N st stk (tk :: r) = mkTok (tloc tk) TkOperator "#" :: N (NEnd false) stk (tk :: r).
  Proof.
    intros H S. apply tok_is_inv in H. destruct H as [K V]. destruct tk as [l k v]. cbn in K, V. subst.
    destruct st; try contradiction; reflexivity.
  Qed.

  Lemma n_comma st stk tk r : tok_is tk TkOperator [","%string] = true -> not_dot_state st ->
    N st stk (tk :: r) =
    match top_kind stk with
    | KCall2 => comma :: N NOpenC stk r
    | KMap => if is_end st && tok_is (cur r) TkBracket ["}"%string] then N (NEnd false) stk r else comma :: N NOpenK stk r
    | KBrack => if is_end st && tok_is (cur r) TkBracket ["]"%string] then N (NEnd false) stk r else comma :: N NOpen stk r
    | _ => comma :: N NOpen stk r
    end.
  Proof.
    intros H S. apply tok_is_inv in H. destruct H as [K V]. destruct tk as [l k v]. cbn in K, V. subst.
    destruct st; try contradiction; reflexivity.
  Qed.

  Lemma n_colon st stk tk r : tok_is tk TkOperator [":"%string] = true -> not_dot_state st ->
    N st stk (tk :: r) = colon :: N NOpen stk r.
  Proof.
    intros H S. apply tok_is_inv in H. destruct H as [K V]. destruct tk as [l k v]. cbn in K, V. subst.
    destruct st; try contradiction; reflexivity.
  Qed.

  Lemma n_quest st stk tk r : tok_is tk TkOperator ["?"%string] = true -> not_dot_state st ->
    N st stk (tk :: r) = mkTok noloc TkOperator "?" :: mark (is_colon (cur r)) (N NOpen stk r).
  Proof.
    intros H S. apply tok_is_inv in H. destruct H as [K V]. destruct tk as [l k v]. cbn in K, V. subst.
    destruct st; try contradiction; reflexivity.
  Qed.

  Lemma n_hash st stk tk r : tok_is tk TkOperator ["#"%string] = true -> not_dot_state st ->
    N st stk (tk :: r) = mkTok (tloc tk) TkOperator "#" :: N (NEnd false) stk r.
  Proof.
    intros H S. apply tok_is_inv in H. destruct H as [K V]. destruct tk as [l k v]. cbn in K, V. subst.
    destruct st; try contradiction; reflexivity.
  Qed.

  Lemma n_eof st stk tk r : is_kind tk TkEOF = true -> N st stk (tk :: r) = [eof_at noloc].
  Proof. intros K. apply is_kind_inv in K. destruct tk as [l k v]. cbn in K. subst k. reflexivity. Qed.

  (* operand tokens, outside key position *)
  Definition plain_open (st : nst) : Prop := match st with NOpen | NOpenC => True | _ => False end.

  Lemma n_keyword st stk tk r : tkind_of tk = TkIdentifier -> is_keyword (tval tk) = true -> plain_open st ->
    N st stk (tk :: r) = tk :: mark (pfx_start (cur r)) (N (NEnd false) stk r).
  Proof.
    intros K KW S. destruct tk as [l k v]. cbn in K, KW. subst k. cbn [norm tkind_of tval].
    rewrite KW. destruct st; try contradiction; reflexivity.
  Qed.

  Lemma n_call st stk tk lp r : tkind_of tk = TkIdentifier -> is_keyword (tval tk) = false -> plain_open st ->
    tok_is lp TkBracket ["("%string] = true ->
    N st stk (tk :: lp :: r) = tk :: lparen :: N NOpen ((false, callkind g (tval tk)) :: stk) r.
  Proof.
    intros K KW S LP. destruct tk as [l k v]. cbn in K, KW. subst k. cbn [norm tkind_of tval].
    rewrite KW, LP. destruct st; try contradiction; reflexivity.
  Qed.

  Lemma n_ident st stk tk r : tkind_of tk = TkIdentifier -> is_keyword (tval tk) = false -> plain_open st ->
    r <> [] -> tok_is (cur r) TkBracket ["("%string] = false ->
    N st stk (tk :: r) = tk :: mark (val_is (cur r) "?." && negb (is_kind (cur r) TkOperator)) (N (NEnd false) stk r).
  Proof.
    intros K KW S NE LP. destruct tk as [l k v]. cbn in K, KW. subst k. cbn [norm tkind_of tval].
    rewrite KW. destruct r as [|lp r']; [congruence|]. cbn [cur] in LP |- *. rewrite LP.
    destruct st; try contradiction; reflexivity.
  Qed.

  Lemma n_number st stk tk r : tkind_of tk = TkNumber -> plain_open st ->
    N st stk (tk :: r) = mkTok (tloc tk) TkNumber (canon_num o fmt_int fmt_float (tval tk)) ::
                         mark (pfx_start (cur r)) (N (NEnd false) stk r).
  Proof. intros K S. destruct tk as [l k v]. cbn in K. subst k. destruct st; try contradiction; reflexivity. Qed.

  Lemma n_string st stk tk r : tkind_of tk = TkString -> plain_open st ->
    N st stk (tk :: r) = tk :: mark (pfx_start (cur r)) (N (NEnd false) stk r).
  Proof. intros K S. destruct tk as [l k v]. cbn in K. subst k. destruct st; try contradiction; reflexivity. Qed.

  (* bare map key *)
  Lemma n_key stk tk r : tkind_of tk = TkIdentifier \/ tkind_of tk = TkNumber \/ tkind_of tk = TkString ->
    is_colon (cur r) = true ->
    N NOpenK stk (tk :: r) = mkTok noloc TkString (tval tk) :: N (NEnd false) stk r.
  Proof.
    intros K C. destruct tk as [l k v]. cbn in K. cbn [norm tkind_of tval in_key_pos].
    rewrite C. destruct K as [-> | [-> | ->]]; reflexivity.
  Qed.
End Steps.

(* ------------------------------------------------------------------ the induction over the parser *)
Section Main.
  Variable g : grammar.
  Variable o : oracles.
  Variable fmt_int : Z -> string.
  Variable fmt_float : float -> string.
  Hypothesis G : wf_grammar g = true.
  Variable BR : list loc.

  Notation N := (norm g o fmt_int fmt_float).
  Notation Pr := (Pr g o fmt_int fmt_float).
  Notation Opd := (Opd g o fmt_int fmt_float).
  Notation Inv := (Inv g o fmt_int fmt_float).
  Notation SeqPr := (SeqPr g o fmt_int fmt_float).
  Notation SeqW := (SeqW g fmt_int fmt_float).
  Notation PrAny := (PrAny g o fmt_int fmt_float).
  Notation PairW := (PairW g o fmt_int fmt_float).
  Notation OPr := (OPr g o fmt_int fmt_float).
  Notation fol := (bin_prec_of g).
  Notation PE := (PE g o).
  Notation tok_ok := (tok_ok o fmt_int fmt_float BR).

  Notation n_lparen := (n_lparen g o fmt_int fmt_float).
  Notation n_lbrack := (n_lbrack g o fmt_int fmt_float).
  Notation n_lbrace := (n_lbrace g o fmt_int fmt_float).
  Notation n_close := (n_close g o fmt_int fmt_float).
  Notation n_op_plain := (n_op_plain g o fmt_int fmt_float).
  Notation n_name := (n_name g o fmt_int fmt_float).
  Notation n_dot_end := (n_dot_end g o fmt_int fmt_float).
  Notation n_dot_open := (n_dot_open g o fmt_int fmt_float).
  Notation n_comma := (n_comma g o fmt_int fmt_float).
  Notation n_colon := (n_colon g o fmt_int fmt_float).
  Notation n_quest := (n_quest g o fmt_int fmt_float).
  Notation n_hash := (n_hash g o fmt_int fmt_float).
  Notation n_eof := (n_eof g o fmt_int fmt_float).
  Notation n_keyword := (n_keyword g o fmt_int fmt_float).
  Notation n_call := (n_call g o fmt_int fmt_float).
  Notation n_ident := (n_ident g o fmt_int fmt_float).
  Notation n_number := (n_number g o fmt_int fmt_float).
  Notation n_string := (n_string g o fmt_int fmt_float).
  Notation n_key := (n_key g o fmt_int fmt_float).

  Definition gd (ts : list token) : Prop := good o fmt_int fmt_float BR ts = true.

  Lemma gd_cons tk r : gd (tk :: r) -> tok_ok tk = true /\ gd r.
  Proof. unfold gd, good. cbn [forallb]. intros H. apply andb_prop in H. exact H. Qed.

  Lemma gd_suffix rest ts : suffix rest ts -> gd ts -> gd rest.
  Proof. intros [pre ->]. unfold gd, good. rewrite forallb_app. intros H. apply andb_prop in H. tauto. Qed.

  Definition strloc (t : expr) : Prop := match t with EStr a _ => mem_loc (aloc a) BR = false | _ => True end.

  Lemma fol_nonneg tk : 0 <= fol tk.
  Proof.
    unfold bin_prec_of. destruct (is_kind tk TkOperator); [|lia].
    destruct (lookup (tval tk) (g_binary g)) as [[p ra]|] eqn:E; [|lia]. cbn. pose proof (G_binary_pos g G _ _ _ E). lia.
  Qed.
  Lemma fol_op tk po ra : is_kind tk TkOperator = true -> lookup (tval tk) (g_binary g) = Some (po, ra) -> fol tk = po.
  Proof. intros K L. unfold bin_prec_of. rewrite K, L. reflexivity. Qed.
  Lemma fol_nonop tk : is_kind tk TkOperator = false -> fol tk = 0.
  Proof. intros K. unfold bin_prec_of. rewrite K. reflexivity. Qed.
  Lemma fol_nolookup tk : lookup (tval tk) (g_binary g) = None -> fol tk = 0.
  Proof. intros L. unfold bin_prec_of. rewrite L. destruct (is_kind tk TkOperator); reflexivity. Qed.
  Lemma fol_punct tk kd v : tok_is tk kd [v] = true -> In v ["#"; "."; "?."; "?"; ":"; ","; "["]%string -> fol tk = 0.
  Proof.
    intros H I. apply tok_is_inv in H. destruct H as [_ V]. apply fol_nolookup. rewrite V.
    destruct (G_punct g G v I) as [_ E]. exact E.
  Qed.
  Lemma fol_bracket tk v : tok_is tk TkBracket [v] = true -> fol tk = 0.
  Proof. intros H. apply fol_nonop. apply tok_is_inv in H. destruct H as [K _]. unfold is_kind, tok_is. rewrite K. reflexivity. Qed.

  Lemma clean_split st stk ts A B : N st stk ts = A ++ B -> clean (N st stk ts) = true -> clean A = true /\ clean B = true.
  Proof. intros -> H. apply clean_app. exact H. Qed.

  (* what parseExpression(prec) returns, in the printing context of its position *)
  Definition Res (d : nat) (prec f : Z) (P : list token) (t : expr) : Prop :=
    (prec = 0 -> f = 0 /\ exists s, Pr d CTOP P t s) /\ (1 <= prec -> Opd d prec f P t).

  Definition Spec (prec : Z) (d : nat) (ts : list token) (t : expr) (rest : list token) : Prop :=
    gd ts -> forall stk, clean (N NOpen stk ts) = true ->
    suffix rest ts /\ rest <> [] /\ strloc t /\
    exists P s, N NOpen stk ts = P ++ N (NEnd s) stk rest /\ Res d prec (fol (cur rest)) P t /\
                pfx_start (cur rest) = false /\ fol (cur rest) < Z.max prec 1 /\
                (prec = 0 -> tok_is (cur rest) TkOperator ["?"%string] = false).

  (* a map key that starts with `(` *)
  Definition SpecK (d : nat) (ts : list token) (t : expr) (rest : list token) : Prop :=
    tok_is (cur ts) TkBracket ["("%string] = true -> gd ts -> forall stk, clean (N NOpenK stk ts) = true ->
    suffix rest ts /\ rest <> [] /\ strloc t /\
    exists Pin s0 s, N NOpenK stk ts = lparen :: Pin ++ rparen :: N (NEnd s) stk rest /\
                     Pr d CTOP Pin t s0 /\ is_colon (cur rest) = true.

  Definition SS (n : nat) : Prop :=
    (forall prec d ts t rest, PE n prec d ts = POk t rest -> 0 <= prec -> Spec prec d ts t rest) /\
    (forall d ts t rest, PE n 0 d ts = POk t rest -> SpecK d ts t rest).

  Section Step.
    Variable n : nat.
    Hypothesis IH : SS n.

    (* parseExpression(0) where the printer prints in context CTOP *)
    Lemma top_call d ts t rest stk : PE n 0 d ts = POk t rest -> gd ts -> clean (N NOpen stk ts) = true ->
      suffix rest ts /\ rest <> [] /\ strloc t /\
      exists P s s', N NOpen stk ts = P ++ N (NEnd s) stk rest /\ Pr d CTOP P t s' /\
                     pfx_start (cur rest) = false /\ fol (cur rest) = 0 /\
                     tok_is (cur rest) TkOperator ["?"%string] = false.
    Proof.
      intros H GD CL. destruct IH as [IH1 _].
      destruct (IH1 0 d ts t rest H ltac:(lia) GD stk CL) as (SF & NE & SL & P & s & E & [R0 _] & PF & FL & NQ).
      destruct (R0 eq_refl) as (F0 & s' & HP).
      repeat split; try assumption. exists P, s, s'. repeat split; try assumption. apply NQ. reflexivity.
    Qed.

    (* parseExpression(q), q >= 1: an operand *)
    Lemma opd_call q d ts t rest stk : PE n q d ts = POk t rest -> 1 <= q -> gd ts -> clean (N NOpen stk ts) = true ->
      suffix rest ts /\ rest <> [] /\
      exists P s, N NOpen stk ts = P ++ N (NEnd s) stk rest /\ Opd d q (fol (cur rest)) P t /\
                  pfx_start (cur rest) = false /\ fol (cur rest) < q.
    Proof.
      intros H Q GD CL. destruct IH as [IH1 _].
      destruct (IH1 q d ts t rest H ltac:(lia) GD stk CL) as (SF & NE & SL & P & s & E & [_ R1] & PF & FL & _).
      repeat split; try assumption. exists P, s. repeat split; try assumption; [apply R1; exact Q|lia].
    Qed.

    (* ---- parseArguments *)
    Lemma args_sound : forall lf d acc ts args rest,
      args_loop (PE n) lf d acc ts = POk args rest -> gd ts -> ts <> [] ->
      forall i Pacc, SeqPr d Pacc i acc ->
      forall st fl stk, (acc = [] -> st = NOpen) -> (acc <> [] -> exists s, st = NEnd s) ->
      clean (N st ((fl, KParen) :: stk) ts) = true ->
      suffix rest ts /\ rest <> [] /\ tok_is (cur rest) TkBracket [")"%string] = true /\
      exists P' st', N st ((fl, KParen) :: stk) ts = P' ++ N st' ((fl, KParen) :: stk) rest /\ SeqPr d (Pacc ++ P') i args.
    Proof.
      induction lf as [|lf IHlf]; intros d acc ts args rest H GD NE i Pacc SQ st fl stk S0 S1 CL;
        cbn [args_loop] in H; destruct (tok_is (cur ts) TkBracket [")"%string]) eqn:E.
      - injection H as <- <-. repeat split; [apply suffix_refl|exact NE|exact E|].
        exists [], st. rewrite app_nil_r. split; [reflexivity|exact SQ].
      - discriminate H.
      - injection H as <- <-. repeat split; [apply suffix_refl|exact NE|exact E|].
        exists [], st. rewrite app_nil_r. split; [reflexivity|exact SQ].
      - destruct acc as [|a0 acc].
        + rewrite (S0 eq_refl) in CL |- *.
          assert (Pacc = []) as -> by (destruct SQ as (cf & -> & _); reflexivity).
          apply pbind_inv in H. destruct H as (node & ts2 & H1 & H2).
          destruct (top_call _ _ _ _ _ H1 GD CL) as (SF & NE2 & _ & P & s & s' & EQ & HP & _).
          destruct (clean_split _ _ _ _ _ EQ CL) as [_ CL2].
          destruct (Pr_elem _ _ _ _ _ _ _ _ HP) as (c & EC & WC).
          destruct (IHlf d ([] ++ [node]) ts2 args rest H2 (gd_suffix _ _ SF GD) NE2 i P
                      (SeqW_one _ _ _ _ _ _ _ (ex_intro _ c (conj EC WC))) (NEnd s) fl stk
                      ltac:(discriminate) ltac:(intros _; eauto) CL2) as (SF' & NE' & CR & P' & st' & EQ' & SQ').
          repeat split; [eapply suffix_trans; eauto|exact NE'|exact CR|].
          exists (P ++ P'), st'. split; [rewrite EQ, EQ', app_assoc; reflexivity|exact SQ'].
        + destruct (S1 ltac:(discriminate)) as [s ->].
          apply expect_inv in H. destruct H as (tk & r & -> & NEr & TK & H).
          rewrite (n_comma (NEnd s) _ _ _ TK I) in CL |- *. cbn [top_kind] in CL |- *.
          apply clean_cons in CL.
          apply pbind_inv in H. destruct H as (node & ts2 & H1 & H2).
          destruct (gd_cons _ _ GD) as [_ GDr].
          destruct (top_call _ _ _ _ _ H1 GDr CL) as (SF & NE2 & _ & P & s1 & s' & EQ & HP & _).
          destruct (clean_split _ _ _ _ _ EQ CL) as [_ CL2].
          destruct (Pr_elem _ _ _ _ _ _ _ _ HP) as (c & EC & WC).
          destruct (IHlf d ((a0 :: acc) ++ [node]) ts2 args rest H2 (gd_suffix _ _ SF GDr) NE2 i (Pacc ++ comma :: P)
                      (SeqW_snoc _ _ _ _ _ _ _ _ _ SQ ltac:(discriminate) (ex_intro _ c (conj EC WC))) (NEnd s1) fl stk
                      ltac:(intros X; destruct acc; discriminate X) ltac:(intros _; eauto) CL2) as (SF' & NE' & CR & P' & st' & EQ' & SQ').
          repeat split; [eapply suffix_trans; [exact SF'|]; eapply suffix_trans; [exact SF|apply suffix_cons]|exact NE'|exact CR|].
          exists (comma :: P ++ P'), st'. split.
          * rewrite EQ, EQ'. cbn [app]. rewrite app_assoc. reflexivity.
          * replace (Pacc ++ comma :: P ++ P') with ((Pacc ++ comma :: P) ++ P') by (rewrite <- app_assoc; reflexivity). exact SQ'.
    Qed.

    Lemma mem_loc_diff l l' : mem_loc l BR = true -> mem_loc l' BR = false -> loc_eqb l' l = false.
    Proof.
      intros H1 H2. destruct (loc_eqb l' l) eqn:E; [|reflexivity]. apply loc_eqb_eq in E. subst. congruence.
    Qed.

    Lemma args_close_sound d ts1 args rest i fl stk :
      pbind (args_loop (PE n) n d [] ts1) (fun a ts2 => expect TkBracket ")" ts2 (fun ts3 => POk a ts3)) = POk args rest ->
      gd ts1 -> ts1 <> [] -> clean (N NOpen ((fl, KParen) :: stk) ts1) = true ->
      suffix rest ts1 /\ rest <> [] /\
      exists Pa, N NOpen ((fl, KParen) :: stk) ts1 = Pa ++ rparen :: N (NEnd fl) stk rest /\ SeqPr d Pa i args.
    Proof.
      intros H GD NE CL. apply pbind_inv in H. destruct H as (a & ts2 & H1 & H2).
      destruct (args_sound _ _ _ _ _ _ H1 GD NE i [] (SeqW_nil _ _ _ _ _) NOpen fl stk ltac:(reflexivity) ltac:(congruence) CL)
        as (SF & NE2 & CR & P' & st' & EQ & SQ).
      apply expect_inv in H2. destruct H2 as (tk & r & -> & NEr & TK & H2). injection H2 as <- <-.
      rewrite (n_close st' _ _ _ _ TK ltac:(auto)) in EQ. cbn [top_kind top_flag List.tl is_key_kind andb mark] in EQ.
      repeat split; [eapply suffix_trans; [apply suffix_cons|exact SF]|exact NEr|].
      exists P'. split; [exact EQ|exact SQ].
    Qed.

    (* the argument list of a method call: the `(` stands after the member name *)
    Lemma method_args_sound d ts args rest s stk :
      parse_arguments (PE n) n d ts = POk args rest -> gd ts -> clean (N (NEnd s) stk ts) = true ->
      suffix rest ts /\ rest <> [] /\
      exists Pa, N (NEnd s) stk ts = lparen :: Pa ++ rparen :: N (NEnd s) stk rest /\ SeqPr d Pa 1 args.
    Proof.
      intros H GD CL. unfold parse_arguments in H.
      apply expect_inv in H. destruct H as (tk & r & -> & NEr & TK & H).
      rewrite (n_lparen (NEnd s) _ _ _ TK) in CL |- *. cbn [flag_of in_key_pos] in CL |- *.
      apply clean_cons in CL. destruct (gd_cons _ _ GD) as [_ GDr].
      destruct (args_close_sound _ _ _ _ 1%nat _ _ H GDr NEr CL) as (SF & NE & Pa & EQ & SQ).
      repeat split; [eapply suffix_trans; [exact SF|apply suffix_cons]|exact NE|].
      exists Pa. split; [rewrite EQ; reflexivity|exact SQ].
    Qed.

    (* ---- parseArrayExpression *)
    Lemma array_sound : forall lf d acc ts es rest,
      array_loop (PE n) lf d acc ts = POk es rest -> gd ts -> ts <> [] ->
      forall Pacc, SeqPr d Pacc 0 acc ->
      forall st fl stk, (acc = [] -> st = NOpen) -> (acc <> [] -> exists s, st = NEnd s) ->
      clean (N st ((fl, KBrack) :: stk) ts) = true ->
      suffix rest ts /\ rest <> [] /\ tok_is (cur rest) TkBracket ["]"%string] = true /\
      exists P' st', N st ((fl, KBrack) :: stk) ts = P' ++ N st' ((fl, KBrack) :: stk) rest /\ SeqPr d (Pacc ++ P') 0 es.
    Proof.
      induction lf as [|lf IHlf]; intros d acc ts es rest H GD NE Pacc SQ st fl stk S0 S1 CL;
        cbn [array_loop] in H; destruct (tok_is (cur ts) TkBracket ["]"%string]) eqn:E.
      - injection H as <- <-. repeat split; [apply suffix_refl|exact NE|exact E|].
        exists [], st. rewrite app_nil_r. split; [reflexivity|exact SQ].
      - discriminate H.
      - injection H as <- <-. repeat split; [apply suffix_refl|exact NE|exact E|].
        exists [], st. rewrite app_nil_r. split; [reflexivity|exact SQ].
      - assert (STEP : forall ts1 st1 Pc, gd ts1 -> suffix ts1 ts -> clean (N NOpen ((fl, KBrack) :: stk) ts1) = true ->
                  pbind (PE n 0 d ts1) (fun node ts2 => array_loop (PE n) lf d (acc ++ [node]) ts2) = POk es rest ->
                  N st1 ((fl, KBrack) :: stk) ts = Pc ++ N NOpen ((fl, KBrack) :: stk) ts1 ->
                  (acc = [] -> Pc = []) -> (acc <> [] -> Pc = [comma]) ->
                  suffix rest ts /\ rest <> [] /\ tok_is (cur rest) TkBracket ["]"%string] = true /\
                  exists P' st', N st1 ((fl, KBrack) :: stk) ts = P' ++ N st' ((fl, KBrack) :: stk) rest /\ SeqPr d (Pacc ++ P') 0 es).
        { intros ts1 st1 Pc GD1 SF1 CL1 H0 EQ0 PC0 PC1.
          apply pbind_inv in H0. destruct H0 as (node & ts2 & H1 & H2).
          destruct (top_call _ _ _ _ _ H1 GD1 CL1) as (SF & NE2 & _ & P & s & s' & EQ & HP & _).
          destruct (clean_split _ _ _ _ _ EQ CL1) as [_ CL2].
          destruct (Pr_elem _ _ _ _ _ _ _ _ HP) as (c & EC & WC).
          assert (SQ1 : SeqPr d (Pacc ++ Pc ++ P) 0 (acc ++ [node])).
          { destruct acc as [|a0 acc].
            - rewrite (PC0 eq_refl). assert (Pacc = []) as -> by (destruct SQ as (cf & -> & _); reflexivity).
              cbn [app]. eapply SeqW_one. exists c. split; [exact EC|exact WC].
            - rewrite (PC1 ltac:(discriminate)). change (Pacc ++ [comma] ++ P) with (Pacc ++ comma :: P). eapply SeqW_snoc; [exact SQ|discriminate|]. exists c. split; [exact EC|exact WC]. }
          destruct (IHlf d (acc ++ [node]) ts2 es rest H2 (gd_suffix _ _ SF GD1) NE2 _ SQ1 (NEnd s) fl stk
                      ltac:(intros X; destruct acc; discriminate X) ltac:(intros _; eauto) CL2) as (SF' & NE' & CR & P' & st' & EQ' & SQ').
          repeat split; [eapply suffix_trans; [exact SF'|]; eapply suffix_trans; [exact SF|exact SF1]|exact NE'|exact CR|].
          exists (Pc ++ P ++ P'), st'. split.
          - rewrite EQ0, EQ, EQ'. rewrite <- !app_assoc. reflexivity.
          - replace (Pacc ++ Pc ++ P ++ P') with ((Pacc ++ Pc ++ P) ++ P') by (rewrite <- !app_assoc; reflexivity). exact SQ'. }
        destruct acc as [|a0 acc].
        + rewrite (S0 eq_refl) in CL |- *.
          apply (STEP ts NOpen []); try assumption; try reflexivity; [apply suffix_refl|congruence].
        + destruct (S1 ltac:(discriminate)) as [s ->].
          apply expect_inv in H. destruct H as (tk & r & -> & NEr & TK & H).
          destruct (gd_cons _ _ GD) as [_ GDr].
          pose proof (n_comma (NEnd s) ((fl, KBrack) :: stk) _ r TK I) as EQc. cbn [top_kind is_end andb] in EQc.
          destruct (tok_is (cur r) TkBracket ["]"%string]) eqn:E2.
          * injection H as <- <-. repeat split; [apply suffix_cons|exact NEr|exact E2|].
            exists [], (NEnd false). rewrite app_nil_r. split; [exact EQc|exact SQ].
          * apply (STEP r (NEnd s) [comma]); try assumption; try reflexivity.
            -- apply suffix_cons.
            -- rewrite EQc in CL. apply clean_cons in CL. exact CL.
            -- discriminate.
    Qed.

    (* ---- parseMapExpression *)
    Lemma key_kind tk : is_kind tk TkNumber || is_kind tk TkString || is_kind tk TkIdentifier = true ->
      tkind_of tk = TkIdentifier \/ tkind_of tk = TkNumber \/ tkind_of tk = TkString.
    Proof. unfold is_kind, tok_is. destruct (tkind_of tk); cbn; intros H; try discriminate; auto. Qed.

    Lemma pair_sound lf' mloc d acc ts1 ps rest stk' :
      pair_body g o n d mloc lf' acc ts1 = POk ps rest -> gd ts1 -> ts1 <> [] -> mem_loc mloc BR = true ->
      clean (N NOpenK stk' ts1) = true ->
      exists key node ts4 Pp s,
        suffix ts4 ts1 /\ ts4 <> [] /\ N NOpenK stk' ts1 = Pp ++ N (NEnd s) stk' ts4 /\
        (exists c, Pp = pr g fmt_int fmt_float c CTOP (EPair (at_loc mloc) key node) /\ PairW d mloc c (EPair (at_loc mloc) key node)) /\
        map_loop (PE n) lf' mloc d (acc ++ [EPair (at_loc mloc) key node]) ts4 = POk ps rest.
    Proof.
      intros H GD NE ML CL. unfold pair_body in H.
      destruct (is_kind (cur ts1) TkNumber || is_kind (cur ts1) TkString || is_kind (cur ts1) TkIdentifier) eqn:EK.
      - apply next_inv in H. destruct H as (ktk & ts2 & -> & NE2 & H). cbn [cur] in EK, H.
        apply expect_inv in H. destruct H as (ctk & ts3 & -> & NE3 & TC & H).
        apply pbind_inv in H. destruct H as (node & ts4 & H1 & H2).
        destruct (gd_cons _ _ GD) as [_ GD2]. destruct (gd_cons _ _ GD2) as [_ GD3].
        rewrite (n_key stk' ktk (ctk :: ts3) (key_kind _ EK) TC) in CL |- *. apply clean_cons in CL.
        rewrite (n_colon (NEnd false) _ _ _ TC I) in CL |- *. apply clean_cons in CL.
        destruct (top_call _ _ _ _ _ H1 GD3 CL) as (SF & NE4 & _ & Pv & s & s' & EQ & HP & _).
        destruct (Pair_bare g o fmt_int fmt_float d mloc (tval ktk) Pv node s' HP) as (c & EC & WC).
        exists (EStr (at_loc mloc) (tval ktk)), node, ts4, (mkTok noloc TkString (tval ktk) :: colon :: Pv), s.
        repeat split.
        + eapply suffix_trans; [exact SF|]. eapply suffix_trans; apply suffix_cons.
        + exact NE4.
        + rewrite EQ. reflexivity.
        + exists c. split; [exact EC|exact WC].
        + exact H2.
      - destruct (tok_is (cur ts1) TkBracket ["("%string]) eqn:EP; [|discriminate H].
        apply pbind_inv in H. destruct H as (key & ts2 & H0 & H).
        destruct IH as [_ IHK].
        destruct (IHK d ts1 key ts2 H0 EP GD stk' CL) as (SF0 & NE2 & SL & Pin & s0 & s1 & EQ0 & HK & _).
        apply expect_inv in H. destruct H as (ctk & ts3 & -> & NE3 & TC & H).
        apply pbind_inv in H. destruct H as (node & ts4 & H1 & H2).
        pose proof (gd_suffix _ _ SF0 GD) as GD2. destruct (gd_cons _ _ GD2) as [_ GD3].
        rewrite EQ0 in CL. apply clean_cons in CL. apply clean_app in CL. destruct CL as [_ CL]. apply clean_cons in CL.
        rewrite (n_colon (NEnd s1) _ _ _ TC I) in CL, EQ0. apply clean_cons in CL.
        destruct (top_call _ _ _ _ _ H1 GD3 CL) as (SF & NE4 & _ & Pv & s & s' & EQ & HP & _).
        assert (KB : key_bare (at_loc mloc) key = false).
        { unfold key_bare. destruct key; try reflexivity. cbn [aloc at_loc]. apply mem_loc_diff; [exact ML|exact SL]. }
        destruct (Pair_paren g o fmt_int fmt_float d mloc Pin key s0 Pv node s' HK KB HP) as (c & EC & WC).
        exists key, node, ts4, (lparen :: Pin ++ rparen :: colon :: Pv), s.
        repeat split.
        + eapply suffix_trans; [exact SF|]. eapply suffix_trans; [apply suffix_cons|exact SF0].
        + exact NE4.
        + rewrite EQ0, EQ. cbn [app]. rewrite <- app_assoc. reflexivity.
        + exists c. split; [exact EC|exact WC].
        + exact H2.
    Qed.

    Lemma map_sound : forall lf mloc d acc ts ps rest,
      map_loop (PE n) lf mloc d acc ts = POk ps rest -> gd ts -> ts <> [] -> mem_loc mloc BR = true ->
      forall Pacc, SeqW (PairW d mloc) Pacc 0 acc ->
      forall st fl stk, (acc = [] -> st = NOpenK) -> (acc <> [] -> exists s, st = NEnd s) ->
      clean (N st ((fl, KMap) :: stk) ts) = true ->
      suffix rest ts /\ rest <> [] /\ tok_is (cur rest) TkBracket ["}"%string] = true /\
      exists P' st', N st ((fl, KMap) :: stk) ts = P' ++ N st' ((fl, KMap) :: stk) rest /\ SeqW (PairW d mloc) (Pacc ++ P') 0 ps.
    Proof.
      induction lf as [|lf IHlf]; intros mloc d acc ts ps rest H GD NE ML Pacc SQ st fl stk S0 S1 CL.
      - cbn [map_loop] in H. destruct (tok_is (cur ts) TkBracket ["}"%string]) eqn:E; [|discriminate H].
        injection H as <- <-. repeat split; [apply suffix_refl|exact NE|exact E|].
        exists [], st. rewrite app_nil_r. split; [reflexivity|exact SQ].
      - rewrite map_loop_S in H. destruct (tok_is (cur ts) TkBracket ["}"%string]) eqn:E.
        { injection H as <- <-. repeat split; [apply suffix_refl|exact NE|exact E|].
          exists [], st. rewrite app_nil_r. split; [reflexivity|exact SQ]. }
        assert (STEP : forall ts1 st1 Pc, gd ts1 -> ts1 <> [] -> suffix ts1 ts -> clean (N NOpenK ((fl, KMap) :: stk) ts1) = true ->
                  pair_body g o n d mloc lf acc ts1 = POk ps rest ->
                  N st1 ((fl, KMap) :: stk) ts = Pc ++ N NOpenK ((fl, KMap) :: stk) ts1 ->
                  (acc = [] -> Pc = []) -> (acc <> [] -> Pc = [comma]) ->
                  suffix rest ts /\ rest <> [] /\ tok_is (cur rest) TkBracket ["}"%string] = true /\
                  exists P' st', N st1 ((fl, KMap) :: stk) ts = P' ++ N st' ((fl, KMap) :: stk) rest /\ SeqW (PairW d mloc) (Pacc ++ P') 0 ps).
        { intros ts1 st1 Pc GD1 NE1 SF1 CL1 H0 EQ0 PC0 PC1.
          destruct (pair_sound _ _ _ _ _ _ _ _ H0 GD1 NE1 ML CL1) as (key & node & ts4 & Pp & s & SF & NE4 & EQ & HC & H2).
          destruct (clean_split _ _ _ _ _ EQ CL1) as [_ CL2].
          assert (SQ1 : SeqW (PairW d mloc) (Pacc ++ Pc ++ Pp) 0 (acc ++ [EPair (at_loc mloc) key node])).
          { destruct acc as [|a0 acc].
            - rewrite (PC0 eq_refl). assert (Pacc = []) as -> by (destruct SQ as (cf & -> & _); reflexivity).
              cbn [app]. eapply SeqW_one. exact HC.
            - rewrite (PC1 ltac:(discriminate)). change (Pacc ++ [comma] ++ Pp) with (Pacc ++ comma :: Pp).
              eapply SeqW_snoc; [exact SQ|discriminate|exact HC]. }
          destruct (IHlf mloc d (acc ++ [EPair (at_loc mloc) key node]) ts4 ps rest H2 (gd_suffix _ _ SF GD1) NE4 ML _ SQ1 (NEnd s) fl stk
                      ltac:(intros X; destruct acc; discriminate X) ltac:(intros _; eauto) CL2) as (SF' & NE' & CR & P' & st' & EQ' & SQ').
          repeat split; [eapply suffix_trans; [exact SF'|]; eapply suffix_trans; [exact SF|exact SF1]|exact NE'|exact CR|].
          exists (Pc ++ Pp ++ P'), st'. split.
          - rewrite EQ0, EQ, EQ'. rewrite <- !app_assoc. reflexivity.
          - replace (Pacc ++ Pc ++ Pp ++ P') with ((Pacc ++ Pc ++ Pp) ++ P') by (rewrite <- !app_assoc; reflexivity). exact SQ'. }
        destruct acc as [|a0 acc].
        + rewrite (S0 eq_refl) in CL |- *.
          apply (STEP ts NOpenK []); try assumption; try reflexivity; [apply suffix_refl|congruence].
        + destruct (S1 ltac:(discriminate)) as [s ->].
          apply expect_inv in H. destruct H as (tk & r & -> & NEr & TK & H).
          destruct (gd_cons _ _ GD) as [_ GDr].
          pose proof (n_comma (NEnd s) ((fl, KMap) :: stk) _ r TK I) as EQc. cbn [top_kind is_end andb] in EQc.
          destruct (tok_is (cur r) TkBracket ["}"%string]) eqn:E2.
          * injection H as <- <-. repeat split; [apply suffix_cons|exact NEr|exact E2|].
            exists [], (NEnd false). rewrite app_nil_r. split; [exact EQc|exact SQ].
          * destruct (tok_is (cur r) TkOperator [","%string]); [discriminate H|].
            apply (STEP r (NEnd s) [comma]); try assumption; try reflexivity.
            -- apply suffix_cons.
            -- rewrite EQc in CL. apply clean_cons in CL. exact CL.
            -- discriminate.
    Qed.

    (* ---- parsePostfixExpression *)
    Lemma ok_bracket_not_dot tk : tok_ok tk = true -> is_kind tk TkBracket = true -> is_dot tk = false.
    Proof.
      intros OK K. apply is_kind_inv in K. unfold Sound.tok_ok in OK. rewrite K in OK. unfold is_dot, val_is.
      apply andb_prop in OK. destruct OK as [OK _].
      cbn [existsb six_brackets] in OK.
      repeat (apply orb_prop in OK; destruct OK as [OK|OK]; [apply String.eqb_eq in OK; rewrite OK; reflexivity|]).
      discriminate OK.
    Qed.
    Lemma ok_op_not_lbrack tk : tok_ok tk = true -> is_kind tk TkOperator = true -> val_is tk "[" = false.
    Proof.
      intros OK K. apply is_kind_inv in K. unfold Sound.tok_ok in OK. rewrite K in OK. apply negb_true_iff in OK. exact OK.
    Qed.

    Lemma name_kind name :
      negb (is_kind name TkIdentifier) && (negb (is_kind name TkOperator) || negb (valid_identifier (tval name))) = false ->
      tkind_of name = TkIdentifier \/ (tkind_of name = TkOperator /\ valid_identifier (tval name) = true).
    Proof.
      unfold is_kind, tok_is. destruct (tkind_of name); cbn; intros H; try discriminate; auto.
      right. split; [reflexivity|]. apply negb_false_iff in H. exact H.
    Qed.

    (* optional upper bound of a slice and the closing bracket *)
    Lemma to_close_sound (K : option expr -> list token -> pres expr) d ts2 t rest ns stk :
      (if negb (tok_is (cur ts2) TkBracket ["]"%string])
       then pbind (PE n 0 d ts2) (fun to ts3 => expect TkBracket "]" ts3 (fun ts4 => K (Some to) ts4))
       else expect TkBracket "]" ts2 (fun ts3 => K None ts3)) = POk t rest ->
      gd ts2 -> clean (N NOpen ((ns, KIndex) :: stk) ts2) = true ->
      exists to Pt ts4, OPr d to Pt /\ N NOpen ((ns, KIndex) :: stk) ts2 = Pt ++ mkTok noloc TkBracket "]" :: N (NEnd ns) stk ts4 /\
                        K to ts4 = POk t rest /\ suffix ts4 ts2 /\ ts4 <> [].
    Proof.
      intros H GD CL. destruct (tok_is (cur ts2) TkBracket ["]"%string]) eqn:E; cbn [negb] in H.
      - apply expect_inv in H. destruct H as (tk & r & -> & NEr & TK & H).
        exists None, [], r. repeat split; try assumption; [|apply suffix_cons].
        rewrite (n_close NOpen _ _ _ _ TK ltac:(auto)). reflexivity.
      - apply pbind_inv in H. destruct H as (to & ts3 & H1 & H).
        destruct (top_call _ _ _ _ _ H1 GD CL) as (SF & NE3 & _ & Pt & s & s' & EQ & HP & _).
        apply expect_inv in H. destruct H as (tk & r & -> & NEr & TK & H).
        exists (Some to), Pt, r. repeat split; try assumption.
        + exists s'. exact HP.
        + rewrite EQ. rewrite (n_close (NEnd s) _ _ _ _ TK ltac:(auto)). reflexivity.
        + eapply suffix_trans; [apply suffix_cons|exact SF].
    Qed.

    Lemma ploop_sound : forall lf d ns node ts t rest,
      ploop g o n lf d ns node ts = POk t rest -> gd ts -> ts <> [] ->
      forall P, Inv d P node ns (cur ts) ->
      forall s0 stk, (s0 = ns \/ pfx_start (cur ts) = false) -> clean (N (NEnd s0) stk ts) = true ->
      suffix rest ts /\ rest <> [] /\ (strloc node -> strloc t) /\
      exists P' s', N (NEnd s0) stk ts = P' ++ N (NEnd s') stk rest /\
                    (forall p, Opd d p (fol (cur rest)) (P ++ P') t) /\ pfx_start (cur rest) = false.
    Proof.
      induction lf as [|lf IHlf]; intros d ns node ts t rest H GD NE P HI s0 stk S0 CL.
      all: destruct (pfx_start (cur ts)) eqn:PS.
      all: try (rewrite (ploop_stop g o n _ d ns node ts PS) in H; injection H as <- <-;
                repeat split; [apply suffix_refl|exact NE|auto|]; exists [], s0; rewrite app_nil_r;
                repeat split; [|exact PS]; intros p top;
                destruct (Inv_final _ _ _ _ _ _ _ _ _ HI PS top p) as (s1 & HP); exists s1; exact HP).
      - (* no fuel *)
        unfold ploop in H. cbn [postfix_loop] in H. unfold pfx_start in PS.
        destruct (is_kind (cur ts) TkOperator || is_kind (cur ts) TkBracket); [|discriminate PS]. cbn [andb] in PS.
        destruct (val_is (cur ts) "." || val_is (cur ts) "?."); [discriminate H|]. cbn [orb] in PS. rewrite PS in H. discriminate H.
      - destruct S0 as [->|S0]; [|congruence].
        destruct ts as [|tk ts1]; [congruence|]. cbn [cur] in *.
        destruct (gd_cons _ _ GD) as [OKtk GD1].
        unfold ploop in H. cbn [postfix_loop cur] in H. unfold pfx_start in PS.
        destruct (is_kind tk TkOperator || is_kind tk TkBracket) eqn:KK; [|discriminate PS]. cbn [andb] in PS.
        destruct (val_is tk "." || val_is tk "?.") eqn:DOT.
        + (* member access / method call *)
          assert (KO : is_kind tk TkOperator = true).
          { destruct (is_kind tk TkOperator) eqn:KO; [reflexivity|]. cbn [orb] in KK.
            pose proof (ok_bracket_not_dot _ OKtk KK) as ND. unfold is_dot in ND. congruence. }
          apply next_inv in H. destruct H as (tk' & r & E & NE1 & H). injection E as <- <-.
          apply next_inv in H. destruct H as (name & ts2 & -> & NE2 & H). cbn [cur] in H.
          destruct (negb (is_kind name TkIdentifier) && (negb (is_kind name TkOperator) || negb (valid_identifier (tval name)))) eqn:BN;
            [discriminate H|].
          pose proof (name_kind _ BN) as NK.
          destruct (gd_cons _ _ GD1) as [_ GD2].
          rewrite (n_dot_end stk tk _ ns KO DOT) in CL |- *. apply clean_cons in CL.
          rewrite (n_name (NDot (ns || val_is tk "?.")) stk name ts2 _ eq_refl NK) in CL |- *. apply clean_cons in CL.
          destruct (tok_is (cur ts2) TkBracket ["("%string]) eqn:CALL.
          * apply pbind_inv in H. destruct H as (args & ts3 & H1 & H2).
            destruct (method_args_sound _ _ _ _ _ _ H1 GD2 CL) as (SF3 & NE3 & Pa & EQ & SQ).
            rewrite EQ in CL |- *. apply clean_cons in CL. apply clean_app in CL. destruct CL as [_ CL]. apply clean_cons in CL.
            pose proof (Inv_method g o fmt_int fmt_float d P node ns tk (tloc name) (tval name) Pa args (cur ts3) HI KO DOT SQ) as HI'.
            destruct (IHlf d _ _ ts3 t rest H2 (gd_suffix _ _ SF3 GD2) NE3 _ HI' _ stk (or_introl eq_refl) CL)
              as (SF & NEr & SL' & P' & s' & EQ' & HO & PF).
            repeat split; [eapply suffix_trans; [exact SF|]; eapply suffix_trans; [exact SF3|]; eapply suffix_trans; apply suffix_cons
                          |exact NEr|intros _; apply SL'; exact I|].
            exists (dot_tok (ns || val_is tk "?.") :: mkTok (tloc name) TkIdentifier (tval name) :: lparen :: Pa ++ rparen :: P'), s'.
            repeat split; [rewrite EQ'; la| |exact PF].
            intros p. specialize (HO p). rewrite <- app_assoc in HO. cbn [app] in HO. rewrite <- app_assoc in HO. exact HO.
          * pose proof (Inv_property g o fmt_int fmt_float d P node ns tk (tloc name) (tval name) (cur ts2) HI KO DOT) as HI'.
            destruct (IHlf d _ _ ts2 t rest H GD2 NE2 _ HI' _ stk (or_introl eq_refl) CL)
              as (SF & NEr & SL' & P' & s' & EQ' & HO & PF).
            repeat split; [eapply suffix_trans; [exact SF|]; eapply suffix_trans; apply suffix_cons
                          |exact NEr|intros _; apply SL'; exact I|].
            exists (dot_tok (ns || val_is tk "?.") :: mkTok (tloc name) TkIdentifier (tval name) :: P'), s'.
            repeat split; [rewrite EQ'; reflexivity| |exact PF].
            intros p. specialize (HO p). rewrite <- app_assoc in HO. exact HO.
        + (* index / slice *)
          cbn [orb] in PS. rewrite PS in H.
          assert (TB : tok_is tk TkBracket ["["%string] = true).
          { destruct (is_kind tk TkOperator) eqn:KO.
            - pose proof (ok_op_not_lbrack _ OKtk KO). congruence.
            - cbn [orb] in KK. apply tok_is_build; [apply is_kind_inv; exact KK|]. unfold val_is in PS. apply String.eqb_eq. exact PS. }
          apply next_inv in H. destruct H as (tk' & r & E & NE1 & H). injection E as <- <-.
          rewrite (n_lbrack (NEnd ns) stk tk ts1 TB) in CL |- *. cbn [flag_of is_end] in CL |- *. apply clean_cons in CL.
          assert (FIN : forall (node' : expr) (Pn : list token) (ts4 : list token),
                    Inv d (P ++ mkTok (tloc tk) TkBracket "[" :: Pn) node' ns (cur ts4) ->
                    N NOpen ((ns, KIndex) :: stk) ts1 = Pn ++ N (NEnd ns) stk ts4 ->
                    suffix ts4 ts1 -> ts4 <> [] -> strloc node' ->
                    postfix_loop (PE n) n lf d ns node' ts4 = POk t rest ->
                    suffix rest (tk :: ts1) /\ rest <> [] /\ (strloc node -> strloc t) /\
                    exists P' s', mkTok (tloc tk) TkBracket "[" :: N NOpen ((ns, KIndex) :: stk) ts1 = P' ++ N (NEnd s') stk rest /\
                                  (forall p, Opd d p (fol (cur rest)) (P ++ P') t) /\ pfx_start (cur rest) = false).
          { intros node' Pn ts4 HI' EQ SF4 NE4 SN H4. rewrite EQ in CL |- *. apply clean_app in CL. destruct CL as [_ CL].
            destruct (IHlf d ns node' ts4 t rest H4 (gd_suffix _ _ SF4 GD1) NE4 _ HI' _ stk (or_introl eq_refl) CL)
              as (SF & NEr & SL' & P' & s' & EQ' & HO & PF).
            repeat split; [eapply suffix_trans; [exact SF|]; eapply suffix_trans; [exact SF4|apply suffix_cons]|exact NEr| |].
            - intros _. apply SL'. exact SN.
            - exists (mkTok (tloc tk) TkBracket "[" :: Pn ++ P'), s'.
              repeat split; [rewrite EQ'; la| |exact PF].
              intros p. specialize (HO p). rewrite <- app_assoc in HO. cbn [app] in HO. exact HO. }
          pose proof (gd_cons _ _ GD) as [_ GDts1].
          destruct (tok_is (cur ts1) TkOperator [":"%string]) eqn:C1.
          * (* [:to] and [:] *)
            apply next_inv in H. destruct H as (ctk & ts2 & -> & NE2 & H). cbn [cur] in C1.
            destruct (gd_cons _ _ GDts1) as [_ GD2].
            pose proof (n_colon NOpen ((ns, KIndex) :: stk) ctk ts2 C1 I) as EQc. rewrite EQc in CL. apply clean_cons in CL.
            destruct (to_close_sound (fun to ts4 => postfix_loop (PE n) n lf d ns (ESlice (at_loc (tloc tk)) node None to) ts4)
                        d ts2 t rest ns stk H GD2 CL) as (to & Pt & ts4 & HT & EQ & H4 & SF4 & NE4).
            pose proof (Inv_slice g o fmt_int fmt_float d P node ns tk (tloc tk) None to [] Pt (cur ts4) HI TB eq_refl HT) as HI'.
            apply (FIN (ESlice (at_loc (tloc tk)) node None to) (colon :: Pt ++ [mkTok noloc TkBracket "]"]) ts4); try assumption.
            -- rewrite EQc, EQ. la.
            -- eapply suffix_trans; [exact SF4|apply suffix_cons].
            -- exact I.
          * apply pbind_inv in H. destruct H as (from & ts2 & H1 & H).
            destruct (top_call _ _ _ _ _ H1 GDts1 CL) as (SF2 & NE2 & _ & Pf & s & s' & EQf & HF & _).
            pose proof (gd_suffix _ _ SF2 GDts1) as GD2.
            destruct (clean_split _ _ _ _ _ EQf CL) as [_ CL2].
            destruct (tok_is (cur ts2) TkOperator [":"%string]) eqn:C2.
            -- (* [from:to] and [from:] *)
               apply next_inv in H. destruct H as (ctk & ts3 & -> & NE3 & H). cbn [cur] in C2.
               destruct (gd_cons _ _ GD2) as [_ GD3].
               rewrite (n_colon (NEnd s) _ ctk ts3 C2 I) in CL2, EQf. apply clean_cons in CL2.
               destruct (to_close_sound (fun to ts4 => postfix_loop (PE n) n lf d ns (ESlice (at_loc (tloc tk)) node (Some from) to) ts4)
                           d ts3 t rest ns stk H GD3 CL2) as (to & Pt & ts4 & HT & EQ & H4 & SF4 & NE4).
               pose proof (Inv_slice g o fmt_int fmt_float d P node ns tk (tloc tk) (Some from) to Pf Pt (cur ts4) HI TB
                             (ex_intro _ s' HF) HT) as HI'.
               apply (FIN (ESlice (at_loc (tloc tk)) node (Some from) to) (Pf ++ colon :: Pt ++ [mkTok noloc TkBracket "]"]) ts4); try assumption.
               ++ rewrite EQf, EQ. la.
               ++ eapply suffix_trans; [exact SF4|]. eapply suffix_trans; [apply suffix_cons|exact SF2].
               ++ exact I.
            -- (* [index] *)
               apply expect_inv in H. destruct H as (btk & ts3 & -> & NE3 & TK & H).
               rewrite (n_close (NEnd s) _ btk ts3 _ TK ltac:(auto)) in EQf. cbn [top_kind top_flag List.tl is_key_kind andb mark] in EQf.
               pose proof (Inv_index g o fmt_int fmt_float d P node ns tk (tloc tk) Pf from s' (cur ts3) HI TB HF) as HI'.
               apply (FIN (EIndex (at_loc (tloc tk)) node from) (Pf ++ [mkTok noloc TkBracket "]"]) ts3); try assumption.
               ++ rewrite EQf. la.
               ++ eapply suffix_trans; [apply suffix_cons|exact SF2].
               ++ exact I.
    Qed.

    (* ---- parseIdentifierExpression (calls, builtins with closures, plain identifiers) *)
    Lemma not_keyword_of v : is_keyword v = false -> not_keyword v.
    Proof.
      unfold is_keyword, not_keyword. intros H. apply orb_false_iff in H. destruct H as [H H3].
      apply orb_false_iff in H. destruct H as [H1 H2]. auto.
    Qed.

    Lemma ident_expr_sound l v d ts1 node rest stk :
      parse_identifier_expression g (PE n) n (mkTok l TkIdentifier v) d ts1 = POk node rest ->
      is_keyword v = false -> ts1 <> [] -> gd ts1 -> clean (N NOpen stk (mkTok l TkIdentifier v :: ts1)) = true ->
      suffix rest ts1 /\ rest <> [] /\
      exists P, N NOpen stk (mkTok l TkIdentifier v :: ts1) = P ++ N (NEnd false) stk rest /\ Inv d P node false (cur rest).
    Proof.
      intros H KW NE1 GD1 CL. pose proof (not_keyword_of _ KW) as NK.
      unfold parse_identifier_expression in H. cbn [tval tloc] in H.
      destruct (tok_is (cur ts1) TkBracket ["("%string]) eqn:CALL.
      - destruct ts1 as [|lp r']; [congruence|]. cbn [cur] in CALL. destruct (gd_cons _ _ GD1) as [_ GDr].
        rewrite (n_call NOpen stk (mkTok l TkIdentifier v) lp r' eq_refl KW I CALL) in CL |- *. cbn [tval] in CL |- *.
        do 2 apply clean_cons in CL.
        destruct (lookup v (g_builtins g)) as [arity|] eqn:LB.
        + apply expect_inv in H. destruct H as (lp' & r'' & E & NEr & _ & H). injection E as <- <-.
          destruct (arity =? 1) eqn:A1.
          * (* one argument *)
            assert (CK : callkind g v = KParen).
            { unfold callkind. rewrite LB. apply Z.eqb_eq in A1. subst arity. reflexivity. }
            rewrite CK in CL |- *.
            apply pbind_inv in H. destruct H as (a & ts2 & H1 & H).
            destruct (top_call _ _ _ _ _ H1 GDr CL) as (SF2 & NE2 & _ & Pa & s & s' & EQ & HP & _).
            apply expect_inv in H. destruct H as (rp & r3 & -> & NE3 & TK & H). injection H as <- <-.
            rewrite (n_close (NEnd s) _ rp r3 _ TK ltac:(auto)) in EQ. cbn [top_kind top_flag List.tl is_key_kind andb mark] in EQ.
            repeat split; [eapply suffix_trans; [apply suffix_cons|]; eapply suffix_trans; [exact SF2|apply suffix_cons]|exact NE3|].
            exists (mkTok l TkIdentifier v :: lparen :: Pa ++ [rparen]). split; [rewrite EQ; la|].
            apply Inv_all. eapply Pr_builtin1; eauto.
          * destruct (arity =? 2) eqn:A2.
            -- (* collection and closure *)
               assert (CK : callkind g v = KCall2) by (unfold callkind; rewrite LB, A2; reflexivity).
               rewrite CK in CL |- *.
               apply pbind_inv in H. destruct H as (a & ts2 & H1 & H).
               destruct (top_call _ _ _ _ _ H1 GDr CL) as (SF2 & NE2 & _ & Pa & s & s' & EQ & HP & _).
               destruct (clean_split _ _ _ _ _ EQ CL) as [_ CL2].
               pose proof (gd_suffix _ _ SF2 GDr) as GD2.
               apply expect_inv in H. destruct H as (ctk & ts3 & -> & NE3 & TC & H).
               destruct (gd_cons _ _ GD2) as [_ GD3].
               rewrite (n_comma (NEnd s) _ ctk ts3 TC I) in CL2, EQ. cbn [top_kind] in CL2, EQ. apply clean_cons in CL2.
               apply pbind_inv in H. destruct H as (cl & ts4 & HC & H).
               unfold parse_closure in HC.
               apply expect_inv in HC. destruct HC as (btk & ts5 & -> & NE5 & TB & HC). cbn [cur] in HC.
               destruct (gd_cons _ _ GD3) as [_ GD5].
               rewrite (n_lbrace NOpenC _ btk ts5 TB) in CL2, EQ. apply clean_cons in CL2.
               apply pbind_inv in HC. destruct HC as (e & ts6 & HE & HC).
               destruct (top_call _ _ _ _ _ HE GD5 CL2) as (SF6 & NE6 & _ & Pe & se & se' & EQe & HPe & _).
               apply expect_inv in HC. destruct HC as (rb & ts7 & -> & NE7 & TRB & HC). injection HC as <- <-.
               rewrite (n_close (NEnd se) _ rb ts7 _ TRB ltac:(auto)) in EQe. cbn [top_kind top_flag List.tl is_key_kind andb mark] in EQe.
               apply expect_inv in H. destruct H as (rp & r8 & -> & NE8 & TRP & H). injection H as <- <-.
               rewrite (n_close (NEnd false) _ rp r8 _ TRP ltac:(auto)) in EQe. cbn [top_kind top_flag List.tl is_key_kind andb mark] in EQe.
               repeat split.
               ++ eapply suffix_trans; [apply suffix_cons|]. eapply suffix_trans; [apply suffix_cons|]. eapply suffix_trans; [exact SF6|].
                  eapply suffix_trans; [apply suffix_cons|]. eapply suffix_trans; [apply suffix_cons|]. eapply suffix_trans; [exact SF2|apply suffix_cons].
               ++ exact NE8.
               ++ exists (mkTok l TkIdentifier v :: lparen ::
                          (Pa ++ comma :: mkTok (tloc btk) TkBracket "{" :: Pe ++ [mkTok noloc TkBracket "}"]) ++ [rparen]).
                  split; [rewrite EQ, EQe; la|].
                  apply Inv_all. eapply Pr_builtin2; eauto.
            -- (* no argument *)
               assert (CK : callkind g v = KParen) by (unfold callkind; rewrite LB, A2; reflexivity).
               rewrite CK in CL |- *.
               apply expect_inv in H. destruct H as (rp & r3 & -> & NE3 & TK & H). injection H as <- <-.
               rewrite (n_close NOpen _ rp r3 _ TK ltac:(auto)). cbn [top_kind top_flag List.tl is_key_kind andb mark].
               repeat split; [eapply suffix_trans; apply suffix_cons|exact NE3|].
               exists (mkTok l TkIdentifier v :: lparen :: [] ++ [rparen]). split; [la|].
               apply Inv_all. eapply Pr_builtin0; eauto.
        + (* function call *)
          assert (CK : callkind g v = KParen) by (unfold callkind; rewrite LB; reflexivity).
          rewrite CK in CL |- *.
          apply pbind_inv in H. destruct H as (args & ts2 & H1 & H). injection H as <- <-.
          unfold parse_arguments in H1.
          apply expect_inv in H1. destruct H1 as (lp' & r'' & E & NEr & _ & H1). injection E as <- <-.
          destruct (args_close_sound _ _ _ _ 0%nat _ _ H1 GDr NEr CL) as (SF & NE & Pa & EQ & SQ).
          repeat split; [eapply suffix_trans; [exact SF|apply suffix_cons]|exact NE|].
          exists (mkTok l TkIdentifier v :: lparen :: Pa ++ [rparen]). split; [rewrite EQ; la|].
          apply Inv_all. eapply Pr_function; eauto.
      - injection H as <- <-.
        rewrite (n_ident NOpen stk (mkTok l TkIdentifier v) ts1 eq_refl KW I NE1 CALL) in CL |- *.
        apply clean_cons in CL. apply clean_mark in CL. destruct CL as [P4 CL]. rewrite P4. cbn [mark].
        repeat split; [apply suffix_refl|exact NE1|].
        exists [mkTok l TkIdentifier v]. split; [reflexivity|].
        apply Inv_ident; [exact NK|]. intros V. rewrite V in P4. cbn [andb] in P4. apply negb_false_iff in P4. exact P4.
    Qed.

    (* ---- parsePrimaryExpression *)
    Lemma ok_lbrace_loc tk : tok_ok tk = true -> tok_is tk TkBracket ["{"%string] = true -> mem_loc (tloc tk) BR = true.
    Proof.
      intros OK TB. pose proof (tok_is_val _ _ _ TB) as V. apply tok_is_inv in TB. destruct TB as [K _].
      unfold Sound.tok_ok in OK. rewrite K in OK. apply andb_prop in OK. destruct OK as [_ OK]. rewrite V in OK. exact OK.
    Qed.

    Definition BaseRes (d : nat) (e : expr) (fl : bool) (P : list token) (s : bool) (rest : list token) : Prop :=
      if fl then Inv d P e false (cur rest) /\ (s = false \/ pfx_start (cur rest) = false)
      else (forall top p f, Pr d (COp top p f) P e false) /\ pfx_start (cur rest) = false.

    Lemma brackets_sound d tk ts1 e fl rest stk :
      (if tok_is tk TkBracket ["["%string]
       then pbind (parse_array (PE n) n tk d (tk :: ts1)) (fun node ts2 => POk (node, true) ts2)
       else if tok_is tk TkBracket ["{"%string]
            then pbind (parse_map (PE n) n tk d (tk :: ts1)) (fun node ts2 => POk (node, true) ts2)
            else PErr (tloc tk)) = POk (e, fl) rest ->
      gd (tk :: ts1) -> clean (N NOpen stk (tk :: ts1)) = true ->
      suffix rest (tk :: ts1) /\ rest <> [] /\ strloc e /\
      exists P s, N NOpen stk (tk :: ts1) = P ++ N (NEnd s) stk rest /\ BaseRes d e fl P s rest.
    Proof.
      intros H GD CL. destruct (gd_cons _ _ GD) as [OK GD1].
      destruct (tok_is tk TkBracket ["["%string]) eqn:TA.
      - apply pbind_inv in H. destruct H as (node & ts2 & H1 & H). injection H as <- <- <-.
        unfold parse_array in H1.
        apply expect_inv in H1. destruct H1 as (tk' & r & E & NE1 & _ & H1). injection E as <- <-.
        rewrite (n_lbrack NOpen stk tk ts1 TA) in CL |- *. cbn [flag_of is_end] in CL |- *. apply clean_cons in CL.
        apply pbind_inv in H1. destruct H1 as (es & ts3 & HL & H1).
        destruct (array_sound _ _ _ _ _ _ HL GD1 NE1 [] (SeqW_nil _ _ _ _ _) NOpen false stk ltac:(reflexivity) ltac:(congruence) CL)
          as (SF & NE3 & CR & P' & st' & EQ & SQ).
        apply expect_inv in H1. destruct H1 as (rb & r4 & -> & NE4 & TK & H1). injection H1 as <- <-.
        rewrite (n_close st' _ rb r4 _ TK ltac:(auto)) in EQ. cbn [top_kind top_flag List.tl is_key_kind andb mark] in EQ.
        repeat split; [eapply suffix_trans; [apply suffix_cons|]; eapply suffix_trans; [exact SF|apply suffix_cons]|exact NE4|].
        exists (mkTok (tloc tk) TkBracket "[" :: P' ++ [mkTok noloc TkBracket "]"]), false.
        split; [rewrite EQ; la|]. split; [|left; reflexivity].
        apply Inv_all. eapply Pr_array; eauto.
      - destruct (tok_is tk TkBracket ["{"%string]) eqn:TM; [|discriminate H].
        apply pbind_inv in H. destruct H as (node & ts2 & H1 & H). injection H as <- <- <-.
        unfold parse_map in H1.
        apply expect_inv in H1. destruct H1 as (tk' & r & E & NE1 & _ & H1). injection E as <- <-.
        rewrite (n_lbrace NOpen stk tk ts1 TM) in CL |- *. apply clean_cons in CL.
        apply pbind_inv in H1. destruct H1 as (ps & ts3 & HL & H1).
        destruct (map_sound _ _ _ _ _ _ _ HL GD1 NE1 (ok_lbrace_loc _ OK TM) [] (SeqW_nil _ _ _ _ _) NOpenK false stk
                    ltac:(reflexivity) ltac:(congruence) CL) as (SF & NE3 & CR & P' & st' & EQ & SQ).
        apply expect_inv in H1. destruct H1 as (rb & r4 & -> & NE4 & TK & H1). injection H1 as <- <-.
        rewrite (n_close st' _ rb r4 _ TK ltac:(auto)) in EQ. cbn [top_kind top_flag List.tl is_key_kind andb mark] in EQ.
        repeat split; [eapply suffix_trans; [apply suffix_cons|]; eapply suffix_trans; [exact SF|apply suffix_cons]|exact NE4|].
        exists (mkTok (tloc tk) TkBracket "{" :: P' ++ [mkTok noloc TkBracket "}"]), false.
        split; [rewrite EQ; la|]. split; [|left; reflexivity].
        apply Inv_all. eapply Pr_map; eauto.
    Qed.

    Lemma number_value_strip u v : strip_underscores u = strip_underscores v ->
      number_value (o_float o) u = number_value (o_float o) v.
    Proof. intros H. unfold number_value. rewrite H. reflexivity. Qed.

    Lemma prim_expr_sound d tk ts1 e fl rest stk :
      parse_primary_expression g o (PE n) n d (tk :: ts1) = POk (e, fl) rest ->
      gd (tk :: ts1) -> clean (N NOpen stk (tk :: ts1)) = true ->
      suffix rest (tk :: ts1) /\ rest <> [] /\ strloc e /\
      exists P s, N NOpen stk (tk :: ts1) = P ++ N (NEnd s) stk rest /\ BaseRes d e fl P s rest.
    Proof.
      intros H GD CL. destruct (gd_cons _ _ GD) as [OK GD1].
      unfold parse_primary_expression in H. cbn [cur] in H.
      destruct (tkind_of tk) eqn:K; try (eapply brackets_sound; eassumption).
      - (* identifier tokens *)
        apply next_inv in H. destruct H as (tk' & r & E & NE1 & H). injection E as <- <-.
        destruct tk as [l k v]. cbn [tkind_of] in K. subst k. cbn [tval tloc] in H. unfold val_is in H. cbn [tval] in H.
        destruct (String.eqb v "true") eqn:V1; [|destruct (String.eqb v "false") eqn:V2; [|destruct (String.eqb v "nil") eqn:V3]].
        + injection H as <- <- <-. apply String.eqb_eq in V1. subst v.
          rewrite (n_keyword NOpen stk (mkTok l TkIdentifier "true") ts1 eq_refl eq_refl I) in CL |- *. apply clean_cons in CL. apply clean_mark in CL. destruct CL as [PF CL].
          rewrite PF. cbn [mark]. repeat split; [apply suffix_cons|exact NE1|].
          exists [mkTok l TkIdentifier "true"], false. split; [reflexivity|]. split; [|exact PF].
          intros top p f. apply (Pr_bool g o fmt_int fmt_float d l true).
        + injection H as <- <- <-. apply String.eqb_eq in V2. subst v.
          rewrite (n_keyword NOpen stk (mkTok l TkIdentifier "false") ts1 eq_refl eq_refl I) in CL |- *. apply clean_cons in CL. apply clean_mark in CL. destruct CL as [PF CL].
          rewrite PF. cbn [mark]. repeat split; [apply suffix_cons|exact NE1|].
          exists [mkTok l TkIdentifier "false"], false. split; [reflexivity|]. split; [|exact PF].
          intros top p f. apply (Pr_bool g o fmt_int fmt_float d l false).
        + injection H as <- <- <-. apply String.eqb_eq in V3. subst v.
          rewrite (n_keyword NOpen stk (mkTok l TkIdentifier "nil") ts1 eq_refl eq_refl I) in CL |- *. apply clean_cons in CL. apply clean_mark in CL. destruct CL as [PF CL].
          rewrite PF. cbn [mark]. repeat split; [apply suffix_cons|exact NE1|].
          exists [mkTok l TkIdentifier "nil"], false. split; [reflexivity|]. split; [|exact PF].
          intros top p f. apply Pr_nil.
        + apply pbind_inv in H. destruct H as (node & ts2 & H1 & H). injection H as <- <- <-.
          assert (KW : is_keyword v = false) by (unfold is_keyword; rewrite V1, V2, V3; reflexivity).
          destruct (ident_expr_sound _ _ _ _ _ _ stk H1 KW NE1 GD1 CL) as (SF & NE2 & P & EQ & HI).
          repeat split; [eapply suffix_trans; [exact SF|apply suffix_cons]|exact NE2| |].
          * unfold parse_identifier_expression in H1. cbn [tval tloc] in H1.
            destruct (tok_is (cur ts1) TkBracket ["("%string]).
            -- destruct (lookup v (g_builtins g)).
               ++ apply expect_inv in H1. destruct H1 as (? & ? & _ & _ & _ & H1).
                  destruct (_ =? 1).
                  ** apply pbind_inv in H1. destruct H1 as (? & ? & _ & H1).
                     apply expect_inv in H1. destruct H1 as (? & ? & _ & _ & _ & H1). injection H1 as <- _. exact I.
                  ** destruct (_ =? 2).
                     --- apply pbind_inv in H1. destruct H1 as (? & ? & _ & H1).
                         apply expect_inv in H1. destruct H1 as (? & ? & _ & _ & _ & H1).
                         apply pbind_inv in H1. destruct H1 as (? & ? & _ & H1).
                         apply expect_inv in H1. destruct H1 as (? & ? & _ & _ & _ & H1). injection H1 as <- _. exact I.
                     --- apply expect_inv in H1. destruct H1 as (? & ? & _ & _ & _ & H1). injection H1 as <- _. exact I.
               ++ apply pbind_inv in H1. destruct H1 as (? & ? & _ & H1). injection H1 as <- _. exact I.
            -- injection H1 as <- _. exact I.
          * exists P, false. split; [exact EQ|]. split; [exact HI|left; reflexivity].
      - (* number tokens *)
        apply next_inv in H. destruct H as (tk' & r & E & NE1 & H). injection E as <- <-.
        rewrite (n_number NOpen stk tk ts1 K I) in CL |- *. apply clean_cons in CL. apply clean_mark in CL. destruct CL as [PF CL].
        rewrite PF. cbn [mark].
        unfold Sound.tok_ok in OK. rewrite K in OK. unfold num_okb in OK. unfold canon_num.
        destruct (number_value (o_float o) (tval tk)) as [z|x|] eqn:NV; [| |discriminate H]; injection H as <- <- <-.
        + repeat split; [apply suffix_cons|exact NE1|].
          exists [mkTok (tloc tk) TkNumber (fmt_int z)], false. split; [reflexivity|]. split; [|exact PF].
          intros top p f. apply Pr_int.
          destruct (number_value (o_float o) (fmt_int z)) as [z'| |]; try discriminate OK. apply Z.eqb_eq in OK. subst z'. reflexivity.
        + repeat split; [apply suffix_cons|exact NE1|].
          exists [mkTok (tloc tk) TkNumber (fmt_float x)], false. split; [reflexivity|]. split; [|exact PF].
          intros top p f. apply Pr_float. apply String.eqb_eq in OK. rewrite (number_value_strip _ _ OK). exact NV.
      - (* string tokens *)
        apply next_inv in H. destruct H as (tk' & r & E & NE1 & H). injection E as <- <-. injection H as <- <- <-.
        rewrite (n_string NOpen stk tk ts1 K I) in CL |- *. apply clean_cons in CL. apply clean_mark in CL. destruct CL as [PF CL].
        rewrite PF. cbn [mark].
        unfold Sound.tok_ok in OK. rewrite K in OK. apply negb_true_iff in OK.
        repeat split; [apply suffix_cons|exact NE1|exact OK|].
        exists [tk], false. split; [reflexivity|]. split; [|exact PF].
        intros top p f. destruct tk as [l k v]. cbn in K. subst k. apply Pr_str.
    Qed.

    (* ---- parsePrimary: unary operators, parentheses, pointers *)
    Lemma unary_not_punct v pu : lookup v (g_unary g) = Some pu -> punct_val v = false.
    Proof.
      intros H. unfold punct_val.
      repeat match goal with |- context [String.eqb v ?k] =>
        let E := fresh "E" in destruct (String.eqb v k) eqn:E;
        [apply String.eqb_eq in E; subst v; destruct (G_punct g G k ltac:(cbn; tauto)) as [E' _]; congruence|] end.
      reflexivity.
    Qed.
    Lemma binary_not_punct v x : lookup v (g_binary g) = Some x -> punct_val v = false.
    Proof.
      intros H. unfold punct_val.
      repeat match goal with |- context [String.eqb v ?k] =>
        let E := fresh "E" in destruct (String.eqb v k) eqn:E;
        [apply String.eqb_eq in E; subst v; destruct (G_punct g G k ltac:(cbn; tauto)) as [_ E']; congruence|] end.
      reflexivity.
    Qed.

    Lemma base_sound d ts e fl rest stk :
      parse_base g o (PE n) n d ts = POk (e, fl) rest -> gd ts -> ts <> [] -> clean (N NOpen stk ts) = true ->
      suffix rest ts /\ rest <> [] /\ strloc e /\
      exists P s, N NOpen stk ts = P ++ N (NEnd s) stk rest /\ BaseRes d e fl P s rest.
    Proof.
      intros H GD NE CL. destruct ts as [|tk ts1]; [congruence|]. destruct (gd_cons _ _ GD) as [OK GD1].
      unfold parse_base in H. cbn [cur] in H.
      destruct (if is_kind tk TkOperator then lookup (tval tk) (g_unary g) else None) as [pu|] eqn:EU.
      - (* unary operator *)
        destruct (is_kind tk TkOperator) eqn:KO; [|discriminate EU].
        apply next_inv in H. destruct H as (tk' & r & E & NE1 & H). injection E as <- <-.
        apply pbind_inv in H. destruct H as (e0 & ts2 & H1 & H). injection H as <- <- <-.
        rewrite (n_op_plain NOpen stk tk ts1 KO I (unary_not_punct _ _ EU)) in CL |- *. apply clean_cons in CL.
        destruct (opd_call _ _ _ _ _ stk H1 (G_unary_pos g G _ _ EU) GD1 CL) as (SF & NE2 & Pe & s & EQ & HO & PF & FL).
        destruct (HO false) as (s1 & HP).
        repeat split; [eapply suffix_trans; [exact SF|apply suffix_cons]|exact NE2|].
        exists (tk :: Pe), s. split; [rewrite EQ; reflexivity|]. split; [|right; exact PF].
        apply is_kind_inv in KO. destruct tk as [l k v]. cbn in KO, EU |- *. subst k.
        eapply Inv_unary; eauto.
      - destruct (tok_is tk TkBracket ["("%string]) eqn:LP.
        + (* parentheses *)
          apply next_inv in H. destruct H as (tk' & r & E & NE1 & H). injection E as <- <-.
          apply pbind_inv in H. destruct H as (e0 & ts2 & H1 & H).
          apply expect_inv in H. destruct H as (rp & r3 & -> & NE3 & TK & H). injection H as <- <- <-.
          rewrite (n_lparen NOpen stk tk ts1 LP) in CL |- *. cbn [flag_of in_key_pos] in CL |- *. apply clean_cons in CL.
          destruct (top_call _ _ _ _ _ H1 GD1 CL) as (SF & NE2 & SL & Pin & s & s' & EQ & HP & _).
          rewrite (n_close (NEnd s) _ rp r3 _ TK ltac:(auto)) in EQ. cbn [top_kind top_flag List.tl is_key_kind andb mark] in EQ.
          repeat split; [eapply suffix_trans; [apply suffix_cons|]; eapply suffix_trans; [exact SF|apply suffix_cons]|exact NE3|exact SL|].
          exists (lparen :: Pin ++ [rparen]), false. split; [rewrite EQ; la|]. split; [|left; reflexivity].
          eapply Inv_paren; eauto.
        + destruct d as [|d'].
          * destruct (tok_is tk TkOperator ["#"%string] || tok_is tk TkOperator ["."%string]); [discriminate H|].
            eapply prim_expr_sound; eassumption.
          * destruct (tok_is tk TkOperator ["#"%string]) eqn:HS; cbn [orb] in H.
            -- (* # *)
               apply next_inv in H. destruct H as (tk' & r & E & NE1 & H). injection E as <- <-. injection H as <- <- <-.
               rewrite (n_hash NOpen stk tk ts1 HS I).
               repeat split; [apply suffix_cons|exact NE1|].
               exists [mkTok (tloc tk) TkOperator "#"], false. split; [reflexivity|]. split; [|left; reflexivity].
               apply Inv_all. apply Pr_pointer.
            -- destruct (tok_is tk TkOperator ["."%string]) eqn:DT.
               ++ (* implicit pointer: nothing is consumed *)
                  injection H as <- <- <-.
                  rewrite (n_dot_open NOpen stk tk ts1 DT I).
                  repeat split; [apply suffix_refl|discriminate|].
                  exists [mkTok (tloc tk) TkOperator "#"], false. split; [reflexivity|]. split; [|left; reflexivity].
                  apply Inv_all. apply Pr_pointer.
               ++ eapply prim_expr_sound; eassumption.
    Qed.

    (* ---- parsePrimary with its postfix loop *)
    Lemma prim_sound lf d ts t rest stk :
      prim_lf g o n lf d ts = POk t rest -> gd ts -> ts <> [] -> clean (N NOpen stk ts) = true ->
      suffix rest ts /\ rest <> [] /\ strloc t /\
      exists P s, N NOpen stk ts = P ++ N (NEnd s) stk rest /\
                  (forall p, Opd d p (fol (cur rest)) P t) /\ pfx_start (cur rest) = false.
    Proof.
      intros H GD NE CL. unfold prim_lf in H. apply pbind_inv in H. destruct H as ([e fl] & ts1 & HB & H). cbn [fst snd] in H.
      destruct (base_sound _ _ _ _ _ stk HB GD NE CL) as (SF1 & NE1 & SL & P & s & EQ & BRs).
      destruct (clean_split _ _ _ _ _ EQ CL) as [_ CL1].
      destruct fl; unfold BaseRes in BRs.
      - destruct BRs as [HI S0].
        destruct (ploop_sound _ _ _ _ _ _ _ H (gd_suffix _ _ SF1 GD) NE1 P HI s stk
                    ltac:(destruct S0 as [->|S0]; [left; reflexivity|right; exact S0]) CL1)
          as (SF & NEr & SL' & P' & s' & EQ' & HO & PF).
        repeat split; [eapply suffix_trans; eassumption|exact NEr|apply SL'; exact SL|].
        exists (P ++ P'), s'. split; [rewrite EQ, EQ'; la|]. split; [exact HO|exact PF].
      - injection H as <- <-. destruct BRs as [HP PF].
        repeat split; [exact SF1|exact NE1|exact SL|].
        exists P, s. split; [exact EQ|]. split; [|exact PF].
        intros p top. exists false. apply HP.
    Qed.

    (* ---- the operator loop of parseExpression *)
    Lemma bloop_sound : forall lf prec d left ts t rest,
      bloop g o n lf prec d left ts = POk t rest -> 0 <= prec -> gd ts -> ts <> [] ->
      forall PL, Opd d prec (fol (cur ts)) PL left -> pfx_start (cur ts) = false ->
      forall s0 stk, clean (N (NEnd s0) stk ts) = true ->
      suffix rest ts /\ rest <> [] /\ (strloc left -> strloc t) /\
      exists P' s', N (NEnd s0) stk ts = P' ++ N (NEnd s') stk rest /\ Opd d prec (fol (cur rest)) (PL ++ P') t /\
                    pfx_start (cur rest) = false /\ fol (cur rest) < Z.max prec 1.
    Proof.
      induction lf as [|lf IHlf]; intros prec d left ts t rest H PP GD NE PL HL PS s0 stk CL;
        unfold bloop in H; cbn [binary_loop] in H.
      all: assert (EXIT : fol (cur ts) < Z.max prec 1 -> POk left ts = POk t rest ->
             suffix rest ts /\ rest <> [] /\ (strloc left -> strloc t) /\
             exists P' s', N (NEnd s0) stk ts = P' ++ N (NEnd s') stk rest /\ Opd d prec (fol (cur rest)) (PL ++ P') t /\
                           pfx_start (cur rest) = false /\ fol (cur rest) < Z.max prec 1)
        by (intros FL E; injection E as <- <-; repeat split; [apply suffix_refl|exact NE|auto|];
            exists [], s0; rewrite app_nil_r; repeat split; assumption).
      all: destruct (is_kind (cur ts) TkOperator) eqn:KO; [|apply EXIT; [rewrite (fol_nonop _ KO); lia|exact H]].
      all: destruct (lookup (tval (cur ts)) (g_binary g)) as [[po ra]|] eqn:LB; [|apply EXIT; [rewrite (fol_nolookup _ LB); lia|exact H]].
      all: destruct (po >=? prec) eqn:GE; [|apply EXIT; [rewrite (fol_op _ _ _ KO LB); rewrite Z.geb_leb in GE; apply Z.leb_gt in GE; lia|exact H]].
      - discriminate H.
      - rewrite Z.geb_leb in GE. apply Z.leb_le in GE.
        apply next_inv in H. destruct H as (tk & ts1 & -> & NE1 & H). cbn [cur] in *.
        destruct (gd_cons _ _ GD) as [_ GD1].
        apply pbind_inv in H. destruct H as (right & ts2 & H1 & H).
        rewrite (n_op_plain (NEnd s0) stk tk ts1 KO I (binary_not_punct _ _ LB)) in CL |- *. apply clean_cons in CL.
        assert (Q1 : 1 <= (if ra then po else po + 1)) by (pose proof (G_binary_pos g G _ _ _ LB); destruct ra; lia).
        destruct (opd_call _ _ _ _ _ stk H1 Q1 GD1 CL) as (SF2 & NE2 & Pr_ & s & EQ & HR & PF2 & FL2).
        destruct (clean_split _ _ _ _ _ EQ CL) as [_ CL2].
        rewrite (fol_op _ _ _ KO LB) in HL.
        assert (TKE : tk = mkTok (tloc tk) TkOperator (tval tk)) by (apply is_kind_inv in KO; destruct tk; cbn in KO; subst; reflexivity).
        assert (STEP : forall left', Opd d prec (fol (cur ts2)) (PL ++ tk :: Pr_) left' -> strloc left' ->
                  bloop g o n lf prec d left' ts2 = POk t rest ->
                  suffix rest (tk :: ts1) /\ rest <> [] /\ (strloc left -> strloc t) /\
                  exists P' s', tk :: N NOpen stk ts1 = P' ++ N (NEnd s') stk rest /\ Opd d prec (fol (cur rest)) (PL ++ P') t /\
                                pfx_start (cur rest) = false /\ fol (cur rest) < Z.max prec 1).
        { intros left' HL' SL' H'.
          destruct (IHlf prec d left' ts2 t rest H' PP (gd_suffix _ _ SF2 GD1) NE2 _ HL' PF2 s stk CL2)
            as (SF & NEr & SLt & P' & s' & EQ' & HO & PF & FL).
          repeat split; [eapply suffix_trans; [exact SF|]; eapply suffix_trans; [exact SF2|apply suffix_cons]|exact NEr|intros _; apply SLt; exact SL'|].
          exists (tk :: Pr_ ++ P'), s'. repeat split; [rewrite EQ, EQ'; la| |exact PF|exact FL].
          replace (PL ++ tk :: Pr_ ++ P') with ((PL ++ tk :: Pr_) ++ P') by la. exact HO. }
        destruct (val_is tk "matches") eqn:VM.
        + unfold val_is in VM. apply String.eqb_eq in VM.
          assert (HM : Opd d prec (fol (cur ts2)) (PL ++ tk :: Pr_)
                         (EMatches (at_loc (tloc tk)) (match right with EStr _ s1 => Some s1 | _ => None end) left right) \/
                       exists a s1, right = EStr a s1 /\ o_regex o s1 = false).
          { destruct (match right with EStr _ s1 => o_regex o s1 | _ => true end) eqn:RX.
            - left. rewrite TKE, VM. rewrite VM in LB.
              eapply (Pr_matches g o fmt_int fmt_float d (tloc tk) po ra PL left Pr_ right prec (fol (cur ts2))); eauto.
              intros a s1 ->. exact RX.
            - right. destruct right; try discriminate RX. eauto. }
          destruct HM as [HM|(a & s1 & -> & RX)].
          * destruct right; try (apply (STEP _ HM I H)).
            destruct (o_regex o s1) eqn:RX; [apply (STEP _ HM I H)|discriminate H].
          * rewrite RX in H. discriminate H.
        + apply (STEP (EBinary (at_loc (tloc tk)) (binop_of_string (tval tk)) left right)); [|exact I|exact H].
          rewrite TKE at 1. cbn [tloc tval].
          eapply (Pr_binary g o fmt_int fmt_float d (tloc tk) (tval tk) po ra PL left Pr_ right prec (fol (cur ts2))); eauto.
    Qed.

    (* ---- parseConditionalExpression *)
    Lemma cloop_sound : forall lf d node ts t rest,
      cloop g o n lf d node ts = POk t rest -> gd ts -> ts <> [] ->
      forall PN, Opd d 0 0 PN node -> fol (cur ts) = 0 -> pfx_start (cur ts) = false ->
      forall s0 stk, clean (N (NEnd s0) stk ts) = true ->
      suffix rest ts /\ rest <> [] /\ (strloc node -> strloc t) /\
      exists P' s', N (NEnd s0) stk ts = P' ++ N (NEnd s') stk rest /\ (exists s1, Pr d CTOP (PN ++ P') t s1) /\
                    pfx_start (cur rest) = false /\ fol (cur rest) = 0 /\
                    tok_is (cur rest) TkOperator ["?"%string] = false.
    Proof.
      intros lf d node ts t rest H GD NE PN HN F0 PS s0 stk CL.
      destruct (tok_is (cur ts) TkOperator ["?"%string]) eqn:Q.
      - destruct lf as [|lf]; unfold cloop in H; cbn [cond_loop] in H; rewrite Q in H; [discriminate H|].
        apply next_inv in H. destruct H as (qtk & ts1 & -> & NE1 & H). cbn [cur] in Q.
        destruct (gd_cons _ _ GD) as [_ GD1].
        rewrite (n_quest (NEnd s0) stk qtk ts1 Q I) in CL |- *. apply clean_cons in CL. apply clean_mark in CL. destruct CL as [EL CL].
        rewrite EL. cbn [mark]. unfold is_colon in EL. rewrite EL in H. cbn [negb] in H.
        apply pbind_inv in H. destruct H as (e1 & ts2 & H1 & H).
        destruct (top_call _ _ _ _ _ H1 GD1 CL) as (SF2 & NE2 & _ & P1 & s1 & s1' & EQ1 & HP1 & _).
        destruct (clean_split _ _ _ _ _ EQ1 CL) as [_ CL2].
        pose proof (gd_suffix _ _ SF2 GD1) as GD2.
        apply expect_inv in H. destruct H as (ctk & ts3 & -> & NE3 & TC & H).
        destruct (gd_cons _ _ GD2) as [_ GD3].
        rewrite (n_colon (NEnd s1) stk ctk ts3 TC I) in CL2, EQ1. apply clean_cons in CL2.
        apply pbind_inv in H. destruct H as (e2 & ts4 & H2 & H).
        destruct (top_call _ _ _ _ _ H2 GD3 CL2) as (SF4 & NE4 & _ & P2 & s2 & s2' & EQ2 & HP2 & PF4 & F4 & NQ4).
        change (cond_loop (PE n) lf d (ECond ann0 node e1 e2) ts4) with (cloop g o n lf d (ECond ann0 node e1 e2) ts4) in H.
        rewrite (cloop_stop g o n lf d _ ts4 NQ4) in H. injection H as <- <-.
        repeat split.
        + eapply suffix_trans; [exact SF4|]. eapply suffix_trans; [apply suffix_cons|]. eapply suffix_trans; [exact SF2|apply suffix_cons].
        + exact NE4.
        + exists (mkTok noloc TkOperator "?" :: P1 ++ colon :: P2), s2.
          split; [rewrite EQ1, EQ2; la|]. split; [|auto].
          exists false. eapply Pr_cond; eauto.
      - rewrite (cloop_stop g o n lf d node ts Q) in H. injection H as <- <-.
        repeat split; [apply suffix_refl|exact NE|auto|].
        exists [], s0. rewrite app_nil_r. split; [reflexivity|]. split; [|auto].
        destruct (HN true) as (s1 & HP). exists s1. exact HP.
    Qed.

    Lemma prim_nil lf d : prim_lf g o n lf d [] = PErr noloc.
    Proof. unfold prim_lf, parse_base. cbn. destruct d; reflexivity. Qed.

    Lemma bloop_exit lf prec d left ts : lookup (tval (cur ts)) (g_binary g) = None -> bloop g o n lf prec d left ts = POk left ts.
    Proof. intros L. unfold bloop. destruct lf; cbn [binary_loop]; rewrite L; destruct (is_kind (cur ts) TkOperator); reflexivity. Qed.

    Lemma step_spec prec d ts t rest : PE (S n) prec d ts = POk t rest -> 0 <= prec -> Spec prec d ts t rest.
    Proof.
      intros H PP GD stk CL. rewrite PE_S in H.
      apply pbind_inv in H. destruct H as (node & ts2 & H & H3).
      apply pbind_inv in H. destruct H as (x & ts1 & H1 & H2).
      destruct ts as [|tk0 ts0]; [rewrite prim_nil in H1; discriminate H1|].
      destruct (prim_sound _ _ _ _ _ stk H1 GD ltac:(discriminate) CL) as (SF1 & NE1 & SL1 & P0 & s0 & EQ0 & HO0 & PF1).
      destruct (clean_split _ _ _ _ _ EQ0 CL) as [_ CL1].
      pose proof (gd_suffix _ _ SF1 GD) as GD1.
      destruct (bloop_sound _ _ _ _ _ _ _ H2 PP GD1 NE1 P0 (HO0 prec) PF1 s0 stk CL1)
        as (SF2 & NE2 & SL2 & P1 & s1 & EQ1 & HO1 & PF2 & FL2).
      destruct (clean_split _ _ _ _ _ EQ1 CL1) as [_ CL2].
      pose proof (gd_suffix _ _ SF2 GD1) as GD2.
      destruct (prec =? 0) eqn:P0E.
      - apply Z.eqb_eq in P0E. subst prec.
        assert (F2 : fol (cur ts2) = 0) by (pose proof (fol_nonneg (cur ts2)); lia).
        rewrite F2 in HO1.
        destruct (cloop_sound _ _ _ _ _ _ H3 GD2 NE2 _ HO1 F2 PF2 s1 stk CL2)
          as (SF3 & NE3 & SL3 & P2 & s2 & EQ2 & HP & PF3 & F3 & NQ3).
        repeat split; [eapply suffix_trans; [exact SF3|]; eapply suffix_trans; eassumption|exact NE3|auto|].
        exists (P0 ++ P1 ++ P2), s2. split; [rewrite EQ0, EQ1, EQ2; la|].
        split; [|split; [exact PF3|split; [rewrite F3; lia|intros _; exact NQ3]]].
        split; [intros _; split; [exact F3|]|intros; lia].
        destruct HP as (s3 & HP). exists s3. replace (P0 ++ P1 ++ P2) with ((P0 ++ P1) ++ P2) by la. exact HP.
      - apply Z.eqb_neq in P0E. injection H3 as <- <-.
        repeat split; [eapply suffix_trans; eassumption|exact NE2|auto|].
        exists (P0 ++ P1), s1. split; [rewrite EQ0, EQ1; la|].
        split; [|split; [exact PF2|split; [exact FL2|intros; lia]]].
        split; [intros; lia|intros _; exact HO1].
    Qed.

    Lemma step_speck d ts t rest : PE (S n) 0 d ts = POk t rest -> SpecK d ts t rest.
    Proof.
      intros H LP GD stk CL. rewrite PE_S in H.
      apply pbind_inv in H. destruct H as (node & ts5 & H & H3).
      apply pbind_inv in H. destruct H as (x & ts4 & H1 & H2).
      destruct ts as [|lp ts1]; [rewrite prim_nil in H1; discriminate H1|]. cbn [cur] in LP.
      destruct (gd_cons _ _ GD) as [_ GD1].
      unfold prim_lf in H1. apply pbind_inv in H1. destruct H1 as ([e fl] & ts3 & HB & H1). cbn [fst snd] in H1.
      unfold parse_base in HB. cbn [cur] in HB.
      assert (KO : is_kind lp TkOperator = false).
      { apply tok_is_inv in LP. destruct LP as [K _]. unfold is_kind, tok_is. rewrite K. reflexivity. }
      rewrite KO, LP in HB.
      apply next_inv in HB. destruct HB as (tk' & r & E & NE1 & HB). injection E as <- <-.
      apply pbind_inv in HB. destruct HB as (e0 & ts2 & HE & HB).
      apply expect_inv in HB. destruct HB as (rp & r3 & -> & NE3 & TK & HB). injection HB as <- <- <-.
      rewrite (n_lparen NOpenK stk lp ts1 LP) in CL |- *. cbn [flag_of in_key_pos] in CL |- *. apply clean_cons in CL.
      destruct (top_call _ _ _ _ _ HE GD1 CL) as (SF & NE2 & SL & Pin & s & s' & EQ & HP & _).
      rewrite (n_close (NEnd s) _ rp r3 _ TK ltac:(auto)) in EQ. cbn [top_kind top_flag List.tl is_key_kind andb] in EQ.
      rewrite EQ in CL. apply clean_app in CL. destruct CL as [_ CL]. apply clean_cons in CL. apply clean_mark in CL. destruct CL as [CK CL].
      rewrite CK in EQ. cbn [mark] in EQ. apply negb_false_iff in CK.
      assert (VC : tval (cur r3) = ":"%string) by (apply tok_is_inv in CK; tauto).
      assert (PFS : pf_start (cur r3) = false).
      { unfold pf_start, val_is. rewrite VC. cbn. apply andb_false_r. }
      rewrite (ploop_stop g o n n d false e0 r3 PFS) in H1. injection H1 as <- <-.
      rewrite bloop_exit in H2.
      2: { rewrite VC. destruct (G_punct g G ":"%string ltac:(cbn; tauto)) as [_ E']. exact E'. }
      injection H2 as <- <-. cbn [Z.eqb] in H3.
      rewrite cloop_stop in H3.
      2: { unfold tok_is. cbn. rewrite VC. reflexivity. }
      injection H3 as <- <-.
      repeat split; [eapply suffix_trans; [apply suffix_cons|]; eapply suffix_trans; [exact SF|apply suffix_cons]|exact NE3|exact SL|].
      exists Pin, s', false. split; [rewrite EQ; la|]. split; [exact HP|exact CK].
    Qed.
  End Step.

  Theorem SS_all : forall n, SS n.
  Proof.
    induction n as [|n IHn].
    - split; intros; discriminate.
    - split.
      + intros prec d ts t rest H PP. exact (step_spec n IHn prec d ts t rest H PP).
      + intros d ts t rest H. exact (step_speck n IHn d ts t rest H).
  Qed.

  (* ---- parser.Parse: the accepted sequence, normalised, is a printing of the returned tree *)
  Theorem parse_sound_gen ts t :
    parse g o ts = ROk t -> gd ts -> clean (normalize g o fmt_int fmt_float ts) = true ->
    exists c, printable g fmt_int fmt_float o c t /\ normalize g o fmt_int fmt_float ts = print_any g fmt_int fmt_float c t.
  Proof.
    intros H GD CL. unfold parse, parse_with_fuel in H. destruct ts as [|tk0 ts0]; [discriminate H|].
    destruct (parse_expr g o (S (List.length (tk0 :: ts0))) 0 0 (tk0 :: ts0)) as [e rest| |] eqn:HP; try discriminate H.
    destruct (is_kind (cur rest) TkEOF) eqn:KE; [|discriminate H]. injection H as ->.
    destruct (SS_all (S (List.length (tk0 :: ts0)))) as [S1 _].
    destruct (S1 0 0%nat (tk0 :: ts0) t rest HP ltac:(lia) GD [] CL) as (SF & NE & _ & P & s & EQ & [R0 _] & _).
    destruct (R0 eq_refl) as (_ & s' & c & EP & W & _).
    destruct rest as [|etk r]; [congruence|]. cbn [cur] in KE.
    exists c. split; [exact W|].
    unfold normalize. rewrite EQ, (n_eof (NEnd s) [] etk r KE), EP. reflexivity.
  Qed.
End Main.

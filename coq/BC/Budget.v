(* BC/Budget.v — the memory budget on the model VM, for ANY program (not only compiled ones):
   the allocation counter only grows, stays below the limit on every continuing step, a budget
   failure happens exactly when an allocation would reach the limit, and runs that stay below a
   limit do not depend on it. *)
From Coq Require Import ZArith Bool List String Arith Lia.
Require Import X.Base.Num X.Base.Value X.Sem.Prim X.Sem.Sem X.BC.Instr X.BC.VM.
Import ListNotations.
Local Open Scope Z_scope.

Definition mem (s : state) : Z := r_mem (rs s).

Lemma range_size_nonneg lo hi n : range_size lo hi = Some n -> 0 <= n.
Proof.
  unfold range_size. destruct (hi <? lo) eqn:E; [intros H; inversion H; lia|].
  destruct (hi - lo + 1 <=? max_of KInt); intros H; inversion H. apply Z.ltb_ge in E. lia.
Qed.

Lemma do_call_mem fe l fast id recv vs s :
  match do_call fe l fast id recv vs s with
  | Done _ s' => r_mem s' = r_mem s
  | Stop _ _ s' => r_mem s' = r_mem s
  end.
Proof.
  unfold do_call. destruct (fn_sig fe id) as [sg|]; [|destruct fast; reflexivity].
  destruct fast.
  - destruct (s_fast sg); [|reflexivity]. destruct (fn_run fe id recv vs); reflexivity.
  - destruct (args_ok (s_ins sg) (s_variadic sg) vs); [|reflexivity].
    destruct (fn_run fe id recv vs); [|reflexivity]. destruct (s_nout sg =? 0); reflexivity.
Qed.

(* what one allocation does *)
Lemma alloc_cases cfg l n r v :
  alloc cfg l n r (fun r3 => Done v r3) =
  if c_limit cfg <=? r_mem r + n then Stop EBudget l r else Done v (mkRS (r_mem r + n) (r_trace r)).
Proof. reflexivity. Qed.

Section Budget.
Variable fe : fenv.
Variable env : value.
Variable C : code.

(* one step: the counter never decreases; when it grows the new value is below the limit *)
Definition step_ok (cfg : config) (s : state) : Prop :=
  match step fe cfg env C s with
  | Next s' => mem s <= mem s' /\ (mem s < mem s' -> mem s' < c_limit cfg)
  | Crash _ _ r' => r_mem r' = mem s
  end.

Ltac solve_plain :=
  cbv zeta; unfold bin, bool_res;
  repeat match goal with
  | |- context[match ?x with _ => _ end] =>
      lazymatch x with
      | context[match _ with _ => _ end] => fail
      | _ => destruct x eqn:?
      end
  end;
  unfold mem; cbn [rs r_mem]; first [reflexivity | split; [lia|intros; lia]].

Lemma of_result_call cfg s pc' st sc l fast id recv vs :
  match of_result pc' st sc (do_call fe l fast id recv vs (rs s)) with
  | Next s' => mem s <= mem s' /\ (mem s < mem s' -> mem s' < c_limit cfg)
  | Crash _ _ r' => r_mem r' = mem s
  end.
Proof.
  pose proof (do_call_mem fe l fast id recv vs (rs s)) as H. unfold of_result, mem.
  destruct (do_call fe l fast id recv vs (rs s)) as [v s'|e lc s']; cbn [rs].
  - rewrite H. split; [lia|intros; lia].
  - exact H.
Qed.

Lemma of_result_alloc cfg s pc' st sc l n v : 0 <= n ->
  match of_result pc' st sc (alloc cfg l n (rs s) (fun r3 => Done v r3)) with
  | Next s' => mem s <= mem s' /\ (mem s < mem s' -> mem s' < c_limit cfg)
  | Crash _ _ r' => r_mem r' = mem s
  end.
Proof.
  intros Hn. rewrite alloc_cases. unfold of_result, mem.
  destruct (c_limit cfg <=? r_mem (rs s) + n) eqn:E.
  - reflexivity.
  - cbn [rs r_mem]. apply Z.leb_gt in E. split; [lia|intros; lia].
Qed.



Lemma step_ok_all cfg s : step_ok cfg s.
Proof.
  unfold step_ok, step. destruct (fetch C (pc s)) as [[i l]|]; [|reflexivity].
  destruct i; cbv zeta.
  all: try (solve_plain; fail).
  - (* IRange *)
    destruct (stk s) as [|b [|a st']]; try reflexivity.
    destruct (to_int a) as [lo|e]; [|reflexivity].
    destruct (to_int b) as [hi|e]; [|reflexivity].
    destruct (range_size lo hi) as [n|] eqn:En; [|reflexivity].
    apply of_result_alloc. eapply range_size_nonneg; eauto.
  - (* ICall *)
    destruct (popn n (stk s) []) as [[args st']|]; [|reflexivity].
    destruct (fetch_fn fe env name) as [id|e]; [|reflexivity]. apply of_result_call.
  - destruct (popn n (stk s) []) as [[args st']|]; [|reflexivity].
    destruct (fetch_fn fe env name) as [id|e]; [|reflexivity]. apply of_result_call.
  - destruct (popn n (stk s) []) as [[args [|obj st']]|]; try reflexivity.
    destruct (fetch_fn fe obj name) as [id|e]; [|reflexivity]. apply of_result_call.
  - destruct (popn n (stk s) []) as [[args [|obj st']]|]; try reflexivity.
    destruct obj; try (destruct (fetch_fn_zero _ name); [unfold mem; cbn [rs]; split; [lia|intros; lia]|];
                       destruct (fetch_fn fe _ name) as [id|e]; [apply of_result_call|reflexivity]).
    unfold mem; cbn [rs]. split; [lia|intros; lia].
  - (* IArray *)
    destruct (stk s) as [|v st0]; [reflexivity|]. destruct (as_int v) as [n|e]; [|reflexivity].
    destruct (n <? 0) eqn:En; [reflexivity|]. destruct (Z.of_nat (List.length st0) <? n); [reflexivity|].
    destruct (popn (Z.to_nat n) st0 []) as [[xs st']|]; [|reflexivity].
    apply of_result_alloc. apply Z.ltb_ge in En. exact En.
  - (* IMap *)
    destruct (stk s) as [|v st0]; [reflexivity|]. destruct (as_int v) as [n|e]; [|reflexivity].
    destruct (n <? 0) eqn:En; [reflexivity|]. destruct (Z.of_nat (List.length st0) <? 2 * n); [reflexivity|].
    destruct (pop_pairs (Z.to_nat n) st0 []) as [[kvs st']|]; [|reflexivity].
    destruct (keys_as_str kvs) as [skvs|e]; [|reflexivity].
    apply of_result_alloc. apply Z.ltb_ge in En. exact En.
Qed.


(* ---- independence of the limit ---- *)
Lemma alloc_up cfg cfg' pc' st sc l n r v s' :
  of_result pc' st sc (alloc cfg l n r (fun r3 => Done v r3)) = Next s' ->
  mem s' < c_limit cfg' ->
  of_result pc' st sc (alloc cfg' l n r (fun r3 => Done v r3)) = Next s'.
Proof.
  rewrite !alloc_cases. unfold of_result, mem.
  destruct (c_limit cfg <=? r_mem r + n); [discriminate|].
  intros H; inversion H; subst; cbn [rs r_mem]. intros Hl.
  destruct (c_limit cfg' <=? r_mem r + n) eqn:E; [apply Z.leb_le in E; lia|reflexivity].
Qed.

Lemma alloc_down cfg cfg' pc' st sc l n r v s' :
  of_result pc' st sc (alloc cfg l n r (fun r3 => Done v r3)) = Next s' ->
  c_limit cfg' <= mem s' ->
  of_result pc' st sc (alloc cfg' l n r (fun r3 => Done v r3)) = Crash EBudget l r.
Proof.
  rewrite !alloc_cases. unfold of_result, mem.
  destruct (c_limit cfg <=? r_mem r + n); [discriminate|].
  intros H; inversion H; subst; cbn [rs r_mem]. intros Hl.
  destruct (c_limit cfg' <=? r_mem r + n) eqn:E; [reflexivity|apply Z.leb_gt in E; lia].
Qed.

Ltac alloc_instr H :=
  match type of H with
  | context[alloc] => idtac
  end.

(* a continuing step is the same step under any limit above the counter it reaches *)
Lemma step_limit_up cfg cfg' s s' :
  step fe cfg env C s = Next s' -> mem s' < c_limit cfg' -> step fe cfg' env C s = Next s'.
Proof.
  unfold step. destruct (fetch C (pc s)) as [[i l]|]; [|discriminate].
  destruct i; cbv zeta; try (intros H _; exact H).
  - (* IRange *)
    destruct (stk s) as [|b [|a st']]; try discriminate.
    destruct (to_int a) as [lo|e]; [|discriminate]. destruct (to_int b) as [hi|e]; [|discriminate].
    destruct (range_size lo hi) as [n|]; [|discriminate]. apply alloc_up.
  - (* IArray *)
    destruct (stk s) as [|v st0]; [discriminate|]. destruct (as_int v) as [n|e]; [|discriminate].
    destruct (n <? 0); [discriminate|]. destruct (Z.of_nat (List.length st0) <? n); [discriminate|].
    destruct (popn (Z.to_nat n) st0 []) as [[xs st']|]; [|discriminate]. apply alloc_up.
  - (* IMap *)
    destruct (stk s) as [|v st0]; [discriminate|]. destruct (as_int v) as [n|e]; [|discriminate].
    destruct (n <? 0); [discriminate|]. destruct (Z.of_nat (List.length st0) <? 2 * n); [discriminate|].
    destruct (pop_pairs (Z.to_nat n) st0 []) as [[kvs st']|]; [|discriminate].
    destruct (keys_as_str kvs) as [skvs|e]; [|discriminate]. apply alloc_up.
Qed.

Definition allocates (i : instr) : bool := match i with IRange | IArray | IMap => true | _ => false end.

Ltac solve_same :=
  cbv zeta; unfold bin, bool_res;
  repeat match goal with
  | |- context[match ?x with _ => _ end] =>
      lazymatch x with
      | context[match _ with _ => _ end] => fail
      | _ => destruct x eqn:?
      end
  end;
  try discriminate;
  match goal with |- Next _ = Next _ -> _ => intros HH; inversion HH; subst; reflexivity end.

Lemma of_result_call_same s pc' st sc l fast id recv vs s' :
  of_result pc' st sc (do_call fe l fast id recv vs (rs s)) = Next s' -> mem s' = mem s.
Proof.
  pose proof (do_call_mem fe l fast id recv vs (rs s)) as H. unfold of_result, mem.
  destruct (do_call fe l fast id recv vs (rs s)) as [v r'|e lc r']; [|discriminate].
  intros E; inversion E; subst; cbn [rs]. exact H.
Qed.

Lemma step_mem_same cfg s s' i l :
  fetch C (pc s) = Some (i, l) -> allocates i = false ->
  step fe cfg env C s = Next s' -> mem s' = mem s.
Proof.
  intros F Ha. unfold step. rewrite F. destruct i; try discriminate; cbv zeta.
  all: try (solve_same; fail).
  - destruct (popn n (stk s) []) as [[args st']|]; [|discriminate].
    destruct (fetch_fn fe env name) as [id|e]; [|discriminate]. apply of_result_call_same.
  - destruct (popn n (stk s) []) as [[args st']|]; [|discriminate].
    destruct (fetch_fn fe env name) as [id|e]; [|discriminate]. apply of_result_call_same.
  - destruct (popn n (stk s) []) as [[args [|obj st']]|]; try discriminate.
    destruct (fetch_fn fe obj name) as [id|e]; [|discriminate]. apply of_result_call_same.
  - destruct (popn n (stk s) []) as [[args [|obj st']]|]; try discriminate.
    destruct obj; try (destruct (fetch_fn_zero _ name); [intros HH; inversion HH; subst; reflexivity|];
                       destruct (fetch_fn fe _ name) as [id|e]; [apply of_result_call_same|discriminate]).
    intros HH; inversion HH; subst; reflexivity.
Qed.

(* ... and a budget failure under any limit it would reach or exceed *)
Lemma step_limit_down cfg cfg' s s' :
  step fe cfg env C s = Next s' -> mem s < c_limit cfg' -> c_limit cfg' <= mem s' ->
  exists l, step fe cfg' env C s = Crash EBudget l (rs s).
Proof.
  intros H H1 H2. destruct (fetch C (pc s)) as [[i l]|] eqn:F.
  2: { unfold step in H. rewrite F in H. discriminate. }
  destruct (allocates i) eqn:Ha.
  2: { pose proof (step_mem_same _ _ _ _ _ F Ha H). lia. }
  exists l. unfold step in *. rewrite F in *. destruct i; try discriminate; cbv zeta in *.
  - destruct (stk s) as [|b [|a st']]; try discriminate.
    destruct (to_int a) as [lo|e]; [|discriminate]. destruct (to_int b) as [hi|e]; [|discriminate].
    destruct (range_size lo hi) as [n|]; [|discriminate]. eapply alloc_down; eauto.
  - destruct (stk s) as [|v st0]; [discriminate|]. destruct (as_int v) as [n|e]; [|discriminate].
    destruct (n <? 0); [discriminate|]. destruct (Z.of_nat (List.length st0) <? n); [discriminate|].
    destruct (popn (Z.to_nat n) st0 []) as [[xs st']|]; [|discriminate]. eapply alloc_down; eauto.
  - destruct (stk s) as [|v st0]; [discriminate|]. destruct (as_int v) as [n|e]; [|discriminate].
    destruct (n <? 0); [discriminate|]. destruct (Z.of_nat (List.length st0) <? 2 * n); [discriminate|].
    destruct (pop_pairs (Z.to_nat n) st0 []) as [[kvs st']|]; [|discriminate].
    destruct (keys_as_str kvs) as [skvs|e]; [|discriminate]. eapply alloc_down; eauto.
Qed.

(* a failure that is not a budget failure does not depend on the limit *)
Lemma step_crash_indep cfg cfg' s e l r :
  step fe cfg env C s = Crash e l r -> e <> EBudget -> step fe cfg' env C s = Crash e l r.
Proof.
  unfold step. destruct (fetch C (pc s)) as [[i l0]|]; [|auto].
  destruct i; cbv zeta; try (intros H _; exact H).
  - destruct (stk s) as [|b [|a st']]; auto.
    destruct (to_int a) as [lo|e0]; auto. destruct (to_int b) as [hi|e0]; auto.
    destruct (range_size lo hi) as [n|]; auto. rewrite !alloc_cases. unfold of_result.
    destruct (c_limit cfg <=? r_mem (rs s) + n); [intros H Hne; inversion H; subst; contradiction|discriminate].
  - destruct (stk s) as [|v st0]; auto. destruct (as_int v) as [n|e0]; auto.
    destruct (n <? 0); auto. destruct (Z.of_nat (List.length st0) <? n); auto.
    destruct (popn (Z.to_nat n) st0 []) as [[xs st']|]; auto. rewrite !alloc_cases. unfold of_result.
    destruct (c_limit cfg <=? r_mem (rs s) + n); [intros H Hne; inversion H; subst; contradiction|discriminate].
  - destruct (stk s) as [|v st0]; auto. destruct (as_int v) as [n|e0]; auto.
    destruct (n <? 0); auto. destruct (Z.of_nat (List.length st0) <? 2 * n); auto.
    destruct (pop_pairs (Z.to_nat n) st0 []) as [[kvs st']|]; auto.
    destruct (keys_as_str kvs) as [skvs|e0]; auto. rewrite !alloc_cases. unfold of_result.
    destruct (c_limit cfg <=? r_mem (rs s) + n); [intros H Hne; inversion H; subst; contradiction|discriminate].
Qed.

End Budget.

(* BC/Verify.v — soundness of the structural bytecode verifier (decode + jumps_ok) and
   well-formedness of everything the model compiler emits. *)
From Coq Require Import ZArith Bool List String Arith Lia.
Require Import X.Base.Num X.Base.Value X.Syn.Ast X.Sem.Prim X.Sem.Sem X.BC.Instr X.BC.Compiler X.BC.VM X.BC.Decode X.BC.CompileProofs.
Import ListNotations.
Local Open Scope nat_scope.
Arguments Nat.ltb : simpl never.

(* ---------------- boundaries ---------------- *)
Lemma boundary_zero C : boundary C 0 = true.
Proof. destruct C as [|[i l] C]; reflexivity. Qed.

Lemma boundary_end C : boundary C (csize C) = true.
Proof.
  induction C as [|[i l] C IH]; [reflexivity|]. cbn [boundary csize].
  pose proof (isize_pos i). destruct (Nat.eqb_spec (isize i + csize C) 0); [lia|].
  destruct (Nat.ltb_spec (isize i + csize C) (isize i)); [lia|].
  replace (isize i + csize C - isize i) with (csize C) by lia. exact IH.
Qed.

Lemma boundary_app_r a : forall b p, boundary (a ++ b) (csize a + p) = boundary b p.
Proof.
  induction a as [|[i l] a IH]; intros b p; cbn [app csize boundary]; [reflexivity|].
  pose proof (isize_pos i).
  destruct (Nat.eqb_spec (isize i + csize a + p) 0); [lia|].
  destruct (Nat.ltb_spec (isize i + csize a + p) (isize i)); [lia|].
  replace (isize i + csize a + p - isize i) with (csize a + p) by lia. apply IH.
Qed.

Lemma boundary_app_l a : forall b p, boundary a p = true -> boundary (a ++ b) p = true.
Proof.
  induction a as [|[i l] a IH]; intros b p H; cbn [app boundary] in *.
  - apply Nat.eqb_eq in H. subst. apply boundary_zero.
  - destruct (Nat.eqb p 0); [reflexivity|]. destruct (Nat.ltb p (isize i)); [discriminate|]. apply IH; exact H.
Qed.

Lemma boundary_code_at C base c q : code_at C base c -> boundary c q = true -> boundary C (base + q) = true.
Proof.
  intros (C1 & C2 & HC & Hb) H. subst C base. rewrite boundary_app_r. apply boundary_app_l. exact H.
Qed.

Lemma boundary_fetch C p : boundary C p = true -> p < csize C -> exists x, fetch C p = Some x.
Proof.
  revert p. induction C as [|[i l] C IH]; intros p H Hl; cbn [boundary csize fetch] in *; [lia|].
  destruct (Nat.eqb p 0); [eexists; reflexivity|].
  destruct (Nat.ltb_spec p (isize i)); [discriminate|]. apply IH; [exact H|lia].
Qed.

Lemma fetch_boundary_next C : forall p i l, fetch C p = Some (i, l) -> boundary C p = true /\ boundary C (p + isize i) = true.
Proof.
  induction C as [|[j m] C IH]; intros p i l H; cbn [fetch boundary] in *; [discriminate|].
  pose proof (isize_pos j).
  destruct (Nat.eqb_spec p 0).
  - inversion H; subst. split; [reflexivity|]. cbn [plus].
    destruct (Nat.eqb_spec (isize i) 0); [lia|]. destruct (Nat.ltb_spec (isize i) (isize i)); [lia|].
    rewrite Nat.sub_diag. apply boundary_zero.
  - destruct (Nat.ltb_spec p (isize j)); [discriminate|]. destruct (IH _ _ _ H) as [B1 B2]. split; [exact B1|].
    destruct (Nat.eqb_spec (p + isize i) 0); [reflexivity|].
    destruct (Nat.ltb_spec (p + isize i) (isize j)); [lia|].
    replace (p + isize i - isize j) with (p - isize j + isize i) by lia. exact B2.
Qed.

(* ---------------- jumps_ok gives: every jump of the code lands on a boundary ---------------- *)
Definition jump_target (i : instr) (nxt : nat) : option nat :=
  match i with
  | IJump off | IJumpIfTrue off | IJumpIfFalse off => Some (nxt + off)
  | IJumpBackward off => if Nat.leb off nxt then Some (nxt - off) else None
  | _ => Some nxt
  end.

Lemma jumps_ok_from_spec C : forall rest pos, jumps_ok_from C pos rest = true ->
  forall q i l, fetch rest q = Some (i, l) ->
  match i with
  | IJump off | IJumpIfTrue off | IJumpIfFalse off => boundary C (pos + q + isize i + off) = true
  | IJumpBackward off => off <= pos + q + isize i /\ boundary C (pos + q + isize i - off) = true
  | _ => True
  end.
Proof.
  induction rest as [|[j m] rest IH]; intros pos H q i l F; cbn [fetch] in F; [discriminate|].
  cbn [jumps_ok_from] in H. apply andb_prop in H. destruct H as [H1 H2].
  pose proof (isize_pos j).
  destruct (Nat.eqb_spec q 0).
  - inversion F; subst. rewrite Nat.add_0_r.
    destruct i; auto. apply andb_prop in H1. destruct H1 as [A B]. apply Nat.leb_le in A. split; auto.
  - destruct (Nat.ltb_spec q (isize j)); [discriminate|].
    specialize (IH _ H2 _ _ _ F). replace (pos + isize j + (q - isize j)) with (pos + q) in IH by lia. exact IH.
Qed.

(* verifier soundness: in jump-checked code the program counter stays on instruction boundaries,
   hence the machine never tries to decode from the middle of an instruction or beyond the end *)
Section Sound.
Variable fe : fenv.
Variable cfg : config.
Variable env : value.
Variable C : code.
Hypothesis WF : jumps_ok C = true.

Lemma step_keeps_boundary s s' :
  boundary C (pc s) = true -> step fe cfg env C s = Next s' -> boundary C (pc s') = true.
Proof.
  intros B H. unfold step in H. destruct (fetch C (pc s)) as [[i l]|] eqn:F; [|discriminate].
  destruct (fetch_boundary_next _ _ _ _ F) as [_ Bn].
  pose proof (jumps_ok_from_spec C C 0 WF _ _ _ F) as J. cbn [plus] in J.
  destruct i; cbv zeta in H;
    try (repeat match type of H with
                | context[match ?x with _ => _ end] =>
                    lazymatch x with context[match _ with _ => _ end] => fail | _ => destruct x eqn:? end
                end; try discriminate; inversion H; subst; cbn [pc]; first [exact Bn | exact J | tauto]; fail).
  all: unfold bin, of_result in H;
    repeat match type of H with
           | context[match ?x with _ => _ end] =>
               lazymatch x with context[match _ with _ => _ end] => fail | _ => destruct x eqn:? end
           end; try discriminate; inversion H; subst; cbn [pc]; first [exact Bn | exact J | tauto].
Qed.

Theorem verified_never_misdecodes s :
  boundary C (pc s) = true -> pc s < csize C -> exists x, fetch C (pc s) = Some x.
Proof. apply boundary_fetch. Qed.

End Sound.

(* ---------------- everything the compiler emits passes the jump check ---------------- *)
Lemma jumps_ok_from_app C a : forall b base,
  jumps_ok_from C base (a ++ b) = jumps_ok_from C base a && jumps_ok_from C (base + csize a) b.
Proof.
  induction a as [|[i l] a IH]; intros b base; cbn [app jumps_ok_from csize].
  - rewrite Nat.add_0_r. reflexivity.
  - rewrite IH, andb_assoc. replace (base + isize i + csize a) with (base + (isize i + csize a)) by lia. reflexivity.
Qed.

Lemma code_at_boundaries C p c : code_at C p c -> boundary C p = true /\ boundary C (p + csize c) = true.
Proof.
  intros H. split.
  - replace p with (p + 0) by lia. eapply boundary_code_at; [exact H|apply boundary_zero].
  - eapply boundary_code_at; [exact H|apply boundary_end].
Qed.

Ltac explode_at H :=
  repeat first
  [ match type of H with code_at _ _ [] => clear H end
  | match type of H with code_at _ _ (_ :: _) =>
      let F := fresh "F" in apply code_at_cons_iff in H; destruct H as [F H]; cbn [isize] in H end
  | match type of H with code_at _ _ (_ ++ _) =>
      let G := fresh "G" in apply code_at_app_iff in H; destruct H as [G H]; explode_at G end ].

Ltac bnd_now :=
  match goal with
  | F : fetch ?C ?P = Some _ |- boundary ?C ?Q = true =>
      replace Q with P by lia; exact (proj1 (fetch_boundary_next _ _ _ _ F))
  | F : fetch ?C ?P = Some (?i, _) |- boundary ?C ?Q = true =>
      replace Q with (P + isize i) by (cbn [isize]; lia); exact (proj2 (fetch_boundary_next _ _ _ _ F))
  | G : code_at ?C ?P ?c |- boundary ?C ?Q = true =>
      replace Q with P by lia; exact (proj1 (code_at_boundaries _ _ _ G))
  | G : code_at ?C ?P ?c |- boundary ?C ?Q = true =>
      replace Q with (P + csize c) by lia; exact (proj2 (code_at_boundaries _ _ _ G))
  end.

Definition Jok (mapenv : bool) (e : expr) : Prop :=
  forall C base, code_at C base (compile mapenv e) -> jumps_ok_from C base (compile mapenv e) = true.

Section CompileWf.
Variable mapenv : bool.
Notation comp := (compile mapenv).
Notation Jok := (Jok mapenv).

Ltac norm_all :=
  repeat (progress (cbn [csize isize at_ map app] in *; rewrite ?csize_app in * )).

(* open the code, split the check along the code, leave sub-blocks and jump targets *)
Ltac jopen H :=
  pose proof H as HX; cbn [at_ map app binop_code] in HX; explode_at HX; norm_all;
  repeat (progress (rewrite ?jumps_ok_from_app; cbn [jumps_ok_from at_ map app isize csize andb binop_code]; norm_all));
  rewrite ?andb_true_r.

Ltac jsolve :=
  repeat (apply andb_true_intro; split);
  try reflexivity;
  try match goal with
      | IH : Jok ?x, G : code_at ?C ?P (comp ?x) |- jumps_ok_from ?C ?Q (comp ?x) = true =>
          replace Q with P by lia; exact (IH _ _ G)
      end;
  try bnd_now;
  try (apply Nat.leb_le; lia).

Lemma Jok_leaf e : (forall C base, jumps_ok_from C base (comp e) = true) -> Jok e.
Proof. intros H C base _. apply H. Qed.

Lemma Jok_unary a op x : Jok x -> Jok (EUnary a op x).
Proof.
  intros IHx C base H. cbn [compile] in *. jopen H. destruct op; cbn [jumps_ok_from at_ map]; jsolve.
Qed.

Lemma Jok_binary a op x y : Jok x -> Jok y -> Jok (EBinary a op x y).
Proof.
  intros IHx IHy C base H. destruct op; cbn [compile] in *; try (jopen H; jsolve; fail).
  all: try (cbn [binop_code] in *; destruct (both_kind (RKNum KInt) x y); [|destruct (both_kind RKString x y)]; jopen H; jsolve).
Qed.


Lemma Jok_list es : (forall x, In x es -> Jok x) ->
  forall C base, code_at C base (compile_list mapenv es) -> jumps_ok_from C base (compile_list mapenv es) = true.
Proof.
  induction es as [|x rest IH]; intros Hall C base H; cbn [compile_list] in *; [reflexivity|].
  apply code_at_app_iff in H. destruct H as [Hx Hr]. rewrite jumps_ok_from_app.
  apply andb_true_intro. split; [apply (Hall x (or_introl eq_refl)); exact Hx|].
  apply IH; [intros y Hy; apply Hall; right; exact Hy|exact Hr].
Qed.

Lemma Jok_pairs ps : (forall x, In x ps -> match x with EPair _ k v => Jok k /\ Jok v | _ => True end) ->
  forall C base, code_at C base (compile_pairs mapenv ps) -> jumps_ok_from C base (compile_pairs mapenv ps) = true.
Proof.
  induction ps as [|x rest IH]; intros Hall C base H; cbn [compile_pairs] in *; [reflexivity|].
  pose proof (Hall x (or_introl eq_refl)) as Hx.
  assert (Hrest : forall y, In y rest -> match y with EPair _ k v => Jok k /\ Jok v | _ => True end)
    by (intros y Hy; apply Hall; right; exact Hy).
  destruct x; try (apply IH; [exact Hrest|exact H]).
  destruct Hx as [Jk Jv].
  apply code_at_app_iff in H. destruct H as [Hk H]. apply code_at_app_iff in H. destruct H as [Hv Hr].
  rewrite !jumps_ok_from_app. repeat (apply andb_true_intro; split).
  - apply Jk; exact Hk.
  - apply Jv; exact Hv.
  - replace (base + csize (comp x1) + csize (comp x2)) with (base + csize (comp x1) + csize (comp x2)) by lia.
    apply IH; [exact Hrest|exact Hr].
Qed.

Lemma cmethod_eq a x name args ns :
  comp (EMethod a x name args ns) =
  comp x ++ compile_list mapenv args ++
  at_ (aloc a) [if ns then IMethodNilSafe name (List.length args) else IMethod name (List.length args)].
Proof. reflexivity. Qed.
Lemma cfunction_eq a name args fast :
  comp (EFunction a name args fast) =
  compile_list mapenv args ++ at_ (aloc a) [if fast then ICallFast name (List.length args) else ICall name (List.length args)].
Proof. reflexivity. Qed.
Lemma carray_eq a es :
  comp (EArray a es) = compile_list mapenv es ++ at_ (aloc a) [IPush (vint (Z.of_nat (List.length es))); IArray].
Proof. reflexivity. Qed.
Lemma cmap_eq a pairs :
  comp (EMap a pairs) = compile_pairs mapenv pairs ++ at_ (aloc a) [IPush (vint (Z.of_nat (List.length pairs))); IMap].
Proof. reflexivity. Qed.

Lemma Jok_matches a re x y : Jok x -> Jok y -> Jok (EMatches a re x y).
Proof. intros IHx IHy C base H. cbn [compile] in *. destruct (re_const re y); jopen H; jsolve. Qed.

Lemma Jok_property a x n ns : Jok x -> Jok (EProperty a x n ns).
Proof. intros IHx C base H. cbn [compile] in *. jopen H. destruct ns; cbn [jumps_ok_from]; jsolve. Qed.

Lemma Jok_index a x i : Jok x -> Jok i -> Jok (EIndex a x i).
Proof. intros IHx IHi C base H. cbn [compile] in *. jopen H. jsolve. Qed.

Lemma Jok_closure a x : Jok x -> Jok (EClosure a x).
Proof. intros IHx C base H. cbn [compile] in *. apply IHx. exact H. Qed.

Lemma Jok_cond a c x y : Jok c -> Jok x -> Jok y -> Jok (ECond a c x y).
Proof. intros IHc IHx IHy C base H. cbn [compile] in *. jopen H. jsolve. Qed.

Lemma Jok_slice a x from to :
  Jok x -> (forall f, from = Some f -> Jok f) -> (forall t, to = Some t -> Jok t) -> Jok (ESlice a x from to).
Proof.
  intros IHx IHf IHt C base H.
  destruct to as [t|], from as [f|]; cbn [compile] in *;
    try pose proof (IHf _ eq_refl) as Jf; try pose proof (IHt _ eq_refl) as Jt; jopen H; jsolve.
Qed.

Lemma Jok_method a x name args ns : Jok x -> (forall y, In y args -> Jok y) -> Jok (EMethod a x name args ns).
Proof.
  intros IHx Hall C base H. rewrite cmethod_eq in *.
  apply code_at_app_iff in H. destruct H as [Hx H]. apply code_at_app_iff in H. destruct H as [Hl Hi].
  rewrite !jumps_ok_from_app. rewrite (IHx _ _ Hx), (Jok_list args Hall _ _ Hl). destruct ns; reflexivity.
Qed.

Lemma Jok_function a name args fast : (forall y, In y args -> Jok y) -> Jok (EFunction a name args fast).
Proof.
  intros Hall C base H. rewrite cfunction_eq in *.
  apply code_at_app_iff in H. destruct H as [Hl Hi].
  rewrite !jumps_ok_from_app. rewrite (Jok_list args Hall _ _ Hl). destruct fast; reflexivity.
Qed.

Lemma Jok_array a es : (forall y, In y es -> Jok y) -> Jok (EArray a es).
Proof.
  intros Hall C base H. rewrite carray_eq in *.
  apply code_at_app_iff in H. destruct H as [Hl Hi].
  rewrite !jumps_ok_from_app. apply andb_true_intro; split; [apply Jok_list; [exact Hall|exact Hl]|reflexivity].
Qed.

Lemma Jok_map a ps : (forall x, In x ps -> match x with EPair _ k v => Jok k /\ Jok v | _ => True end) -> Jok (EMap a ps).
Proof.
  intros Hall C base H. rewrite cmap_eq in *.
  apply code_at_app_iff in H. destruct H as [Hl Hi].
  rewrite !jumps_ok_from_app. apply andb_true_intro; split; [apply Jok_pairs; [exact Hall|exact Hl]|reflexivity].
Qed.

Lemma Jok_builtin a b x c : Jok x -> Jok c ->
  match b with BiLen | BiUnknown _ => False | _ => True end -> Jok (EBuiltin a b [x; c]).
Proof.
  intros IHx IHc Hb C base H.
  destruct b; try contradiction; cbn [compile] in *; unfold loop_code, cond_code in *; jopen H; jsolve.
Qed.

Lemma Jok_len a x : Jok x -> Jok (EBuiltin a BiLen [x]).
Proof. intros IHx C base H. cbn [compile] in *. jopen H. jsolve. Qed.

End CompileWf.

Theorem compile_jumps_ok_sized mapenv : forall n e, esize e < n -> compilable e = true -> Jok mapenv e.
Proof.
  induction n as [|n IH]; intros e Hsz Hc; [lia|].
  destruct e; cbn [esize] in Hsz; cbn [compilable] in Hc; rewrite ?lsize_eq in Hsz.
  all: try (apply Jok_leaf; intros; cbn; try destruct b; try destruct mapenv; try destruct nilsafe; try destruct v; reflexivity).
  - apply Jok_unary. apply IH; [lia|destruct op; auto; discriminate].
  - assert (Hl : compilable e1 = true /\ compilable e2 = true).
    { destruct op; try discriminate; apply andb_prop in Hc; exact Hc. }
    destruct Hl. apply Jok_binary; apply IH; auto; lia.
  - apply andb_prop in Hc. destruct Hc. apply Jok_matches; apply IH; auto; lia.
  - apply Jok_property. apply IH; auto; lia.
  - apply andb_prop in Hc. destruct Hc. apply Jok_index; apply IH; auto; lia.
  - apply andb_prop in Hc. destruct Hc as [Hc H3]. apply andb_prop in Hc. destruct Hc as [H1 H2].
    apply Jok_slice.
    + apply IH; auto; lia.
    + intros f E; subst. apply IH; auto; lia.
    + intros t E; subst. apply IH; auto. destruct from; lia.
  - apply andb_prop in Hc. destruct Hc as [H1 H2]. apply Jok_method.
    + apply IH; auto; lia.
    + intros x Hx. apply IH; [pose proof (in_lsize _ _ Hx); lia|eapply compilable_list; eauto].
  - apply Jok_function. intros x Hx. apply IH; [pose proof (in_lsize _ _ Hx); lia|eapply compilable_list; eauto].
  - destruct b; destruct args as [|x [|c [|z args]]]; try discriminate; cbn [lsize] in Hsz.
    + apply Jok_len. apply IH; auto; lia.
    + apply andb_prop in Hc. destruct Hc. apply Jok_builtin; auto; apply IH; auto; lia.
    + apply andb_prop in Hc. destruct Hc. apply Jok_builtin; auto; apply IH; auto; lia.
    + apply andb_prop in Hc. destruct Hc. apply Jok_builtin; auto; apply IH; auto; lia.
    + apply andb_prop in Hc. destruct Hc. apply Jok_builtin; auto; apply IH; auto; lia.
    + apply andb_prop in Hc. destruct Hc. apply Jok_builtin; auto; apply IH; auto; lia.
    + apply andb_prop in Hc. destruct Hc. apply Jok_builtin; auto; apply IH; auto; lia.
    + apply andb_prop in Hc. destruct Hc. apply Jok_builtin; auto; apply IH; auto; lia.
  - apply Jok_closure. apply IH; auto; lia.
  - apply andb_prop in Hc. destruct Hc as [Hc H3]. apply andb_prop in Hc. destruct Hc as [H1 H2].
    apply Jok_cond; apply IH; auto; lia.
  - apply Jok_array. intros x Hx. apply IH; [pose proof (in_lsize _ _ Hx); lia|eapply compilable_list; eauto].
  - apply Jok_map. intros x Hx. pose proof (compilable_pairs _ Hc x Hx) as Hp. pose proof (in_lsize _ _ Hx) as Hs.
    destruct x; auto. destruct Hp as [Hk Hv]. cbn [esize] in Hs. split; apply IH; auto; lia.
Qed.

(* the whole program, with its optional result cast *)
Theorem compile_program_wf mapenv c e : compilable e = true -> jumps_ok (compile_program mapenv c e) = true.
Proof.
  intros Hc. unfold jumps_ok, compile_program. rewrite jumps_ok_from_app.
  apply andb_true_intro. split.
  - apply (compile_jumps_ok_sized mapenv (S (esize e)) e); [lia|exact Hc|].
    exists [], (match c with CastNone => [] | CastInt64 => [(ICast 0, noloc)] | CastFloat64 => [(ICast 1, noloc)] end).
    split; reflexivity.
  - destruct c; reflexivity.
Qed.

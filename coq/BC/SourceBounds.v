(* BC/SourceBounds.v — the numeric rest of the guard (BC/SourceGuard.v run_guard_num) reduced to a BOUND INVARIANT, and the
   length bound on the value universe under which that invariant is expected to hold for compiled code.

   Proved here: if every state the run visits is num_ok B (open scopes <= B; at OpInc the integer variables of the
   innermost scope lie in [0, B]; at OpArray / OpMap the size on the stack lies in [0, B] resp. is <= B; argument counts
   <= B) and B + 1 + max 0 budget <= MaxInt (slack), then run_guard_num holds along the run - for ANY code - and the
   capstone follows for compiled code with NO reference to vm_in_scope: source_pipeline_correct_bounded.

   NOT proved (the remaining gap, compiled_states_bounded_statement): that for the code of a compilable e, an environment
   and function environment that are len_bounded B0, the visited states are num_ok B for a B computed from B0 and e.  It
   needs the loop invariants of emitLoop (count <= i <= size = len(array), counters start at 0), scope depth <= nesting of
   builtins, size operands = len(node.Nodes) / len(node.Pairs) / count / size - i.e. the intermediate states of
   compile_correct, which BC/CompileProofs.v hides inside `star`. *)
From Coq Require Import ZArith Bool List String Arith Lia.
Require Import X.Base.Num X.Base.Value X.Syn.Ast X.Sem.Prim X.Sem.Sem X.Sem.NoMachine
               X.BC.Instr X.BC.Compiler X.BC.VM X.BC.Budget X.BC.RunProofs
               X.BC.Schemes X.gen.GenSchemes X.Bridge.BrSchemes
               X.BC.VMSteps X.gen.GenVMSteps X.Bridge.BrVMSteps X.BC.SourceCorrect X.BC.SourceGuard.
Import ListNotations.
Local Open Scope nat_scope.

Arguments Nat.ltb : simpl never.

(* ------------------------------------------------------------------ the length bound on the universe *)
(* every string, slice, map inside v has at most B elements *)
Fixpoint len_bounded (B : nat) (v : value) : bool :=
  match v with
  | VStr s => Nat.leb (String.length s) B
  | VArr _ l =>
      Nat.leb (List.length l) B &&
      (fix all (l : list value) : bool := match l with [] => true | x :: r => len_bounded B x && all r end) l
  | VMap _ _ m =>
      Nat.leb (List.length m) B &&
      (fix allp (m : list (value * value)) : bool :=
         match m with [] => true | kx :: r => len_bounded B (fst kx) && len_bounded B (snd kx) && allp r end) m
  | VStruct _ _ fs =>
      (fix allf (fs : list (string * value)) : bool :=
         match fs with [] => true | kx :: r => len_bounded B (snd kx) && allf r end) fs
  | VNamed _ x => len_bounded B x
  | _ => true
  end.

(* environment functions return bounded values (whatever the arguments: an argument may be a string the program has
   concatenated beyond the bound) *)
Definition fe_len_bounded (B : nat) (fe : fenv) : Prop :=
  forall id recv args v, fn_run fe id recv args = Ok v -> len_bounded B v = true.

(* the constants of a code are bounded *)
Definition code_len_bounded (B : nat) (C : code) : bool :=
  forallb (fun il => match fst il with IPush v => len_bounded B v | _ => true end) C.

(* ------------------------------------------------------------------ the bound invariant *)
Definition ints_within (B : Z) (sc : scope) : bool :=
  forallb (fun kv => match snd kv with VNum (NInt KInt n) => (0 <=? n)%Z && (n <=? B)%Z | _ => true end) sc.

Definition num_ok (B : Z) (C : code) (s : state) : bool :=
  (Z.of_nat (List.length (scs s)) <=? B)%Z &&
  match fetch C (pc s) with
  | Some (IInc _, _) => match scs s with sc :: _ => ints_within B sc | [] => true end
  | Some (IArray, _) => match stk s with VNum (NInt KInt n) :: _ => (n <=? B)%Z | _ => true end
  | Some (IMap, _) => match stk s with VNum (NInt KInt n) :: _ => (0 <=? n)%Z && (n <=? B)%Z | _ => true end
  | Some (ICall _ n, _) | Some (ICallFast _ n, _) | Some (IMethod _ n, _) | Some (IMethodNilSafe _ n, _) =>
      (Z.of_nat n <=? B)%Z
  | _ => true
  end.

Fixpoint run_num_ok (B : Z) (fe : fenv) (cfg : config) (env : value) (C : code) (d : nat) (s : state) : bool :=
  match d with
  | O => num_ok B C s
  | S d' =>
      run_num_ok B fe cfg env C d' s &&
      match run_depth fe cfg env C d' s with
      | Running s' => run_num_ok B fe cfg env C d' s'
      | Finished _ _ => true
      end
  end.

Definition slack (B : Z) (cfg : config) : bool :=
  (0 <=? B)%Z && (B + 1 + Z.max 0 (c_limit cfg) <=? max_of KInt)%Z.

Lemma ints_within_sget B sc k n : ints_within B sc = true -> sget sc k = Some (VNum (NInt KInt n)) -> (0 <= n <= B)%Z.
Proof.
  unfold ints_within. induction sc as [|[k' v] sc IH]; cbn [sget forallb snd]; [discriminate|].
  intros H G. apply andb_prop in H. destruct H as [H1 H2].
  destruct (String.eqb k' k).
  - injection G as ->. apply andb_prop in H1. destruct H1 as [A1 A2]. apply Z.leb_le in A1, A2. lia.
  - apply IH; assumption.
Qed.

Section Bounds.
Variable B : Z.
Variable fe : fenv.
Variable cfg : config.
Variable env : value.
Variable C : code.

Ltac zl := apply Z.leb_le; change (max_of KInt) with 9223372036854775807%Z; lia.

Lemma guard_num_of_num_ok s :
  slack B cfg = true -> mem_inv cfg s -> num_ok B C s = true -> guard_num C s = true.
Proof.
  unfold slack, num_ok, guard_num, mem_inv, mem. intros S [M0 M1] N.
  apply andb_prop in S. destruct S as [S0 S1]. apply Z.leb_le in S0, S1.
  apply andb_prop in N. destruct N as [N1 N2]. apply Z.leb_le in N1.
  change (max_of KInt) with 9223372036854775807%Z in *.
  apply andb_true_intro. split; [apply Z.leb_le; lia|].
  destruct (fetch C (pc s)) as [[i l]|]; [|reflexivity].
  destruct i; try reflexivity; cbn [vm_in_scope_num vm_in_scope].
  - (* ICall *) apply Z.leb_le in N2. zl.
  - (* ICallFast *) apply Z.leb_le in N2. zl.
  - (* IMethod *) apply Z.leb_le in N2. zl.
  - (* IMethodNilSafe *) apply Z.leb_le in N2. zl.
  - (* IArray *)
    destruct (stk s) as [|v st0]; [reflexivity|].
    destruct v as [|b|[k n|k f]|x|t xs|t|kt et m|nm ptr fs|t|kt et|nm t|nm v|dsc]; try reflexivity.
    destruct k; try reflexivity. apply Z.leb_le in N2. zl.
  - (* IMap *)
    destruct (stk s) as [|v st0]; [reflexivity|].
    destruct v as [|b|[k n|k f]|x|t xs|t|kt et m|nm ptr fs|t|kt et|nm t|nm v|dsc]; try reflexivity.
    destruct k; try reflexivity. apply andb_prop in N2. destruct N2 as [A1 A2]. rewrite A1, andb_true_r.
    apply Z.leb_le in A2. zl.
  - (* IInc *)
    destruct (scs s) as [|sc r]; [reflexivity|].
    destruct (sget sc k) as [v|] eqn:G; [|reflexivity].
    destruct v as [|b|[k0 n|k0 f]|x|t xs|t|kt et m|nm ptr fs|t|kt et|nm t|nm v|dsc]; try reflexivity.
    destruct k0; try reflexivity.
    pose proof (ints_within_sget B sc k n N2 G) as R. unfold in_range.
    change (min_of KInt) with (-9223372036854775808)%Z. change (max_of KInt) with 9223372036854775807%Z.
    apply andb_true_intro. split; zl.
Qed.

Lemma run_guard_num_of_num_ok : slack B cfg = true -> forall d s,
  mem_inv cfg s -> run_num_ok B fe cfg env C d s = true ->
  run_guard_num fe cfg env C d s = true /\ (forall s', run_depth fe cfg env C d s = Running s' -> mem_inv cfg s').
Proof.
  intros S. induction d as [|d IH]; intros s M G.
  - cbn [run_num_ok run_guard_num run_depth] in *. split; [apply guard_num_of_num_ok; assumption|].
    intros s' T. eapply mem_inv_tick; eassumption.
  - cbn [run_num_ok run_guard_num run_depth] in *. apply andb_prop in G. destruct G as [G1 G2].
    destruct (IH s M G1) as [R1 M1].
    destruct (run_depth fe cfg env C d s) as [s1|r last] eqn:E.
    + destruct (IH s1 (M1 s1 eq_refl) G2) as [R2 M2]. rewrite R1, R2. split; [reflexivity|exact M2].
    + rewrite R1. split; [reflexivity|intros s' H; discriminate H].
Qed.
End Bounds.

(* the capstone with the bound invariant in place of every vm_in_scope condition *)
Theorem source_pipeline_correct_bounded :
  forall B fe cfg env c e dc before,
    fn_no_machine fe -> compilable e = true -> esize e <= dc -> cfg_int cfg = true -> slack B cfg = true ->
    exists P, gen_compile_program schemes dc (c_mapenv cfg) c e = Some P /\
    exists d0, forall d, d0 <= d ->
      run_num_ok B fe cfg env P d init_state = true ->
      option_map erase_stop_mem (interp_run fe cfg env P vm_src d before)
      = Some (erase_stop_mem (run_ref fe cfg env c e)).
Proof.
  intros B fe cfg env c e dc before Hf Hc Hsz Hcfg Hs.
  destruct (source_pipeline_correct_num fe cfg env c e dc before Hf Hc Hsz Hcfg) as [P [HP [d0 H]]].
  exists P. split; [exact HP|]. exists d0. intros d Hd G. apply (H d Hd).
  apply (run_guard_num_of_num_ok B fe cfg env P Hs d init_state (mem_inv_init cfg) G).
Qed.

(* THE REMAINING GAP, not claimed (conjectured): under a length bound B0 on the universe the states a compiled program visits are
   num_ok for B = B0 * size of e (sizes: len of a collection of the universe, of an array / map literal, of a range
   within the budget, of a string built by at most esize e concatenations) *)
Definition compiled_states_bounded_statement : Prop :=
  forall B0 fe cfg env c e d,
    fn_no_machine fe -> fe_len_bounded B0 fe -> len_bounded B0 env = true -> compilable e = true ->
    code_len_bounded B0 (compile_program (c_mapenv cfg) c e) = true ->
    run_num_ok (Z.of_nat (S B0) * Z.of_nat (S (esize e)) + Z.max 0 (c_limit cfg)) fe cfg env
               (compile_program (c_mapenv cfg) c e) d init_state = true.

(* non-vacuity: the nested example visits only states within B = 3; the universe of the example is bounded *)
Example source_pipeline_bounded_nonvacuous :
  slack 3 w_cfg = true /\ len_bounded 3 (VArr TIface [VStr "abc"; VMap TString TIface [(VStr "k", vint 1)]]) = true /\
  len_bounded 2 (VArr TIface [VStr "abc"]) = false /\
  match cap_code with Some P => code_len_bounded 0 P = true | None => False end /\
  match cap_code with
  | Some P => run_num_ok 3 w_fe w_cfg VNil P 9 init_state = true /\ run_num_ok 2 w_fe w_cfg VNil P 9 init_state = false
  | None => False
  end.
Proof. vm_compute. repeat split; reflexivity. Qed.

(* BC/AssembleProofs.v — proofs about the byte-level assembler BC/Assemble.v:
   Part 1  opcodes, operands, the constant pool (makeConstant)
   Part 2  decoding one assembled instruction
   Part 3  decode inverts asm (all item lists, no size bound)
   Part 4  similar code passes the same jump check; well-formedness of assembled compiled programs
   Part 5  assembling fails only for the three Go panics
   Part 6  compile_items erases to compile
   Part 7  exactness (decode gives back the very code) and its refutation for a negative zero FIELD of a
           by-value struct constant; 0.0 and -0.0 as constants of their own are kept apart (repaired defect) *)
From Coq Require Import ZArith Bool List String Arith Floats Lia.
Require Import X.Base.Num X.Base.NumProofs X.Base.Value X.Syn.Ast X.Sem.Prim X.Sem.Sem X.BC.Instr X.BC.Compiler X.BC.Decode
               X.BC.CompileProofs X.BC.Verify X.gen.GenOpcodes X.BC.Assemble.
Import ListNotations.
Local Open Scope string_scope.
Local Open Scope list_scope.
Local Open Scope Z_scope.

(* ================================================================== Part 1 *)
Lemma index_of_spec n : forall l k j, index_of n l k = Some j ->
  k <= j /\ nth_error l (Z.to_nat (j - k)) = Some n.
Proof.
  induction l as [|x r IH]; intros k j H; cbn [index_of] in H; [discriminate|].
  destruct (String.eqb x n) eqn:E.
  - injection H as <-. apply String.eqb_eq in E. subst x. split; [lia|]. rewrite Z.sub_diag. reflexivity.
  - apply IH in H. destruct H as [Hk Hn]. split; [lia|].
    replace (Z.to_nat (j - k)) with (S (Z.to_nat (j - (k + 1)))) by lia. exact Hn.
Qed.

Lemma opname_of n b : opcode_of n = Some b -> opname b = Some n.
Proof.
  unfold opcode_of, opname. intros H. apply index_of_spec in H. destruct H as [Hk Hn].
  rewrite Z.sub_0_r in Hn. destruct (b <? 0) eqn:E; [apply Z.ltb_lt in E; lia|exact Hn].
Qed.

(* every instruction has an opcode in the regenerated table *)
Lemma opcode_total i : exists b, opcode_of (iname i) = Some b.
Proof. destruct i; cbn [iname]; eexists; vm_compute; reflexivity. Qed.

Lemma encode16_value k : k mod 256 + 256 * (k / 256) = k.
Proof. pose proof (Z.div_mod k 256). lia. Qed.

Lemma pool_find_spec c : forall pool k0 k, pool_find c pool k0 = Some k ->
  k0 <= k /\ exists d, nth_error pool (Z.to_nat (k - k0)) = Some d /\ const_go_eq d c = true /\ const_class d = HKey.
Proof.
  induction pool as [|d r IH]; intros k0 k H; cbn [pool_find] in H; [discriminate|].
  destruct (is_key d && const_go_eq d c) eqn:E.
  - injection H as <-. apply andb_prop in E. destruct E as [Ek E]. split; [lia|]. exists d. rewrite Z.sub_diag.
    split; [reflexivity|]. split; [exact E|]. unfold is_key in Ek. destruct (const_class d); try discriminate; reflexivity.
  - apply IH in H. destruct H as [Hk [d' [Hn He]]]. split; [lia|]. exists d'. split; [|exact He].
    replace (Z.to_nat (k - k0)) with (S (Z.to_nat (k - (k0 + 1)))) by lia. exact Hn.
Qed.

Lemma pool_append_spec pool c pool' k : pool_append pool c = Some (pool', k) ->
  pool' = pool ++ [c] /\ k = Z.of_nat (List.length pool) /\ Z.of_nat (List.length pool') <= max_uint16.
Proof.
  unfold pool_append. destruct (max_uint16 <? Z.of_nat (List.length pool) + 1) eqn:E; [discriminate|].
  intros H. injection H as <- <-. apply Z.ltb_ge in E. rewrite app_length. cbn [List.length]. repeat split. lia.
Qed.

(* what makeConstant returns: the pool grows at its end only, the index is in range and holds
   the constant itself or an earlier one that the index map considers equal *)
Definition found (d c : const) : Prop :=
  const_go_eq d c = true /\ const_class c = HKey /\ const_class d = HKey.

Lemma intern_spec pool c pool' k : intern pool c = Some (pool', k) ->
  (pool' = pool \/ pool' = pool ++ [c]) /\ 0 <= k /\
  exists d, nth_error pool' (Z.to_nat k) = Some d /\ (d = c \/ found d c).
Proof.
  unfold intern. intros H.
  assert (A : forall pool' k, pool_append pool c = Some (pool', k) ->
     (pool' = pool \/ pool' = pool ++ [c]) /\ 0 <= k /\
     exists d, nth_error pool' (Z.to_nat k) = Some d /\ (d = c \/ found d c)).
  { intros p' k' Ha. apply pool_append_spec in Ha. destruct Ha as [-> [-> _]]. split; [right; reflexivity|]. split; [lia|].
    exists c. split; [|left; reflexivity]. rewrite Nat2Z.id, nth_error_app2 by lia. rewrite Nat.sub_diag. reflexivity. }
  destruct (const_class c) eqn:Hc; [|apply A; exact H|discriminate].
  destruct (pool_find c pool 0) as [j|] eqn:F; [|apply A; exact H].
  injection H as <- <-. apply pool_find_spec in F. destruct F as [Hj [d [Hn [He Hd]]]]. rewrite Z.sub_0_r in Hn.
  split; [left; reflexivity|]. split; [lia|]. exists d. split; [exact Hn|right; repeat split; assumption].
Qed.

Lemma intern_grows pool c pool' k : intern pool c = Some (pool', k) -> exists ext, pool' = pool ++ ext.
Proof.
  intros H. apply intern_spec in H. destruct H as [[->| ->] _]; [exists []; rewrite app_nil_r; reflexivity|eexists; reflexivity].
Qed.

Lemma nth_const_app pool more k d : 0 <= k -> nth_error pool (Z.to_nat k) = Some d -> nth_const (pool ++ more) k = Some d.
Proof.
  intros Hk Hn. unfold nth_const. destruct (k <? 0) eqn:E; [apply Z.ltb_lt in E; lia|].
  rewrite nth_error_app1; [exact Hn|]. apply nth_error_Some. rewrite Hn. discriminate.
Qed.

(* ================================================================== Part 2 *)
(* what decode may change: a pushed constant can come back as the earlier pool entry that Go's
   index map found equal to it: both are hashable keys (in particular no float zero of their own)
   and vgo_eq; only by-value structs that differ in the sign of a zero field are then not identical *)
Definition instr_simP (P : value -> Prop) (i i' : instr) : Prop :=
  i' = i \/ exists v w, i = IPush v /\ i' = IPush w /\ vgo_eq w v = true /\
                       const_class (CVal v) = HKey /\ const_class (CVal w) = HKey /\ P w.
Definition linstr_simP (P : value -> Prop) (a b : linstr) : Prop := instr_simP P (fst a) (fst b) /\ snd a = snd b.
Definition code_simP (P : value -> Prop) (C C' : code) : Prop := Forall2 (linstr_simP P) C C'.

Definition instr_sim : instr -> instr -> Prop := instr_simP (fun _ => True).
Definition linstr_sim : linstr -> linstr -> Prop := linstr_simP (fun _ => True).
Definition code_sim : code -> code -> Prop := code_simP (fun _ => True).

Lemma instr_simP_mono (P Q : value -> Prop) i i' : (forall w, P w -> Q w) -> instr_simP P i i' -> instr_simP Q i i'.
Proof. intros HPQ [->|[v [w [-> [-> [He [Hv [Hw Hp]]]]]]]]; [left; reflexivity|right; exists v, w; auto 7]. Qed.

Lemma code_simP_mono (P Q : value -> Prop) C C' : (forall w, P w -> Q w) -> code_simP P C C' -> code_simP Q C C'.
Proof.
  intros HPQ. induction 1 as [|a b R R' [Hi Hl] _ IH]; constructor; [|exact IH].
  split; [eapply instr_simP_mono; [exact HPQ|exact Hi]|exact Hl].
Qed.

Lemma simple_of_noarg i : ioperand i = NoArg -> simple_instr (iname i) = Some i.
Proof. destruct i; cbn [ioperand]; intros H; try discriminate; try reflexivity. destruct ((t =? 0) || (t =? 1)); discriminate. Qed.

Lemma simple_of_arg i : ioperand i <> NoArg -> simple_instr (iname i) = None.
Proof. destruct i; cbn [ioperand]; intros H; try congruence; reflexivity. Qed.

Lemma isize_noarg i : ioperand i = NoArg -> isize i = 1%nat.
Proof. destruct i; cbn [ioperand]; intros H; try discriminate; try reflexivity. destruct ((t =? 0) || (t =? 1)); discriminate. Qed.

Lemma isize_arg i : ioperand i <> NoArg -> isize i = 3%nat.
Proof. destruct i; cbn [ioperand]; intros H; try congruence; reflexivity. Qed.

Lemma enc_instr_length pool i bs pool' : enc_instr pool i = Some (bs, pool') -> List.length bs = isize i.
Proof.
  unfold enc_instr. destruct (opcode_of (iname i)) as [b|]; [|discriminate].
  destruct (ioperand i) as [|c|off|k|] eqn:E; intros H.
  - injection H as <- <-. rewrite isize_noarg by exact E. reflexivity.
  - destruct (intern pool c) as [[p' k]|]; [|discriminate]. injection H as <- <-. rewrite isize_arg by congruence. reflexivity.
  - destruct (max_uint16 <? off); [discriminate|]. injection H as <- <-. rewrite isize_arg by congruence. reflexivity.
  - injection H as <- <-. rewrite isize_arg by congruence. reflexivity.
  - discriminate.
Qed.

Lemma enc_instr_grows pool i bs pool' : enc_instr pool i = Some (bs, pool') -> exists ext, pool' = pool ++ ext.
Proof.
  unfold enc_instr. destruct (opcode_of (iname i)) as [b|]; [|discriminate].
  assert (R : exists ext, pool = pool ++ ext) by (exists []; rewrite app_nil_r; reflexivity).
  destruct (ioperand i) as [|c|off|k|]; intros H; try discriminate.
  - injection H as <- <-. exact R.
  - destruct (intern pool c) as [[p' k]|] eqn:I; [|discriminate]. injection H as <- <-. eapply intern_grows; exact I.
  - destruct (max_uint16 <? off); [discriminate|]. injection H as <- <-. exact R.
  - injection H as <- <-. exact R.
Qed.

(* a constant that the index map finds equal to a string / Call constant is that constant *)
Lemma go_eq_str d s : const_go_eq d (str_const s) = true -> d = str_const s.
Proof.
  destruct d as [v|n z|p]; cbn [const_go_eq str_const]; try discriminate.
  destruct v as [|vb|vn|vs|ve vl|ve|vk vt vm|vname vptr vfields|vt|vk vt|vname vt|vname vx|vd]; cbn [vgo_eq]; try discriminate.
  - intros H. apply String.eqb_eq in H. subst. reflexivity.
  - destruct vptr; discriminate.
Qed.

Lemma go_eq_call d name n : const_go_eq d (call_const name n) = true -> d = call_const name n.
Proof.
  destruct d as [v|m z|p]; cbn [const_go_eq call_const]; try discriminate.
  intros H. apply andb_prop in H. destruct H as [H1 H2]. apply String.eqb_eq in H1. apply Z.eqb_eq in H2. subst. reflexivity.
Qed.

Lemma go_eq_regex d p : const_go_eq d (CRegex p) = true -> False.
Proof. destruct d; cbn [const_go_eq]; discriminate. Qed.

Lemma go_eq_val d v : const_go_eq d (CVal v) = true -> exists w, d = CVal w /\ vgo_eq w v = true.
Proof. destruct d as [w|m z|p]; cbn [const_go_eq]; try discriminate. intros H. exists w. split; [reflexivity|exact H]. Qed.

(* the operand decoder on the constant an instruction was assembled with *)
Lemma operand_of_const i c k d :
  ioperand i = ConstArg c -> (d = c \/ found d c) ->
  exists i', instr_simP (fun w => d = CVal w) i i' /\
             forall cs, nth_const cs k = Some d -> operand_instr cs (iname i) k = OpI i'.
Proof.
  intros Hop Hd.
  destruct i; cbn [ioperand] in Hop; try discriminate; try (destruct ((t =? 0) || (t =? 1)); discriminate);
    injection Hop as <-; cbn [iname].
  (* IPush *)
  1: { destruct Hd as [->|He].
       - exists (IPush v). split; [left; reflexivity|]. intros cs Hn. unfold operand_instr. cbn [String.eqb Ascii.eqb Bool.eqb andb]. rewrite Hn. reflexivity.
       - destruct He as [He [Hcv Hcd]]. apply go_eq_val in He. destruct He as [w [-> He]]. exists (IPush w).
         split; [right; exists v, w; auto 7|].
         intros cs Hn. unfold operand_instr. cbn [String.eqb Ascii.eqb Bool.eqb andb]. rewrite Hn. reflexivity. }
  (* string constants *)
  all: try (assert (E : d = str_const name) by (destruct Hd as [->|He]; [reflexivity|apply go_eq_str; exact (proj1 He)]);
            subst d; eexists; split; [left; reflexivity|]; intros cs Hn;
            unfold operand_instr; cbn [String.eqb Ascii.eqb Bool.eqb andb]; rewrite Hn; reflexivity).
  all: try (assert (E : d = str_const k0) by (destruct Hd as [->|He]; [reflexivity|apply go_eq_str; exact (proj1 He)]);
            subst d; eexists; split; [left; reflexivity|]; intros cs Hn;
            unfold operand_instr; cbn [String.eqb Ascii.eqb Bool.eqb andb]; rewrite Hn; reflexivity).
  (* regexp *)
  1: { destruct Hd as [->|He]; [|exfalso; eapply go_eq_regex; exact (proj1 He)].
       eexists; split; [left; reflexivity|]. intros cs Hn. unfold operand_instr; cbn [String.eqb Ascii.eqb Bool.eqb andb]. rewrite Hn. reflexivity. }
  (* calls *)
  all: assert (E : d = call_const name n) by (destruct Hd as [->|He]; [reflexivity|apply go_eq_call; exact (proj1 He)]);
       subst d; eexists; split; [left; reflexivity|]; intros cs Hn;
       unfold operand_instr; cbn [String.eqb Ascii.eqb Bool.eqb andb]; rewrite Hn; unfold call_const;
       replace (Z.of_nat n <? 0) with false by (symmetry; apply Z.ltb_ge; lia); rewrite Nat2Z.id; reflexivity.
Qed.

Lemma operand_of_jump cs i off :
  ioperand i = JumpArg off -> 0 <= off -> operand_instr cs (iname i) off = OpI i.
Proof.
  intros Hop Hk.
  destruct i; cbn [ioperand] in Hop; try discriminate; try (destruct ((t =? 0) || (t =? 1)); discriminate);
    injection Hop as <-; cbn [iname]; unfold operand_instr; cbn [String.eqb Ascii.eqb Bool.eqb andb];
    rewrite Nat2Z.id; reflexivity.
Qed.

Lemma operand_of_raw cs i k : ioperand i = RawArg k -> operand_instr cs (iname i) k = OpI i.
Proof.
  intros Hop.
  destruct i; cbn [ioperand] in Hop; try discriminate.
  destruct ((t =? 0) || (t =? 1)) eqn:E; [|discriminate]. injection Hop as <-.
  cbn [iname]. unfold operand_instr. cbn [String.eqb Ascii.eqb Bool.eqb andb]. rewrite E. reflexivity.
Qed.

(* decoding the bytes of one assembled instruction, against any pool that extends the pool of
   the moment of its emission *)
Lemma decode_step pool i bs pool' : enc_instr pool i = Some (bs, pool') ->
  exists i', instr_simP (fun w => In (CVal w) pool') i i' /\
  forall fuel more locs pos rest,
    decode_from (S fuel) (pool' ++ more) locs pos (bs ++ rest) =
    match decode_from fuel (pool' ++ more) locs (pos + Z.of_nat (List.length bs)) rest with
    | DOk c => DOk ((i', loc_at locs pos) :: c)
    | bad => bad
    end.
Proof.
  unfold enc_instr. destruct (opcode_of (iname i)) as [b|] eqn:Hb; [|discriminate].
  apply opname_of in Hb.
  destruct (ioperand i) as [|c|off|k|] eqn:E; intros H.
  - injection H as <- <-. exists i. split; [left; reflexivity|]. intros fuel more locs pos rest.
    cbn [decode_from app List.length]. rewrite Hb, (simple_of_noarg i E). reflexivity.
  - destruct (intern pool c) as [[p' k]|] eqn:I; [|discriminate]. injection H as <- <-.
    apply intern_spec in I. destruct I as [_ [Hk [d [Hn Hd]]]].
    assert (Hs : simple_instr (iname i) = None) by (apply simple_of_arg; congruence).
    destruct (operand_of_const i c k d E Hd) as [i' [Hsim Hop]].
    exists i'. split; [eapply instr_simP_mono; [|exact Hsim]; intros w ->; eapply nth_error_In; exact Hn|].
    intros fuel more locs pos rest.
    cbn [decode_from app List.length encode16].
    rewrite Hb, Hs, encode16_value, (Hop _ (nth_const_app _ more _ _ Hk Hn)).
    replace (pos + Z.of_nat 3) with (pos + 3) by lia.
    reflexivity.
  - destruct (max_uint16 <? off) eqn:Hm; [discriminate|]. injection H as <- <-.
    exists i. split; [left; reflexivity|]. intros fuel more locs pos rest.
    assert (Hs : simple_instr (iname i) = None) by (apply simple_of_arg; congruence).
    assert (H0 : 0 <= off).
    { destruct i; cbn [ioperand] in E; try discriminate; try (destruct ((t =? 0) || (t =? 1)); discriminate); injection E as <-; lia. }
    cbn [decode_from app List.length encode16]. rewrite Hb, Hs, encode16_value, (operand_of_jump _ i off E H0).
    replace (pos + Z.of_nat 3) with (pos + 3) by lia. reflexivity.
  - injection H as <- <-. exists i. split; [left; reflexivity|]. intros fuel more locs pos rest.
    assert (Hs : simple_instr (iname i) = None) by (apply simple_of_arg; congruence).
    cbn [decode_from app List.length encode16]. rewrite Hb, Hs, encode16_value, (operand_of_raw _ i k E).
    replace (pos + Z.of_nat 3) with (pos + 3) by lia. reflexivity.
  - discriminate.
Qed.

(* ================================================================== Part 3 *)
Lemma loc_at_skip pre : forall pos l locs, (forall q m, In (q, m) pre -> q < pos) ->
  loc_at (pre ++ (pos, l) :: locs) pos = l.
Proof.
  induction pre as [|[q m] pre IH]; intros pos l locs Hpre; cbn [app loc_at].
  - rewrite Z.eqb_refl. reflexivity.
  - pose proof (Hpre q m (or_introl eq_refl)) as Hq.
    replace (q =? pos) with false by (symmetry; apply Z.eqb_neq; lia).
    apply IH. intros q' m' Hin. apply (Hpre q' m'). right. exact Hin.
Qed.

Lemma asm_decode : forall its pool pos bs poolF locs,
  asm its pool pos = Some (bs, poolF, locs) ->
  (exists ext, poolF = pool ++ ext) /\
  exists C', code_simP (fun w => In (CVal w) poolF) (items_code its) C' /\
    forall more pre fuel, (forall q m, In (q, m) pre -> q < pos) -> (List.length bs <= fuel)%nat ->
      decode_from fuel (poolF ++ more) (pre ++ locs) pos bs = DOk C'.
Proof.
  induction its as [|it its IH]; intros pool pos bs poolF locs H; cbn [asm] in H.
  - injection H as <- <- <-. split; [exists []; rewrite app_nil_r; reflexivity|].
    exists []. split; [constructor|]. intros more pre fuel _ _. destruct fuel; reflexivity.
  - destruct it as [i l|c].
    + destruct (enc_instr pool i) as [[b1 pool1]|] eqn:En; [|discriminate].
      destruct (asm its pool1 (pos + Z.of_nat (List.length b1))) as [[[bs' poolF'] locs']|] eqn:Ar; [|discriminate].
      injection H as <- <- <-.
      destruct (IH _ _ _ _ _ Ar) as [[ext Hext] [C' [Hsim Hdec]]].
      destruct (enc_instr_grows _ _ _ _ En) as [ext1 Hext1].
      pose proof (enc_instr_length _ _ _ _ En) as Hlen.
      destruct (decode_step _ _ _ _ En) as [i' [Hi' Hstep]].
      split; [exists (ext1 ++ ext); rewrite Hext, Hext1, app_assoc; reflexivity|].
      exists ((i', l) :: C'). split.
      { cbn [items_code]. constructor; [split; [|reflexivity]|exact Hsim].
        cbn [fst]. eapply instr_simP_mono; [|exact Hi']. intros w Hw. rewrite Hext. apply in_or_app. left. exact Hw. }
      intros more pre fuel Hpre Hfuel.
      assert (Hpos : (0 < List.length b1)%nat) by (rewrite Hlen; apply isize_pos).
      destruct fuel as [|fuel]; [rewrite app_length in Hfuel; lia|].
      rewrite Hext, <- app_assoc, Hstep, app_assoc, <- Hext.
      rewrite loc_at_skip by exact Hpre.
      replace (pre ++ (pos, l) :: locs') with ((pre ++ [(pos, l)]) ++ locs') by (rewrite <- app_assoc; reflexivity).
      rewrite Hdec; [reflexivity| |rewrite app_length in Hfuel; lia].
      intros q m Hin. apply in_app_or in Hin. destruct Hin as [Hin|[Hin|[]]].
      * apply Hpre in Hin. lia.
      * injection Hin as <- <-. lia.
    + destruct (intern pool c) as [[pool1 k]|] eqn:I; [|discriminate].
      destruct (IH _ _ _ _ _ H) as [[ext Hext] [C' [Hsim Hdec]]].
      destruct (intern_grows _ _ _ _ I) as [ext1 Hext1].
      split; [exists (ext1 ++ ext); rewrite Hext, Hext1, app_assoc; reflexivity|].
      exists C'. split; [exact Hsim|exact Hdec].
Qed.

Lemma items_code_of_code C : items_code (items_of_code C) = C.
Proof. unfold items_of_code. induction C as [|[i l] C IH]; cbn [map items_code fst snd]; [reflexivity|rewrite IH; reflexivity]. Qed.

(* decode inverts the assembler, for every list of items *)
Lemma decode_assemble_itemsP its p :
  assemble_items its = Some p ->
  exists C', decode p = DOk C' /\ code_simP (fun w => In (CVal w) (p_consts p)) (items_code its) C'.
Proof.
  unfold assemble_items. destruct (asm its [] 0) as [[[bs pool] locs]|] eqn:A; [|discriminate].
  intros H. injection H as <-. destruct (asm_decode _ _ _ _ _ _ A) as [_ [C' [Hsim Hdec]]].
  exists C'. split; [|exact Hsim]. unfold decode. cbn [p_bytes p_consts p_locs].
  specialize (Hdec [] [] (S (List.length bs))). rewrite app_nil_r in Hdec. apply Hdec; [intros q m []|lia].
Qed.

Theorem decode_assemble_items its p :
  assemble_items its = Some p -> exists C', decode p = DOk C' /\ code_sim (items_code its) C'.
Proof.
  intros H. destruct (decode_assemble_itemsP _ _ H) as [C' [Hd Hs]]. exists C'. split; [exact Hd|].
  eapply code_simP_mono; [|exact Hs]. auto.
Qed.

Theorem decode_assemble C p :
  assemble C = Some p -> exists C', decode p = DOk C' /\ code_sim C C'.
Proof.
  unfold assemble. intros H. apply decode_assemble_items in H. rewrite items_code_of_code in H. exact H.
Qed.

(* ================================================================== Part 4 *)
Lemma instr_sim_isize i i' : instr_sim i i' -> isize i' = isize i.
Proof. intros [->|[v [w [-> [-> _]]]]]; reflexivity. Qed.

Lemma code_sim_boundary C C' : code_sim C C' -> forall p, boundary C' p = boundary C p.
Proof.
  induction 1 as [|[i l] [i' l'] R R' [Hi _] _ IH]; intros p; cbn [boundary]; [reflexivity|].
  cbn [fst] in Hi. rewrite (instr_sim_isize _ _ Hi), IH. reflexivity.
Qed.

Lemma code_sim_jumps_from C C' : (forall p, boundary C' p = boundary C p) ->
  forall R R', code_sim R R' -> forall pos, jumps_ok_from C' pos R' = jumps_ok_from C pos R.
Proof.
  intros HB. induction 1 as [|[i l] [i' l'] R R' [Hi _] _ IH]; intros pos; cbn [jumps_ok_from]; [reflexivity|].
  cbn [fst] in Hi. rewrite (instr_sim_isize _ _ Hi), IH.
  destruct Hi as [->|[v [w [-> [-> _]]]]]; [|reflexivity].
  destruct i; rewrite ?HB; reflexivity.
Qed.

Lemma code_sim_jumps_ok C C' : code_sim C C' -> jumps_ok C' = jumps_ok C.
Proof. intros H. unfold jumps_ok. apply code_sim_jumps_from; [apply code_sim_boundary; exact H|exact H]. Qed.

(* an assembled program passes the whole structural verifier as soon as its IR passes the jump check *)
Theorem assemble_items_wf its p :
  assemble_items its = Some p -> jumps_ok (items_code its) = true -> wf_progb p = true.
Proof.
  intros Ha Hj. destruct (decode_assemble_items _ _ Ha) as [C' [Hd Hs]].
  unfold wf_progb. rewrite Hd, (code_sim_jumps_ok _ _ Hs). exact Hj.
Qed.

Theorem assemble_wf C p : assemble C = Some p -> jumps_ok C = true -> wf_progb p = true.
Proof. unfold assemble. intros Ha Hj. eapply assemble_items_wf; [exact Ha|rewrite items_code_of_code; exact Hj]. Qed.

(* deliverable 2, corollary: the bytes assembled from a compiled expression are well-formed *)
Theorem assemble_compiled_wf mapenv c e p :
  compilable e = true -> assemble (compile_program mapenv c e) = Some p -> wf_progb p = true.
Proof. intros Hc Ha. eapply assemble_wf; [exact Ha|apply compile_program_wf; exact Hc]. Qed.

(* ================================================================== Part 5 *)
Lemma intern_unbounded_grows pool c : (List.length pool <= List.length (intern_unbounded pool c))%nat.
Proof.
  unfold intern_unbounded. destruct (const_class c); try destruct (pool_find c pool 0); rewrite ?app_length; cbn [List.length]; lia.
Qed.

Lemma pool_of_grows its : forall pool, (List.length pool <= List.length (pool_of its pool))%nat.
Proof.
  induction its as [|[i l|c] its IH]; intros pool; cbn [pool_of]; [lia| |].
  - destruct (ioperand i); try apply IH. eapply Nat.le_trans; [apply intern_unbounded_grows|apply IH].
  - eapply Nat.le_trans; [apply intern_unbounded_grows|apply IH].
Qed.

Lemma pool_append_some pool c pool' k : pool_append pool c = Some (pool', k) -> pool' = pool ++ [c].
Proof. intros H. apply pool_append_spec in H. tauto. Qed.

Lemma pool_append_none pool c : pool_append pool c = None -> max_uint16 < Z.of_nat (List.length (pool ++ [c])).
Proof.
  unfold pool_append. destruct (max_uint16 <? Z.of_nat (List.length pool) + 1) eqn:E; [|discriminate].
  intros _. apply Z.ltb_lt in E. rewrite app_length. cbn [List.length]. lia.
Qed.

Lemma intern_some_unbounded pool c pool' k : intern pool c = Some (pool', k) ->
  pool' = intern_unbounded pool c /\ const_ok c = true /\
  (Z.of_nat (List.length pool) <= max_uint16 -> Z.of_nat (List.length pool') <= max_uint16).
Proof.
  unfold intern, intern_unbounded, const_ok. destruct (const_class c); [|intros H|discriminate].
  - destruct (pool_find c pool 0) as [j|]; intros H.
    + injection H as <- <-. auto.
    + pose proof (pool_append_spec _ _ _ _ H) as [-> [_ Hl]]. auto.
  - pose proof (pool_append_spec _ _ _ _ H) as [-> [_ Hl]]. auto.
Qed.

Lemma intern_none pool c : intern pool c = None ->
  const_ok c = false \/ max_uint16 < Z.of_nat (List.length (intern_unbounded pool c)).
Proof.
  unfold intern, intern_unbounded, const_ok. destruct (const_class c); [|intros H|left; reflexivity].
  - destruct (pool_find c pool 0) as [j|]; intros H; [discriminate|]. right. apply pool_append_none; exact H.
  - right. apply pool_append_none; exact H.
Qed.

(* the three reasons for which the Go compiler panics at byte level *)
Definition asm_fail_reason (its : list aitem) (pool : list const) : Prop :=
  (exists it, In it its /\ item_ok it = false) \/
  (exists it, In it its /\ jump_too_far it = true) \/
  max_uint16 < Z.of_nat (List.length (pool_of its pool)).

Lemma reason_cons it its pool pool1 :
  pool_of (it :: its) pool = pool_of its pool1 -> asm_fail_reason its pool1 -> asm_fail_reason (it :: its) pool.
Proof.
  intros Hp [[x [Hin Hx]]|[[x [Hin Hx]]|Hl]].
  - left. exists x. split; [right; exact Hin|exact Hx].
  - right; left. exists x. split; [right; exact Hin|exact Hx].
  - right; right. rewrite Hp. exact Hl.
Qed.

Lemma asm_none : forall its pool pos, asm its pool pos = None -> asm_fail_reason its pool.
Proof.
  induction its as [|it its IH]; intros pool pos H; cbn [asm] in H; [discriminate|].
  destruct it as [i l|c].
  - destruct (enc_instr pool i) as [[b1 pool1]|] eqn:En.
    + destruct (asm its pool1 (pos + Z.of_nat (List.length b1))) as [[[bs' poolF'] locs']|] eqn:Ar; [discriminate|].
      apply IH in Ar. eapply reason_cons; [|exact Ar].
      cbn [pool_of]. unfold enc_instr in En. destruct (opcode_of (iname i)); [|discriminate].
      destruct (ioperand i) as [|c|off|k|]; try (injection En as _ <-; reflexivity); try discriminate.
      * destruct (intern pool c) as [[p' k]|] eqn:I; [|discriminate]. injection En as _ <-.
        apply intern_some_unbounded in I. destruct I as [-> _]. reflexivity.
      * destruct (max_uint16 <? off); [discriminate|]. injection En as _ <-. reflexivity.
    + unfold enc_instr in En. destruct (opcode_total i) as [b Hb]. rewrite Hb in En.
      destruct (ioperand i) as [|c|off|k|] eqn:E; try discriminate.
      * destruct (intern pool c) as [[p' k]|] eqn:I; [discriminate|]. apply intern_none in I. destruct I as [I|I].
        -- left. exists (AIns i l). split; [left; reflexivity|]. cbn [item_ok]. rewrite E. exact I.
        -- right; right. cbn [pool_of]. rewrite E. eapply Z.lt_le_trans; [exact I|].
           apply inj_le. apply pool_of_grows.
      * destruct (max_uint16 <? off) eqn:Hm; [|discriminate]. right; left. exists (AIns i l).
        split; [left; reflexivity|]. cbn [jump_too_far]. rewrite E. exact Hm.
      * left. exists (AIns i l). split; [left; reflexivity|]. cbn [item_ok]. rewrite E. reflexivity.
  - destruct (intern pool c) as [[pool1 k]|] eqn:I.
    + apply IH in H. eapply reason_cons; [|exact H]. cbn [pool_of].
      apply intern_some_unbounded in I. destruct I as [-> _]. reflexivity.
    + apply intern_none in I. destruct I as [I|I].
      * left. exists (AConst c). split; [left; reflexivity|exact I].
      * right; right. cbn [pool_of]. eapply Z.lt_le_trans; [exact I|]. apply inj_le. apply pool_of_grows.
Qed.

(* and conversely: when assembling succeeds none of the three reasons holds *)
Lemma asm_some : forall its pool pos bs poolF locs, asm its pool pos = Some (bs, poolF, locs) ->
  poolF = pool_of its pool /\
  (forall it, In it its -> item_ok it = true /\ jump_too_far it = false) /\
  (Z.of_nat (List.length pool) <= max_uint16 -> Z.of_nat (List.length poolF) <= max_uint16).
Proof.
  induction its as [|it its IH]; intros pool pos bs poolF locs H; cbn [asm] in H.
  - injection H as <- <- <-. cbn [pool_of]. split; [reflexivity|]. split; [intros it []|auto].
  - destruct it as [i l|c].
    + destruct (enc_instr pool i) as [[b1 pool1]|] eqn:En; [|discriminate].
      destruct (asm its pool1 (pos + Z.of_nat (List.length b1))) as [[[bs' poolF'] locs']|] eqn:Ar; [|discriminate].
      injection H as <- <- <-. apply IH in Ar. destruct Ar as [Hp [Hall Hlen]].
      unfold enc_instr in En. destruct (opcode_of (iname i)); [|discriminate].
      cbn [pool_of].
      assert (G : forall p1, pool1 = p1 -> poolF' = pool_of its p1 ->
                  item_ok (AIns i l) = true -> jump_too_far (AIns i l) = false ->
                  (Z.of_nat (List.length pool) <= max_uint16 -> Z.of_nat (List.length pool1) <= max_uint16) ->
                  poolF' = pool_of its p1 /\
                  (forall it, In it (AIns i l :: its) -> item_ok it = true /\ jump_too_far it = false) /\
                  (Z.of_nat (List.length pool) <= max_uint16 -> Z.of_nat (List.length poolF') <= max_uint16)).
      { intros p1 E1 E2 Hok Hj Hl. split; [exact E2|]. split; [|auto].
        intros it [<-|Hin]; [split; assumption|apply Hall; exact Hin]. }
      cbn [item_ok jump_too_far].
      destruct (ioperand i) as [|c|off|k|] eqn:E; try discriminate.
      * injection En as _ <-. apply G; auto; cbn [item_ok jump_too_far]; rewrite E; auto.
      * destruct (intern pool c) as [[p' k]|] eqn:I; [|discriminate]. injection En as _ <-.
        apply intern_some_unbounded in I. destruct I as [E1 [Hok Hl]].
        apply G; auto; try (cbn [item_ok jump_too_far]; rewrite E; auto). rewrite <- E1. exact Hp.
      * destruct (max_uint16 <? off) eqn:Hm; [discriminate|]. injection En as _ <-.
        apply G; auto; cbn [item_ok jump_too_far]; rewrite E; auto.
      * injection En as _ <-. apply G; auto; cbn [item_ok jump_too_far]; rewrite E; auto.
    + destruct (intern pool c) as [[pool1 k]|] eqn:I; [|discriminate].
      apply IH in H. destruct H as [Hp [Hall Hlen]]. apply intern_some_unbounded in I. destruct I as [E1 [Hok Hl]].
      cbn [pool_of]. rewrite <- E1. split; [exact Hp|]. split; [|auto].
      intros it [<-|Hin]; [split; [exact Hok|reflexivity]|apply Hall; exact Hin].
Qed.

(* deliverable 3: the assembler fails exactly for the panics of the Go compiler *)
Theorem assemble_items_fails_iff its :
  assemble_items its = None <-> asm_fail_reason its [].
Proof.
  unfold assemble_items. split.
  - destruct (asm its [] 0) as [[[bs pool] locs]|] eqn:A; [discriminate|]. intros _. eapply asm_none; exact A.
  - intros R. destruct (asm its [] 0) as [[[bs pool] locs]|] eqn:A; [|reflexivity]. exfalso.
    apply asm_some in A. destruct A as [Hp [Hall Hlen]]. cbn [List.length] in Hlen.
    destruct R as [[x [Hin Hx]]|[[x [Hin Hx]]|Hl]].
    + destruct (Hall x Hin) as [H1 _]. congruence.
    + destruct (Hall x Hin) as [_ H2]. congruence.
    + rewrite <- Hp in Hl. unfold max_uint16 in *. lia.
Qed.

(* on plain code: a jump offset above 65535, more than 65535 pool entries, or an instruction that
   no Go compile emits (a cast other than 0 / 1, the push of a nil interface or of an unhashable value) *)
Definition code_fail_reason (C : code) : Prop :=
  (exists i l, In (i, l) C /\ item_ok (AIns i l) = false) \/
  (exists i l off, In (i, l) C /\ ioperand i = JumpArg (Z.of_nat off) /\ 65535 < Z.of_nat off) \/
  65535 < Z.of_nat (List.length (pool_of (items_of_code C) [])).

Lemma in_items_of_code it C : In it (items_of_code C) -> exists i l, it = AIns i l /\ In (i, l) C.
Proof.
  unfold items_of_code. intros H. apply in_map_iff in H. destruct H as [[i l] [<- Hin]]. exists i, l. split; [reflexivity|exact Hin].
Qed.

Theorem assemble_fails_only_when_too_big C : assemble C = None -> code_fail_reason C.
Proof.
  unfold assemble. intros H. apply assemble_items_fails_iff in H. destruct H as [[x [Hin Hx]]|[[x [Hin Hx]]|Hl]].
  - apply in_items_of_code in Hin. destruct Hin as [i [l [-> Hin]]]. left. exists i, l. split; assumption.
  - apply in_items_of_code in Hin. destruct Hin as [i [l [-> Hin]]]. right; left.
    cbn [jump_too_far] in Hx. destruct (ioperand i) as [|c|off|k|] eqn:E; try discriminate.
    assert (exists n, off = Z.of_nat n) as [n ->].
    { destruct i; cbn [ioperand] in E; try discriminate; try (destruct ((t =? 0) || (t =? 1)); discriminate); injection E as <-; eexists; reflexivity. }
    exists i, l, n. split; [exact Hin|]. split; [exact E|]. apply Z.ltb_lt in Hx. exact Hx.
  - right; right. exact Hl.
Qed.

(* ================================================================== Part 6 *)
Lemma items_code_app a b : items_code (a ++ b) = items_code a ++ items_code b.
Proof. induction a as [|[i l|c] a IH]; cbn [app items_code]; [reflexivity|rewrite IH; reflexivity|exact IH]. Qed.

Lemma items_code_ins l is : items_code (ins l is) = at_ l is.
Proof. unfold ins, at_. induction is as [|i is IH]; cbn [map items_code]; [reflexivity|rewrite IH; reflexivity]. Qed.

Lemma items_code_cond l body : items_code (cond_items l body) = cond_code l (items_code body).
Proof. unfold cond_items, cond_code, isz. rewrite !items_code_app, !items_code_ins. reflexivity. Qed.

Lemma items_code_loop l body : items_code (loop_items l body) = loop_code l (items_code body).
Proof.
  unfold loop_items, loop_code, isz. cbn [app items_code]. rewrite !items_code_app, !items_code_ins. reflexivity.
Qed.

Section ItemsCode.
Variable mapenv : bool.
Notation comp := (compile mapenv).
Notation citems := (compile_items mapenv).
Definition Iok (e : expr) : Prop := items_code (citems e) = comp e.

Lemma Iok_list es : (forall x, In x es -> Iok x) -> items_code (items_list mapenv es) = compile_list mapenv es.
Proof.
  induction es as [|x r IH]; intros Hall; cbn [items_list compile_list]; [reflexivity|].
  rewrite items_code_app, (Hall x (or_introl eq_refl)), IH; [reflexivity|]. intros y Hy. apply Hall. right. exact Hy.
Qed.

Lemma Iok_pairs ps : (forall x, In x ps -> match x with EPair _ k v => Iok k /\ Iok v | _ => True end) ->
  items_code (items_pairs mapenv ps) = compile_pairs mapenv ps.
Proof.
  induction ps as [|x r IH]; intros Hall; cbn [items_pairs compile_pairs]; [reflexivity|].
  pose proof (Hall x (or_introl eq_refl)) as Hx.
  assert (Hr : items_code (items_pairs mapenv r) = compile_pairs mapenv r) by (apply IH; intros y Hy; apply Hall; right; exact Hy).
  destruct x; try exact Hr. destruct Hx as [Hk Hv]. rewrite !items_code_app, Hk, Hv, Hr. reflexivity.
Qed.

Lemma imethod_eq a x name args ns :
  citems (EMethod a x name args ns) =
  citems x ++ items_list mapenv args ++
  ins (aloc a) [if ns then IMethodNilSafe name (List.length args) else IMethod name (List.length args)].
Proof. reflexivity. Qed.
Lemma ifunction_eq a name args fast :
  citems (EFunction a name args fast) =
  items_list mapenv args ++ ins (aloc a) [if fast then ICallFast name (List.length args) else ICall name (List.length args)].
Proof. reflexivity. Qed.
Lemma iarray_eq a es :
  citems (EArray a es) = items_list mapenv es ++ ins (aloc a) [IPush (vint (Z.of_nat (List.length es))); IArray].
Proof. reflexivity. Qed.
Lemma imap_eq a pairs :
  citems (EMap a pairs) = items_pairs mapenv pairs ++ ins (aloc a) [IPush (vint (Z.of_nat (List.length pairs))); IMap].
Proof. reflexivity. Qed.

Ltac icode := rewrite ?items_code_app, ?items_code_loop, ?items_code_cond, ?items_code_app, ?items_code_ins.

Lemma Iok_builtin2 a b x c : Iok x -> Iok c -> Iok (EBuiltin a b [x; c]).
Proof.
  unfold Iok. intros Hx Hc.
  destruct b; cbn [compile_items compile]; try reflexivity; cbn [items_code]; icode; rewrite ?Hx, ?Hc; try reflexivity.
Qed.

Theorem items_code_compile_sized : forall n e, (esize e < n)%nat -> Iok e.
Proof.
  induction n as [|n IH]; intros e Hsz; [lia|].
  destruct e; cbn [esize] in Hsz; rewrite ?lsize_eq in Hsz; unfold Iok.
  (* leaves *)
  all: try (cbn [compile_items]; apply items_code_of_code).
  - (* unary *) cbn [compile_items compile]. icode. rewrite (IH e); [reflexivity|lia].
  - (* binary *)
    assert (H1 : Iok e1) by (apply IH; lia). assert (H2 : Iok e2) by (apply IH; lia). unfold Iok in H1, H2.
    destruct op; cbn [compile_items compile]; unfold isz; icode; rewrite ?H1, ?H2; reflexivity.
  - (* matches *)
    assert (H1 : Iok e1) by (apply IH; lia). assert (H2 : Iok e2) by (apply IH; lia). unfold Iok in H1, H2.
    cbn [compile_items compile]. destruct (re_const re e2); icode; rewrite ?H1, ?H2; reflexivity.
  - (* property *) cbn [compile_items compile]. icode. rewrite (IH e); [reflexivity|lia].
  - (* index *) cbn [compile_items compile]. icode. rewrite (IH e1), (IH e2); [reflexivity|lia|lia].
  - (* slice *)
    assert (H1 : Iok e) by (apply IH; lia). unfold Iok in H1.
    destruct from as [f|], to as [t|]; cbn [compile_items compile]; icode; rewrite H1;
      try (rewrite (IH f) by lia); try (rewrite (IH t) by lia); reflexivity.
  - (* method *)
    rewrite imethod_eq, cmethod_eq. icode. rewrite (IH e) by lia. rewrite Iok_list; [reflexivity|].
    intros x Hx. apply IH. pose proof (in_lsize _ _ Hx). lia.
  - (* function *)
    rewrite ifunction_eq, cfunction_eq. icode. rewrite Iok_list; [reflexivity|].
    intros x Hx. apply IH. pose proof (in_lsize _ _ Hx). lia.
  - (* builtin *)
    destruct args as [|x [|c [|z args]]]; cbn [lsize] in Hsz.
    + destruct b; reflexivity.
    + destruct b; try reflexivity. cbn [compile_items compile]. icode. rewrite (IH x); [reflexivity|lia].
    + apply Iok_builtin2; apply IH; lia.
    + destruct b; reflexivity.
  - (* closure *) cbn [compile_items compile]. apply IH. lia.
  - (* conditional *)
    assert (H1 : Iok e1) by (apply IH; lia). assert (H2 : Iok e2) by (apply IH; lia). assert (H3 : Iok e3) by (apply IH; lia).
    unfold Iok in H1, H2, H3. cbn [compile_items compile]. unfold isz. icode. rewrite H1, H2, H3. reflexivity.
  - (* array *)
    rewrite iarray_eq, carray_eq. icode. rewrite Iok_list; [reflexivity|].
    intros x Hx. apply IH. pose proof (in_lsize _ _ Hx). lia.
  - (* map *)
    rewrite imap_eq, cmap_eq. icode. rewrite Iok_pairs; [reflexivity|].
    intros x Hx. pose proof (in_lsize _ _ Hx) as Hs. destruct x; auto. cbn [esize] in Hs. split; apply IH; lia.
Qed.

End ItemsCode.

(* erasing the bare makeConstant calls from compile_items gives the IR compiler *)
Theorem items_code_compile mapenv e : items_code (compile_items mapenv e) = compile mapenv e.
Proof. apply (items_code_compile_sized mapenv (S (esize e))). lia. Qed.

Theorem items_code_compile_program mapenv c e :
  items_code (compile_items_program mapenv c e) = compile_program mapenv c e.
Proof.
  unfold compile_items_program, compile_program. rewrite items_code_app, items_code_compile. destruct c; reflexivity.
Qed.

(* ================================================================== Part 7 *)
(* the specification of primitive floats from the standard library (Coq.Floats): eqb_spec, Prim2SF_inj *)
Lemma float_eqb_SF (x y : float) : PrimFloat.eqb x y = SFeqb (Prim2SF x) (Prim2SF y).
Proof. exact (eqb_spec x y). Qed.

(* Go == on two floats of which neither is -0.0 is identity *)
Lemma float_eqb_eq f g : PrimFloat.eqb f g = true -> negzero f = false -> negzero g = false -> f = g.
Proof.
  unfold negzero. rewrite float_eqb_SF. intros He Hf Hg. apply Prim2SF_inj.
  destruct (Prim2SF f) as [sf| sf| |sf mf ef], (Prim2SF g) as [sg|sg| |sg mg eg];
    unfold SFeqb in He; cbn [SFcompare] in He; try discriminate.
  all: try (destruct sf; discriminate). all: try (destruct sg; discriminate).
  - destruct sf, sg; try discriminate; reflexivity.
  - destruct sf, sg; try discriminate; reflexivity.
  - destruct sf, sg; try discriminate.
    + destruct (Z.compare ef eg) eqn:Ez; try discriminate. apply Z.compare_eq in Ez. subst.
      destruct (Pos.compare_cont Eq mf mg) eqn:Em; try discriminate. apply Pos.compare_eq in Em. subst. reflexivity.
    + destruct (Z.compare ef eg) eqn:Ez; try discriminate. apply Z.compare_eq in Ez. subst.
      destruct (Pos.compare_cont Eq mf mg) eqn:Em; try discriminate. apply Pos.compare_eq in Em. subst. reflexivity.
Qed.

Lemma asm_ty_eqb_eq : forall a b, ty_eqb a b = true -> a = b.
Proof.
  fix IH 1. intros a b. destruct a, b; cbn [ty_eqb]; try discriminate; intros H; try reflexivity.
  - apply kind_eqb_eq in H. subst. reflexivity.
  - f_equal. apply IH. exact H.
  - apply andb_prop in H. destruct H as [H1 H2]. f_equal; apply IH; assumption.
  - apply String.eqb_eq in H. subst. reflexivity.
  - f_equal. apply IH. exact H.
  - apply andb_prop in H. destruct H as [H H3]. apply andb_prop in H. destruct H as [H1 H2].
    assert (L : forall l1 l2,
      (fix list_eqb (l1 l2 : list ty) {struct l1} : bool :=
         match l1, l2 with
         | [], [] => true
         | x :: r1, y :: r2 => ty_eqb x y && list_eqb r1 r2
         | _, _ => false
         end) l1 l2 = true -> l1 = l2).
    { induction l1 as [|x r1 IHl]; intros [|y r2] E; try discriminate; [reflexivity|].
      apply andb_prop in E. destruct E as [E1 E2]. f_equal; [apply IH; exact E1|apply IHl; exact E2]. }
    apply L in H1. apply L in H3. apply Bool.eqb_prop in H2. subst. reflexivity.
  - apply andb_prop in H. destruct H as [H1 H2]. apply String.eqb_eq in H1. apply IH in H2. subst. reflexivity.
  - apply String.eqb_eq in H. subst. reflexivity.
Qed.

(* a float that is not a zero is identical to every float it is == to *)
Lemma float_eqb_eq_nz f g : PrimFloat.eqb f g = true -> f_is_zero f = false -> f = g.
Proof.
  unfold f_is_zero. rewrite !float_eqb_SF. change (Prim2SF 0%float) with (S754_zero false).
  intros He Hz. apply Prim2SF_inj.
  destruct (Prim2SF f) as [sf| sf| |sf mf ef], (Prim2SF g) as [sg|sg| |sg mg eg];
    unfold SFeqb in He, Hz; cbn [SFcompare] in He, Hz; try discriminate.
  all: try (destruct sf; discriminate). all: try (destruct sg; discriminate).
  - destruct sf, sg; try discriminate; reflexivity.
  - destruct sf, sg; try discriminate.
    + destruct (Z.compare ef eg) eqn:Ez; try discriminate. apply Z.compare_eq in Ez. subst.
      destruct (Pos.compare_cont Eq mf mg) eqn:Em; try discriminate. apply Pos.compare_eq in Em. subst. reflexivity.
    + destruct (Z.compare ef eg) eqn:Ez; try discriminate. apply Z.compare_eq in Ez. subst.
      destruct (Pos.compare_cont Eq mf mg) eqn:Em; try discriminate. apply Pos.compare_eq in Em. subst. reflexivity.
Qed.

Lemma num_field_eq a b : num_go_eq a b = true -> field_exact (VNum a) = true -> field_exact (VNum b) = true -> a = b.
Proof.
  destruct a as [k z|k f], b as [k' z'|k' f']; cbn [num_go_eq field_exact]; try discriminate; intros H Ha Hb;
    apply andb_prop in H; destruct H as [Hk H]; apply kind_eqb_eq in Hk; subst k'.
  - apply Z.eqb_eq in H. subst. reflexivity.
  - f_equal. apply float_eqb_eq; [exact H|apply negb_true_iff; exact Ha|apply negb_true_iff; exact Hb].
Qed.

(* inside a struct: two values that Go's == identifies are identical unless a negative zero is involved *)
Lemma field_eq : forall w v, vgo_eq w v = true -> field_exact w = true -> field_exact v = true -> w = v.
Proof.
  fix IH 1. intros w v.
  destruct w as [|wb|wn|ws|we wl|we|wk wt wm|wname wptr wfields|wt|wk wt|wname wt|wname wx|wd],
           v as [|vb|vn|vs|ve vl|ve|vk vt vm|vname vptr vfields|vt|vk vt|vname vt|vname vx|vd];
    cbn [vgo_eq]; try discriminate; intros H Hw Hv; try reflexivity.
  - apply Bool.eqb_prop in H. subst. reflexivity.
  - f_equal. apply num_field_eq; assumption.
  - apply String.eqb_eq in H. subst. reflexivity.
  - destruct wptr; discriminate.
  - destruct wptr; discriminate.
  - destruct wptr; discriminate.
  - destruct wptr; discriminate.
  - destruct wptr; discriminate.
  - destruct wptr; discriminate.
  - destruct wptr; discriminate.
  - destruct wptr; [discriminate|]. destruct vptr; [discriminate|].
    apply andb_prop in H. destruct H as [Hn H]. apply String.eqb_eq in Hn. subst vname. f_equal.
    cbn [field_exact] in Hw, Hv. revert vfields H Hw Hv.
    induction wfields as [|[n1 x] r1 IHl]; intros [|[n2 y] r2] H Hw Hv; try discriminate; [reflexivity|].
    apply andb_prop in H. destruct H as [H H3]. apply andb_prop in H. destruct H as [H1 H2].
    apply andb_prop in Hw. destruct Hw as [Hw1 Hw2]. apply andb_prop in Hv. destruct Hv as [Hv1 Hv2].
    apply String.eqb_eq in H1. subst n2. rewrite (IH x y H2 Hw1 Hv1). f_equal. apply IHl; assumption.
  - destruct wptr; discriminate.
  - destruct wptr; discriminate.
  - destruct wptr; discriminate.
  - destruct wptr; discriminate.
  - destruct wptr; discriminate.
  - apply asm_ty_eqb_eq in H. subst. reflexivity.
  - apply andb_prop in H. destruct H as [Hn H]. apply String.eqb_eq in Hn. subst vname. f_equal.
    cbn [field_exact] in Hw, Hv. apply IH; assumption.
Qed.

(* constants of their own: a float zero is never a key, so only struct fields need the carve-out *)
Lemma key_eq : forall w v, vgo_eq w v = true -> float_zero w = false -> float_zero v = false ->
  key_exact w = true -> key_exact v = true -> w = v.
Proof.
  induction w as [|wb|wn|ws|we wl|we|wk wt wm|wname wptr wfields|wt|wk wt|wname wt|wname wx IHw|wd];
    intros v; destruct v as [|vb|vn|vs|ve vl|ve|vk vt vm|vname vptr vfields|vt|vk vt|vname vt|vname vx|vd];
    cbn [vgo_eq]; try discriminate; intros H Zw Zv Hw Hv; try reflexivity.
  - apply Bool.eqb_prop in H. subst. reflexivity.
  - f_equal. destruct wn as [k z|k f], vn as [k' z'|k' f']; cbn [num_go_eq] in H; try discriminate;
      apply andb_prop in H; destruct H as [Hk H]; apply kind_eqb_eq in Hk; subst k'.
    + apply Z.eqb_eq in H. subst. reflexivity.
    + f_equal. cbn [float_zero] in Zw. apply float_eqb_eq_nz; assumption.
  - apply String.eqb_eq in H. subst. reflexivity.
  - destruct wptr; discriminate.
  - destruct wptr; discriminate.
  - destruct wptr; discriminate.
  - destruct wptr; discriminate.
  - destruct wptr; discriminate.
  - destruct wptr; discriminate.
  - destruct wptr; discriminate.
  - destruct wptr; [discriminate|]. destruct vptr; [discriminate|].
    apply field_eq; [exact H|exact Hw|exact Hv].
  - destruct wptr; discriminate.
  - destruct wptr; discriminate.
  - destruct wptr; discriminate.
  - destruct wptr; discriminate.
  - destruct wptr; discriminate.
  - apply asm_ty_eqb_eq in H. subst. reflexivity.
  - apply andb_prop in H. destruct H as [Hn H]. apply String.eqb_eq in Hn. subst vname. f_equal.
    cbn [float_zero key_exact] in Zw, Zv, Hw, Hv. apply IHw; assumption.
Qed.

Lemma class_key_nz v : const_class (CVal v) = HKey -> float_zero v = false.
Proof. unfold const_class. destruct (slice_or_map v), (float_zero v); cbn [orb]; try discriminate. reflexivity. Qed.

(* every pool entry is the constant of some item *)
Lemma in_intern_unbounded d pool c : In d (intern_unbounded pool c) -> In d pool \/ d = c.
Proof.
  unfold intern_unbounded. destruct (const_class c); try destruct (pool_find c pool 0); intros H; auto;
    apply in_app_or in H; destruct H as [H|[H|[]]]; auto.
Qed.

Lemma in_pool_of d : forall its pool, In d (pool_of its pool) ->
  In d pool \/ exists it, In it its /\ item_const it = Some d.
Proof.
  induction its as [|it its IH]; intros pool H; cbn [pool_of] in H; [left; exact H|].
  assert (K : forall c, item_const it = Some c -> In d (pool_of its (intern_unbounded pool c)) ->
              In d pool \/ exists x, In x (it :: its) /\ item_const x = Some d).
  { intros c Hc Hin. apply IH in Hin. destruct Hin as [Hin|[x [Hx Hd]]].
    - apply in_intern_unbounded in Hin. destruct Hin as [Hin| ->]; [left; exact Hin|].
      right. exists it. split; [left; reflexivity|exact Hc].
    - right. exists x. split; [right; exact Hx|exact Hd]. }
  assert (K0 : In d (pool_of its pool) -> In d pool \/ exists x, In x (it :: its) /\ item_const x = Some d).
  { intros Hin. apply IH in Hin. destruct Hin as [Hin|[x [Hx Hd]]]; [left; exact Hin|].
    right. exists x. split; [right; exact Hx|exact Hd]. }
  destruct it as [i l|c]; [|apply (K c); [reflexivity|exact H]].
  cbn [item_const] in K. destruct (ioperand i) as [|c|off|k|]; try (apply K0; exact H). apply (K c); [reflexivity|exact H].
Qed.

Lemma Forall2_eq_in {A} (R : A -> A -> Prop) : forall l l', Forall2 R l l' ->
  (forall a b, In a l -> R a b -> a = b) -> l = l'.
Proof.
  induction 1 as [|a b r r' Hab _ IH]; intros Heq; [reflexivity|].
  rewrite (Heq a b (or_introl eq_refl) Hab). f_equal. apply IH. intros x y Hx. apply Heq. right. exact Hx.
Qed.

Lemma items_keys_exact_in its : items_keys_exact its = true ->
  forall it c, In it its -> item_const it = Some c -> const_exact c = true.
Proof.
  unfold items_keys_exact. intros H it c Hin Hc. rewrite forallb_forall in H. specialize (H it Hin). rewrite Hc in H. exact H.
Qed.

Lemma in_items_code i l : forall its, In (i, l) (items_code its) -> In (AIns i l) its.
Proof.
  induction its as [|[j m|c] its IH]; cbn [items_code]; intros H; [contradiction| |right; apply IH; exact H].
  destruct H as [H|H]; [injection H as -> ->; left; reflexivity|right; apply IH; exact H].
Qed.

(* exactness: decode returns the code itself unless a by-value struct constant has a negative zero field *)
Theorem decode_assemble_items_exact its p :
  assemble_items its = Some p -> items_keys_exact its = true -> decode p = DOk (items_code its).
Proof.
  intros Ha Hex. destruct (decode_assemble_itemsP _ _ Ha) as [C' [Hd Hs]].
  rewrite Hd. f_equal. symmetry. eapply Forall2_eq_in; [exact Hs|].
  intros [i l] [i' l'] Hin [Hi Hl]. cbn [fst snd] in Hi, Hl. subst l'.
  destruct Hi as [->|[v [w [-> [-> [He [Hcv [Hcw Hp]]]]]]]]; [reflexivity|].
  assert (Hpool : p_consts p = pool_of its []).
  { unfold assemble_items in Ha. destruct (asm its [] 0) as [[[bs pool] locs]|] eqn:A; [|discriminate].
    injection Ha as <-. apply asm_some in A. cbn [p_consts]. tauto. }
  rewrite Hpool in Hp. apply in_pool_of in Hp. destruct Hp as [[]|[x [Hx Hc]]].
  pose proof (items_keys_exact_in _ Hex x _ Hx Hc) as Hw.
  pose proof (items_keys_exact_in _ Hex (AIns (IPush v) l) (CVal v) (in_items_code _ _ _ Hin) eq_refl) as Hv.
  cbn [const_exact] in Hw, Hv.
  rewrite (key_eq w v He (class_key_nz _ Hcw) (class_key_nz _ Hcv) Hw Hv). reflexivity.
Qed.

Theorem decode_assemble_exact C p :
  assemble C = Some p -> code_keys_exact C = true -> decode p = DOk C.
Proof.
  unfold assemble, code_keys_exact. intros Ha Hex. rewrite (decode_assemble_items_exact _ _ Ha Hex). rewrite items_code_of_code. reflexivity.
Qed.

(* the unrestricted statement is still false: two by-value struct constants that differ in the sign
   of a zero field are one key for Go's index map *)
Definition decode_assemble_exact_full_statement : Prop :=
  forall C p, assemble C = Some p -> decode p = DOk C.

Definition zero_struct (f : float) : value := VStruct "T" false [("X", VNum (NFlt KF64 f))].
Definition negzero_struct_code : code :=
  [(IPush (zero_struct 0%float), noloc); (IPush (zero_struct (-0)%float), noloc)].

Lemma negzero_field_merges :
  exists p, assemble negzero_struct_code = Some p /\
            decode p = DOk [(IPush (zero_struct 0%float), noloc); (IPush (zero_struct 0%float), noloc)].
Proof. eexists. split; vm_compute; reflexivity. Qed.

Theorem decode_assemble_exact_refuted : ~ decode_assemble_exact_full_statement.
Proof.
  intros H. destruct negzero_field_merges as [p [Ha Hd]]. specialize (H _ _ Ha). rewrite Hd in H.
  apply (f_equal (fun r => match r with
                           | DOk [_; (IPush (VStruct _ _ [(_, VNum (NFlt _ f))]), _)] => PrimFloat.ltb (1 / f) 0
                           | _ => false
                           end)) in H.
  vm_compute in H. discriminate.
Qed.

(* the repaired defect: 0.0 and -0.0 as constants of their own are two pool entries (before the repair
   "0.0 and -0.0 do not share a constant-pool entry" the second push came back as 0.0) *)
Definition negzero_code : code :=
  [(IPush (VNum (NFlt KF64 0%float)), noloc); (IPush (VNum (NFlt KF64 (-0)%float)), noloc)].

Lemma negzero_kept_apart :
  exists p, assemble negzero_code = Some p /\
            p_consts p = [CVal (VNum (NFlt KF64 0%float)); CVal (VNum (NFlt KF64 (-0)%float))] /\
            code_keys_exact negzero_code = true /\ decode p = DOk negzero_code.
Proof. eexists. vm_compute. repeat split; reflexivity. Qed.

(* ================================================================== the byte-level Compile *)
Theorem compile_bytes_decodes mapenv c e p : compile_bytes mapenv c e = Some p ->
  exists C', decode p = DOk C' /\ code_sim (compile_program mapenv c e) C'.
Proof.
  unfold compile_bytes. destruct (compilable e); [|discriminate]. intros H.
  apply decode_assemble_items in H. rewrite items_code_compile_program in H. exact H.
Qed.

Theorem compile_bytes_exact mapenv c e p : compile_bytes mapenv c e = Some p ->
  items_keys_exact (compile_items_program mapenv c e) = true -> decode p = DOk (compile_program mapenv c e).
Proof.
  unfold compile_bytes. destruct (compilable e); [|discriminate]. intros H Hex.
  rewrite (decode_assemble_items_exact _ _ H Hex), items_code_compile_program. reflexivity.
Qed.

Theorem compile_bytes_wf mapenv c e p : compile_bytes mapenv c e = Some p -> wf_progb p = true.
Proof.
  unfold compile_bytes. destruct (compilable e) eqn:Hc; [|discriminate]. intros H.
  eapply assemble_items_wf; [exact H|]. rewrite items_code_compile_program. apply compile_program_wf. exact Hc.
Qed.

Theorem compile_bytes_fails_iff mapenv c e :
  compile_bytes mapenv c e = None <->
  compilable e = false \/ asm_fail_reason (compile_items_program mapenv c e) [].
Proof.
  unfold compile_bytes. destruct (compilable e).
  - rewrite assemble_items_fails_iff. split; [intros H; right; exact H|intros [H|H]; [discriminate|exact H]].
  - split; [intros _; left; reflexivity|reflexivity].
Qed.

(* ================================================================== hashable constants *)
(* the items of an expression whose ConstantNodes are hashable are all acceptable to the assembler:
   compiling it can only fail for size *)
Notation all_ok := (forallb item_ok).

Lemma all_ok_app a b : all_ok (a ++ b) = all_ok a && all_ok b.
Proof. apply forallb_app. Qed.

Lemma hashable_list l :
  (fix all_h (es : list expr) : bool := match es with [] => true | x :: r => consts_hashable x && all_h r end) l = true ->
  forall x, In x l -> consts_hashable x = true.
Proof.
  induction l as [|y l IH]; intros H x Hin; [contradiction|].
  apply andb_prop in H. destruct H as [H1 H2]. destruct Hin as [E|E]; subst; auto.
Qed.

Lemma int_const_ok a z : const_ok (CVal (int_const a z)) = true.
Proof.
  unfold int_const. destruct (akind a) as [| |k| | | | | | | |]; try reflexivity. destruct (is_float k); [|reflexivity].
  unfold const_ok, const_class. cbn [slice_or_map float_zero orb]. destruct (f_is_zero (fround k (f_of_Z z))); reflexivity.
Qed.

Section AllOk.
Variable mapenv : bool.
Notation citems := (compile_items mapenv).
Definition Hok (e : expr) : Prop := all_ok (citems e) = true.

Lemma Hok_list es : (forall x, In x es -> Hok x) -> all_ok (items_list mapenv es) = true.
Proof.
  induction es as [|x r IH]; intros Hall; cbn [items_list]; [reflexivity|].
  rewrite all_ok_app, (Hall x (or_introl eq_refl)), IH; [reflexivity|]. intros y Hy. apply Hall. right. exact Hy.
Qed.

Lemma Hok_pairs ps : (forall x, In x ps -> match x with EPair _ k v => Hok k /\ Hok v | _ => True end) ->
  all_ok (items_pairs mapenv ps) = true.
Proof.
  induction ps as [|x r IH]; intros Hall; cbn [items_pairs]; [reflexivity|].
  pose proof (Hall x (or_introl eq_refl)) as Hx.
  assert (Hr : all_ok (items_pairs mapenv r) = true) by (apply IH; intros y Hy; apply Hall; right; exact Hy).
  destruct x; try exact Hr. destruct Hx as [Hk Hv]. rewrite !all_ok_app, Hk, Hv, Hr. reflexivity.
Qed.

Ltac okc := repeat (progress (unfold loop_items, cond_items; rewrite ?forallb_app; cbn [forallb ins map item_ok ioperand app])).

Lemma Hok_builtin2 a b x c : Hok x -> Hok c -> Hok (EBuiltin a b [x; c]).
Proof.
  unfold Hok. intros Hx Hc.
  destruct b; cbn [compile_items]; try reflexivity; okc; fold (all_ok (citems x)); fold (all_ok (citems c));
    rewrite ?Hx, ?Hc; reflexivity.
Qed.

Theorem all_ok_compile_sized : forall n e, (esize e < n)%nat -> consts_hashable e = true -> Hok e.
Proof.
  induction n as [|n IH]; intros e Hsz Hh; [lia|].
  destruct e; cbn [esize] in Hsz; rewrite ?lsize_eq in Hsz; cbn [consts_hashable] in Hh; unfold Hok.
  - reflexivity.
  - cbn [compile_items compile]. destruct mapenv; [|destruct nilsafe]; reflexivity.
  - cbn [compile_items compile at_ map items_of_code fst snd forallb item_ok ioperand]. rewrite int_const_ok. reflexivity.
  - cbn [compile_items compile at_ map items_of_code fst snd forallb item_ok ioperand].
    unfold const_ok, const_class. cbn [slice_or_map float_zero orb]. destruct (f_is_zero f); reflexivity.
  - cbn [compile_items compile]. destruct b; reflexivity.
  - reflexivity.
  - cbn [compile_items compile at_ map items_of_code fst snd forallb item_ok].
    destruct v; try reflexivity; cbn [ioperand]; rewrite Hh; reflexivity.
  - (* unary *) cbn [compile_items]. okc. fold (all_ok (citems e)). rewrite (IH e) by (auto; lia). destruct op; reflexivity.
  - (* binary *)
    apply andb_prop in Hh. destruct Hh as [Hh1 Hh2].
    assert (H1 : Hok e1) by (apply IH; auto; lia). assert (H2 : Hok e2) by (apply IH; auto; lia). unfold Hok in H1, H2.
    destruct op; cbn [compile_items]; okc; fold (all_ok (citems e1)); fold (all_ok (citems e2)); rewrite ?H1, ?H2;
      try reflexivity; unfold binop_code;
      destruct (both_kind (RKNum KInt) e1 e2); try reflexivity; destruct (both_kind RKString e1 e2); reflexivity.
  - (* matches *)
    apply andb_prop in Hh. destruct Hh as [Hh1 Hh2].
    assert (H1 : Hok e1) by (apply IH; auto; lia). unfold Hok in H1.
    cbn [compile_items]. revert Hh2. destruct (re_const re e2); intros Hh2; okc; fold (all_ok (citems e1)); rewrite H1; [reflexivity|].
    fold (all_ok (citems e2)). rewrite (IH e2) by (auto; lia). reflexivity.
  - (* property *) cbn [compile_items]. okc. fold (all_ok (citems e)). rewrite (IH e) by (auto; lia). destruct nilsafe; reflexivity.
  - (* index *)
    apply andb_prop in Hh. destruct Hh as [Hh1 Hh2].
    cbn [compile_items]. okc. fold (all_ok (citems e1)); fold (all_ok (citems e2)).
    rewrite (IH e1), (IH e2) by (auto; lia). reflexivity.
  - (* slice *)
    apply andb_prop in Hh. destruct Hh as [Hh Hh3]. apply andb_prop in Hh. destruct Hh as [Hh1 Hh2].
    assert (H1 : Hok e) by (apply IH; auto; lia). unfold Hok in H1.
    destruct from as [f|], to as [t|]; cbn [compile_items]; okc; fold (all_ok (citems e)); rewrite H1;
      try (fold (all_ok (citems f)); rewrite (IH f) by (auto; lia));
      try (fold (all_ok (citems t)); rewrite (IH t) by (auto; lia)); reflexivity.
  - (* method *)
    apply andb_prop in Hh. destruct Hh as [Hh1 Hh2].
    rewrite imethod_eq. okc. fold (all_ok (citems e)). fold (all_ok (items_list mapenv args)).
    rewrite (IH e) by (auto; lia). rewrite Hok_list; [destruct nilsafe; reflexivity|].
    intros x Hx. apply IH; [pose proof (in_lsize _ _ Hx); lia|eapply hashable_list; eauto].
  - (* function *)
    rewrite ifunction_eq. okc. fold (all_ok (items_list mapenv args)). rewrite Hok_list; [destruct fast; reflexivity|].
    intros x Hx. apply IH; [pose proof (in_lsize _ _ Hx); lia|eapply hashable_list; eauto].
  - (* builtin *)
    destruct args as [|x [|c [|z args]]]; cbn [lsize] in Hsz.
    + destruct b; reflexivity.
    + destruct b; try reflexivity. apply andb_prop in Hh. destruct Hh as [Hh1 _].
      cbn [compile_items]. okc. fold (all_ok (citems x)). rewrite (IH x) by (auto; lia). reflexivity.
    + apply andb_prop in Hh. destruct Hh as [Hh1 Hh2]. apply andb_prop in Hh2. destruct Hh2 as [Hh2 _].
      apply Hok_builtin2; apply IH; auto; lia.
    + destruct b; reflexivity.
  - (* closure *) cbn [compile_items]. apply IH; auto; lia.
  - (* pointer *) reflexivity.
  - (* conditional *)
    apply andb_prop in Hh. destruct Hh as [Hh Hh3]. apply andb_prop in Hh. destruct Hh as [Hh1 Hh2].
    cbn [compile_items]. okc. fold (all_ok (citems e1)); fold (all_ok (citems e2)); fold (all_ok (citems e3)).
    rewrite (IH e1), (IH e2), (IH e3) by (auto; lia). reflexivity.
  - (* array *)
    rewrite iarray_eq. okc. fold (all_ok (items_list mapenv es)). rewrite Hok_list; [reflexivity|].
    intros x Hx. apply IH; [pose proof (in_lsize _ _ Hx); lia|eapply hashable_list; eauto].
  - (* map *)
    rewrite imap_eq. okc. fold (all_ok (items_pairs mapenv pairs)). rewrite Hok_pairs; [reflexivity|].
    intros x Hx. pose proof (in_lsize _ _ Hx) as Hs. pose proof (hashable_list _ Hh x Hx) as Hp.
    destruct x; auto. cbn [esize] in Hs. cbn [consts_hashable] in Hp. apply andb_prop in Hp. destruct Hp as [Hk Hv].
    split; apply IH; auto; lia.
  - (* pair *) reflexivity.
Qed.

End AllOk.

Theorem all_ok_compile_program mapenv c e :
  consts_hashable e = true -> forall it, In it (compile_items_program mapenv c e) -> item_ok it = true.
Proof.
  intros Hh. assert (H : all_ok (compile_items_program mapenv c e) = true).
  { unfold compile_items_program. rewrite all_ok_app, (all_ok_compile_sized mapenv (S (esize e)) e) by (auto; lia).
    destruct c; reflexivity. }
  rewrite forallb_forall in H. exact H.
Qed.

(* deliverable 3 for compiled expressions: Compile fails at byte level only for an expression the
   compiler does not know (unknown operator / builtin), a jump offset above 65535 or a pool of more
   than 65535 entries *)
Theorem compile_bytes_fails_only_when_too_big mapenv c e :
  consts_hashable e = true -> compile_bytes mapenv c e = None ->
  compilable e = false \/
  (exists it, In it (compile_items_program mapenv c e) /\ jump_too_far it = true) \/
  max_uint16 < Z.of_nat (List.length (pool_of (compile_items_program mapenv c e) [])).
Proof.
  intros Hh H. apply compile_bytes_fails_iff in H. destruct H as [H|[[x [Hin Hx]]|H]]; [left; exact H| |right; exact H].
  rewrite (all_ok_compile_program mapenv c e Hh x Hin) in Hx. discriminate.
Qed.

(* ================================================================== the assembled bytes are bytes *)
Definition is_byte (b : Z) : Prop := 0 <= b < 256.

Lemma index_of_range n : forall l k j, index_of n l k = Some j -> k <= j < k + Z.of_nat (List.length l).
Proof.
  induction l as [|x r IH]; intros k j H; cbn [index_of] in H; [discriminate|].
  cbn [List.length]. destruct (String.eqb x n).
  - injection H as <-. lia.
  - apply IH in H. lia.
Qed.

Lemma opcode_is_byte n b : opcode_of n = Some b -> is_byte b.
Proof.
  unfold opcode_of. intros H. apply index_of_range in H.
  assert (L : Z.of_nat (List.length opcode_names) <= 256) by (vm_compute; discriminate).
  unfold is_byte. lia.
Qed.

Lemma encode16_bytes k : 0 <= k <= max_uint16 -> Forall is_byte (encode16 k).
Proof.
  unfold max_uint16, encode16, is_byte. intros Hk.
  pose proof (Z.mod_pos_bound k 256 ltac:(lia)).
  assert (0 <= k / 256) by (apply Z.div_pos; lia).
  assert (k / 256 < 256) by (apply Z.div_lt_upper_bound; lia).
  repeat constructor; lia.
Qed.

Lemma intern_index_range pool c pool' k :
  Z.of_nat (List.length pool) <= max_uint16 -> intern pool c = Some (pool', k) -> 0 <= k <= max_uint16.
Proof.
  intros Hl H. pose proof (intern_some_unbounded _ _ _ _ H) as [_ [_ Hl']]. specialize (Hl' Hl).
  apply intern_spec in H. destruct H as [_ [Hk [d [Hn _]]]].
  assert (Z.to_nat k < List.length pool')%nat by (apply nth_error_Some; rewrite Hn; discriminate). lia.
Qed.

Lemma asm_bytes : forall its pool pos bs poolF locs,
  Z.of_nat (List.length pool) <= max_uint16 -> asm its pool pos = Some (bs, poolF, locs) -> Forall is_byte bs.
Proof.
  induction its as [|it its IH]; intros pool pos bs poolF locs Hl H; cbn [asm] in H.
  - injection H as <- <- <-. constructor.
  - destruct it as [i l|c].
    + destruct (enc_instr pool i) as [[b1 pool1]|] eqn:En; [|discriminate].
      destruct (asm its pool1 (pos + Z.of_nat (List.length b1))) as [[[bs' poolF'] locs']|] eqn:Ar; [|discriminate].
      injection H as <- <- <-. apply Forall_app.
      unfold enc_instr in En. destruct (opcode_of (iname i)) as [b|] eqn:Hb; [|discriminate].
      apply opcode_is_byte in Hb.
      destruct (ioperand i) as [|c|off|k|] eqn:E; try discriminate.
      * injection En as <- <-. split; [constructor; [exact Hb|constructor]|eapply IH; [exact Hl|exact Ar]].
      * destruct (intern pool c) as [[p' k]|] eqn:I; [|discriminate]. injection En as <- <-.
        pose proof (intern_index_range _ _ _ _ Hl I) as Hk.
        pose proof (intern_some_unbounded _ _ _ _ I) as [_ [_ Hl']].
        split; [constructor; [exact Hb|apply encode16_bytes; exact Hk]|eapply IH; [apply Hl'; exact Hl|exact Ar]].
      * destruct (max_uint16 <? off) eqn:Hm; [discriminate|]. injection En as <- <-. apply Z.ltb_ge in Hm.
        assert (0 <= off).
        { destruct i; cbn [ioperand] in E; try discriminate; try (destruct ((t =? 0) || (t =? 1)); discriminate); injection E as <-; lia. }
        split; [constructor; [exact Hb|apply encode16_bytes; lia]|eapply IH; [exact Hl|exact Ar]].
      * injection En as <- <-.
        assert (0 <= k <= 1).
        { destruct i; cbn [ioperand] in E; try discriminate. destruct ((t =? 0) || (t =? 1)) eqn:Et; [|discriminate].
          injection E as <-. apply orb_prop in Et. destruct Et as [Et|Et]; apply Z.eqb_eq in Et; lia. }
        split; [constructor; [exact Hb|apply encode16_bytes; unfold max_uint16; lia]|eapply IH; [exact Hl|exact Ar]].
    + destruct (intern pool c) as [[pool1 k]|] eqn:I; [|discriminate].
      pose proof (intern_some_unbounded _ _ _ _ I) as [_ [_ Hl']]. eapply IH; [apply Hl'; exact Hl|exact H].
Qed.

(* every element of the assembled Bytecode is a byte, the pool has at most 65535 entries *)
Theorem assemble_items_bytes its p : assemble_items its = Some p ->
  Forall is_byte (p_bytes p) /\ Z.of_nat (List.length (p_consts p)) <= max_uint16.
Proof.
  unfold assemble_items. destruct (asm its [] 0) as [[[bs pool] locs]|] eqn:A; [|discriminate].
  intros H. injection H as <-. cbn [p_bytes p_consts]. split.
  - eapply asm_bytes; [|exact A]. cbn. unfold max_uint16. lia.
  - apply asm_some in A. destruct A as [_ [_ Hl]]. apply Hl. cbn. unfold max_uint16. lia.
Qed.

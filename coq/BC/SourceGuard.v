(* BC/SourceGuard.v — towards the capstone without its side condition (BC/SourceCorrect.v
   source_pipeline_full_statement): which parts of VMSteps.run_guard are THEOREMS for compiled code.

   run_guard asks of every state the model run visits
     (1) the program counter is on an instruction            - proved here for every run whose result is not the
                                                               "malformed bytecode" failure (all compiled programs);
     (2) vm.memory is a non-negative Go int                   - proved here for ANY code (the counter only grows, and
                                                               stays below the budget: BC/Budget.v step_ok_all);
     (3) the budget is a Go int                               - a condition on the configuration alone (cfg_int);
     (4) the number of open scopes is a Go int                \  run_guard_dyn, what REMAINS: each of these needs a bound
     (5) vm_in_scope_at: OpInc below MaxInt, OpArray / OpMap  /  on the lengths of the collections the run meets (loop
         size + vm.memory no overflow, argument count an int     counter <= len(array), size <= len), and the model's
                                                                 value universe has no such bound: lists of any length,
                                                                 also as results of environment functions.
   source_pipeline_correct_dyn is the capstone under (3), (4), (5) only. *)
From Coq Require Import ZArith Bool List String Arith Lia.
Require Import X.Base.Num X.Base.Value X.Syn.Ast X.Sem.Prim X.Sem.Sem X.Sem.NoMachine
               X.BC.Instr X.BC.Compiler X.BC.VM X.BC.Budget X.BC.RunProofs
               X.BC.Schemes X.gen.GenSchemes X.Bridge.BrSchemes
               X.BC.VMSteps X.gen.GenVMSteps X.Bridge.BrVMSteps X.BC.SourceCorrect.
Import ListNotations.
Local Open Scope nat_scope.

Arguments Nat.ltb : simpl never.

(* (3) *)
Definition cfg_int (cfg : config) : bool :=
  (min_of KInt <=? c_limit cfg)%Z && (c_limit cfg <=? max_of KInt)%Z.

(* (4) + (5) at one state *)
Definition guard_dyn (C : code) (s : state) : bool :=
  (Z.of_nat (List.length (scs s)) <=? max_of KInt)%Z && vm_in_scope_at C s.

(* ... at every state the model visits in up to 2^d turns (the recursion of run_guard) *)
Fixpoint run_guard_dyn (fe : fenv) (cfg : config) (env : value) (C : code) (d : nat) (s : state) : bool :=
  match d with
  | O => guard_dyn C s
  | S d' =>
      run_guard_dyn fe cfg env C d' s &&
      match run_depth fe cfg env C d' s with
      | Running s' => run_guard_dyn fe cfg env C d' s'
      | Finished _ _ => true
      end
  end.

(* the run did not stop on "no instruction at this offset" *)
Definition aligned (r : rres) : Prop :=
  match r with Finished (Stop EMachine l _) _ => l <> noloc | _ => True end.

Section Guard.
Variable fe : fenv.
Variable cfg : config.
Variable env : value.
Variable C : code.

(* (2) as an invariant of the model VM on any code *)
Definition mem_inv (s : state) : Prop := (0 <= mem s /\ mem s <= Z.max 0 (c_limit cfg))%Z.

Lemma mem_inv_init : mem_inv init_state.
Proof. unfold mem_inv, mem. cbn. lia. Qed.

Lemma mem_inv_tick s s' : mem_inv s -> tick fe cfg env C s = Running s' -> mem_inv s'.
Proof.
  unfold tick, mem_inv. intros [H0 H1] T. destruct (Nat.ltb (pc s) (csize C)); [|discriminate T].
  pose proof (step_ok_all fe env C cfg s) as K. unfold step_ok in K.
  destruct (step fe cfg env C s) as [s1|e l r1]; [|discriminate T]. injection T as <-. lia.
Qed.

Lemma guard1_of_dyn s :
  cfg_int cfg = true -> mem_inv s -> guard_dyn C s = true -> aligned (tick fe cfg env C s) -> guard1 cfg C s = true.
Proof.
  intros Hc [M0 M1] G A. unfold guard_dyn in G. apply andb_prop in G. destruct G as [G1 G2].
  unfold cfg_int in Hc. apply andb_prop in Hc. destruct Hc as [C1 C2].
  unfold guard1. rewrite G2, andb_true_r. apply andb_true_intro. split.
  - unfold tick in A. destruct (Nat.ltb (pc s) (csize C)); [|reflexivity].
    unfold step in A. destruct (fetch C (pc s)) as [x|]; [reflexivity|]. exfalso. apply A. reflexivity.
  - unfold vm_rep_ok. fold (mem s). rewrite C1, C2, G1.
    apply Z.leb_le in C1, C2.
    replace (0 <=? mem s)%Z with true by (symmetry; apply Z.leb_le; exact M0).
    replace (mem s <=? max_of KInt)%Z with true; [reflexivity|].
    symmetry. apply Z.leb_le. change (max_of KInt) with 9223372036854775807%Z in *. lia.
Qed.

(* the conditions (1) and (2) of run_guard follow, along the whole run *)
Lemma run_guard_of_dyn : cfg_int cfg = true -> forall d s,
  mem_inv s -> run_guard_dyn fe cfg env C d s = true -> aligned (run_depth fe cfg env C d s) ->
  run_guard fe cfg env C d s = true /\ (forall s', run_depth fe cfg env C d s = Running s' -> mem_inv s').
Proof.
  intros Hc. induction d as [|d IH]; intros s M G A.
  - cbn [run_guard run_guard_dyn run_depth] in *. split; [apply guard1_of_dyn; assumption|].
    intros s' T. eapply mem_inv_tick; eassumption.
  - cbn [run_guard run_guard_dyn run_depth] in *. apply andb_prop in G. destruct G as [G1 G2].
    destruct (run_depth fe cfg env C d s) as [s1|r last] eqn:E.
    + assert (A0 : aligned (run_depth fe cfg env C d s)) by (rewrite E; exact I).
      destruct (IH s M G1 A0) as [R1 M1]. specialize (M1 s1 E).
      destruct (IH s1 M1 G2 A) as [R2 M2]. rewrite R1, R2. split; [reflexivity|exact M2].
    + assert (A0 : aligned (run_depth fe cfg env C d s)) by (rewrite E; exact A).
      destruct (IH s M G1 A0) as [R1 _]. rewrite R1. split; [reflexivity|intros s' H; discriminate H].
Qed.

Theorem run_guard_of_dyn_init d r :
  cfg_int cfg = true -> run_code fe cfg env C d = Some r -> not_machine r ->
  run_guard_dyn fe cfg env C d init_state = true -> run_guard fe cfg env C d init_state = true.
Proof.
  intros Hc Hr Hn G. unfold run_code in Hr.
  destruct (run_depth fe cfg env C d init_state) as [s|r0 last] eqn:E; [discriminate Hr|]. injection Hr as ->.
  apply (run_guard_of_dyn Hc d init_state mem_inv_init G). rewrite E. unfold aligned, not_machine in *.
  destruct r as [v s|e l s]; [exact I|]. destruct e; try exact I. contradiction.
Qed.
End Guard.

(* the language definition never answers "malformed bytecode", result cast included *)
Lemma run_ref_not_machine fe cfg env c e : fn_no_machine fe -> not_machine (run_ref fe cfg env c e).
Proof.
  intros Hf. unfold run_ref. apply rbind_nm; [apply eval_no_machine; exact Hf|].
  intros v s. destruct c; [exact I| |].
  - apply lift_nm; [apply to_int64_nm|intros a; exact I].
  - apply lift_nm; [apply to_float64_nm|intros a; exact I].
Qed.

(* the capstone under the conditions (3), (4), (5) only *)
Theorem source_pipeline_correct_dyn :
  forall fe cfg env c e dc before,
    fn_no_machine fe -> compilable e = true -> esize e <= dc -> cfg_int cfg = true ->
    exists P, gen_compile_program schemes dc (c_mapenv cfg) c e = Some P /\
    exists d0, forall d, d0 <= d ->
      run_guard_dyn fe cfg env P d init_state = true ->
      option_map erase_stop_mem (interp_run fe cfg env P vm_src d before)
      = Some (erase_stop_mem (run_ref fe cfg env c e)).
Proof.
  intros fe cfg env c e dc before Hf Hc Hsz Hcfg.
  exists (compile_program (c_mapenv cfg) c e). split.
  - apply gen_compile_program_is_compile_program; assumption.
  - destruct (run_program_ref fe cfg env c e Hf Hc) as [d0 Hd0]. exists d0. intros d Hd G.
    assert (G' : run_guard fe cfg env (compile_program (c_mapenv cfg) c e) d init_state = true).
    { eapply run_guard_of_dyn_init; [exact Hcfg|exact (Hd0 d Hd)|apply run_ref_not_machine; exact Hf|exact G]. }
    rewrite (vm_run_is_source_run fe cfg env _ d before G'), (Hd0 d Hd). reflexivity.
Qed.

(* the part (1) is needed: code whose jump lands inside an instruction satisfies (2)-(5) and not run_guard *)
Definition misaligned_code : code := [(IJump 1, noloc); (IPush (vint 1), noloc)].

Example alignment_is_not_implied :
  cfg_int w_cfg = true /\
  run_guard_dyn w_fe w_cfg VNil misaligned_code 2 init_state = true /\
  run_guard w_fe w_cfg VNil misaligned_code 2 init_state = false /\
  run_code w_fe w_cfg VNil misaligned_code 2 = Some (Stop EMachine noloc rs0).
Proof. vm_compute. repeat split; reflexivity. Qed.

(* non-vacuity on the nested example of SourceCorrect.v, also under a budget that refuses the run midway *)
Example source_pipeline_dyn_nonvacuous :
  cfg_int w_cfg = true /\ cfg_int (mkCfg false 7) = true /\
  match cap_code with
  | Some P =>
      run_guard_dyn w_fe w_cfg VNil P 9 init_state = true /\
      run_guard_dyn w_fe (mkCfg false 7) VNil P 9 init_state = true /\
      option_map erase_stop_mem (interp_run w_fe (mkCfg false 7) VNil P vm_src 9 cap_dirty)
      = Some (erase_stop_mem (run_ref w_fe (mkCfg false 7) VNil CastNone cap_ex))
  | None => False
  end.
Proof. vm_compute. repeat split; reflexivity. Qed.

(* ================================================================== the numeric rest *)
(* run_guard_dyn still holds one condition that is not arithmetic: OpMap with fewer than 2n values below the size.
   There the model VM stops with the malformed-bytecode failure, so the condition follows, as (1) did, from the run
   not ending in that failure.  What is left (run_guard_num) is arithmetic on Go ints only:
     open scopes <= MaxInt;  OpInc: counter + 1 <= MaxInt;  OpArray / OpMap: vm.memory + n <= MaxInt;
     OpMap: 0 <= n (a negative size is EOther in the model, an empty map in Go: map_negative_size_in_go - it cannot be
     read off the result);  OpCall / OpCallFast / OpMethod(NilSafe): argument count <= MaxInt. *)
Definition vm_in_scope_num (i : instr) (s : state) : bool :=
  match i with
  | IMap =>
      match stk s with
      | VNum (NInt KInt n) :: _ => (r_mem (rs s) + n <=? max_of KInt)%Z && (0 <=? n)%Z
      | _ => true
      end
  | _ => vm_in_scope i s
  end.

Definition guard_num (C : code) (s : state) : bool :=
  (Z.of_nat (List.length (scs s)) <=? max_of KInt)%Z &&
  match fetch C (pc s) with Some (i, _) => vm_in_scope_num i s | None => true end.

Fixpoint run_guard_num (fe : fenv) (cfg : config) (env : value) (C : code) (d : nat) (s : state) : bool :=
  match d with
  | O => guard_num C s
  | S d' =>
      run_guard_num fe cfg env C d' s &&
      match run_depth fe cfg env C d' s with
      | Running s' => run_guard_num fe cfg env C d' s'
      | Finished _ _ => true
      end
  end.

(* the run did not stop on the malformed-bytecode failure *)
Definition well_formed_run (r : rres) : Prop :=
  match r with Finished (Stop EMachine _ _) _ => False | _ => True end.

Lemma well_formed_aligned r : well_formed_run r -> aligned r.
Proof. destruct r as [s|[v s|e l s] last]; cbn; auto. destruct e; auto; contradiction. Qed.

Section GuardNum.
Variable fe : fenv.
Variable cfg : config.
Variable env : value.
Variable C : code.

Lemma guard_dyn_of_num s :
  guard_num C s = true -> well_formed_run (tick fe cfg env C s) -> guard_dyn C s = true.
Proof.
  unfold guard_num, guard_dyn, vm_in_scope_at. intros G W. apply andb_prop in G. destruct G as [G1 G2].
  rewrite G1. cbn [andb].
  destruct (fetch C (pc s)) as [[i l]|] eqn:F; [|reflexivity].
  destruct i; try exact G2.
  (* IMap *)
  cbn [vm_in_scope_num vm_in_scope] in *.
  destruct (stk s) as [|v st0] eqn:Es; [reflexivity|].
  destruct v as [|b|[k n|k f]|x|t xs|t|kt et m|nm ptr fs|t|kt et|nm t|nm v|dsc]; try reflexivity.
  destruct k; try reflexivity.
  apply andb_prop in G2. destruct G2 as [M N]. rewrite M, N. cbn [andb].
  destruct (Z.leb_spec (2 * n) (Z.of_nat (List.length st0))) as [_|Hlt]; [reflexivity|].
  exfalso. unfold tick in W. pose proof (fetch_lt _ _ _ F) as Hp. apply Nat.ltb_lt in Hp. rewrite Hp in W.
  unfold step in W. rewrite F, Es in W. cbn [as_int] in W.
  apply Z.leb_le in N. destruct (Z.ltb_spec n 0) as [Hn|_]; [lia|].
  destruct (Z.ltb_spec (Z.of_nat (List.length st0)) (2 * n)) as [_|Hge]; [exact W|lia].
Qed.

Lemma run_guard_dyn_of_num : forall d s,
  run_guard_num fe cfg env C d s = true -> well_formed_run (run_depth fe cfg env C d s) ->
  run_guard_dyn fe cfg env C d s = true.
Proof.
  induction d as [|d IH]; intros s G W.
  - cbn [run_guard_num run_guard_dyn run_depth] in *. apply guard_dyn_of_num; assumption.
  - cbn [run_guard_num run_guard_dyn run_depth] in *. apply andb_prop in G. destruct G as [G1 G2].
    destruct (run_depth fe cfg env C d s) as [s1|r last] eqn:E.
    + assert (W0 : well_formed_run (run_depth fe cfg env C d s)) by (rewrite E; exact I).
      rewrite (IH s G1 W0), (IH s1 G2 W). reflexivity.
    + assert (W0 : well_formed_run (run_depth fe cfg env C d s)) by (rewrite E; exact W).
      rewrite (IH s G1 W0). reflexivity.
Qed.

Theorem run_guard_of_num_init d r :
  cfg_int cfg = true -> run_code fe cfg env C d = Some r -> not_machine r ->
  run_guard_num fe cfg env C d init_state = true -> run_guard fe cfg env C d init_state = true.
Proof.
  intros Hc Hr Hn G. eapply run_guard_of_dyn_init; try eassumption.
  apply run_guard_dyn_of_num; [exact G|]. unfold run_code in Hr.
  destruct (run_depth fe cfg env C d init_state) as [s|r0 last]; [exact I|]. injection Hr as ->.
  unfold well_formed_run, not_machine in *. destruct r as [v s|e l s]; [exact I|]. destruct e; try exact I. contradiction.
Qed.
End GuardNum.

(* the capstone under arithmetic conditions only *)
Theorem source_pipeline_correct_num :
  forall fe cfg env c e dc before,
    fn_no_machine fe -> compilable e = true -> esize e <= dc -> cfg_int cfg = true ->
    exists P, gen_compile_program schemes dc (c_mapenv cfg) c e = Some P /\
    exists d0, forall d, d0 <= d ->
      run_guard_num fe cfg env P d init_state = true ->
      option_map erase_stop_mem (interp_run fe cfg env P vm_src d before)
      = Some (erase_stop_mem (run_ref fe cfg env c e)).
Proof.
  intros fe cfg env c e dc before Hf Hc Hsz Hcfg.
  exists (compile_program (c_mapenv cfg) c e). split.
  - apply gen_compile_program_is_compile_program; assumption.
  - destruct (run_program_ref fe cfg env c e Hf Hc) as [d0 Hd0]. exists d0. intros d Hd G.
    assert (G' : run_guard fe cfg env (compile_program (c_mapenv cfg) c e) d init_state = true).
    { eapply run_guard_of_num_init; [exact Hcfg|exact (Hd0 d Hd)|apply run_ref_not_machine; exact Hf|exact G]. }
    rewrite (vm_run_is_source_run fe cfg env _ d before G'), (Hd0 d Hd). reflexivity.
Qed.

(* the stack-depth part of OpMap is needed on arbitrary code: BrVMSteps.w_mapkey_state (map_underflow_key_order)
   meets the arithmetic conditions and not vm_in_scope; the model stops there with EMachine *)
Example map_underflow_is_not_numeric :
  vm_in_scope_num IMap w_mapkey_state = true /\ vm_in_scope IMap w_mapkey_state = false /\
  step w_fe w_cfg VNil [(IMap, noloc)] w_mapkey_state = Crash EMachine noloc rs0.
Proof. vm_compute. repeat split; reflexivity. Qed.

Example source_pipeline_num_nonvacuous :
  match cap_code with
  | Some P => run_guard_num w_fe w_cfg VNil P 9 init_state = true /\
              run_guard_num w_fe (mkCfg false 7) VNil P 9 init_state = true
  | None => False
  end.
Proof. vm_compute. split; reflexivity. Qed.

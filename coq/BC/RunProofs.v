(* BC/RunProofs.v — from the simulation of CompileProofs.v to the executable run function:
   the compiled program run on the model VM returns what the reference semantics returns. *)
From Coq Require Import ZArith Bool List String Arith Lia.
Require Import X.Base.Num X.Base.Value X.Syn.Ast X.Sem.Prim X.Sem.Sem X.BC.Instr X.BC.Compiler X.BC.VM X.BC.CompileProofs.
Import ListNotations.
Local Open Scope nat_scope.

Arguments Nat.ltb : simpl never.

Section Run.
Variable fe : fenv.
Variable cfg : config.
Variable env : value.
Variable C : code.

Notation step := (VM.step fe cfg env C).
Notation tick := (VM.tick fe cfg env C).
Notation run_depth := (VM.run_depth fe cfg env C).
Notation star := (CompileProofs.star fe cfg env C).

Lemma fetch_lt : forall (c : code) p x, fetch c p = Some x -> p < csize c.
Proof.
  induction c as [|[i l] c IH]; intros p x H; cbn in H; try discriminate.
  pose proof (isize_pos i). cbn [csize].
  destruct (Nat.eqb_spec p 0); [lia|].
  destruct (Nat.ltb_spec p (isize i)); [discriminate|].
  apply IH in H. lia.
Qed.

Lemma step_next_lt s s' : step s = Next s' -> pc s < csize C.
Proof.
  unfold VM.step. destruct (fetch C (pc s)) as [[i l]|] eqn:F; [intros _; eapply fetch_lt; eauto|discriminate].
Qed.

Lemma step_crash_lt s e l r : step s = Crash e l r -> (e = EMachine /\ l = noloc) \/ pc s < csize C.
Proof.
  unfold VM.step. destruct (fetch C (pc s)) as [[i l0]|] eqn:F.
  - intros _. right. eapply fetch_lt; eauto.
  - intros H. inversion H; subst. left; auto.
Qed.

(* n sequential iterations of the dispatch loop *)
Fixpoint iter_tick (n : nat) (s : state) : rres :=
  match n with
  | O => Running s
  | S n' => match tick s with Running s' => iter_tick n' s' | f => f end
  end.

Lemma iter_tick_add a : forall b s,
  iter_tick (a + b) s = match iter_tick a s with Running s' => iter_tick b s' | f => f end.
Proof.
  induction a as [|a IH]; intros b s; cbn [plus iter_tick]; auto.
  destruct (tick s); auto.
Qed.

Lemma run_depth_iter d : forall s, run_depth d s = iter_tick (2 ^ d) s.
Proof.
  induction d as [|d IH]; intros s.
  - cbn. destruct (tick s); reflexivity.
  - cbn [VM.run_depth]. rewrite IH. replace (2 ^ S d) with (2 ^ d + 2 ^ d) by (rewrite Nat.pow_succ_r'; lia).
    rewrite iter_tick_add. destruct (iter_tick (2 ^ d) s); auto.
Qed.

Lemma iter_tick_finished n s r z : iter_tick n s = Finished r z -> forall m, n <= m -> iter_tick m s = Finished r z.
Proof.
  intros H m Hm. replace m with (n + (m - n)) by lia. rewrite iter_tick_add, H. reflexivity.
Qed.

Lemma star_iter s s' : star s s' -> exists n, iter_tick n s = Running s'.
Proof.
  induction 1 as [s|s s1 s2 Hs _ [n IH]].
  - exists 0. reflexivity.
  - exists (S n). cbn [iter_tick]. unfold VM.tick.
    pose proof (step_next_lt _ _ Hs) as Hlt. apply Nat.ltb_lt in Hlt. rewrite Hlt, Hs. exact IH.
Qed.

Lemma pow2_ge n : n <= 2 ^ n.
Proof. induction n; [cbn; lia|]. rewrite Nat.pow_succ_r'. pose proof (Nat.pow_nonzero 2 n ltac:(lia)). lia. Qed.

Lemma finish_from n s r z : iter_tick n s = Finished r z -> forall d, n <= d -> run_depth d s = Finished r z.
Proof.
  intros H d Hd. rewrite run_depth_iter. eapply iter_tick_finished; [exact H|].
  pose proof (pow2_ge d). lia.
Qed.

End Run.

(* the whole program *)
Section Program.
Variable fe : fenv.
Variable cfg : config.
Variable env : value.

Definition stop_is_locatable (r : result) : Prop :=
  match r with Stop EMachine l _ => l <> noloc | _ => True end.

Lemma run_compiled e :
  compilable e = true ->
  let C := compile (c_mapenv cfg) e in
  stop_is_locatable (eval fe cfg env [] e rs0) ->
  exists d0, forall d, d0 <= d -> run_code fe cfg env C d = Some (eval fe cfg env [] e rs0).
Proof.
  intros Hc C Hloc.
  pose proof (compile_correct fe cfg env C e Hc [] [] (cm_nil) 0) as H.
  assert (Hat : code_at C 0 (compile (c_mapenv cfg) e)).
  { exists [], []. split; [rewrite app_nil_r; reflexivity|reflexivity]. }
  specialize (H Hat [] rs0). cbn [app] in H. unfold run_code, init_state.
  destruct (eval fe cfg env [] e rs0) as [v r'|er l r'].
  - destruct (star_iter _ _ _ _ _ _ H) as [n Hn].
    exists (S n). intros d Hd.
    erewrite (finish_from fe cfg env C (n + 1) _ (Done v r')); [reflexivity| |lia].
    rewrite iter_tick_add, Hn. cbn [iter_tick]. unfold VM.tick. cbn [pc stk rs].
    replace (Nat.ltb (0 + csize (compile (c_mapenv cfg) e)) (csize C)) with false; [reflexivity|].
    symmetry. apply Nat.ltb_ge. subst C. lia.
  - destruct H as (s' & Hs & Hcr).
    destruct (star_iter _ _ _ _ _ _ Hs) as [n Hn].
    exists (S n). intros d Hd.
    erewrite (finish_from fe cfg env C (n + 1) _ (Stop er l r')); [reflexivity| |lia].
    rewrite iter_tick_add, Hn. cbn [iter_tick]. unfold VM.tick.
    destruct (step_crash_lt _ _ _ _ _ _ _ _ Hcr) as [[E1 E2]|Hlt].
    + subst. cbn in Hloc. contradiction.
    + apply Nat.ltb_lt in Hlt. rewrite Hlt, Hcr. reflexivity.
Qed.


(* the whole program including the result cast of Compile (AsInt64 / AsFloat64) *)
Lemma fetch_cast (e : expr) c t : 
  compile_program (c_mapenv cfg) c e = compile (c_mapenv cfg) e ++ [(ICast t, noloc)] ->
  fetch (compile_program (c_mapenv cfg) c e) (csize (compile (c_mapenv cfg) e)) = Some (ICast t, noloc).
Proof.
  intros H. rewrite H. replace (csize (compile (c_mapenv cfg) e)) with (csize (compile (c_mapenv cfg) e) + 0) by lia.
  rewrite fetch_app_skip. reflexivity.
Qed.

Theorem run_compiled_program e c :
  compilable e = true ->
  stop_is_locatable (eval fe cfg env [] e rs0) ->
  exists d0, forall d, d0 <= d ->
    run_code fe cfg env (compile_program (c_mapenv cfg) c e) d = Some (run_ref fe cfg env c e).
Proof.
  intros Hc Hloc. set (C := compile_program (c_mapenv cfg) c e).
  pose proof (compile_correct fe cfg env C e Hc [] [] (cm_nil) 0) as H.
  assert (Hat : code_at C 0 (compile (c_mapenv cfg) e)).
  { exists [], (match c with CastNone => [] | CastInt64 => [(ICast 0%Z, noloc)] | CastFloat64 => [(ICast 1%Z, noloc)] end).
    split; reflexivity. }
  specialize (H Hat [] rs0). cbn [app] in H. unfold run_code, init_state, run_ref.
  destruct (eval fe cfg env [] e rs0) as [v r'|er l r']; cbn [rbind].
  2: { destruct H as (s' & Hs & Hcr). destruct (star_iter _ _ _ _ _ _ Hs) as [n Hn].
       exists (S n). intros d Hd.
       erewrite (finish_from fe cfg env C (n + 1) _ (Stop er l r')); [reflexivity| |lia].
       rewrite iter_tick_add, Hn. cbn [iter_tick]. unfold VM.tick.
       destruct (step_crash_lt _ _ _ _ _ _ _ _ Hcr) as [[E1 E2]|Hlt].
       - subst. cbn in Hloc. contradiction.
       - apply Nat.ltb_lt in Hlt. rewrite Hlt, Hcr. reflexivity. }
  destruct (star_iter _ _ _ _ _ _ H) as [n Hn]. cbn [plus] in Hn.
  destruct c.
  - (* no cast *)
    exists (S n). intros d Hd.
    erewrite (finish_from fe cfg env C (n + 1) _ (Done v r')); [reflexivity| |lia].
    rewrite iter_tick_add, Hn. cbn [iter_tick]. unfold VM.tick. cbn [pc stk rs].
    replace (Nat.ltb (csize (compile (c_mapenv cfg) e)) (csize C)) with false; [reflexivity|].
    symmetry. apply Nat.ltb_ge. subst C. unfold compile_program. rewrite csize_app. cbn. lia.
  - (* int64 *)
    assert (F : fetch C (csize (compile (c_mapenv cfg) e)) = Some (ICast 0%Z, noloc)) by (apply fetch_cast; reflexivity).
    assert (Lt : Nat.ltb (csize (compile (c_mapenv cfg) e)) (csize C) = true).
    { apply Nat.ltb_lt. subst C. unfold compile_program. rewrite csize_app. cbn. lia. }
    destruct (to_int64 v) as [w|er] eqn:Ec; cbn [lift].
    + exists (S (S n)). intros d Hd.
      erewrite (finish_from fe cfg env C (n + 2) _ (Done w r')); [reflexivity| |lia].
      rewrite iter_tick_add, Hn. cbn [iter_tick]. unfold VM.tick at 1. cbn [pc]. rewrite Lt.
      unfold VM.step. cbn [pc stk scs rs]. rewrite F. cbn. rewrite Ec.
      unfold VM.tick. cbn [pc stk rs].
      replace (Nat.ltb (csize (compile (c_mapenv cfg) e) + 3) (csize C)) with false; [reflexivity|].
      symmetry. apply Nat.ltb_ge. subst C. unfold compile_program. rewrite csize_app. cbn. lia.
    + exists (S n). intros d Hd.
      erewrite (finish_from fe cfg env C (n + 1) _ (Stop er noloc r')); [reflexivity| |lia].
      rewrite iter_tick_add, Hn. cbn [iter_tick]. unfold VM.tick. cbn [pc]. rewrite Lt.
      unfold VM.step. cbn [pc stk scs rs]. rewrite F. cbn. rewrite Ec. reflexivity.
  - (* float64 *)
    assert (F : fetch C (csize (compile (c_mapenv cfg) e)) = Some (ICast 1%Z, noloc)) by (apply fetch_cast; reflexivity).
    assert (Lt : Nat.ltb (csize (compile (c_mapenv cfg) e)) (csize C) = true).
    { apply Nat.ltb_lt. subst C. unfold compile_program. rewrite csize_app. cbn. lia. }
    destruct (to_float64 v) as [w|er] eqn:Ec; cbn [lift].
    + exists (S (S n)). intros d Hd.
      erewrite (finish_from fe cfg env C (n + 2) _ (Done (VNum (NFlt KF64 w)) r')); [reflexivity| |lia].
      rewrite iter_tick_add, Hn. cbn [iter_tick]. unfold VM.tick at 1. cbn [pc]. rewrite Lt.
      unfold VM.step. cbn [pc stk scs rs]. rewrite F. cbn. rewrite Ec.
      unfold VM.tick. cbn [pc stk rs].
      replace (Nat.ltb (csize (compile (c_mapenv cfg) e) + 3) (csize C)) with false; [reflexivity|].
      symmetry. apply Nat.ltb_ge. subst C. unfold compile_program. rewrite csize_app. cbn. lia.
    + exists (S n). intros d Hd.
      erewrite (finish_from fe cfg env C (n + 1) _ (Stop er noloc r')); [reflexivity| |lia].
      rewrite iter_tick_add, Hn. cbn [iter_tick]. unfold VM.tick. cbn [pc]. rewrite Lt.
      unfold VM.step. cbn [pc stk scs rs]. rewrite F. cbn. rewrite Ec. reflexivity.
Qed.

End Program.

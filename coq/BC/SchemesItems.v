(* BC/SchemesItems.v — the scheme interpreter of BC/Schemes.v instantiated for assembler items
   (BC/Assemble.v): an emitted instruction is an AIns item, a makeConstant call whose result is kept in a
   variable ahead of its use (SLet) is an AConst item, sizes are the byte sizes of the instructions.
   The interpretation of the regenerated schemes then fixes the ORDER of the makeConstant calls, i.e.
   the numbering of the constant pool, against BC/Assemble.compile_items.   No proofs here. *)
From Coq Require Import ZArith Bool List String Arith.
Require Import X.Base.Num X.Base.Value X.Syn.Ast X.Sem.Prim X.Sem.Sem X.BC.Instr X.BC.Decode X.BC.Compiler
               X.BC.Assemble X.BC.Schemes.
Import ListNotations.
Local Open Scope nat_scope.
Local Open Scope list_scope.

Definition interp_items (G : schemes) (rec : expr -> option (list aitem)) : bool -> expr -> option (list aitem) :=
  interp aitem isz AIns (fun c => [AConst c]) G rec.

Definition interp_program_items (G : schemes) (rec : expr -> option (list aitem))
  : bool -> cast -> expr -> option (list aitem) :=
  interp_program aitem isz AIns (fun c => [AConst c]) G rec.

(* compile_items with the pair as a node of its own (see compile_node in BC/Schemes.v) *)
Definition items_node (mapenv : bool) (e : expr) : list aitem :=
  match e with
  | EPair _ k v => compile_items mapenv k ++ compile_items mapenv v
  | _ => compile_items mapenv e
  end.

Fixpoint gen_items (G : schemes) (depth : nat) (mapenv : bool) (e : expr) : option (list aitem) :=
  match depth with
  | O => None
  | S d => interp_items G (gen_items G d mapenv) mapenv e
  end.

Definition gen_items_program (G : schemes) (depth : nat) (mapenv : bool) (c : cast) (e : expr) : option (list aitem) :=
  interp_program_items G (gen_items G depth mapenv) mapenv c e.

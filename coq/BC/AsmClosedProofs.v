(* BC/AsmClosedProofs.v — the jump check of the verifier (jumps_ok, BC/Decode.v) on the code of an item list
   implies that every forward jump of the list is patched (fwd_closed, BC/Assemble.v); in particular the item
   list of every compilable expression is fwd_closed. *)
From Coq Require Import ZArith Bool List String Arith Lia.
Require Import X.Base.Num X.Base.Value X.Syn.Ast X.BC.Instr X.BC.Compiler X.BC.Decode X.BC.Verify
               X.BC.Assemble X.BC.AssembleProofs.
Import ListNotations.
Local Open Scope list_scope.
Local Open Scope Z_scope.

Lemma item_size_ins i l : item_size (AIns i l) = Z.of_nat (isize i).
Proof.
  cbn [item_size]. destruct (ioperand i) eqn:E.
  - rewrite (isize_noarg i E). reflexivity.
  - rewrite (isize_arg i); [reflexivity|congruence].
  - rewrite (isize_arg i); [reflexivity|congruence].
  - rewrite (isize_arg i); [reflexivity|congruence].
  - rewrite (isize_arg i); [reflexivity|congruence].
Qed.

(* a boundary of the code of an item list is one of the byte positions at which an item starts, or the end *)
Lemma boundary_in_boundaries : forall its base q,
  boundary (items_code its) q = true -> In (base + Z.of_nat q) (boundaries its base).
Proof.
  induction its as [|it r IH]; intros base q H.
  - cbn [items_code boundary] in H. apply Nat.eqb_eq in H. subst q. cbn [boundaries]. left. cbn. lia.
  - destruct it as [i l|c].
    + cbn [items_code boundary] in H. cbn [boundaries].
      destruct (Nat.eqb q 0) eqn:Eq.
      * apply Nat.eqb_eq in Eq. subst q. left. cbn. lia.
      * destruct (Nat.ltb q (isize i)) eqn:El; [discriminate|].
        apply Nat.ltb_ge in El. right.
        specialize (IH (base + item_size (AIns i l)) _ H).
        rewrite item_size_ins in *.
        replace (base + Z.of_nat q) with (base + Z.of_nat (isize i) + Z.of_nat (q - isize i)) by lia.
        exact IH.
    + cbn [items_code] in H. cbn [boundaries item_size]. right.
      specialize (IH (base + 0) _ H).
      replace (base + Z.of_nat q) with (base + 0 + Z.of_nat q) by lia. exact IH.
Qed.

Lemma existsb_eqb_in t l : In t l -> existsb (Z.eqb t) l = true.
Proof. intros H. apply existsb_exists. exists t. split; [exact H|apply Z.eqb_refl]. Qed.

Lemma fwd_closed_from : forall rest C pos,
  (forall q, boundary C (pos + q)%nat = true -> boundary (items_code rest) q = true) ->
  jumps_ok_from C pos (items_code rest) = true ->
  fwd_closed rest (Z.of_nat pos) = true.
Proof.
  induction rest as [|it r IH]; intros C pos HB HJ; [reflexivity|].
  destruct it as [i l|c].
  - cbn [items_code jumps_ok_from] in HJ. apply andb_prop in HJ. destruct HJ as [Hh Ht].
    assert (Hr : fwd_closed r (Z.of_nat pos + item_size (AIns i l)) = true).
    { rewrite item_size_ins. rewrite <- Nat2Z.inj_add. apply (IH C); [|exact Ht].
      intros q Hq. replace (pos + isize i + q)%nat with (pos + (isize i + q))%nat in Hq by lia.
      apply HB in Hq. cbn [items_code boundary] in Hq.
      pose proof (isize_pos i) as Hp.
      destruct (Nat.eqb (isize i + q) 0) eqn:E0; [apply Nat.eqb_eq in E0; lia|].
      destruct (Nat.ltb (isize i + q) (isize i)) eqn:E1; [apply Nat.ltb_lt in E1; lia|].
      replace (isize i + q - isize i)%nat with q in Hq by lia. exact Hq. }
    cbn [fwd_closed]. rewrite Hr, andb_true_r.
    (* the head: only the three forward jumps demand something *)
    assert (Hfw : forall o, isize i = 3%nat -> boundary C (pos + isize i + o)%nat = true ->
                  existsb (Z.eqb (Z.of_nat pos + 3 + Z.of_nat o))
                          (boundaries r (Z.of_nat pos + item_size (AIns i l))) = true).
    { intros o Hs Hb. apply existsb_eqb_in.
      replace (pos + isize i + o)%nat with (pos + (isize i + o))%nat in Hb by lia.
      apply HB in Hb. cbn [items_code boundary] in Hb. rewrite Hs in Hb.
      replace (Nat.eqb (3 + o) 0) with false in Hb by (symmetry; apply Nat.eqb_neq; lia).
      replace (Nat.ltb (3 + o) 3) with false in Hb by (symmetry; apply Nat.ltb_ge; lia).
      replace (3 + o - 3)%nat with o in Hb by lia.
      rewrite item_size_ins, Hs.
      apply (boundary_in_boundaries r (Z.of_nat pos + Z.of_nat 3) o Hb). }
    destruct i; cbn [ioperand is_backward orb]; try reflexivity.
    + apply Hfw; [reflexivity|exact Hh].
    + apply Hfw; [reflexivity|exact Hh].
    + apply Hfw; [reflexivity|exact Hh].
    + destruct ((t =? 0) || (t =? 1)); reflexivity.
  - cbn [items_code] in HJ, HB. cbn [fwd_closed item_size andb].
    replace (Z.of_nat pos + 0) with (Z.of_nat pos) by lia.
    apply (IH C); assumption.
Qed.

Theorem jumps_ok_fwd_closed : forall its, jumps_ok (items_code its) = true -> fwd_closed its 0 = true.
Proof.
  intros its H. unfold jumps_ok in H.
  apply (fwd_closed_from its (items_code its) 0%nat); [|exact H].
  intros q Hq. exact Hq.
Qed.

Theorem compiled_items_fwd_closed : forall mapenv c e,
  compilable e = true -> fwd_closed (compile_items_program mapenv c e) 0 = true.
Proof.
  intros mapenv c e Hc. apply jumps_ok_fwd_closed.
  rewrite items_code_compile_program. apply compile_program_wf. exact Hc.
Qed.

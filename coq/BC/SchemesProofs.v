(* BC/SchemesProofs.v — lemmas about the scheme interpreter of BC/Schemes.v that do not depend on the
   regenerated table gen/GenSchemes.v (the per-node bridge lemmas are in Bridge/BrSchemes.v). *)
From Coq Require Import ZArith Bool List String Arith Lia.
Require Import X.Base.Num X.Base.Value X.Syn.Ast X.Sem.Prim X.Sem.Sem X.BC.Instr X.BC.Decode X.BC.Compiler
               X.BC.Schemes.
Import ListNotations.
Local Open Scope nat_scope.
Local Open Scope string_scope.
Local Open Scope list_scope.

(* ------------------------------------------------------------------ kinds *)
Lemma kind_eqb_eq a b : kind_eqb a b = true <-> a = b.
Proof. destruct a, b; cbn; split; intros H; try reflexivity; discriminate H. Qed.

Lemma rkind_eqb_eq a b : rkind_eqb a b = true <-> a = b.
Proof.
  destruct a, b; cbn [rkind_eqb]; split; intros H; try reflexivity; try discriminate H.
  - apply kind_eqb_eq in H. subst. reflexivity.
  - injection H as H. apply kind_eqb_eq. exact H.
Qed.

Lemma rkind_eqb_refl a : rkind_eqb a a = true.
Proof. apply rkind_eqb_eq. reflexivity. Qed.

(* `l == r && l == reflect.K` of BinaryNode against both_kind of BC/Compiler.binop_code *)
Lemma both_kind_same k l r : kind_of l = kind_of r -> both_kind k l r = rkind_eqb (kind_of l) k.
Proof. unfold both_kind. intros E. rewrite <- E. destruct (rkind_eqb (kind_of l) k); reflexivity. Qed.

Lemma both_kind_diff k l r : rkind_eqb (kind_of l) (kind_of r) = false -> both_kind k l r = false.
Proof.
  unfold both_kind. intros E.
  destruct (rkind_eqb (kind_of l) k) eqn:E1; [|reflexivity].
  destruct (rkind_eqb (kind_of r) k) eqn:E2; [|reflexivity].
  apply rkind_eqb_eq in E1. apply rkind_eqb_eq in E2. rewrite E1, E2, rkind_eqb_refl in E. discriminate E.
Qed.

(* ------------------------------------------------------------------ sizes, compilable *)
Lemma lsize_fix l :
  (fix lsize (l : list expr) : nat := match l with [] => 0 | x :: r => esize x + lsize r end) l = lsize l.
Proof. induction l as [|x l IH]; cbn; auto. Qed.

Lemma in_lsize_le x l : In x l -> esize x <= lsize l.
Proof.
  induction l as [|y l IH]; cbn [lsize In]; intros H; [contradiction|].
  destruct H as [H|H]; subst; [lia|specialize (IH H); lia].
Qed.

Lemma all_compilable l :
  (fix all_c (es : list expr) : bool := match es with [] => true | x :: r => compilable x && all_c r end) l = true ->
  forall x, In x l -> compilable x = true.
Proof.
  induction l as [|y l IH]; intros H x Hin; [contradiction|].
  apply andb_prop in H. destruct H as [H1 H2]. destruct Hin as [E|E]; subst; auto.
Qed.

Lemma all_pairs_compilable l :
  (fix all_p (ps : list expr) : bool :=
     match ps with
     | [] => true
     | EPair _ k v :: r => compilable k && compilable v && all_p r
     | _ :: _ => false
     end) l = true ->
  forall x, In x l -> node_compilable x = true /\ match x with EPair _ _ _ => True | _ => False end.
Proof.
  induction l as [|y l IH]; intros H x Hin; [contradiction|]. destruct Hin as [E|E]; subst.
  - destruct x; try discriminate H. apply andb_prop in H. destruct H as [H _]. split; [exact H|exact I].
  - destruct y; try discriminate H. apply andb_prop in H. destruct H as [_ H]. apply IH; auto.
Qed.

Lemma compile_node_compilable mapenv x : compilable x = true -> compile_node mapenv x = compile mapenv x.
Proof. destruct x; intros H; try reflexivity. discriminate H. Qed.

Lemma node_compilable_of x : compilable x = true -> node_compilable x = true.
Proof. destruct x; intros H; try exact H. discriminate H. Qed.

(* ------------------------------------------------------------------ c.compile over a []Node field *)
Section Each.
Variable rec : expr -> option code.
Variable mapenv : bool.

Lemma each_list es :
  (forall x, In x es -> rec x = Some (compile mapenv x)) ->
  each linstr rec es = Some (compile_list mapenv es).
Proof.
  induction es as [|x es IH]; intros H; [reflexivity|].
  cbn [each compile_list]. rewrite (H x (or_introl eq_refl)), IH; [reflexivity|].
  intros y Hy. apply H. right. exact Hy.
Qed.

Lemma each_pairs ps :
  (forall x, In x ps -> rec x = Some (compile_node mapenv x) /\ match x with EPair _ _ _ => True | _ => False end) ->
  each linstr rec ps = Some (compile_pairs mapenv ps).
Proof.
  induction ps as [|x ps IH]; intros H; [reflexivity|].
  destruct (H x (or_introl eq_refl)) as [Hx Px].
  cbn [each]. rewrite Hx, IH; [|intros y Hy; apply H; right; exact Hy].
  destruct x; try contradiction. cbn [compile_node compile_pairs]. rewrite app_assoc. reflexivity.
Qed.
End Each.

(* ------------------------------------------------------------------ instructions by name: the three readings agree *)
(* const_instr / jump_instr / raw_instr of BC/Schemes.v against the decoder's table (BC/Decode.v):
   the instruction the scheme interpreter makes for opcode name n and constant c is the one the
   decoder makes for that name and a pool index holding c. *)
Lemma const_instr_decodes n c i :
  const_instr n c = Some i ->
  match c with CCall _ sz => (0 <= sz)%Z | _ => True end ->
  operand_instr [c] n 0 = OpI i.
Proof.
  unfold const_instr, operand_instr, nth_const. cbn [Z.ltb Z.compare Z.to_nat nth_error].
  destruct c as [v|name sz|p].
  - destruct (String.eqb n "OpPush"); [intros H _; injection H as <-; reflexivity|].
    destruct v; try discriminate.
    repeat match goal with
           | |- context [if String.eqb n ?s then _ else _] =>
               destruct (String.eqb n s); [intros H _; injection H as <-; reflexivity|]
           end.
    discriminate.
  - intros H Hsz. assert (Hlt : (sz <? 0)%Z = false) by (apply Z.ltb_ge; exact Hsz).
    destruct (String.eqb n "OpPush") eqn:E0.
    { apply String.eqb_eq in E0. subst n. discriminate H. }
    repeat match goal with
           | |- context [if String.eqb n ?s then _ else _] =>
               let E := fresh "E" in
               destruct (String.eqb n s) eqn:E;
               [apply String.eqb_eq in E; subst n; cbn in H; try discriminate H|]
           end;
      try (rewrite Hlt; injection H as <-; reflexivity).
    repeat match type of H with
           | (if String.eqb n ?s then _ else _) = _ => destruct (String.eqb n s); [discriminate|]
           end.
    discriminate H.
  - intros H _.
    destruct (String.eqb n "OpMatchesConst") eqn:E; [|discriminate H].
    apply String.eqb_eq in E. subst n. injection H as <-. reflexivity.
Qed.

Lemma jump_instr_decodes n off i cs :
  jump_instr n off = Some i -> operand_instr cs n (Z.of_nat off) = OpI i.
Proof.
  unfold jump_instr. intros H.
  destruct (String.eqb n "OpJump") eqn:E1.
  { apply String.eqb_eq in E1. subst n. injection H as <-. unfold operand_instr. cbn. rewrite Nat2Z.id. reflexivity. }
  destruct (String.eqb n "OpJumpIfTrue") eqn:E2.
  { apply String.eqb_eq in E2. subst n. injection H as <-. unfold operand_instr. cbn. rewrite Nat2Z.id. reflexivity. }
  destruct (String.eqb n "OpJumpIfFalse") eqn:E3.
  { apply String.eqb_eq in E3. subst n. injection H as <-. unfold operand_instr. cbn. rewrite Nat2Z.id. reflexivity. }
  destruct (String.eqb n "OpJumpBackward") eqn:E4; [|discriminate H].
  apply String.eqb_eq in E4. subst n. injection H as <-. unfold operand_instr. cbn. rewrite Nat2Z.id. reflexivity.
Qed.

(* ------------------------------------------------------------------ the interpreter asks rec about children only *)
Lemma node_child_in e f y : node_child e f = Some y -> In y (children e).
Proof.
  destruct e; cbn [node_child children]; try discriminate;
    repeat match goal with
           | |- (if ?b then _ else _) = _ -> _ => destruct b
           end;
    intros H; try discriminate H; try (injection H as <-; cbn [In]; tauto).
  - (* slice: From *) subst. right. apply in_or_app. left. left. reflexivity.
  - (* slice: To *) subst. right. apply in_or_app. right. left. reflexivity.
Qed.

Lemma node_list_in e f l y : node_list e f = Some l -> In y l -> In y (children e).
Proof.
  destruct e; cbn [node_list children]; try discriminate;
    destruct (String.eqb f _); try discriminate; intros H; injection H as <-; intros Hy; try exact Hy.
  right. exact Hy.
Qed.

Lemma children_smaller e y : In y (children e) -> esize y < esize e.
Proof.
  destruct e; cbn [children esize In]; rewrite ?lsize_fix; intros H;
    repeat match goal with
           | H : _ \/ _ |- _ => destruct H as [H|H]
           | H : False |- _ => contradiction
           end; subst; try lia;
    try (pose proof (in_lsize_le _ _ H); lia).
  (* slice *)
  apply in_app_or in H. destruct H as [H|H].
  - destruct from; cbn [opt_list In] in H; [destruct H as [H|H]; [subst; lia|contradiction]|contradiction].
  - destruct to; cbn [opt_list In] in H; [destruct H as [H|H]; [subst|contradiction]|contradiction].
    destruct from; lia.
Qed.

Section Ext.
Variable T : Type.
Variable tsize : list T -> nat.
Variable mkI : instr -> loc -> T.
Variable mkC : const -> list T.
Variable G : schemes.
Variables rec1 rec2 : expr -> option (list T).
Variable P : expr -> Prop.
Hypothesis Hrec : forall y, P y -> rec1 y = rec2 y.

Definition ctx_in (x : ctx) : Prop :=
  (forall sl y, eval_slot x sl = Some y -> P y) /\
  (forall e f l y, x_node x = Some e -> node_list e f = Some l -> In y l -> P y).

Lemma each_ext l : (forall y, In y l -> P y) -> each T rec1 l = each T rec2 l.
Proof.
  induction l as [|y l IH]; intros H; [reflexivity|].
  cbn [each]. rewrite (Hrec y (H y (or_introl eq_refl))), IH; [reflexivity|].
  intros z Hz. apply H. right. exact Hz.
Qed.

Lemma exec1_ext x h s : ctx_in x -> exec1 T tsize G rec1 x h s = exec1 T tsize G rec2 x h s.
Proof.
  intros [Hs Hl]. destruct h as [op|op k|op v|op n|v k|v op|k|sl|f|op v|v|v|op v|c a b|on cases dflt|fn res body| | |v| |src]; try reflexivity.
  - (* SCompile *)
    cbn [exec1]. destruct (eval_slot x sl) as [e|] eqn:E; [|reflexivity].
    rewrite (Hrec e (Hs _ _ E)). reflexivity.
  - (* SCompileEach *)
    cbn [exec1]. destruct (x_node x) as [e|] eqn:E; [|reflexivity].
    destruct (node_list e f) as [l|] eqn:El; [|reflexivity].
    rewrite (each_ext l); [reflexivity|]. intros y Hy. exact (Hl e f l y eq_refl El Hy).
Qed.

Lemma ctx_in_param x c : ctx_in x -> ctx_in (with_param x c).
Proof.
  intros [Hs Hl]. split.
  - intros sl y H. apply (Hs sl y). destruct sl; exact H.
  - intros e f l y H. exact (Hl e f l y H).
Qed.

Lemma run_ext fuel : forall x clo ss s, ctx_in x ->
  run T tsize G rec1 fuel x clo ss s = run T tsize G rec2 fuel x clo ss s.
Proof.
  induction fuel as [|fuel IH]; intros x clo ss s Hx; destruct ss as [|h rest]; try reflexivity.
  cbn [run]. destruct (returned T s); [reflexivity|].
  assert (K : forall r, match r with Some s1 => run T tsize G rec1 fuel x clo rest s1 | None => None end
                      = match r with Some s1 => run T tsize G rec2 fuel x clo rest s1 | None => None end).
  { intros [s1|]; [apply IH; exact Hx|reflexivity]. }
  destruct h as [op|op k|op v|op n|v k|v op|k|sl|f|op v|v|v|op v|c a b|on cases dflt|fn res body| | |v| |src]; cbv beta iota zeta; try (rewrite (exec1_ext x _ s Hx); apply K).
  - (* SPush *)
    destruct (eval_carg x k) as [c|]; [|reflexivity].
    destruct (lookup "emitPush" (s_funcs G)) as [hs|]; [|reflexivity].
    rewrite (IH _ None hs _ (ctx_in_param x c Hx)).
    destruct (run T tsize G rec2 fuel (with_param x c) None hs (enter T s)); [apply K|reflexivity].
  - (* SIf *) destruct (eval_cond x c) as [[|]|]; try reflexivity; rewrite (IH x clo _ s Hx); apply K.
  - (* SSwitch *) destruct (select x on cases dflt) as [body|]; [|reflexivity]. rewrite (IH x clo _ s Hx). apply K.
  - (* SCallBody *)
    destruct (lookup fn (s_funcs G)) as [hs|]; [|reflexivity].
    rewrite (IH x _ hs _ Hx). destruct (run T tsize G rec2 fuel x (Some (Clo body clo)) hs (enter T s)); [apply K|reflexivity].
  - (* SBody *)
    destruct clo as [[body outer]|]; [|reflexivity]. destruct (envs T s) as [|henv cenvs]; [reflexivity|].
    rewrite (IH x outer body _ Hx).
    destruct (run T tsize G rec2 fuel x outer body _); [apply IH; exact Hx|reflexivity].
Qed.
End Ext.

(* rec1 and rec2 agree on the children of e: same result for e *)
Lemma interp_ext T tsize mkI mkC G (rec1 rec2 : expr -> option (list T)) mapenv e :
  (forall y, In y (children e) -> rec1 y = rec2 y) ->
  interp T tsize mkI mkC G rec1 mapenv e = interp T tsize mkI mkC G rec2 mapenv e.
Proof.
  intros H. unfold interp.
  destruct (lookup (nkind_name (nkind_of e)) (s_dispatch G)) as [m|]; [|reflexivity].
  destruct (lookup m (s_funcs G)) as [body|]; [|reflexivity].
  rewrite (run_ext T tsize G rec1 rec2 (fun y => In y (children e)) H); [reflexivity|].
  split.
  - intros sl y E. destruct sl as [f|f i|]; cbn in E.
    + eapply node_child_in; eauto.
    + destruct (node_list e f) as [l|] eqn:El; [|discriminate E].
      eapply node_list_in; eauto. eapply nth_error_In; eauto.
    + discriminate E.
  - intros e' f l y E El Hy. cbn in E. injection E as <-. eapply node_list_in; eauto.
Qed.

(* Compile's statements ask rec about the root only *)
Lemma interp_program_ext T tsize mkI mkC G (rec1 rec2 : expr -> option (list T)) mapenv c e :
  rec1 e = rec2 e ->
  interp_program T tsize mkI mkC G rec1 mapenv c e = interp_program T tsize mkI mkC G rec2 mapenv c e.
Proof.
  intros H. unfold interp_program.
  destruct (lookup "Compile" (s_funcs G)) as [body|]; [|reflexivity].
  rewrite (run_ext T tsize G rec1 rec2 (fun y => y = e)); [reflexivity| |].
  - intros y ->. exact H.
  - split.
    + intros sl y E. destruct sl as [f|f i|]; cbn in E; try discriminate E. injection E as <-. reflexivity.
    + intros e' f l y E. discriminate E.
Qed.

(* ------------------------------------------------------------------ the children of a compilable node *)
Lemma esize_positive e : 0 < esize e.
Proof. destruct e; cbn [esize]; lia. Qed.

Ltac split_andb :=
  repeat match goal with
         | H : _ && _ = true |- _ => apply andb_prop in H; destruct H
         end.

Ltac pick_child Hy :=
  cbn [In] in Hy;
  repeat (destruct Hy as [Hy|Hy]; [subst; apply node_compilable_of; assumption|]);
  try contradiction.

Lemma children_compilable e y : node_compilable e = true -> In y (children e) -> node_compilable y = true.
Proof.
  destruct e; cbn [node_compilable compilable children]; intros Hc Hy; try contradiction.
  - (* unary *) destruct op; try discriminate Hc; pick_child Hy.
  - (* binary *) destruct op; try discriminate Hc; split_andb; pick_child Hy.
  - (* matches *) split_andb; pick_child Hy.
  - (* property *) pick_child Hy.
  - (* index *) split_andb; pick_child Hy.
  - (* slice *)
    split_andb. destruct Hy as [Hy|Hy]; [subst; apply node_compilable_of; assumption|].
    apply in_app_or in Hy. destruct Hy as [Hy|Hy].
    + destruct from; cbn [opt_list] in Hy; pick_child Hy.
    + destruct to; cbn [opt_list] in Hy; pick_child Hy.
  - (* method *)
    split_andb. destruct Hy as [Hy|Hy]; [subst; apply node_compilable_of; assumption|].
    apply node_compilable_of. eapply all_compilable; eauto.
  - (* function *) apply node_compilable_of. eapply all_compilable; eauto.
  - (* builtin *)
    destruct b; destruct args as [|x [|c [|z more]]]; try discriminate Hc; split_andb; pick_child Hy.
  - (* closure *) pick_child Hy.
  - (* conditional *) split_andb; pick_child Hy.
  - (* array *) apply node_compilable_of. eapply all_compilable; eauto.
  - (* map *) eapply all_pairs_compilable; eauto.
  - (* pair *) split_andb; pick_child Hy.
Qed.

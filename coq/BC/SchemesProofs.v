(* BC/SchemesProofs.v — lemmas about the scheme interpreter of BC/Schemes.v that do not depend on the
   regenerated table gen/GenSchemes.v (the per-node bridge lemmas are in Bridge/BrSchemes.v). *)
From Coq Require Import ZArith Bool List String Arith Lia.
Require Import X.Base.Num X.Base.Value X.Syn.Ast X.Sem.Prim X.Sem.Sem X.BC.Instr X.BC.Decode X.BC.Compiler
               X.BC.Schemes.
Import ListNotations.
Local Open Scope nat_scope.
Local Open Scope string_scope.
Local Open Scope list_scope.

(* ------------------------------------------------------------------ kinds *)
Lemma kind_eqb_eq a b : kind_eqb a b = true <-> a = b.
Proof. destruct a, b; cbn; split; intros H; try reflexivity; discriminate H. Qed.

Lemma rkind_eqb_eq a b : rkind_eqb a b = true <-> a = b.
Proof.
  destruct a, b; cbn [rkind_eqb]; split; intros H; try reflexivity; try discriminate H.
  - apply kind_eqb_eq in H. subst. reflexivity.
  - injection H as H. apply kind_eqb_eq. exact H.
Qed.

Lemma rkind_eqb_refl a : rkind_eqb a a = true.
Proof. apply rkind_eqb_eq. reflexivity. Qed.

(* `l == r && l == reflect.K` of BinaryNode against both_kind of BC/Compiler.binop_code *)
Lemma both_kind_same k l r : kind_of l = kind_of r -> both_kind k l r = rkind_eqb (kind_of l) k.
Proof. unfold both_kind. intros E. rewrite <- E. destruct (rkind_eqb (kind_of l) k); reflexivity. Qed.

Lemma both_kind_diff k l r : rkind_eqb (kind_of l) (kind_of r) = false -> both_kind k l r = false.
Proof.
  unfold both_kind. intros E.
  destruct (rkind_eqb (kind_of l) k) eqn:E1; [|reflexivity].
  destruct (rkind_eqb (kind_of r) k) eqn:E2; [|reflexivity].
  apply rkind_eqb_eq in E1. apply rkind_eqb_eq in E2. rewrite E1, E2, rkind_eqb_refl in E. discriminate E.
Qed.

(* ------------------------------------------------------------------ sizes, compilable *)
Lemma lsize_fix l :
  (fix lsize (l : list expr) : nat := match l with [] => 0 | x :: r => esize x + lsize r end) l = lsize l.
Proof. induction l as [|x l IH]; cbn; auto. Qed.

Lemma in_lsize_le x l : In x l -> esize x <= lsize l.
Proof.
  induction l as [|y l IH]; cbn [lsize In]; intros H; [contradiction|].
  destruct H as [H|H]; subst; [lia|specialize (IH H); lia].
Qed.

Lemma all_compilable l :
  (fix all_c (es : list expr) : bool := match es with [] => true | x :: r => compilable x && all_c r end) l = true ->
  forall x, In x l -> compilable x = true.
Proof.
  induction l as [|y l IH]; intros H x Hin; [contradiction|].
  apply andb_prop in H. destruct H as [H1 H2]. destruct Hin as [E|E]; subst; auto.
Qed.

Lemma all_pairs_compilable l :
  (fix all_p (ps : list expr) : bool :=
     match ps with
     | [] => true
     | EPair _ k v :: r => compilable k && compilable v && all_p r
     | _ :: _ => false
     end) l = true ->
  forall x, In x l -> node_compilable x = true /\ match x with EPair _ _ _ => True | _ => False end.
Proof.
  induction l as [|y l IH]; intros H x Hin; [contradiction|]. destruct Hin as [E|E]; subst.
  - destruct x; try discriminate H. apply andb_prop in H. destruct H as [H _]. split; [exact H|exact I].
  - destruct y; try discriminate H. apply andb_prop in H. destruct H as [_ H]. apply IH; auto.
Qed.

Lemma compile_node_compilable mapenv x : compilable x = true -> compile_node mapenv x = compile mapenv x.
Proof. destruct x; intros H; try reflexivity. discriminate H. Qed.

Lemma node_compilable_of x : compilable x = true -> node_compilable x = true.
Proof. destruct x; intros H; try exact H. discriminate H. Qed.

(* ------------------------------------------------------------------ c.compile over a []Node field *)
Section Each.
Variable rec : expr -> option code.
Variable mapenv : bool.

Lemma each_list es :
  (forall x, In x es -> rec x = Some (compile mapenv x)) ->
  each linstr rec es = Some (compile_list mapenv es).
Proof.
  induction es as [|x es IH]; intros H; [reflexivity|].
  cbn [each compile_list]. rewrite (H x (or_introl eq_refl)), IH; [reflexivity|].
  intros y Hy. apply H. right. exact Hy.
Qed.

Lemma each_pairs ps :
  (forall x, In x ps -> rec x = Some (compile_node mapenv x) /\ match x with EPair _ _ _ => True | _ => False end) ->
  each linstr rec ps = Some (compile_pairs mapenv ps).
Proof.
  induction ps as [|x ps IH]; intros H; [reflexivity|].
  destruct (H x (or_introl eq_refl)) as [Hx Px].
  cbn [each]. rewrite Hx, IH; [|intros y Hy; apply H; right; exact Hy].
  destruct x; try contradiction. cbn [compile_node compile_pairs]. rewrite app_assoc. reflexivity.
Qed.
End Each.

(* ------------------------------------------------------------------ instructions by name: the three readings agree *)
(* const_instr / jump_instr / raw_instr of BC/Schemes.v against the decoder's table (BC/Decode.v):
   the instruction the scheme interpreter makes for opcode name n and constant c is the one the
   decoder makes for that name and a pool index holding c. *)
Lemma const_instr_decodes n c i :
  const_instr n c = Some i ->
  match c with CCall _ sz => (0 <= sz)%Z | _ => True end ->
  operand_instr [c] n 0 = OpI i.
Proof.
  unfold const_instr, operand_instr, nth_const. cbn [Z.ltb Z.compare Z.to_nat nth_error].
  destruct c as [v|name sz|p].
  - destruct (String.eqb n "OpPush"); [intros H _; injection H as <-; reflexivity|].
    destruct v; try discriminate.
    repeat match goal with
           | |- context [if String.eqb n ?s then _ else _] =>
               destruct (String.eqb n s); [intros H _; injection H as <-; reflexivity|]
           end.
    discriminate.
  - intros H Hsz. assert (Hlt : (sz <? 0)%Z = false) by (apply Z.ltb_ge; exact Hsz).
    destruct (String.eqb n "OpPush") eqn:E0.
    { apply String.eqb_eq in E0. subst n. discriminate H. }
    repeat match goal with
           | |- context [if String.eqb n ?s then _ else _] =>
               let E := fresh "E" in
               destruct (String.eqb n s) eqn:E;
               [apply String.eqb_eq in E; subst n; cbn in H; try discriminate H|]
           end;
      try (rewrite Hlt; injection H as <-; reflexivity).
    repeat match type of H with
           | (if String.eqb n ?s then _ else _) = _ => destruct (String.eqb n s); [discriminate|]
           end.
    discriminate H.
  - intros H _.
    destruct (String.eqb n "OpMatchesConst") eqn:E; [|discriminate H].
    apply String.eqb_eq in E. subst n. injection H as <-. reflexivity.
Qed.

Lemma jump_instr_decodes n off i cs :
  jump_instr n off = Some i -> operand_instr cs n (Z.of_nat off) = OpI i.
Proof.
  unfold jump_instr. intros H.
  destruct (String.eqb n "OpJump") eqn:E1.
  { apply String.eqb_eq in E1. subst n. injection H as <-. unfold operand_instr. cbn. rewrite Nat2Z.id. reflexivity. }
  destruct (String.eqb n "OpJumpIfTrue") eqn:E2.
  { apply String.eqb_eq in E2. subst n. injection H as <-. unfold operand_instr. cbn. rewrite Nat2Z.id. reflexivity. }
  destruct (String.eqb n "OpJumpIfFalse") eqn:E3.
  { apply String.eqb_eq in E3. subst n. injection H as <-. unfold operand_instr. cbn. rewrite Nat2Z.id. reflexivity. }
  destruct (String.eqb n "OpJumpBackward") eqn:E4; [|discriminate H].
  apply String.eqb_eq in E4. subst n. injection H as <-. unfold operand_instr. cbn. rewrite Nat2Z.id. reflexivity.
Qed.

(* BC/SemFacts.v — facts about the reference semantics used by C01 (short circuit, call traces) *)
From Coq Require Import ZArith Bool List String.
Require Import X.Base.Num X.Base.Value X.Syn.Ast X.Sem.Prim X.Sem.Sem X.BC.Instr X.BC.Compiler X.BC.VM X.BC.CompileProofs.
Import ListNotations.

Section Facts.
Variable fe : fenv.
Variable cfg : config.
Variable env : value.
Notation ev := (eval fe cfg env).

Lemma eval_or_true ctx a op l r s s1 : is_or op = true ->
  ev ctx l s = Done (VBool true) s1 -> ev ctx (EBinary a op l r) s = Done (VBool true) s1.
Proof. intros Hop H. destruct op; try discriminate; cbn [eval]; rewrite H; reflexivity. Qed.

Lemma eval_and_false ctx a op l r s s1 : is_and op = true ->
  ev ctx l s = Done (VBool false) s1 -> ev ctx (EBinary a op l r) s = Done (VBool false) s1.
Proof. intros Hop H. destruct op; try discriminate; cbn [eval]; rewrite H; reflexivity. Qed.

Lemma eval_cond_branch ctx a c x y s b s1 :
  ev ctx c s = Done (VBool b) s1 -> ev ctx (ECond a c x y) s = ev ctx (if b then x else y) s1.
Proof. intros H. cbn [eval]. rewrite H. cbn. destruct b; reflexivity. Qed.

Lemma do_call_trace l fast id recv vs s v s' :
  do_call fe l fast id recv vs s = Done v s' -> r_trace s' = r_trace s ++ [(id, vs)] /\ r_mem s' = r_mem s.
Proof.
  unfold do_call. destruct (fn_sig fe id) as [sg|]; [|destruct fast; discriminate].
  destruct fast.
  - destruct (s_fast sg); [|discriminate]. destruct (fn_run fe id recv vs); [|discriminate].
    intros H; inversion H; subst. split; reflexivity.
  - destruct (args_ok (s_ins sg) (s_variadic sg) vs); [|discriminate].
    destruct (fn_run fe id recv vs); [|discriminate].
    destruct (s_nout sg =? 0)%Z; [discriminate|]. intros H; inversion H; subst. split; reflexivity.
Qed.

Lemma eval_function_trace ctx a name args fast s v s' :
  ev ctx (EFunction a name args fast) s = Done v s' ->
  exists vs s1 id, evl fe cfg env ctx args s = LDone vs s1 /\
                   r_trace s' = r_trace s1 ++ [(id, vs)] /\ r_mem s' = r_mem s1.
Proof.
  rewrite eval_function_eq, eval_list_evl. destruct (evl fe cfg env ctx args s) as [vs s1|]; [|discriminate].
  destruct (fetch_fn fe env name) as [id|]; cbn [lift]; [|discriminate].
  intros H. apply do_call_trace in H. exists vs, s1, id. split; [reflexivity|exact H].
Qed.

End Facts.

(* BC/VMStepsProofs.v — facts about the interpreter of BC/VMSteps.v that do not depend on the
   regenerated terms: vm.ip arithmetic, 64-bit wrap-around inside the int range, the countdown loops
   that fill an argument vector / an array / a map against popn / pop_pairs of BC/VM.v, the
   decomposition of Sem.do_call into reflect's Call and out[0]. *)
From Coq Require Import ZArith Bool List String Arith Lia.
Require Import X.Base.Num X.Base.NumProofs X.Base.Value X.Sem.Prim X.Sem.Sem X.BC.Instr X.BC.Decode X.BC.VM X.BC.AssembleProofs
               X.BC.Assemble X.BC.VMSteps.
Import ListNotations.
Local Open Scope nat_scope.
Local Open Scope string_scope.
Local Open Scope list_scope.

(* ------------------------------------------------------------------ vm.ip *)
Lemma ip_add_nat ip off : ip_add ip (Z.of_nat off) = Some (ip + off).
Proof.
  unfold ip_add. destruct (Z.ltb_spec (Z.of_nat off) 0) as [H|H]; [lia|]. rewrite Nat2Z.id. reflexivity.
Qed.

Lemma ip_sub_nat ip off : ip_sub ip (Z.of_nat off) = if Nat.ltb ip off then None else Some (ip - off).
Proof.
  unfold ip_sub. destruct (Z.ltb_spec (Z.of_nat off) 0) as [H|H]; [lia|]. rewrite Nat2Z.id. reflexivity.
Qed.

(* ------------------------------------------------------------------ 64-bit ints *)
Lemma max_int_val : max_of KInt = 9223372036854775807%Z.
Proof. reflexivity. Qed.
Lemma min_int_val : min_of KInt = (-9223372036854775808)%Z.
Proof. reflexivity. Qed.

Lemma wrap_int_id z : (min_of KInt <= z <= max_of KInt)%Z -> wrap KInt z = z.
Proof.
  intros [H1 H2]. apply wrap_in_range; [reflexivity|].
  unfold in_range. apply andb_true_intro. split; apply Z.leb_le; assumption.
Qed.

Lemma wrap_int_range z : (min_of KInt <= wrap KInt z <= max_of KInt)%Z.
Proof.
  pose proof (wrap_range KInt z eq_refl) as H. unfold in_range in H. apply andb_prop in H.
  destruct H as [H1 H2]. apply Z.leb_le in H1. apply Z.leb_le in H2. split; assumption.
Qed.

(* x + 2^64 k wraps like x *)
Lemma wrap_int_shift z k : wrap KInt (z + k * 2 ^ 64) = wrap KInt z.
Proof.
  unfold wrap. cbn [is_signed width]. change (64 - 1)%Z with 63%Z.
  replace (z + k * 2 ^ 64 + 2 ^ 63)%Z with (z + 2 ^ 63 + k * 2 ^ 64)%Z by ring.
  rewrite Z.mod_add by lia. reflexivity.
Qed.

Lemma to_int_range v z : to_int v = Ok z -> (min_of KInt <= z <= max_of KInt)%Z.
Proof.
  unfold to_int. destruct v; try discriminate. destruct n as [k x|k f]; cbn [convert is_float].
  - intros H. inversion H. subst. apply wrap_int_range.
  - destruct (f_trunc f) as [t|]; try discriminate.
    destruct (in_range KInt t) eqn:E; try discriminate.
    intros H. inversion H. subst. unfold in_range in E. apply andb_prop in E. destruct E as [E1 E2].
    apply Z.leb_le in E1. apply Z.leb_le in E2. split; assumption.
Qed.

(* the count of `for i := n - 1; i >= 0; i--` *)
Lemma loop_count_Z n : (0 <= n <= max_of KInt)%Z -> Z.to_nat (wrap KInt (n - 1) + 1) = Z.to_nat n.
Proof.
  intros H. rewrite max_int_val in H. rewrite wrap_int_id by (rewrite min_int_val, max_int_val; lia).
  f_equal. lia.
Qed.

Lemma loop_count_nat n : (Z.of_nat n <= max_of KInt)%Z -> Z.to_nat (wrap KInt (Z.of_nat n - 1) + 1) = n.
Proof. intros H. rewrite loop_count_Z by lia. apply Nat2Z.id. Qed.

(* ------------------------------------------------------------------ lists *)
Lemma set_nth_length n x : forall l, List.length (set_nth n x l) = List.length l.
Proof. induction n as [|n IH]; intros [|y l]; cbn; auto. Qed.

Lemma skipn_set_nth x : forall n l, n < List.length l -> skipn n (set_nth n x l) = x :: skipn (S n) l.
Proof.
  induction n as [|n IH]; intros [|y l] H; cbn in *; try lia; auto.
  apply IH. lia.
Qed.

Lemma skipn_all2 {A} (l : list A) : skipn (List.length l) l = [].
Proof. induction l; cbn; auto. Qed.

Lemma popn_acc n : forall st acc,
  popn n st acc = match popn n st [] with Some (xs, st') => Some (xs ++ acc, st') | None => None end.
Proof.
  induction n as [|n IH]; intros st acc; cbn [popn]; [reflexivity|].
  destruct st as [|v st]; [reflexivity|].
  rewrite (IH st (v :: acc)), (IH st [v]).
  destruct (popn n st []) as [[xs st']|]; [|reflexivity].
  rewrite <- app_assoc. reflexivity.
Qed.

Lemma popn_none n : forall st acc, popn n st acc = None <-> List.length st < n.
Proof.
  induction n as [|n IH]; intros st acc; cbn [popn].
  - split; [discriminate|lia].
  - destruct st as [|v st]; cbn [List.length]; [split; [lia|reflexivity]|].
    rewrite IH. lia.
Qed.

Lemma popn_length n : forall st acc xs st', popn n st acc = Some (xs, st') -> List.length xs = n + List.length acc.
Proof.
  induction n as [|n IH]; intros st acc xs st' H; cbn [popn] in H.
  - inversion H. reflexivity.
  - destruct st as [|v st]; [discriminate|]. apply IH in H. cbn in H. lia.
Qed.

Lemma pop_pairs_acc n : forall st acc,
  pop_pairs n st acc = match pop_pairs n st [] with Some (xs, st') => Some (xs ++ acc, st') | None => None end.
Proof.
  induction n as [|n IH]; intros st acc; cbn [pop_pairs]; [reflexivity|].
  destruct st as [|v [|k st]]; try reflexivity.
  rewrite (IH st ((k, v) :: acc)), (IH st [(k, v)]).
  destruct (pop_pairs n st []) as [[xs st']|]; [|reflexivity].
  rewrite <- app_assoc. reflexivity.
Qed.

Lemma pop_pairs_some n : forall st acc, 2 * n <= List.length st -> pop_pairs n st acc <> None.
Proof.
  induction n as [|n IH]; intros st acc H; cbn [pop_pairs]; [discriminate|].
  destruct st as [|v [|k st]]; cbn [List.length] in H; try lia.
  apply IH. lia.
Qed.

Lemma keys_as_str_class kvs e : keys_as_str kvs = Fail e -> e = EIfaceConv.
Proof.
  revert e. induction kvs as [|[k v] r IH]; intros e; cbn [keys_as_str]; [discriminate|].
  destruct (keys_as_str r) as [r'|e'] eqn:E.
  - destruct k; cbn; intros H; inversion H; reflexivity.
  - intros H. inversion H. subst. apply IH. reflexivity.
Qed.

Lemma keys_as_str_snoc kvs k v :
  keys_as_str (kvs ++ [(k, v)]) =
  match as_str k with
  | Fail e => Fail e
  | Ok s => match keys_as_str kvs with Ok skvs => Ok (skvs ++ [(s, v)]) | Fail e => Fail e end
  end.
Proof.
  induction kvs as [|[k1 v1] r IH]; cbn [app keys_as_str].
  - destruct (as_str k); reflexivity.
  - rewrite IH. destruct (as_str k) as [s|e]; [|reflexivity].
    destruct (keys_as_str r) as [r'|e']; [|reflexivity].
    destruct (as_str k1); reflexivity.
Qed.

(* build_map onto a map that already has entries *)
Fixpoint build_onto (kvs : list (string * value)) (m0 : list (value * value)) : list (value * value) :=
  match kvs with
  | [] => m0
  | (k, v) :: r => map_put k v (build_onto r m0)
  end.

Lemma build_onto_nil kvs : build_onto kvs [] = build_map kvs.
Proof. induction kvs as [|[k v] r IH]; cbn; [reflexivity|]. rewrite IH. reflexivity. Qed.

Lemma build_onto_snoc kvs s v m0 : build_onto (kvs ++ [(s, v)]) m0 = build_onto kvs (map_put s v m0).
Proof. induction kvs as [|[k1 v1] r IH]; cbn; [reflexivity|]. rewrite IH. reflexivity. Qed.

(* ------------------------------------------------------------------ the countdown loops *)
(* a loop whose body pops one value into slot i of a local vector: the vector receives what popn pops *)
Section Fill.
Variable B : Z -> gst -> gres unit.
Variable E : list value -> list (nat * gval).      (* the locals as a function of the vector *)
Hypothesis HB : forall idx ip pp st sc m tr l, (0 <= idx < Z.of_nat (List.length l))%Z ->
  B idx (mkG ip pp st sc m tr (E l) None) =
  match st with
  | v :: st' => GOk tt (mkG ip pp st' sc m tr (E (set_nth (Z.to_nat idx) v l)) None)
  | [] => GPanic EMachine m tr
  end.

Lemma iter_fill : forall k ip pp st sc m tr l, k <= List.length l ->
  iter_down k B (mkG ip pp st sc m tr (E l) None) =
  match popn k st [] with
  | Some (xs, st') => GOk tt (mkG ip pp st' sc m tr (E (xs ++ skipn k l)) None)
  | None => GPanic EMachine m tr
  end.
Proof.
  induction k as [|k IH]; intros ip pp st sc m tr l Hk.
  - reflexivity.
  - cbn [iter_down]. rewrite HB by lia.
    destruct st as [|v st]; [reflexivity|].
    cbn [gbind g_ret]. rewrite Nat2Z.id.
    rewrite IH by (rewrite set_nth_length; lia).
    cbn [popn]. rewrite (popn_acc k st [v]).
    destruct (popn k st []) as [[xs st']|]; [|reflexivity].
    rewrite skipn_set_nth by lia. rewrite <- app_assoc. reflexivity.
Qed.
End Fill.

(* a loop whose body pops a value and a key and stores them into a local map *)
Section Pairs.
Variable B : Z -> gst -> gres unit.
Variable E : list (value * value) -> list (nat * gval).
Hypothesis HB : forall idx ip pp st sc m tr mp,
  B idx (mkG ip pp st sc m tr (E mp) None) =
  match st with
  | v :: k :: st' =>
      match as_str k with
      | Ok s => GOk tt (mkG ip pp st' sc m tr (E (map_put s v mp)) None)
      | Fail e => GPanic e m tr
      end
  | _ => GPanic EMachine m tr
  end.

Lemma iter_pairs : forall k ip pp st sc m tr mp, 2 * k <= List.length st ->
  iter_down k B (mkG ip pp st sc m tr (E mp) None) =
  match pop_pairs k st [] with
  | Some (kvs, st') =>
      match keys_as_str kvs with
      | Ok skvs => GOk tt (mkG ip pp st' sc m tr (E (build_onto skvs mp)) None)
      | Fail e => GPanic e m tr
      end
  | None => GPanic EMachine m tr
  end.
Proof.
  induction k as [|k IH]; intros ip pp st sc m tr mp Hk.
  - reflexivity.
  - cbn [iter_down]. rewrite HB.
    destruct st as [|v [|ky st]]; cbn [List.length] in Hk; try lia.
    cbn [pop_pairs]. rewrite (pop_pairs_acc k st [(ky, v)]).
    destruct (as_str ky) as [s|e] eqn:Ek.
    + cbn [gbind g_ret]. rewrite IH by lia.
      destruct (pop_pairs k st []) as [[kvs st']|]; [|reflexivity].
      rewrite keys_as_str_snoc, Ek.
      destruct (keys_as_str kvs) as [skvs|e]; [|reflexivity].
      rewrite build_onto_snoc. reflexivity.
    + cbn [gbind].
      destruct (pop_pairs k st []) as [[kvs st']|] eqn:Ep.
      * rewrite keys_as_str_snoc, Ek. reflexivity.
      * exfalso. exact (pop_pairs_some k st [] ltac:(lia) Ep).
Qed.
End Pairs.

(* ------------------------------------------------------------------ the machine's own slices *)
Lemma bounds_ok z n : (0 <= z < Z.of_nat n)%Z -> ((z <? 0)%Z || (Z.of_nat n <=? z)%Z) = false.
Proof.
  intros H. destruct (Z.ltb_spec z 0); [lia|]. destruct (Z.leb_spec (Z.of_nat n) z); [lia|]. reflexivity.
Qed.

(* x[:len(x)-1] drops the innermost element; on the empty slice it is a run-time failure *)
Lemma slice_to_scopes_pop sc0 r g : (Z.of_nat (S (List.length r)) <= max_of KInt)%Z ->
  slice_to (GScopes (sc0 :: r)) (GInt (wrap KInt (Z.of_nat (S (List.length r)) - 1))) g = GOk (GScopes r) g.
Proof.
  intros H. rewrite max_int_val in H.
  rewrite wrap_int_id by (rewrite min_int_val, max_int_val; lia).
  unfold slice_to. cbn [List.length].
  destruct (Z.ltb_spec (Z.of_nat (S (List.length r)) - 1) 0); [lia|].
  destruct (Z.ltb_spec (Z.of_nat (S (List.length r))) (Z.of_nat (S (List.length r)) - 1)); [lia|].
  cbn [orb]. replace (S (List.length r) - Z.to_nat (Z.of_nat (S (List.length r)) - 1)) with 1 by lia.
  reflexivity.
Qed.

Lemma slice_to_scopes_nil g :
  slice_to (GScopes []) (GInt (wrap KInt (Z.of_nat 0 - 1))) g = GPanic EMachine (g_mem g) (g_tr g).
Proof. reflexivity. Qed.

Lemma slice_to_stack_pop v r g : (Z.of_nat (S (List.length r)) <= max_of KInt)%Z ->
  slice_to (GStack (v :: r)) (GInt (wrap KInt (Z.of_nat (S (List.length r)) - 1))) g = GOk (GStack r) g.
Proof.
  intros H. rewrite max_int_val in H.
  rewrite wrap_int_id by (rewrite min_int_val, max_int_val; lia).
  unfold slice_to. cbn [List.length].
  destruct (Z.ltb_spec (Z.of_nat (S (List.length r)) - 1) 0); [lia|].
  destruct (Z.ltb_spec (Z.of_nat (S (List.length r))) (Z.of_nat (S (List.length r)) - 1)); [lia|].
  cbn [orb]. replace (S (List.length r) - Z.to_nat (Z.of_nat (S (List.length r)) - 1)) with 1 by lia.
  reflexivity.
Qed.

Lemma as_int_inv v n : as_int v = Ok n -> v = VNum (NInt KInt n).
Proof.
  destruct v; try discriminate. destruct n0 as [k z|k f]; try discriminate.
  destruct k; try discriminate. intros H. inversion H. reflexivity.
Qed.

Lemma in_range_int z : in_range KInt z = true -> (min_of KInt <= z <= max_of KInt)%Z.
Proof.
  unfold in_range. intros H. apply andb_prop in H. destruct H as [H1 H2].
  apply Z.leb_le in H1. apply Z.leb_le in H2. split; assumption.
Qed.

Lemma skipn_repeat_all {A} (x : A) n : skipn n (repeat x n) = [].
Proof. induction n; cbn; auto. Qed.

Lemma wrap_int_eqm a : exists k, wrap KInt a = (a + k * 2 ^ 64)%Z.
Proof.
  unfold wrap. cbn [is_signed width]. change (64 - 1)%Z with 63%Z.
  exists (- ((a + 2 ^ 63) / 2 ^ 64))%Z. rewrite Z.mod_eq by lia. ring.
Qed.

Lemma wrap_int_add_l a b : wrap KInt (wrap KInt a + b) = wrap KInt (a + b).
Proof.
  destruct (wrap_int_eqm a) as [k Hk]. rewrite Hk.
  replace (a + k * 2 ^ 64 + b)%Z with (a + b + k * 2 ^ 64)%Z by ring. apply wrap_int_shift.
Qed.

(* one step above the range comes back from the bottom *)
Lemma wrap_int_high z : (max_of KInt < z <= max_of KInt + 2 ^ 64)%Z -> wrap KInt z = (z - 2 ^ 64)%Z.
Proof.
  intros H. rewrite max_int_val in H.
  replace z with (z - 2 ^ 64 + 1 * 2 ^ 64)%Z at 1 by ring. rewrite wrap_int_shift.
  apply wrap_int_id. rewrite min_int_val, max_int_val. lia.
Qed.

(* x[0:0] empties *)
Lemma slice_to_stack_zero l g : slice_to (GStack l) (GInt 0) g = GOk (GStack []) g.
Proof.
  unfold slice_to. change (0 <? 0)%Z with false.
  destruct (Z.ltb_spec (Z.of_nat (List.length l)) 0); [lia|]. cbn [orb].
  change (Z.to_nat 0) with 0. rewrite Nat.sub_0_r, skipn_all2. reflexivity.
Qed.

Lemma slice_to_scopes_zero l g : slice_to (GScopes l) (GInt 0) g = GOk (GScopes []) g.
Proof.
  unfold slice_to. change (0 <? 0)%Z with false.
  destruct (Z.ltb_spec (Z.of_nat (List.length l)) 0); [lia|]. cbn [orb].
  change (Z.to_nat 0) with 0. rewrite Nat.sub_0_r, skipn_all2. reflexivity.
Qed.

(* x[len(x)-1] is the innermost element *)
Lemma index_stack_top bytes v r g : (Z.of_nat (S (List.length r)) <= max_of KInt)%Z ->
  gindex bytes (GStack (v :: r)) (GInt (wrap KInt (Z.of_nat (S (List.length r)) - 1))) g = GOk (GIface v) g.
Proof.
  intros H. rewrite max_int_val in H.
  rewrite wrap_int_id by (rewrite min_int_val, max_int_val; lia).
  unfold gindex. cbn [List.length].
  destruct (Z.ltb_spec (Z.of_nat (S (List.length r)) - 1) 0); [lia|].
  destruct (Z.leb_spec (Z.of_nat (S (List.length r))) (Z.of_nat (S (List.length r)) - 1)); [lia|].
  cbn [orb]. replace (S (List.length r) - 1 - Z.to_nat (Z.of_nat (S (List.length r)) - 1)) with 0 by lia.
  reflexivity.
Qed.

Lemma index_scopes_top bytes sc0 r g : (Z.of_nat (S (List.length r)) <= max_of KInt)%Z ->
  gindex bytes (GScopes (sc0 :: r)) (GInt (wrap KInt (Z.of_nat (S (List.length r)) - 1))) g = GOk (GScopeVal sc0) g.
Proof.
  intros H. rewrite max_int_val in H.
  rewrite wrap_int_id by (rewrite min_int_val, max_int_val; lia).
  unfold gindex. cbn [List.length].
  destruct (Z.ltb_spec (Z.of_nat (S (List.length r)) - 1) 0); [lia|].
  destruct (Z.leb_spec (Z.of_nat (S (List.length r))) (Z.of_nat (S (List.length r)) - 1)); [lia|].
  cbn [orb]. replace (S (List.length r) - 1 - Z.to_nat (Z.of_nat (S (List.length r)) - 1)) with 0 by lia.
  reflexivity.
Qed.

(* ------------------------------------------------------------------ the opcode bytes of an IR code *)
Lemma ir_bytes_length C : List.length (ir_bytes C) = csize C.
Proof.
  induction C as [|[i l] r IH]; cbn [ir_bytes csize List.length]; [reflexivity|].
  rewrite app_length, repeat_length, IH. pose proof (isize_pos i). lia.
Qed.

Lemma ir_bytes_fetch : forall C p i l, fetch C p = Some (i, l) -> nth_error (ir_bytes C) p = Some (opbyte i).
Proof.
  induction C as [|[i0 l0] r IH]; intros p i l H; cbn [fetch] in H; [discriminate|].
  destruct (Nat.eqb p 0) eqn:E0.
  - apply Nat.eqb_eq in E0. subst p. inversion H. subst. reflexivity.
  - apply Nat.eqb_neq in E0.
    destruct (Nat.ltb p (isize i0)) eqn:E1; [discriminate|]. apply Nat.ltb_ge in E1. apply IH in H.
    cbn [ir_bytes]. destruct p as [|p]; [lia|]. cbn [nth_error].
    rewrite nth_error_app2 by (rewrite repeat_length; lia). rewrite repeat_length.
    pose proof (isize_pos i0). replace (p - (isize i0 - 1)) with (S p - isize i0) by lia. exact H.
Qed.

Lemma opbyte_name i : opname (opbyte i) = Some (iname i).
Proof.
  unfold opbyte. destruct (X.BC.AssembleProofs.opcode_total i) as [b Hb]. rewrite Hb.
  apply X.BC.AssembleProofs.opname_of. exact Hb.
Qed.

Lemma fetch_in_code : forall C p x, fetch C p = Some x -> p < csize C.
Proof.
  induction C as [|[i0 l0] r IH]; intros p x H; cbn [fetch] in H; [discriminate|]. cbn [csize].
  pose proof (isize_pos i0).
  destruct (Nat.eqb p 0) eqn:E0; [apply Nat.eqb_eq in E0; lia|].
  destruct (Nat.ltb p (isize i0)) eqn:E1; [discriminate|]. apply Nat.ltb_ge in E1. apply IH in H. lia.
Qed.

(* ------------------------------------------------------------------ uint16(b0) | uint16(b1)<<8 *)
Local Open Scope Z_scope.
Lemma lor_bytes b0 b1 : (0 <= b0 < 256)%Z -> (0 <= b1 < 256)%Z ->
  Z.lor b0 ((b1 * 2 ^ 8) mod 65536) = (b0 + 256 * b1)%Z.
Proof.
  intros H0 H1. rewrite Z.mod_small by lia.
  assert (L : Z.land b0 (b1 * 2 ^ 8) = 0).
  { apply Z.bits_inj'. intros n Hn. rewrite Z.land_spec, Z.bits_0.
    destruct (Z.ltb_spec n 8) as [Hlt|Hge].
    - rewrite Z.mul_pow2_bits_low by lia. apply Bool.andb_false_r.
    - assert (T : Z.testbit b0 n = false).
      { destruct (Z.eq_dec b0 0) as [->|Hz]; [apply Z.bits_0|].
        apply Z.bits_above_log2; [lia|]. assert (Z.log2 b0 < 8) by (apply Z.log2_lt_pow2; lia). lia. }
      rewrite T. reflexivity. }
  rewrite <- Z.lxor_lor by exact L. rewrite <- Z.add_nocarry_lxor by exact L. lia.
Qed.
Local Close Scope Z_scope.

(* ------------------------------------------------------------------ decoded instructions *)
Lemma simple_instr_name n i : simple_instr n = Some i -> iname i = n /\ isize i = 1 /\ view_of i = VwNone.
Proof.
  unfold simple_instr. intros H.
  repeat (match type of H with
          | context [String.eqb n ?lit] =>
              let E := fresh "E" in destruct (String.eqb n lit) eqn:E;
              [apply String.eqb_eq in E; subst n; inversion H; repeat split; reflexivity|]
          end).
  discriminate H.
Qed.

Lemma operand_instr_name cs n k i : (0 <= k)%Z -> operand_instr cs n k = OpI i ->
  iname i = n /\ isize i = 3 /\ view_describes cs k i.
Proof.
  unfold operand_instr. intros Hk H.
  repeat (match type of H with
          | context [String.eqb n ?lit] =>
              let E := fresh "E" in destruct (String.eqb n lit) eqn:E;
              [apply String.eqb_eq in E; subst n;
               unfold view_describes;
               try (destruct (nth_const cs k) as [[v|name sz|p]|] eqn:N; try discriminate H);
               try (destruct v; try discriminate H);
               try (destruct (sz <? 0)%Z eqn:S; [discriminate H|apply Z.ltb_ge in S]);
               try (destruct ((k =? 0) || (k =? 1))%Z; try discriminate H);
               inversion H; subst; cbn [view_of iname isize]; unfold call_const, str_const;
               rewrite ?Z2Nat.id by lia;
               (split; [reflexivity|split; [reflexivity|]]);
               first [ reflexivity
                     | eexists; split; [reflexivity|split; [reflexivity|first [left; reflexivity | right; eexists; reflexivity]]] ]
              |]
          end).
  all: try discriminate H.
Qed.

(* ------------------------------------------------------------------ the decoded program, byte by byte *)
Lemma decode_from_reads : forall fuel cs locs pos bs C,
  Forall (fun b => 0 <= b < 256)%Z bs ->
  decode_from fuel cs locs pos bs = DOk C ->
  forall q i l, fetch C q = Some (i, l) -> reads_at cs locs pos bs q i l.
Proof.
  induction fuel as [|fuel IH]; intros cs locs pos bs C Hb H q i l F.
  - cbn [decode_from] in H. destruct bs; [|discriminate H]. inversion H. subst. discriminate F.
  - cbn [decode_from] in H. destruct bs as [|b rest]; [inversion H; subst; discriminate F|].
    destruct (opname b) as [n|] eqn:On; [|discriminate H].
    inversion Hb as [|? ? Hb0 Hrest]. subst.
    destruct (simple_instr n) as [i0|] eqn:Si.
    + destruct (decode_from fuel cs locs (pos + 1) rest) as [c|] eqn:D; [|discriminate H].
      inversion H. subst C. clear H.
      destruct (simple_instr_name _ _ Si) as [Hn [Hs Hv]].
      cbn [fetch] in F. destruct (Nat.eqb q 0) eqn:E0.
      * apply Nat.eqb_eq in E0. subst q. injection F as Fi Fl. subst i l.
        exists b. rewrite Hn, Hv, Z.add_0_r. repeat split; try reflexivity; assumption.
      * apply Nat.eqb_neq in E0. rewrite Hs in F.
        destruct (Nat.ltb q 1) eqn:E1; [discriminate F|]. apply Nat.ltb_ge in E1.
        destruct (IH cs locs (pos + 1)%Z rest c Hrest D _ _ _ F) as [b' [R1 [R2 [R3 R4]]]].
        exists b'. destruct q as [|q]; [lia|]. cbn [Nat.sub] in *. rewrite Nat.sub_0_r in *.
        split; [exact R1|]. split; [exact R2|]. split; [rewrite R3; f_equal; lia|].
        destruct (view_of i); [exact R4| |]; (destruct R4 as [R4 [b0 [b1 [R5 [R6 R7]]]]]; split; [exact R4|];
          exists b0, b1; repeat split; assumption).
    + destruct rest as [|b0 [|b1 rest']]; try discriminate H.
      inversion Hrest as [|? ? Hb1 Hrest1]. subst. inversion Hrest1 as [|? ? Hb2 Hrest2]. subst.
      destruct (operand_instr cs n (b0 + 256 * b1)) as [i0|why] eqn:Oi; [|discriminate H].
      destruct (decode_from fuel cs locs (pos + 3) rest') as [c|] eqn:D; [|discriminate H].
      inversion H. subst C. clear H.
      assert (Hk : (0 <= b0 + 256 * b1)%Z) by (cbv beta in *; lia).
      destruct (operand_instr_name cs n _ i0 Hk Oi) as [Hn [Hs Hv]].
      cbn [fetch] in F. destruct (Nat.eqb q 0) eqn:E0.
      * apply Nat.eqb_eq in E0. subst q. injection F as Fi Fl. subst i l.
        exists b. rewrite Hn, Z.add_0_r. split; [reflexivity|]. split; [assumption|]. split; [reflexivity|].
        pose proof Hv as Hv'. unfold view_describes in Hv'.
        destruct (view_of i0) eqn:Ev; [contradiction| |]; (split; [exact Hs|]; exists b0, b1; repeat split; exact Hv).
      * apply Nat.eqb_neq in E0. rewrite Hs in F.
        destruct (Nat.ltb q 3) eqn:E1; [discriminate F|]. apply Nat.ltb_ge in E1.
        destruct (IH cs locs (pos + 3)%Z rest' c Hrest2 D _ _ _ F) as [b' [R1 [R2 [R3 R4]]]].
        exists b'. destruct q as [|[|[|q]]]; try lia. cbn [Nat.sub] in *. rewrite ?Nat.sub_0_r in *.
        split; [exact R1|]. split; [exact R2|]. split; [rewrite R3; f_equal; lia|].
        destruct (view_of i); [exact R4| |]; (destruct R4 as [R4 [x0 [x1 [R5 [R6 R7]]]]]; split; [exact R4|];
          exists x0, x1; repeat split; assumption).
Qed.

Theorem decoded_program_reads p C :
  Forall (fun b => 0 <= b < 256)%Z (p_bytes p) ->
  decode p = DOk C ->
  forall q i l, fetch C q = Some (i, l) -> reads_at (p_consts p) (p_locs p) 0 (p_bytes p) q i l.
Proof. intros Hb D. exact (decode_from_reads _ _ _ _ _ _ Hb D). Qed.

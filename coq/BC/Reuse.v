(* BC/Reuse.v — a reused VM: the prologue of Run re-initialises a set of fields of the VM value,
   the dispatch loop then reads them.  run_on threads the VM value through a history of runs. *)
From Coq Require Import ZArith Bool List String Arith Lia.
Require Import X.Base.Num X.Base.Value X.Sem.Prim X.Sem.Sem X.BC.Instr X.BC.VM X.BC.RunProofs X.BC.BudgetRun.
Import ListNotations.

(* the fields of vm.VM whose old value the dispatch loop can observe *)
Inductive vfield := FStack | FScopes | FIp | FMemory.
Definition vfield_eqb (a b : vfield) : bool :=
  match a, b with FStack, FStack | FScopes, FScopes | FIp, FIp | FMemory, FMemory => true | _, _ => false end.
Definition has (f : vfield) (l : list vfield) : bool := existsb (vfield_eqb f) l.
Definition all_vfields : list vfield := [FStack; FScopes; FIp; FMemory].

Record vmrec := mkVm { v_stk : list value; v_scs : list scope; v_pc : nat; v_mem : Z }.
Definition fresh_vm : vmrec := mkVm [] [] 0 0%Z.

(* the prologue, parametric in the set of fields it resets *)
Definition prologue (resets : list vfield) (vm : vmrec) : state :=
  mkSt (if has FIp resets then 0 else v_pc vm)
       (if has FStack resets then [] else v_stk vm)
       (if has FScopes resets then [] else v_scs vm)
       (mkRS (if has FMemory resets then 0%Z else v_mem vm) []).

Section Reuse.
Variable fe : fenv.
Variable resets : list vfield.
Variable fuel : nat.

(* one run on a VM value: the result and the VM value left behind *)
Definition run_on (cfg : config) (env : value) (C : code) (vm : vmrec) : option (result * vmrec) :=
  match iter_tick fe cfg env C fuel (prologue resets vm) with
  | Finished r last => Some (r, mkVm (stk last) (scs last) (pc last) (res_mem r))
  | Running _ => None
  end.

Definition job := (config * value * code)%type.

(* a history of runs on one VM value: the results, in order *)
Fixpoint run_history (vm : vmrec) (h : list job) : list (option result) :=
  match h with
  | [] => []
  | (cfg, env, C) :: rest =>
      match run_on cfg env C vm with
      | Some (r, vm') => Some r :: run_history vm' rest
      | None => None :: run_history vm rest
      end
  end.

Definition fresh_results (h : list job) : list (option result) :=
  map (fun j => let '(cfg, env, C) := j in option_map fst (run_on cfg env C fresh_vm)) h.

End Reuse.

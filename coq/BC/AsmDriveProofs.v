(* BC/AsmDriveProofs.v — driving an item list through the Go-shaped assembler functions (go_funcs: emit,
   makeConstant with its index map, placeholder + patchJump, calcBackwardJump, encode) gives exactly the
   model assembler asm / assemble_items. *)
From Coq Require Import ZArith Bool List String Arith Lia Floats.
Require Import X.Base.Num X.Base.Value X.Syn.Ast X.Sem.Prim X.Sem.Sem X.BC.Instr X.BC.Compiler X.BC.Decode X.gen.GenOpcodes X.BC.Assemble X.BC.AssembleProofs.
Import ListNotations.
Local Open Scope list_scope.
Local Open Scope Z_scope.

(* ================================================================== encode *)
Lemma go_encode_is_encode16 k : 0 <= k < 65536 -> go_encode k = encode16 k.
Proof.
  intros H. unfold go_encode, encode16. f_equal. f_equal. apply Z.mod_small.
  split; [apply Z.div_pos; lia|apply Z.div_lt_upper_bound; lia].
Qed.

(* ================================================================== the index map *)
(* what makeConstant registers in c.index: everything that is not appended with hashable = false *)
Definition hashable (d : const) : bool := negb (const_slice_or_map d || const_float_zero d).

Fixpoint index_of_pool (pool : list const) (k : Z) : list (const * Z) :=
  match pool with
  | [] => []
  | d :: r => if hashable d then (d, k) :: index_of_pool r (k + 1) else index_of_pool r (k + 1)
  end.

(* (I1) the index map is the list of the hashable pool entries with their positions *)
Definition index_inv (s : cstate) : Prop := cs_index s = index_of_pool (cs_constants s) 0.

Lemma index_of_pool_app : forall pool k c,
  index_of_pool (pool ++ [c]) k =
  index_of_pool pool k ++ (if hashable c then [(c, k + Z.of_nat (List.length pool))] else []).
Proof.
  induction pool as [|d r IH]; intros k c.
  - cbn [index_of_pool app List.length]. rewrite Z.add_0_r. destruct (hashable c); reflexivity.
  - cbn [index_of_pool app]. rewrite IH. replace (k + 1 + Z.of_nat (List.length r)) with (k + Z.of_nat (List.length (d :: r)))
      by (cbn [List.length]; lia). destruct (hashable d); reflexivity.
Qed.

Lemma index_set_fresh : forall m c p, index_get m c = None -> index_set m c p = m ++ [(c, p)].
Proof.
  induction m as [|[d k] r IH]; intros c p H; [reflexivity|].
  cbn [index_get] in H. cbn [index_set app]. destruct (const_go_eq d c); [discriminate|]. rewrite IH by exact H. reflexivity.
Qed.

(* Go's == only ever identifies values that are hashed by their contents *)
Lemma vgo_eq_kval : forall w v, vgo_eq w v = true -> field_class w = KVal /\ field_class v = KVal.
Proof.
  fix IH 1. intros w v.
  destruct w as [|wb|wn|ws|we wl|we|wk wt wm|wname wptr wfields|wt|wk wt|wname wt|wname wx|wd],
           v as [|vb|vn|vs|ve vl|ve|vk vt vm|vname vptr vfields|vt|vk vt|vname vt|vname vx|vd];
    cbn [vgo_eq]; try discriminate; intros H; try (split; reflexivity); try (destruct wptr; discriminate).
  - destruct wptr; [discriminate|]. destruct vptr; [discriminate|].
    apply andb_prop in H. destruct H as [_ H]. cbn [field_class]. revert vfields H.
    induction wfields as [|[n1 x] r1 IHl]; intros [|[n2 y] r2] H; try discriminate; [split; reflexivity|].
    apply andb_prop in H. destruct H as [H H3]. apply andb_prop in H. destruct H as [H1 H2].
    destruct (IH x y H2) as [Hx Hy]. destruct (IHl r2 H3) as [Hr1 Hr2]. rewrite Hx, Hy, Hr1, Hr2. split; reflexivity.
  - apply andb_prop in H. destruct H as [_ H]. cbn [field_class]. apply IH. exact H.
Qed.

Lemma vgo_eq_nil_r w v : vgo_eq w v = true -> w = VNil -> v = VNil.
Proof. intros H ->. destruct v; cbn [vgo_eq] in H; try discriminate. reflexivity. Qed.

Lemma class_of_kval v : v <> VNil -> slice_or_map v || float_zero v = false -> field_class v = KVal ->
  const_class (CVal v) = HKey.
Proof. intros Hn Hs Hk. unfold const_class. rewrite Hs, Hk. destruct v; try reflexivity. congruence. Qed.

Lemma class_of_kident v : slice_or_map v || float_zero v = false -> field_class v = KIdent ->
  const_class (CVal v) = HFresh.
Proof. intros Hs Hk. unfold const_class. rewrite Hs, Hk. destruct v; try reflexivity. discriminate. Qed.

Lemma is_key_hashable d : is_key d = true -> hashable d = true.
Proof.
  unfold is_key, hashable. destruct d as [v|n z|p]; cbn [const_class const_slice_or_map const_float_zero]; try reflexivity.
  destruct (slice_or_map v || float_zero v); [discriminate|reflexivity].
Qed.

(* a registered entry that == a by-contents key is itself a by-contents key *)
Lemma hashable_eq_is_key d c : hashable d = true -> const_go_eq d c = true -> const_class c = HKey -> is_key d = true.
Proof.
  intros Hh He Hc. unfold is_key. destruct d as [w|n z|p], c as [v|n' z'|p']; cbn [const_go_eq] in He; try discriminate; [|reflexivity].
  unfold hashable in Hh. cbn [const_slice_or_map const_float_zero] in Hh. apply negb_true_iff in Hh.
  destruct (vgo_eq_kval _ _ He) as [Hw _].
  rewrite class_of_kval; [reflexivity| |exact Hh|exact Hw].
  intros ->. apply vgo_eq_nil_r in He; [|reflexivity]. subst v. cbn in Hc. discriminate.
Qed.

Lemma index_get_key c : const_class c = HKey -> forall pool k0,
  index_get (index_of_pool pool k0) c = pool_find c pool k0.
Proof.
  intros Hc. induction pool as [|d r IH]; intros k0; [reflexivity|].
  cbn [index_of_pool pool_find]. destruct (hashable d) eqn:Hh.
  - cbn [index_get]. destruct (const_go_eq d c) eqn:He.
    + rewrite (hashable_eq_is_key d c Hh He Hc). reflexivity.
    + rewrite andb_false_r. apply IH.
  - destruct (is_key d) eqn:Hk; [apply is_key_hashable in Hk; congruence|]. cbn [andb]. apply IH.
Qed.

Lemma index_get_noeq c : (forall d, const_go_eq d c = false) -> forall m, index_get m c = None.
Proof. intros H. induction m as [|[d k] r IH]; [reflexivity|]. cbn [index_get]. rewrite H. exact IH. Qed.

Lemma go_eq_kident v : field_class v = KIdent -> forall d, const_go_eq d (CVal v) = false.
Proof.
  intros Hk d. destruct (const_go_eq d (CVal v)) eqn:E; [|reflexivity].
  apply go_eq_val in E. destruct E as [w [_ E]]. apply vgo_eq_kval in E. destruct E as [_ E]. congruence.
Qed.

Lemma go_eq_regex_false p d : const_go_eq d (CRegex p) = false.
Proof. destruct d; reflexivity. Qed.

(* appending to the pool, on both sides *)
Lemma append_is_pool_append s c h :
  index_inv s -> (h = true -> hashable c = true /\ index_get (cs_index s) c = None) -> (h = false -> hashable c = false) ->
  match go_append_constant s c h, pool_append (cs_constants s) c with
  | Some (b, s'), Some (pool', k) =>
      b = encode16 k /\ cs_constants s' = pool' /\ index_inv s' /\ cs_bytecode s' = cs_bytecode s /\
      cs_locations s' = cs_locations s /\ cs_nodes s' = cs_nodes s
  | None, None => True
  | _, _ => False
  end.
Proof.
  intros Hi Ht Hf. unfold go_append_constant, pool_append. rewrite app_length. cbn [List.length].
  replace (Z.of_nat (List.length (cs_constants s) + 1)) with (Z.of_nat (List.length (cs_constants s)) + 1) by lia.
  destruct (max_uint16 <? Z.of_nat (List.length (cs_constants s)) + 1) eqn:E; [exact I|].
  apply Z.ltb_ge in E. unfold max_uint16 in E.
  replace (Z.of_nat (List.length (cs_constants s)) + 1 - 1) with (Z.of_nat (List.length (cs_constants s))) by lia.
  rewrite Z.mod_small by lia. cbn [cs_constants cs_bytecode cs_locations cs_nodes].
  split; [apply go_encode_is_encode16; lia|]. split; [reflexivity|]. split; [|auto].
  unfold index_inv. cbn [cs_index cs_constants]. rewrite index_of_pool_app, Z.add_0_l.
  destruct h.
  - destruct (Ht eq_refl) as [Hh Hg]. rewrite Hh, index_set_fresh by exact Hg. rewrite Hi. reflexivity.
  - rewrite (Hf eq_refl), app_nil_r. exact Hi.
Qed.

Lemma pool_find_lt c : forall pool k0 k, pool_find c pool k0 = Some k -> k0 <= k < k0 + Z.of_nat (List.length pool).
Proof.
  induction pool as [|d r IH]; intros k0 k H; cbn [pool_find] in H; [discriminate|].
  cbn [List.length]. destruct (is_key d && const_go_eq d c).
  - injection H as <-. lia.
  - apply IH in H. lia.
Qed.

Lemma make_constant_is_intern : forall s c, index_inv s -> Z.of_nat (List.length (cs_constants s)) <= 65535 ->
  match go_make_constant s c, intern (cs_constants s) c with
  | Some (b, s'), Some (pool', k) =>
      b = encode16 k /\ cs_constants s' = pool' /\ index_inv s' /\ cs_bytecode s' = cs_bytecode s /\
      cs_locations s' = cs_locations s /\ cs_nodes s' = cs_nodes s
  | None, None => True
  | _, _ => False
  end.
Proof.
  intros s c Hi Hl. unfold go_make_constant, intern.
  destruct (kind_panics c) eqn:Kp.
  { destruct c as [v|n z|p]; try discriminate. destruct v; try discriminate. cbn. exact I. }
  destruct (const_slice_or_map c || const_float_zero c) eqn:Ks.
  { assert (Hc : const_class c = HFresh).
    { destruct c as [v|n z|p]; try discriminate. cbn [const_slice_or_map const_float_zero] in Ks. unfold const_class. rewrite Ks. reflexivity. }
    rewrite Hc. apply append_is_pool_append; [exact Hi|discriminate|]. intros _. unfold hashable. rewrite Ks. reflexivity. }
  assert (Hh : hashable c = true) by (unfold hashable; rewrite Ks; reflexivity).
  destruct (key_unhashable c) eqn:Ku.
  { destruct c as [v|n z|p]; try discriminate. cbn [const_slice_or_map const_float_zero] in Ks. cbn [key_unhashable] in Ku.
    unfold const_class. rewrite Ks. destruct (field_class v) eqn:Fc; try discriminate. destruct v; exact I. }
  assert (Hcl : (const_class c = HKey) \/ (const_class c = HFresh /\ forall d, const_go_eq d c = false)).
  { destruct c as [v|n z|p].
    - cbn [const_slice_or_map const_float_zero] in Ks. cbn [key_unhashable] in Ku. destruct (field_class v) eqn:Fc; try discriminate.
      + left. apply class_of_kval; [|exact Ks|exact Fc]. intros ->. discriminate.
      + right. split; [apply class_of_kident; assumption|apply go_eq_kident; exact Fc].
    - left. reflexivity.
    - right. split; [reflexivity|apply go_eq_regex_false]. }
  destruct Hcl as [Hc|[Hc Hne]]; rewrite Hc.
  - rewrite Hi, (index_get_key c Hc). destruct (pool_find c (cs_constants s) 0) as [k|] eqn:F.
    + apply pool_find_lt in F. split; [apply go_encode_is_encode16; lia|]. auto 6.
    + apply append_is_pool_append; [exact Hi| |discriminate]. intros _. split; [exact Hh|].
      rewrite Hi, (index_get_key c Hc). exact F.
  - rewrite (index_get_noeq c Hne). apply append_is_pool_append; [exact Hi| |discriminate]. intros _. split; [exact Hh|].
    apply index_get_noeq. exact Hne.
Qed.

(* ================================================================== bytes: stores and patchJump *)
Definition zn (l : list Z) (k : Z) : Z := nth (Z.to_nat k) l 0.
Definition zlen (l : list Z) : Z := Z.of_nat (List.length l).

Lemma list_upd_length : forall l k v, List.length (list_upd l k v) = List.length l.
Proof. induction l as [|x r IH]; intros [|k] v; cbn [list_upd List.length]; try reflexivity. rewrite IH. reflexivity. Qed.

Lemma list_upd_nth_same : forall l k v d, (k < List.length l)%nat -> nth k (list_upd l k v) d = v.
Proof.
  induction l as [|x r IH]; intros [|k] v d H; cbn [List.length] in H; try lia; cbn [list_upd nth]; [reflexivity|].
  apply IH. lia.
Qed.

Lemma list_upd_nth_other : forall l k v d j, j <> k -> nth j (list_upd l k v) d = nth j l d.
Proof.
  induction l as [|x r IH]; intros [|k] v d [|j] H; cbn [list_upd nth]; try reflexivity; try congruence.
  apply IH. congruence.
Qed.

Lemma store_byte_some l k v : 0 <= k < zlen l -> store_byte l k v = Some (list_upd l (Z.to_nat k) v).
Proof.
  unfold store_byte, zlen. intros H. destruct (0 <=? k) eqn:A; [|apply Z.leb_gt in A; lia].
  destruct (k <? Z.of_nat (List.length l)) eqn:B; [|apply Z.ltb_ge in B; lia]. reflexivity.
Qed.

Lemma store_byte_length l k v l' : store_byte l k v = Some l' -> List.length l' = List.length l.
Proof.
  unfold store_byte. destruct ((0 <=? k) && (k <? Z.of_nat (List.length l))); [|discriminate].
  intros H. injection H as <-. apply list_upd_length.
Qed.

Lemma zn_upd_same l k v : 0 <= k < zlen l -> zn (list_upd l (Z.to_nat k) v) k = v.
Proof. unfold zn, zlen. intros H. apply list_upd_nth_same. lia. Qed.

Lemma zn_upd_other l k v j : 0 <= k -> 0 <= j -> j <> k -> zn (list_upd l (Z.to_nat k) v) j = zn l j.
Proof. unfold zn. intros Hk Hj H. apply list_upd_nth_other. lia. Qed.

Lemma zn_app_l l m k : 0 <= k < zlen l -> zn (l ++ m) k = zn l k.
Proof. unfold zn, zlen. intros H. apply app_nth1. lia. Qed.

Lemma zn_app_r l m k : zlen l <= k -> zn (l ++ m) k = zn m (k - zlen l).
Proof. unfold zn, zlen. intros H. rewrite app_nth2 by lia. f_equal. lia. Qed.

Lemma zlen_app l m : zlen (l ++ m) = zlen l + zlen m.
Proof. unfold zlen. rewrite app_length. lia. Qed.

Lemma blen_set s b : blen (set_bytecode s b) = zlen b.
Proof. reflexivity. Qed.

(* patchJump: fails on the limit, otherwise overwrites the two placeholder bytes *)
Lemma patch_jump_too_far s ph : max_uint16 < blen s - 2 - ph -> go_patch_jump s ph = None.
Proof. intros H. unfold go_patch_jump. apply Z.ltb_lt in H. rewrite H. reflexivity. Qed.

Lemma patch_jump_length s ph s' : go_patch_jump s ph = Some s' -> blen s' = blen s.
Proof.
  unfold go_patch_jump. destruct (max_uint16 <? blen s - 2 - ph); [discriminate|].
  destruct (store_byte (cs_bytecode s) ph _) as [b1|] eqn:E1; [|discriminate].
  destruct (store_byte b1 (ph + 1) _) as [b2|] eqn:E2; [|discriminate].
  intros H. injection H as <-. apply store_byte_length in E1. apply store_byte_length in E2.
  unfold blen. cbn [set_bytecode cs_bytecode]. congruence.
Qed.

Lemma patch_jump_ok s ph : 0 <= ph -> ph + 1 < blen s -> blen s - 2 - ph <= 65535 ->
  exists b, go_patch_jump s ph = Some (set_bytecode s b) /\ zlen b = blen s /\
    zn b ph = (blen s - 2 - ph) mod 256 /\ zn b (ph + 1) = (blen s - 2 - ph) / 256 /\
    (forall j, 0 <= j -> j <> ph -> j <> ph + 1 -> zn b j = zn (cs_bytecode s) j).
Proof.
  intros H0 H1 H2. unfold go_patch_jump. set (off := blen s - 2 - ph) in *.
  destruct (max_uint16 <? off) eqn:E; [apply Z.ltb_lt in E; unfold max_uint16 in E; lia|].
  assert (Ho : 0 <= off < 65536) by (unfold off; lia).
  rewrite Z.mod_small by exact Ho. rewrite go_encode_is_encode16 by exact Ho. unfold encode16. cbn [nth].
  unfold blen in H1. rewrite store_byte_some by (unfold zlen; lia).
  rewrite store_byte_some by (unfold zlen; rewrite list_upd_length; lia).
  eexists. split; [reflexivity|]. split; [unfold zlen, blen; rewrite !list_upd_length; reflexivity|].
  split; [|split].
  - rewrite zn_upd_other by lia. apply zn_upd_same. unfold zlen. lia.
  - apply zn_upd_same. unfold zlen. rewrite list_upd_length. lia.
  - intros j Hj Ha Hb. rewrite zn_upd_other by lia. apply zn_upd_other; lia.
Qed.

(* ================================================================== fire *)
Definition covered (pend : list (Z * Z)) (k : Z) : Prop :=
  exists ph t, In (ph, t) pend /\ (k = ph \/ k = ph + 1).

(* Go bytes bg against model bytes bm: equal except at the operand positions of the pending jumps *)
Definition brel (pend : list (Z * Z)) (bg bm : list Z) : Prop :=
  zlen bg = zlen bm /\ forall k, 0 <= k < zlen bg -> covered pend k \/ zn bg k = zn bm k.

(* a pending jump: placeholder inside the bytecode, offset within the limit, the model has the offset there *)
Definition pend_entry_ok (pos : Z) (bm : list Z) (e : Z * Z) : Prop :=
  let ph := fst e in let t := snd e in
  0 <= ph /\ ph + 1 < pos /\ t - 2 - ph <= 65535 /\
  zn bm ph = (t - 2 - ph) mod 256 /\ zn bm (ph + 1) = (t - 2 - ph) / 256.

Definition live (pos : Z) (e : Z * Z) : bool := negb (snd e =? pos).

Lemma covered_app a b k : covered (a ++ b) k <-> covered a k \/ covered b k.
Proof.
  unfold covered. split.
  - intros [ph [t [Hin H]]]. apply in_app_or in Hin. destruct Hin; [left|right]; exists ph, t; auto.
  - intros [[ph [t [Hin H]]]|[ph [t [Hin H]]]]; exists ph, t; split; auto; apply in_or_app; auto.
Qed.

Lemma fire_ok : forall pend s bm extra,
  brel (extra ++ pend) (cs_bytecode s) bm ->
  (forall e, In e pend -> pend_entry_ok (blen s) bm e) ->
  exists bg1, fire go_funcs pend s = GOk (set_bytecode s bg1, filter (live (blen s)) pend) /\
              brel (extra ++ filter (live (blen s)) pend) bg1 bm.
Proof.
  induction pend as [|[ph t] r IH]; intros s bm extra Hb Hp.
  - exists (cs_bytecode s). cbn [fire filter]. split; [destruct s; reflexivity|exact Hb].
  - cbn [fire filter]. replace (live (blen s) (ph, t)) with (negb (t =? blen s)) by reflexivity.
    destruct (t =? blen s) eqn:E; cbn [negb].
    + apply Z.eqb_eq in E. subst t.
      destruct (Hp (ph, blen s) (or_introl eq_refl)) as [H0 [H1 [H2 [H3 H4]]]]. cbn [fst snd] in *.
      destruct (patch_jump_ok s ph H0 H1 H2) as [b [Hpj [Hlen [Hz0 [Hz1 Hzo]]]]].
      cbn [go_funcs f_patch_jump of_option gbind]. rewrite Hpj. cbn [of_option gbind].
      destruct (IH (set_bytecode s b) bm extra) as [bg1 [Hf Hr]].
      * cbn [set_bytecode cs_bytecode]. destruct Hb as [Hl Hk]. split; [unfold blen in Hlen; unfold zlen in *; lia|].
        intros k Hkr. destruct (Z.eq_dec k ph) as [->|Na]; [right; congruence|].
        destruct (Z.eq_dec k (ph + 1)) as [->|Nb]; [right; congruence|].
        rewrite Hzo by lia. destruct (Hk k) as [Hc|Heq]; [unfold blen in Hlen; unfold zlen in *; lia| |right; exact Heq].
        apply covered_app in Hc. destruct Hc as [Hc|[ph' [t' [[Hin|Hin] Hc]]]].
        -- left. apply covered_app. left. exact Hc.
        -- injection Hin as <- <-. lia.
        -- left. apply covered_app. right. exists ph', t'. auto.
      * intros e He. rewrite blen_set, Hlen. apply Hp. right. exact He.
      * rewrite blen_set, Hlen in Hf, Hr. exists bg1. split; [|exact Hr]. rewrite Hf. reflexivity.
    + destruct (IH s bm (extra ++ [(ph, t)])) as [bg1 [Hf Hr]].
      * rewrite <- app_assoc. exact Hb.
      * intros e He. apply Hp. right. exact He.
      * rewrite Hf. cbn [gbind fst snd]. exists bg1. split; [reflexivity|]. rewrite <- app_assoc in Hr. exact Hr.
Qed.

(* fire never gets stuck, keeps the length, and panics on a pending jump that is too far *)
Lemma fire_shape : forall pend s,
  match fire go_funcs pend s with
  | GOk (s1, pend1) => blen s1 = blen s /\ (forall e, In e pend -> snd e <> blen s -> In e pend1)
  | GPanic => True
  | GStuck => False
  end.
Proof.
  induction pend as [|[ph t] r IH]; intros s; cbn [fire].
  - split; [reflexivity|]. intros e [].
  - destruct (t =? blen s) eqn:E.
    + cbn [go_funcs f_patch_jump]. destruct (go_patch_jump s ph) as [s'|] eqn:P; cbn [of_option gbind]; [|exact I].
      apply patch_jump_length in P. specialize (IH s'). destruct (fire go_funcs r s') as [[s1 pend1]| |]; try exact IH.
      destruct IH as [Hl Hin]. split; [congruence|]. intros e [<-|He] Hne.
      * apply Z.eqb_eq in E. cbn [snd] in Hne. congruence.
      * apply Hin; [exact He|congruence].
    + specialize (IH s). destruct (fire go_funcs r s) as [[s1 pend1]| |]; cbn [gbind fst snd]; try exact IH.
      destruct IH as [Hl Hin]. split; [exact Hl|]. intros e [<-|He] Hne; [left; reflexivity|right; apply Hin; assumption].
Qed.

Lemma fire_doomed : forall pend s ph, In (ph, blen s) pend -> 65535 < blen s - 2 - ph -> fire go_funcs pend s = GPanic.
Proof.
  induction pend as [|[ph' t'] r IH]; intros s ph Hin Hd; [destruct Hin|]. cbn [fire].
  destruct (t' =? blen s) eqn:E.
  - cbn [go_funcs f_patch_jump]. destruct (go_patch_jump s ph') as [s'|] eqn:P; cbn [of_option gbind]; [|reflexivity].
    destruct Hin as [Hin|Hin].
    + injection Hin as -> ->. rewrite patch_jump_too_far in P by (unfold max_uint16; lia). discriminate.
    + pose proof (patch_jump_length _ _ _ P) as Hl. apply (IH s' ph); rewrite Hl; assumption.
  - destruct Hin as [Hin|Hin]; [injection Hin as -> ->; apply Z.eqb_neq in E; congruence|].
    rewrite (IH s ph Hin Hd). reflexivity.
Qed.

(* ================================================================== emit *)
(* (I3) every key of c.locations is below the end of the bytecode *)
Definition locs_lt (s : cstate) : Prop := forall q l, In (q, l) (cs_locations s) -> q < blen s.

Lemma locs_set_fresh : forall m q l, (forall q' l', In (q', l') m -> q' <> q) -> locs_set m q l = m ++ [(q, l)].
Proof.
  induction m as [|[q' l'] r IH]; intros q l H; [reflexivity|]. cbn [locs_set app].
  destruct (q' =? q) eqn:E; [apply Z.eqb_eq in E; exfalso; apply (H q' l'); [left; reflexivity|exact E]|].
  rewrite IH; [reflexivity|]. intros q2 l2 Hin. apply (H q2 l2). right. exact Hin.
Qed.

Lemma emit_spec s l op b : cs_nodes s = [l] -> locs_lt s ->
  go_emit s op b = (blen s + 1, mkCS (cs_bytecode s ++ op :: b) (cs_constants s) (cs_index s)
                                     (cs_locations s ++ [(blen s, l)]) [l]).
Proof.
  intros Hn Hl. unfold go_emit. cbv zeta. rewrite Hn. cbn [last].
  assert (E : Z.of_nat (List.length (cs_bytecode s ++ [op])) = blen s + 1).
  { rewrite app_length. unfold blen. cbn [List.length]. lia. }
  rewrite E. replace (blen s + 1 - 1) with (blen s) by lia. rewrite <- app_assoc. cbn [app].
  rewrite locs_set_fresh; [reflexivity|]. intros q' l' Hin. apply Hl in Hin. lia.
Qed.

Lemma emit_length s op b : blen (snd (go_emit s op b)) = blen s + 1 + zlen b.
Proof. unfold go_emit, blen, zlen. cbv zeta. cbn [snd cs_bytecode]. rewrite !app_length. cbn [List.length]. lia. Qed.

(* ================================================================== one item: shape (no invariant needed) *)
Lemma append_constant_shape s c h b s' : go_append_constant s c h = Some (b, s') ->
  cs_bytecode s' = cs_bytecode s /\ zlen b = 2.
Proof.
  unfold go_append_constant. destruct (max_uint16 <? _); [discriminate|]. intros H. injection H as <- <-. split; reflexivity.
Qed.

Lemma make_constant_shape s c b s' : go_make_constant s c = Some (b, s') -> cs_bytecode s' = cs_bytecode s /\ zlen b = 2.
Proof.
  unfold go_make_constant. destruct (kind_panics c); [discriminate|].
  destruct (const_slice_or_map c || const_float_zero c); [apply append_constant_shape|].
  destruct (key_unhashable c); [discriminate|].
  destruct (index_get (cs_index s) c); [|apply append_constant_shape].
  intros H. injection H as <- <-. split; reflexivity.
Qed.

Lemma item_size_nonneg it : 0 <= item_size it.
Proof. destruct it as [i l|c]; cbn [item_size]; [destruct (ioperand i)|]; lia. Qed.

Lemma drive_item_shape it s pend :
  match drive_item go_funcs it s pend with
  | GOk (s', pend') => blen s' = blen s + item_size it /\ incl pend pend'
  | GPanic => True
  | GStuck => False
  end.
Proof.
  destruct it as [i l|c]; cbn [drive_item item_size go_funcs f_emit f_make_constant f_placeholder f_calc_backward_jump f_encode].
  - destruct (opcode_of (iname i)) as [op|]; [|exact I].
    assert (Bw : blen (with_node s l) = blen s) by reflexivity.
    destruct (ioperand i) as [|c|off|k|] eqn:Eo; cbn [gbind fst snd].
    + rewrite emit_length, Bw. split; [unfold zlen; cbn [List.length]; lia|apply incl_refl].
    + destruct (go_make_constant (with_node s l) c) as [[b s1]|] eqn:M; cbn [of_option gbind fst snd]; [|exact I].
      apply make_constant_shape in M. destruct M as [M1 M2]. rewrite emit_length. unfold blen at 1. rewrite M1.
      fold (blen (with_node s l)). rewrite Bw. split; [lia|apply incl_refl].
    + destruct (is_backward i).
      * destruct (go_calc_backward_jump (with_node s l) (blen (with_node s l) + 3 - off)) as [b|] eqn:C; cbn [gbind fst snd]; [|exact I].
        unfold go_calc_backward_jump in C. destruct (max_uint16 <? _) in C; [discriminate|]. injection C as <-.
        rewrite emit_length, Bw. split; [unfold zlen, go_encode; cbn [List.length]; lia|apply incl_refl].
      * cbn [gbind fst snd]. rewrite emit_length, Bw. split; [unfold zlen, go_placeholder; cbn [List.length]; lia|].
        apply incl_tl, incl_refl.
    + rewrite emit_length, Bw. split; [unfold zlen, go_encode; cbn [List.length]; lia|apply incl_refl].
    + exact I.
  - destruct (go_make_constant s c) as [[b s1]|] eqn:M; cbn [of_option gbind fst snd]; [|exact I].
    apply make_constant_shape in M. destruct M as [M1 _]. unfold blen. rewrite M1. split; [lia|apply incl_refl].
Qed.

(* a pending forward jump beyond the limit: the model refused it at its emission, the Go code panics in patchJump *)
Lemma drive_doomed : forall its s pend ph t,
  In (ph, t) pend -> 65535 < t - 2 - ph -> In t (boundaries its (blen s)) -> drive go_funcs its s pend = GPanic.
Proof.
  induction its as [|it r IH]; intros s pend ph t Hin Hd Hb.
  - cbn [boundaries] in Hb. destruct Hb as [<-|[]]. cbn [drive]. rewrite (fire_doomed pend s ph Hin Hd). reflexivity.
  - destruct (Z.eq_dec t (blen s)) as [->|Hne].
    + cbn [drive]. rewrite (fire_doomed pend s ph Hin Hd). reflexivity.
    + cbn [drive]. pose proof (fire_shape pend s) as Hf. destruct (fire go_funcs pend s) as [[s1 pend1]| |]; [|reflexivity|destruct Hf].
      destruct Hf as [Hl Hk]. specialize (Hk (ph, t) Hin Hne).
      pose proof (drive_item_shape it s1 pend1) as Hi.
      destruct (drive_item go_funcs it s1 pend1) as [[s2 pend2]| |]; cbn [gbind fst snd]; [|reflexivity|destruct Hi].
      destruct Hi as [Hl2 Hinc]. apply (IH s2 pend2 ph t); [apply Hinc; exact Hk|exact Hd|].
      cbn [boundaries] in Hb. destruct Hb as [Hb|Hb]; [congruence|]. rewrite Hl2, Hl. exact Hb.
Qed.

(* ================================================================== one item: against the model *)
Definition pool_ok (s : cstate) : Prop := Z.of_nat (List.length (cs_constants s)) <= 65535.

Lemma intern_size pool c pool' k : intern pool c = Some (pool', k) ->
  Z.of_nat (List.length pool) <= 65535 -> Z.of_nat (List.length pool') <= 65535.
Proof.
  unfold intern. intros H Hl.
  assert (A : forall p' k', pool_append pool c = Some (p', k') -> Z.of_nat (List.length p') <= 65535).
  { intros p' k' Ha. apply pool_append_spec in Ha. destruct Ha as [_ [_ Ha]]. exact Ha. }
  destruct (const_class c); [|eapply A; exact H|discriminate].
  destruct (pool_find c pool 0); [injection H as <- <-; exact Hl|eapply A; exact H].
Qed.

Lemma drive_const s pend c : index_inv s -> pool_ok s ->
  match intern (cs_constants s) c with
  | Some (pool', _) =>
      exists s', drive_item go_funcs (AConst c) s pend = GOk (s', pend) /\ cs_constants s' = pool' /\ index_inv s' /\
                 cs_bytecode s' = cs_bytecode s /\ cs_locations s' = cs_locations s
  | None => drive_item go_funcs (AConst c) s pend = GPanic
  end.
Proof.
  intros Hi Hp. pose proof (make_constant_is_intern s c Hi Hp) as M.
  cbn [drive_item go_funcs f_make_constant].
  destruct (go_make_constant s c) as [[b s1]|], (intern (cs_constants s) c) as [[pool' k]|]; try (destruct M; fail); cbn [of_option gbind fst snd].
  - exists s1. intuition.
  - reflexivity.
Qed.

Lemma raw_arg_small i k : ioperand i = RawArg k -> 0 <= k < 65536.
Proof.
  destruct i; cbn [ioperand]; try discriminate. destruct ((t =? 0) || (t =? 1)) eqn:E; [|discriminate].
  intros H. injection H as <-. apply orb_prop in E. destruct E as [E|E]; apply Z.eqb_eq in E; lia.
Qed.

Lemma jump_arg_nonneg i off : ioperand i = JumpArg off -> 0 <= off.
Proof.
  destruct i; cbn [ioperand]; try discriminate; try (intros H; injection H as <-; lia).
  destruct ((t =? 0) || (t =? 1)); discriminate.
Qed.

Lemma drive_ins s pend i l : index_inv s -> pool_ok s -> locs_lt s ->
  match enc_instr (cs_constants s) i with
  | Some (bs, pool') =>
      exists s' bsg pend', drive_item go_funcs (AIns i l) s pend = GOk (s', pend') /\
        cs_bytecode s' = cs_bytecode s ++ bsg /\ cs_constants s' = pool' /\ index_inv s' /\ pool_ok s' /\
        cs_locations s' = cs_locations s ++ [(blen s, l)] /\
        ((bsg = bs /\ pend' = pend) \/
         (exists op off, is_backward i = false /\ ioperand i = JumpArg off /\ 0 <= off <= 65535 /\
                         bs = op :: encode16 off /\ bsg = [op; 255; 255] /\
                         pend' = (blen s + 1, blen s + 3 + off) :: pend))
  | None =>
      drive_item go_funcs (AIns i l) s pend = GPanic \/
      (exists s' off, is_backward i = false /\ ioperand i = JumpArg off /\ 65535 < off /\
                      drive_item go_funcs (AIns i l) s pend = GOk (s', (blen s + 1, blen s + 3 + off) :: pend))
  end.
Proof.
  intros Hi Hp Hl. unfold enc_instr.
  cbn [drive_item go_funcs f_emit f_make_constant f_placeholder f_calc_backward_jump f_encode].
  destruct (opcode_of (iname i)) as [op|]; [|left; reflexivity].
  assert (Bw : blen (with_node s l) = blen s) by reflexivity.
  assert (Nw : cs_nodes (with_node s l) = [l]) by reflexivity.
  assert (Lw : locs_lt (with_node s l)) by exact Hl.
  destruct (ioperand i) as [|c|off|k|] eqn:Eo; cbn [gbind fst snd].
  - rewrite (emit_spec _ l op [] Nw Lw). cbn [snd]. eexists _, [op], pend. split; [reflexivity|].
    cbn [cs_bytecode cs_constants cs_locations with_node]. rewrite Bw. repeat split; try assumption. left. split; reflexivity.
  - pose proof (make_constant_is_intern (with_node s l) c Hi Hp) as M. cbn [with_node cs_constants] in M.
    destruct (go_make_constant (with_node s l) c) as [[b s1]|] eqn:G, (intern (cs_constants s) c) as [[pool' k]|] eqn:I;
      try (destruct M; fail); cbn [of_option gbind fst snd]; [|left; reflexivity].
    destruct M as [-> [Mc [Mi [Mb [Ml Mn]]]]]. cbn [with_node cs_bytecode cs_locations cs_nodes] in Mb, Ml, Mn.
    assert (L1 : locs_lt s1) by (unfold locs_lt, blen; rewrite Ml, Mb; exact Hl).
    rewrite (emit_spec s1 l op (encode16 k) Mn L1). cbn [snd].
    assert (Hb0 : 0 <= blen s) by (unfold blen; lia).
    assert (B1 : blen s1 = blen s) by (unfold blen; rewrite Mb; reflexivity).
    eexists _, (op :: encode16 k), pend. split; [reflexivity|]. cbn [cs_bytecode cs_constants cs_locations].
    rewrite Mb, Ml, B1. split; [reflexivity|]. split; [exact Mc|]. split; [exact Mi|].
    split; [unfold pool_ok; cbn [cs_constants]; rewrite Mc; eapply intern_size; [exact I|exact Hp]|].
    split; [reflexivity|]. left. split; reflexivity.
  - pose proof (jump_arg_nonneg i off Eo) as Hoff. destruct (is_backward i) eqn:Eb.
    + unfold go_calc_backward_jump. rewrite Bw. replace (blen s + 1 + 2 - (blen s + 3 - off)) with off by lia.
      destruct (max_uint16 <? off) eqn:E; [left; reflexivity|]. apply Z.ltb_ge in E. unfold max_uint16 in E.
      cbn [gbind fst snd]. rewrite Z.mod_small by lia. rewrite go_encode_is_encode16 by lia.
      rewrite (emit_spec _ l op (encode16 off) Nw Lw). cbn [snd]. eexists _, (op :: encode16 off), pend. split; [reflexivity|].
      cbn [cs_bytecode cs_constants cs_locations with_node]. rewrite Bw. repeat split; try assumption. left. split; reflexivity.
    + rewrite (emit_spec _ l op go_placeholder Nw Lw). cbn [fst snd]. rewrite Bw.
      destruct (max_uint16 <? off) eqn:E.
      * right. apply Z.ltb_lt in E. unfold max_uint16 in E. eexists _, off. repeat split; [exact E].
      * apply Z.ltb_ge in E. unfold max_uint16 in E. eexists _, [op; 255; 255], _. split; [reflexivity|].
        cbn [cs_bytecode cs_constants cs_locations with_node]. repeat split; try assumption.
        right. exists op, off. repeat split; try lia.
  - pose proof (raw_arg_small i k Eo) as Hk. rewrite go_encode_is_encode16 by exact Hk.
    rewrite (emit_spec _ l op (encode16 k) Nw Lw). cbn [snd]. eexists _, (op :: encode16 k), pend. split; [reflexivity|].
    cbn [cs_bytecode cs_constants cs_locations with_node]. rewrite Bw. repeat split; try assumption. left. split; reflexivity.
  - left. reflexivity.
Qed.

(* ================================================================== the item list *)
Lemma enc_instr_item_size pool i l bs pool' : enc_instr pool i = Some (bs, pool') -> zlen bs = item_size (AIns i l).
Proof.
  unfold enc_instr, zlen. cbn [item_size]. destruct (opcode_of (iname i)) as [b|]; [|discriminate].
  destruct (ioperand i) as [|c|off|k|]; intros H; try discriminate.
  - injection H as <- <-. reflexivity.
  - destruct (intern pool c) as [[p' k]|]; [|discriminate]. injection H as <- <-. reflexivity.
  - destruct (max_uint16 <? off); [discriminate|]. injection H as <- <-. reflexivity.
  - injection H as <- <-. reflexivity.
Qed.

Lemma boundaries_ge : forall its pos t, In t (boundaries its pos) -> pos <= t.
Proof.
  induction its as [|it r IH]; intros pos t H; cbn [boundaries] in H.
  - destruct H as [<-|[]]. lia.
  - destruct H as [<-|H]; [lia|]. apply IH in H. pose proof (item_size_nonneg it). lia.
Qed.

Lemma brel_nil bg bm : brel [] bg bm -> bg = bm.
Proof.
  intros [Hl Hk]. unfold zlen in Hl. apply (nth_ext _ _ 0 0); [lia|]. intros n Hn.
  destruct (Hk (Z.of_nat n)) as [[ph [t [[] _]]]|H]; [unfold zlen; lia|].
  unfold zn in H. rewrite Nat2Z.id in H. exact H.
Qed.

Lemma covered_mono p q k : incl p q -> covered p k -> covered q k.
Proof. intros Hi [ph [t [Hin H]]]. exists ph, t. split; [apply Hi; exact Hin|exact H]. Qed.

Lemma brel_app_same p bg bm x : brel p bg bm -> brel p (bg ++ x) (bm ++ x).
Proof.
  intros [Hl Hk]. split; [rewrite !zlen_app; lia|]. intros k Hr. rewrite zlen_app in Hr.
  destruct (Z.lt_ge_cases k (zlen bg)) as [Hlt|Hge].
  - rewrite !zn_app_l by lia. apply Hk. lia.
  - right. rewrite !zn_app_r by lia. rewrite Hl. reflexivity.
Qed.

Lemma brel_app_jump p bg bm op a b t : brel p bg bm ->
  brel ((zlen bg + 1, t) :: p) (bg ++ [op; 255; 255]) (bm ++ [op; a; b]).
Proof.
  intros [Hl Hk]. split; [rewrite !zlen_app; unfold zlen in *; cbn [List.length]; lia|]. intros k Hr. rewrite zlen_app in Hr.
  destruct (Z.lt_ge_cases k (zlen bg)) as [Hlt|Hge].
  - rewrite !zn_app_l by lia. destruct (Hk k) as [Hc|He]; [lia| |right; exact He].
    left. eapply covered_mono; [|exact Hc]. apply incl_tl, incl_refl.
  - destruct (Z.eq_dec k (zlen bg)) as [->|Hne].
    + right. rewrite !zn_app_r by lia. rewrite Hl, Z.sub_diag. reflexivity.
    + left. exists (zlen bg + 1), t. split; [left; reflexivity|]. unfold zlen in Hr at 2. cbn [List.length] in Hr. lia.
Qed.

Lemma pend_entry_ext pos bm e pos' x : pend_entry_ok pos bm e -> pos = zlen bm -> pos <= pos' ->
  pend_entry_ok pos' (bm ++ x) e.
Proof.
  unfold pend_entry_ok. intros [H0 [H1 [H2 [H3 H4]]]] -> Hle. rewrite !zn_app_l by lia. repeat split; try assumption; lia.
Qed.

Lemma filter_none {A} (f : A -> bool) l : (forall x, In x l -> f x = false) -> filter f l = [].
Proof.
  induction l as [|x r IH]; intros H; [reflexivity|]. cbn [filter]. rewrite (H x (or_introl eq_refl)).
  apply IH. intros y Hy. apply H. right. exact Hy.
Qed.

Definition st_inv (s : cstate) : Prop := index_inv s /\ pool_ok s /\ locs_lt s.

Lemma drive_main : forall its s pend bm,
  st_inv s -> brel pend (cs_bytecode s) bm ->
  (forall e, In e pend -> pend_entry_ok (blen s) bm e /\ In (snd e) (boundaries its (blen s))) ->
  fwd_closed its (blen s) = true ->
  match asm its (cs_constants s) (blen s) with
  | Some (bs, poolF, locs) =>
      exists sF, drive go_funcs its s pend = GOk (sF, []) /\ cs_bytecode sF = bm ++ bs /\ cs_constants sF = poolF /\
                 cs_locations sF = cs_locations s ++ locs
  | None => drive go_funcs its s pend = GPanic
  end.
Proof.
  induction its as [|it r IH]; intros s pend bm [Hi [Hp Hl]] Hb He Hc.
  - cbn [asm drive].
    destruct (fire_ok pend s bm [] Hb (fun e H => proj1 (He e H))) as [bg1 [Hf Hr]]. rewrite Hf.
    cbn [app] in Hr. rewrite filter_none in Hr |- *.
    + apply brel_nil in Hr. subst bg1. exists (set_bytecode s bm). rewrite !app_nil_r. repeat split.
    + intros e Hin. destruct (He e Hin) as [_ [H|[]]]. unfold live. rewrite <- H, Z.eqb_refl. reflexivity.
    + intros e Hin. destruct (He e Hin) as [_ [H|[]]]. unfold live. rewrite <- H, Z.eqb_refl. reflexivity.
  - destruct (fire_ok pend s bm [] Hb (fun e H => proj1 (He e H))) as [bg1 [Hf Hr]]. cbn [app] in Hr.
    cbn [drive]. rewrite Hf. set (s1 := set_bytecode s bg1) in *. set (pend1 := filter (live (blen s)) pend) in *.
    assert (Hbm : zlen bm = blen s) by (destruct Hb as [Hb _]; unfold blen; unfold zlen in Hb |- *; lia).
    assert (Hb0 : 0 <= blen s) by (unfold blen; lia).
    assert (B1 : blen s1 = blen s) by (destruct Hr as [Hr _]; unfold s1; rewrite blen_set; lia).
    assert (I1 : index_inv s1) by exact Hi.
    assert (P1 : pool_ok s1) by exact Hp.
    assert (L1 : locs_lt s1) by (unfold locs_lt; rewrite B1; exact Hl).
    assert (C1 : cs_constants s1 = cs_constants s) by reflexivity.
    assert (Lc1 : cs_locations s1 = cs_locations s) by reflexivity.
    assert (Bc1 : cs_bytecode s1 = bg1) by reflexivity.
    assert (He1 : forall e, In e pend1 -> pend_entry_ok (blen s) bm e /\ In (snd e) (boundaries r (blen s + item_size it))).
    { intros e Hin. apply filter_In in Hin. destruct Hin as [Hin Hlive]. destruct (He e Hin) as [Ha Hbd]. split; [exact Ha|].
      cbn [boundaries] in Hbd. destruct Hbd as [Hbd|Hbd]; [|exact Hbd]. unfold live in Hlive. rewrite <- Hbd, Z.eqb_refl in Hlive. discriminate. }
    clearbody s1 pend1. clear Hf.
    cbn [fwd_closed] in Hc. apply andb_prop in Hc. destruct Hc as [Hc0 Hc].
    destruct it as [i l|c].
    + (* an instruction *)
      cbn [asm]. pose proof (drive_ins s1 pend1 i l I1 P1 L1) as D. rewrite C1 in D.
      destruct (enc_instr (cs_constants s) i) as [[bs pool']|] eqn:En.
      * destruct D as [s2 [bsg [pend2 [Hd [Hbc [Hc2 [Hi2 [Hp2 [Hl2 Hcase]]]]]]]]]. rewrite Hd. cbn [gbind fst snd].
        pose proof (enc_instr_item_size _ _ l _ _ En) as Hsz.
        assert (Hlen : zlen bsg = zlen bs).
        { destruct Hcase as [[-> _]|[op [off [_ [_ [_ [-> [-> _]]]]]]]]; reflexivity. }
        assert (B2 : blen s2 = blen s + Z.of_nat (List.length bs)).
        { unfold blen at 1. rewrite Hbc, Bc1. fold (zlen (bg1 ++ bsg)). rewrite zlen_app, Hlen. unfold zlen at 2.
          rewrite <- B1. unfold blen. rewrite Bc1. reflexivity. }
        assert (Hpos : 1 <= zlen bs) by (rewrite Hsz; cbn [item_size]; destruct (ioperand i); lia).
        specialize (IH s2 pend2 (bm ++ bs)). rewrite B2, Hc2, Hl2, Lc1, B1 in IH.
        fold (zlen bs) in IH |- *. rewrite Hsz in IH |- *.
        assert (S2 : st_inv s2).
        { split; [exact Hi2|]. split; [exact Hp2|]. unfold locs_lt. rewrite Hl2, Lc1, B2, B1. intros q l' Hin.
          apply in_app_or in Hin. destruct Hin as [Hin|[Hin|[]]]; [apply Hl in Hin; unfold zlen in Hpos; lia|].
          injection Hin as <- _. unfold zlen in Hpos. lia. }
        assert (R2 : brel pend2 (cs_bytecode s2) (bm ++ bs)).
        { rewrite Hbc, Bc1. destruct Hcase as [[-> ->]|[op [off [_ [_ [_ [-> [-> ->]]]]]]]].
          - apply brel_app_same. exact Hr.
          - replace (blen s1 + 1) with (zlen bg1 + 1) by (unfold blen; rewrite Bc1; reflexivity).
            unfold encode16. apply brel_app_jump. exact Hr. }
        assert (E2 : forall e, In e pend2 ->
                   pend_entry_ok (blen s + item_size (AIns i l)) (bm ++ bs) e /\
                   In (snd e) (boundaries r (blen s + item_size (AIns i l)))).
        { assert (Old : forall e, In e pend1 -> pend_entry_ok (blen s + item_size (AIns i l)) (bm ++ bs) e /\
                                               In (snd e) (boundaries r (blen s + item_size (AIns i l)))).
          { intros e Hin. destruct (He1 e Hin) as [Ha Hbd]. split; [|exact Hbd].
            eapply pend_entry_ext; [exact Ha|lia|rewrite <- Hsz; lia]. }
          destruct Hcase as [[_ ->]|[op [off [Hbw [Ho [Hoff [Hbs [_ ->]]]]]]]]; [exact Old|].
          intros e [<-|Hin]; [|apply Old; exact Hin]. cbn [fst snd]. rewrite B1.
          cbn [item_size] in *. rewrite Ho in *. split.
          - unfold pend_entry_ok. cbn [fst snd]. replace (blen s + 3 + off - 2 - (blen s + 1)) with off by lia.
            rewrite Hbs. rewrite !zn_app_r by lia. rewrite Hbm.
            replace (blen s + 1 - blen s) with 1 by lia. replace (blen s + 1 + 1 - blen s) with 2 by lia.
            unfold encode16, zn. cbn [Z.to_nat Pos.to_nat Pos.iter_op Nat.add nth]. repeat split; lia.
          - rewrite Hbw in Hc0. cbn [orb] in Hc0. apply existsb_exists in Hc0. destruct Hc0 as [x [Hx Hxe]].
            apply Z.eqb_eq in Hxe. subst x. exact Hx. }
        specialize (IH S2 R2 E2 Hc).
        destruct (asm r pool' (blen s + item_size (AIns i l))) as [[[bs' poolF] locs]|].
        -- destruct IH as [sF [Hdr [Hbf [Hcf Hlf]]]]. exists sF. rewrite Hdr, Hbf, Hcf, Hlf, <- !app_assoc. repeat split.
        -- exact IH.
      * destruct D as [Hd|[s2 [off [Hbw [Ho [Hoff Hd]]]]]]; rewrite Hd; cbn [gbind fst snd]; [reflexivity|].
        pose proof (drive_item_shape (AIns i l) s1 pend1) as Sh. rewrite Hd in Sh. destruct Sh as [B2 _].
        cbn [item_size] in B2. rewrite Ho in B2.
        apply (drive_doomed r s2 _ (blen s1 + 1) (blen s1 + 3 + off)); [left; reflexivity|lia|].
        rewrite Ho, Hbw in Hc0. cbn [orb] in Hc0. apply existsb_exists in Hc0. destruct Hc0 as [x [Hx Hxe]].
        apply Z.eqb_eq in Hxe. subst x. cbn [item_size] in Hx. rewrite Ho in Hx. rewrite B2, B1. exact Hx.
    + (* a bare makeConstant call *)
      cbn [asm]. pose proof (drive_const s1 pend1 c I1 P1) as D. rewrite C1 in D.
      destruct (intern (cs_constants s) c) as [[pool' k]|] eqn:En; [|rewrite D; reflexivity].
      destruct D as [s2 [Hd [Hc2 [Hi2 [Hb2 Hl2]]]]]. rewrite Hd. cbn [gbind fst snd].
      assert (B2 : blen s2 = blen s) by (unfold blen at 1; rewrite Hb2; exact B1).
      specialize (IH s2 pend1 bm). rewrite B2, Hc2, Hl2, Lc1 in IH. cbn [item_size] in *. rewrite Z.add_0_r in *.
      apply IH; [| |exact He1|exact Hc].
      * split; [exact Hi2|]. split; [unfold pool_ok; rewrite Hc2; eapply intern_size; [exact En|exact Hp]|].
        unfold locs_lt. rewrite Hl2, Lc1, B2. exact Hl.
      * rewrite Hb2, Bc1. exact Hr.
Qed.

(* ================================================================== the theorems *)
Theorem drive_go_is_asm : forall its, fwd_closed its 0 = true ->
  match drive go_funcs its cs0 [] with
  | GOk (s, pend) => pend = [] /\ asm its [] 0 = Some (cs_bytecode s, cs_constants s, cs_locations s)
  | GPanic => asm its [] 0 = None
  | GStuck => False
  end.
Proof.
  intros its Hc.
  assert (M := drive_main its cs0 [] []). change (blen cs0) with 0 in M. change (cs_constants cs0) with (@nil const) in M.
  assert (S0 : st_inv cs0).
  { split; [reflexivity|]. split; [unfold pool_ok; cbn; lia|]. intros q l []. }
  assert (R0 : brel [] (cs_bytecode cs0) []).
  { split; [reflexivity|]. intros k Hk. right. reflexivity. }
  specialize (M S0 R0 (fun e (H : In e []) => match H with end) Hc).
  destruct (asm its [] 0) as [[[bs poolF] locs]|].
  - destruct M as [sF [Hd [Hb [Hcs Hl]]]]. rewrite Hd. split; [reflexivity|]. rewrite Hb, Hcs, Hl. reflexivity.
  - rewrite M. reflexivity.
Qed.

Theorem drive_go_is_assemble_items : forall its, fwd_closed its 0 = true ->
  match drive go_funcs its cs0 [] with
  | GOk (s, _) => assemble_items its = Some (mkProg (cs_bytecode s) (cs_constants s) (cs_locations s))
  | GPanic => assemble_items its = None
  | GStuck => False
  end.
Proof.
  intros its Hc. pose proof (drive_go_is_asm its Hc) as H. unfold assemble_items.
  destruct (drive go_funcs its cs0 []) as [[s pend]| |]; [|rewrite H; reflexivity|exact H].
  destruct H as [_ H]. rewrite H. reflexivity.
Qed.

(* ================================================================== non-vacuity *)
Definition drive_example : list aitem :=
  [AIns (IJumpIfFalse 1) (1, 1); AIns IPop (1, 1); AIns (IJump 0) noloc; AIns (IJumpBackward 8) noloc;
   AConst (str_const "x"); AIns (IPush (vint 1)) (1, 2)].

Example drive_example_closed : fwd_closed drive_example 0 = true.
Proof. vm_compute. reflexivity. Qed.

Example drive_example_ok :
  exists s, drive go_funcs drive_example cs0 [] = GOk (s, []) /\
            assemble_items drive_example = Some (mkProg (cs_bytecode s) (cs_constants s) (cs_locations s)).
Proof. eexists. split; vm_compute; reflexivity. Qed.

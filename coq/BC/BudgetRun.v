(* BC/BudgetRun.v — run-level consequences of BC/Budget.v, for ANY program:
   C06_success_below      a run that completes has allocated fewer elements than the budget;
   C06_never_refused      a run that completes under one budget completes identically under every
                          budget above what it allocated ("a run that needs fewer is never refused");
   C06_refused_at_budget  ... and fails with a budget error under every budget that is at most what
                          it allocated ("a run that has to create at least that many fails"). *)
From Coq Require Import ZArith Bool List String Arith Lia.
Require Import X.Base.Num X.Base.Value X.Sem.Prim X.Sem.Sem X.BC.Instr X.BC.VM X.BC.Budget X.BC.RunProofs.
Import ListNotations.
Local Open Scope Z_scope.

Section BudgetRun.
Variable fe : fenv.
Variable env : value.
Variable C : code.

Notation itick cfg := (iter_tick fe cfg env C).

Definition res_mem (r : result) : Z := match r with Done _ s => r_mem s | Stop _ _ s => r_mem s end.

Lemma tick_cases cfg s :
  tick fe cfg env C s =
  if Nat.ltb (pc s) (csize C) then
    match step fe cfg env C s with Next s' => Running s' | Crash e l r => Finished (Stop e l r) s end
  else Finished (Done (match stk s with v :: _ => v | [] => VNil end) (rs s))
                (mkSt (pc s) (match stk s with _ :: t => t | [] => [] end) (scs s) (rs s)).
Proof. reflexivity. Qed.

(* the counter never decreases along a run and a finished run reports the last counter *)
Lemma run_mem_mono cfg n : forall s r last,
  itick cfg n s = Finished r last -> mem s <= res_mem r.
Proof.
  induction n as [|n IH]; intros s r last H; cbn [iter_tick] in H; [discriminate|].
  rewrite tick_cases in H. destruct (Nat.ltb (pc s) (csize C)).
  - pose proof (step_ok_all fe env C cfg s) as OK. unfold step_ok in OK.
    destruct (step fe cfg env C s) as [s'|e l r'].
    + apply IH in H. lia.
    + inversion H; subst. cbn [res_mem]. lia.
  - inversion H; subst. cbn [res_mem]. unfold mem. lia.
Qed.

Theorem run_success_below cfg n : forall s v r last,
  mem s < c_limit cfg -> itick cfg n s = Finished (Done v r) last -> r_mem r < c_limit cfg.
Proof.
  induction n as [|n IH]; intros s v r last Hs H; cbn [iter_tick] in H; [discriminate|].
  rewrite tick_cases in H. destruct (Nat.ltb (pc s) (csize C)).
  - pose proof (step_ok_all fe env C cfg s) as OK. unfold step_ok in OK.
    destruct (step fe cfg env C s) as [s'|e l r']; [|discriminate].
    eapply IH; [|exact H]. destruct OK as [O1 O2]. destruct (Z.eq_dec (mem s) (mem s')); [lia|apply O2; lia].
  - inversion H; subst. exact Hs.
Qed.

Theorem run_limit_up cfg cfg' n : forall s r last,
  itick cfg n s = Finished r last ->
  (match r with Stop EBudget _ _ => False | _ => True end) ->
  res_mem r < c_limit cfg' ->
  itick cfg' n s = Finished r last.
Proof.
  induction n as [|n IH]; intros s r last H Hnb Hl; cbn [iter_tick] in *; [discriminate|].
  rewrite (tick_cases cfg s) in H. rewrite (tick_cases cfg' s). destruct (Nat.ltb (pc s) (csize C)); [|exact H].
  destruct (step fe cfg env C s) as [s'|e l r'] eqn:Es.
  - pose proof (run_mem_mono _ _ _ _ _ H) as Hm.
    rewrite (step_limit_up fe env C cfg cfg' s s' Es ltac:(lia)). eapply IH; eauto.
  - injection H as Hr Hlast. subst r last. rewrite (step_crash_indep fe env C cfg cfg' s e l r' Es); [reflexivity|].
    intros E; subst; contradiction.
Qed.

Theorem run_limit_down cfg cfg' n : forall s v r last,
  itick cfg n s = Finished (Done v r) last ->
  mem s < c_limit cfg' -> c_limit cfg' <= r_mem r ->
  exists m l r' last', (m <= n)%nat /\ itick cfg' m s = Finished (Stop EBudget l r') last'.
Proof.
  induction n as [|n IH]; intros s v r last H H1 H2; cbn [iter_tick] in H; [discriminate|].
  rewrite tick_cases in H. destruct (Nat.ltb (pc s) (csize C)) eqn:Ep.
  - destruct (step fe cfg env C s) as [s'|e l r'] eqn:Es; [|discriminate].
    destruct (Z_lt_le_dec (mem s') (c_limit cfg')) as [Hlt|Hge].
    + destruct (IH _ _ _ _ H Hlt H2) as (m & l & r' & last' & Hm & Hr).
      exists (S m), l, r', last'. split; [lia|]. cbn [iter_tick]. rewrite tick_cases, Ep.
      rewrite (step_limit_up fe env C cfg cfg' s s' Es Hlt). exact Hr.
    + destruct (step_limit_down fe env C cfg cfg' s s' Es H1 Hge) as [l Hc].
      exists 1%nat, l, (rs s), s. split; [lia|]. cbn [iter_tick]. rewrite tick_cases, Ep, Hc. reflexivity.
  - inversion H; subst. unfold mem in H1. lia.
Qed.

End BudgetRun.

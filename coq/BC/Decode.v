(* BC/Decode.v — vm.Program as data (bytes, constant pool, locations) and its linear decoding into
   the IR.  decode is also the first half of the structural bytecode verifier of C05: it fails on
   an unknown opcode, a truncated operand, a constant index out of range or a constant of the wrong
   kind for the instruction.  Opcode numbering comes from the REGENERATED gen/GenOpcodes.v. *)
From Coq Require Import ZArith Bool List String Arith.
Require Import X.Base.Num X.Base.Value X.Sem.Prim X.BC.Instr X.gen.GenOpcodes.
Import ListNotations.
Local Open Scope string_scope.
Local Open Scope Z_scope.

Inductive const :=
| CVal (v : value)
| CCall (name : string) (n : Z)      (* vm.Call{Name, Size} *)
| CRegex (p : string).                (* *regexp.Regexp, by its source *)

Record program := mkProg { p_bytes : list Z; p_consts : list const; p_locs : list (Z * loc) }.

Inductive dres := DOk (c : code) | DBad (pos : Z) (why : string).

Fixpoint loc_at (locs : list (Z * loc)) (p : Z) : loc :=
  match locs with [] => noloc | (q, l) :: r => if q =? p then l else loc_at r p end.

Definition nth_const (cs : list const) (k : Z) : option const :=
  if k <? 0 then None else nth_error cs (Z.to_nat k).

Definition opname (b : Z) : option string :=
  if b <? 0 then None else nth_error opcode_names (Z.to_nat b).

(* instructions without operand *)
Definition simple_instr (n : string) : option instr :=
  if String.eqb n "OpPop" then Some IPop else if String.eqb n "OpRot" then Some IRot
  else if String.eqb n "OpTrue" then Some ITrue else if String.eqb n "OpFalse" then Some IFalse
  else if String.eqb n "OpNil" then Some INil else if String.eqb n "OpNegate" then Some INegate
  else if String.eqb n "OpNot" then Some INot else if String.eqb n "OpEqual" then Some IEqual
  else if String.eqb n "OpEqualInt" then Some IEqualInt else if String.eqb n "OpEqualString" then Some IEqualString
  else if String.eqb n "OpIn" then Some IIn else if String.eqb n "OpLess" then Some ILess
  else if String.eqb n "OpMore" then Some IMore else if String.eqb n "OpLessOrEqual" then Some ILessOrEqual
  else if String.eqb n "OpMoreOrEqual" then Some IMoreOrEqual else if String.eqb n "OpAdd" then Some IAdd
  else if String.eqb n "OpSubtract" then Some ISubtract else if String.eqb n "OpMultiply" then Some IMultiply
  else if String.eqb n "OpDivide" then Some IDivide else if String.eqb n "OpModulo" then Some IModulo
  else if String.eqb n "OpExponent" then Some IExponent else if String.eqb n "OpRange" then Some IRange
  else if String.eqb n "OpMatches" then Some IMatches else if String.eqb n "OpContains" then Some IContains
  else if String.eqb n "OpStartsWith" then Some IStartsWith else if String.eqb n "OpEndsWith" then Some IEndsWith
  else if String.eqb n "OpIndex" then Some IIndex else if String.eqb n "OpSlice" then Some ISlice
  else if String.eqb n "OpArray" then Some IArray else if String.eqb n "OpMap" then Some IMap
  else if String.eqb n "OpLen" then Some ILen else if String.eqb n "OpBegin" then Some IBegin
  else if String.eqb n "OpEnd" then Some IEnd else None.

Inductive opres := OpI (i : instr) | OpErr (why : string).

(* instructions with a 16-bit operand k *)
Definition operand_instr (cs : list const) (n : string) (k : Z) : opres :=
  let str_const (mk : string -> instr) :=
    match nth_const cs k with
    | Some (CVal (VStr s)) => OpI (mk s)
    | Some _ => OpErr "constant of the wrong kind (string expected)"
    | None => OpErr "constant index out of range"
    end in
  let call_const (mk : string -> nat -> instr) :=
    match nth_const cs k with
    | Some (CCall name sz) => if sz <? 0 then OpErr "negative call size" else OpI (mk name (Z.to_nat sz))
    | Some _ => OpErr "constant of the wrong kind (Call expected)"
    | None => OpErr "constant index out of range"
    end in
  if String.eqb n "OpPush" then
    match nth_const cs k with
    | Some (CVal v) => OpI (IPush v)
    | Some (CCall _ _) => OpI (IPush (VOpaque "vm.Call"))
    | Some (CRegex _) => OpI (IPush (VOpaque "*regexp.Regexp"))
    | None => OpErr "constant index out of range"
    end
  else if String.eqb n "OpFetch" then str_const IFetch
  else if String.eqb n "OpFetchNilSafe" then str_const IFetchNilSafe
  else if String.eqb n "OpFetchMap" then str_const IFetchMap
  else if String.eqb n "OpProperty" then str_const IProperty
  else if String.eqb n "OpPropertyNilSafe" then str_const IPropertyNilSafe
  else if String.eqb n "OpStore" then str_const IStore
  else if String.eqb n "OpLoad" then str_const ILoad
  else if String.eqb n "OpInc" then str_const IInc
  else if String.eqb n "OpJump" then OpI (IJump (Z.to_nat k))
  else if String.eqb n "OpJumpIfTrue" then OpI (IJumpIfTrue (Z.to_nat k))
  else if String.eqb n "OpJumpIfFalse" then OpI (IJumpIfFalse (Z.to_nat k))
  else if String.eqb n "OpJumpBackward" then OpI (IJumpBackward (Z.to_nat k))
  else if String.eqb n "OpMatchesConst" then
    match nth_const cs k with
    | Some (CRegex p) => OpI (IMatchesConst p)
    | Some _ => OpErr "constant of the wrong kind (regexp expected)"
    | None => OpErr "constant index out of range"
    end
  else if String.eqb n "OpCall" then call_const ICall
  else if String.eqb n "OpCallFast" then call_const ICallFast
  else if String.eqb n "OpMethod" then call_const IMethod
  else if String.eqb n "OpMethodNilSafe" then call_const IMethodNilSafe
  else if String.eqb n "OpCast" then
    if (k =? 0) || (k =? 1) then OpI (ICast k) else OpErr "cast operand is neither 0 nor 1"
  else OpErr "unknown opcode".

Fixpoint decode_from (fuel : nat) (cs : list const) (locs : list (Z * loc)) (pos : Z) (bs : list Z) : dres :=
  match fuel with
  | O => match bs with [] => DOk [] | _ => DBad pos "out of fuel" end
  | S fuel' =>
    match bs with
    | [] => DOk []
    | b :: rest =>
        match opname b with
        | None => DBad pos "unknown opcode"
        | Some n =>
            match simple_instr n with
            | Some i =>
                match decode_from fuel' cs locs (pos + 1) rest with
                | DOk c => DOk ((i, loc_at locs pos) :: c)
                | bad => bad
                end
            | None =>
                match rest with
                | b0 :: b1 :: rest' =>
                    match operand_instr cs n (b0 + 256 * b1) with
                    | OpI i =>
                        match decode_from fuel' cs locs (pos + 3) rest' with
                        | DOk c => DOk ((i, loc_at locs pos) :: c)
                        | bad => bad
                        end
                    | OpErr why => DBad pos why
                    end
                | _ => DBad pos "truncated operand"
                end
            end
        end
    end
  end.

Definition decode (p : program) : dres :=
  decode_from (S (List.length (p_bytes p))) (p_consts p) (p_locs p) 0 (p_bytes p).

(* second half of the structural verifier: every jump lands on an instruction boundary inside
   the program or exactly at its end *)
Local Open Scope nat_scope.
Fixpoint boundary (C : code) (p : nat) : bool :=
  match C with
  | [] => Nat.eqb p 0
  | (i, _) :: r => if Nat.eqb p 0 then true else if Nat.ltb p (isize i) then false else boundary r (p - isize i)
  end.

Fixpoint jumps_ok_from (C : code) (pos : nat) (rest : code) : bool :=
  match rest with
  | [] => true
  | (i, _) :: r =>
      let nxt := pos + isize i in
      (match i with
       | IJump off | IJumpIfTrue off | IJumpIfFalse off => boundary C (nxt + off)
       | IJumpBackward off => Nat.leb off nxt && boundary C (nxt - off)
       | _ => true
       end) && jumps_ok_from C nxt r
  end.
Definition jumps_ok (C : code) : bool := jumps_ok_from C 0 C.

(* the structural verifier of C05 on a vm.Program *)
Definition wf_progb (p : program) : bool :=
  match decode p with DOk c => jumps_ok c | DBad _ _ => false end.

(* BC/Compiler.v — model of compiler/compiler.go: code-generation schemes as a compositional
   function expr -> code, jump offsets computed from the sizes of sub-code exactly as
   patchJump / calcBackwardJump compute them.  No proofs here. *)
From Coq Require Import ZArith Bool List String Arith.
Require Import X.Base.Num X.Base.Value X.Syn.Ast X.Sem.Prim X.Sem.Sem X.BC.Instr.
Import ListNotations.
Local Open Scope nat_scope.
Local Open Scope string_scope.
Local Open Scope list_scope.

Definition at_ (l : loc) (is : list instr) : code := map (fun i => (i, l)) is.

(* emitCond *)
Definition cond_code (l : loc) (body : code) : code :=
  at_ l [IJumpIfFalse (1 + csize body + 3); IPop] ++ body ++ at_ l [IJump 1; IPop].

(* emitLoop *)
Definition loop_code (l : loc) (body : code) : code :=
  at_ l [ILen; IStore "size"; IStore "array"; IPush (vint 0); IStore "i"]
  ++ at_ l [ILoad "i"; ILoad "size"; ILess; IJumpIfFalse (1 + csize body + 3 + 3); IPop]
  ++ body
  ++ at_ l [IInc "i"; IJumpBackward (3 + 3 + 1 + 3 + 1 + csize body + 3 + 3); IPop].

Definition binop_code (op : binop) (l r : expr) : list instr :=
  match op with
  | BEq => if both_kind (RKNum KInt) l r then [IEqualInt]
           else if both_kind RKString l r then [IEqualString] else [IEqual]
  | BNe => [IEqual; INot]
  | BIn => [IIn] | BNotIn => [IIn; INot]
  | BLt => [ILess] | BGt => [IMore] | BLe => [ILessOrEqual] | BGe => [IMoreOrEqual]
  | BAdd => [IAdd] | BSub => [ISubtract] | BMul => [IMultiply] | BDiv => [IDivide]
  | BMod => [IModulo] | BPow => [IExponent]
  | BContains => [IContains] | BStartsWith => [IStartsWith] | BEndsWith => [IEndsWith]
  | BRange => [IRange]
  | _ => []
  end.

Section Compile.
Variable mapenv : bool.

Fixpoint compile (e : expr) : code :=
  let here := loc_of e in
  let compile_list := fix compile_list (es : list expr) : code :=
    match es with [] => [] | x :: r => compile x ++ compile_list r end in
  match e with
  | ENil _ => at_ here [INil]
  | EIdent _ name ns =>
      at_ here [if mapenv then IFetchMap name else if ns then IFetchNilSafe name else IFetch name]
  | EInt a z => at_ here [IPush (int_const a z)]
  | EFloat _ f => at_ here [IPush (VNum (NFlt KF64 f))]
  | EBool _ b => at_ here [if b then ITrue else IFalse]
  | EStr _ s => at_ here [IPush (VStr s)]
  | EConst _ v => at_ here [match v with VNil => INil | _ => IPush v end]
  | EUnary _ op x =>
      compile x ++ at_ here (match op with
                             | UNotBang | UNotWord => [INot]
                             | UMinus => [INegate]
                             | _ => []
                             end)
  | EBinary _ op l r =>
      match op with
      | BOrWord | BOrOr =>
          let cr := compile r in
          compile l ++ at_ here [IJumpIfTrue (1 + csize cr); IPop] ++ cr
      | BAndWord | BAndAnd =>
          let cr := compile r in
          compile l ++ at_ here [IJumpIfFalse (1 + csize cr); IPop] ++ cr
      | _ => compile l ++ compile r ++ at_ here (binop_code op l r)
      end
  | EMatches _ re l r =>
      match re_const re r with
      | Some p => compile l ++ at_ here [IMatchesConst p]
      | None => compile l ++ compile r ++ at_ here [IMatches]
      end
  | EProperty _ x name ns =>
      compile x ++ at_ here [if ns then IPropertyNilSafe name else IProperty name]
  | EIndex _ x i => compile x ++ compile i ++ at_ here [IIndex]
  | ESlice _ x from to =>
      compile x
      ++ (match to with Some t => compile t | None => at_ here [ILen] end)
      ++ (match from with Some f => compile f | None => at_ here [IPush (vint 0)] end)
      ++ at_ here [ISlice]
  | EMethod _ x name args ns =>
      compile x ++ compile_list args
      ++ at_ here [if ns then IMethodNilSafe name (List.length args) else IMethod name (List.length args)]
  | EFunction _ name args fast =>
      compile_list args
      ++ at_ here [if fast then ICallFast name (List.length args) else ICall name (List.length args)]
  | EBuiltin _ b args =>
      match b, args with
      | BiLen, [x] => compile x ++ at_ here [ILen; IRot; IPop]
      | BiAll, [x; c] =>
          compile x ++ at_ here [IBegin]
          ++ loop_code here (compile c ++ at_ here [IJumpIfFalse 9; IPop])
          ++ at_ here [ITrue; IEnd]
      | BiNone, [x; c] =>
          compile x ++ at_ here [IBegin]
          ++ loop_code here (compile c ++ at_ here [INot; IJumpIfFalse 9; IPop])
          ++ at_ here [ITrue; IEnd]
      | BiAny, [x; c] =>
          compile x ++ at_ here [IBegin]
          ++ loop_code here (compile c ++ at_ here [IJumpIfTrue 9; IPop])
          ++ at_ here [IFalse; IEnd]
      | BiOne, [x; c] =>
          compile x ++ at_ here [IBegin; IPush (vint 0); IStore "count"]
          ++ loop_code here (compile c ++ cond_code here (at_ here [IInc "count"]))
          ++ at_ here [ILoad "count"; IPush (vint 1); IEqual; IEnd]
      | BiFilter, [x; c] =>
          compile x ++ at_ here [IBegin; IPush (vint 0); IStore "count"]
          ++ loop_code here (compile c ++ cond_code here (at_ here [IInc "count"; ILoad "array"; ILoad "i"; IIndex]))
          ++ at_ here [ILoad "count"; IEnd; IArray]
      | BiMap, [x; c] =>
          compile x ++ at_ here [IBegin]
          ++ loop_code here (compile c)
          ++ at_ here [ILoad "size"; IEnd; IArray]
      | BiCount, [x; c] =>
          compile x ++ at_ here [IBegin; IPush (vint 0); IStore "count"]
          ++ loop_code here (compile c ++ cond_code here (at_ here [IInc "count"]))
          ++ at_ here [ILoad "count"; IEnd]
      | _, _ => []
      end
  | EClosure _ x => compile x
  | EPointer _ => at_ here [ILoad "array"; ILoad "i"; IIndex]
  | ECond _ c x y =>
      let cx := compile x in let cy := compile y in
      compile c ++ at_ here [IJumpIfFalse (1 + csize cx + 3); IPop] ++ cx
      ++ at_ here [IJump (1 + csize cy); IPop] ++ cy
  | EArray _ es =>
      compile_list es ++ at_ here [IPush (vint (Z.of_nat (List.length es))); IArray]
  | EMap _ pairs =>
      (fix compile_pairs (ps : list expr) : code :=
         match ps with
         | [] => []
         | EPair _ k v :: r => compile k ++ compile v ++ compile_pairs r
         | _ :: r => compile_pairs r
         end) pairs
      ++ at_ here [IPush (vint (Z.of_nat (List.length pairs))); IMap]
  | EPair _ _ _ => []
  end.

Fixpoint compile_list (es : list expr) : code :=
  match es with [] => [] | x :: r => compile x ++ compile_list r end.

Fixpoint compile_pairs (ps : list expr) : code :=
  match ps with
  | [] => []
  | EPair _ k v :: r => compile k ++ compile v ++ compile_pairs r
  | _ :: r => compile_pairs r
  end.

End Compile.

(* expressions the Go compiler accepts (no unknown operator / builtin, builtin arities as the
   parser produces them, pairs only inside maps) *)
Fixpoint compilable (e : expr) : bool :=
  let fix all_c (es : list expr) : bool := match es with [] => true | x :: r => compilable x && all_c r end in
  match e with
  | ENil _ | EIdent _ _ _ | EInt _ _ | EFloat _ _ | EBool _ _ | EStr _ _ | EConst _ _ | EPointer _ => true
  | EUnary _ op x => match op with UUnknown _ => false | _ => compilable x end
  | EBinary _ op l r => match op with BUnknown _ => false | _ => compilable l && compilable r end
  | EMatches _ _ l r => compilable l && compilable r
  | EProperty _ x _ _ | EClosure _ x => compilable x
  | EIndex _ x i => compilable x && compilable i
  | ESlice _ x f t =>
      compilable x && match f with Some y => compilable y | None => true end
      && match t with Some y => compilable y | None => true end
  | EMethod _ x _ args _ => compilable x && all_c args
  | EFunction _ _ args _ => all_c args
  | EBuiltin _ b args =>
      match b, args with
      | BiLen, [x] => compilable x
      | BiUnknown _, _ => false
      | BiLen, _ => false
      | _, [x; c] => compilable x && compilable c
      | _, _ => false
      end
  | ECond _ c x y => compilable c && compilable x && compilable y
  | EArray _ es => all_c es
  | EMap _ ps =>
      (fix all_p (ps : list expr) : bool :=
         match ps with
         | [] => true
         | EPair _ k v :: r => compilable k && compilable v && all_p r
         | _ :: _ => false
         end) ps
  | EPair _ _ _ => false
  end.

(* whole program: the result cast of Compile is appended with no location *)
Definition compile_program (mapenv : bool) (c : cast) (e : expr) : code :=
  compile mapenv e ++
  match c with
  | CastNone => []
  | CastInt64 => [(ICast 0, noloc)]
  | CastFloat64 => [(ICast 1, noloc)]
  end.

(* BC/AsmRulesProofs.v — facts about the interpreter of BC/AsmRules.v that do not depend on the regenerated source:
   the reflect primitives of the DSL agree with the reading of BC/Assemble.v (slice_or_map, float_zero, kind_panics) on
   every constant; the item driver only depends on the six functions pointwise. *)
From Coq Require Import ZArith Bool List String Arith Lia Floats.
Require Import X.Base.Num X.Base.Value X.Syn.Ast X.BC.Instr X.BC.Decode X.BC.Assemble X.BC.AsmRules.
Import ListNotations.
Local Open Scope Z_scope.

(* ---- reflect.TypeOf(i).Kind() / reflect.ValueOf(i).Float() == 0 of the DSL = Assemble.v's classification ---- *)
Lemma value_kind_slice_map v :
  match value_kind v with CKSlice | CKMap => slice_or_map v = true | _ => slice_or_map v = false end.
Proof.
  induction v as [| | n | | | | | | | | | nm x IH |]; cbn [value_kind slice_or_map]; try reflexivity.
  - destruct n as [k z|k f]; [reflexivity|]. destruct k; reflexivity.
  - exact IH.
Qed.

Lemma value_kind_float v :
  match value_kind v with
  | CKFloat32 | CKFloat64 => value_float_is_zero v = Some (float_zero v)
  | _ => float_zero v = false
  end.
Proof.
  induction v as [| | n | | | | | | | | | nm x IH |]; cbn [value_kind float_zero value_float_is_zero]; try reflexivity.
  - destruct n as [k z|k f]; [reflexivity|]. destruct k; reflexivity.
  - exact IH.
Qed.

(* the switch of makeConstant on the DSL's kind = the tests of Assemble.const_class *)
Lemma const_kind_spec c :
  match const_kind c with
  | None => kind_panics c = true
  | Some k =>
      kind_panics c = false /\
      match k with
      | CKSlice | CKMap => const_slice_or_map c = true
      | CKFloat32 | CKFloat64 =>
          const_slice_or_map c = false /\ const_float_is_zero c = Some (const_float_zero c)
      | CKOther => const_slice_or_map c = false /\ const_float_zero c = false
      end
  end.
Proof.
  destruct c as [v|n k|p]; cbn [const_kind kind_panics const_slice_or_map const_float_zero const_float_is_zero];
    [|split; [reflexivity|split; reflexivity]|split; [reflexivity|split; reflexivity]].
  assert (G : kind_panics (CVal v) = false ->
              match value_kind v with
              | CKSlice | CKMap => slice_or_map v = true
              | CKFloat32 | CKFloat64 => slice_or_map v = false /\ value_float_is_zero v = Some (float_zero v)
              | CKOther => slice_or_map v = false /\ float_zero v = false
              end).
  { intros _. pose proof (value_kind_slice_map v) as A. pose proof (value_kind_float v) as B.
    destruct (value_kind v); try exact A; split; assumption. }
  destruct v; try (split; [reflexivity|apply G; reflexivity]). reflexivity.
Qed.

(* consequently the DSL classifies exactly like Assemble.const_class: not hashable <-> slice_or_map || float_zero *)
Lemma const_kind_hashable c k : const_kind c = Some k ->
  const_slice_or_map c || const_float_zero c =
  match k with
  | CKSlice | CKMap => true
  | CKFloat32 | CKFloat64 => match const_float_is_zero c with Some b => b | None => false end
  | CKOther => false
  end.
Proof.
  intros H. pose proof (const_kind_spec c) as S. rewrite H in S. destruct S as [_ S].
  destruct k; try (rewrite S; reflexivity); destruct S as [S1 S2]; rewrite S1, S2; reflexivity.
Qed.

(* ---- c.nodes[len(c.nodes)-1] ---- *)
Lemma nth_error_last (nd : list loc) : nd <> [] -> nth_error nd (List.length nd - 1) = Some (List.last nd noloc).
Proof.
  induction nd as [|a r IH]; [contradiction|]. intros _. destruct r as [|b r']; [reflexivity|].
  change (List.last (a :: b :: r') noloc) with (List.last (b :: r') noloc). rewrite <- IH by discriminate.
  cbn [List.length]. replace (S (S (List.length r')) - 1)%nat with (S (List.length r')) by lia.
  replace (S (List.length r') - 1)%nat with (List.length r') by lia. reflexivity.
Qed.

Lemma nodes_top (nd : list loc) : nd <> [] ->
  node_at nd (Z.of_nat (List.length nd) - 1) = Some (List.last nd noloc) /\ (0 <? Z.of_nat (List.length nd)) = true.
Proof.
  intros H. assert (L : (0 < List.length nd)%nat) by (destruct nd; [contradiction|cbn; lia]). split.
  - unfold node_at, zindex. replace (Z.of_nat (List.length nd) - 1) with (Z.of_nat (List.length nd - 1)) by lia.
    rewrite Nat2Z.id. rewrite nth_error_last by exact H. destruct (Z.of_nat (List.length nd - 1)) eqn:E; try reflexivity. lia.
  - apply Z.ltb_lt. lia.
Qed.

Lemma nodes_empty : (0 <? Z.of_nat (@List.length loc [])) = false.
Proof. reflexivity. Qed.

(* ---- the driver depends on the six functions only through their values ---- *)
Definition funcs_eq (F1 F2 : asm_funcs) : Prop :=
  (forall s op b, f_emit F1 s op b = f_emit F2 s op b) /\
  (forall s c, f_make_constant F1 s c = f_make_constant F2 s c) /\
  (forall s, f_placeholder F1 s = f_placeholder F2 s) /\
  (forall s ph, f_patch_jump F1 s ph = f_patch_jump F2 s ph) /\
  (forall s to, f_calc_backward_jump F1 s to = f_calc_backward_jump F2 s to) /\
  (forall s i, f_encode F1 s i = f_encode F2 s i).

Lemma gbind_ext {A B} (r : gres A) (k1 k2 : A -> gres B) : (forall a, k1 a = k2 a) -> gbind r k1 = gbind r k2.
Proof. intros H. destruct r; cbn; [apply H|reflexivity|reflexivity]. Qed.

Lemma fire_ext F1 F2 : funcs_eq F1 F2 -> forall pend s, fire F1 pend s = fire F2 pend s.
Proof.
  intros (_ & _ & _ & Hp & _ & _). induction pend as [|[ph t] r IH]; intros s; cbn [fire]; [reflexivity|].
  destruct (t =? blen s).
  - rewrite Hp. apply gbind_ext. intros a. apply IH.
  - rewrite IH. reflexivity.
Qed.

Lemma drive_item_ext F1 F2 : funcs_eq F1 F2 -> forall it s pend, drive_item F1 it s pend = drive_item F2 it s pend.
Proof.
  intros (He & Hm & Hpl & _ & Hc & Hen) it s pend. destruct it as [i l|c]; cbn [drive_item].
  - destruct (opcode_of (iname i)) as [op|]; [|reflexivity].
    destruct (ioperand i) as [|c|off|k|]; try reflexivity.
    + rewrite He. reflexivity.
    + rewrite Hm. apply gbind_ext. intros a. rewrite He. reflexivity.
    + destruct (is_backward i).
      * rewrite Hc. apply gbind_ext. intros a. rewrite He. reflexivity.
      * rewrite Hpl. apply gbind_ext. intros a. rewrite He. reflexivity.
    + rewrite Hen. apply gbind_ext. intros a. rewrite He. reflexivity.
  - rewrite Hm. reflexivity.
Qed.

Lemma drive_ext F1 F2 : funcs_eq F1 F2 -> forall its s pend, drive F1 its s pend = drive F2 its s pend.
Proof.
  intros H. induction its as [|it r IH]; intros s pend; cbn [drive]; rewrite (fire_ext F1 F2 H).
  - reflexivity.
  - destruct (fire F2 pend s) as [[s1 p1]| |]; try reflexivity.
    rewrite (drive_item_ext F1 F2 H). apply gbind_ext. intros a. apply IH.
Qed.

(* BC/SourceIdentities.v — the identities of C18 (Props/C18.v, proofs in Sem/SemProofs.v) transferred to
   COMPILED code through the capstone of C01 (BC/SourceCorrect.v source_pipeline_correct, in its decidable form
   sjob_run_is_ref): both sides of an identity, compiled by the regenerated compiler schemes
   (gen_compile_program GenSchemes.schemes) and run by the regenerated dispatch loop
   (VMSteps.interp_run .. GenVMSteps.vm_src) on machines in ANY state, return related results.

   Side conditions, stated once:
     pair_ok (bool, executable): for each of the two expressions  compilable, VMSteps.run_guard along the run of its
       code from init_state, and the fuel d is enough for the MODEL run of that code to finish (run_code .. d = Some _).
       The last one is the decidable form of the capstone's `exists d0, forall d, d0 <= d` (as sjob_ok of SourceCorrect.v).
     env_ok (Prop, NOT decidable: a statement about every call of every environment function): fn_no_machine fe,
       kept exactly as it is in the capstone.

   Result relation: the capstone gives equality up to erase_stop_mem (the allocation counter of a FAILED run is not
   compared); the identity gives res_agree / count_vs_len_filter.  Combined: the relation of the identity between the
   erase_stop_mem images of the two compiled runs (runs_rel). *)
From Coq Require Import ZArith Bool List String Arith Lia.
Require Import X.Base.Num X.Base.Value X.Syn.Ast X.Sem.Prim X.Sem.Sem X.Sem.NoMachine X.Sem.SemProofs
               X.BC.Instr X.BC.Compiler X.BC.VM X.BC.RunProofs
               X.BC.Schemes X.gen.GenSchemes X.Bridge.BrSchemes
               X.BC.VMSteps X.gen.GenVMSteps X.Bridge.BrVMSteps X.BC.SourceCorrect.
Import ListNotations.
Local Open Scope nat_scope.

(* ------------------------------------------------------------------ what is run, and the side conditions *)
(* the expression compiled by the regenerated schemes, the code run by the regenerated loop from machine `before` *)
Definition compiled_run (fe : fenv) (cfg : config) (env : value) (c : cast) (e : expr) (d : nat) (before : state)
  : option result :=
  match gen_compile_program schemes (esize e) (c_mapenv cfg) c e with
  | Some P => interp_run fe cfg env P vm_src d before
  | None => None
  end.

(* one side inside the scope of the capstone (decidable) *)
Definition side_ok (fe : fenv) (cfg : config) (env : value) (c : cast) (e : expr) (d : nat) : bool :=
  compilable e &&
  match gen_compile_program schemes (esize e) (c_mapenv cfg) c e with
  | Some P =>
      run_guard fe cfg env P d init_state &&
      match run_code fe cfg env P d with Some _ => true | None => false end
  | None => false
  end.

(* both sides (decidable); d1 / d2 the fuel of the left / right run *)
Definition pair_ok (fe : fenv) (cfg : config) (env : value) (c : cast) (d1 d2 : nat) (e1 e2 : expr) : bool :=
  side_ok fe cfg env c e1 d1 && side_ok fe cfg env c e2 d2.

(* the capstone's hypothesis on the environment functions; not decidable, as in the capstone *)
Definition env_ok (fe : fenv) : Prop := fn_no_machine fe.

(* two runs both finish, and their results are related up to the allocation counter of a failed run *)
Definition runs_rel (R : result -> result -> Prop) (o1 o2 : option result) : Prop :=
  match o1, o2 with
  | Some r1, Some r2 => R (erase_stop_mem r1) (erase_stop_mem r2)
  | _, _ => False
  end.

(* ------------------------------------------------------------------ the capstone, one side *)
Lemma side_run_is_ref fe cfg env c e d before :
  env_ok fe -> side_ok fe cfg env c e d = true ->
  option_map erase_stop_mem (compiled_run fe cfg env c e d before) = Some (erase_stop_mem (run_ref fe cfg env c e)).
Proof.
  intros Hf Hok. unfold side_ok in Hok. apply andb_prop in Hok. destruct Hok as [Hc Hok].
  assert (HP : gen_compile_program schemes (esize e) (c_mapenv cfg) c e = Some (compile_program (c_mapenv cfg) c e)).
  { apply gen_compile_program_is_compile_program; [apply le_n|exact Hc]. }
  unfold compiled_run. rewrite HP in *. apply andb_prop in Hok. destruct Hok as [G Hr].
  rewrite (vm_run_is_source_run fe _ _ _ _ before G).
  destruct (run_code fe cfg env (compile_program (c_mapenv cfg) c e) d) as [r|] eqn:E; [|discriminate Hr].
  destruct (run_program_ref fe cfg env c e Hf Hc) as [d0 Hd0].
  pose proof (run_code_some_mono _ _ _ _ _ _ E (Nat.max d0 d) (Nat.le_max_r _ _)) as E1.
  rewrite (Hd0 _ (Nat.le_max_l _ _)) in E1. injection E1 as <-. reflexivity.
Qed.

(* ------------------------------------------------------------------ the generic transfer *)
Theorem identity_transfer :
  forall (R : result -> result -> Prop) fe cfg env c d1 d2 e1 e2 before1 before2,
    env_ok fe -> pair_ok fe cfg env c d1 d2 e1 e2 = true ->
    R (erase_stop_mem (run_ref fe cfg env c e1)) (erase_stop_mem (run_ref fe cfg env c e2)) ->
    runs_rel R (compiled_run fe cfg env c e1 d1 before1) (compiled_run fe cfg env c e2 d2 before2).
Proof.
  intros R fe cfg env c d1 d2 e1 e2 b1 b2 Hf Hok HR.
  unfold pair_ok in Hok. apply andb_prop in Hok. destruct Hok as [H1 H2].
  pose proof (side_run_is_ref fe cfg env c e1 d1 b1 Hf H1) as E1.
  pose proof (side_run_is_ref fe cfg env c e2 d2 b2 Hf H2) as E2.
  unfold runs_rel.
  destruct (compiled_run fe cfg env c e1 d1 b1) as [r1|]; [|discriminate E1].
  destruct (compiled_run fe cfg env c e2 d2 b2) as [r2|]; [|discriminate E2].
  cbn [option_map] in *. injection E1 as ->. injection E2 as ->. exact HR.
Qed.

(* res_agree passes through the result cast and through erase_stop_mem *)
Lemma res_agree_rbind la lb r1 r2 k :
  res_agree la lb r1 r2 -> res_agree la lb (rbind r1 k) (rbind r2 k).
Proof.
  destruct r1 as [v s|e l s], r2 as [v' s'|e' l' s']; cbn; try contradiction.
  - intros [-> ->]. apply res_agree_refl.
  - auto.
Qed.

Lemma res_agree_erase la lb r1 r2 :
  res_agree la lb r1 r2 -> res_agree la lb (erase_stop_mem r1) (erase_stop_mem r2).
Proof.
  destruct r1 as [v s|e l s], r2 as [v' s'|e' l' s']; cbn; try contradiction; auto.
  intros [-> [-> H]]. auto.
Qed.

(* the transfer for the identities stated with res_agree: any result cast *)
Theorem agree_transfer :
  forall la lb fe cfg env c d1 d2 e1 e2 before1 before2,
    env_ok fe -> pair_ok fe cfg env c d1 d2 e1 e2 = true ->
    res_agree la lb (eval fe cfg env [] e1 rs0) (eval fe cfg env [] e2 rs0) ->
    runs_rel (res_agree la lb) (compiled_run fe cfg env c e1 d1 before1) (compiled_run fe cfg env c e2 d2 before2).
Proof.
  intros la lb fe cfg env c d1 d2 e1 e2 b1 b2 Hf Hok H.
  apply identity_transfer; [exact Hf|exact Hok|].
  apply res_agree_erase. unfold run_ref. apply res_agree_rbind. exact H.
Qed.

Lemma run_ref_nocast fe cfg env e : run_ref fe cfg env CastNone e = eval fe cfg env [] e rs0.
Proof. unfold run_ref. destruct (eval fe cfg env [] e rs0); reflexivity. Qed.

Lemma erase_done_inv r v s : erase_stop_mem r = Done v s -> r = Done v s.
Proof. destruct r; cbn; intros H; [exact H|discriminate H]. Qed.

(* ------------------------------------------------------------------ 1. all(xs, {p}) = not any(xs, {not p}) *)
Theorem compiled_all_not_any_not :
  forall fe cfg env c d1 d2 before1 before2 a1 a2 a3 a4 a5 a6 n1 n2 x p,
    env_ok fe ->
    pair_ok fe cfg env c d1 d2
      (EBuiltin a1 BiAll [x; EClosure a2 p])
      (EUnary a3 n1 (EBuiltin a4 BiAny [x; EClosure a5 (EUnary a6 n2 p)])) = true ->
    is_not n1 = true -> is_not n2 = true ->
    runs_rel (res_agree [aloc a1] [aloc a4; aloc a6])
      (compiled_run fe cfg env c (EBuiltin a1 BiAll [x; EClosure a2 p]) d1 before1)
      (compiled_run fe cfg env c (EUnary a3 n1 (EBuiltin a4 BiAny [x; EClosure a5 (EUnary a6 n2 p)])) d2 before2).
Proof.
  intros. apply agree_transfer; [assumption|assumption|].
  apply C18_all_not_any_not; assumption.
Qed.

(* ------------------------------------------------------------------ 2. none(xs, c) = not any(xs, c) *)
Theorem compiled_none_not_any :
  forall fe cfg env c d1 d2 before1 before2 a1 a3 a4 n1 x cl,
    env_ok fe ->
    pair_ok fe cfg env c d1 d2 (EBuiltin a1 BiNone [x; cl]) (EUnary a3 n1 (EBuiltin a4 BiAny [x; cl])) = true ->
    is_not n1 = true ->
    runs_rel (res_agree [aloc a1] [aloc a4])
      (compiled_run fe cfg env c (EBuiltin a1 BiNone [x; cl]) d1 before1)
      (compiled_run fe cfg env c (EUnary a3 n1 (EBuiltin a4 BiAny [x; cl])) d2 before2).
Proof.
  intros. apply agree_transfer; [assumption|assumption|].
  apply C18_none_not_any; assumption.
Qed.

(* ------------------------------------------------------------------ 3. one(xs, c) = (count(xs, c) == 1) *)
Theorem compiled_one_count_eq_1 :
  forall fe cfg env c d1 d2 before1 before2 a1 a2 a3 a4 x cl,
    env_ok fe ->
    pair_ok fe cfg env c d1 d2
      (EBuiltin a1 BiOne [x; cl]) (EBinary a2 BEq (EBuiltin a3 BiCount [x; cl]) (EInt a4 1)) = true ->
    int_const a4 1 = vint 1 ->
    both_kind RKString (EBuiltin a3 BiCount [x; cl]) (EInt a4 1) = false ->
    runs_rel (res_agree [aloc a1] [aloc a3])
      (compiled_run fe cfg env c (EBuiltin a1 BiOne [x; cl]) d1 before1)
      (compiled_run fe cfg env c (EBinary a2 BEq (EBuiltin a3 BiCount [x; cl]) (EInt a4 1)) d2 before2).
Proof.
  intros. apply agree_transfer; [assumption|assumption|].
  apply C18_one_count_eq_1; assumption.
Qed.

(* ------------------------------------------------------------------ 4. count(xs, c) = len(filter(xs, c)) *)
(* count_vs_len_filter between the erase_stop_mem images: the refusal of the right side for the budget is a FAILED
   run, so its allocation counter is the erased one (0); everything else as in Sem/SemProofs.v *)
Definition count_vs_len_filter_run (cfg : config) (la lb : list loc) (lf : loc) (r1 r2 : result) : Prop :=
  match r1 with
  | Done v s1 => exists n, v = vint n /\
      r2 = if (c_limit cfg <=? r_mem s1 + n)%Z then Stop EBudget lf (mkRS 0 (r_trace s1))
           else Done (vint n) (add_mem n s1)
  | Stop _ _ _ => res_agree la lb r1 r2
  end.

Lemma count_vs_len_filter_erase cfg la lb lf r1 r2 :
  count_vs_len_filter cfg la lb lf r1 r2 ->
  count_vs_len_filter_run cfg la lb lf (erase_stop_mem r1) (erase_stop_mem r2).
Proof.
  destruct r1 as [v s|e l s]; cbn [count_vs_len_filter count_vs_len_filter_run erase_stop_mem].
  - intros [n [-> ->]]. exists n. split; [reflexivity|].
    destruct (c_limit cfg <=? r_mem s + n)%Z; reflexivity.
  - intros H. apply (res_agree_erase la lb (Stop e l s) r2 H).
Qed.

(* without a result cast (a cast would act on the two sides' results, which differ in the allocation counter) *)
Theorem compiled_count_len_filter :
  forall fe cfg env d1 d2 before1 before2 a1 a2 a3 x cl,
    env_ok fe ->
    pair_ok fe cfg env CastNone d1 d2
      (EBuiltin a1 BiCount [x; cl]) (EBuiltin a2 BiLen [EBuiltin a3 BiFilter [x; cl]]) = true ->
    (forall v s1, eval fe cfg env [] x rs0 = Done v s1 -> arr_ok v) ->
    runs_rel (count_vs_len_filter_run cfg [aloc a1] [aloc a3] (aloc a3))
      (compiled_run fe cfg env CastNone (EBuiltin a1 BiCount [x; cl]) d1 before1)
      (compiled_run fe cfg env CastNone (EBuiltin a2 BiLen [EBuiltin a3 BiFilter [x; cl]]) d2 before2).
Proof.
  intros fe cfg env d1 d2 b1 b2 a1 a2 a3 x cl Hf Hok Harr.
  apply identity_transfer; [exact Hf|exact Hok|].
  rewrite !run_ref_nocast. apply count_vs_len_filter_erase.
  apply C18_count_len_filter. exact Harr.
Qed.

(* ------------------------------------------------------------------ 5. len(map(xs, f)) = len(xs) *)
Theorem compiled_len_map :
  forall fe cfg env d1 d2 before1 before2 a1 a2 a3 x cl v s2,
    env_ok fe ->
    pair_ok fe cfg env CastNone d1 d2
      (EBuiltin a1 BiLen [EBuiltin a2 BiMap [x; cl]]) (EBuiltin a3 BiLen [x]) = true ->
    compiled_run fe cfg env CastNone (EBuiltin a1 BiLen [EBuiltin a2 BiMap [x; cl]]) d1 before1 = Some (Done v s2) ->
    exists s1, compiled_run fe cfg env CastNone (EBuiltin a3 BiLen [x]) d2 before2 = Some (Done v s1).
Proof.
  intros fe cfg env d1 d2 b1 b2 a1 a2 a3 x cl v s2 Hf Hok Hrun.
  unfold pair_ok in Hok. apply andb_prop in Hok. destruct Hok as [H1 H2].
  pose proof (side_run_is_ref fe cfg env CastNone _ d1 b1 Hf H1) as E1.
  rewrite Hrun, run_ref_nocast in E1. cbn [option_map] in E1. injection E1 as E1.
  change (erase_stop_mem (Done v s2)) with (Done v s2) in E1. symmetry in E1. apply erase_done_inv in E1.
  destruct (C18_len_map fe cfg env [] a1 a2 a3 x cl rs0 v s2 E1) as [s1 Hs].
  pose proof (side_run_is_ref fe cfg env CastNone _ d2 b2 Hf H2) as E2.
  rewrite run_ref_nocast, Hs in E2.
  destruct (compiled_run fe cfg env CastNone (EBuiltin a3 BiLen [x]) d2 b2) as [r2|]; [|discriminate E2].
  cbn [option_map] in E2. injection E2 as E2.
  change (erase_stop_mem (Done v s1)) with (Done v s1) in E2. apply erase_done_inv in E2.
  exists s1. rewrite E2. reflexivity.
Qed.

(* ------------------------------------------------------------------ non-vacuity: a NESTED instance *)
(* count(filter([1, 2, 3, 4], {# > 1}), {# > 2})  against  len(filter(filter([1, 2, 3, 4], {# > 1}), {# > 2})):
   the collection is itself a filter over an array literal, both predicates use # *)
Definition id_xs : expr :=
  EBuiltin ann0 BiFilter [EArray ann0 [EInt ann0 1; EInt ann0 2; EInt ann0 3; EInt ann0 4];
                          EClosure ann0 (EBinary ann0 BGt (EPointer ann0) (EInt ann0 1))].
Definition id_p : expr := EClosure ann0 (EBinary ann0 BGt (EPointer ann0) (EInt ann0 2)).
Definition id_lhs : expr := EBuiltin ann0 BiCount [id_xs; id_p].
Definition id_rhs : expr := EBuiltin ann0 BiLen [EBuiltin ann0 BiFilter [id_xs; id_p]].

(* pair_ok holds; both compiled runs (the left one on a dirty machine) return 2; the allocation counter of the right
   side is higher by the count; under budget 8 the right side is refused and the left is not (pair_ok still holds) *)
Example compiled_count_len_filter_nonvacuous :
  pair_ok w_fe w_cfg VNil CastNone 10 10 id_lhs id_rhs = true /\
  compiled_run w_fe w_cfg VNil CastNone id_lhs 10 cap_dirty = Some (Done (vint 2) (mkRS 7 [])) /\
  compiled_run w_fe w_cfg VNil CastNone id_rhs 10 init_state = Some (Done (vint 2) (mkRS 9 [])) /\
  pair_ok w_fe (mkCfg false 8) VNil CastNone 10 10 id_lhs id_rhs = true /\
  compiled_run w_fe (mkCfg false 8) VNil CastNone id_lhs 10 cap_dirty = Some (Done (vint 2) (mkRS 7 [])) /\
  option_map erase_stop_mem (compiled_run w_fe (mkCfg false 8) VNil CastNone id_rhs 10 init_state)
  = Some (Stop EBudget noloc (mkRS 0 [])).
Proof. vm_compute. repeat split; reflexivity. Qed.

(* BC/VM.v — model of the dispatch loop of VM.Run in vm/vm.go over the IR (pc = byte offset).
   No proofs here. *)
From Coq Require Import ZArith Bool List String Arith.
Require Import X.Base.Num X.Base.Value X.Sem.Prim X.Sem.Sem X.BC.Instr.
Import ListNotations.
Local Open Scope nat_scope.
Local Open Scope string_scope.
Local Open Scope list_scope.

Definition scope := list (string * value).
Fixpoint sget (sc : scope) (k : string) : option value :=
  match sc with [] => None | (k', v) :: r => if String.eqb k' k then Some v else sget r k end.
Definition sset (sc : scope) (k : string) (v : value) : scope := (k, v) :: sc.

Record state := mkSt { pc : nat; stk : list value; scs : list scope; rs : rstate }.

Inductive sres :=
| Next (s : state)
| Crash (e : err) (l : loc) (s : rstate).

(* pop n values; they come back in push order *)
Fixpoint popn (n : nat) (st : list value) (acc : list value) : option (list value * list value) :=
  match n with
  | O => Some (acc, st)
  | S n' => match st with v :: st' => popn n' st' (v :: acc) | [] => None end
  end.

Fixpoint pop_pairs (n : nat) (st : list value) (acc : list (value * value)) : option (list (value * value) * list value) :=
  match n with
  | O => Some (acc, st)
  | S n' => match st with v :: k :: st' => pop_pairs n' st' ((k, v) :: acc) | _ => None end
  end.

Section Machine.
Variable fe : fenv.
Variable cfg : config.
Variable env : value.
Variable C : code.

Definition of_result (pc' : nat) (st : list value) (sc : list scope) (r : result) : sres :=
  match r with
  | Done v s' => Next (mkSt pc' (v :: st) sc s')
  | Stop e l s' => Crash e l s'
  end.

Definition bin (l : loc) (s : state) (pc' : nat) (f : value -> value -> outcome value) : sres :=
  match stk s with
  | b :: a :: st => match f a b with
                    | Ok v => Next (mkSt pc' (v :: st) (scs s) (rs s))
                    | Fail e => Crash e l (rs s)
                    end
  | _ => Crash EMachine l (rs s)
  end.

Definition bool_res (o : outcome bool) : outcome value :=
  match o with Ok b => Ok (VBool b) | Fail e => Fail e end.

Definition step (s : state) : sres :=
  match fetch C (pc s) with
  | None => Crash EMachine noloc (rs s)
  | Some (i, l) =>
    let pc' := pc s + isize i in
    let st := stk s in
    let push v := Next (mkSt pc' (v :: st) (scs s) (rs s)) in
    let crash e := Crash e l (rs s) in
    match i with
    | IPush v => push v
    | IPop => match st with _ :: st' => Next (mkSt pc' st' (scs s) (rs s)) | [] => crash EMachine end
    | IRot => match st with b :: a :: st' => Next (mkSt pc' (a :: b :: st') (scs s) (rs s)) | _ => crash EMachine end
    | IFetch name => match p_fetch env (VStr name) false with Ok v => push v | Fail e => crash e end
    | IFetchNilSafe name => match p_fetch env (VStr name) true with Ok v => push v | Fail e => crash e end
    | IFetchMap name =>
        match env with
        | VMap TString TIface m => push (match assoc_val (VStr name) m with Some v => v | None => VNil end)
        | VNilMap TString TIface => push VNil
        | _ => crash EIfaceConv
        end
    | ITrue => push (VBool true)
    | IFalse => push (VBool false)
    | INil => push VNil
    | INegate =>
        match st with
        | v :: st' => match p_negate v with Ok r => Next (mkSt pc' (r :: st') (scs s) (rs s)) | Fail e => crash e end
        | [] => crash EMachine
        end
    | INot =>
        match st with
        | v :: st' => match as_bool v with Ok b => Next (mkSt pc' (VBool (negb b) :: st') (scs s) (rs s)) | Fail e => crash e end
        | [] => crash EMachine
        end
    | IEqual => bin l s pc' p_equal
    | IEqualInt => bin l s pc' (fun a b => match as_int a with Ok x => match as_int b with Ok y => Ok (VBool (Z.eqb x y)) | Fail e => Fail e end | Fail e => Fail e end)
    | IEqualString => bin l s pc' (fun a b => match as_str a with Ok x => match as_str b with Ok y => Ok (VBool (String.eqb x y)) | Fail e => Fail e end | Fail e => Fail e end)
    | IJump off => Next (mkSt (pc' + off) st (scs s) (rs s))
    | IJumpIfTrue off =>
        match st with
        | v :: _ => match as_bool v with
                    | Ok b => Next (mkSt (if b then pc' + off else pc') st (scs s) (rs s))
                    | Fail e => crash e end
        | [] => crash EMachine
        end
    | IJumpIfFalse off =>
        match st with
        | v :: _ => match as_bool v with
                    | Ok b => Next (mkSt (if b then pc' else pc' + off) st (scs s) (rs s))
                    | Fail e => crash e end
        | [] => crash EMachine
        end
    | IJumpBackward off =>
        if Nat.ltb pc' off then crash EMachine else Next (mkSt (pc' - off) st (scs s) (rs s))
    | IIn => bin l s pc' (fun a b => bool_res (p_in a b))
    | ILess => bin l s pc' (p_helper HLess)
    | IMore => bin l s pc' (p_helper HMore)
    | ILessOrEqual => bin l s pc' (p_helper HLessOrEqual)
    | IMoreOrEqual => bin l s pc' (p_helper HMoreOrEqual)
    | IAdd => bin l s pc' (p_helper HAdd)
    | ISubtract => bin l s pc' (p_helper HSubtract)
    | IMultiply => bin l s pc' (p_helper HMultiply)
    | IDivide => bin l s pc' (p_helper HDivide)
    | IModulo => bin l s pc' (p_helper HModulo)
    | IExponent => bin l s pc' (fun a b => match to_float64 a with Ok x => match to_float64 b with Ok y => Ok (VNum (NFlt KF64 (f_pow fe x y))) | Fail e => Fail e end | Fail e => Fail e end)
    | IRange =>
        match st with
        | b :: a :: st' =>
            match to_int a with
            | Fail e => crash e
            | Ok lo => match to_int b with
              | Fail e => crash e
              | Ok hi => match range_size lo hi with
                | None => crash EBudget
                | Some n => of_result pc' st' (scs s) (alloc cfg l n (rs s) (fun s3 => Done (make_range lo hi) s3))
                end end end
        | _ => crash EMachine
        end
    | IMatches => bin l s pc' (fun a b => match as_str b with Ok p => match as_str a with Ok x =>
                      match re_match fe p x with Some r => Ok (VBool r) | None => Fail ERegexp end
                      | Fail e => Fail e end | Fail e => Fail e end)
    | IMatchesConst p =>
        match st with
        | a :: st' => match as_str a with
                      | Ok x => match re_match fe p x with
                                | Some r => Next (mkSt pc' (VBool r :: st') (scs s) (rs s))
                                | None => crash ERegexp end
                      | Fail e => crash e end
        | [] => crash EMachine
        end
    | IContains => bin l s pc' (fun a b => match as_str a with Ok x => match as_str b with Ok y => Ok (VBool (str_contains x y)) | Fail e => Fail e end | Fail e => Fail e end)
    | IStartsWith => bin l s pc' (fun a b => match as_str a with Ok x => match as_str b with Ok y => Ok (VBool (str_prefix y x)) | Fail e => Fail e end | Fail e => Fail e end)
    | IEndsWith => bin l s pc' (fun a b => match as_str a with Ok x => match as_str b with Ok y => Ok (VBool (str_suffix y x)) | Fail e => Fail e end | Fail e => Fail e end)
    | IIndex => bin l s pc' (fun a b => p_fetch a b false)
    | ISlice =>
        match st with
        | from :: to :: node :: st' =>
            match p_slice node from to with
            | Ok v => Next (mkSt pc' (v :: st') (scs s) (rs s))
            | Fail e => crash e end
        | _ => crash EMachine
        end
    | IProperty name =>
        match st with
        | a :: st' => match p_fetch a (VStr name) false with Ok v => Next (mkSt pc' (v :: st') (scs s) (rs s)) | Fail e => crash e end
        | [] => crash EMachine
        end
    | IPropertyNilSafe name =>
        match st with
        | a :: st' => match p_fetch a (VStr name) true with Ok v => Next (mkSt pc' (v :: st') (scs s) (rs s)) | Fail e => crash e end
        | [] => crash EMachine
        end
    | ICall name n =>
        match popn n st [] with
        | Some (args, st') =>
            match fetch_fn fe env name with
            | Ok id => of_result pc' st' (scs s) (do_call fe l false id env args (rs s))
            | Fail e => crash e end
        | None => crash EMachine
        end
    | ICallFast name n =>
        match popn n st [] with
        | Some (args, st') =>
            match fetch_fn fe env name with
            | Ok id => of_result pc' st' (scs s) (do_call fe l true id env args (rs s))
            | Fail e => crash e end
        | None => crash EMachine
        end
    | IMethod name n =>
        match popn n st [] with
        | Some (args, obj :: st') =>
            match fetch_fn fe obj name with
            | Ok id => of_result pc' st' (scs s) (do_call fe l false id obj args (rs s))
            | Fail e => crash e end
        | _ => crash EMachine
        end
    | IMethodNilSafe name n =>
        match popn n st [] with
        | Some (args, obj :: st') =>
            match obj with
            | VNil => Next (mkSt pc' (VNil :: st') (scs s) (rs s))
            | _ => if fetch_fn_zero obj name then Next (mkSt pc' (VNil :: st') (scs s) (rs s)) else
                   match fetch_fn fe obj name with
                   | Ok id => of_result pc' st' (scs s) (do_call fe l false id obj args (rs s))
                   | Fail e => crash e end
            end
        | _ => crash EMachine
        end
    | IArray =>
        match st with
        | v :: st0 =>
            match as_int v with
            | Fail e => crash e
            | Ok n =>
                if (n <? 0)%Z then crash EOther else
                if (Z.of_nat (List.length st0) <? n)%Z then crash EMachine else
                match popn (Z.to_nat n) st0 [] with
                | Some (xs, st') => of_result pc' st' (scs s) (alloc cfg l n (rs s) (fun s3 => Done (VArr TIface xs) s3))
                | None => crash EMachine
                end
            end
        | [] => crash EMachine
        end
    | IMap =>
        match st with
        | v :: st0 =>
            match as_int v with
            | Fail e => crash e
            | Ok n =>
                if (n <? 0)%Z then crash EOther else
                if (Z.of_nat (List.length st0) <? 2 * n)%Z then crash EMachine else
                match pop_pairs (Z.to_nat n) st0 [] with
                | Some (kvs, st') =>
                    match keys_as_str kvs with
                    | Ok skvs => of_result pc' st' (scs s)
                                   (alloc cfg l n (rs s) (fun s3 => Done (VMap TString TIface (build_map skvs)) s3))
                    | Fail e => crash e
                    end
                | None => crash EMachine
                end
            end
        | [] => crash EMachine
        end
    | ILen =>
        match st with
        | v :: _ => match p_length v with Ok n => push (vint n) | Fail e => crash e end
        | [] => crash EMachine
        end
    | ICast t =>
        if (t =? 0)%Z then
          match st with
          | v :: st' => match to_int64 v with Ok r => Next (mkSt pc' (r :: st') (scs s) (rs s)) | Fail e => crash e end
          | [] => crash EMachine end
        else if (t =? 1)%Z then
          match st with
          | v :: st' => match to_float64 v with Ok f => Next (mkSt pc' (VNum (NFlt KF64 f) :: st') (scs s) (rs s)) | Fail e => crash e end
          | [] => crash EMachine end
        else Next (mkSt pc' st (scs s) (rs s))
    | IStore k =>
        match st with
        | v :: st' =>
            match scs s with
            | sc :: r => Next (mkSt pc' st' (sset sc k v :: r) (rs s))
            | [] => crash ENilDeref
            end
        | [] => crash EMachine
        end
    | ILoad k =>
        match scs s with
        | sc :: _ => push (match sget sc k with Some v => v | None => VNil end)
        | [] => push VNil
        end
    | IInc k =>
        match scs s with
        | sc :: r =>
            match sget sc k with
            | Some v => match as_int v with
                        | Ok n => Next (mkSt pc' st (sset sc k (vint (n + 1)%Z) :: r) (rs s))   (* loop counters stay below 2^63: no wrap modelled *)
                        | Fail e => crash e end
            | None => crash EIfaceConv
            end
        | [] => crash EIfaceConv
        end
    | IBegin => Next (mkSt pc' st ([] :: scs s) (rs s))
    | IEnd => match scs s with _ :: r => Next (mkSt pc' st r (rs s)) | [] => crash EMachine end
    end
  end.

(* the loop `for vm.ip < len(vm.bytecode)` and the epilogue *)
(* Finished carries the machine state in which the loop stopped (what a reused VM keeps) *)
Inductive rres := Running (s : state) | Finished (r : result) (last : state).

Definition tick (s : state) : rres :=
  if Nat.ltb (pc s) (csize C) then
    match step s with
    | Next s' => Running s'
    | Crash e l s' => Finished (Stop e l s') s
    end
  else Finished (Done (match stk s with v :: _ => v | [] => VNil end) (rs s))
                (mkSt (pc s) (match stk s with _ :: t => t | [] => [] end) (scs s) (rs s)).

(* runs up to 2^d steps *)
Fixpoint run_depth (d : nat) (s : state) : rres :=
  match d with
  | O => tick s
  | S d' => match run_depth d' s with
            | Running s' => run_depth d' s'
            | r => r
            end
  end.

End Machine.

Definition init_state : state := mkSt 0 [] [] rs0.

Definition run_code (fe : fenv) (cfg : config) (env : value) (C : code) (depth : nat) : option result :=
  match run_depth fe cfg env C depth init_state with
  | Finished r _ => Some r
  | Running _ => None          (* out of fuel *)
  end.

(* BC/NilSafeFn.v — what a method call does when FetchFn finds a map entry that is no function.

   vm/runtime.go FetchFn ends a map lookup with `value.Elem()`: for an entry that is a nil interface (element type
   interface{}) or a nil pointer (element type a pointer type) that is the ZERO reflect.Value, returned without a
   panic.  The OpMethod arm of vm/vm.go goes on to `.Call(in)`, which panics ("call of reflect.Value.Call on zero
   Value"); the OpMethodNilSafe arm asks `fn.IsValid()` and pushes nil.  Prim.fetch_fn_zero is that test; the
   reference semantics (Sem.eval, EMethod) and the model VM (IMethodNilSafe) consult it.  This file states the
   two behaviours in closed form and replays the inputs of the Go probe quoted in Sem/Prim.v. *)
From Coq Require Import ZArith Bool List String Arith Lia.
Require Import X.Base.Num X.Base.Value X.Syn.Ast X.Sem.Prim X.Sem.Sem X.BC.Instr X.BC.Compiler X.BC.VM X.BC.CompileProofs.
Import ListNotations.
Local Open Scope string_scope.
Local Open Scope list_scope.

(* the receiver of a nil-safe method call for which the call is skipped and nil is the answer *)
Definition skips_call (v : value) (name : string) : bool :=
  match v with VNil => true | _ => fetch_fn_zero v name end.

(* the zero Value is not callable: the plain call fails in reflect, for every function environment *)
Lemma zero_fn_not_callable fe v name : fetch_fn_zero v name = true -> fetch_fn fe v name = Fail EReflect.
Proof.
  destruct v; cbn [fetch_fn_zero]; try discriminate.
  unfold fetch_fn. cbn [type_name_of].
  destruct (assoc_val (VStr name) m) as [x|]; [|discriminate].
  destruct x; try discriminate; destruct et; try discriminate; reflexivity.
Qed.

(* ... and a receiver that is no map (or whose entry is anything else) never skips the call unless it is nil *)
Lemma fetch_fn_zero_inv v name : fetch_fn_zero v name = true ->
  exists kt et m, v = VMap kt et m /\
    ((et = TIface /\ assoc_val (VStr name) m = Some VNil) \/
     (et <> TIface /\ exists t, assoc_val (VStr name) m = Some (VNilPtr t))).
Proof.
  destruct v; cbn [fetch_fn_zero]; try discriminate. intros H. exists kt, et, m. split; [reflexivity|].
  destruct (assoc_val (VStr name) m) as [x|]; [|discriminate].
  destruct x; try discriminate.
  - left. destruct et; try discriminate. split; reflexivity.
  - right. split; [destruct et; try discriminate; intros E; discriminate E|]. exists t. reflexivity.
Qed.

Section Method.
Variable fe : fenv.
Variable cfg : config.
Variable env : value.
Notation ev := (eval fe cfg env).
Notation evl := (evl fe cfg env).

(* nil-safe: receiver, then ALL arguments (their calls are logged, their allocations counted), then nil exactly
   when the receiver is nil or FetchFnNil yields the zero Value; otherwise the call *)
Theorem nilsafe_method_closed_form ctx a x name args s :
  ev ctx (EMethod a x name args true) s =
  match ev ctx x s with
  | Stop e l s1 => Stop e l s1
  | Done v s1 =>
      match evl ctx args s1 with
      | LStop e l s2 => Stop e l s2
      | LDone vs s2 =>
          if skips_call v name then Done VNil s2
          else lift (aloc a) s2 (fetch_fn fe v name) (fun id => do_call fe (aloc a) false id v vs s2)
      end
  end.
Proof.
  rewrite eval_method_eq. destruct (ev ctx x s) as [v s1|e l s1]; cbn [rbind]; [|reflexivity].
  rewrite eval_list_evl. destruct (evl ctx args s1) as [vs s2|e l s2]; [|reflexivity].
  destruct v; reflexivity.
Qed.

(* plain: the same evaluation order, never skipped; on a zero Value it fails in reflect AT THE CALL NODE, after
   the arguments *)
Theorem plain_method_closed_form ctx a x name args s :
  ev ctx (EMethod a x name args false) s =
  match ev ctx x s with
  | Stop e l s1 => Stop e l s1
  | Done v s1 =>
      match evl ctx args s1 with
      | LStop e l s2 => Stop e l s2
      | LDone vs s2 =>
          if fetch_fn_zero v name then Stop EReflect (aloc a) s2
          else lift (aloc a) s2 (fetch_fn fe v name) (fun id => do_call fe (aloc a) false id v vs s2)
      end
  end.
Proof.
  rewrite eval_method_eq. destruct (ev ctx x s) as [v s1|e l s1]; cbn [rbind]; [|reflexivity].
  rewrite eval_list_evl. destruct (evl ctx args s1) as [vs s2|e l s2]; [|reflexivity].
  cbn [andb]. destruct (fetch_fn_zero v name) eqn:Z; [|reflexivity].
  rewrite (zero_fn_not_callable fe v name Z). reflexivity.
Qed.

(* the two spellings differ exactly there: whenever the call is not skipped they are one computation *)
Corollary nilsafe_is_plain_unless_skipped ctx a x name args s :
  (forall v s1, ev ctx x s = Done v s1 -> skips_call v name = false) ->
  ev ctx (EMethod a x name args true) s = ev ctx (EMethod a x name args false) s.
Proof.
  intros H. rewrite nilsafe_method_closed_form, plain_method_closed_form.
  destruct (ev ctx x s) as [v s1|e l s1] eqn:E; [|reflexivity].
  specialize (H v s1 eq_refl). destruct (evl ctx args s1) as [vs s2|e l s2]; [|reflexivity].
  rewrite H. destruct v; cbn [skips_call] in H; try discriminate H; try rewrite H; reflexivity.
Qed.
End Method.

(* ------------------------------------------------------------------ the inputs of the Go probe, replayed *)
(* M = map[string]interface{}{nili: nil, nilp: typed nil pointer, f: a function, i: 5}; MP = map[string]*T{nilp: nil, pt: &T{}}.
   Observed on vm.Run (probe of 2026-09-23, text in Sem/Prim.v):
     M?.nili() = nil      M.nili()  reflect error      MP?.nilp() = nil     MP.nilp() reflect error
     M?.nilp() reflect error (a ptr Value is valid)    M?.missing() "cannot get"   M?.i() reflect error *)
Definition w_fe : fenv :=
  mkFenv (fun id => if String.eqb id "f" then Some (mkSig [] false 1 false) else None)
         (fun _ _ _ => Ok (VNum (NInt KInt 1))) (fun _ _ _ => None) (fun _ _ => None) (fun x _ => x).
Definition w_M : value :=
  VMap TString TIface [(VStr "f", VFunc "f" (TFunc [] false [TNum KInt])); (VStr "i", VNum (NInt KInt 5));
                       (VStr "nili", VNil); (VStr "nilp", VNilPtr (TStruct "T"))].
Definition w_MP : value :=
  VMap TString (TPtr (TStruct "T")) [(VStr "nilp", VNilPtr (TStruct "T")); (VStr "pt", VStruct "T" true [("A", VNum (NInt KInt 2))])].
Definition w_env : value := VStruct "E" true [("M", w_M); ("MP", w_MP); ("N", VNil)].
Definition w_cfg : config := mkCfg false 1000.
Definition w_call (recv name : string) (ns : bool) : expr :=
  EMethod (at_loc (1, 3)%Z) (EIdent (at_loc (1, 0)%Z) recv false) name [] ns.

(* reference semantics and the model compiler's code on the model VM, side by side *)
Definition w_both (e : expr) : result * option result :=
  (run_ref w_fe w_cfg w_env CastNone e, run_code w_fe w_cfg w_env (compile_program false CastNone e) 10).
Definition w_class (r : result * option result) : option (option err) :=
  match r with
  | (Done VNil _, Some (Done VNil _)) => Some None
  | (Stop e _ _, Some (Stop e' _ _)) => if err_eqb e e' then Some (Some e) else None
  | _ => None
  end.

Definition probe_replayed_statement : Prop :=
     w_class (w_both (w_call "M" "nili" true)) = Some None
  /\ w_class (w_both (w_call "M" "nili" false)) = Some (Some EReflect)
  /\ w_class (w_both (w_call "MP" "nilp" true)) = Some None
  /\ w_class (w_both (w_call "MP" "nilp" false)) = Some (Some EReflect)
  /\ w_class (w_both (w_call "M" "nilp" true)) = Some (Some EReflect)
  /\ w_class (w_both (w_call "M" "nilp" false)) = Some (Some EReflect)
  /\ w_class (w_both (w_call "M" "i" true)) = Some (Some EReflect)
  /\ w_class (w_both (w_call "MP" "pt" true)) = Some (Some EReflect)
  /\ w_class (w_both (w_call "M" "missing" true)) = Some (Some ECannotFetch)
  /\ w_class (w_both (w_call "M" "missing" false)) = Some (Some ECannotFetch)
  /\ w_class (w_both (w_call "N" "f" true)) = Some None
  /\ w_class (w_both (w_call "N" "f" false)) = Some (Some EReflect)
  /\ fst (w_both (w_call "M" "f" true)) = fst (w_both (w_call "M" "f" false))
  /\ (exists s, fst (w_both (w_call "M" "f" true)) = Done (VNum (NInt KInt 1)) s).
Example probe_replayed : probe_replayed_statement.
Proof. unfold probe_replayed_statement. repeat split; try (vm_compute; reflexivity). vm_compute. eexists. reflexivity. Qed.

(* the answer the model gave BEFORE the gap was closed (Prim.fetch_fn alone decided: EReflect), kept as a
   definition so that the difference stays visible: on the probe's first input it is not what the code does *)
Definition method_result_before (fe : fenv) (v : value) (name : string) : option err :=
  match v with VNil => None | _ => match fetch_fn fe v name with Ok _ => None | Fail e => Some e end end.
Definition old_model_agrees_with_code : Prop :=
  forall v name, skips_call v name = true -> method_result_before w_fe v name = None.
Theorem old_model_refuted : ~ old_model_agrees_with_code.
Proof. intro H. specialize (H w_M "nili" eq_refl). vm_compute in H. discriminate H. Qed.

(* BC/ReuseProofs.v — C07: when the prologue resets every field the loop can observe, a run on a
   reused VM equals the run on a fresh VM, for every history; without the reset of the allocation
   counter this is false. *)
From Coq Require Import ZArith Bool List String Arith Lia.
Require Import X.Base.Num X.Base.Value X.Sem.Prim X.Sem.Sem X.BC.Instr X.BC.VM X.BC.RunProofs X.BC.BudgetRun X.BC.Reuse.
Import ListNotations.

Definition resets_all (resets : list vfield) : bool := forallb (fun f => has f resets) all_vfields.

Lemma prologue_indep resets vm : resets_all resets = true -> prologue resets vm = prologue resets fresh_vm.
Proof.
  unfold resets_all. cbn [forallb all_vfields]. intros H.
  repeat (apply andb_prop in H; destruct H as [? H]).
  unfold prologue. repeat match goal with E : has _ resets = true |- _ => rewrite E; clear E end. reflexivity.
Qed.

Lemma run_on_indep fe resets fuel cfg env C vm :
  resets_all resets = true -> run_on fe resets fuel cfg env C vm = run_on fe resets fuel cfg env C fresh_vm.
Proof. intros H. unfold run_on. rewrite (prologue_indep resets vm H). reflexivity. Qed.

Theorem reuse_history fe resets fuel : resets_all resets = true ->
  forall h vm, run_history fe resets fuel vm h = fresh_results fe resets fuel h.
Proof.
  intros H h. induction h as [|[[cfg env] C] rest IH]; intros vm; cbn [run_history fresh_results map]; auto.
  rewrite (run_on_indep fe resets fuel cfg env C vm H).
  destruct (run_on fe resets fuel cfg env C fresh_vm) as [[r vm']|]; cbn [option_map fst]; f_equal; apply IH.
Qed.

(* the allocation counter must be among the reset fields: a two-run history on a program that
   allocates two elements, budget 3 *)
Definition alloc2 : code := [(IPush (vint 1), noloc); (IPush (vint 2), noloc); (IPush (vint 2), noloc); (IArray, noloc)].
Definition no_fenv : fenv :=
  mkFenv (fun _ => None) (fun _ _ _ => Fail EOther) (fun _ _ _ => None) (fun _ _ => None) (fun _ _ => PrimFloat.zero).

Theorem memory_reset_needed :
  let resets := [FStack; FScopes; FIp] in
  let h := [(mkCfg false 3, VNil, alloc2); (mkCfg false 3, VNil, alloc2)] in
  run_history no_fenv resets 10 fresh_vm h <> fresh_results no_fenv resets 10 h.
Proof. vm_compute. discriminate. Qed.

Example reuse_nonvacuous :
  resets_all all_vfields = true /\
  run_history no_fenv all_vfields 10 fresh_vm [(mkCfg false 3, VNil, alloc2); (mkCfg false 3, VNil, alloc2)]
  = [Some (Done (VArr TIface [vint 1; vint 2]) (mkRS 2 [])); Some (Done (VArr TIface [vint 1; vint 2]) (mkRS 2 []))].
Proof. vm_compute. split; reflexivity. Qed.

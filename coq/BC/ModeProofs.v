(* BC/ModeProofs.v — C15: the type-directed specialisations compute what the generic forms compute
   whenever their static precondition holds dynamically; environments of different shape with the
   same members resolve members identically. *)
From Coq Require Import ZArith Bool List String.
Require Import X.Base.Num X.Base.Value X.Syn.Ast X.Sem.Prim X.Sem.Sem X.BC.Instr X.BC.Compiler X.BC.VM.
Import ListNotations.
Local Open Scope Z_scope.

Lemma as_int_inv v x : as_int v = Ok x -> v = vint x.
Proof. destruct v; try discriminate. destruct n; try discriminate. destruct k; try discriminate. intros H; inversion H; reflexivity. Qed.

Lemma as_str_inv v x : as_str v = Ok x -> v = VStr x.
Proof. destruct v; try discriminate. intros H; inversion H; reflexivity. Qed.

(* OpEqualInt = OpEqual on two ints *)
Lemma equal_int_generic va vb x y :
  as_int va = Ok x -> as_int vb = Ok y -> p_equal va vb = Ok (VBool (x =? y)).
Proof. intros Ha Hb. apply as_int_inv in Ha. apply as_int_inv in Hb. subst. reflexivity. Qed.

(* OpEqualString = OpEqual on two strings *)
Lemma equal_string_generic va vb x y :
  as_str va = Ok x -> as_str vb = Ok y -> p_equal va vb = Ok (VBool (String.eqb x y)).
Proof. intros Ha Hb. apply as_str_inv in Ha. apply as_str_inv in Hb. subst. reflexivity. Qed.

(* the `==` node: whenever the specialised form succeeds, the generic form gives the same value *)
Lemma eq_specialised_agrees l va vb r v r' :
  (lift l r (as_int va) (fun a => lift l r (as_int vb) (fun b => Done (VBool (a =? b)) r)) = Done v r' \/
   lift l r (as_str va) (fun a => lift l r (as_str vb) (fun b => Done (VBool (String.eqb a b)) r)) = Done v r') ->
  lift l r (p_equal va vb) (fun w => Done w r) = Done v r'.
Proof.
  intros [H|H].
  - destruct (as_int va) as [a|] eqn:Ea; [|discriminate]. destruct (as_int vb) as [b|] eqn:Eb; [|discriminate].
    cbn in H. rewrite (equal_int_generic _ _ _ _ Ea Eb). exact H.
  - destruct (as_str va) as [a|] eqn:Ea; [|discriminate]. destruct (as_str vb) as [b|] eqn:Eb; [|discriminate].
    cbn in H. rewrite (equal_string_generic _ _ _ _ Ea Eb). exact H.
Qed.

(* OpFetchMap = OpFetch on a map[string]interface{} environment *)
Lemma fetch_map_generic limit m name ns :
  fetch_ident (mkCfg true limit) (VMap TString TIface m) name ns =
  fetch_ident (mkCfg false limit) (VMap TString TIface m) name ns.
Proof.
  unfold fetch_ident. cbn [c_mapenv p_fetch dyn_type assignable ty_eqb orb].
  destruct (assoc_val (VStr name) m); reflexivity.
Qed.

(* OpCallFast = OpCall on a func(...interface{}) interface{} *)
Lemma args_ok_variadic_any args : args_ok [TSlice TIface] true args = true.
Proof.
  cbn [args_ok]. induction args as [|a args IH]; cbn [forallb]; auto. rewrite IH.
  unfold assignable. rewrite orb_true_r. reflexivity.
Qed.

Lemma call_fast_generic fe l id recv args s sg :
  fn_sig fe id = Some sg -> s_ins sg = [TSlice TIface] -> s_variadic sg = true -> s_nout sg = 1 -> s_fast sg = true ->
  do_call fe l true id recv args s = do_call fe l false id recv args s.
Proof.
  intros Hs Hi Hv Hn Hf. unfold do_call. rewrite Hs, Hf, Hi, Hv, args_ok_variadic_any, Hn.
  destruct (fn_run fe id recv args); reflexivity.
Qed.

(* a typed integer literal is the Go conversion of the untyped one *)
Lemma int_const_is_conversion a z k :
  akind a = RKNum k -> exists n, convert k (NInt KInt z) = Some n /\ int_const a z = VNum n.
Proof.
  intros H. unfold int_const. rewrite H. cbn [convert]. destruct (is_float k); eexists; split; reflexivity.
Qed.

Lemma int_const_untyped a z : (forall k, akind a <> RKNum k) -> int_const a z = vint z.
Proof. intros H. unfold int_const. destruct (akind a); try reflexivity. exfalso. eapply H; reflexivity. Qed.

(* a struct, a pointer to it and a map with the same members resolve members identically *)
Lemma fetch_struct_ptr n fields i ns :
  p_fetch (VStruct n false fields) i ns = p_fetch (VStruct n true fields) i ns.
Proof. reflexivity. Qed.

Definition as_map (fields : list (string * value)) : list (value * value) := map (fun kv => (VStr (fst kv), snd kv)) fields.

Lemma assoc_as_map name fields : assoc_val (VStr name) (as_map fields) = assoc_str name fields.
Proof.
  induction fields as [|[k v] rest IH]; cbn; auto.
  rewrite String.eqb_sym. destruct (String.eqb name k); auto.
Qed.

Lemma fetch_struct_map n p fields name ns v :
  p_fetch (VStruct n p fields) (VStr name) ns = Ok v -> assoc_str name fields <> None ->
  p_fetch (VMap TString TIface (as_map fields)) (VStr name) ns = Ok v.
Proof.
  cbn [p_fetch dyn_type assignable ty_eqb orb]. rewrite assoc_as_map.
  destruct (assoc_str name fields); [auto|contradiction].
Qed.

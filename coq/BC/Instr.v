(* BC/Instr.v — the instruction set of vm/opcodes.go as an IR with inline constants and
   relative byte offsets; sizes in bytes (1 opcode byte + 2 operand bytes where an operand exists). *)
From Coq Require Import ZArith Bool List String Arith.
Require Import X.Base.Num X.Base.Value.
Import ListNotations.
Local Open Scope nat_scope.

Inductive instr :=
| IPush (v : value) | IPop | IRot
| IFetch (name : string) | IFetchNilSafe (name : string) | IFetchMap (name : string)
| ITrue | IFalse | INil | INegate | INot
| IEqual | IEqualInt | IEqualString
| IJump (off : nat) | IJumpIfTrue (off : nat) | IJumpIfFalse (off : nat) | IJumpBackward (off : nat)
| IIn | ILess | IMore | ILessOrEqual | IMoreOrEqual
| IAdd | ISubtract | IMultiply | IDivide | IModulo | IExponent | IRange
| IMatches | IMatchesConst (re : string) | IContains | IStartsWith | IEndsWith
| IIndex | ISlice | IProperty (name : string) | IPropertyNilSafe (name : string)
| ICall (name : string) (n : nat) | ICallFast (name : string) (n : nat)
| IMethod (name : string) (n : nat) | IMethodNilSafe (name : string) (n : nat)
| IArray | IMap | ILen | ICast (t : Z)
| IStore (k : string) | ILoad (k : string) | IInc (k : string) | IBegin | IEnd.

Definition isize (i : instr) : nat :=
  match i with
  | IPush _ | IFetch _ | IFetchNilSafe _ | IFetchMap _
  | IJump _ | IJumpIfTrue _ | IJumpIfFalse _ | IJumpBackward _
  | IMatchesConst _ | IProperty _ | IPropertyNilSafe _
  | ICall _ _ | ICallFast _ _ | IMethod _ _ | IMethodNilSafe _ _
  | ICast _ | IStore _ | ILoad _ | IInc _ => 3
  | _ => 1
  end.

(* an instruction with the source location recorded for it (program.Locations[pp]) *)
Definition linstr := (instr * loc)%type.
Definition code := list linstr.

Fixpoint csize (c : code) : nat :=
  match c with [] => 0 | (i, _) :: r => isize i + csize r end.

Lemma csize_app a b : csize (a ++ b) = csize a + csize b.
Proof. induction a as [|[i l] a IH]; simpl; auto. rewrite IH. apply Nat.add_assoc. Qed.

Lemma isize_pos i : 0 < isize i.
Proof. destruct i; simpl; auto with arith. Qed.

(* instruction that starts at byte offset p; None when p is not an instruction boundary *)
Fixpoint fetch (C : code) (p : nat) : option linstr :=
  match C with
  | [] => None
  | (i, l) :: C' =>
      if Nat.eqb p 0 then Some (i, l)
      else if Nat.ltb p (isize i) then None else fetch C' (p - isize i)
  end.
